(* C13 -- proofs about Model/C13_stats.v: the statistics clause of the property *)
From Coq Require Import String.
From Coq Require Import Arith List Bool Lia Reals Lra Permutation.
From Typhon Require Import Model.C13_compact Proofs.C13_compact Model.C13_stats.
Import ListNotations.

(* ------------------------------------------------------------------ NaN-ignoring views of a column *)
Lemma somes_app {A} (l1 l2 : list (option A)) : somes (l1 ++ l2) = somes l1 ++ somes l2.
Proof. unfold somes. apply flat_map_app. Qed.

Lemma somes_view_map {A X} (f : A -> option X) (l : list A) :
  somes (map (cell_view f) (map Some l)) = somes (map f l).
Proof. rewrite map_map. reflexivity. Qed.

Lemma somes_view_pad {A X} (f : A -> option X) k :
  somes (map (cell_view f) (repeat None k)) = [].
Proof. induction k as [|k IH]; [reflexivity|]. cbn [repeat map cell_view]. exact IH. Qed.

Lemma view_column {A X} (f : A -> option X) (l : list A) k :
  somes (map (cell_view f) (map Some l ++ repeat None k)) = somes (map f l).
Proof. rewrite map_app, somes_app, somes_view_map, somes_view_pad. apply app_nil_r. Qed.

Lemma somes_nil_iff {X} (l : list (option X)) : somes l = [] <-> Forall (fun o => o = None) l.
Proof.
  induction l as [|[x|] t IH].
  - split; [constructor|reflexivity].
  - split; [discriminate|]. intros H. inversion H as [|? ? E _]. discriminate.
  - change (somes (None :: t)) with (somes t). rewrite IH. split.
    + intros H. constructor; [reflexivity|exact H].
    + intros H. inversion H; assumption.
Qed.

Lemma count_zero_iff {X} (l : list (option X)) : count l = 0 <-> Forall (fun o => o = None) l.
Proof. unfold count. rewrite <- somes_nil_iff. apply length_zero_iff_nil. Qed.

Lemma nanmean_none_iff l : nanmean l = None <-> Forall (fun o => o = None) l.
Proof. rewrite <- somes_nil_iff. unfold nanmean. destruct (somes l); split; intros H; try reflexivity; discriminate. Qed.

Lemma nanstd_none_iff l : nanstd l = None <-> Forall (fun o => o = None) l.
Proof. rewrite <- somes_nil_iff. unfold nanstd. destruct (somes l); split; intros H; try reflexivity; discriminate. Qed.

Lemma somes_map_none_iff {A X} (f : A -> option X) (l : list A) :
  somes (map f l) = [] <-> Forall (fun a => f a = None) l.
Proof. rewrite somes_nil_iff, Forall_map. reflexivity. Qed.

(* dictionaries *)
Lemma lookup_map_val {V W} (g : String.string -> V -> W) (d : dict V) k :
  lookup k (map (fun kv => (fst kv, g (fst kv) (snd kv))) d) = option_map (g k) (lookup k d).
Proof.
  induction d as [|[k' v] t IH]; [reflexivity|]. cbn [map lookup fst snd].
  destruct (String.eqb_spec k k') as [->|Hn]; [reflexivity|exact IH].
Qed.

Lemma lookup_app {V} (d1 d2 : dict V) k :
  lookup k (d1 ++ d2) = match lookup k d1 with Some v => Some v | None => lookup k d2 end.
Proof.
  induction d1 as [|[k' v] t IH]; [reflexivity|]. cbn [app lookup fst snd].
  destruct (String.eqb k k'); [reflexivity|exact IH].
Qed.

Lemma lookup_filter_key {V} (p : String.string -> bool) (d : dict V) k :
  lookup k (filter (fun kv => p (fst kv)) d) = if p k then lookup k d else None.
Proof.
  induction d as [|[k' v] t IH]; [destruct (p k); reflexivity|]. cbn [filter fst lookup].
  destruct (p k') eqn:Ep; cbn [lookup fst snd]; destruct (String.eqb_spec k k') as [->|Hn].
  - rewrite Ep. reflexivity.
  - exact IH.
  - rewrite IH, Ep. reflexivity.
  - exact IH.
Qed.

(* python's {**defaults, **custom}: the custom entry wins, otherwise the default *)
Lemma lookup_merge {V} (defaults custom : dict V) k :
  lookup k (merge defaults custom)
  = match lookup k custom with Some v => Some v | None => lookup k defaults end.
Proof.
  unfold merge. rewrite lookup_app.
  rewrite (lookup_map_val (fun k v => match lookup k custom with Some v' => v' | None => v end)).
  rewrite (lookup_filter_key (fun k => negb (has_key k defaults))). unfold has_key.
  destruct (lookup k defaults) as [v|]; cbn [option_map negb]; destruct (lookup k custom); reflexivity.
Qed.

Lemma merge_keys {V} (defaults custom : dict V) :
  map fst (merge defaults custom)
  = map fst defaults ++ filter (fun k => negb (existsb (String.eqb k) (map fst defaults))) (map fst custom).
Proof.
  unfold merge. rewrite map_app, map_map. cbn [fst]. f_equal.
  assert (E : forall k, has_key k defaults = existsb (String.eqb k) (map fst defaults)).
  { intros k. unfold has_key. induction defaults as [|[k' v] t IH]; [reflexivity|]. cbn [lookup map existsb fst snd].
    destruct (String.eqb k k'); [reflexivity|exact IH]. }
  induction custom as [|[k v] t IH]; [reflexivity|]. cbn [filter map fst]. rewrite E.
  destruct (existsb (String.eqb k) (map fst defaults)); cbn [negb map fst]; rewrite IH; reflexivity.
Qed.

Lemma merge_nil {V} (defaults : dict V) : merge defaults [] = defaults.
Proof.
  unfold merge. cbn [filter lookup]. rewrite app_nil_r. rewrite <- (map_id defaults) at 2.
  apply map_ext. intros [k v]. reflexivity.
Qed.

Lemma effective_names custom : map fst (effective_collapsers custom) = collapser_names (map fst custom).
Proof.
  unfold effective_collapsers, collapser_names. rewrite !merge_keys. rewrite !map_map. cbn [fst].
  rewrite map_id. reflexivity.
Qed.

(* ------------------------------------------------------------------ what the statistics see of a column *)
Lemma collapse_view_l {A X} (f : A -> option X) (d : A) refrow otherrow (vals : list A) n c :
  length refrow = length otherrow -> row_ok n refrow -> c < n ->
  somes (map (cell_view f) (column (collapse_model d refrow otherrow vals) c))
  = somes (map f (gather d (partner_points refrow otherrow c) vals)).
Proof.
  intros Hl Hok Hc. destruct (collapse_exact_l d refrow otherrow vals n c Hl Hok Hc) as [E _].
  rewrite E. apply view_column.
Qed.

Lemma partner_points_nonempty refrow otherrow n c :
  length refrow = length otherrow -> row_ok n refrow -> c < n -> partner_points refrow otherrow c <> [].
Proof.
  intros Hl [_ Hs] Hc. pose proof (cnt_pos c refrow (Hs c Hc)) as Hp.
  assert (E : length (partner_points refrow otherrow c) = cnt c refrow).
  { unfold partner_points. change (length (partners refrow otherrow c) = cnt c refrow).
    apply partners_length. exact Hl. }
  intros Hn. rewrite Hn in E. cbn [length] in E. lia.
Qed.

(* ------------------------------------------------------------------ fields of the default collapsers *)
Lemma lookup_collapse_var {A} (f : A -> option R) (d : A) refrow otherrow (vals : list A) custom name :
  lookup name (collapse_var f d refrow otherrow vals custom)
  = option_map (fun g : collapser => map (fun col => g (map (cell_view f) col)) (collapse_model d refrow otherrow vals))
      (match lookup name custom with Some g => Some g | None => lookup name default_collapsers end).
Proof.
  unfold collapse_var. cbv zeta.
  rewrite (lookup_map_val (fun _ (g : collapser) => map (fun col => g (map (cell_view f) col)) (collapse_model d refrow otherrow vals))).
  unfold effective_collapsers. rewrite lookup_merge. reflexivity.
Qed.

Lemma field_collapse_var {A} (f : A -> option R) (d : A) refrow otherrow (vals : list A) custom name (g : collapser) n c :
  length refrow = length otherrow -> row_ok n refrow -> c < n ->
  match lookup name custom with Some g => Some g | None => lookup name default_collapsers end = Some g ->
  field name c (collapse_var f d refrow otherrow vals custom)
  = Some (g (map (cell_view f) (column (collapse_model d refrow otherrow vals) c))).
Proof.
  intros Hl Hok Hc Hg. unfold field. rewrite lookup_collapse_var, Hg. cbn [option_map].
  destruct (collapse_exact_l d refrow otherrow vals n c Hl Hok Hc) as [_ Hlen].
  unfold column. rewrite <- Hlen in Hc.
  rewrite nth_error_map. rewrite (nth_error_nth' _ [] Hc). reflexivity.
Qed.

Lemma collapse_var_stats_l {A} (f : A -> option R) (d : A) refrow otherrow (vals : list A) n c :
  length refrow = length otherrow -> row_ok n refrow -> c < n ->
  let res := collapse_var f d refrow otherrow vals [] in
  let pv := somes (map f (gather d (partner_points refrow otherrow c) vals)) in
  map fst res = default_names /\
  field "mean" c res = Some (Fl (stat_mean pv)) /\
  field "std" c res = Some (Fl (stat_std pv)) /\
  field "number" c res = Some (Cnt (length pv)).
Proof.
  intros Hl Hok Hc res pv. subst res.
  pose proof (collapse_view_l f d refrow otherrow vals n c Hl Hok Hc) as V. fold pv in V. clearbody pv.
  split; [|split; [|split]].
  - unfold collapse_var. cbv zeta. rewrite map_map. cbn [fst].
    change (map fst (effective_collapsers []) = default_names). rewrite effective_names. reflexivity.
  - rewrite (field_collapse_var f d refrow otherrow vals [] "mean" (fun l => Fl (nanmean l)) n c Hl Hok Hc eq_refl).
    unfold nanmean. rewrite V. destruct pv; reflexivity.
  - rewrite (field_collapse_var f d refrow otherrow vals [] "std" (fun l => Fl (nanstd l)) n c Hl Hok Hc eq_refl).
    unfold nanstd. rewrite V. destruct pv; reflexivity.
  - rewrite (field_collapse_var f d refrow otherrow vals [] "number" (fun l => Cnt (count l)) n c Hl Hok Hc eq_refl).
    unfold count. rewrite V. reflexivity.
Qed.

(* either reference, on a compact dataset *)
Lemma compact_ok_ref {A} (d : cds A A) rs : compact_ok d ->
  length (ref_row d rs) = length (other_row d rs) /\ row_ok (n_ref d rs) (ref_row d rs).
Proof. intros (Hl & Hp & Hs). destruct rs; cbn [ref_row other_row n_ref]; split; auto. Qed.

Lemma collapse_mean_std_number_l {A} (f : A -> option R) (dflt : A) (d : cds A A) (rs : bool) c :
  compact_ok d -> c < n_ref d rs ->
  let res := collapse_call f dflt (mk_call d rs []) in
  let pv := somes (map f (gather dflt (partner_points (ref_row d rs) (other_row d rs) c) (other_vals d rs))) in
  map fst res = default_names /\
  field "mean" c res = Some (Fl (stat_mean pv)) /\
  field "std" c res = Some (Fl (stat_std pv)) /\
  field "number" c res = Some (Cnt (length pv)).
Proof.
  intros Hok Hc. destruct (compact_ok_ref d rs Hok) as [Hl Hr].
  exact (collapse_var_stats_l f dflt _ _ (other_vals d rs) _ c Hl Hr Hc).
Qed.

(* NaN / 0 exactly when every partner value is NaN *)
Lemma collapse_nan_iff_l {A} (f : A -> option R) (dflt : A) (d : cds A A) (rs : bool) c :
  compact_ok d -> c < n_ref d rs ->
  let res := collapse_call f dflt (mk_call d rs []) in
  let partners := gather dflt (partner_points (ref_row d rs) (other_row d rs) c) (other_vals d rs) in
  partners <> [] /\
  (field "mean" c res = Some (Fl None) <-> Forall (fun a => f a = None) partners) /\
  (field "std" c res = Some (Fl None) <-> Forall (fun a => f a = None) partners) /\
  (field "number" c res = Some (Cnt 0) <-> Forall (fun a => f a = None) partners).
Proof.
  intros Hok Hc res pp.
  destruct (collapse_mean_std_number_l f dflt d rs c Hok Hc) as (_ & Hm & Hs & Hn).
  fold res in Hm, Hs, Hn. fold pp in Hm, Hs, Hn.
  destruct (compact_ok_ref d rs Hok) as [Hl Hr].
  split; [|split; [|split]].
  - subst pp. unfold gather. intros E. apply map_eq_nil in E.
    exact (partner_points_nonempty _ _ _ c Hl Hr Hc E).
  - rewrite Hm, <- somes_map_none_iff. unfold stat_mean. destruct (somes (map f pp)); split; intros H; try reflexivity; try discriminate.
  - rewrite Hs, <- somes_map_none_iff. unfold stat_std. destruct (somes (map f pp)); split; intros H; try reflexivity; try discriminate.
  - rewrite Hn, <- somes_map_none_iff. split.
    + intros H. inversion H as [E]. apply length_zero_iff_nil. exact E.
    + intros ->. reflexivity.
Qed.

(* ------------------------------------------------------------------ order of the pairs *)
Lemma Permutation_filter' {X} (p : X -> bool) l l' : Permutation l l' -> Permutation (filter p l) (filter p l').
Proof.
  induction 1 as [|x l l' _ IH|x y l|l l' l'' _ IH1 _ IH2]; cbn [filter].
  - constructor.
  - destruct (p x); [constructor|]; exact IH.
  - destruct (p x), (p y); try apply Permutation_refl. apply perm_swap.
  - eapply Permutation_trans; eassumption.
Qed.

Lemma Permutation_somes {X} (l l' : list (option X)) : Permutation l l' -> Permutation (somes l) (somes l').
Proof.
  induction 1 as [|x l l' _ IH|x y l|l l' l'' _ IH1 _ IH2].
  - constructor.
  - destruct x; cbn [somes flat_map app]; [constructor|]; exact IH.
  - destruct x, y; cbn [somes flat_map app]; try apply Permutation_refl. apply perm_swap.
  - eapply Permutation_trans; eassumption.
Qed.

Lemma sumR_perm v v' : Permutation v v' -> sumR v = sumR v'.
Proof.
  induction 1 as [|x l l' _ IH|x y l|l l' l'' _ IH1 _ IH2]; unfold sumR in *; cbn [fold_right].
  - reflexivity.
  - rewrite IH. reflexivity.
  - lra.
  - congruence.
Qed.

Lemma mean_perm v v' : Permutation v v' -> mean v = mean v'.
Proof. intros H. unfold mean. rewrite (sumR_perm _ _ H), (Permutation_length H). reflexivity. Qed.

Lemma pstd_perm v v' : Permutation v v' -> pstd v = pstd v'.
Proof.
  intros H. unfold pstd. rewrite (mean_perm _ _ H), (Permutation_length H).
  rewrite (sumR_perm _ _ (Permutation_map (fun x => (x - mean v') * (x - mean v'))%R H)). reflexivity.
Qed.

Lemma stat_mean_perm v v' : Permutation v v' -> stat_mean v = stat_mean v'.
Proof.
  intros H. unfold stat_mean. destruct v as [|x t].
  - apply Permutation_nil in H. subst v'. reflexivity.
  - destruct v' as [|y t']; [apply Permutation_sym, Permutation_nil in H; discriminate|].
    rewrite (mean_perm _ _ H). reflexivity.
Qed.

Lemma stat_std_perm v v' : Permutation v v' -> stat_std v = stat_std v'.
Proof.
  intros H. unfold stat_std. destruct v as [|x t].
  - apply Permutation_nil in H. subst v'. reflexivity.
  - destruct v' as [|y t']; [apply Permutation_sym, Permutation_nil in H; discriminate|].
    rewrite (pstd_perm _ _ H). reflexivity.
Qed.

Lemma map_fst_combine {X Y} (l1 : list X) : forall (l2 : list Y), length l1 = length l2 -> map fst (combine l1 l2) = l1.
Proof. induction l1 as [|a t IH]; intros [|b t2] H; cbn [length] in H; try discriminate; cbn [combine map fst]; [reflexivity|]. rewrite IH by lia. reflexivity. Qed.

Lemma row_ok_perm n r r' : Permutation r r' -> row_ok n r -> row_ok n r'.
Proof.
  intros H [Hb Hs]. split.
  - eapply Permutation_Forall; eassumption.
  - intros i Hi. eapply Permutation_in; [exact H|]. apply Hs; exact Hi.
Qed.

Lemma collapse_pair_order_l {A} (f : A -> option R) (d : A) refrow otherrow refrow' otherrow' (vals : list A) n c name :
  length refrow = length otherrow -> length refrow' = length otherrow' ->
  Permutation (combine refrow otherrow) (combine refrow' otherrow') ->
  row_ok n refrow -> c < n -> In name default_names ->
  field name c (collapse_var f d refrow otherrow vals []) = field name c (collapse_var f d refrow' otherrow' vals []).
Proof.
  intros Hl Hl' HP Hok Hc Hname.
  assert (Hok' : row_ok n refrow').
  { apply (row_ok_perm n refrow); [|exact Hok].
    rewrite <- (map_fst_combine refrow otherrow Hl), <- (map_fst_combine refrow' otherrow' Hl').
    apply Permutation_map. exact HP. }
  destruct (collapse_var_stats_l f d refrow otherrow vals n c Hl Hok Hc) as (_ & Hm & Hs & Hn).
  destruct (collapse_var_stats_l f d refrow' otherrow' vals n c Hl' Hok' Hc) as (_ & Hm' & Hs' & Hn').
  assert (PV : Permutation (somes (map f (gather d (partner_points refrow otherrow c) vals)))
                           (somes (map f (gather d (partner_points refrow' otherrow' c) vals)))).
  { apply Permutation_somes, Permutation_map. unfold gather. apply Permutation_map.
    unfold partner_points. apply Permutation_map, Permutation_filter'. exact HP. }
  cbn [default_names In] in Hname. destruct Hname as [<-|[<-|[<-|[]]]].
  - rewrite Hm, Hm', (stat_mean_perm _ _ PV). reflexivity.
  - rewrite Hs, Hs', (stat_std_perm _ _ PV). reflexivity.
  - rewrite Hn, Hn', (Permutation_length PV). reflexivity.
Qed.

(* ------------------------------------------------------------------ calls are independent *)
Lemma run_calls_nth {A} (f : A -> option R) (dflt : A) (h t : list (call A)) (a : call A) :
  nth (length h) (run_calls f dflt (h ++ a :: t)) [] = collapse_call f dflt a.
Proof.
  unfold run_calls. rewrite map_app. cbn [map].
  rewrite app_nth2 by (rewrite map_length; lia). rewrite map_length, Nat.sub_diag. reflexivity.
Qed.

Lemma collapse_call_names {A} (f : A -> option R) (dflt : A) (a : call A) :
  map fst (collapse_call f dflt a) = collapser_names (map fst (c_custom a)).
Proof.
  unfold collapse_call, collapse_var. cbv zeta. rewrite map_map. cbn [fst]. apply effective_names.
Qed.

Lemma collapse_call_independent_l {A} (f : A -> option R) (dflt : A) (h1 t1 h2 t2 : list (call A)) (a : call A) :
  nth (length h1) (run_calls f dflt (h1 ++ a :: t1)) [] = nth (length h2) (run_calls f dflt (h2 ++ a :: t2)) []
  /\ nth (length h1) (run_calls f dflt (h1 ++ a :: t1)) [] = collapse_call f dflt a
  /\ map fst (collapse_call f dflt a) = collapser_names (map fst (c_custom a))
  /\ (c_custom a = [] -> map fst (collapse_call f dflt a) = default_names).
Proof.
  rewrite !run_calls_nth. split; [reflexivity|]. split; [reflexivity|]. split; [apply collapse_call_names|].
  intros E. rewrite collapse_call_names, E. reflexivity.
Qed.

(* a custom entry replaces the function of that name only; the other defaults stay *)
Lemma collapse_custom_l {A} (f : A -> option R) (d : A) refrow otherrow (vals : list A) custom name :
  (lookup name custom = None ->
     lookup name (collapse_var f d refrow otherrow vals custom) = lookup name (collapse_var f d refrow otherrow vals [])) /\
  (forall g, lookup name custom = Some g ->
     lookup name (collapse_var f d refrow otherrow vals custom)
     = Some (map (fun col => g (map (cell_view f) col)) (collapse_model d refrow otherrow vals))).
Proof.
  split.
  - intros E. rewrite !lookup_collapse_var, E. reflexivity.
  - intros g E. rewrite lookup_collapse_var, E. reflexivity.
Qed.

(* ------------------------------------------------------------------ counting through a validity mask *)
Lemma count_view_mask {A B X Y} (f : A -> option X) (g : B -> option Y) (h : A -> B) (l : list (option A)) :
  (forall a, f a = None <-> g (h a) = None) ->
  count (map (cell_view f) l) = count (map (cell_view g) (map (option_map h) l)).
Proof.
  intros H. unfold count. induction l as [|[a|] t IH]; [reflexivity| |exact IH].
  cbn [map option_map cell_view]. specialize (H a).
  destruct (f a) as [x|] eqn:Ef, (g (h a)) as [y|] eqn:Eg.
  - change (S (length (somes (map (cell_view f) t))) = S (length (somes (map (cell_view g) (map (option_map h) t))))).
    rewrite IH. reflexivity.
  - exfalso. destruct H as [_ H]. specialize (H eq_refl). discriminate.
  - exfalso. destruct H as [H _]. specialize (H eq_refl). discriminate.
  - exact IH.
Qed.

Lemma gather_map {A B} (h : A -> B) (d : A) idx vals : map h (gather d idx vals) = gather (h d) idx (map h vals).
Proof.
  unfold gather. rewrite map_map. apply map_ext. intros i.
  rewrite <- (map_nth h). reflexivity.
Qed.

Lemma collapse_number_by_mask_l {A B X Y} (f : A -> option X) (g : B -> option Y) (h : A -> B) (d : A)
    refrow otherrow (vals : list A) n c :
  (forall a, f a = None <-> g (h a) = None) ->
  length refrow = length otherrow -> row_ok n refrow -> c < n ->
  count (map (cell_view f) (column (collapse_model d refrow otherrow vals) c))
  = count (map (cell_view g) (column (collapse_model (h d) refrow otherrow (map h vals)) c)).
Proof.
  intros H Hl Hok Hc. rewrite (count_view_mask f g h _ H). unfold collapse_model.
  assert (Hlv : length (gather d otherrow vals) = length refrow) by (unfold gather; rewrite map_length; lia).
  rewrite (bins_lanes_l h refrow _ n c Hlv Hok Hc). rewrite gather_map. reflexivity.
Qed.

(* ------------------------------------------------------------------ the statistics themselves *)
Lemma sumR_sq_nonneg m v : (0 <= sumR (map (fun x => (x - m) * (x - m)) v))%R.
Proof.
  induction v as [|x t IH]; cbn [map sumR fold_right]; [lra|].
  pose proof (Rle_0_sqr (x - m)) as H. unfold Rsqr in H. unfold sumR in IH. lra.
Qed.

Lemma pstd_nonneg v : (0 <= pstd v)%R.
Proof. unfold pstd. apply sqrt_pos. Qed.

(* the deviations from the mean sum to zero: `mean` is the arithmetic mean *)
Lemma sumR_map_sub m v : sumR (map (fun x => x - m)%R v) = (sumR v - INR (length v) * m)%R.
Proof.
  induction v as [|x t IH]; [cbn; lra|]. change (length (x :: t)) with (S (length t)). rewrite S_INR.
  unfold sumR in *. cbn [map fold_right]. rewrite IH. lra.
Qed.

Lemma mean_centre v : v <> [] -> sumR (map (fun x => x - mean v)%R v) = 0%R.
Proof.
  intros Hv. rewrite sumR_map_sub. unfold mean.
  assert (Hn : INR (length v) <> 0%R). { apply not_0_INR. destruct v; [congruence|discriminate]. }
  field. exact Hn.
Qed.

(* std = 0 exactly for constant values *)
Lemma sumR_sq_zero m v : sumR (map (fun x => (x - m) * (x - m))%R v) = 0%R -> Forall (fun x => x = m) v.
Proof.
  induction v as [|x t IH]; intros H; [constructor|]. cbn [map sumR fold_right] in H.
  pose proof (sumR_sq_nonneg m t) as Ht. unfold sumR in Ht.
  pose proof (Rle_0_sqr (x - m)) as Hx. unfold Rsqr in Hx.
  assert (E1 : ((x - m) * (x - m) = 0)%R) by lra.
  assert (E2 : fold_right Rplus 0%R (map (fun x => (x - m) * (x - m))%R t) = 0%R) by lra.
  constructor; [|apply IH; exact E2].
  apply Rmult_integral in E1. lra.
Qed.

Lemma pstd_zero_iff v : v <> [] -> (pstd v = 0%R <-> Forall (fun x => x = mean v) v).
Proof.
  intros Hv.
  assert (Hn : (0 < INR (length v))%R). { apply lt_0_INR. destruct v; [congruence|cbn [length]; lia]. }
  unfold pstd. split.
  - intros H. apply sqrt_eq_0 in H.
    + apply sumR_sq_zero. apply (Rmult_eq_compat_r (INR (length v))) in H. unfold Rdiv in H.
      rewrite Rmult_assoc, Rinv_l, Rmult_1_r, Rmult_0_l in H by lra. exact H.
    + apply Rmult_le_pos; [apply sumR_sq_nonneg|]. apply Rlt_le, Rinv_0_lt_compat. exact Hn.
  - intros H. assert (E : sumR (map (fun x => (x - mean v) * (x - mean v))%R v) = 0%R).
    { set (m := mean v) in *. clearbody m. clear Hv Hn. induction H as [|x t Hx _ IH]; [reflexivity|].
      cbn [map sumR fold_right]. unfold sumR in IH. rewrite IH, Hx. lra. }
    rewrite E. unfold Rdiv. rewrite Rmult_0_l. apply sqrt_0.
Qed.

(* ------------------------------------------------------------------ a worked instance (non-vacuity) *)
Lemma nonvacuous_stats_l :
  let d := mk_cds [0; 0; 1; 2; 1; 0] [0; 1; 0; 0; 2; 2]
                  [[Some 5; Some 1]; [Some 6; None]; [Some 7; Some 2]]%R
                  [[Some 1; None]; [Some 3; None]; [None; None]]%R in
  compact_ok d /\
  (* primary 0 has the partners 0, 1, 2: lane 0 holds 1, 3, NaN; lane 1 holds NaN only *)
  field "mean" 0 (collapse_call (lane 0) [] (mk_call d false [])) = Some (Fl (Some 2%R)) /\
  field "std" 0 (collapse_call (lane 0) [] (mk_call d false [])) = Some (Fl (Some 1%R)) /\
  field "number" 0 (collapse_call (lane 0) [] (mk_call d false [])) = Some (Cnt 2) /\
  field "mean" 0 (collapse_call (lane 1) [] (mk_call d false [])) = Some (Fl None) /\
  field "number" 0 (collapse_call (lane 1) [] (mk_call d false [])) = Some (Cnt 0) /\
  (* secondary 2 has the partners 1, 0 (in pair order): lane 0 holds 6, 5 *)
  field "mean" 2 (collapse_call (lane 0) [] (mk_call d true [])) = Some (Fl (Some (11 / 2)%R)) /\
  field "number" 2 (collapse_call (lane 1) [] (mk_call d true [])) = Some (Cnt 1).
Proof.
  cbv zeta.
  set (d := mk_cds _ _ _ _).
  assert (Hok : compact_ok d) by (apply compact_okb_iff_l; vm_compute; reflexivity).
  split; [exact Hok|].
  assert (H0 : 0 < n_ref d false) by (cbn; repeat constructor).
  assert (H2 : 2 < n_ref d true) by (cbn; repeat constructor).
  destruct (collapse_mean_std_number_l (lane 0) [] d false 0 Hok H0) as (_ & M0 & S0 & N0).
  destruct (collapse_mean_std_number_l (lane 1) [] d false 0 Hok H0) as (_ & M1 & _ & N1).
  destruct (collapse_mean_std_number_l (lane 0) [] d true 2 Hok H2) as (_ & M2 & _ & _).
  destruct (collapse_mean_std_number_l (lane 1) [] d true 2 Hok H2) as (_ & _ & _ & N3).
  rewrite M0, S0, N0, M1, N1, M2, N3. clear.
  cbn. unfold mean, pstd, mean, sumR. cbn.
  repeat split; repeat f_equal; try lra.
  replace ((1 - (1 + (3 + 0)) / (1 + 1)) * (1 - (1 + (3 + 0)) / (1 + 1)) + ((3 - (1 + (3 + 0)) / (1 + 1)) * (3 - (1 + (3 + 0)) / (1 + 1)) + 0))%R with (1 * (1+1))%R by field.
  unfold Rdiv. rewrite Rmult_assoc, Rinv_r by lra. rewrite Rmult_1_r. apply sqrt_1.
Qed.

(* ------------------------------------------------------------------ arbitrary custom functions on datasets with several variables *)
Lemma view_padded {A} (f : A -> option R) (l : list A) k :
  map (cell_view f) (map Some l ++ repeat None k) = map f l ++ repeat None k.
Proof.
  rewrite map_app, map_map. f_equal. induction k as [|k IH]; [reflexivity|]. cbn [repeat map cell_view]. f_equal. exact IH.
Qed.

Lemma lookup_collapse_vars {A} (f : A -> option R) (d : A) refrow otherrow (vars : dict (list A)) custom v :
  lookup v (collapse_vars f d refrow otherrow vars custom)
  = option_map (fun vals => collapse_var f d refrow otherrow vals custom) (lookup v vars).
Proof.
  unfold collapse_vars. induction vars as [|[k x] t IH]; [reflexivity|].
  cbn [map lookup fst snd]. destruct (String.eqb v k); [reflexivity|exact IH].
Qed.

Lemma collapse_custom_function_l {A} (f : A -> option R) (d : A) refrow otherrow n (vars : dict (list A))
    (custom : dict collapser) v vals name (g : collapser) c :
  length refrow = length otherrow -> row_ok n refrow -> c < n ->
  lookup v vars = Some vals -> lookup name custom = Some g ->
  field_of v name c (collapse_vars f d refrow otherrow vars custom) = Some (g (padded_column f d refrow otherrow vals c)) /\
  (forall vars', lookup v vars' = Some vals ->
     field_of v name c (collapse_vars f d refrow otherrow vars' custom)
     = field_of v name c (collapse_vars f d refrow otherrow vars custom)).
Proof.
  intros Hl Hok Hc Hv Hg.
  assert (K : forall vs, lookup v vs = Some vals ->
     field_of v name c (collapse_vars f d refrow otherrow vs custom) = Some (g (padded_column f d refrow otherrow vals c))).
  { intros vs Hvs. unfold field_of. rewrite lookup_collapse_vars, Hvs. cbn [option_map].
    rewrite (field_collapse_var f d refrow otherrow vals custom name g n c Hl Hok Hc) by (rewrite Hg; reflexivity).
    destruct (collapse_exact_l d refrow otherrow vals n c Hl Hok Hc) as [E _]. rewrite E, view_padded. reflexivity. }
  split; [apply K; exact Hv|]. intros vars' Hv'. rewrite (K vars' Hv'), (K vars Hv). reflexivity.
Qed.

(* a function that ignores NaN sees the non-NaN partner values only *)
Lemma somes_padded {A} (f : A -> option R) (d : A) refrow otherrow (vals : list A) c :
  somes (padded_column f d refrow otherrow vals c) = somes (map f (gather d (partner_points refrow otherrow c) vals)).
Proof.
  unfold padded_column. rewrite somes_app.
  assert (E : forall k, somes (repeat (@None R) k) = []) by (induction k as [|k IH]; [reflexivity|exact IH]).
  rewrite E. apply app_nil_r.
Qed.

Lemma nth_padded {X} (l : list (option X)) m k : nth k (l ++ repeat None m) None = nth k l None.
Proof.
  destruct (Nat.lt_ge_cases k (length l)) as [H|H].
  - apply app_nth1. exact H.
  - rewrite app_nth2 by exact H. rewrite (nth_overflow l) by exact H.
    destruct (Nat.lt_ge_cases (k - length l) m) as [H'|H'].
    + apply nth_repeat_lt. exact H'.
    + apply nth_overflow. rewrite repeat_length. exact H'.
Qed.

Lemma last_padded {X} (l : list (option X)) m : last (l ++ repeat None m) None = match m with 0 => last l None | _ => None end.
Proof.
  destruct m as [|m]; [cbn [repeat]; rewrite app_nil_r; reflexivity|].
  replace (repeat (@None X) (S m)) with (repeat (@None X) m ++ [None]).
  - rewrite app_assoc. apply last_last.
  - clear. induction m as [|m IH]; [reflexivity|]. cbn [repeat app]. f_equal. exact IH.
Qed.

Lemma partner_points_length refrow otherrow c :
  length refrow = length otherrow -> length (partner_points refrow otherrow c) = cnt c refrow.
Proof.
  intros Hl. unfold partner_points. change (length (partners refrow otherrow c) = cnt c refrow).
  apply partners_length. exact Hl.
Qed.

(* slot k of the bin: the (k+1)-th partner in the order of the pair list, NaN when there are fewer partners *)
Lemma collapse_slot_l {A} (f : A -> option R) (d : A) refrow otherrow n (vars : dict (list A))
    (custom : dict collapser) v vals name k c :
  length refrow = length otherrow -> row_ok n refrow -> c < n ->
  lookup v vars = Some vals -> lookup name custom = Some (slot k) ->
  let pp := partner_points refrow otherrow c in
  field_of v name c (collapse_vars f d refrow otherrow vars custom)
  = Some (Fl (if k <? length pp then f (nth (nth k pp 0) vals d) else None)) /\
  length pp = cnt c refrow /\ 0 < length pp.
Proof.
  intros Hl Hok Hc Hv Hg pp.
  destruct (collapse_custom_function_l f d refrow otherrow n vars custom v vals name (slot k) c Hl Hok Hc Hv Hg) as [E _].
  assert (Hlen : length pp = cnt c refrow) by (apply partner_points_length; exact Hl).
  split; [|split; [exact Hlen|]].
  - rewrite E. unfold slot, padded_column. rewrite nth_padded. f_equal. f_equal. fold pp.
    destruct (k <? length pp) eqn:Hk.
    + apply Nat.ltb_lt in Hk. unfold gather. rewrite map_map.
      rewrite (nth_indep _ None ((fun i => f (nth i vals d)) 0)) by (rewrite map_length; exact Hk).
      apply (map_nth (fun i => f (nth i vals d))).
    + apply Nat.ltb_ge in Hk. apply nth_overflow. unfold gather. rewrite !map_length. exact Hk.
  - pose proof (partner_points_nonempty refrow otherrow n c Hl Hok Hc) as Hne. fold pp in Hne.
    destruct pp; [congruence|cbn; lia].
Qed.

(* the last slot holds a value only for the reference points with the largest number of partners *)
Lemma collapse_last_slot_l {A} (f : A -> option R) (d : A) refrow otherrow n (vars : dict (list A))
    (custom : dict collapser) v vals name c :
  length refrow = length otherrow -> row_ok n refrow -> c < n ->
  lookup v vars = Some vals -> lookup name custom = Some last_slot ->
  let pp := partner_points refrow otherrow c in
  let h := S (list_max (rows_for refrow)) in
  length pp <= h /\
  field_of v name c (collapse_vars f d refrow otherrow vars custom)
  = Some (Fl (if length pp =? h then f (nth (last pp 0) vals d) else None)).
Proof.
  intros Hl Hok Hc Hv Hg pp h.
  destruct (collapse_custom_function_l f d refrow otherrow n vars custom v vals name last_slot c Hl Hok Hc Hv Hg) as [E _].
  assert (Hlen : length pp = cnt c refrow) by (apply partner_points_length; exact Hl).
  assert (Hv' : length (gather d otherrow vals) = length refrow) by (unfold gather; rewrite map_length; lia).
  destruct (bins_exact_l refrow (gather d otherrow vals) n c Hv' Hok Hc) as (_ & _ & Hpos & Hle).
  fold h in Hle. split; [lia|].
  rewrite E. unfold last_slot, padded_column. rewrite last_padded. fold pp. fold h. rewrite <- Hlen.
  pose proof (partner_points_nonempty refrow otherrow n c Hl Hok Hc) as Hne. fold pp in Hne.
  destruct (length pp =? h) eqn:Eh.
  - apply Nat.eqb_eq in Eh. replace (h - length pp) with 0 by lia. f_equal. f_equal.
    unfold gather. rewrite map_map.
    destruct (exists_last Hne) as (q & x & Eq). rewrite Eq. rewrite map_app. cbn [map]. rewrite !last_last. reflexivity.
  - apply Nat.eqb_neq in Eh. destruct (h - length pp) eqn:Ed; [lia|reflexivity].
Qed.

Lemma nonvacuous_views_l :
  let refrow := [0; 0; 1; 2; 1; 0] in
  let otherrow := [0; 1; 0; 0; 2; 2] in
  let vars := [("t"%string, [Some 5; Some 6; Some 7]%R); ("p"%string, [Some 1; None; Some 3]%R)] in
  let custom := [("first"%string, slot 0); ("mid"%string, slot 1); ("last"%string, last_slot)] in
  let res := collapse_vars (fun a : option R => a) None refrow otherrow vars custom in
  length refrow = length otherrow /\ row_ok 3 refrow /\
  map (partner_points refrow otherrow) [0; 1; 2] = [[0; 1; 2]; [0; 2]; [0]] /\
  S (list_max (rows_for refrow)) = 3 /\
  (* first = the partner of the pair with the lowest position; every variable shows its own values *)
  field_of "t" "first" 0 res = Some (Fl (Some 5%R)) /\ field_of "p" "first" 0 res = Some (Fl (Some 1%R)) /\
  field_of "t" "first" 1 res = Some (Fl (Some 5%R)) /\ field_of "t" "first" 2 res = Some (Fl (Some 5%R)) /\
  (* slot 1: the second partner (a NaN in the data shows as NaN), padding for the reference point with one partner *)
  field_of "t" "mid" 0 res = Some (Fl (Some 6%R)) /\ field_of "p" "mid" 0 res = Some (Fl None) /\
  field_of "t" "mid" 1 res = Some (Fl (Some 7%R)) /\ field_of "t" "mid" 2 res = Some (Fl None) /\
  (* the last slot: a value only for the reference point with the most partners *)
  field_of "t" "last" 0 res = Some (Fl (Some 7%R)) /\ field_of "p" "last" 0 res = Some (Fl (Some 3%R)) /\
  field_of "t" "last" 1 res = Some (Fl None) /\
  (* the defaults are still there *)
  field_of "p" "number" 0 res = Some (Cnt 2).
Proof.
  cbv zeta. split; [reflexivity|]. split; [apply row_okb_iff; vm_compute; reflexivity|].
  repeat split; vm_compute; reflexivity.
Qed.

(* a custom function that ignores NaN (g = g' o somes: nanmax, nansum, a median of the valid values ...) returns g' of the
   non-NaN values of the partner points *)
Lemma collapse_custom_nan_ignoring_l {A} (f : A -> option R) (d : A) refrow otherrow n (vars : dict (list A))
    (custom : dict collapser) v vals name (g : collapser) (g' : list R -> out) c :
  length refrow = length otherrow -> row_ok n refrow -> c < n ->
  lookup v vars = Some vals -> lookup name custom = Some g -> (forall l, g l = g' (somes l)) ->
  field_of v name c (collapse_vars f d refrow otherrow vars custom)
  = Some (g' (somes (map f (gather d (partner_points refrow otherrow c) vals)))).
Proof.
  intros Hl Hok Hc Hv Hg Hi.
  destruct (collapse_custom_function_l f d refrow otherrow n vars custom v vals name g c Hl Hok Hc Hv Hg) as [E _].
  rewrite E, Hi, somes_padded. reflexivity.
Qed.
