(* C14 -- the quadratures against the continuum integral.
   (1) trapz (map f xs) xs is the mean of the Riemann sums of the grid pointed at the left and at the right ends of its
       layers (Coquelicot SF_seq / Riemann_sum); both pointed grids are fine subdivisions in the sense of Riemann_fine, so the
       filter limit that DEFINES is_RInt gives: on any sequence of grids whose mesh tends to 0 the quadrature tends to RInt;
   (2) error bounds on any grid with steps <= h: C^2 integrands (Peano kernel: int f - trapezoid = - int (x-c)(d-x)/2 f''),
       Lipschitz integrands;
   (3) both forms of integrate_water_vapor; (4) two analytic columns with closed forms. *)
From Coq Require Import Reals List Lra Lia.
From Coquelicot Require Import Coquelicot.
From TyphonGen Require Import atmosphere.
From Typhon Require Import Model.C14_column Model.C14_rint Model.C14_quad Proofs.C14_trapz Proofs.C09_humidity Proofs.C14_hydro.
Import ListNotations.
Open Scope R_scope.

(* the list forms of the two Riemann sums *)
Fixpoint lsum (f : R -> R) (xs : list R) : R :=
  match xs with x0 :: ((x1 :: _) as xs') => (x1 - x0) * f x0 + lsum f xs' | _ => 0 end.
Fixpoint rsum_ (f : R -> R) (xs : list R) : R :=
  match xs with x0 :: ((x1 :: _) as xs') => (x1 - x0) * f x1 + rsum_ f xs' | _ => 0 end.

Lemma SF_f2_cons2 (g : R -> R -> R) x0 x1 xs :
  SF_seq_f2 g (x0 :: x1 :: xs) = SF_cons (x0, g x0 x1) (SF_seq_f2 g (x1 :: xs)).
Proof. reflexivity. Qed.
Lemma SF_f2_h (g : R -> R -> R) x1 xs : SF_h (SF_seq_f2 g (x1 :: xs)) = x1.
Proof. reflexivity. Qed.

Fixpoint gsum (g : R -> R -> R) (f : R -> R) (xs : list R) : R :=
  match xs with x0 :: ((x1 :: _) as xs') => (x1 - x0) * f (g x0 x1) + gsum g f xs' | _ => 0 end.
Lemma Riemann_sum_f2 (g : R -> R -> R) (f : R -> R) : forall xs, Riemann_sum f (SF_seq_f2 g xs) = gsum g f xs.
Proof.
  induction xs as [|x0 xs IH]; [reflexivity|].
  destruct xs as [|x1 xs]; [reflexivity|].
  rewrite SF_f2_cons2, Riemann_sum_cons, IH, SF_f2_h. reflexivity.
Qed.

Lemma left_sum_list f xs : left_sum f xs = lsum f xs.
Proof.
  unfold left_sum, left_points. rewrite Riemann_sum_f2.
  induction xs as [|x0 [|x1 xs] IH]; try reflexivity. cbn [lsum gsum] in *. rewrite <- IH. reflexivity.
Qed.
Lemma right_sum_list f xs : right_sum f xs = rsum_ f xs.
Proof.
  unfold right_sum, right_points. rewrite Riemann_sum_f2.
  induction xs as [|x0 [|x1 xs] IH]; try reflexivity. cbn [rsum_ gsum] in *. rewrite <- IH. reflexivity.
Qed.

Lemma trapz_mean_list f : forall xs, trapz (map f xs) xs = (lsum f xs + rsum_ f xs) / 2.
Proof.
  induction xs as [|x0 [|x1 xs] IH]; [cbn; lra|cbn; lra|].
  cbn [map] in IH |- *. rewrite trapz_cons2, IH. cbn [lsum rsum_]. lra.
Qed.

(* the bridging equality: the trapezoidal sum of the list model is the mean of the Riemann sums of the grid pointed at the left
   and at the right ends of its layers *)
Lemma trapz_mean_of_riemann_sums f xs : trapz (map f xs) xs = (left_sum f xs + right_sum f xs) / 2.
Proof. rewrite left_sum_list, right_sum_list. apply trapz_mean_list. Qed.

(* the grid as Coquelicot sees it *)
Lemma sorted_nondecreasing xs : nondecreasing xs -> sorted Rle xs.
Proof.
  induction xs as [|x0 [|x1 xs] IH]; intros H; [exact I|exact I|].
  destruct H as [H0 H']. split; [exact H0|apply IH; exact H'].
Qed.
Lemma ssr_last_last : forall xs x, seq.last x xs = last (x :: xs) 0.
Proof.
  induction xs as [|x1 xs IH]; intros x; [reflexivity|].
  change (seq.last x (x1 :: xs)) with (seq.last x1 xs). rewrite IH. reflexivity.
Qed.
Lemma seq_step_le d : forall xs, 0 <= d -> steps_within d xs -> seq_step xs <= d.
Proof.
  intros xs Hd. unfold seq_step.
  destruct xs as [|x0 xs]; [intros _; exact Hd|].
  cbn [seq.head seq.behead]. revert x0.
  induction xs as [|x1 xs IH]; intros x0 H; [exact Hd|].
  destruct H as [H0 H']. cbn [seq.pairmap seq.foldr].
  apply Rmax_lub; [exact H0|apply IH; exact H'].
Qed.

Lemma fine_left_right (g : R -> R -> R) a b d xs :
  (forall x y, x <= y -> x <= g x y <= y) ->
  a < b -> 0 <= d -> nondecreasing xs -> grid_from_to a b xs -> steps_within d xs ->
  fine_subdivision_of xs a b d (SF_seq_f2 g xs).
Proof.
  intros Hg Hab Hd Hs [Hne [Ha Hb]] Hst. unfold fine_subdivision_of.
  destruct xs as [|x0 xs]; [contradiction|]. clear Hne.
  assert (Hlx : SF_lx (SF_seq_f2 g (x0 :: xs)) = x0 :: xs) by (apply SF_lx_f2; cbn; lia).
  rewrite Hlx. split; [reflexivity|split; [|split; [|split]]].
  - apply seq_step_le; assumption.
  - exact (ptd_f2 g _ (sorted_nondecreasing _ Hs) Hg).
  - rewrite Rmin_left by lra. exact Ha.
  - rewrite Rmax_right by lra. cbn [SF_seq_f2 SF_h seq.head].
    change (seq.last x0 (x0 :: xs)) with (seq.last x0 xs). rewrite ssr_last_last. exact Hb.
Qed.

Lemma grid_points_fine a b d xs : a < b -> 0 <= d -> nondecreasing xs -> grid_from_to a b xs -> steps_within d xs ->
  fine_subdivision_of xs a b d (left_points xs) /\ fine_subdivision_of xs a b d (right_points xs).
Proof.
  intros Hab Hd Hs Hft Hst. split; apply fine_left_right; try assumption; intros; lra.
Qed.

(* ---- (1) convergence on ANY sequence of grids whose mesh tends to 0 *)
Lemma trapz_converges f a b (grid : nat -> list R) :
  a < b -> integrable f a b ->
  (forall n, nondecreasing (grid n) /\ grid_from_to a b (grid n)) -> mesh_vanishes grid ->
  tends_to (fun n => trapz (map f (grid n)) (grid n)) (integral f a b).
Proof.
  intros Hab Hex Hgrid Hmesh. unfold tends_to, integral.
  apply is_lim_seq_spec. intros eps.
  pose proof (RInt_correct f a b Hex) as HI. unfold is_RInt in HI.
  pose proof (proj1 (filterlim_locally _ _) HI eps) as [delta Hdelta].
  destruct (Hmesh (delta / 2)) as [N HN]; [destruct delta as [dl Hdl]; cbn; lra|].
  exists N. intros n Hn. specialize (HN n Hn). destruct (Hgrid n) as [Hs Hft].
  assert (Hd2 : 0 <= delta / 2) by (destruct delta as [dl Hdl]; cbn; lra).
  assert (Hside : forall g : R -> R -> R, (forall x y, x <= y -> x <= g x y <= y) ->
            Rabs (Riemann_sum f (SF_seq_f2 g (grid n)) - RInt f a b) < eps).
  { intros g Hg.
    destruct (fine_left_right g a b (delta / 2) (grid n) Hg Hab Hd2 Hs Hft HN) as [_ [H1 [H2 [H3 H4]]]].
    assert (Hb := Hdelta (SF_seq_f2 g (grid n))).
    assert (Hlt : seq_step (SF_lx (SF_seq_f2 g (grid n))) < delta) by (destruct delta as [dl Hdl]; cbn in *; lra).
    specialize (Hb Hlt (conj H2 (conj H3 H4))).
    rewrite sign_eq_1 in Hb by lra.
    unfold ball in Hb; cbn in Hb; unfold AbsRing_ball, abs, minus, plus, opp, scal, mult in Hb; cbn in Hb.
    unfold mult in Hb; cbn in Hb. rewrite Rmult_1_l in Hb. exact Hb. }
  assert (HL := Hside (fun x _ => x)). assert (HR := Hside (fun _ y => y)).
  rewrite trapz_mean_of_riemann_sums. unfold left_sum, right_sum, left_points, right_points.
  specialize (HL ltac:(intros; lra)). specialize (HR ltac:(intros; lra)).
  set (A := Riemann_sum f _) in *. set (B := Riemann_sum f _) in *.
  replace ((A + B) / 2 - RInt f a b) with (((A - RInt f a b) + (B - RInt f a b)) / 2) by lra.
  apply Rabs_def1.
  - apply Rabs_def2 in HL. apply Rabs_def2 in HR. lra.
  - apply Rabs_def2 in HL. apply Rabs_def2 in HR. lra.
Qed.

(* ---- reversal: decreasing grids *)
Lemma last_snoc (l : list R) x : last (l ++ [x]) 0 = x.
Proof. apply last_last. Qed.
Lemma hd_rev (xs : list R) : hd 0 (rev xs) = last xs 0.
Proof.
  induction xs as [|x0 [|x1 xs] IH]; [reflexivity|reflexivity|].
  change (rev (x0 :: x1 :: xs)) with (rev (x1 :: xs) ++ [x0]).
  change (last (x0 :: x1 :: xs) 0) with (last (x1 :: xs) 0). rewrite <- IH.
  change (rev (x1 :: xs)) with (rev xs ++ [x1]).
  destruct (rev xs); reflexivity.
Qed.
Lemma last_rev (xs : list R) : last (rev xs) 0 = hd 0 xs.
Proof. destruct xs as [|x0 xs]; [reflexivity|]. cbn [rev hd]. apply last_snoc. Qed.

Lemma nondecreasing_snoc : forall xs y, nondecreasing xs -> (xs = [] \/ last xs 0 <= y) -> nondecreasing (xs ++ [y]).
Proof.
  induction xs as [|x0 [|x1 xs] IH]; intros y H Hy; [exact I| |].
  - cbn. split; [destruct Hy as [Hy|Hy]; [discriminate|exact Hy]|exact I].
  - destruct H as [H0 H']. change ((x0 :: x1 :: xs) ++ [y]) with (x0 :: ((x1 :: xs) ++ [y])).
    assert (Hn := IH y H'). cbn [app] in Hn |- *. split; [exact H0|].
    apply Hn. right. destruct Hy as [Hy|Hy]; [discriminate|exact Hy].
Qed.
Lemma nondecreasing_rev : forall xs, nonincreasing xs -> nondecreasing (rev xs).
Proof.
  induction xs as [|x0 xs IH]; intros H; [exact I|].
  cbn [rev]. apply nondecreasing_snoc.
  - apply IH. destruct xs as [|x1 xs]; [exact I|exact (proj2 H)].
  - destruct xs as [|x1 xs]; [left; reflexivity|right]. rewrite last_rev. exact (proj1 H).
Qed.
Lemma steps_snoc d : forall xs y, steps_within d xs -> (xs = [] \/ Rabs (y - last xs 0) <= d) -> steps_within d (xs ++ [y]).
Proof.
  induction xs as [|x0 [|x1 xs] IH]; intros y H Hy; [exact I| |].
  - cbn. split; [destruct Hy as [Hy|Hy]; [discriminate|exact Hy]|exact I].
  - destruct H as [H0 H']. change ((x0 :: x1 :: xs) ++ [y]) with (x0 :: ((x1 :: xs) ++ [y])).
    assert (Hn := IH y H'). cbn [app] in Hn |- *. split; [exact H0|].
    apply Hn. right. destruct Hy as [Hy|Hy]; [discriminate|exact Hy].
Qed.
Lemma steps_rev d : forall xs, steps_within d xs -> steps_within d (rev xs).
Proof.
  induction xs as [|x0 xs IH]; intros H; [exact I|].
  cbn [rev]. apply steps_snoc.
  - apply IH. destruct xs as [|x1 xs]; [exact I|exact (proj2 H)].
  - destruct xs as [|x1 xs]; [left; reflexivity|right]. rewrite last_rev. cbn [hd].
    rewrite Rabs_minus_sym. exact (proj1 H).
Qed.
Lemma trapz_sample_rev f xs : trapz (map f xs) xs = - trapz (map f (rev xs)) (rev xs).
Proof. rewrite map_rev, trapz_rev by apply map_length. lra. Qed.
Lemma grid_rev a b xs : grid_from_to a b xs -> grid_from_to b a (rev xs).
Proof.
  intros [Hne [Ha Hb]]. split; [|split].
  - intros E. apply Hne. rewrite <- (rev_involutive xs), E. reflexivity.
  - rewrite hd_rev. exact Hb.
  - rewrite last_rev. exact Ha.
Qed.

Lemma trapz_converges_decreasing f a b (grid : nat -> list R) :
  b < a -> integrable f a b ->
  (forall n, nonincreasing (grid n) /\ grid_from_to a b (grid n)) -> mesh_vanishes grid ->
  tends_to (fun n => trapz (map f (grid n)) (grid n)) (integral f a b).
Proof.
  intros Hab Hex Hgrid Hmesh.
  assert (H := trapz_converges f b a (fun n => rev (grid n)) Hab (ex_RInt_swap _ _ _ Hex)).
  unfold tends_to, integral in *.
  apply (is_lim_seq_ext (fun n => - trapz (map f (rev (grid n))) (rev (grid n)))).
  - intros n. symmetry. apply trapz_sample_rev.
  - rewrite <- (opp_RInt_swap f b a) by (apply ex_RInt_swap; exact Hex).
    apply (is_lim_seq_opp _ (RInt f b a)). apply H.
    + intros n. destruct (Hgrid n) as [H1 H2]. split; [apply nondecreasing_rev; exact H1|apply grid_rev; exact H2].
    + intros d Hd. destruct (Hmesh d Hd) as [N HN]. exists N. intros n Hn. apply steps_rev. apply HN. exact Hn.
Qed.

(* either direction *)
Lemma trapz_converges_monotone f a b (grid : nat -> list R) :
  a <> b -> integrable f a b ->
  (forall n, grid_from_to a b (grid n) /\ (if Rlt_dec a b then nondecreasing (grid n) else nonincreasing (grid n))) ->
  mesh_vanishes grid ->
  tends_to (fun n => trapz (map f (grid n)) (grid n)) (integral f a b).
Proof.
  intros Hab Hex Hgrid Hmesh. destruct (Rlt_dec a b) as [Hlt|Hge].
  - apply trapz_converges; try assumption. intros n. destruct (Hgrid n). split; assumption.
  - apply trapz_converges_decreasing; try assumption; [lra|]. intros n. destruct (Hgrid n). split; assumption.
Qed.

(* ---- the uniform grid *)
Section Uniform.
Variables (a h : R).
Let F (k : nat) : R := a + INR k * h.
Lemma ug_hd s m : hd 0 (map F (seq s (S m))) = F s.
Proof. reflexivity. Qed.
Lemma ug_last : forall m s, last (map F (seq s (S m))) 0 = F (s + m)%nat.
Proof.
  induction m as [|m IH]; intros s; [cbn [seq map last]; rewrite Nat.add_0_r; reflexivity|].
  change (seq s (S (S m))) with (s :: seq (S s) (S m)). cbn [map].
  change (last (F s :: map F (seq (S s) (S m))) 0) with (last (map F (seq (S s) (S m))) 0).
  rewrite IH. f_equal. lia.
Qed.
Lemma F_step k : F (S k) - F k = h.
Proof. unfold F. rewrite S_INR. lra. Qed.
Lemma ug_nondecr : 0 <= h -> forall m s, nondecreasing (map F (seq s (S m))).
Proof.
  intros Hh. induction m as [|m IH]; intros s; [exact I|].
  change (seq s (S (S m))) with (s :: seq (S s) (S m)). cbn [map].
  specialize (IH (S s)). change (seq (S s) (S m)) with (S s :: seq (S (S s)) m) in IH |- *. cbn [map] in IH |- *.
  split; [pose proof (F_step s); lra|exact IH].
Qed.
Lemma ug_nonincr : h <= 0 -> forall m s, nonincreasing (map F (seq s (S m))).
Proof.
  intros Hh. induction m as [|m IH]; intros s; [exact I|].
  change (seq s (S (S m))) with (s :: seq (S s) (S m)). cbn [map].
  specialize (IH (S s)). change (seq (S s) (S m)) with (S s :: seq (S (S s)) m) in IH |- *. cbn [map] in IH |- *.
  split; [pose proof (F_step s); lra|exact IH].
Qed.
Lemma ug_steps d : Rabs h <= d -> forall m s, steps_within d (map F (seq s (S m))).
Proof.
  intros Hh. induction m as [|m IH]; intros s; [exact I|].
  change (seq s (S (S m))) with (s :: seq (S s) (S m)). cbn [map].
  specialize (IH (S s)). change (seq (S s) (S m)) with (S s :: seq (S (S s)) m) in IH |- *. cbn [map] in IH |- *.
  split; [rewrite F_step; exact Hh|exact IH].
Qed.
End Uniform.

Lemma uniform_grid_from_to a b n : grid_from_to a b (uniform_grid a b n).
Proof.
  unfold uniform_grid. split; [discriminate|split].
  - rewrite ug_hd. cbn [INR]. lra.
  - rewrite ug_last. rewrite Nat.add_0_l. field. apply not_0_INR. lia.
Qed.
Lemma uniform_grid_nondecreasing a b n : a <= b -> nondecreasing (uniform_grid a b n).
Proof.
  intros H. apply ug_nondecr. apply Rmult_le_pos; [lra|]. apply Rlt_le, Rinv_0_lt_compat. apply lt_0_INR. lia.
Qed.
Lemma uniform_grid_nonincreasing a b n : b <= a -> nonincreasing (uniform_grid a b n).
Proof.
  intros H. apply ug_nonincr. unfold Rdiv.
  assert (0 < / INR (S n)) by (apply Rinv_0_lt_compat; apply lt_0_INR; lia). nra.
Qed.
Lemma uniform_grid_steps a b n : steps_within (Rabs (b - a) / INR (S n)) (uniform_grid a b n).
Proof.
  apply ug_steps. unfold Rdiv. rewrite Rabs_mult.
  rewrite (Rabs_pos_eq (/ INR (S n))); [lra|]. apply Rlt_le, Rinv_0_lt_compat. apply lt_0_INR. lia.
Qed.
Lemma steps_within_weaken d d' : d <= d' -> forall xs, steps_within d xs -> steps_within d' xs.
Proof.
  intros Hd. induction xs as [|x0 [|x1 xs] IH]; intros H; [exact I|exact I|].
  destruct H as [H0 H']. split; [lra|exact (IH H')].
Qed.
Lemma uniform_mesh_vanishes a b : mesh_vanishes (uniform_grid a b).
Proof.
  intros d Hd.
  assert (Hq : 0 < d / (Rabs (b - a) + 1)) by (apply Rdiv_lt_0_compat; [lra|pose proof (Rabs_pos (b - a)); lra]).
  destruct (archimed_cor1 _ Hq) as [N [HN HN0]].
  exists N. intros n Hn. apply (steps_within_weaken (Rabs (b - a) / INR (S n))); [|apply uniform_grid_steps].
  assert (HNpos : 0 < INR N) by (apply lt_0_INR; exact HN0).
  assert (Hle : INR N <= INR (S n)) by (apply le_INR; lia).
  assert (Hinv : / INR (S n) <= / INR N) by (apply Rinv_le_contravar; assumption).
  pose proof (Rabs_pos (b - a)) as Hp.
  assert (Hx : / INR N * (Rabs (b - a) + 1) < d).
  { apply (Rmult_lt_compat_r (Rabs (b - a) + 1)) in HN; [|lra].
    unfold Rdiv in HN. rewrite Rmult_assoc, Rinv_l, Rmult_1_r in HN by lra. exact HN. }
  unfold Rdiv. assert (0 < / INR (S n)) by (apply Rinv_0_lt_compat; apply lt_0_INR; lia). nra.
Qed.

Lemma trapz_uniform_converges f a b : a <> b -> integrable f a b ->
  tends_to (fun n => trapz (map f (uniform_grid a b n)) (uniform_grid a b n)) (integral f a b).
Proof.
  intros Hab Hex. apply trapz_converges_monotone; [exact Hab|exact Hex| |apply uniform_mesh_vanishes].
  intros n. split; [apply uniform_grid_from_to|].
  destruct (Rlt_dec a b); [apply uniform_grid_nondecreasing|apply uniform_grid_nonincreasing]; lra.
Qed.

(* ---- the two forms of integrate_water_vapor *)

Lemma iwv_hydro_sampled fx xs : iwv_hydro (map fx xs) xs = - trapz (map (hydro_integrand fx) xs) xs / c_earth_standard_gravity.
Proof. unfold iwv_hydro. rewrite map_map. reflexivity. Qed.
Lemma zip3_map {A B C D E} (g : B -> C -> D -> E) (f1 : A -> B) (f2 : A -> C) (f3 : A -> D) : forall l,
  zip3 g (map f1 l) (map f2 l) (map f3 l) = map (fun a => g (f1 a) (f2 a) (f3 a)) l.
Proof. induction l as [|a l IH]; [reflexivity|]. cbn [map zip3]. rewrite IH. reflexivity. Qed.
Lemma iwv_general_sampled fx fp fT zs :
  iwv_general (map fx zs) (map fp zs) (map fT zs) zs = trapz (map (vapour_integrand fx fp fT) zs) zs.
Proof. unfold iwv_general. rewrite zip3_map. reflexivity. Qed.

Lemma iwv_hydro_converges fx p0 p1 (grid : nat -> list R) :
  p1 < p0 -> integrable (hydro_integrand fx) p0 p1 ->
  (forall n, nonincreasing (grid n) /\ grid_from_to p0 p1 (grid n)) -> mesh_vanishes grid ->
  tends_to (fun n => iwv_hydro (map fx (grid n)) (grid n))
           (- integral (hydro_integrand fx) p0 p1 / c_earth_standard_gravity).
Proof.
  intros Hp Hex Hgrid Hmesh.
  assert (H := trapz_converges_decreasing _ p0 p1 grid Hp Hex Hgrid Hmesh).
  unfold tends_to in *.
  apply (is_lim_seq_ext (fun n => (- / c_earth_standard_gravity) * trapz (map (hydro_integrand fx) (grid n)) (grid n))).
  - intros n. rewrite iwv_hydro_sampled. unfold Rdiv. lra.
  - replace (- integral (hydro_integrand fx) p0 p1 / c_earth_standard_gravity)
      with ((- / c_earth_standard_gravity) * integral (hydro_integrand fx) p0 p1) by (unfold Rdiv; lra).
    apply (is_lim_seq_scal_l _ (- / c_earth_standard_gravity) (integral (hydro_integrand fx) p0 p1)). exact H.
Qed.

Lemma iwv_general_converges fx fp fT z0 z1 (grid : nat -> list R) :
  z0 < z1 -> integrable (vapour_integrand fx fp fT) z0 z1 ->
  (forall n, nondecreasing (grid n) /\ grid_from_to z0 z1 (grid n)) -> mesh_vanishes grid ->
  tends_to (fun n => iwv_general (map fx (grid n)) (map fp (grid n)) (map fT (grid n)) (grid n))
           (integral (vapour_integrand fx fp fT) z0 z1).
Proof.
  intros Hz Hex Hgrid Hmesh.
  assert (H := trapz_converges _ z0 z1 grid Hz Hex Hgrid Hmesh).
  unfold tends_to in *.
  apply (is_lim_seq_ext (fun n => trapz (map (vapour_integrand fx fp fT) (grid n)) (grid n))); [|exact H].
  intros n. symmetry. apply iwv_general_sampled.
Qed.

(* ---- one layer, C^2 integrand: the Peano-kernel identity and the bound M (d - c)^3 / 12 *)
Section Layer.
Variables (f df ddf : R -> R) (c d M : R).
Hypothesis Hcd : c <= d.
Hypothesis Hf : forall x, c <= x <= d -> is_derive f x (df x).
Hypothesis Hdf : forall x, c <= x <= d -> is_derive df x (ddf x).
Hypothesis Hc : forall x, c <= x <= d -> continuous ddf x.
Hypothesis HM : forall x, c <= x <= d -> Rabs (ddf x) <= M.

Let w (x : R) : R := (x - c) * (d - x) / 2.
Let H (x : R) : R := (x - (c + d) / 2) * f x + w x * df x.

Lemma H_derive x : c <= x <= d -> is_derive H x (f x + w x * ddf x).
Proof.
  intros Hx. unfold H, w.
  auto_derive.
  - repeat split; [exists (df x); apply Hf; exact Hx|exists (ddf x); apply Hdf; exact Hx].
  - change (fun x0 : R => f x0) with f. change (fun x0 : R => df x0) with df.
    rewrite (is_derive_unique _ _ _ (Hf x Hx)), (is_derive_unique _ _ _ (Hdf x Hx)). field.
Qed.

Lemma w_continuous x : continuous w x.
Proof. apply (ex_derive_continuous w). unfold w. auto_derive. exact I. Qed.
Lemma f_continuous x : c <= x <= d -> continuous f x.
Proof. intros Hx. apply (ex_derive_continuous f). exists (df x). apply Hf. exact Hx. Qed.
Lemma wddf_continuous x : c <= x <= d -> continuous (fun x => w x * ddf x) x.
Proof. intros Hx. apply (continuous_mult w ddf); [apply w_continuous|apply Hc; exact Hx]. Qed.

Lemma layer_identity : is_RInt (fun x => f x + w x * ddf x) c d ((d - c) * (f d + f c) / 2).
Proof.
  replace ((d - c) * (f d + f c) / 2) with (minus (H d) (H c))
    by (unfold minus, plus, opp, H, w; cbn; field).
  apply (is_RInt_derive H (fun x => f x + w x * ddf x)).
  - intros x Hx. rewrite Rmin_left, Rmax_right in Hx by exact Hcd. apply H_derive. exact Hx.
  - intros x Hx. rewrite Rmin_left, Rmax_right in Hx by exact Hcd.
    apply (continuous_plus f (fun x => w x * ddf x)); [apply f_continuous|apply wddf_continuous]; exact Hx.
Qed.

Lemma f_integrable : ex_RInt f c d.
Proof. apply (@ex_RInt_continuous R_CompleteNormedModule). intros x Hx. rewrite Rmin_left, Rmax_right in Hx by exact Hcd. apply f_continuous. exact Hx. Qed.
Lemma wddf_integrable : ex_RInt (fun x => w x * ddf x) c d.
Proof. apply (@ex_RInt_continuous R_CompleteNormedModule). intros x Hx. rewrite Rmin_left, Rmax_right in Hx by exact Hcd. apply wddf_continuous. exact Hx. Qed.

Lemma w_integral k : is_RInt (fun x => k * w x) c d (k * (d - c) ^ 3 / 12).
Proof.
  pose (P := fun x => k * ((x - c) ^ 2 * (d - c) / 4 - (x - c) ^ 3 / 6)).
  replace (k * (d - c) ^ 3 / 12) with (minus (P d) (P c)) by (unfold minus, plus, opp, P; cbn; field).
  apply (is_RInt_derive P (fun x => k * w x)).
  - intros x _. unfold P, w. auto_derive; [exact I|]. field.
  - intros x _. apply (ex_derive_continuous (fun x => k * w x)). unfold w. auto_derive. exact I.
Qed.

Lemma layer_error_C2 : Rabs ((d - c) * (f d + f c) / 2 - RInt f c d) <= M * (d - c) ^ 3 / 12.
Proof.
  pose proof layer_identity as HI. apply (@is_RInt_unique R_CompleteNormedModule) in HI.
  assert (HP := RInt_plus f (fun x => w x * ddf x) c d f_integrable wddf_integrable).
  change (RInt (fun x => f x + w x * ddf x) c d = RInt f c d + RInt (fun x => w x * ddf x) c d) in HP.
  rewrite HP in HI. clear HP.
  replace ((d - c) * (f d + f c) / 2 - RInt f c d) with (RInt (fun x => w x * ddf x) c d) by lra.
  assert (Hw : forall x, c < x < d -> 0 <= w x) by (intros x Hx; unfold w; nra).
  assert (Hup : RInt (fun x => w x * ddf x) c d <= M * (d - c) ^ 3 / 12).
  { rewrite <- (@is_RInt_unique R_CompleteNormedModule _ _ _ _ (w_integral M)).
    apply RInt_le; [exact Hcd|exact wddf_integrable|eexists; apply w_integral|].
    intros x Hx. assert (Hb := HM x ltac:(lra)). apply Rabs_le_between in Hb. specialize (Hw x Hx). nra. }
  assert (Hlo : - M * (d - c) ^ 3 / 12 <= RInt (fun x => w x * ddf x) c d).
  { rewrite <- (@is_RInt_unique R_CompleteNormedModule _ _ _ _ (w_integral (- M))).
    apply RInt_le; [exact Hcd|eexists; apply w_integral|exact wddf_integrable|].
    intros x Hx. assert (Hb := HM x ltac:(lra)). apply Rabs_le_between in Hb. specialize (Hw x Hx). nra. }
  apply Rabs_le. lra.
Qed.
End Layer.

(* ---- one layer, Lipschitz integrand: the bound L (d - c)^2 / 2 *)
Lemma layer_error_lipschitz f c d L : c <= d -> ex_RInt f c d ->
  (forall x y, c <= x <= d -> c <= y <= d -> Rabs (f x - f y) <= L * Rabs (x - y)) ->
  Rabs ((d - c) * (f d + f c) / 2 - RInt f c d) <= L * (d - c) ^ 2 / 2.
Proof.
  intros Hcd Hex HL.
  set (m := (f d + f c) / 2).
  assert (Hconst : forall k, is_RInt (fun _ => k) c d ((d - c) * k)).
  { intros k. replace ((d - c) * k) with (scal (d - c) k) by reflexivity. apply (@is_RInt_const R_NormedModule). }
  assert (Hm : forall x, c < x < d -> Rabs (f x - m) <= L * (d - c) / 2).
  { intros x Hx. assert (H1 := HL x d ltac:(lra) ltac:(lra)). assert (H2 := HL x c ltac:(lra) ltac:(lra)).
    rewrite (Rabs_left (x - d)) in H1 by lra. rewrite (Rabs_right (x - c)) in H2 by lra.
    apply Rabs_le_between in H1. apply Rabs_le_between in H2. apply Rabs_le. unfold m. lra. }
  assert (Hup : RInt f c d <= (d - c) * (m + L * (d - c) / 2)).
  { rewrite <- (@is_RInt_unique R_CompleteNormedModule _ _ _ _ (Hconst (m + L * (d - c) / 2))).
    apply RInt_le; [exact Hcd|exact Hex|eexists; apply Hconst|].
    intros x Hx. specialize (Hm x Hx). apply Rabs_le_between in Hm. lra. }
  assert (Hlo : (d - c) * (m - L * (d - c) / 2) <= RInt f c d).
  { rewrite <- (@is_RInt_unique R_CompleteNormedModule _ _ _ _ (Hconst (m - L * (d - c) / 2))).
    apply RInt_le; [exact Hcd|eexists; apply Hconst|exact Hex|].
    intros x Hx. specialize (Hm x Hx). apply Rabs_le_between in Hm. lra. }
  apply Rabs_le. unfold m in *. nra.
Qed.

(* ---- summation over the layers of a grid *)
Lemma nondecreasing_hd_le_last : forall xs x0, nondecreasing (x0 :: xs) -> x0 <= last (x0 :: xs) 0.
Proof.
  induction xs as [|x1 xs IH]; intros x0 H; [cbn; lra|].
  destruct H as [H0 H']. specialize (IH x1 H'). change (last (x0 :: x1 :: xs) 0) with (last (x1 :: xs) 0). lra.
Qed.

Lemma sum_layers (f : R -> R) (a b h K : R) :
  (forall c d, a <= c -> c <= d -> d <= b -> d - c <= h -> Rabs ((d - c) * (f d + f c) / 2 - RInt f c d) <= K * (d - c)) ->
  (forall c d, a <= c -> c <= d -> d <= b -> ex_RInt f c d) ->
  forall xs, nondecreasing xs -> xs <> [] -> a <= hd 0 xs -> last xs 0 <= b -> steps_within h xs ->
  Rabs (trapz (map f xs) xs - RInt f (hd 0 xs) (last xs 0)) <= K * (last xs 0 - hd 0 xs).
Proof.
  intros Hlayer Hex.
  induction xs as [|x0 xs IH]; intros Hs Hne Ha Hb Hst; [contradiction|].
  destruct xs as [|x1 xs].
  - cbn [map hd last]. rewrite trapz_single_l, RInt_point. unfold zero; cbn. rewrite Rminus_0_r, Rabs_R0. lra.
  - destruct Hs as [H01 Hs']. destruct Hst as [Hst0 Hst'].
    cbn [hd] in Ha |- *. change (last (x0 :: x1 :: xs) 0) with (last (x1 :: xs) 0) in Hb |- *.
    pose proof (nondecreasing_hd_le_last xs x1 Hs') as H1l.
    specialize (IH Hs' ltac:(discriminate) ltac:(cbn [hd]; lra) Hb Hst'). cbn [hd] in IH.
    cbn [map] in IH |- *. rewrite trapz_cons2.
    rewrite <- (RInt_Chasles f x0 x1 (last (x1 :: xs) 0)) by (apply Hex; lra).
    change (plus (RInt f x0 x1) (RInt f x1 (last (x1 :: xs) 0))) with (RInt f x0 x1 + RInt f x1 (last (x1 :: xs) 0)).
    assert (Hl := Hlayer x0 x1 Ha H01 ltac:(lra) ltac:(rewrite Rabs_right in Hst0; lra)).
    set (T := trapz _ _) in *. set (I0 := RInt f x0 x1) in *. set (I1 := RInt f x1 _) in *.
    replace ((x1 - x0) * (f x1 + f x0) / 2 + T - (I0 + I1)) with (((x1 - x0) * (f x1 + f x0) / 2 - I0) + (T - I1)) by lra.
    eapply Rle_trans; [apply Rabs_triang|]. lra.
Qed.

(* ---- (2) the error bounds on a grid from a to b with steps <= h *)
Lemma trapz_error_C2 f df ddf a b M h xs :
  (forall x, a <= x <= b -> is_derive f x (df x)) -> (forall x, a <= x <= b -> is_derive df x (ddf x)) ->
  (forall x, a <= x <= b -> continuous ddf x) -> (forall x, a <= x <= b -> Rabs (ddf x) <= M) ->
  nondecreasing xs -> grid_from_to a b xs -> steps_within h xs ->
  Rabs (trapz (map f xs) xs - integral f a b) <= (b - a) * h ^ 2 * M / 12.
Proof.
  intros Hf Hdf Hc HM Hs [Hne [Ha Hb]] Hst. unfold integral.
  assert (Hab : a <= b).
  { destruct xs as [|x0 xs]; [contradiction|]. cbn [hd] in Ha. subst. apply nondecreasing_hd_le_last. exact Hs. }
  assert (HM0 : 0 <= M) by (eapply Rle_trans; [apply Rabs_pos|apply (HM a); lra]).
  assert (H := sum_layers f a b h (h ^ 2 * M / 12)).
  rewrite <- Ha, <- Hb at 1. replace ((b - a) * h ^ 2 * M / 12) with (h ^ 2 * M / 12 * (last xs 0 - hd 0 xs)) by (rewrite Ha, Hb; lra).
  apply H; try assumption; try lra.
  - intros c d Hac Hcd Hdb Hh.
    eapply Rle_trans.
    + apply (layer_error_C2 f df ddf c d M Hcd); intros x Hx; [apply Hf|apply Hdf|apply Hc|apply HM]; lra.
    + assert (0 <= d - c) by lra. assert ((d - c) ^ 2 <= h ^ 2) by nra.
      replace (M * (d - c) ^ 3 / 12) with (M / 12 * (d - c) * (d - c) ^ 2) by field.
      replace (h ^ 2 * M / 12 * (d - c)) with (M / 12 * (d - c) * h ^ 2) by field.
      apply Rmult_le_compat_l; [|assumption]. apply Rmult_le_pos; lra.
  - intros c d Hac Hcd Hdb. apply (f_integrable f df c d Hcd). intros x Hx. apply Hf. lra.
Qed.

Lemma ex_RInt_sub (f : R -> R) a b c d : a <= c -> c <= d -> d <= b -> ex_RInt f a b -> ex_RInt f c d.
Proof.
  intros Hac Hcd Hdb Hex.
  apply (@ex_RInt_Chasles_2 R_CompleteNormedModule f a c d); [lra|]. apply (@ex_RInt_Chasles_1 R_CompleteNormedModule f a d b); [lra|exact Hex].
Qed.

Lemma trapz_error_lipschitz f a b L h xs :
  integrable f a b -> (forall x y, a <= x <= b -> a <= y <= b -> Rabs (f x - f y) <= L * Rabs (x - y)) ->
  0 <= L -> nondecreasing xs -> grid_from_to a b xs -> steps_within h xs ->
  Rabs (trapz (map f xs) xs - integral f a b) <= (b - a) * h * L / 2.
Proof.
  intros Hex HL HL0 Hs [Hne [Ha Hb]] Hst. unfold integral.
  assert (H := sum_layers f a b h (h * L / 2)).
  rewrite <- Ha, <- Hb at 1. replace ((b - a) * h * L / 2) with (h * L / 2 * (last xs 0 - hd 0 xs)) by (rewrite Ha, Hb; lra).
  apply H; try assumption; try lra.
  - intros c d Hac Hcd Hdb Hh.
    eapply Rle_trans.
    + apply (layer_error_lipschitz f c d L Hcd).
      * apply (ex_RInt_sub f a b); assumption.
      * intros x y Hx Hy. apply HL; lra.
    + assert (0 <= d - c) by lra.
      assert (L * (d - c) * (d - c) <= L * (d - c) * h) by (apply Rmult_le_compat_l; [apply Rmult_le_pos; lra|lra]).
      replace ((d - c) ^ 2) with ((d - c) * (d - c)) by ring. lra.
  - intros c d Hac Hcd Hdb. apply (ex_RInt_sub f a b); assumption.
Qed.

(* ---- grids stay inside their range; integrands that agree on the range *)
Lemma nondecreasing_range : forall xs x0, nondecreasing (x0 :: xs) ->
  List.Forall (fun x => x0 <= x <= last (x0 :: xs) 0) (x0 :: xs).
Proof.
  induction xs as [|x1 xs IH]; intros x0 H.
  - constructor; [cbn; lra|constructor].
  - destruct H as [H0 H']. specialize (IH x1 H').
    change (last (x0 :: x1 :: xs) 0) with (last (x1 :: xs) 0).
    pose proof (nondecreasing_hd_le_last xs x1 H') as Hl.
    constructor; [lra|]. eapply Forall_impl; [|exact IH]. cbv beta. intros x Hx. lra.
Qed.
Lemma grid_in_range a b xs : nondecreasing xs -> grid_from_to a b xs -> List.Forall (fun x => a <= x <= b) xs.
Proof.
  intros Hs [Hne [Ha Hb]]. destruct xs as [|x0 xs]; [contradiction|]. cbn [hd] in Ha. subst.
  apply nondecreasing_range. exact Hs.
Qed.
Lemma sample_ext (f g : R -> R) a b xs : (forall x, a <= x <= b -> f x = g x) -> List.Forall (fun x => a <= x <= b) xs ->
  map f xs = map g xs.
Proof. intros Hfg Hin. apply map_ext_in. intros x Hx. apply Hfg. rewrite Forall_forall in Hin. exact (Hin x Hx). Qed.

Lemma trapz_error_C2_ext (f g dg ddg : R -> R) a b M h xs :
  (forall x, a <= x <= b -> f x = g x) ->
  (forall x, a <= x <= b -> is_derive g x (dg x)) -> (forall x, a <= x <= b -> is_derive dg x (ddg x)) ->
  (forall x, a <= x <= b -> continuous ddg x) -> (forall x, a <= x <= b -> Rabs (ddg x) <= M) ->
  nondecreasing xs -> grid_from_to a b xs -> steps_within h xs ->
  Rabs (trapz (map f xs) xs - integral g a b) <= (b - a) * h ^ 2 * M / 12.
Proof.
  intros Hfg Hg Hdg Hc HM Hs Hft Hst.
  rewrite (sample_ext f g a b xs Hfg (grid_in_range a b xs Hs Hft)).
  apply (trapz_error_C2 g dg ddg); assumption.
Qed.

(* the same on a decreasing grid from a down to b:  the sum and the integral both change sign *)
Lemma nonincreasing_rev_rev xs : nonincreasing xs -> nondecreasing (rev xs).
Proof. apply nondecreasing_rev. Qed.
Lemma trapz_error_C2_decreasing (f g dg ddg : R -> R) a b M h xs :
  (forall x, b <= x <= a -> f x = g x) ->
  (forall x, b <= x <= a -> is_derive g x (dg x)) -> (forall x, b <= x <= a -> is_derive dg x (ddg x)) ->
  (forall x, b <= x <= a -> continuous ddg x) -> (forall x, b <= x <= a -> Rabs (ddg x) <= M) ->
  nonincreasing xs -> grid_from_to a b xs -> steps_within h xs ->
  Rabs (trapz (map f xs) xs + integral g b a) <= (a - b) * h ^ 2 * M / 12.
Proof.
  intros Hfg Hg Hdg Hc HM Hs Hft Hst.
  rewrite trapz_sample_rev.
  replace (- trapz (map f (rev xs)) (rev xs) + integral g b a) with (- (trapz (map f (rev xs)) (rev xs) - integral g b a)) by lra.
  rewrite Rabs_Ropp.
  apply (trapz_error_C2_ext f g dg ddg b a M h (rev xs)); try assumption.
  - apply nondecreasing_rev. exact Hs.
  - apply grid_rev. exact Hft.
  - apply steps_rev. exact Hst.
Qed.

(* ---- the exponential profile  g z = A exp (- (k z)) *)
Section Exponential.
Variables (A k : R).
Hypothesis HA : 0 <= A.
Hypothesis Hk : 0 < k.
Definition expo (z : R) : R := A * exp (- (k * z)).
Definition expo' (z : R) : R := - k * A * exp (- (k * z)).
Definition expo'' (z : R) : R := k ^ 2 * A * exp (- (k * z)).
Lemma expo_d z : is_derive expo z (expo' z).
Proof. unfold expo, expo'. auto_derive; [exact I|]. ring. Qed.
Lemma expo_dd z : is_derive expo' z (expo'' z).
Proof. unfold expo', expo''. auto_derive; [exact I|]. ring. Qed.
Lemma expo_cont z : continuous expo'' z.
Proof. apply (ex_derive_continuous expo''). unfold expo''. auto_derive. exact I. Qed.
Lemma expo_cont0 z : continuous expo z.
Proof. apply (ex_derive_continuous expo). exists (expo' z). apply expo_d. Qed.
Lemma expo_bound z : 0 <= z -> Rabs (expo'' z) <= k ^ 2 * A.
Proof.
  intros Hz. unfold expo''.
  assert (He : 0 < exp (- (k * z)) <= 1).
  { split; [apply exp_pos|]. rewrite <- exp_0. destruct (Req_dec (k * z) 0) as [E|E]; [rewrite E, Ropp_0; lra|].
    left. apply exp_increasing. nra. }
  assert (0 <= k ^ 2 * A) by (apply Rmult_le_pos; [nra|exact HA]).
  rewrite Rabs_pos_eq by nra. nra.
Qed.
Lemma expo_integral Z : is_RInt expo 0 Z (A * (1 - exp (- (k * Z))) / k).
Proof.
  pose (P := fun z => - A * exp (- (k * z)) / k).
  replace (A * (1 - exp (- (k * Z))) / k) with (minus (P Z) (P 0)).
  2:{ unfold minus, plus, opp, P; cbn. rewrite Rmult_0_r, Ropp_0, exp_0. field. lra. }
  apply (is_RInt_derive P expo).
  - intros z _. unfold P, expo. auto_derive; [exact I|]. field. lra.
  - intros z _. apply expo_cont0.
Qed.
End Exponential.

(* ---- (4a) exponential water-vapour density: isothermal column, pressure and mixing ratio falling off exponentially *)

Section ExpoColumn.
Variables (x0 p0 T0 Hx Hp Z : R).
Hypothesis Hx0 : 0 <= x0.
Hypothesis Hp0 : 0 <= p0.
Hypothesis HT0 : 0 < T0.
Hypothesis HHx : 0 < Hx.
Hypothesis HHp : 0 < Hp.
Let fx (z : R) : R := x0 * exp (- (z / Hx)).
Let fp (z : R) : R := p0 * exp (- (z / Hp)).
Let fT (z : R) : R := T0.
Let rho0 : R := x0 * p0 / (c_gas_constant_water_vapor * T0).
Let k : R := / Hx + / Hp.

Lemma rho0_nonneg : 0 <= rho0.
Proof.
  unfold rho0. pose proof Rv_pos. apply Rmult_le_pos; [apply Rmult_le_pos; assumption|].
  left. apply Rinv_0_lt_compat. nra.
Qed.
Lemma k_pos : 0 < k.
Proof. unfold k. pose proof (Rinv_0_lt_compat _ HHx). pose proof (Rinv_0_lt_compat _ HHp). lra. Qed.

Lemma expo_density z : vapour_integrand fx fp fT z = expo rho0 k z.
Proof.
  unfold vapour_integrand, density, fx, fp, fT, expo, rho0, k.
  replace (- ((/ Hx + / Hp) * z)) with (- (z / Hx) + - (z / Hp)) by (field; lra).
  rewrite exp_plus. pose proof Rv_pos. field. split; lra.
Qed.

Lemma expo_column_integral : 0 <= Z ->
  integrable (vapour_integrand fx fp fT) 0 Z /\ integral (vapour_integrand fx fp fT) 0 Z = expo_column x0 p0 T0 Hx Hp Z.
Proof.
  intros HZ.
  assert (H : is_RInt (vapour_integrand fx fp fT) 0 Z (expo_column x0 p0 T0 Hx Hp Z)).
  { apply (is_RInt_ext (expo rho0 k)); [intros z _; symmetry; apply expo_density|].
    apply expo_integral. exact k_pos. }
  split; [eexists; exact H|apply is_RInt_unique; exact H].
Qed.

Lemma expo_column_error h zs : nondecreasing zs -> grid_from_to 0 Z zs -> steps_within h zs ->
  Rabs (iwv_general (map fx zs) (map fp zs) (map fT zs) zs - expo_column x0 p0 T0 Hx Hp Z)
  <= Z * h ^ 2 * expo_curvature x0 p0 T0 Hx Hp / 12.
Proof.
  intros Hs Hft Hst.
  assert (HZ : 0 <= Z).
  { destruct Hft as [Hne [Ha Hb]]. destruct zs as [|z0 zs]; [contradiction|]. cbn [hd] in Ha. subst.
    apply nondecreasing_hd_le_last. exact Hs. }
  rewrite iwv_general_sampled.
  assert (HI : integral (expo rho0 k) 0 Z = expo_column x0 p0 T0 Hx Hp Z).
  { apply is_RInt_unique. apply expo_integral. exact k_pos. }
  rewrite <- HI. replace (Z * h ^ 2 * expo_curvature x0 p0 T0 Hx Hp / 12) with ((Z - 0) * h ^ 2 * (k ^ 2 * rho0) / 12)
    by (unfold expo_curvature; fold rho0; fold k; lra).
  apply (trapz_error_C2_ext _ (expo rho0 k) (expo' rho0 k) (expo'' rho0 k)); try assumption.
  - intros z _. apply expo_density.
  - intros z _. apply expo_d.
  - intros z _. apply expo_dd.
  - intros z _. apply expo_cont.
  - intros z Hz. apply expo_bound; [exact rho0_nonneg|exact k_pos|lra].
Qed.

Lemma expo_column_limit : 0 < Z ->
  tends_to (fun n => let zs := uniform_grid 0 Z n in iwv_general (map fx zs) (map fp zs) (map fT zs) zs)
           (expo_column x0 p0 T0 Hx Hp Z).
Proof.
  intros HZ. destruct (expo_column_integral (Rlt_le _ _ HZ)) as [Hex HI]. rewrite <- HI.
  apply (iwv_general_converges fx fp fT 0 Z (uniform_grid 0 Z)); [exact HZ|exact Hex| |apply uniform_mesh_vanishes].
  intros n. split; [apply uniform_grid_nondecreasing; lra|apply uniform_grid_from_to].
Qed.
End ExpoColumn.

(* ---- (4b) hydrostatic form: specific humidity falling off with the square of the pressure, q = q0 (p / ps)^2 *)

Section QuadColumn.
Variables (q0 ps p1 : R).
Hypothesis Hq0 : 0 <= q0 < 1.
Hypothesis Hp1 : 0 <= p1.
Hypothesis Hps : p1 < ps.
Let fx (p : R) : R := specific_humidity2vmr (q0 * (p / ps) ^ 2).
Let Q (p : R) : R := q0 * (p / ps) ^ 2.
Let Q' (p : R) : R := 2 * q0 * p / ps ^ 2.
Let Q'' (p : R) : R := 2 * q0 / ps ^ 2.

Lemma quad_integrand p : p1 <= p <= ps -> hydro_integrand fx p = Q p.
Proof.
  intros Hp. unfold hydro_integrand, fx, Q. apply inv_q_x.
  assert (0 <= p / ps <= 1) by (split; [apply Rmult_le_pos; [lra|left; apply Rinv_0_lt_compat; lra]|apply Rle_div_l; lra]).
  assert (0 <= (p / ps) ^ 2 <= 1) by nra. nra.
Qed.
Lemma Q_d p : is_derive Q p (Q' p).
Proof. unfold Q, Q'. auto_derive; [exact I|]. field. lra. Qed.
Lemma Q_dd p : is_derive Q' p (Q'' p).
Proof. unfold Q', Q''. auto_derive; [exact I|]. field. lra. Qed.
Lemma Q_integral : is_RInt Q p1 ps (q0 * (ps ^ 3 - p1 ^ 3) / (3 * ps ^ 2)).
Proof.
  pose (P := fun p => q0 * p ^ 3 / (3 * ps ^ 2)).
  replace (q0 * (ps ^ 3 - p1 ^ 3) / (3 * ps ^ 2)) with (minus (P ps) (P p1)) by (unfold minus, plus, opp, P; cbn; field; lra).
  apply (is_RInt_derive P Q).
  - intros p _. unfold P, Q. auto_derive; [exact I|]. field. lra.
  - intros p _. apply (ex_derive_continuous Q). exists (Q' p). apply Q_d.
Qed.

Lemma quad_column_integral :
  integrable (hydro_integrand fx) ps p1 /\
  - integral (hydro_integrand fx) ps p1 / c_earth_standard_gravity = quad_column q0 ps p1.
Proof.
  assert (H : is_RInt (hydro_integrand fx) p1 ps (q0 * (ps ^ 3 - p1 ^ 3) / (3 * ps ^ 2))).
  { apply (is_RInt_ext Q); [|exact Q_integral].
    intros p Hp. rewrite Rmin_left, Rmax_right in Hp by lra. symmetry. apply quad_integrand. lra. }
  split; [apply ex_RInt_swap; eexists; exact H|].
  unfold integral, quad_column. rewrite <- (opp_RInt_swap _ p1 ps) by (eexists; exact H).
  rewrite (is_RInt_unique _ _ _ _ H).
  change (opp (q0 * (ps ^ 3 - p1 ^ 3) / (3 * ps ^ 2))) with (- (q0 * (ps ^ 3 - p1 ^ 3) / (3 * ps ^ 2))). lra.
Qed.

Lemma quad_column_error h ps_grid : nonincreasing ps_grid -> grid_from_to ps p1 ps_grid -> steps_within h ps_grid ->
  Rabs (iwv_hydro (map fx ps_grid) ps_grid - quad_column q0 ps p1)
  <= (ps - p1) * h ^ 2 * (2 * q0 / ps ^ 2) / 12 / c_earth_standard_gravity.
Proof.
  intros Hs Hft Hst. pose proof g_pos as Hg.
  rewrite iwv_hydro_sampled.
  assert (HI : integral Q p1 ps = q0 * (ps ^ 3 - p1 ^ 3) / (3 * ps ^ 2)) by (apply is_RInt_unique; exact Q_integral).
  assert (HB := trapz_error_C2_decreasing (hydro_integrand fx) Q Q' Q'' ps p1 (2 * q0 / ps ^ 2) h ps_grid).
  rewrite HI in HB.
  set (T := trapz _ _) in *.
  replace (- T / c_earth_standard_gravity - quad_column q0 ps p1)
    with (- (T + q0 * (ps ^ 3 - p1 ^ 3) / (3 * ps ^ 2)) / c_earth_standard_gravity) by (unfold quad_column; field; lra).
  unfold Rdiv at 1. rewrite Rabs_mult, Rabs_Ropp, (Rabs_pos_eq (/ c_earth_standard_gravity)) by (left; apply Rinv_0_lt_compat; exact Hg).
  change ((ps - p1) * h ^ 2 * (2 * q0 / ps ^ 2) / 12 / c_earth_standard_gravity)
    with ((ps - p1) * h ^ 2 * (2 * q0 / ps ^ 2) / 12 * / c_earth_standard_gravity).
  apply Rmult_le_compat_r; [left; apply Rinv_0_lt_compat; exact Hg|].
  apply HB; try assumption.
  - intros p Hp. apply quad_integrand. exact Hp.
  - intros p _. apply Q_d.
  - intros p _. apply Q_dd.
  - intros p _. apply continuous_const.
  - intros p _. unfold Q''. rewrite Rabs_pos_eq; [lra|]. apply Rmult_le_pos; [lra|]. left. apply Rinv_0_lt_compat. nra.
Qed.

Lemma quad_column_limit :
  tends_to (fun n => let g := uniform_grid ps p1 n in iwv_hydro (map fx g) g) (quad_column q0 ps p1).
Proof.
  destruct quad_column_integral as [Hex HI]. rewrite <- HI.
  apply (iwv_hydro_converges fx ps p1 (uniform_grid ps p1)); [exact Hps|exact Hex| |apply uniform_mesh_vanishes].
  intros n. split; [apply uniform_grid_nonincreasing; lra|apply uniform_grid_from_to].
Qed.
End QuadColumn.

(* ---- error bounds of the two IWV forms for arbitrary profiles with a C^2 integrand *)
Lemma iwv_general_error_C2 (fx fp fT dF ddF : R -> R) z0 z1 M h zs :
  let F := vapour_integrand fx fp fT in
  (forall z, z0 <= z <= z1 -> is_derive F z (dF z)) -> (forall z, z0 <= z <= z1 -> is_derive dF z (ddF z)) ->
  (forall z, z0 <= z <= z1 -> continuous ddF z) -> (forall z, z0 <= z <= z1 -> Rabs (ddF z) <= M) ->
  nondecreasing zs -> grid_from_to z0 z1 zs -> steps_within h zs ->
  Rabs (iwv_general (map fx zs) (map fp zs) (map fT zs) zs - integral F z0 z1) <= (z1 - z0) * h ^ 2 * M / 12.
Proof.
  intros F H1 H2 H3 H4 Hs Hft Hst. rewrite iwv_general_sampled. apply (trapz_error_C2 F dF ddF); assumption.
Qed.

Lemma iwv_hydro_error_C2 (fx dQ ddQ : R -> R) p0 p1 M h ps :
  let Q := hydro_integrand fx in
  (forall p, p1 <= p <= p0 -> is_derive Q p (dQ p)) -> (forall p, p1 <= p <= p0 -> is_derive dQ p (ddQ p)) ->
  (forall p, p1 <= p <= p0 -> continuous ddQ p) -> (forall p, p1 <= p <= p0 -> Rabs (ddQ p) <= M) ->
  nonincreasing ps -> grid_from_to p0 p1 ps -> steps_within h ps ->
  Rabs (iwv_hydro (map fx ps) ps - integral Q p1 p0 / c_earth_standard_gravity)
  <= (p0 - p1) * h ^ 2 * M / 12 / c_earth_standard_gravity.
Proof.
  intros Q H1 H2 H3 H4 Hs Hft Hst. pose proof g_pos as Hg.
  rewrite iwv_hydro_sampled. fold Q.
  assert (HB := trapz_error_C2_decreasing Q Q dQ ddQ p0 p1 M h ps (fun _ _ => eq_refl) H1 H2 H3 H4 Hs Hft Hst).
  set (T := trapz _ _) in *.
  replace (- T / c_earth_standard_gravity - integral Q p1 p0 / c_earth_standard_gravity)
    with (- (T + integral Q p1 p0) / c_earth_standard_gravity) by (field; lra).
  unfold Rdiv at 1. rewrite Rabs_mult, Rabs_Ropp, (Rabs_pos_eq (/ c_earth_standard_gravity)) by (left; apply Rinv_0_lt_compat; exact Hg).
  change ((p0 - p1) * h ^ 2 * M / 12 / c_earth_standard_gravity) with ((p0 - p1) * h ^ 2 * M / 12 * / c_earth_standard_gravity).
  apply Rmult_le_compat_r; [left; apply Rinv_0_lt_compat; exact Hg|]. exact HB.
Qed.

(* ---- the uniform grid of n + 1 layers: h = (b - a) / (n + 1) *)
Lemma trapz_uniform_error_C2 (f df ddf : R -> R) a b M n :
  a <= b ->
  (forall x, a <= x <= b -> is_derive f x (df x)) -> (forall x, a <= x <= b -> is_derive df x (ddf x)) ->
  (forall x, a <= x <= b -> continuous ddf x) -> (forall x, a <= x <= b -> Rabs (ddf x) <= M) ->
  Rabs (trapz (map f (uniform_grid a b n)) (uniform_grid a b n) - integral f a b) <= (b - a) ^ 3 * M / (12 * INR (S n) ^ 2).
Proof.
  intros Hab H1 H2 H3 H4.
  assert (Hn : 0 < INR (S n)) by (apply lt_0_INR; lia).
  replace ((b - a) ^ 3 * M / (12 * INR (S n) ^ 2)) with ((b - a) * ((b - a) / INR (S n)) ^ 2 * M / 12) by (field; lra).
  apply (trapz_error_C2 f df ddf); try assumption.
  - apply uniform_grid_nondecreasing. exact Hab.
  - apply uniform_grid_from_to.
  - rewrite <- (Rabs_pos_eq (b - a)) at 1 by lra. apply uniform_grid_steps.
Qed.

(* ---- continuous profiles have integrable integrands *)
Lemma q_continuous x : 0 <= x <= 1 -> continuous vmr2specific_humidity x.
Proof.
  intros Hx. apply (ex_derive_continuous vmr2specific_humidity). unfold vmr2specific_humidity. cbv zeta.
  auto_derive. unfold c_molar_mass_dry_air, c_molar_mass_water. lra.
Qed.

Lemma hydro_integrand_integrable (fx : R -> R) p0 p1 : p1 <= p0 ->
  (forall p, p1 <= p <= p0 -> continuous fx p /\ 0 <= fx p <= 1) -> integrable (hydro_integrand fx) p0 p1.
Proof.
  intros Hp H. apply ex_RInt_swap. apply (@ex_RInt_continuous R_CompleteNormedModule).
  intros p Hpp. rewrite Rmin_left, Rmax_right in Hpp by exact Hp. destruct (H p Hpp) as [Hc Hr].
  unfold hydro_integrand. apply (continuous_comp fx vmr2specific_humidity); [exact Hc|apply q_continuous; exact Hr].
Qed.

(* the translated `density` is the quotient p / (R T) for every T (also T = 0, where both sides are 0), whichever way the source
   writes it *)
Lemma density_quotient_all p T R0 : R0 <> 0 -> density p T R0 = p / (R0 * T).
Proof.
  intros HR. destruct (Req_dec T 0) as [E|E].
  - subst T. unfold density, Rdiv. rewrite ?Rmult_0_r, ?Rinv_0. ring.
  - unfold density. field. repeat split; assumption.
Qed.

Lemma vapour_density_integrable (fx fp fT : R -> R) z0 z1 : z0 <= z1 ->
  (forall z, z0 <= z <= z1 -> continuous fx z /\ continuous fp z /\ continuous fT z /\ 0 < fT z) ->
  integrable (vapour_integrand fx fp fT) z0 z1.
Proof.
  intros Hz H. apply (@ex_RInt_continuous R_CompleteNormedModule).
  intros z Hzz. rewrite Rmin_left, Rmax_right in Hzz by exact Hz. destruct (H z Hzz) as [Hcx [Hcp [HcT HT]]].
  pose proof Rv_pos as HR.
  apply (continuous_ext (fun z => fx z * (fp z / (c_gas_constant_water_vapor * fT z)))).
  { intros y. unfold vapour_integrand. rewrite density_quotient_all by lra. reflexivity. }
  apply (continuous_mult fx (fun z => fp z / (c_gas_constant_water_vapor * fT z))); [exact Hcx|].
  apply (continuous_mult fp (fun z => / (c_gas_constant_water_vapor * fT z))); [exact Hcp|].
  apply (continuous_Rinv_comp (fun z => c_gas_constant_water_vapor * fT z)); [|nra].
  apply (continuous_mult (fun _ => c_gas_constant_water_vapor) fT); [apply continuous_const|exact HcT].
Qed.

(* ---- the statements of Props/C14.v in the vocabulary of Model/C14_quad.v *)
Lemma C2_parts (f df ddf : R -> R) a b : C2_on f df ddf a b ->
  (forall x, a <= x <= b -> is_derive f x (df x)) /\ (forall x, a <= x <= b -> is_derive df x (ddf x)) /\
  (forall x, a <= x <= b -> continuous ddf x).
Proof. intros H. split; [|split]; intros y Hy; apply (H y Hy). Qed.

Lemma trapz_error_C2_on (f df ddf : R -> R) a b M h xs :
  C2_on f df ddf a b -> (forall x, a <= x <= b -> Rabs (ddf x) <= M) ->
  nondecreasing xs -> grid_from_to a b xs -> steps_within h xs ->
  Rabs (trapz (map f xs) xs - integral f a b) <= (b - a) * h ^ 2 * M / 12.
Proof. intros H HM. destruct (C2_parts _ _ _ _ _ H) as [H1 [H2 H3]]. apply (trapz_error_C2 f df ddf); assumption. Qed.

Lemma nonincreasing_last_le_hd : forall xs x0, nonincreasing (x0 :: xs) -> last (x0 :: xs) 0 <= x0.
Proof.
  induction xs as [|x1 xs IH]; intros x0 H; [cbn; lra|].
  destruct H as [H0 H']. specialize (IH x1 H'). change (last (x0 :: x1 :: xs) 0) with (last (x1 :: xs) 0). lra.
Qed.

Lemma trapz_error_C2_on_decreasing (f df ddf : R -> R) a b M h xs :
  C2_on f df ddf b a -> (forall x, b <= x <= a -> Rabs (ddf x) <= M) ->
  nonincreasing xs -> grid_from_to a b xs -> steps_within h xs ->
  Rabs (trapz (map f xs) xs - integral f a b) <= (a - b) * h ^ 2 * M / 12.
Proof.
  intros H HM Hs Hft Hst. destruct (C2_parts _ _ _ _ _ H) as [H1 [H2 H3]].
  assert (Hex : ex_RInt f b a).
  { assert (Hba : b <= a).
    { destruct Hft as [Hne [Ha Hb]]. destruct xs as [|x0 xs]; [contradiction|]. cbn [hd] in Ha. subst a b.
      apply nonincreasing_last_le_hd. exact Hs. }
    apply (f_integrable f df b a Hba). exact H1. }
  unfold integral. rewrite <- (opp_RInt_swap f b a) by exact Hex.
  change (opp (RInt f b a)) with (- RInt f b a).
  replace (trapz (map f xs) xs - - RInt f b a) with (trapz (map f xs) xs + integral f b a) by (unfold integral; lra).
  apply (trapz_error_C2_decreasing f f df ddf a b M h xs); try assumption. intros; reflexivity.
Qed.

Lemma trapz_uniform_error_C2_on (f df ddf : R -> R) a b M n :
  a <= b -> C2_on f df ddf a b -> (forall x, a <= x <= b -> Rabs (ddf x) <= M) ->
  Rabs (trapz (map f (uniform_grid a b n)) (uniform_grid a b n) - integral f a b) <= (b - a) ^ 3 * M / (12 * INR (S n) ^ 2).
Proof. intros Hab H HM. destruct (C2_parts _ _ _ _ _ H) as [H1 [H2 H3]]. apply (trapz_uniform_error_C2 f df ddf); assumption. Qed.

Lemma iwv_general_error_C2_on (fx fp fT dF ddF : R -> R) z0 z1 M h zs :
  C2_on (vapour_integrand fx fp fT) dF ddF z0 z1 -> (forall z, z0 <= z <= z1 -> Rabs (ddF z) <= M) ->
  nondecreasing zs -> grid_from_to z0 z1 zs -> steps_within h zs ->
  Rabs (iwv_general (map fx zs) (map fp zs) (map fT zs) zs - integral (vapour_integrand fx fp fT) z0 z1) <= (z1 - z0) * h ^ 2 * M / 12.
Proof. intros H HM. destruct (C2_parts _ _ _ _ _ H) as [H1 [H2 H3]]. apply (iwv_general_error_C2 fx fp fT dF ddF); assumption. Qed.

Lemma iwv_hydro_error_C2_on (fx dQ ddQ : R -> R) p0 p1 M h ps :
  C2_on (hydro_integrand fx) dQ ddQ p1 p0 -> (forall p, p1 <= p <= p0 -> Rabs (ddQ p) <= M) ->
  nonincreasing ps -> grid_from_to p0 p1 ps -> steps_within h ps ->
  Rabs (iwv_hydro (map fx ps) ps - integral (hydro_integrand fx) p1 p0 / c_earth_standard_gravity)
  <= (p0 - p1) * h ^ 2 * M / 12 / c_earth_standard_gravity.
Proof. intros H HM. destruct (C2_parts _ _ _ _ _ H) as [H1 [H2 H3]]. apply (iwv_hydro_error_C2 fx dQ ddQ); assumption. Qed.

Lemma iwv_integrands_integrable :
  (forall (fx : R -> R) p0 p1, p1 <= p0 -> (forall p, p1 <= p <= p0 -> continuous_at fx p /\ 0 <= fx p <= 1) ->
     integrable (hydro_integrand fx) p0 p1) /\
  (forall (fx fp fT : R -> R) z0 z1, z0 <= z1 ->
     (forall z, z0 <= z <= z1 -> continuous_at fx z /\ continuous_at fp z /\ continuous_at fT z /\ 0 < fT z) ->
     integrable (vapour_integrand fx fp fT) z0 z1).
Proof. split; [exact hydro_integrand_integrable|exact vapour_density_integrable]. Qed.

(* the two analytic columns: closed form of the integral, error bound on every grid, limit on uniform grids *)
Lemma expo_column_summary x0 p0 T0 Hx Hp Z : 0 <= x0 -> 0 <= p0 -> 0 < T0 -> 0 < Hx -> 0 < Hp -> 0 < Z ->
  let fx := fun z => x0 * exp (- (z / Hx)) in let fp := fun z => p0 * exp (- (z / Hp)) in let fT := fun _ : R => T0 in
  (integrable (vapour_integrand fx fp fT) 0 Z /\ integral (vapour_integrand fx fp fT) 0 Z = expo_column x0 p0 T0 Hx Hp Z) /\
  (forall h zs, nondecreasing zs -> grid_from_to 0 Z zs -> steps_within h zs ->
     Rabs (iwv_general (map fx zs) (map fp zs) (map fT zs) zs - expo_column x0 p0 T0 Hx Hp Z)
     <= Z * h ^ 2 * expo_curvature x0 p0 T0 Hx Hp / 12) /\
  tends_to (fun n => let zs := uniform_grid 0 Z n in iwv_general (map fx zs) (map fp zs) (map fT zs) zs)
           (expo_column x0 p0 T0 Hx Hp Z).
Proof.
  intros H1 H2 H3 H4 H5 H6 fx fp fT. split; [|split].
  - apply (expo_column_integral x0 p0 T0 Hx Hp Z); try assumption. lra.
  - intros h zs. apply (expo_column_error x0 p0 T0 Hx Hp Z); assumption.
  - apply (expo_column_limit x0 p0 T0 Hx Hp Z); assumption.
Qed.

Lemma quad_column_summary q0 ps p1 : 0 <= q0 < 1 -> 0 <= p1 -> p1 < ps ->
  let fx := fun p => specific_humidity2vmr (q0 * (p / ps) ^ 2) in
  (integrable (hydro_integrand fx) ps p1 /\
   - integral (hydro_integrand fx) ps p1 / c_earth_standard_gravity = quad_column q0 ps p1) /\
  (forall h pg, nonincreasing pg -> grid_from_to ps p1 pg -> steps_within h pg ->
     Rabs (iwv_hydro (map fx pg) pg - quad_column q0 ps p1) <= (ps - p1) * h ^ 2 * (2 * q0 / ps ^ 2) / 12 / c_earth_standard_gravity) /\
  tends_to (fun n => let g := uniform_grid ps p1 n in iwv_hydro (map fx g) g) (quad_column q0 ps p1).
Proof.
  intros H1 H2 H3 fx. split; [|split].
  - apply (quad_column_integral q0 ps p1); assumption.
  - intros h pg. apply (quad_column_error q0 ps p1); assumption.
  - apply (quad_column_limit q0 ps p1); assumption.
Qed.

(* ---- witnesses for the non-vacuity examples of Props/C14.v *)
Lemma expo_witness A k Z : 0 <= A -> 0 < k -> 0 <= Z ->
  let f := fun z => A * exp (- (k * z)) in
  C2_on f (fun z => - k * A * exp (- (k * z))) (fun z => k ^ 2 * A * exp (- (k * z))) 0 Z /\
  (forall z, 0 <= z <= Z -> Rabs (k ^ 2 * A * exp (- (k * z))) <= k ^ 2 * A) /\
  integrable f 0 Z /\ integral f 0 Z = A * (1 - exp (- (k * Z))) / k.
Proof.
  intros HA Hk HZ f. split; [|split; [|split]].
  - intros z _. split; [apply (expo_d A k)|split; [apply (expo_dd A k)|apply (expo_cont A k)]].
  - intros z Hz. apply (expo_bound A k HA Hk). lra.
  - eexists. apply (expo_integral A k Hk).
  - apply is_RInt_unique. apply (expo_integral A k Hk).
Qed.

Lemma lipschitz_witness :
  integrable Rabs (-1) 1 /\ (forall x y, -1 <= x <= 1 -> -1 <= y <= 1 -> Rabs (Rabs x - Rabs y) <= 1 * Rabs (x - y)) /\
  integral Rabs (-1) 1 = 1.
Proof.
  split; [|split].
  - apply (@ex_RInt_continuous R_CompleteNormedModule). intros z _. apply continuous_Rabs.
  - intros x y _ _. rewrite Rmult_1_l. apply Rabs_triang_inv2.
  - unfold integral.
    assert (H0 : is_RInt Rabs (-1) 0 (1 / 2)).
    { apply (is_RInt_ext (fun x => - x)).
      - intros x Hx. rewrite Rmin_left, Rmax_right in Hx by lra. rewrite Rabs_left1 by lra. reflexivity.
      - pose (P := fun x : R => - (x ^ 2 / 2)).
        replace (1 / 2) with (minus (P 0) (P (-1))) by (unfold minus, plus, opp, P; cbn; field).
        apply (is_RInt_derive P (fun x => - x)).
        + intros x _. unfold P. auto_derive; [exact I|]. field.
        + intros x _. apply (ex_derive_continuous (fun x => - x)). auto_derive. exact I. }
    assert (H1 : is_RInt Rabs 0 1 (1 / 2)).
    { apply (is_RInt_ext (fun x => x)).
      - intros x Hx. rewrite Rmin_left, Rmax_right in Hx by lra. rewrite Rabs_pos_eq by lra. reflexivity.
      - pose (P := fun x : R => x ^ 2 / 2).
        replace (1 / 2) with (minus (P 1) (P 0)) by (unfold minus, plus, opp, P; cbn; field).
        apply (is_RInt_derive P (fun x => x)).
        + intros x _. unfold P. auto_derive; [exact I|]. field.
        + intros x _. apply continuous_id. }
    apply is_RInt_unique. replace 1 with (plus (1 / 2) (1 / 2)) at 2 by (unfold plus; cbn; lra).
    apply (is_RInt_Chasles Rabs (-1) 0 1); assumption.
Qed.

Lemma uniform_grid_witness a b :
  (forall n, grid_from_to a b (uniform_grid a b n) /\ (a <= b -> nondecreasing (uniform_grid a b n)) /\
             (b <= a -> nonincreasing (uniform_grid a b n)) /\ steps_within (Rabs (b - a) / INR (S n)) (uniform_grid a b n) /\
             length (uniform_grid a b n) = S (S n)) /\
  mesh_vanishes (uniform_grid a b).
Proof.
  split; [|apply uniform_mesh_vanishes]. intros n. split; [apply uniform_grid_from_to|].
  split; [apply uniform_grid_nondecreasing|]. split; [apply uniform_grid_nonincreasing|]. split; [apply uniform_grid_steps|].
  unfold uniform_grid. rewrite map_length, seq_length. reflexivity.
Qed.

Lemma columns_witness :
  (0 <= 0.02 /\ 0 <= 100000 /\ 0 < 280 /\ 0 < 2500 /\ 0 < 8000 /\ 0 < 10000) /\ (0 <= 0.012 < 1 /\ 0 <= 20000 /\ 20000 < 100000) /\
  0 < expo_column 0.02 100000 280 2500 8000 10000 /\ 0 < quad_column 0.012 100000 20000.
Proof.
  split; [lra|split; [lra|split]].
  - unfold expo_column. cbv zeta. pose proof Rv_pos as HR.
    assert (Hk : 0 < / 2500 + / 8000) by lra.
    assert (He : exp (- ((/ 2500 + / 8000) * 10000)) < 1).
    { rewrite <- exp_0. apply exp_increasing. lra. }
    apply Rdiv_lt_0_compat; [|exact Hk]. apply Rmult_lt_0_compat; [|lra].
    apply Rdiv_lt_0_compat; [lra|]. nra.
  - unfold quad_column. pose proof g_pos. apply Rdiv_lt_0_compat; [|assumption].
    apply Rdiv_lt_0_compat; lra.
Qed.
