(* C17 -- the spectral clause without a spectral theorem: A = G K is self-adjoint for the inner product x^T Sa^-1 y
   (Sa^-1 A is symmetric) with Rayleigh quotient in [0,1); consequences that hold over every ordered field:
   no complex eigenpairs, eigenvalues in [0,1), no Jordan blocks, orthogonal eigenvectors. *)
Set Warnings "-notation-overridden,-ambiguous-paths".
From mathcomp Require Import all_ssreflect all_algebra.
From TyphonGen Require Import oem.
From Typhon Require Import Model.C17_oem Proofs.C17_oem Proofs.C17_limits.
Set Implicit Arguments.
Unset Strict Implicit.
Import Order.TTheory GRing.Theory Num.Theory.
Local Open Scope ring_scope.

Section SelfAdjoint.
Variable F : realFieldType.
Variable n : nat.
Variable P : 'M[F]_n.
Hypothesis sP : symmetric P.
Hypothesis pP : posdef P.

Lemma bilDr (M : 'M[F]_n) x y z : bil M x (y + z) = bil M x y + bil M x z.
Proof. by rewrite /bil mulmxDr mxE. Qed.
Lemma bilZr (M : 'M[F]_n) a x y : bil M x (a *: y) = a * bil M x y.
Proof. by rewrite /bil -scalemxAr mxE. Qed.
Lemma bilDl (M : 'M[F]_n) x y z : bil M (x + y) z = bil M x z + bil M y z.
Proof. by rewrite /bil (linearD (@trmx_linear _ _ _)) /= !mulmxDl mxE. Qed.
Lemma bilZl (M : 'M[F]_n) a x y : bil M (a *: x) y = a * bil M x y.
Proof. by rewrite /bil [(a *: x)^T]linearZ /= -!scalemxAl mxE. Qed.
Lemma bil0r (M : 'M[F]_n) x : bil M x 0 = 0.
Proof. by rewrite /bil mulmx0 mxE. Qed.

Lemma posdef_qf0 x : qf P x = 0 -> x = 0.
Proof.
move=> q0; apply/eqP/negPn/negP => xn0.
by have := pP xn0; rewrite q0 ltxx.
Qed.

Lemma sa_swap T x y : selfadjoint P T -> bil P x (T *m y) = bil P (T *m x) y.
Proof.
move=> hT; rewrite /bil trmx_mul -[x^T *m T^T *m P]mulmxA -{2}sP -trmx_mul hT.
by rewrite !mulmxA.
Qed.

Lemma sa_sub (T : 'M[F]_n) (a : F) : selfadjoint P T -> selfadjoint P (T - a%:M).
Proof.
rewrite /selfadjoint /symmetric => hT.
by rewrite mulmxBr [(_ - _)^T]linearB /= hT mul_mx_scalar [(a *: P)^T]linearZ /= sP.
Qed.

(* no nilpotent part: T (T x) = 0 -> T x = 0; with sa_sub: (T - a)^2 x = 0 -> (T - a) x = 0 *)
Lemma sa_sq0 T (x : 'cV[F]_n) : selfadjoint P T -> T *m (T *m x) = 0 -> T *m x = 0.
Proof.
move=> hT h0; apply: posdef_qf0.
have -> : qf P (T *m x) = bil P (T *m x) (T *m x) by [].
by rewrite -(sa_swap _ _ hT) h0 bil0r.
Qed.

Lemma sa_no_jordan (T : 'M[F]_n) (a : F) (x : 'cV[F]_n) : selfadjoint P T ->
  (T - a%:M) *m ((T - a%:M) *m x) = 0 -> (T - a%:M) *m x = 0.
Proof. by move=> hT; apply: sa_sq0; apply: sa_sub. Qed.

(* eigenvectors for different eigenvalues are orthogonal *)
Lemma sa_orth T a1 a2 x y : selfadjoint P T ->
  T *m x = a1 *: x -> T *m y = a2 *: y -> a1 != a2 -> bil P x y = 0.
Proof.
move=> hT hx hy ne; have := sa_swap x y hT; rewrite hx hy bilZr bilZl => /eqP.
by rewrite eq_sym -subr_eq0 -mulrBl mulf_eq0 subr_eq0 (negbTE ne) /= => /eqP.
Qed.

(* a complex eigenpair (a + i b, u + i v) has b = 0 *)
Lemma sa_complex T a b u v : selfadjoint P T ->
  T *m u = a *: u - b *: v -> T *m v = b *: u + a *: v -> b * (qf P u + qf P v) = 0.
Proof.
move=> hT hu hv; have := sa_swap u v hT.
rewrite hu hv bilDr bilDl !bilZr bilNl !bilZl.
have -> : bil P u u = qf P u by []. have -> : bil P v v = qf P v by [].
set t := bil P u v; set qu := qf P u; set qv := qf P v => h.
have -> : b * (qu + qv) = (b * qu + a * t) - (a * t - b * qv).
  by rewrite opprB addrACA subrr addr0 mulrDr.
by rewrite h subrr.
Qed.

Lemma sa_complex_real T a b (u v : 'cV[F]_n) : selfadjoint P T -> (u != 0) || (v != 0) ->
  T *m u = a *: u - b *: v -> T *m v = b *: u + a *: v -> b = 0.
Proof.
move=> hT nz hu hv; have /eqP := sa_complex hT hu hv.
rewrite mulf_eq0 => /orP [/eqP //|/eqP s0].
have qu := posdef_semidef pP u; have qv := posdef_semidef pP v.
have := s0; move/eqP; rewrite paddr_eq0 // => /andP [/eqP /posdef_qf0 u0 /eqP /posdef_qf0 v0].
by move: nz; rewrite u0 v0 eqxx.
Qed.

(* Rayleigh quotient in [0,1) -> eigenvalues in [0,1) *)
Lemma rayleigh_eig T a (x : 'cV[F]_n) : (forall y, y != 0 -> 0 <= qf (P *m T) y < qf P y) ->
  x != 0 -> T *m x = a *: x -> 0 <= a < 1.
Proof.
move=> hR xn0 hx; have := hR x xn0; have q0 := pP xn0.
have -> : qf (P *m T) x = a * qf P x.
  by rewrite /qf -[x^T *m (P *m T) *m x]mulmxA -[(P *m T) *m x]mulmxA hx -!scalemxAr mxE mulmxA.
by rewrite pmulr_lge0 // gtr_pmull.
Qed.

End SelfAdjoint.

Section OEM_selfadjoint.
Variable F : realFieldType.
Variables m n : nat.
Variable K : 'M[F]_(m.+1, n.+1).
Variable Sa : 'M[F]_(n.+1).
Variable Sy : 'M[F]_(m.+1).
Hypothesis Sa_spd : spd Sa.
Hypothesis Sy_spd : spd Sy.

Local Notation S := (error_covariance_matrix K Sa Sy).
Local Notation A := (averaging_kernel_matrix K Sa Sy).
Local Notation W := (invmx Sa).
Local Notation D := (Sa - S).

Let Sa_u := spd_unit Sa_spd.
Let N_u := spd_unit (N_spd K Sa_spd Sy_spd).

(* x^T P^-1 x = y^T P y with y = P^-1 x *)
Lemma qf_inv p (P : 'M[F]_p) x : spd P -> qf (invmx P) x = qf P (invmx P *m x).
Proof.
move=> sp; have [sP _] := sp; have uP := spd_unit sp.
rewrite /qf trmx_mul (sym_inv sP) -!mulmxA.
by rewrite [P *m (invmx P *m x)]mulmxA (mulmxV uP) mul1mx.
Qed.

Lemma inv_neq0 p (P : 'M[F]_p) (x : 'cV[F]_p) : P \in unitmx -> x != 0 -> invmx P *m x != 0.
Proof.
move=> uP xn0; apply/negP => /eqP y0; move/negP: xn0; apply.
by rewrite -[x]mul1mx -(mulmxV uP) -mulmxA y0 mulmx0.
Qed.

Lemma A_Sa : A *m Sa = D.
Proof. by rewrite [in RHS](S_eq_Sa_minus_A_Sa Sa_u N_u) opprB addrC subrK. Qed.

Lemma A_is_D_W : A = D *m W.
Proof. by rewrite -A_Sa -mulmxA (mulmxV Sa_u) mulmx1. Qed.

Lemma D_sym : symmetric D.
Proof.
have [sSa _] := Sa_spd; have [sS _] := spd_S_spd K Sa_spd Sy_spd.
by rewrite /symmetric linearB /= sSa sS.
Qed.

Lemma D_rayleigh y : y != 0 -> 0 <= qf D y < qf Sa y.
Proof.
move=> yn0; rewrite (spd_S_le_Sa K Sa_spd Sy_spd y) /= qfB.
have [_ pS] := spd_S_spd K Sa_spd Sy_spd.
by rewrite ltr_subl_addr ltr_addl; apply: pS.
Qed.

Lemma W_A : W *m A = W^T *m D *m W.
Proof. by have [sW _] := spd_inv Sa_spd; rewrite sW {1}A_is_D_W !mulmxA. Qed.

(* A is self-adjoint for <x, y> = x^T Sa^-1 y *)
Lemma A_selfadjoint : selfadjoint W A.
Proof. by rewrite /selfadjoint /symmetric W_A !trmx_mul trmxK D_sym mulmxA. Qed.

Lemma A_rayleigh x : x != 0 -> 0 <= qf (W *m A) x < qf W x.
Proof.
move=> xn0; rewrite W_A qf_congr (qf_inv _ Sa_spd).
by apply: D_rayleigh; apply: inv_neq0.
Qed.

(* the row side: A^T is self-adjoint for <x, y> = x^T Sa y *)
Lemma At_selfadjoint : selfadjoint Sa A^T.
Proof.
have [sSa _] := Sa_spd.
rewrite /selfadjoint /symmetric.
have -> : Sa *m A^T = (A *m Sa)^T by rewrite (trmx_mul A Sa) sSa.
by rewrite trmxK A_Sa D_sym.
Qed.

Lemma At_rayleigh x : x != 0 -> 0 <= qf (Sa *m A^T) x < qf Sa x.
Proof.
have [sSa _] := Sa_spd.
have -> : Sa *m A^T = (A *m Sa)^T by rewrite (trmx_mul A Sa) sSa.
by move=> xn0; rewrite A_Sa D_sym; apply: D_rayleigh.
Qed.

Lemma spd_A_symmetrised :
  (W *m A)^T = W *m A /\ forall x : 'cV[F]_(n.+1), x != 0 -> 0 <= qf (W *m A) x < qf W x.
Proof. by split; [exact: A_selfadjoint | exact: A_rayleigh]. Qed.

(* every eigenpair over F[i], written in real and imaginary parts, is real with eigenvalue in [0,1) *)
Lemma spd_A_complex_eigenpair (a b : F) (u v : 'cV[F]_(n.+1)) : (u != 0) || (v != 0) ->
  A *m u = a *: u - b *: v -> A *m v = b *: u + a *: v -> b = 0 /\ 0 <= a < 1.
Proof.
have [sW pW] := spd_inv Sa_spd.
move=> nz hu hv; have b0 := sa_complex_real sW pW A_selfadjoint nz hu hv.
split=> //; move: hu hv; rewrite b0 !scale0r subr0 add0r => hu hv.
by case/orP: nz => nz; [apply: (rayleigh_eig pW A_rayleigh nz hu) | apply: (rayleigh_eig pW A_rayleigh nz hv)].
Qed.

Lemma spd_A_complex_eigenpair_row (a b : F) (u v : 'rV[F]_(n.+1)) : (u != 0) || (v != 0) ->
  u *m A = a *: u - b *: v -> v *m A = b *: u + a *: v -> b = 0 /\ 0 <= a < 1.
Proof.
have [sSa pSa] := Sa_spd.
move=> nz /(congr1 trmx) hu /(congr1 trmx) hv.
rewrite trmx_mul linearB /= !linearZ /= ?scalerN in hu; rewrite trmx_mul linearD /= !linearZ /= in hv.
have nz' : (u^T != 0) || (v^T != 0) by rewrite !trmx_eq0.
have b0 := sa_complex_real sSa pSa At_selfadjoint nz' hu hv.
split=> //; move: hu hv; rewrite b0 !scale0r subr0 add0r => hu hv.
by case/orP: nz' => nz''; [apply: (rayleigh_eig pSa At_rayleigh nz'' hu) | apply: (rayleigh_eig pSa At_rayleigh nz'' hv)].
Qed.

(* no Jordan block: generalised eigenvectors of rank 2 are eigenvectors *)
Lemma spd_A_semisimple (a : F) (x : 'cV[F]_(n.+1)) :
  (A - a%:M) *m ((A - a%:M) *m x) = 0 -> (A - a%:M) *m x = 0.
Proof. by have [sW pW] := spd_inv Sa_spd; apply: sa_no_jordan sW pW _ _ _ A_selfadjoint. Qed.

Lemma spd_A_eigenvectors_orthogonal (a1 a2 : F) (x y : 'cV[F]_(n.+1)) :
  A *m x = a1 *: x -> A *m y = a2 *: y -> a1 != a2 -> (x^T *m W *m y) 0 0 = 0.
Proof. have [sW pW] := spd_inv Sa_spd; move=> hx hy ne; exact: (sa_orth sW A_selfadjoint hx hy ne). Qed.

End OEM_selfadjoint.

(* ------------------------------------------------------------------------------------------------ *)
(* non-vacuity: direct measurement of the state with unit covariances has A = I/2 (every vector is an eigenvector
   for the eigenvalue 1/2) *)
Section DirectMeasurement.
Variable F : realFieldType.
Lemma direct_measurement_kernel (n : nat) :
  averaging_kernel_matrix (1%:M : 'M[F]_(n.+1)) 1%:M 1%:M = (2%:R^-1)%:M.
Proof.
rewrite A_unfold G_unfold /Nmx.
rewrite trmx1 !mulmx1.
rewrite invmx1.
rewrite !mulmx1.
have -> : (1%:M + 1%:M : 'M[F]_(n.+1)) = 2%:R *: 1%:M by rewrite scaler_nat.
have u2 : (2%:R *: 1%:M : 'M[F]_(n.+1)) \in unitmx.
  by rewrite scalemx1 unitmxE det_scalar unitfE expf_neq0 // pnatr_eq0.
by rewrite (invmxZ u2) invmx1 scalemx1.
Qed.
Lemma spd_1 (n : nat) : spd (1%:M : 'M[F]_n).
Proof. by split; [rewrite /symmetric trmx1 | exact: posdef_1]. Qed.
End DirectMeasurement.
