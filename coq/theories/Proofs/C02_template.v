(* Proofs/C02_template.v -- lemmas about Model/C02_template.v *)
From Coq Require Import ZArith List Bool Ascii String Lia ZifyBool.
From Typhon Require Import Base.Calendar Base.CalendarProofs Model.C02_template.
Import ListNotations.
Open Scope Z_scope.

(* ------------------------------------------------------------------ characters, digits *)

Lemma str_eqb_eq a b : str_eqb a b = true <-> a = b.
Proof.
  revert b. induction a as [|x a IH]; intros [|y b]; cbn [str_eqb]; split; intros H; try discriminate; try reflexivity.
  - apply andb_true_iff in H. destruct H as [H1 H2]. apply Ascii.eqb_eq in H1. apply IH in H2. congruence.
  - injection H as -> ->. rewrite Ascii.eqb_refl. cbn. apply IH. reflexivity.
Qed.

Lemma tfield_eqb_eq a b : tfield_eqb a b = true <-> a = b.
Proof. destruct a, b; cbn; split; intros H; try discriminate; reflexivity. Qed.

Lemma key_eqb_eq a b : key_eqb a b = true <-> a = b.
Proof.
  destruct a as [e f|n], b as [e' f'|n']; cbn [key_eqb]; split; intros H; try discriminate.
  - apply andb_true_iff in H. destruct H as [H1 H2]. apply Bool.eqb_prop in H1. apply tfield_eqb_eq in H2. congruence.
  - injection H as -> ->. rewrite Bool.eqb_reflx. cbn. apply tfield_eqb_eq. reflexivity.
  - apply str_eqb_eq in H. congruence.
  - injection H as ->. apply str_eqb_eq. reflexivity.
Qed.

Lemma key_eqb_refl k : key_eqb k k = true.
Proof. apply key_eqb_eq. reflexivity. Qed.

Lemma digit_char_ok k : 0 <= k < 10 -> is_digit (digit_char k) = true /\ digit_val (digit_char k) = k.
Proof.
  intros H.
  assert (C : k = 0 \/ k = 1 \/ k = 2 \/ k = 3 \/ k = 4 \/ k = 5 \/ k = 6 \/ k = 7 \/ k = 8 \/ k = 9) by lia.
  destruct C as [->|[->|[->|[->|[->|[->|[->|[->|[->| ->]]]]]]]]]; split; reflexivity.
Qed.

Lemma fixw_length w z : List.length (fixw w z) = w.
Proof. revert z. induction w as [|w IH]; intros z; cbn [fixw]; [reflexivity|]. rewrite app_length, IH. cbn. lia. Qed.

Lemma fixw_digits w z : forallb is_digit (fixw w z) = true.
Proof.
  revert z. induction w as [|w IH]; intros z; cbn [fixw]; [reflexivity|].
  rewrite forallb_app, IH. cbn [forallb andb].
  destruct (digit_char_ok (z mod 10)) as [H _]; [lia|]. rewrite H. reflexivity.
Qed.

Lemma to_int_acc_app acc a b : to_int_acc acc (a ++ b) = to_int_acc (to_int_acc acc a) b.
Proof. revert acc. induction a as [|x a IH]; intros acc; cbn [to_int_acc app]; [reflexivity|apply IH]. Qed.

Lemma to_int_fixw w z : 0 <= z -> to_int (fixw w z) = z mod 10 ^ Z.of_nat w.
Proof.
  unfold to_int. revert z. induction w as [|w IH]; intros z Hz.
  - cbn. rewrite Z.mod_1_r. reflexivity.
  - cbn [fixw]. rewrite to_int_acc_app, IH by (apply Z.div_pos; lia). cbn [to_int_acc].
    destruct (digit_char_ok (z mod 10)) as [_ H]; [lia|]. rewrite H.
    replace (Z.of_nat (S w)) with (Z.of_nat w + 1) by lia. rewrite Z.pow_add_r by lia.
    change (10 ^ 1) with 10. set (p := 10 ^ Z.of_nat w). assert (Hp : 0 < p) by (apply Z.pow_pos_nonneg; lia).
    rewrite (Z.mul_comm p 10). rewrite Z.rem_mul_r by lia. lia.
Qed.

Lemma take_digits_app d r : forallb is_digit d = true -> take_digits (List.length d) (d ++ r) = Some (d, r).
Proof.
  induction d as [|a d IH]; intros H; cbn [List.length take_digits app]; [reflexivity|].
  cbn [forallb] in H. apply andb_true_iff in H. destruct H as [H1 H2]. rewrite H1, (IH H2). reflexivity.
Qed.

Lemma strip_app l r : strip l (l ++ r) = Some r.
Proof. induction l as [|a l IH]; cbn [strip app]; [reflexivity|]. rewrite Ascii.eqb_refl. exact IH. Qed.

Lemma strip_prefix w v r x : strip w (v ++ r) = Some x -> is_prefix w v = true \/ is_prefix v w = true.
Proof.
  revert v. induction w as [|a w IH]; intros v H; [left; destruct v; reflexivity|].
  destruct v as [|b v]; [right; reflexivity|].
  cbn [strip app] in H. cbn [is_prefix]. destruct (Ascii.eqb a b) eqn:E; [|discriminate].
  apply Ascii.eqb_eq in E. subst b. rewrite Ascii.eqb_refl. cbn [andb]. apply IH. exact H.
Qed.

(* ------------------------------------------------------------------ the matcher rejects a wrong first character *)

Lemma width_pos f : exists n, width f = S n.
Proof. destruct f; cbn; eexists; reflexivity. Qed.

Lemma alts_none {B} (k : str -> option B) vs a r :
  existsb (fun v => match v with c :: _ => Ascii.eqb a c | [] => true end) vs = false ->
  alts k vs (a :: r) = None.
Proof.
  induction vs as [|v vs IH]; intros H; cbn [alts]; [reflexivity|].
  cbn [existsb] in H. apply orb_false_iff in H. destruct H as [H1 H2].
  destruct v as [|c v]; [discriminate|]. cbn [strip].
  rewrite Ascii.eqb_sym in H1. rewrite H1. apply IH. exact H2.
Qed.

Lemma matcher_cannot_follow tp a r : cannot_follow tp a = true -> matcher tp (a :: r) = None.
Proof.
  destruct tp as [|t tp]; cbn [cannot_follow]; intros H.
  - cbn [matcher]. destruct r; [|reflexivity]. apply negb_true_iff in H. rewrite H. reflexivity.
  - apply negb_true_iff in H. destruct t as [l|e f|name k|]; cbn [can_start] in H; try discriminate.
    + destruct l as [|c l]; [discriminate|]. cbn [matcher strip]. rewrite Ascii.eqb_sym in H. rewrite H. reflexivity.
    + cbn [matcher]. destruct (width_pos f) as [n ->]. cbn [take_digits]. rewrite H. reflexivity.
    + destruct k as [[|vs|[|n]]|]; try discriminate.
      * cbn [matcher]. rewrite (alts_none _ _ _ _ H). reflexivity.
      * cbn [matcher take_digits]. rewrite H. reflexivity.
Qed.

(* ------------------------------------------------------------------ lazy repetition, alternation *)

Lemma lazy_shortest {B} (k : str -> option B) r b : k r = Some b ->
  forall v acc, forallb (fun a => negb (is_nl a)) v = true ->
  (forall v1 a v2, v = v1 ++ a :: v2 -> k (a :: v2 ++ r) = None) ->
  lazy k acc (v ++ r) = Some (acc ++ v, b).
Proof.
  intros Hk. induction v as [|a v IH]; intros acc Hnl Hno.
  - cbn [app]. rewrite app_nil_r. destruct r; cbn [lazy]; rewrite Hk; reflexivity.
  - cbn [app lazy]. rewrite (Hno [] a v eq_refl).
    cbn [forallb] in Hnl. apply andb_true_iff in Hnl. destruct Hnl as [H1 H2].
    apply negb_true_iff in H1. rewrite H1.
    rewrite (IH (acc ++ [a]) H2).
    + rewrite <- app_assoc. reflexivity.
    + intros v1 a' v2 E. apply (Hno (a :: v1) a' v2). rewrite E. reflexivity.
Qed.

Lemma is_prefix_refl v : is_prefix v v = true.
Proof. induction v as [|a v IH]; cbn [is_prefix]; [reflexivity|]. rewrite Ascii.eqb_refl. exact IH. Qed.

Lemma alts_unique {B} (k : str -> option B) r b v : k r = Some b ->
  forall vs, existsb (str_eqb v) vs = true -> prefix_free vs = true -> alts k vs (v ++ r) = Some (v, b).
Proof.
  intros Hk. induction vs as [|w vs IH]; intros Hin Hpf; [discriminate|].
  cbn [existsb] in Hin. cbn [prefix_free] in Hpf. apply andb_true_iff in Hpf. destruct Hpf as [Hw Hpf].
  cbn [alts]. destruct (str_eqb v w) eqn:E.
  - apply str_eqb_eq in E. subst w. rewrite strip_app, Hk. reflexivity.
  - cbn [orb] in Hin.
    assert (Hnone : strip w (v ++ r) = None).
    { destruct (strip w (v ++ r)) as [x|] eqn:Es; [exfalso|reflexivity].
      apply strip_prefix in Es.
      assert (Hv : exists v', In v' vs /\ v' = v).
      { apply existsb_exists in Hin. destruct Hin as [v' [Hi He]]. apply str_eqb_eq in He. eauto. }
      destruct Hv as [v' [Hi ->]]. rewrite forallb_forall in Hw. specialize (Hw v Hi).
      apply andb_true_iff in Hw. destruct Hw as [Hw1 Hw2]. apply negb_true_iff in Hw1, Hw2.
      destruct Es; congruence. }
    rewrite Hnone. apply IH; assumption.
Qed.

(* ------------------------------------------------------------------ the rendered fields *)

Definition fields_ok (d : dt) : Prop :=
  1000 <= year d /\ valid_date (year d) (month d) (day d) /\ 0 <= hour d < 24 /\ 0 <= minute d < 60 /\
  0 <= second d < 60 /\ 0 <= micro d < 1000000.

Lemma fields_ok_of t : valid t -> 1000 <= year (fields t) -> fields_ok (fields t).
Proof. intros V Hy. pose proof (fields_range t V) as H. cbv zeta in H. unfold fields_ok. tauto. Qed.

Definition parse_only (f : tfield) : bool := match f with FDeci | FCenti | FMicro => true | _ => false end.

Lemma pad2 z : 0 <= z < 100 -> pad 2 z = fixw 2 z.
Proof. intros H. unfold pad. destruct (z <? 10) eqn:E1; [reflexivity|]. destruct (z <? 100) eqn:E2; [reflexivity|lia]. Qed.
Lemma pad3 z : 0 <= z < 1000 -> pad 3 z = fixw 3 z.
Proof.
  intros H. unfold pad. destruct (z <? 10) eqn:E1; [reflexivity|]. destruct (z <? 100) eqn:E2; [reflexivity|].
  destruct (z <? 1000) eqn:E3; [reflexivity|lia].
Qed.
Lemma pad_year z : 1000 <= z <= 9999 -> pad 1 z = fixw 4 z.
Proof.
  intros H. unfold pad. destruct (z <? 10) eqn:E1; [lia|]. destruct (z <? 100) eqn:E2; [lia|].
  destruct (z <? 1000) eqn:E3; [lia|]. destruct (z <? 10000) eqn:E4; [reflexivity|lia].
Qed.

Lemma fval_range f d : fields_ok d -> parse_only f = false -> 0 <= fval f d < 10 ^ Z.of_nat (width f) \/ f = FYear2.
Proof.
  intros (Hy & Vd & Hh & Hm & Hs & Hu) Hp. pose proof (doy_range _ _ _ Vd) as Hdoy.
  pose proof (dim_le_31 (year d) (month d)) as H31. unfold valid_date in Vd. unfold days_in_year in Hdoy.
  destruct f; try discriminate; cbn [fval width]; try (right; reflexivity); left;
    try (change (10 ^ Z.of_nat 2) with 100); try (change (10 ^ Z.of_nat 3) with 1000);
    try (change (10 ^ Z.of_nat 4) with 10000); try lia.
  destruct (is_leap (year d)); lia.
Qed.

Lemma field_text_fixw f d : fields_ok d -> parse_only f = false ->
  field_text f d = Some (fixw (width f) (fval f d)).
Proof.
  intros Hok Hp. pose proof (fval_range f d Hok Hp) as R.
  destruct Hok as (Hy & Vd & Hh & Hm & Hs & Hu). unfold valid_date in Vd.
  destruct f; try discriminate; cbn [field_text fval width] in *.
  - rewrite pad_year by lia. reflexivity.
  - destruct (year d <? 10) eqn:E; [lia|reflexivity].
  - rewrite pad2; [reflexivity|]. destruct R as [R|R]; [cbn in R; lia|discriminate].
  - rewrite pad2; [reflexivity|]. destruct R as [R|R]; [cbn in R; lia|discriminate].
  - rewrite pad3; [reflexivity|]. destruct R as [R|R]; [cbn in R; lia|discriminate].
  - rewrite pad2; [reflexivity|]. lia.
  - rewrite pad2; [reflexivity|]. lia.
  - rewrite pad2; [reflexivity|]. lia.
  - rewrite pad3; [reflexivity|]. lia.
Qed.

(* the value int() reads back from the rendered field *)
Definition aval (f : tfield) (d : dt) : Z := match f with FYear2 => year d mod 100 | _ => fval f d end.

Lemma to_int_field f d : fields_ok d -> parse_only f = false -> to_int (fixw (width f) (fval f d)) = aval f d.
Proof.
  intros Hok Hp. pose proof (fval_range f d Hok Hp) as R. destruct Hok as (Hy & _).
  rewrite to_int_fixw.
  - destruct R as [R| ->]; [|reflexivity]. rewrite Z.mod_small by exact R. destruct f; try reflexivity.
    cbn [fval width] in R. change (10 ^ Z.of_nat 2) with 100 in R. lia.
  - destruct R as [R| ->]; [lia|]. cbn [fval]. lia.
Qed.

(* ------------------------------------------------------------------ parse (render ...) *)

Lemma det_parse_only fill tp en f : deterministic fill tp = true -> In (T en f) tp -> parse_only f = false.
Proof.
  induction tp as [|t tp IH]; intros H Hin; [destruct Hin|].
  cbn [deterministic] in H. apply andb_true_iff in H. destruct H as [H1 H2].
  destruct Hin as [->|Hin]; [|apply IH; assumption]. destruct f; try reflexivity; discriminate.
Qed.

Theorem matcher_pieces ds de fill : fields_ok ds -> fields_ok de ->
  forall tp ps, deterministic fill tp = true -> pieces ds de fill tp = Ok ps ->
  matcher tp (text_of ps) = Some (binds_of ps).
Proof.
  intros Hs He. induction tp as [|t tp IH]; intros ps Hdet Hp.
  - cbn [pieces] in Hp. injection Hp as <-. reflexivity.
  - cbn [pieces] in Hp. cbn [deterministic] in Hdet. apply andb_true_iff in Hdet. destruct Hdet as [Hdet Ht].
    destruct (piece ds de fill t) as [p|] eqn:Epc; [|discriminate]. cbn [bind] in Hp.
    destruct (pieces ds de fill tp) as [ps'|] eqn:Eps; [|discriminate]. cbn [bind] in Hp. injection Hp as <-.
    specialize (IH ps' Hdet eq_refl).
    unfold text_of in *. cbn [map List.concat]. set (rest := List.concat (map snd ps')) in *.
    destruct t as [l|en f|name k|]; cbn [piece] in Epc.
    + injection Epc as <-. cbn [snd matcher binds_of]. rewrite strip_app. exact IH.
    + assert (Hpo : parse_only f = false) by (destruct f; try reflexivity; discriminate).
      assert (Hok : fields_ok (if en then de else ds)) by (destruct en; assumption).
      rewrite (field_text_fixw f _ Hok Hpo) in Epc. injection Epc as <-. cbn [snd matcher binds_of].
      rewrite <- (fixw_length (width f) (fval f (if en then de else ds))) at 1.
      rewrite take_digits_app by apply fixw_digits. rewrite IH. reflexivity.
    + destruct k as [k|]; [|discriminate].
      destruct (lookup (KU name) fill) as [v|] eqn:El; [|discriminate]. injection Epc as <-.
      cbn [snd binds_of]. apply andb_true_iff in Ht. destruct Ht as [Hplain Hk].
      destruct k as [|vs|n].
      * apply andb_true_iff in Hk. destruct Hk as [Hne Hcf]. destruct v as [|a v]; [discriminate|].
        assert (Hnl : forallb (fun c => negb (is_nl c)) (a :: v) = true).
        { rewrite forallb_forall in *. intros c Hc. specialize (Hplain c Hc). unfold plain_char in Hplain.
          apply andb_true_iff in Hplain. destruct Hplain as [Hplain _]. apply andb_true_iff in Hplain. tauto. }
        cbn [forallb] in Hnl. apply andb_true_iff in Hnl. destruct Hnl as [Hnl1 Hnl2].
        cbn [matcher app]. apply negb_true_iff in Hnl1. rewrite Hnl1.
        rewrite (lazy_shortest (matcher tp) rest (binds_of ps') IH v [a] Hnl2).
        -- reflexivity.
        -- intros v1 c v2 E. apply matcher_cannot_follow. rewrite forallb_forall in Hcf. apply Hcf.
           right. rewrite E. apply in_or_app. right. left. reflexivity.
      * apply andb_true_iff in Hk. destruct Hk as [Hin Hpf]. cbn [matcher].
        rewrite (alts_unique (matcher tp) rest (binds_of ps') v IH vs Hin Hpf). reflexivity.
      * apply andb_true_iff in Hk. destruct Hk as [Hdig Hlen]. apply Nat.eqb_eq in Hlen. subst n.
        cbn [matcher]. rewrite take_digits_app by exact Hdig. rewrite IH. reflexivity.
    + discriminate.
Qed.

(* ------------------------------------------------------------------ groupdict of the rendered name *)

Lemma lookup_filter_other {A} k k' (l : list (key * A)) : key_eqb k k' = false ->
  lookup k (filter (fun kv => negb (key_eqb k' (fst kv))) l) = lookup k l.
Proof.
  intros Hne. induction l as [|[k2 v] l IH]; [reflexivity|]. cbn [filter fst lookup].
  destruct (key_eqb k' k2) eqn:E; cbn [negb].
  - apply key_eqb_eq in E. subst k2. rewrite Hne. exact IH.
  - cbn [lookup]. rewrite IH. reflexivity.
Qed.

Lemma lookup_first_only k b : lookup k (first_only b) = lookup k b.
Proof.
  induction b as [|[k' v] b IH]; [reflexivity|]. cbn [first_only lookup].
  destruct (key_eqb k k') eqn:E; [reflexivity|]. rewrite lookup_filter_other by exact E. exact IH.
Qed.

Definition tfields (en : bool) (tp : list tok) : list tfield := if en then end_fields tp else start_fields tp.

Lemma tfields_cons en t tp :
  tfields en (t :: tp) = match t with T e f => if Bool.eqb e en then f :: tfields en tp else tfields en tp
                                    | _ => tfields en tp end.
Proof. destruct en; destruct t as [l|[|] f|n k|]; reflexivity. Qed.

Lemma lookup_binds ds de fill en f : fields_ok ds -> fields_ok de ->
  forall tp ps, deterministic fill tp = true -> pieces ds de fill tp = Ok ps ->
  lookup (KT en f) (binds_of ps) =
  if has f (tfields en tp) then Some (fixw (width f) (fval f (if en then de else ds))) else None.
Proof.
  intros Hs He. induction tp as [|t tp IH]; intros ps Hdet Hp.
  - cbn [pieces] in Hp. injection Hp as <-. destruct en; reflexivity.
  - cbn [pieces] in Hp. cbn [deterministic] in Hdet. apply andb_true_iff in Hdet. destruct Hdet as [Hdet Ht].
    destruct (piece ds de fill t) as [p|] eqn:Epc; [|discriminate]. cbn [bind] in Hp.
    destruct (pieces ds de fill tp) as [ps'|] eqn:Eps; [|discriminate]. cbn [bind] in Hp. injection Hp as <-.
    specialize (IH ps' Hdet eq_refl). rewrite tfields_cons.
    destruct t as [l|e' f'|name k|]; cbn [piece] in Epc.
    + injection Epc as <-. exact IH.
    + assert (Hpo : parse_only f' = false) by (destruct f'; try reflexivity; discriminate).
      assert (Hok : fields_ok (if e' then de else ds)) by (destruct e'; assumption).
      rewrite (field_text_fixw f' _ Hok Hpo) in Epc. injection Epc as <-. cbn [binds_of lookup key_eqb].
      destruct (Bool.eqb en e') eqn:Ee.
      * apply Bool.eqb_prop in Ee. subst e'. rewrite Bool.eqb_reflx. cbn [andb has existsb].
        unfold has in IH. destruct (tfield_eqb f f') eqn:Ef; [|exact IH].
        apply tfield_eqb_eq in Ef. subst f'. reflexivity.
      * cbn [andb]. replace (Bool.eqb e' en) with false by (destruct e', en; try reflexivity; discriminate). exact IH.
    + destruct (lookup (KU name) fill) as [v|]; [|destruct k; discriminate].
      injection Epc as <-. cbn [binds_of lookup key_eqb]. exact IH.
    + discriminate.
Qed.

(* the dictionary _to_datetime_args reads from the parsed name *)
Definition A (fs : list tfield) (d : dt) (f : tfield) : option Z := if has f fs then Some (aval f d) else None.

Lemma no_parse_only_spec fs f : no_parse_only fs = true -> has f fs = true -> parse_only f = false.
Proof.
  unfold no_parse_only. intros H Hf. apply negb_true_iff in H. apply orb_false_iff in H. destruct H as [H H3].
  apply orb_false_iff in H. destruct H as [H1 H2]. destruct f; try reflexivity; congruence.
Qed.

Lemma args_of_rendered ds de fill en tp ps f : fields_ok ds -> fields_ok de ->
  deterministic fill tp = true -> pieces ds de fill tp = Ok ps -> no_parse_only (tfields en tp) = true ->
  args_of en (first_only (binds_of ps)) f = A (tfields en tp) (if en then de else ds) f.
Proof.
  intros Hs He Hdet Hp Hnp. unfold args_of, A. rewrite lookup_first_only, (lookup_binds ds de fill en f Hs He tp ps Hdet Hp).
  destruct (has f (tfields en tp)) eqn:Eh; [|reflexivity]. cbn [option_map]. f_equal.
  apply to_int_field; [destruct en; assumption|]. apply (no_parse_only_spec _ _ Hnp Eh).
Qed.

(* ------------------------------------------------------------------ _standardise_datetime_args on rendered fields *)

Definition opt (fs : list tfield) (f : tfield) (d : dt) : option Z := if has f fs then Some (fval f d) else None.
Definition std_micro (fs : list tfield) (d : dt) : option Z :=
  if has FMilli fs then Some (1000 * (micro d / 1000)) else None.

Lemma standardise_ext a a' : (forall f, a f = a' f) -> standardise a = standardise a'.
Proof. intros H. unfold standardise. rewrite !H. reflexivity. Qed.

Lemma standardise_date fs d : fields_ok d -> has_date fs = true -> in_range fs d = true -> no_parse_only fs = true ->
  standardise (A fs d) =
  Ok (DA (Some (year d)) (Some (month d)) (Some (day d)) (opt fs FHour d) (opt fs FMinute d) (opt fs FSecond d)
         (std_micro fs d)).
Proof.
  intros (Hy & Vd & _) Hd Hr Hnp.
  assert (N1 : has FDeci fs = false) by (destruct (has FDeci fs) eqn:E; [apply (no_parse_only_spec _ _ Hnp) in E; discriminate|reflexivity]).
  assert (N2 : has FCenti fs = false) by (destruct (has FCenti fs) eqn:E; [apply (no_parse_only_spec _ _ Hnp) in E; discriminate|reflexivity]).
  assert (N3 : has FMicro fs = false) by (destruct (has FMicro fs) eqn:E; [apply (no_parse_only_spec _ _ Hnp) in E; discriminate|reflexivity]).
  assert (Yr : match A fs d FYear2 with
               | Some y2 => Some (if y2 <? year2_threshold then 2000 + y2 else 1900 + y2)
               | None => A fs d FYear end = Some (year d)).
  { unfold A, in_range, has_date, year2_threshold in *. cbn [aval fval].
    destruct (has FYear2 fs) eqn:E2.
    - f_equal. destruct (year d mod 100 <? 65) eqn:E; lia.
    - destruct (has FYear fs); [reflexivity|discriminate]. }
  assert (Us : (if is_some (A fs d FDeci) || is_some (A fs d FCenti) || is_some (A fs d FMilli) || is_some (A fs d FMicro)
                then Some (100000 * oz (A fs d FDeci) + 10000 * oz (A fs d FCenti) + 1000 * oz (A fs d FMilli) + oz (A fs d FMicro))
                else None) = std_micro fs d).
  { unfold A, std_micro. rewrite N1, N2, N3. cbn [is_some orb oz aval fval].
    destruct (has FMilli fs); cbn [is_some oz orb]; [f_equal; lia|reflexivity]. }
  unfold standardise. rewrite Yr, Us.
  assert (Hh : A fs d FHour = opt fs FHour d) by reflexivity.
  assert (Hm : A fs d FMinute = opt fs FMinute d) by reflexivity.
  assert (Hs : A fs d FSecond = opt fs FSecond d) by reflexivity.
  rewrite Hh, Hm, Hs.
  destruct (A fs d FDoy) as [n|] eqn:Edoy.
  - unfold A in Edoy. destruct (has FDoy fs); [|discriminate]. injection Edoy as <-. cbn [aval fval].
    unfold valid_date in Vd. replace ((1 <=? year d) && (year d <=? 9999)) with true by lia.
    rewrite doy_roundtrip by exact Vd. reflexivity.
  - unfold A in Edoy. destruct (has FDoy fs) eqn:E; [discriminate|].
    unfold has_date in Hd. rewrite E in Hd. rewrite orb_false_r in Hd.
    apply andb_true_iff in Hd. destruct Hd as [_ Hd]. apply andb_true_iff in Hd. destruct Hd as [Hmo Hda].
    unfold A. rewrite Hmo, Hda. reflexivity.
Qed.

(* datetime(...) of the standardised start fields is s itself *)
Lemma mk_args_start fs t : valid t -> at_resolution fs (fields t) = true ->
  let d := fields t in
  mk_args (DA (Some (year d)) (Some (month d)) (Some (day d)) (opt fs FHour d) (opt fs FMinute d)
              (opt fs FSecond d) (std_micro fs d)) = Ok t.
Proof.
  intros V Hres d. pose proof (mk_fields t V) as Hmk. fold d in Hmk. unfold mk_dt in Hmk.
  pose proof (fields_range t V) as R. cbv zeta in R. fold d in R.
  unfold mk_args. cbn [d_year d_month d_day d_hour d_minute d_second d_micro].
  unfold at_resolution in Hres. fold d in Hres. unfold opt, std_micro. cbn [fval].
  replace (oz (if has FHour fs then Some (hour d) else None)) with (hour d) by (destruct (has FHour fs); cbn [oz]; lia).
  replace (oz (if has FMinute fs then Some (minute d) else None)) with (minute d) by (destruct (has FMinute fs); cbn [oz]; lia).
  replace (oz (if has FSecond fs then Some (second d) else None)) with (second d) by (destruct (has FSecond fs); cbn [oz]; lia).
  replace (oz (if has FMilli fs then Some (1000 * (micro d / 1000)) else None)) with (micro d)
    by (destruct (has FMilli fs); cbn [oz]; lia).
  rewrite Hmk. reflexivity.
Qed.

(* ------------------------------------------------------------------ get_info on a generated name *)

Lemma in_range_1000 fs d : in_range fs d = true -> 1000 <= year d.
Proof. unfold in_range, year2_threshold. destruct (has FYear2 fs); lia. Qed.

Lemma det_no_unknown fill tp : deterministic fill tp = true -> existsb unknown_tok tp = false.
Proof.
  induction tp as [|t tp IH]; intros H; [reflexivity|]. cbn [deterministic] in H.
  apply andb_true_iff in H. destruct H as [H1 H2]. cbn [existsb]. rewrite (IH H1).
  destruct t as [l|e f|n [k|]|]; try reflexivity; discriminate.
Qed.

(* the hypotheses on the start time: the class of the statement *)
Definition start_ok (tp : list tok) (s : Z) : Prop :=
  valid s /\ has_date (start_fields tp) = true /\ in_range (start_fields tp) (fields s) = true /\
  at_resolution (start_fields tp) (fields s) = true /\ no_parse_only (start_fields tp) = true.

Definition SA (tp : list tok) (d : dt) : dargs :=
  let fs := start_fields tp in
  DA (Some (year d)) (Some (month d)) (Some (day d)) (opt fs FHour d) (opt fs FMinute d) (opt fs FSecond d)
     (std_micro fs d).

Lemma has_date_some fs : has_date fs = true -> exists f, has f fs = true.
Proof.
  unfold has_date. intros H. apply andb_true_iff in H. destruct H as [H _].
  apply orb_true_iff in H. destruct H as [H|H]; eauto.
Qed.

Lemma retrieve_rendered tp s e fill ps : start_ok tp s -> valid e -> 1000 <= year (fields e) ->
  no_parse_only (end_fields tp) = true ->
  deterministic fill tp = true -> pieces (fields s) (fields e) fill tp = Ok ps ->
  retrieve tp (first_only (binds_of ps)) =
  bind (standardise (A (end_fields tp) (fields e))) (fun ea =>
    if da_nonempty ea then
      bind (mk_args (da_override (SA tp (fields s)) ea)) (fun en =>
        if en <? s then
          match superior tp with
          | None => Error EType
          | Some d => match add en d with Some r => Ok (Some s, Some r) | None => Error EOverflow end
          end
        else Ok (Some s, Some en))
    else Ok (Some s, None)).
Proof.
  intros (Vs & Hd & Hr & Hres & Hnp) Ve Hye Hnpe Hdet Hp.
  assert (Hs : fields_ok (fields s)) by (apply fields_ok_of; [exact Vs|apply (in_range_1000 _ _ Hr)]).
  assert (He : fields_ok (fields e)) by (apply fields_ok_of; assumption).
  set (b := first_only (binds_of ps)).
  assert (Hb : b <> []).
  { destruct (has_date_some _ Hd) as [f Hf]. intros Eb.
    pose proof (lookup_binds _ _ fill false f Hs He tp ps Hdet Hp) as L. cbn [tfields] in L. rewrite Hf in L.
    rewrite <- lookup_first_only in L. fold b in L. rewrite Eb in L. discriminate. }
  unfold retrieve. destruct b as [|kv b'] eqn:Eb; [congruence|]. rewrite <- Eb. clear Hb.
  rewrite (standardise_ext (args_of false b) (A (start_fields tp) (fields s)))
    by (intros f; apply (args_of_rendered _ _ fill false tp ps f Hs He Hdet Hp Hnp)).
  rewrite (standardise_date _ _ Hs Hd Hr Hnp). cbn [bind]. fold (SA tp (fields s)).
  replace (da_nonempty (SA tp (fields s))) with true by reflexivity.
  replace (is_some (d_year (SA tp (fields s)))) with true by reflexivity. cbn [andb orb negb].
  rewrite (standardise_ext (args_of true b) (A (end_fields tp) (fields e)))
    by (intros f; apply (args_of_rendered _ _ fill true tp ps f Hs He Hdet Hp Hnpe)).
  destruct (standardise (A (end_fields tp) (fields e))) as [ea|er]; [|reflexivity]. cbn [bind].
  unfold SA at 1. rewrite (mk_args_start _ s Vs Hres). cbn [bind]. reflexivity.
Qed.

(* no end fields: the file name gives only the start *)
Lemma retrieve_no_end tp s e fill ps : start_ok tp s -> valid e -> 1000 <= year (fields e) ->
  end_fields tp = [] ->
  deterministic fill tp = true -> pieces (fields s) (fields e) fill tp = Ok ps ->
  retrieve tp (first_only (binds_of ps)) = Ok (Some s, None).
Proof.
  intros Hs Ve Hye Hne Hdet Hp. rewrite (retrieve_rendered tp s e fill ps Hs Ve Hye); try assumption.
  - rewrite Hne. reflexivity.
  - rewrite Hne. reflexivity.
Qed.

(* the end spelt as completely as the start *)
Lemma retrieve_full tp s e fill ps : start_ok tp s -> valid e -> s <= e ->
  end_full tp = true -> in_range (end_fields tp) (fields e) = true ->
  at_resolution (end_fields tp) (fields e) = true -> no_parse_only (end_fields tp) = true ->
  deterministic fill tp = true -> pieces (fields s) (fields e) fill tp = Ok ps ->
  retrieve tp (first_only (binds_of ps)) = Ok (Some s, Some e).
Proof.
  intros Hs Ve Hse Hfull Hr Hres Hnp Hdet Hp.
  pose proof (in_range_1000 _ _ Hr) as Hye.
  rewrite (retrieve_rendered tp s e fill ps Hs Ve Hye Hnp Hdet Hp).
  assert (He : fields_ok (fields e)) by (apply fields_ok_of; assumption).
  unfold end_full in Hfull. apply andb_true_iff in Hfull. destruct Hfull as [Hd Hsub].
  rewrite (standardise_date _ _ He Hd Hr Hnp). cbn [bind].
  replace (da_nonempty _) with true by reflexivity.
  assert (Hmk : mk_args (da_override (SA tp (fields s))
             (DA (Some (year (fields e))) (Some (month (fields e))) (Some (day (fields e)))
                (opt (end_fields tp) FHour (fields e)) (opt (end_fields tp) FMinute (fields e))
                (opt (end_fields tp) FSecond (fields e)) (std_micro (end_fields tp) (fields e)))) = Ok e).
  { pose proof (mk_fields e Ve) as Hmk. unfold mk_dt in Hmk.
    pose proof (fields_range e Ve) as R. cbv zeta in R.
    unfold mk_args, da_override, SA. cbn [d_year d_month d_day d_hour d_minute d_second d_micro orelse].
    unfold at_resolution in Hres. cbn [forallb] in Hsub. unfold opt, std_micro. cbn [fval].
    set (sf := start_fields tp) in *. set (ef := end_fields tp) in *. set (d := fields e) in *. set (d0 := fields s) in *.
    replace (oz (orelse (if has FHour ef then Some (hour d) else None) (if has FHour sf then Some (hour d0) else None)))
      with (hour d) by (destruct (has FHour ef), (has FHour sf); cbn [oz orelse] in *; lia).
    replace (oz (orelse (if has FMinute ef then Some (minute d) else None) (if has FMinute sf then Some (minute d0) else None)))
      with (minute d) by (destruct (has FMinute ef), (has FMinute sf); cbn [oz orelse] in *; lia).
    replace (oz (orelse (if has FSecond ef then Some (second d) else None) (if has FSecond sf then Some (second d0) else None)))
      with (second d) by (destruct (has FSecond ef), (has FSecond sf); cbn [oz orelse] in *; lia).
    replace (oz (orelse (if has FMilli ef then Some (1000 * (micro d / 1000)) else None)
                        (if has FMilli sf then Some (1000 * (micro d0 / 1000)) else None)))
      with (micro d) by (destruct (has FMilli ef), (has FMilli sf); cbn [oz orelse] in *; lia).
    rewrite Hmk. reflexivity. }
  rewrite Hmk. cbn [bind]. replace (e <? s) with false by lia. reflexivity.
Qed.

Lemma parse_rendered tp ds de fill n : fields_ok ds -> fields_ok de -> deterministic fill tp = true ->
  render_dt tp ds de fill = Ok n ->
  exists ps, pieces ds de fill tp = Ok ps /\ n = text_of ps /\ parse tp n = Ok (first_only (binds_of ps)).
Proof.
  intros Hs He Hdet Hr. unfold render_dt in Hr. destruct (pieces ds de fill tp) as [ps|] eqn:Ep; [|discriminate].
  cbn [bind] in Hr. destruct (existsb _ (text_of ps)); [discriminate|]. injection Hr as <-.
  exists ps. split; [reflexivity|]. split; [reflexivity|].
  unfold parse. rewrite (det_no_unknown _ _ Hdet), (matcher_pieces ds de fill Hs He tp ps Hdet Ep). reflexivity.
Qed.

(* user attributes: every user placeholder of the template carries its filling *)
Fixpoint assoc (n : str) (l : list (str * str)) : option str :=
  match l with [] => None | (k, v) :: l' => if str_eqb n k then Some v else assoc n l' end.

Lemma assoc_user_attrs n b : assoc n (user_attrs b) = lookup (KU n) b.
Proof.
  induction b as [|[k v] b IH]; [reflexivity|]. unfold user_attrs in *. cbn [flat_map fst snd].
  destruct k as [e f|m]; cbn [app lookup key_eqb assoc]; [exact IH|].
  destruct (str_eqb n m); [reflexivity|exact IH].
Qed.

Lemma lookup_user_binds ds de fill name : forall tp ps k, pieces ds de fill tp = Ok ps -> In (U name k) tp ->
  lookup (KU name) fill <> None -> lookup (KU name) (binds_of ps) = lookup (KU name) fill.
Proof.
  induction tp as [|t tp IH]; intros ps k Hp Hin Hf; [destruct Hin|].
  cbn [pieces] in Hp. destruct (piece ds de fill t) as [p|] eqn:Epc; [|discriminate]. cbn [bind] in Hp.
  destruct (pieces ds de fill tp) as [ps'|] eqn:Eps; [|discriminate]. cbn [bind] in Hp. injection Hp as <-.
  destruct t as [l|e' f'|name' k'|]; cbn [piece] in Epc.
  - injection Epc as <-. cbn [binds_of]. destruct Hin as [Hin|Hin]; [discriminate|]. eapply IH; eauto.
  - destruct (field_text f' _); [|discriminate]. injection Epc as <-. cbn [binds_of lookup key_eqb].
    destruct Hin as [Hin|Hin]; [discriminate|]. eapply IH; eauto.
  - destruct (str_eqb name name') eqn:En.
    + apply str_eqb_eq in En. subst name'. destruct (lookup (KU name) fill) as [v|] eqn:El; [|congruence].
      injection Epc as <-. cbn [binds_of lookup]. rewrite key_eqb_refl. reflexivity.
    + assert (Hin' : In (U name k) tp).
      { destruct Hin as [Hin|Hin]; [|exact Hin]. injection Hin as -> _. rewrite (proj2 (str_eqb_eq name name) eq_refl) in En. discriminate. }
      assert (Hp' : exists v, p = (Some (KU name'), v)).
      { destruct (lookup (KU name') fill); [injection Epc as <-; eauto|]. destruct k'; injection Epc as <-; eauto. }
      destruct Hp' as [v ->]. cbn [binds_of lookup key_eqb]. rewrite En. eapply IH; eauto.
  - injection Epc as <-. cbn [binds_of]. destruct Hin as [Hin|Hin]; [discriminate|]. eapply IH; eauto.
Qed.

Lemma info_filename c tp n b st en : info_via c = ViaFilename -> parse tp n = Ok b ->
  retrieve tp b = Ok (st, en) -> info c tp n = finish c st en (user_attrs b).
Proof. intros Hv Hp Hr. unfold info. rewrite Hv, Hp. cbn [bind]. rewrite Hr. reflexivity. Qed.

Lemma info_both c tp n b st en : info_via c = ViaBoth -> parse tp n = Ok b ->
  retrieve tp b = Ok (st, en) ->
  info c tp n = finish c (orelse (h_start c) st) (orelse (h_end c) en) (upd_attrs (user_attrs b) (h_attr c)).
Proof. intros Hv Hp Hr. unfold info. rewrite Hv, Hp. cbn [bind]. rewrite Hr. reflexivity. Qed.

Lemma info_handler c tp n : info_via c = ViaHandler ->
  info c tp n = finish c (h_start c) (h_end c) (h_attr c).
Proof.
  intros Hv. unfold info. rewrite Hv. cbn [bind]. unfold orelse, upd_attrs. cbn [filter app].
  destruct (h_start c), (h_end c); reflexivity.
Qed.

(* ------------------------------------------------------------------ the property theorems *)

Lemma det_filled fill name k : forall tp, deterministic fill tp = true -> In (U name k) tp -> lookup (KU name) fill <> None.
Proof.
  induction tp as [|t tp IH]; intros H Hin; [destruct Hin|]. cbn [deterministic] in H.
  apply andb_true_iff in H. destruct H as [H1 H2]. destruct Hin as [->|Hin]; [|apply IH; assumption].
  destruct k as [k|]; [|discriminate]. destruct (lookup (KU name) fill); [discriminate|discriminate].
Qed.

Definition attrs_are (fill : list (key * str)) (tp : list tok) (attrs : list (str * str)) : Prop :=
  forall name k, In (U name k) tp -> assoc name attrs = lookup (KU name) fill.

Lemma attrs_rendered ds de fill tp ps : deterministic fill tp = true -> pieces ds de fill tp = Ok ps ->
  attrs_are fill tp (user_attrs (first_only (binds_of ps))).
Proof.
  intros Hdet Hp name k Hin. rewrite assoc_user_attrs, lookup_first_only.
  apply (lookup_user_binds ds de fill name tp ps k Hp Hin). apply (det_filled fill name k tp Hdet Hin).
Qed.

Theorem parse_render_thm tp s e fill n :
  valid s -> valid e -> 1000 <= year (fields s) -> 1000 <= year (fields e) ->
  deterministic fill tp = true -> render tp s e fill = Ok n ->
  exists ps, pieces (fields s) (fields e) fill tp = Ok ps /\ n = text_of ps /\
             parse tp n = Ok (first_only (binds_of ps)).
Proof.
  intros Vs Ve Hys Hye Hdet Hr. apply parse_rendered; try assumption; apply fields_ok_of; assumption.
Qed.

Theorem no_end_fields_thm c tp s e fill n :
  start_ok tp s -> valid e -> 1000 <= year (fields e) -> end_fields tp = [] ->
  deterministic fill tp = true -> info_via c = ViaFilename -> render tp s e fill = Ok n ->
  exists attrs, attrs_are fill tp attrs /\
    info c tp n = match coverage c with
                  | Some d => match add s d with Some r => Ok (s, r, attrs) | None => Error EOverflow end
                  | None => Ok (s, s, attrs)
                  end.
Proof.
  intros Hs Ve Hye Hne Hdet Hv Hr. pose proof Hs as (Vs & _ & Hrg & _).
  destruct (parse_render_thm tp s e fill n Vs Ve (in_range_1000 _ _ Hrg) Hye Hdet Hr) as (ps & Hp & -> & Hparse).
  exists (user_attrs (first_only (binds_of ps))). split; [apply (attrs_rendered _ _ _ _ _ Hdet Hp)|].
  rewrite (info_filename c tp _ _ (Some s) None Hv Hparse); [reflexivity|].
  apply (retrieve_no_end tp s e fill ps); assumption.
Qed.

Theorem roundtrip_end_full_thm c tp s e fill n :
  start_ok tp s -> valid e -> s <= e -> end_full tp = true -> in_range (end_fields tp) (fields e) = true ->
  at_resolution (end_fields tp) (fields e) = true -> no_parse_only (end_fields tp) = true ->
  deterministic fill tp = true -> info_via c = ViaFilename -> render tp s e fill = Ok n ->
  exists attrs, attrs_are fill tp attrs /\ info c tp n = Ok (s, e, attrs).
Proof.
  intros Hs Ve Hse Hfull Hre Hres Hnp Hdet Hv Hr. pose proof Hs as (Vs & _ & Hrg & _).
  destruct (parse_render_thm tp s e fill n Vs Ve (in_range_1000 _ _ Hrg) (in_range_1000 _ _ Hre) Hdet Hr)
    as (ps & Hp & -> & Hparse).
  exists (user_attrs (first_only (binds_of ps))). split; [apply (attrs_rendered _ _ _ _ _ Hdet Hp)|].
  rewrite (info_filename c tp _ _ (Some s) (Some e) Hv Hparse); [reflexivity|].
  apply (retrieve_full tp s e fill ps); assumption.
Qed.

Theorem handler_overrides_thm c tp s e fill n :
  start_ok tp s -> valid e -> s <= e -> no_parse_only (end_fields tp) = true ->
  (end_fields tp = [] /\ 1000 <= year (fields e) \/
   end_full tp = true /\ in_range (end_fields tp) (fields e) = true /\ at_resolution (end_fields tp) (fields e) = true) ->
  deterministic fill tp = true -> info_via c = ViaBoth -> render tp s e fill = Ok n ->
  exists attrs, attrs_are fill tp attrs /\
    info c tp n = finish c (orelse (h_start c) (Some s))
                           (orelse (h_end c) (match end_fields tp with [] => None | _ => Some e end))
                           (upd_attrs attrs (h_attr c)).
Proof.
  intros Hs Ve Hse Hnp Hend Hdet Hv Hr. pose proof Hs as (Vs & _ & Hrg & _).
  assert (Hye : 1000 <= year (fields e)) by (destruct Hend as [[_ H]|(_ & H & _)]; [exact H|apply (in_range_1000 _ _ H)]).
  destruct (parse_render_thm tp s e fill n Vs Ve (in_range_1000 _ _ Hrg) Hye Hdet Hr) as (ps & Hp & -> & Hparse).
  exists (user_attrs (first_only (binds_of ps))). split; [apply (attrs_rendered _ _ _ _ _ Hdet Hp)|].
  destruct Hend as [[Hne _]|(Hfull & Hre & Hres)].
  - rewrite (info_both c tp _ _ (Some s) None Hv Hparse); [rewrite Hne; reflexivity|].
    apply (retrieve_no_end tp s e fill ps); assumption.
  - rewrite (info_both c tp _ _ (Some s) (Some e) Hv Hparse).
    + destruct (end_fields tp) eqn:E; [|reflexivity]. unfold end_full in Hfull. rewrite E in Hfull. discriminate.
    + apply (retrieve_full tp s e fill ps); assumption.
Qed.

Theorem unknown_placeholder_thm tp n : existsb unknown_tok tp = true -> parse tp n = Error EUnknown.
Proof. intros H. unfold parse. rewrite H. reflexivity. Qed.

Theorem no_match_rejected_thm c tp n : existsb unknown_tok tp = false -> matcher tp n = None ->
  parse tp n = Error ENoMatch /\ (info_via c <> ViaHandler -> info c tp n = Error ENoMatch).
Proof.
  intros Hu Hm. assert (Hp : parse tp n = Error ENoMatch) by (unfold parse; rewrite Hu, Hm; reflexivity).
  split; [exact Hp|]. intros Hv. unfold info. rewrite Hp. destruct (info_via c); [reflexivity|congruence|reflexivity].
Qed.

Theorem unfilled_thm tp ds de fill ps : pieces ds de fill tp = Ok ps ->
  existsb (fun ch => mem_char ch special_chars) (text_of ps) = true -> render_dt tp ds de fill = Error EUnfilled.
Proof. intros Hp H. unfold render_dt. rewrite Hp. cbn [bind]. rewrite H. reflexivity. Qed.

(* ================================================================== the rejection clause: parse_sound *)

Lemma strip_sound l s r : strip l s = Some r -> s = l ++ r.
Proof.
  revert s. induction l as [|a l IH]; intros s H; cbn [strip] in H; [injection H as ->; reflexivity|].
  destruct s as [|b s]; [discriminate|]. destruct (Ascii.eqb a b) eqn:E; [|discriminate].
  apply Ascii.eqb_eq in E. subst b. cbn [app]. f_equal. apply IH. exact H.
Qed.

Lemma take_digits_sound n s d r : take_digits n s = Some (d, r) ->
  s = d ++ r /\ List.length d = n /\ forallb is_digit d = true.
Proof.
  revert s d r. induction n as [|n IH]; intros s d r H; cbn [take_digits] in H.
  - injection H as <- <-. repeat split.
  - destruct s as [|a s]; [discriminate|]. destruct (is_digit a) eqn:Ea; [|discriminate].
    destruct (take_digits n s) as [[d' r']|] eqn:Et; [|discriminate]. injection H as <- <-.
    destruct (IH s d' r' Et) as (-> & Hl & Hd). cbn [app List.length forallb]. rewrite Ea, Hd, Hl. repeat split.
Qed.

Lemma lazy_sound {B} (k : str -> option B) s : forall acc v b, lazy k acc s = Some (v, b) ->
  exists m r, v = acc ++ m /\ s = m ++ r /\ k r = Some b /\ no_nl m = true.
Proof.
  induction s as [|a s IH]; intros acc v b H; cbn [lazy] in H.
  - destruct (k []) as [b'|] eqn:Ek; [|discriminate]. injection H as <- <-.
    exists [], []. rewrite app_nil_r. repeat split. exact Ek.
  - destruct (k (a :: s)) as [b'|] eqn:Ek.
    + injection H as <- <-. exists [], (a :: s). rewrite app_nil_r. repeat split. exact Ek.
    + destruct (is_nl a) eqn:Ea; [discriminate|].
      destruct (IH _ _ _ H) as (m & r & -> & -> & Hk & Hm).
      exists (a :: m), r. rewrite <- app_assoc. cbn [app]. repeat split; [exact Hk|].
      unfold no_nl in *. cbn [forallb]. rewrite Ea, Hm. reflexivity.
Qed.

Lemma alts_sound {B} (k : str -> option B) s : forall vs v b, alts k vs s = Some (v, b) ->
  existsb (str_eqb v) vs = true /\ exists r, s = v ++ r /\ k r = Some b.
Proof.
  induction vs as [|w vs IH]; intros v b H; cbn [alts] in H; [discriminate|].
  assert (Hrec : alts k vs s = Some (v, b) ->
                 existsb (str_eqb v) (w :: vs) = true /\ exists r, s = v ++ r /\ k r = Some b).
  { intros H'. destruct (IH _ _ H') as [H1 H2]. split; [|exact H2]. cbn [existsb]. rewrite H1. apply orb_true_r. }
  destruct (strip w s) as [r|] eqn:Es; [|auto].
  destruct (k r) as [b'|] eqn:Ek; [|auto]. injection H as <- <-.
  split; [cbn [existsb]; rewrite (proj2 (str_eqb_eq w w) eq_refl); reflexivity|].
  exists r. split; [apply strip_sound; exact Es|exact Ek].
Qed.

Lemma bindk_some {B} k (r : option (str * list (key * B))) f x :
  bindk k r f = Some x -> exists v b, r = Some (v, b) /\ x = (k, f v) :: b.
Proof. destruct r as [[v b]|]; cbn [bindk]; [|discriminate]. intros [= <-]. eauto. Qed.

Lemma instance_cons_lit l tp b n : is_instance tp b n -> is_instance (Lit l :: tp) b (l ++ n).
Proof.
  intros (ws & n0 & Ha & Hn). exists ws, (l ++ n0). cbn [assemble]. rewrite Ha. split; [reflexivity|].
  destruct Hn as [->| ->]; [left; reflexivity|right; rewrite app_assoc; reflexivity].
Qed.

Lemma instance_cons_ph t tp k v b n : key_of t = Some k -> in_lang t v = true ->
  is_instance tp b n -> is_instance (t :: tp) ((k, v) :: b) (v ++ n).
Proof.
  intros Hk Hl (ws & n0 & Ha & Hn). exists ws, (v ++ n0).
  assert (E : assemble (t :: tp) ((k, v) :: b) ws = Some (v ++ n0)).
  { destruct t as [l|e f|name kk|]; try discriminate; cbn [assemble]; cbn [key_of] in *; injection Hk as <-;
      rewrite key_eqb_refl, Hl, Ha; reflexivity. }
  split; [exact E|]. destruct Hn as [->| ->]; [left; reflexivity|right; rewrite app_assoc; reflexivity].
Qed.

Lemma instance_cons_star tp b w n : no_nl w = true -> is_instance tp b n -> is_instance (Star :: tp) b (w ++ n).
Proof.
  intros Hw (ws & n0 & Ha & Hn). exists (w :: ws), (w ++ n0). cbn [assemble]. rewrite Hw, Ha. split; [reflexivity|].
  destruct Hn as [->| ->]; [left; reflexivity|right; rewrite app_assoc; reflexivity].
Qed.

Theorem matcher_sound tp : forall n b, matcher tp n = Some b -> is_instance tp b n.
Proof.
  induction tp as [|t tp IH]; intros n b H.
  - cbn [matcher] in H. destruct n as [|a [|a' n]]; try discriminate.
    + injection H as <-. exists [], []. split; [reflexivity|left; reflexivity].
    + destruct (is_nl a) eqn:Ea; [|discriminate]. injection H as <-. apply Ascii.eqb_eq in Ea. subst a.
      exists [], []. split; [reflexivity|right; reflexivity].
  - destruct t as [l|e f|name [[|vs|w]|]|]; cbn [matcher] in H.
    + destruct (strip l n) as [r|] eqn:Es; [|discriminate]. rewrite (strip_sound _ _ _ Es).
      apply instance_cons_lit. apply IH. exact H.
    + destruct (take_digits (width f) n) as [[d r]|] eqn:Et; [|discriminate].
      destruct (take_digits_sound _ _ _ _ Et) as (-> & Hl & Hd).
      apply bindk_some in H. destruct H as (v & b' & Hm & ->).
      destruct (matcher tp r) as [b''|] eqn:Em; [|discriminate]. cbn [option_map] in Hm. injection Hm as <- <-.
      apply instance_cons_ph; [reflexivity| |apply IH; exact Em].
      cbn [in_lang]. rewrite Hl, Nat.eqb_refl, Hd. reflexivity.
    + destruct n as [|a s]; [discriminate|]. destruct (is_nl a) eqn:Ea; [discriminate|].
      apply bindk_some in H. destruct H as (v & b' & Hm & ->).
      destruct (lazy_sound _ _ _ _ _ Hm) as (m & r & -> & -> & Hk & Hnl).
      change (a :: m ++ r) with (([a] ++ m) ++ r).
      apply instance_cons_ph; [reflexivity| |apply IH; exact Hk].
      cbn [in_lang app]. unfold no_nl in *. cbn [forallb negb]. rewrite Ea, Hnl. reflexivity.
    + apply bindk_some in H. destruct H as (v & b' & Hm & ->).
      destruct (alts_sound _ _ _ _ _ Hm) as (Hin & r & -> & Hk).
      apply instance_cons_ph; [reflexivity|exact Hin|apply IH; exact Hk].
    + destruct (take_digits w n) as [[d r]|] eqn:Et; [|discriminate].
      destruct (take_digits_sound _ _ _ _ Et) as (-> & Hl & Hd).
      apply bindk_some in H. destruct H as (v & b' & Hm & ->).
      destruct (matcher tp r) as [b''|] eqn:Em; [|discriminate]. cbn [option_map] in Hm. injection Hm as <- <-.
      apply instance_cons_ph; [reflexivity| |apply IH; exact Em].
      cbn [in_lang]. rewrite Hl, Nat.eqb_refl, Hd. reflexivity.
    + discriminate.
    + destruct (lazy (matcher tp) [] n) as [[v b']|] eqn:El; [|discriminate]. cbn [option_map snd] in H. injection H as <-.
      destruct (lazy_sound _ _ _ _ _ El) as (m & r & -> & -> & Hk & Hnl). cbn [app].
      apply instance_cons_star; [exact Hnl|apply IH; exact Hk].
Qed.

Theorem parse_sound_thm tp n d : parse tp n = Ok d ->
  exists b, d = first_only b /\ is_instance tp b n.
Proof.
  unfold parse. destruct (existsb unknown_tok tp); [discriminate|].
  destruct (matcher tp n) as [b|] eqn:Em; [|discriminate]. intros [= <-].
  exists b. split; [reflexivity|apply matcher_sound; exact Em].
Qed.

(* a name that is no is_instance of the template is rejected *)
Theorem non_instance_rejected_thm c tp n : existsb unknown_tok tp = false ->
  (forall b, ~ is_instance tp b n) ->
  parse tp n = Error ENoMatch /\ (info_via c <> ViaHandler -> info c tp n = Error ENoMatch).
Proof.
  intros Hu Hno. apply no_match_rejected_thm; [exact Hu|].
  destruct (matcher tp n) as [b|] eqn:Em; [|reflexivity]. exfalso. apply (Hno b). apply matcher_sound. exact Em.
Qed.

(* ---------- completeness: every is_instance is accepted *)
Lemma lazy_complete {B} (k : str -> option B) r : k r <> None ->
  forall m acc, no_nl m = true -> lazy k acc (m ++ r) <> None.
Proof.
  intros Hk. induction m as [|a m IH]; intros acc Hm.
  - cbn [app]. destruct r; cbn [lazy]; destruct (k _); congruence.
  - cbn [app lazy]. destruct (k (a :: m ++ r)); [discriminate|].
    unfold no_nl in Hm. cbn [forallb] in Hm. apply andb_true_iff in Hm. destruct Hm as [Ha Hm].
    apply negb_true_iff in Ha. rewrite Ha. apply IH. exact Hm.
Qed.

Lemma alts_complete {B} (k : str -> option B) v r : k r <> None ->
  forall vs, existsb (str_eqb v) vs = true -> alts k vs (v ++ r) <> None.
Proof.
  intros Hk. induction vs as [|w vs IH]; intros Hin; [discriminate|].
  cbn [existsb] in Hin. cbn [alts].
  destruct (str_eqb v w) eqn:E.
  - apply str_eqb_eq in E. subst w. rewrite strip_app. destruct (k r); [discriminate|congruence].
  - cbn [orb] in Hin. specialize (IH Hin).
    destruct (strip w (v ++ r)) as [r'|]; [|exact IH]. destruct (k r'); [discriminate|exact IH].
Qed.

Lemma bindk_not_none {B} k (r : option (str * list (key * B))) f : r <> None -> bindk k r f <> None.
Proof. destruct r as [[v b]|]; cbn [bindk]; congruence. Qed.

Theorem matcher_complete tp : forall b ws n0 x, assemble tp b ws = Some n0 -> x = [] \/ x = [nl] ->
  matcher tp (n0 ++ x) <> None.
Proof.
  induction tp as [|t tp IH]; intros b ws n0 x Ha Hx.
  - cbn [assemble] in Ha. destruct b; [|discriminate]. destruct ws; [|discriminate]. injection Ha as <-.
    destruct Hx as [->| ->]; cbn; discriminate.
  - destruct t as [l|e f|name kk|].
    + cbn [assemble] in Ha. destruct (assemble tp b ws) as [n1|] eqn:E; [|discriminate]. injection Ha as <-.
      cbn [matcher]. rewrite <- app_assoc, strip_app. eapply IH; eauto.
    + cbn [assemble] in Ha. destruct b as [|[k v] b']; [discriminate|].
      destruct (_ && _) eqn:Ec; [|discriminate]. apply andb_true_iff in Ec. destruct Ec as [_ Hl].
      destruct (assemble tp b' ws) as [n1|] eqn:E; [|discriminate]. injection Ha as <-.
      cbn [in_lang] in Hl. apply andb_true_iff in Hl. destruct Hl as [Hlen Hd]. apply Nat.eqb_eq in Hlen.
      cbn [matcher]. rewrite <- app_assoc, <- Hlen, take_digits_app by exact Hd.
      apply bindk_not_none. specialize (IH b' ws n1 x E Hx). destruct (matcher tp (n1 ++ x)); [discriminate|congruence].
    + cbn [assemble] in Ha. destruct b as [|[k v] b']; [discriminate|].
      destruct (_ && _) eqn:Ec; [|discriminate]. apply andb_true_iff in Ec. destruct Ec as [_ Hl].
      destruct (assemble tp b' ws) as [n1|] eqn:E; [|discriminate]. injection Ha as <-.
      specialize (IH b' ws n1 x E Hx). rewrite <- app_assoc.
      destruct kk as [[|vs|w]|]; cbn [in_lang] in Hl; [| | |discriminate].
      * apply andb_true_iff in Hl. destruct Hl as [Hne Hnl]. destruct v as [|a m]; [discriminate|].
        unfold no_nl in Hnl. cbn [forallb] in Hnl. apply andb_true_iff in Hnl. destruct Hnl as [Ha' Hm].
        apply negb_true_iff in Ha'. cbn [matcher app]. rewrite Ha'. apply bindk_not_none.
        apply lazy_complete; assumption.
      * cbn [matcher]. apply bindk_not_none. apply alts_complete; assumption.
      * apply andb_true_iff in Hl. destruct Hl as [Hlen Hd]. apply Nat.eqb_eq in Hlen.
        cbn [matcher]. rewrite <- Hlen, take_digits_app by exact Hd.
        apply bindk_not_none. destruct (matcher tp (n1 ++ x)); [discriminate|congruence].
    + cbn [assemble] in Ha. destruct ws as [|w ws']; [discriminate|]. destruct (no_nl w) eqn:Hw; [|discriminate].
      destruct (assemble tp b ws') as [n1|] eqn:E; [|discriminate]. injection Ha as <-.
      cbn [matcher]. rewrite <- app_assoc.
      pose proof (lazy_complete (matcher tp) (n1 ++ x) (IH b ws' n1 x E Hx) w [] Hw) as L.
      destruct (lazy (matcher tp) [] (w ++ n1 ++ x)); [discriminate|congruence].
Qed.

Theorem parse_complete_thm tp b n : existsb unknown_tok tp = false -> is_instance tp b n ->
  exists d, parse tp n = Ok d.
Proof.
  intros Hu (ws & n0 & Ha & Hn). unfold parse. rewrite Hu.
  assert (Hm : matcher tp n <> None).
  { destruct Hn as [->| ->]; [rewrite <- (app_nil_r n0)|]; eapply matcher_complete; eauto. }
  destruct (matcher tp n) as [b'|]; [eauto|congruence].
Qed.

(* ================================================================== the sub-day end kind *)

(* ---------- calendar: time of day *)
Lemma fields_tod t :
  let r := t mod us_day in
  hour (fields t) = r / us_hour /\ minute (fields t) = (r / us_minute) mod 60 /\
  second (fields t) = (r / us_second) mod 60 /\ micro (fields t) = r mod us_second.
Proof. unfold fields. destruct (civil_from_days (t / us_day)) as [[y m] d]. cbn. repeat split. Qed.

Lemma mk_same_day s h mi se us : valid s -> valid_todb h mi se us = true ->
  mk (year (fields s)) (month (fields s)) (day (fields s)) h mi se us = Some (s / us_day * us_day + tod_us h mi se us).
Proof.
  intros V Ht. pose proof (valid_day s V) as Hd. pose proof (civil_roundtrip _ Hd) as RT.
  unfold fields. destruct (civil_from_days (s / us_day)) as [[y m] d]. destruct RT as [RT Vd].
  cbn [year month day]. unfold mk. apply valid_dateb_iff in Vd. rewrite Vd, Ht, RT. reflexivity.
Qed.

Lemma roll_exact u s e : 0 < u -> 0 <= e - s < u -> roll u s (s / u * u + e mod u) = e.
Proof.
  intros Hu H. unfold roll.
  pose proof (Z.div_mod s u ltac:(lia)) as Es. pose proof (Z.div_mod e u ltac:(lia)) as Ee.
  pose proof (Z.mod_pos_bound s u Hu) as Bs. pose proof (Z.mod_pos_bound e u Hu) as Be.
  set (qs := s / u) in *. set (qe := e / u) in *. set (rs := s mod u) in *. set (re := e mod u) in *.
  assert (Hq : qe = qs \/ qe = qs + 1) by nia.
  destruct (qs * u + re <? s) eqn:E; nia.
Qed.

(* ---------- the sub-day end kind *)
Lemma has_cons f g fs : has f (g :: fs) = tfield_eqb f g || has f fs.
Proof. reflexivity. Qed.

Lemma subday_has fs f : forallb subday fs = true -> has f fs = true -> subday f = true.
Proof.
  intros H Hf. unfold has in Hf. apply existsb_exists in Hf. destruct Hf as (g & Hin & Hg).
  apply tfield_eqb_eq in Hg. subst g. rewrite forallb_forall in H. apply H. exact Hin.
Qed.

Lemma subday_hasnt fs f : forallb subday fs = true -> subday f = false -> has f fs = false.
Proof. intros H Hf. destruct (has f fs) eqn:E; [|reflexivity]. rewrite (subday_has fs f H E) in Hf. discriminate. Qed.

Lemma min_index_subday fs : forallb subday fs = true ->
  min_index fs = if has FHour fs then Some 3%nat else if has FMinute fs then Some 4%nat
                 else if has FSecond fs then Some 5%nat else if has FMilli fs then Some 8%nat else None.
Proof.
  induction fs as [|f fs IH]; intros H; [reflexivity|].
  cbn [forallb] in H. apply andb_true_iff in H. destruct H as [Hf H]. specialize (IH H).
  cbn [min_index]. rewrite IH. rewrite !has_cons.
  destruct f; try discriminate; cbn [res_index tfield_eqb orb];
    destruct (has FHour fs), (has FMinute fs), (has FSecond fs), (has FMilli fs); reflexivity.
Qed.

Lemma end_partial_spec tp : end_partial tp = true ->
  forallb subday (end_fields tp) = true /\
  (has FHour (end_fields tp) || has FMinute (end_fields tp) || has FSecond (end_fields tp)) = true.
Proof.
  unfold end_partial. intros H. apply andb_true_iff in H. destruct H as [H H3].
  apply andb_true_iff in H. destruct H as [H1 H2]. split; assumption.
Qed.

Lemma superior_partial tp : end_partial tp = true -> superior tp = Some (unit_above tp).
Proof.
  intros H. destruct (end_partial_spec tp H) as [Hsub Hc]. unfold superior, unit_above.
  rewrite (min_index_subday _ Hsub).
  destruct (has FHour (end_fields tp)); [reflexivity|]. destruct (has FMinute (end_fields tp)); [reflexivity|].
  destruct (has FSecond (end_fields tp)); [reflexivity|discriminate].
Qed.

Lemma no_parse_only_partial tp : end_partial tp = true -> no_parse_only (end_fields tp) = true.
Proof.
  intros H. destruct (end_partial_spec tp H) as [Hsub _]. unfold no_parse_only.
  rewrite !(subday_hasnt _ _ Hsub) by reflexivity. reflexivity.
Qed.

(* _standardise_datetime_args on the end fields: only hour/minute/second/microsecond *)
Lemma standardise_partial fs d : forallb subday fs = true ->
  standardise (A fs d) = Ok (DA None None None (opt fs FHour d) (opt fs FMinute d) (opt fs FSecond d) (std_micro fs d)).
Proof.
  intros Hsub. unfold standardise, A, opt, std_micro.
  rewrite (subday_hasnt _ FYear2 Hsub), (subday_hasnt _ FYear Hsub), (subday_hasnt _ FMonth Hsub),
    (subday_hasnt _ FDay Hsub), (subday_hasnt _ FDoy Hsub), (subday_hasnt _ FDeci Hsub),
    (subday_hasnt _ FCenti Hsub), (subday_hasnt _ FMicro Hsub) by reflexivity.
  cbn [is_some orb oz aval fval].
  destruct (has FMilli fs); cbn [is_some oz]; [|reflexivity]. cbn [orb]. do 3 f_equal. lia.
Qed.

(* datetime of the start arguments overridden by the end arguments *)
Lemma mk_args_partial tp ds de : at_resolution (start_fields tp) ds = true ->
  mk_args (da_override (SA tp ds)
             (DA None None None (opt (end_fields tp) FHour de) (opt (end_fields tp) FMinute de)
                 (opt (end_fields tp) FSecond de) (std_micro (end_fields tp) de)))
  = match complete tp ds de with Some r => Ok r | None => Error EValue end.
Proof.
  intros Hres. unfold mk_args, da_override, SA, complete.
  cbn [d_year d_month d_day d_hour d_minute d_second d_micro orelse].
  unfold at_resolution in Hres. unfold opt, std_micro. cbn [fval].
  set (sf := start_fields tp) in *. set (ef := end_fields tp) in *.
  replace (oz (orelse (if has FHour ef then Some (hour de) else None) (if has FHour sf then Some (hour ds) else None)))
    with (if has FHour ef then hour de else hour ds)
    by (destruct (has FHour ef), (has FHour sf); cbn [oz orelse] in *; lia).
  replace (oz (orelse (if has FMinute ef then Some (minute de) else None) (if has FMinute sf then Some (minute ds) else None)))
    with (if has FMinute ef then minute de else minute ds)
    by (destruct (has FMinute ef), (has FMinute sf); cbn [oz orelse] in *; lia).
  replace (oz (orelse (if has FSecond ef then Some (second de) else None) (if has FSecond sf then Some (second ds) else None)))
    with (if has FSecond ef then second de else second ds)
    by (destruct (has FSecond ef), (has FSecond sf); cbn [oz orelse] in *; lia).
  replace (oz (orelse (if has FMilli ef then Some (1000 * (micro de / 1000)) else None)
                      (if has FMilli sf then Some (1000 * (micro ds / 1000)) else None)))
    with (if has FMilli ef then micro de / 1000 * 1000 else micro ds)
    by (destruct (has FMilli ef), (has FMilli sf); cbn [oz orelse] in *; lia).
  reflexivity.
Qed.

(* the completed end always exists *)
Lemma complete_some tp s e : valid s -> valid e ->
  exists r, complete tp (fields s) (fields e) = Some r /\ valid r.
Proof.
  intros Vs Ve. pose proof (fields_range s Vs) as Rs. pose proof (fields_range e Ve) as Re. cbv zeta in Rs, Re.
  unfold complete. rewrite mk_same_day; [eexists; split; [reflexivity|]|exact Vs|].
  - set (h := if has FHour _ then _ else _). set (mi := if has FMinute _ then _ else _).
    set (se := if has FSecond _ then _ else _). set (us := if has FMilli _ then _ else _).
    assert (Hh : 0 <= h < 24) by (unfold h; destruct (has FHour _); lia).
    assert (Hmi : 0 <= mi < 60) by (unfold mi; destruct (has FMinute _); lia).
    assert (Hse : 0 <= se < 60) by (unfold se; destruct (has FSecond _); lia).
    assert (Hus : 0 <= us < 1000000) by (unfold us; destruct (has FMilli _); lia).
    unfold valid, dt_max, tod_us, us_day, us_second in *. lia.
  - unfold valid_todb, us_second. destruct (has FHour _), (has FMinute _), (has FSecond _), (has FMilli _); lia.
Qed.

Lemma retrieve_partial tp s e fill ps r : start_ok tp s -> valid e -> 1000 <= year (fields e) ->
  end_partial tp = true -> complete tp (fields s) (fields e) = Some r ->
  deterministic fill tp = true -> pieces (fields s) (fields e) fill tp = Ok ps ->
  retrieve tp (first_only (binds_of ps)) =
  match add r (if r <? s then unit_above tp else 0) with
  | Some x => Ok (Some s, Some x) | None => Error EOverflow end.
Proof.
  intros Hs Ve Hye Hpart Hc Hdet Hp. pose proof Hs as (Vs & _ & _ & Hres & _).
  rewrite (retrieve_rendered tp s e fill ps Hs Ve Hye (no_parse_only_partial tp Hpart) Hdet Hp).
  destruct (end_partial_spec tp Hpart) as [Hsub Hco].
  rewrite (standardise_partial _ _ Hsub). cbn [bind].
  replace (da_nonempty _) with true.
  2:{ unfold da_nonempty, opt. cbn [d_year d_month d_day d_hour d_minute d_second d_micro is_some orb].
      destruct (has FHour (end_fields tp)), (has FMinute (end_fields tp)), (has FSecond (end_fields tp));
        try discriminate; cbn [is_some orb]; rewrite ?orb_true_r; reflexivity. }
  rewrite (mk_args_partial tp _ _ Hres), Hc. cbn [bind].
  rewrite (superior_partial tp Hpart).
  destruct (r <? s) eqn:E; [reflexivity|].
  destruct (complete_some tp s e Vs Ve) as (r' & Hc' & Vr). rewrite Hc in Hc'. injection Hc' as <-.
  unfold add. rewrite Z.add_0_r. apply validb_iff in Vr. rewrite Vr. reflexivity.
Qed.

Theorem roundtrip_end_partial_thm c tp s e fill n :
  start_ok tp s -> valid e -> 1000 <= year (fields e) -> end_partial tp = true ->
  deterministic fill tp = true -> info_via c = ViaFilename -> render tp s e fill = Ok n ->
  exists r attrs, complete tp (fields s) (fields e) = Some r /\ attrs_are fill tp attrs /\
    info c tp n = if validb (roll (unit_above tp) s r) then Ok (s, roll (unit_above tp) s r, attrs)
                  else Error EOverflow.
Proof.
  intros Hs Ve Hye Hpart Hdet Hv Hr. pose proof Hs as (Vs & _ & Hrg & _).
  destruct (parse_render_thm tp s e fill n Vs Ve (in_range_1000 _ _ Hrg) Hye Hdet Hr) as (ps & Hp & -> & Hparse).
  destruct (complete_some tp s e Vs Ve) as (r & Hc & Vr).
  exists r, (user_attrs (first_only (binds_of ps))). split; [exact Hc|]. split; [apply (attrs_rendered _ _ _ _ _ Hdet Hp)|].
  pose proof (retrieve_partial tp s e fill ps r Hs Ve Hye Hpart Hc Hdet Hp) as Hret.
  unfold info. rewrite Hv, Hparse. cbn [bind]. rewrite Hret. unfold add, roll.
  destruct (r <? s); [|rewrite Z.add_0_r]; destruct (validb _); reflexivity.
Qed.

(* ---------- the exact class: the completed and rolled end is e itself *)
Lemma tod_split t : valid t ->
  let f := fields t in
  t mod us_day = tod_us (hour f) (minute f) (second f) (micro f) /\
  t / us_day * us_day + hour f * us_hour = t / us_hour * us_hour /\
  (minute f * 60 + second f) * us_second + micro f = t mod us_hour /\
  t / us_hour * us_hour + minute f * us_minute = t / us_minute * us_minute /\
  second f * us_second + micro f = t mod us_minute.
Proof.
  intros V f. destruct (fields_tod t) as (Hh & Hm & Hs & Hu). fold f in Hh, Hm, Hs, Hu. cbv zeta in *.
  rewrite Hh, Hm, Hs, Hu. unfold valid, dt_max, tod_us, us_day, us_hour, us_minute, us_second in *.
  repeat split; lia.
Qed.

Lemma pick_end (eb sb : bool) (xe xs : Z) :
  (negb sb || eb) && (eb || (xe =? 0)) = true -> sb || (xs =? 0) = true -> (if eb then xe else xs) = xe.
Proof. destruct eb, sb; cbn [negb orb andb]; intros H1 H2; try discriminate; try reflexivity. lia. Qed.

Lemma pick_end_micro (eb sb : bool) (ue us : Z) :
  (negb sb || eb) && (eb || (ue / 1000 =? 0)) = true ->
  (if sb then us mod 1000 =? 0 else us =? 0) = true -> (ue mod 1000 =? 0) = true ->
  (if eb then ue / 1000 * 1000 else us) = ue.
Proof.
  intros H1 H2 H3. apply Z.eqb_eq in H3. pose proof (Z.div_mod ue 1000 ltac:(lia)) as D.
  destruct eb, sb; cbn [negb orb andb] in H1; try discriminate; [lia|lia|].
  apply Z.eqb_eq in H1, H2. lia.
Qed.

Lemma complete_exact tp s e : start_ok tp s -> valid e -> end_partial tp = true ->
  end_exact tp (fields e) = true ->
  complete tp (fields s) (fields e) = Some (s / unit_above tp * unit_above tp + e mod unit_above tp).
Proof.
  intros (Vs & _ & _ & Hres & _) Ve Hpart Hex.
  destruct (end_partial_spec tp Hpart) as [_ Hco].
  pose proof (fields_range s Vs) as Rs. pose proof (fields_range e Ve) as Re. cbv zeta in Rs, Re.
  destruct Rs as (_ & Rs1 & Rs2 & Rs3 & Rs4). destruct Re as (_ & Re1 & Re2 & Re3 & Re4).
  destruct (tod_split s Vs) as (S1 & S2 & S3 & S4 & S5). destruct (tod_split e Ve) as (E1 & E2 & E3 & E4 & E5).
  cbv zeta in *.
  unfold end_exact in Hex. apply andb_true_iff in Hex. destruct Hex as [Hex Hus].
  unfold at_resolution in Hres. apply andb_true_iff in Hres. destruct Hres as [Hres RL].
  apply andb_true_iff in Hres. destruct Hres as [Hres RS].
  apply andb_true_iff in Hres. destruct Hres as [RH RM].
  unfold complete, unit_above, sub_unit_fields in *.
  set (sf := start_fields tp) in *. set (ef := end_fields tp) in *.
  destruct (has FHour ef) eqn:EH.
  - (* hour spelt: the unit is one day *)
    cbn [forallb fval] in Hex. apply andb_true_iff in Hex. destruct Hex as [_ Hex].
    apply andb_true_iff in Hex. destruct Hex as [XM Hex]. apply andb_true_iff in Hex. destruct Hex as [XS Hex].
    apply andb_true_iff in Hex. destruct Hex as [XL _].
    rewrite (pick_end _ _ _ _ XM RM), (pick_end _ _ _ _ XS RS), (pick_end_micro _ _ _ _ XL RL Hus).
    rewrite mk_same_day; [|exact Vs|unfold valid_todb, us_second; clear - Re1 Re2 Re3 Re4; lia].
    rewrite <- E1. reflexivity.
  - destruct (has FMinute ef) eqn:EM.
    + cbn [forallb fval] in Hex. apply andb_true_iff in Hex. destruct Hex as [_ Hex].
      apply andb_true_iff in Hex. destruct Hex as [XS Hex]. apply andb_true_iff in Hex. destruct Hex as [XL _].
      rewrite (pick_end _ _ _ _ XS RS), (pick_end_micro _ _ _ _ XL RL Hus).
      rewrite mk_same_day; [|exact Vs|unfold valid_todb, us_second; clear - Rs1 Re2 Re3 Re4; lia].
      f_equal. unfold tod_us. clear - S2 E3. unfold us_day, us_hour, us_minute, us_second in *. lia.
    + cbn [orb] in Hco. rewrite Hco. cbn [forallb fval] in Hex. apply andb_true_iff in Hex. destruct Hex as [_ Hex].
      apply andb_true_iff in Hex. destruct Hex as [XL _].
      rewrite (pick_end_micro _ _ _ _ XL RL Hus).
      rewrite mk_same_day; [|exact Vs|unfold valid_todb, us_second; clear - Rs1 Rs2 Re3 Re4; lia].
      f_equal. unfold tod_us. clear - S2 S4 E5. unfold us_day, us_hour, us_minute, us_second in *. lia.
Qed.

Lemma unit_above_pos tp : 0 < unit_above tp.
Proof. unfold unit_above. destruct (has FHour _); [reflexivity|]. destruct (has FMinute _); reflexivity. Qed.

Theorem end_partial_exact_thm tp s e : start_ok tp s -> valid e -> end_partial tp = true ->
  end_exact tp (fields e) = true -> 0 <= e - s < unit_above tp ->
  exists r, complete tp (fields s) (fields e) = Some r /\ roll (unit_above tp) s r = e.
Proof.
  intros Hs Ve Hpart Hex Hd. eexists. split; [apply complete_exact; assumption|].
  apply roll_exact; [apply unit_above_pos|exact Hd].
Qed.

Theorem roundtrip_end_partial_exact_thm c tp s e fill n :
  start_ok tp s -> valid e -> 1000 <= year (fields e) -> end_partial tp = true ->
  end_exact tp (fields e) = true -> 0 <= e - s < unit_above tp ->
  deterministic fill tp = true -> info_via c = ViaFilename -> render tp s e fill = Ok n ->
  exists attrs, attrs_are fill tp attrs /\ info c tp n = Ok (s, e, attrs).
Proof.
  intros Hs Ve Hye Hpart Hex Hd Hdet Hv Hr.
  destruct (roundtrip_end_partial_thm c tp s e fill n Hs Ve Hye Hpart Hdet Hv Hr) as (r & attrs & Hc & Hat & Hi).
  destruct (end_partial_exact_thm tp s e Hs Ve Hpart Hex Hd) as (r' & Hc' & Hroll).
  rewrite Hc in Hc'. injection Hc' as <-. rewrite Hroll in Hi.
  apply validb_iff in Ve. rewrite Ve in Hi. eauto.
Qed.

(* ---------- all three end kinds together *)
Lemma year_mono s e : valid s -> valid e -> s <= e -> year (fields s) <= year (fields e).
Proof.
  intros Vs Ve H. pose proof (valid_day s Vs) as Ds.
  assert (Hd : s / us_day <= e / us_day) by (apply Z.div_le_mono; [reflexivity|exact H]).
  destruct (Z.eq_dec (s / us_day) (e / us_day)) as [E|N].
  - unfold fields. rewrite E. destruct (civil_from_days _) as [[y m] d]. cbn. lia.
  - pose proof (cfd_mono (s / us_day) (e / us_day) ltac:(lia)) as L. unfold fields.
    destruct (civil_from_days (s / us_day)) as [[y m] d]. destruct (civil_from_days (e / us_day)) as [[y' m'] d'].
    cbn. unfold lex_lt in L. lia.
Qed.

Lemma retrieve_partial_roll tp s e fill ps r : start_ok tp s -> valid e -> 1000 <= year (fields e) ->
  end_partial tp = true -> complete tp (fields s) (fields e) = Some r ->
  deterministic fill tp = true -> pieces (fields s) (fields e) fill tp = Ok ps ->
  retrieve tp (first_only (binds_of ps)) =
  if validb (roll (unit_above tp) s r) then Ok (Some s, Some (roll (unit_above tp) s r)) else Error EOverflow.
Proof.
  intros Hs Ve Hye Hpart Hc Hdet Hp. rewrite (retrieve_partial tp s e fill ps r Hs Ve Hye Hpart Hc Hdet Hp).
  unfold add, roll. destruct (r <? s); [|rewrite Z.add_0_r]; destruct (validb _); reflexivity.
Qed.

Theorem roundtrip_end_partial_le_thm c tp s e fill n :
  start_ok tp s -> valid e -> s <= e -> end_partial tp = true ->
  deterministic fill tp = true -> info_via c = ViaFilename -> render tp s e fill = Ok n ->
  exists r attrs, complete tp (fields s) (fields e) = Some r /\ attrs_are fill tp attrs /\
    info c tp n = if validb (roll (unit_above tp) s r) then Ok (s, roll (unit_above tp) s r, attrs)
                  else Error EOverflow.
Proof.
  intros Hs Ve Hse. pose proof Hs as (Vs & _ & Hrg & _).
  apply roundtrip_end_partial_thm; try assumption.
  pose proof (year_mono s e Vs Ve Hse). pose proof (in_range_1000 _ _ Hrg). lia.
Qed.

Theorem end_partial_exact_info_thm c tp s e fill n :
  start_ok tp s -> valid e -> end_partial tp = true ->
  end_exact tp (fields e) = true -> 0 <= e - s < unit_above tp ->
  deterministic fill tp = true -> info_via c = ViaFilename -> render tp s e fill = Ok n ->
  exists attrs, attrs_are fill tp attrs /\ info c tp n = Ok (s, e, attrs).
Proof.
  intros Hs Ve Hpart Hex Hd Hdet Hv Hr. pose proof Hs as (Vs & _ & Hrg & _).
  apply roundtrip_end_partial_exact_thm; try assumption.
  pose proof (year_mono s e Vs Ve ltac:(lia)). pose proof (in_range_1000 _ _ Hrg). lia.
Qed.

Theorem handler_overrides_partial_thm c tp s e fill n :
  start_ok tp s -> valid e -> s <= e -> end_partial tp = true ->
  deterministic fill tp = true -> info_via c = ViaBoth -> render tp s e fill = Ok n ->
  exists r attrs, complete tp (fields s) (fields e) = Some r /\ attrs_are fill tp attrs /\
    info c tp n = if validb (roll (unit_above tp) s r)
                  then finish c (orelse (h_start c) (Some s)) (orelse (h_end c) (Some (roll (unit_above tp) s r)))
                              (upd_attrs attrs (h_attr c))
                  else Error EOverflow.
Proof.
  intros Hs Ve Hse Hpart Hdet Hv Hr. pose proof Hs as (Vs & _ & Hrg & _).
  assert (Hye : 1000 <= year (fields e))
    by (pose proof (year_mono s e Vs Ve Hse); pose proof (in_range_1000 _ _ Hrg); lia).
  destruct (parse_render_thm tp s e fill n Vs Ve (in_range_1000 _ _ Hrg) Hye Hdet Hr) as (ps & Hp & -> & Hparse).
  destruct (complete_some tp s e Vs Ve) as (r & Hc & Vr).
  exists r, (user_attrs (first_only (binds_of ps))). split; [exact Hc|]. split; [apply (attrs_rendered _ _ _ _ _ Hdet Hp)|].
  pose proof (retrieve_partial_roll tp s e fill ps r Hs Ve Hye Hpart Hc Hdet Hp) as Hret.
  unfold info. rewrite Hv, Hparse. cbn [bind]. rewrite Hret.
  destruct (validb _); reflexivity.
Qed.

(* the start is recovered for every end kind of the statement *)
Theorem roundtrip_start_thm c tp s e fill n :
  start_ok tp s -> valid e -> s <= e ->
  (end_fields tp = [] /\ (forall d, coverage c = Some d -> valid (s + d)) \/
   end_full tp = true /\ in_range (end_fields tp) (fields e) = true /\ at_resolution (end_fields tp) (fields e) = true
     /\ no_parse_only (end_fields tp) = true \/
   end_partial tp = true /\ (forall r, complete tp (fields s) (fields e) = Some r -> valid (roll (unit_above tp) s r))) ->
  deterministic fill tp = true -> info_via c = ViaFilename -> render tp s e fill = Ok n ->
  exists e' attrs, attrs_are fill tp attrs /\ info c tp n = Ok (s, e', attrs).
Proof.
  intros Hs Ve Hse Hend Hdet Hv Hr. pose proof Hs as (Vs & _ & Hrg & _).
  assert (Hye : 1000 <= year (fields e))
    by (pose proof (year_mono s e Vs Ve Hse); pose proof (in_range_1000 _ _ Hrg); lia).
  destruct Hend as [(Hne & Hcov)|[(Hf & Hre & Ha & Hnp)|(Hpart & Hroll)]].
  - destruct (no_end_fields_thm c tp s e fill n Hs Ve Hye Hne Hdet Hv Hr) as (attrs & Hat & Hi).
    destruct (coverage c) as [d|] eqn:Ec.
    + specialize (Hcov d eq_refl). apply validb_iff in Hcov. unfold add in Hi. rewrite Hcov in Hi. eauto.
    + eauto.
  - destruct (roundtrip_end_full_thm c tp s e fill n Hs Ve Hse Hf Hre Ha Hnp Hdet Hv Hr) as (attrs & Hat & Hi). eauto.
  - destruct (roundtrip_end_partial_thm c tp s e fill n Hs Ve Hye Hpart Hdet Hv Hr) as (r & attrs & Hc & Hat & Hi).
    specialize (Hroll r Hc). apply validb_iff in Hroll. rewrite Hroll in Hi. eauto.
Qed.

(* parse_filename raises its ValueError exactly on the names that are no instance of the template *)
Theorem rejected_iff_thm tp n : existsb unknown_tok tp = false ->
  (parse tp n = Error ENoMatch <-> forall b, ~ is_instance tp b n).
Proof.
  intros Hu. split.
  - intros Hp b Hi. destruct (parse_complete_thm tp b n Hu Hi) as [d Hd]. congruence.
  - intros Hno. apply (non_instance_rejected_thm (Cfg ViaFilename None None None []) tp n Hu Hno).
Qed.

(* the certificate the harness evaluates per accepted name is a proof of is_instance *)
Theorem run_instance_sound tp b ws n : fst (run_instance tp b ws n) = true ->
  is_instance tp (map (fun kv => (fst kv, s2l (snd kv))) b) (s2l n).
Proof.
  unfold run_instance. cbn [fst]. destruct (assemble tp _ (map s2l ws)) as [n0|] eqn:E; [|discriminate].
  intros H. exists (map s2l ws), n0. split; [exact E|]. apply orb_true_iff in H.
  destruct H as [H|H]; apply str_eqb_eq in H; [left|right]; exact H.
Qed.
