(* C18 -- the statistics BMCI computes from the (x, w) pairs of the window: weighted mean / std, order
   independence, NaN exactly when no entry carries weight, the pruning error bound, the cdf and the quantiles. *)
From Coq Require Import ZArith List Bool Reals Lra Lia Permutation.
From Typhon Require Import Model.C18_bmci.
Import ListNotations.
Open Scope R_scope.

(* ------------------------------------------------------------------ sums *)
Lemma rsum_app l1 l2 : rsum (l1 ++ l2) = rsum l1 + rsum l2.
Proof. induction l1 as [|a l IH]; cbn [rsum app]; [ring|]. rewrite IH. ring. Qed.

Lemma rsum_perm l l' : Permutation l l' -> rsum l = rsum l'.
Proof. intros H. induction H; cbn [rsum]; lra. Qed.

Lemma rsum_map_perm {A} (f : A -> R) l l' : Permutation l l' -> rsum (map f l) = rsum (map f l').
Proof. intros H. apply rsum_perm. apply Permutation_map. exact H. Qed.

Lemma rsum_nonneg l : Forall (fun w => 0 <= w) l -> 0 <= rsum l.
Proof. intros H. induction H as [|a l Ha _ IH]; cbn [rsum]; lra. Qed.

Lemma rsum_zero_all l : Forall (fun w => 0 <= w) l -> rsum l = 0 -> Forall (fun w => w = 0) l.
Proof.
  intros H. induction H as [|a l Ha Hl IH]; cbn [rsum]; intros E; [constructor|].
  pose proof (rsum_nonneg l Hl) as Hs. constructor; [lra|]. apply IH. lra.
Qed.
Lemma rsum_all_zero l : Forall (fun w => w = 0) l -> rsum l = 0.
Proof. intros H. induction H as [|a l Ha _ IH]; cbn [rsum]; lra. Qed.

Lemma rsum_div {A} (f : A -> R) c l : rsum (map (fun p => f p / c) l) = rsum (map f l) / c.
Proof. induction l as [|a l IH]; cbn [rsum map]; [unfold Rdiv; ring|]. rewrite IH. unfold Rdiv. ring. Qed.

Lemma rsum_ext {A} (f g : A -> R) l : (forall a, f a = g a) -> rsum (map f l) = rsum (map g l).
Proof. intros H. induction l as [|a l IH]; cbn [rsum map]; [reflexivity|]. rewrite IH, H. reflexivity. Qed.

(* ------------------------------------------------------------------ predict = weighted mean and std *)
Definition wtot (xw : list (R * R)) : R := rsum (map snd xw).

Lemma predict_xw_some xw : 0 < wtot xw -> predict_xw xw = Some (wmean xw, wstd xw).
Proof.
  intros Hc. unfold predict_xw. fold (wtot xw). destruct (Rlt_dec 0 (wtot xw)) as [_|n]; [|contradiction].
  cbv zeta.
  assert (Em : rsum (map (fun p => fst p * snd p / wtot xw) xw) = wmean xw).
  { rewrite (rsum_div (fun p => fst p * snd p)). unfold wmean. fold (wtot xw). f_equal.
    apply rsum_ext. intros a. ring. }
  rewrite Em. f_equal. f_equal. unfold wstd. fold (wtot xw). f_equal.
  rewrite (rsum_div (fun p => (fst p - wmean xw) ^ 2 * snd p)). f_equal.
  apply rsum_ext. intros a. ring.
Qed.

Lemma predict_xw_none xw : ~ 0 < wtot xw -> predict_xw xw = None.
Proof. intros Hc. unfold predict_xw. fold (wtot xw). destruct (Rlt_dec 0 (wtot xw)); [contradiction|reflexivity]. Qed.

Lemma wmean_perm xw xw' : Permutation xw xw' -> wmean xw = wmean xw'.
Proof.
  intros H. unfold wmean.
  rewrite (rsum_map_perm (fun p => snd p * fst p) _ _ H), (rsum_map_perm snd _ _ H). reflexivity.
Qed.

Lemma predict_xw_perm xw xw' : Permutation xw xw' -> predict_xw xw = predict_xw xw'.
Proof.
  intros H. unfold predict_xw.
  rewrite (rsum_map_perm snd _ _ H).
  destruct (Rlt_dec 0 (rsum (map snd xw'))); [|reflexivity]. cbv zeta.
  rewrite (rsum_map_perm (fun p => fst p * snd p / rsum (map snd xw')) _ _ H).
  set (mu := rsum (map (fun p => fst p * snd p / rsum (map snd xw')) xw')).
  rewrite (rsum_map_perm (fun p => (fst p - mu) ^ 2 * snd p / rsum (map snd xw')) _ _ H).
  reflexivity.
Qed.

(* the unrestricted mode uses every entry of the database *)
Lemma slice_all {A} (l : list A) : slice 0 (length l) l = l.
Proof. unfold slice. cbn [skipn]. rewrite Nat.sub_0_r. apply firstn_all. Qed.

Lemma combine_map2 {A B C} (f : A -> B) (g : A -> C) l : combine (map f l) (map g l) = map (fun a => (f a, g a)) l.
Proof. induction l as [|a l IH]; cbn [map combine]; [reflexivity|]. rewrite IH. reflexivity. Qed.

Lemma window_xw_unrestricted m Sinv v ymean pc1_e db yobs x2 :
  x2 < 0 -> window_xw m Sinv v ymean pc1_e db yobs x2 = all_xw m Sinv yobs db.
Proof.
  intros Hx. unfold window_xw, weights. destruct (Rlt_dec x2 0) as [_|n]; [|contradiction].
  rewrite slice_all. unfold gauss_prob, all_xw. apply combine_map2.
Qed.

Lemma all_xw_perm m Sinv yobs db db' : Permutation db db' -> Permutation (all_xw m Sinv yobs db) (all_xw m Sinv yobs db').
Proof. intros H. unfold all_xw. apply Permutation_map. exact H. Qed.

Lemma weight_pos m Sinv yobs yi : 0 < weight m Sinv yobs yi.
Proof. unfold weight. apply exp_pos. Qed.

(* ------------------------------------------------------------------ NaN exactly when no entry carries weight *)
Lemma wtot_zero_iff xw : Forall (fun p => 0 <= snd p) xw -> (~ 0 < wtot xw <-> Forall (fun p => snd p = 0) xw).
Proof.
  intros Hw. unfold wtot.
  assert (Hw' : Forall (fun w => 0 <= w) (map snd xw)) by (rewrite Forall_map; exact Hw).
  pose proof (rsum_nonneg _ Hw') as Hs. split.
  - intros Hn. assert (E : rsum (map snd xw) = 0) by lra.
    pose proof (rsum_zero_all _ Hw' E) as Hz. rewrite Forall_map in Hz. exact Hz.
  - intros Hz. assert (Hz' : Forall (fun w => w = 0) (map snd xw)) by (apply Forall_map; exact Hz).
    rewrite (rsum_all_zero _ Hz'). lra.
Qed.

Lemma predict_none_iff xw : Forall (fun p => 0 <= snd p) xw ->
  (predict_xw xw = None <-> Forall (fun p => snd p = 0) xw).
Proof.
  intros Hw. rewrite <- (wtot_zero_iff xw Hw). split.
  - intros E Hc. rewrite (predict_xw_some xw Hc) in E. discriminate.
  - apply predict_xw_none.
Qed.

(* ------------------------------------------------------------------ pruning error *)
Definition wx (xw : list (R * R)) : R := rsum (map (fun p => snd p * fst p) xw).

Lemma wx_bounds lo hi xw :
  Forall (fun p => 0 <= snd p /\ lo <= fst p <= hi) xw -> lo * wtot xw <= wx xw <= hi * wtot xw.
Proof.
  intros H. unfold wx, wtot. induction H as [|[x w] l [Hw Hx] _ IH]; cbn [rsum map fst snd]; [lra|].
  cbn [fst snd] in Hw, Hx. nra.
Qed.

Lemma pruning_error_lists lo hi kept cut :
  Forall (fun p => 0 <= snd p /\ lo <= fst p <= hi) kept ->
  Forall (fun p => 0 <= snd p /\ lo <= fst p <= hi) cut ->
  0 < wtot kept ->
  Rabs (wmean kept - wmean (kept ++ cut)) <= wtot cut / wtot (kept ++ cut) * (hi - lo).
Proof.
  intros Hk Hc Hpos.
  pose proof (wx_bounds lo hi kept Hk) as [B1 B2]. pose proof (wx_bounds lo hi cut Hc) as [B3 B4].
  assert (Hw2 : 0 <= wtot cut).
  { unfold wtot. apply rsum_nonneg. rewrite Forall_map. eapply Forall_impl; [|exact Hc]. intros a [H _]. exact H. }
  unfold wmean. fold (wx kept) (wtot kept) (wx (kept ++ cut)) (wtot (kept ++ cut)).
  assert (E1 : wx (kept ++ cut) = wx kept + wx cut) by (unfold wx; rewrite map_app, rsum_app; reflexivity).
  assert (E2 : wtot (kept ++ cut) = wtot kept + wtot cut) by (unfold wtot; rewrite map_app, rsum_app; reflexivity).
  rewrite E1, E2.
  set (A1 := wx kept) in *. set (W1 := wtot kept) in *. set (A2 := wx cut) in *. set (W2 := wtot cut) in *.
  assert (E : A1 / W1 - (A1 + A2) / (W1 + W2) = (A1 * W2 - A2 * W1) / (W1 * (W1 + W2))) by (field; lra).
  rewrite E.
  assert (E' : W2 / (W1 + W2) * (hi - lo) = (W1 * W2 * (hi - lo)) / (W1 * (W1 + W2))) by (field; lra).
  rewrite E'.
  assert (Hden : 0 < W1 * (W1 + W2)) by nra.
  assert (Hinv : 0 < / (W1 * (W1 + W2))) by (apply Rinv_0_lt_compat; exact Hden).
  unfold Rdiv. rewrite Rabs_mult, (Rabs_pos_eq (/ (W1 * (W1 + W2)))) by lra.
  apply Rmult_le_compat_r; [lra|].
  apply Rabs_le. split; nra.
Qed.

Lemma skipn_add {A} a b (l : list A) : skipn a (skipn b l) = skipn (b + a) l.
Proof.
  revert l. induction b as [|b IH]; intros l; [reflexivity|].
  destruct l as [|x l]; [destruct a; reflexivity|]. cbn [skipn Nat.add]. apply IH.
Qed.

Lemma slice_split {A} (l : list A) il iu : (il <= iu)%nat ->
  l = firstn il l ++ slice il iu l ++ skipn iu l.
Proof.
  intros H. unfold slice.
  rewrite <- (firstn_skipn il l) at 1. f_equal.
  rewrite <- (firstn_skipn (iu - il) (skipn il l)) at 1. f_equal.
  rewrite skipn_add. f_equal. lia.
Qed.

Lemma pruning_error_slice lo hi (xw : list (R * R)) il iu :
  (il <= iu)%nat ->
  Forall (fun p => 0 <= snd p /\ lo <= fst p <= hi) xw ->
  0 < wtot (slice il iu xw) ->
  Rabs (wmean (slice il iu xw) - wmean xw) <=
    wtot (firstn il xw ++ skipn iu xw) / wtot xw * (hi - lo).
Proof.
  intros Hle Hall Hpos.
  set (kept := slice il iu xw). set (cut := firstn il xw ++ skipn iu xw).
  assert (HP : Permutation xw (kept ++ cut)).
  { rewrite (slice_split xw il iu Hle) at 1. fold kept. unfold cut.
    rewrite Permutation_app_comm. rewrite <- app_assoc.
    apply Permutation_app_head. apply Permutation_app_comm. }
  assert (Hall' : Forall (fun p => 0 <= snd p /\ lo <= fst p <= hi) (kept ++ cut)).
  { rewrite Forall_forall in *. intros p Hp. apply Hall. eapply Permutation_in; [symmetry; exact HP|exact Hp]. }
  apply Forall_app in Hall' as [Hk Hc].
  rewrite (wmean_perm xw _ HP).
  replace (wtot xw) with (wtot (kept ++ cut)) by (unfold wtot; symmetry; apply rsum_map_perm; exact HP).
  apply pruning_error_lists; assumption.
Qed.

(* ------------------------------------------------------------------ cdf *)
Lemma cumsum_from_length acc l : length (cumsum_from acc l) = length l.
Proof. revert acc. induction l as [|w l IH]; intros acc; cbn [cumsum_from length]; [reflexivity|]. rewrite IH. reflexivity. Qed.

Lemma last_cons_default {A} (a : A) l d : last (a :: l) d = last l a.
Proof.
  revert a d. induction l as [|b l IH]; intros a d; [reflexivity|].
  change (last (a :: b :: l) d) with (last (b :: l) d). rewrite IH. symmetry. apply IH.
Qed.

Lemma cumsum_from_last acc l : last (cumsum_from acc l) acc = acc + rsum l.
Proof.
  revert acc. induction l as [|w l IH]; intros acc; cbn [cumsum_from rsum]; [cbn [last]; ring|].
  rewrite last_cons_default, IH. ring.
Qed.

Lemma last_default_irrelevant {A} (l : list A) d d' : l <> [] -> last l d = last l d'.
Proof.
  induction l as [|a l IH]; intros H; [contradiction|]. destruct l as [|b l]; [reflexivity|].
  cbn [last] in *. apply IH. discriminate.
Qed.

Lemma nondecreasing_cons a l : nondecreasing (a :: l) <-> (match l with [] => True | b :: _ => a <= b end) /\ nondecreasing l.
Proof. destruct l as [|b l]; cbn [nondecreasing]; tauto. Qed.

Lemma cumsum_from_mono acc l : Forall (fun w => 0 <= w) l ->
  nondecreasing (cumsum_from acc l) /\ Forall (fun c => acc <= c) (cumsum_from acc l).
Proof.
  intros H. revert acc. induction H as [|w l Hw _ IH]; intros acc; cbn [cumsum_from]; [split; [exact I|constructor]|].
  destruct (IH (acc + w)) as [Hn Hf]. split.
  - apply nondecreasing_cons. split; [|exact Hn].
    destruct l as [|w2 l2]; cbn [cumsum_from]; [exact I|].
    inversion Hf as [|c cs Hc _ Heq]. exact Hc.
  - constructor; [lra|]. eapply Forall_impl; [|exact Hf]. intros c Hc. cbn beta in Hc. lra.
Qed.

Lemma cumsum_from_nth acc l k : (k < length l)%nat ->
  nth k (cumsum_from acc l) 0 = acc + rsum (firstn (S k) l).
Proof.
  revert acc k. induction l as [|w l IH]; intros acc k Hk; cbn [length] in Hk; [lia|].
  destruct k as [|k]; cbn [cumsum_from nth].
  - cbn [firstn rsum]. ring.
  - rewrite IH by lia. cbn [firstn rsum]. ring.
Qed.

Lemma nondecreasing_map_div l t : 0 < t -> nondecreasing l -> nondecreasing (map (fun c => c / t) l).
Proof.
  intros Ht. induction l as [|a l IH]; intros H; [exact I|].
  apply nondecreasing_cons in H as [H1 H2]. cbn [map]. apply nondecreasing_cons. split; [|apply IH; exact H2].
  destruct l as [|b l]; cbn [map]; [exact I|].
  unfold Rdiv. apply Rmult_le_compat_r; [left; apply Rinv_0_lt_compat; exact Ht|exact H1].
Qed.

Lemma last_map {A B} (f : A -> B) l d : last (map f l) (f d) = f (last l d).
Proof. induction l as [|a l IH]; [reflexivity|]. destruct l as [|b l]; [reflexivity|]. cbn [map last] in *. exact IH. Qed.

Lemma cdf_total xw : last (cumsum (map snd xw)) 0 = wtot xw.
Proof. unfold cumsum. rewrite cumsum_from_last. unfold wtot. ring. Qed.

Lemma cdf_xw_spec xw :
  Forall (fun p => 0 <= snd p) xw -> 0 < wtot xw ->
  exists cs, cdf_xw xw = (map fst xw, Some cs) /\
    length cs = length xw /\ nondecreasing cs /\ last cs 0 = 1 /\
    Forall (fun c => 0 <= c <= 1) cs /\
    (forall k, (k < length xw)%nat -> nth k cs 0 = wtot (firstn (S k) xw) / wtot xw).
Proof.
  intros Hw Hpos. unfold cdf_xw. cbv zeta. rewrite cdf_total.
  destruct (Rlt_dec 0 (wtot xw)) as [_|n]; [|contradiction].
  eexists. split; [reflexivity|].
  assert (Hw' : Forall (fun w => 0 <= w) (map snd xw)) by (rewrite Forall_map; exact Hw).
  destruct (cumsum_from_mono 0 _ Hw') as [Hn Hf]. fold (cumsum (map snd xw)) in Hn, Hf.
  assert (Hne : xw <> []) by (intros ->; unfold wtot in Hpos; cbn in Hpos; lra).
  assert (Hlen : length (cumsum (map snd xw)) = length xw) by (unfold cumsum; rewrite cumsum_from_length, map_length; reflexivity).
  repeat split.
  - rewrite map_length. exact Hlen.
  - apply nondecreasing_map_div; assumption.
  - replace 0 with (0 / wtot xw) at 1 by (unfold Rdiv; ring).
    rewrite (last_map (fun c => c / wtot xw)). rewrite cdf_total. field. lra.
  - rewrite Forall_map. rewrite Forall_forall. intros c Hc. rewrite Forall_forall in Hf. pose proof (Hf c Hc) as H0.
    cbn beta in H0.
    assert (Hle : c <= wtot xw).
    { (* every partial sum is below the total: the list is non-decreasing and ends at the total *)
      clear - Hc Hn Hw' Hne. unfold cumsum in *. rewrite <- cdf_total. unfold cumsum.
      remember (map snd xw) as ws. clear Heqws Hne xw.
      assert (G : forall acc l, Forall (fun w => 0 <= w) l -> forall c, In c (cumsum_from acc l) -> c <= last (cumsum_from acc l) acc).
      { clear. intros acc l H. revert acc. induction H as [|w l Hw Hl IH]; intros acc c Hin; [destruct Hin|].
        cbn [cumsum_from] in *.
        assert (EL : last ((acc + w) :: cumsum_from (acc + w) l) acc = last (cumsum_from (acc + w) l) (acc + w)) by apply last_cons_default.
        rewrite EL. destruct Hin as [<-|Hin].
        - rewrite cumsum_from_last. pose proof (rsum_nonneg l Hl). lra.
        - apply IH. exact Hin. }
      apply G; assumption. }
    split.
    + unfold Rdiv. apply Rmult_le_pos; [exact H0|left; apply Rinv_0_lt_compat; exact Hpos].
    + apply Rmult_le_reg_r with (wtot xw); [exact Hpos|]. unfold Rdiv. rewrite Rmult_assoc, Rinv_l by lra. lra.
  - intros k Hk.
    replace 0 with (0 / wtot xw) at 1 by (unfold Rdiv; ring).
    rewrite (map_nth (fun c => c / wtot xw)). f_equal. unfold cumsum.
    rewrite cumsum_from_nth by (rewrite map_length; exact Hk).
    unfold wtot. rewrite firstn_map. ring.
Qed.

Lemma cdf_xw_none xw : ~ 0 < wtot xw -> snd (cdf_xw xw) = None.
Proof.
  intros H. unfold cdf_xw. cbv zeta. rewrite cdf_total. cbn [snd].
  destruct (Rlt_dec 0 (wtot xw)); [contradiction|reflexivity].
Qed.

(* ------------------------------------------------------------------ interp / quantiles *)
Fixpoint chain (x0 f0 : R) (rest : list (R * R)) : Prop :=
  match rest with
  | [] => True
  | (x1, f1) :: r => x0 <= x1 /\ f0 <= f1 /\ chain x1 f1 r
  end.

Lemma seg_bounds x0 x1 f0 f1 t : x0 <= t < x1 -> f0 <= f1 ->
  f0 <= (f1 - f0) / (x1 - x0) * (t - x0) + f0 <= f1.
Proof.
  intros Ht Hf.
  assert (Hd : 0 < x1 - x0) by lra.
  set (s := (t - x0) / (x1 - x0)).
  assert (E : (f1 - f0) / (x1 - x0) * (t - x0) = (f1 - f0) * s) by (unfold s; field; lra).
  rewrite E.
  assert (Hs0 : 0 <= s) by (unfold s, Rdiv; apply Rmult_le_pos; [lra|left; apply Rinv_0_lt_compat; exact Hd]).
  assert (Hs1 : s <= 1).
  { apply Rmult_le_reg_r with (x1 - x0); [exact Hd|]. unfold s, Rdiv. rewrite Rmult_assoc, Rinv_l by lra. lra. }
  nra.
Qed.

Lemma seg_mono x0 x1 f0 f1 t t' : x0 <= t -> t <= t' -> t' < x1 -> f0 <= f1 ->
  (f1 - f0) / (x1 - x0) * (t - x0) + f0 <= (f1 - f0) / (x1 - x0) * (t' - x0) + f0.
Proof.
  intros H0 H1 H2 Hf.
  assert (Hd : 0 < x1 - x0) by lra.
  assert (Hs : 0 <= (f1 - f0) / (x1 - x0)) by (unfold Rdiv; apply Rmult_le_pos; [lra|left; apply Rinv_0_lt_compat; exact Hd]).
  apply Rplus_le_compat_r. apply Rmult_le_compat_l; [exact Hs|lra].
Qed.

Lemma chain_last x0 f0 rest : chain x0 f0 rest -> f0 <= last (map snd rest) f0.
Proof.
  revert x0 f0. induction rest as [|[x1 f1] r IH]; intros x0 f0 H; cbn [map]; [cbn [last]; lra|].
  destruct H as (_ & Hf & Hc). cbn [snd]. rewrite last_cons_default.
  pose proof (IH x1 f1 Hc). lra.
Qed.

Lemma interp_from_lower x0 f0 rest t : chain x0 f0 rest -> x0 <= t -> f0 <= interp_from x0 f0 rest t.
Proof.
  revert x0 f0. induction rest as [|[x1 f1] r IH]; intros x0 f0 Hc Ht; cbn [interp_from]; [lra|].
  destruct Hc as (Hx & Hf & Hc). destruct (Rlt_dec t x1) as [Hlt|Hge].
  - apply seg_bounds; [lra|exact Hf].
  - pose proof (IH x1 f1 Hc ltac:(lra)). lra.
Qed.

Lemma interp_from_upper x0 f0 rest t : chain x0 f0 rest -> x0 <= t ->
  interp_from x0 f0 rest t <= last (map snd rest) f0.
Proof.
  revert x0 f0. induction rest as [|[x1 f1] r IH]; intros x0 f0 Hc Ht; cbn [interp_from map]; [cbn [last]; lra|].
  destruct Hc as (Hx & Hf & Hc). cbn [snd]. rewrite last_cons_default.
  destruct (Rlt_dec t x1) as [Hlt|Hge].
  - pose proof (seg_bounds x0 x1 f0 f1 t ltac:(lra) Hf). pose proof (chain_last x1 f1 r Hc). lra.
  - apply IH; [exact Hc|lra].
Qed.

Lemma interp_from_mono x0 f0 rest t t' : chain x0 f0 rest -> x0 <= t -> t <= t' ->
  interp_from x0 f0 rest t <= interp_from x0 f0 rest t'.
Proof.
  revert x0 f0. induction rest as [|[x1 f1] r IH]; intros x0 f0 Hc Ht Htt; cbn [interp_from]; [lra|].
  destruct Hc as (Hx & Hf & Hc).
  destruct (Rlt_dec t x1) as [Hlt|Hge]; destruct (Rlt_dec t' x1) as [Hlt'|Hge'].
  - apply seg_mono; assumption.
  - pose proof (seg_bounds x0 x1 f0 f1 t ltac:(lra) Hf).
    pose proof (interp_from_lower x1 f1 r t' Hc ltac:(lra)). lra.
  - lra.
  - apply IH; [exact Hc|lra|exact Htt].
Qed.

Lemma chain_combine c0 x0 cs xs : nondecreasing (c0 :: cs) -> nondecreasing (x0 :: xs) -> chain c0 x0 (combine cs xs).
Proof.
  revert c0 x0 xs. induction cs as [|c1 cs IH]; intros c0 x0 xs Hc Hx; [exact I|].
  destruct xs as [|x1 xs]; [exact I|]. cbn [combine chain].
  apply nondecreasing_cons in Hc as [Hc1 Hc2]. apply nondecreasing_cons in Hx as [Hx1 Hx2].
  repeat split; [exact Hc1|exact Hx1|]. apply IH; assumption.
Qed.

Lemma map_snd_combine {A B} (l : list A) (l' : list B) : length l = length l' -> map snd (combine l l') = l'.
Proof.
  revert l'. induction l as [|a l IH]; intros [|b l'] H; cbn [length] in H; try discriminate; [reflexivity|].
  cbn [combine map snd]. rewrite IH by lia. reflexivity.
Qed.

(* np.interp(tau, cs, xs) for non-decreasing cs (the cdf) and non-decreasing xs (the view) *)
Lemma interp_spec cs xs : cs <> [] -> length cs = length xs -> nondecreasing cs -> nondecreasing xs ->
  (forall t, exists q, interp (combine cs xs) t = Some q /\ hd 0 xs <= q <= last xs 0) /\
  (forall t t' q q', t <= t' -> interp (combine cs xs) t = Some q -> interp (combine cs xs) t' = Some q' -> q <= q').
Proof.
  intros Hne Hlen Hc Hx.
  destruct cs as [|c0 cs]; [contradiction|]. destruct xs as [|x0 xs]; [discriminate|].
  cbn [length] in Hlen. assert (Hlen' : length cs = length xs) by lia.
  pose proof (chain_combine c0 x0 cs xs Hc Hx) as Hch.
  cbn [combine interp hd]. rewrite last_cons_default.
  assert (Hlast : last (map snd (combine cs xs)) x0 = last xs x0) by (rewrite map_snd_combine by exact Hlen'; reflexivity).
  split.
  - intros t. eexists. split; [reflexivity|].
    destruct (Rlt_dec t c0) as [Hlt|Hge].
    + pose proof (chain_last c0 x0 _ Hch). lra.
    + pose proof (interp_from_lower c0 x0 _ t Hch ltac:(lra)).
      pose proof (interp_from_upper c0 x0 _ t Hch ltac:(lra)). lra.
  - intros t t' q q' Htt E E'. injection E as <-. injection E' as <-.
    destruct (Rlt_dec t c0) as [Hlt|Hge]; destruct (Rlt_dec t' c0) as [Hlt'|Hge'].
    + lra.
    + apply interp_from_lower; [exact Hch|lra].
    + lra.
    + apply interp_from_mono; [exact Hch|lra|exact Htt].
Qed.

(* predict_quantiles on the (x, w) pairs of the view *)
Lemma quantile_xw_spec xw :
  Forall (fun p => 0 <= snd p) xw -> 0 < wtot xw -> nondecreasing (map fst xw) ->
  (forall tau, exists q, quantile_xw xw tau = Some q /\ hd 0 (map fst xw) <= q <= last (map fst xw) 0) /\
  (forall t t' q q', t <= t' -> quantile_xw xw t = Some q -> quantile_xw xw t' = Some q' -> q <= q').
Proof.
  intros Hw Hpos Hx.
  destruct (cdf_xw_spec xw Hw Hpos) as (cs & E & Hlen & Hn & _).
  unfold quantile_xw. rewrite E.
  assert (Hne : cs <> []).
  { intros ->. cbn [length] in Hlen. destruct xw; [unfold wtot in Hpos; cbn in Hpos; lra|discriminate]. }
  apply interp_spec; [exact Hne|rewrite map_length; exact Hlen|exact Hn|exact Hx].
Qed.

Lemma quantile_xw_none xw tau : ~ 0 < wtot xw -> quantile_xw xw tau = None.
Proof.
  intros H. unfold quantile_xw. pose proof (cdf_xw_none xw H) as E.
  destruct (cdf_xw xw) as [xs o]. cbn [snd] in E. subst o. reflexivity.
Qed.
