(* C06 -- proofs about Model/C06_geoindex.v *)
From Coq Require Import String ZArith QArith Qround List Bool Permutation Lia Lqa FinFun.
From Typhon Require Import Model.C06_geoindex.
Import ListNotations.

(* ---------- generic list lemmas ---------- *)
Lemma NoDup_app_intro {A} (l1 l2 : list A) :
  NoDup l1 -> NoDup l2 -> (forall x, In x l1 -> In x l2 -> False) -> NoDup (l1 ++ l2).
Proof.
  induction l1 as [|a t IH]; cbn [app]; intros H1 H2 Hd; [exact H2|].
  inversion H1 as [|a' t' Hna Ht]; subst.
  constructor.
  - intros Hin. apply in_app_or in Hin. destruct Hin as [Hin|Hin]; [exact (Hna Hin)|].
    exact (Hd a (or_introl eq_refl) Hin).
  - apply IH; [exact Ht|exact H2|]. intros x Hx1 Hx2. exact (Hd x (or_intror Hx1) Hx2).
Qed.

Lemma NoDup_flat_map_disj {A B} (f : A -> list B) (l : list A) :
  NoDup l -> (forall a, In a l -> NoDup (f a)) ->
  (forall a b x, In a l -> In b l -> In x (f a) -> In x (f b) -> a = b) ->
  NoDup (flat_map f l).
Proof.
  induction l as [|a t IH]; cbn [flat_map]; intros Hl Hf Hd; [constructor|].
  inversion Hl as [|a' t' Hna Ht]; subst.
  apply NoDup_app_intro.
  - apply Hf. left; reflexivity.
  - apply IH; [exact Ht| |].
    + intros b Hb. apply Hf. right; exact Hb.
    + intros b c x Hb Hc. apply Hd; right; assumption.
  - intros x Hx1 Hx2. apply in_flat_map in Hx2. destruct Hx2 as [b [Hb Hxb]].
    assert (a = b) as -> by (apply (Hd a b x); [left; reflexivity|right; exact Hb|exact Hx1|exact Hxb]).
    exact (Hna Hb).
Qed.

Lemma NoDup_map_inj_on {A B} (f : A -> B) (l : list A) :
  NoDup l -> (forall x y, In x l -> In y l -> f x = f y -> x = y) -> NoDup (map f l).
Proof.
  induction l as [|a t IH]; cbn [map]; intros Hl Hinj; [constructor|].
  inversion Hl as [|a' t' Hna Ht]; subst.
  constructor.
  - intros Hin. apply in_map_iff in Hin. destruct Hin as [y [Hy Hyt]].
    assert (y = a) as -> by (apply Hinj; [right; exact Hyt|left; reflexivity|exact Hy]).
    exact (Hna Hyt).
  - apply IH; [exact Ht|]. intros x y Hx Hy. apply Hinj; right; assumption.
Qed.

Lemma NoDup_list_prod {A B} (l1 : list A) (l2 : list B) :
  NoDup l1 -> NoDup l2 -> NoDup (list_prod l1 l2).
Proof.
  induction l1 as [|a t IH]; cbn [list_prod]; intros H1 H2; [constructor|].
  inversion H1 as [|a' t' Hna Ht]; subst.
  apply NoDup_app_intro.
  - apply Injective_map_NoDup; [|exact H2]. intros x y Hxy. inversion Hxy; reflexivity.
  - apply IH; assumption.
  - intros [x y] Hx1 Hx2. apply in_map_iff in Hx1. destruct Hx1 as [y' [Hy' _]].
    inversion Hy'; subst. apply in_prod_iff in Hx2. destruct Hx2 as [Hx2 _]. exact (Hna Hx2).
Qed.

(* ---------- the index logic ---------- *)
Section QueryProofs.
  Variables D K : Type.
  Variables n m : nat.
  Variable dist : nat -> nat -> D.
  Variable within : D -> bool.
  Variable out : D -> K.
  Variable shuffler : option (list nat).
  Variable rq : nat -> list (nat * D).

  Local Notation sg := (sigma n shuffler).
  Local Notation tr := (translate shuffler).
  Local Notation sdist := (stored_dist D n dist shuffler).
  Local Notation brute := (rq_brute D n dist within shuffler).
  Local Notation raw := (raw_pairs D m rq).
  Local Notation fin := (finish D K out shuffler).
  Local Notation model := (query_model D K m out shuffler rq).
  Local Notation spc := (spec D K n m dist within out).

  Hypothesis Hperm : Permutation sg (seq 0 n).
  Hypothesis Hrq : rq_spec D n m dist within shuffler rq.

  Lemma sigma_length : List.length sg = n.
  Proof. rewrite (Permutation_length Hperm). apply seq_length. Qed.

  Lemma sigma_NoDup : NoDup sg.
  Proof. apply (Permutation_NoDup (Permutation_sym Hperm)). apply seq_NoDup. Qed.

  Lemma sigma_lt t : (t < n)%nat -> (nth t sg 0 < n)%nat.
  Proof.
    intros Ht. assert (Hin : In (nth t sg 0%nat) sg) by (apply nth_In; rewrite sigma_length; exact Ht).
    apply (Permutation_in _ Hperm) in Hin. apply in_seq in Hin. lia.
  Qed.

  Lemma sigma_surj i : (i < n)%nat -> exists t, (t < n)%nat /\ nth t sg 0%nat = i.
  Proof.
    intros Hi. assert (Hin : In i sg).
    { apply (Permutation_in _ (Permutation_sym Hperm)). apply in_seq. lia. }
    destruct (In_nth sg i 0%nat Hin) as [t [Ht Hnth]]. exists t. rewrite sigma_length in Ht. auto.
  Qed.

  Lemma sigma_inj t t' : (t < n)%nat -> (t' < n)%nat -> nth t sg 0%nat = nth t' sg 0%nat -> t = t'.
  Proof.
    intros Ht Ht' E. pose proof sigma_NoDup as Hnd. rewrite (NoDup_nth sg 0%nat) in Hnd.
    apply Hnd; rewrite ?sigma_length; assumption.
  Qed.

  (* translating through the shuffler (or not at all when it is None) = looking up sigma *)
  Lemma translate_sigma t : (t < n)%nat -> tr t = nth t sg 0%nat.
  Proof.
    intros Ht. unfold translate, sigma. destruct shuffler as [s|]; [reflexivity|].
    rewrite seq_nth; [reflexivity|exact Ht].
  Qed.

  Lemma brute_NoDup j : NoDup (brute j).
  Proof.
    unfold rq_brute. apply NoDup_filter. apply Injective_map_NoDup; [|apply seq_NoDup].
    intros x y Hxy. inversion Hxy; reflexivity.
  Qed.

  Lemma in_brute j t d : In (t, d) (brute j) <-> (t < n)%nat /\ d = sdist t j /\ within d = true.
  Proof.
    unfold rq_brute. rewrite filter_In, in_map_iff. cbn [snd]. split.
    - intros [[t' [E Hin]] Hw]. inversion E; subst. apply in_seq in Hin. rewrite sigma_length in Hin.
      repeat split; [lia|exact Hw].
    - intros [Ht [-> Hw]]. split; [|exact Hw]. exists t. split; [reflexivity|].
      apply in_seq. rewrite sigma_length. lia.
  Qed.

  Lemma in_rq j t d : (j < m)%nat -> (In (t, d) (rq j) <-> (t < n)%nat /\ d = sdist t j /\ within d = true).
  Proof.
    intros Hj. rewrite <- in_brute. split; intros H.
    - exact (Permutation_in _ (Hrq j Hj) H).
    - exact (Permutation_in _ (Permutation_sym (Hrq j Hj)) H).
  Qed.

  Lemma in_raw t j d :
    In (t, j, d) raw <-> (j < m)%nat /\ (t < n)%nat /\ d = sdist t j /\ within d = true.
  Proof.
    unfold raw_pairs. rewrite in_flat_map. split.
    - intros [j' [Hj' Hin]]. apply in_map_iff in Hin. destruct Hin as [[t' d'] [E Hin]].
      cbn [fst snd] in E. inversion E; subst. apply in_seq in Hj'.
      assert (Hj : (j < m)%nat) by lia. split; [exact Hj|]. apply (in_rq j t d Hj). exact Hin.
    - intros [Hj H]. exists j. split; [apply in_seq; lia|]. apply in_map_iff. exists (t, d).
      split; [reflexivity|]. apply (in_rq j t d Hj). exact H.
  Qed.

  Lemma raw_NoDup : NoDup raw.
  Proof.
    unfold raw_pairs. apply NoDup_flat_map_disj.
    - apply seq_NoDup.
    - intros j Hj. apply in_seq in Hj. apply Injective_map_NoDup.
      + intros [a b] [a' b'] E. cbn [fst snd] in E. inversion E; reflexivity.
      + apply (Permutation_NoDup (Permutation_sym (Hrq j ltac:(lia)))). apply brute_NoDup.
    - intros a b x _ _ Ha Hb. apply in_map_iff in Ha. apply in_map_iff in Hb.
      destruct Ha as [ta [Ea _]]. destruct Hb as [tb [Eb _]]. subst x. inversion Eb; reflexivity.
  Qed.

  Lemma model_eq : model = map fin raw.
  Proof. unfold query_model. destruct raw; reflexivity. Qed.

  Lemma fin_inj_on x y : In x raw -> In y raw -> fin x = fin y -> x = y.
  Proof.
    destruct x as [[t j] d]. destruct y as [[t' j'] d']. intros Hx Hy E.
    apply in_raw in Hx. apply in_raw in Hy.
    destruct Hx as [Hj [Ht [Hd Hw]]]. destruct Hy as [Hj' [Ht' [Hd' Hw']]].
    unfold finish in E. cbn [fst snd] in E. inversion E as [[Etr Ej Eo]]. subst j'.
    rewrite (translate_sigma t Ht), (translate_sigma t' Ht') in Etr.
    assert (t = t') as <- by (apply sigma_inj; assumption).
    rewrite Hd, Hd'. reflexivity.
  Qed.

  Lemma model_NoDup : NoDup model.
  Proof. rewrite model_eq. apply NoDup_map_inj_on; [exact raw_NoDup|exact fin_inj_on]. Qed.

  Lemma in_model i j k :
    In (i, j, k) model <-> (i < n)%nat /\ (j < m)%nat /\ within (dist i j) = true /\ k = out (dist i j).
  Proof.
    rewrite model_eq, in_map_iff. split.
    - intros [[[t j'] d] [E Hin]]. apply in_raw in Hin. destruct Hin as [Hj [Ht [Hd Hw]]].
      unfold finish in E. cbn [fst snd] in E. inversion E; subst j' i k.
      rewrite (translate_sigma t Ht). unfold stored_dist in Hd. subst d.
      split; [apply sigma_lt; exact Ht|]. split; [exact Hj|]. split; [exact Hw|reflexivity].
    - intros [Hi [Hj [Hw ->]]]. destruct (sigma_surj i Hi) as [t [Ht Hnth]].
      exists (t, j, dist i j). split.
      + unfold finish. cbn [fst snd]. rewrite (translate_sigma t Ht), Hnth. reflexivity.
      + apply in_raw. unfold stored_dist. rewrite Hnth. auto.
  Qed.

  Lemma in_spec i j k :
    In (i, j, k) spc <-> (i < n)%nat /\ (j < m)%nat /\ within (dist i j) = true /\ k = out (dist i j).
  Proof.
    unfold spec, prod_idx. rewrite in_map_iff. split.
    - intros [[i' j'] [E Hin]]. cbn [fst snd] in E. inversion E; subst i' j' k.
      apply filter_In in Hin. cbn [fst snd] in Hin. destruct Hin as [Hin Hw].
      apply in_prod_iff in Hin. rewrite !in_seq in Hin. repeat split; try lia; exact Hw.
    - intros [Hi [Hj [Hw ->]]]. exists (i, j). split; [reflexivity|]. apply filter_In. cbn [fst snd].
      split; [|exact Hw]. apply in_prod_iff. rewrite !in_seq. lia.
  Qed.

  Lemma spec_idx_NoDup : NoDup (map (idx K) spc).
  Proof.
    unfold spec. rewrite map_map. unfold idx. cbn [fst].
    rewrite (map_ext _ (fun ij => ij)) by (intros [a b]; reflexivity). rewrite map_id.
    apply NoDup_filter. apply NoDup_list_prod; apply seq_NoDup.
  Qed.

  Lemma spec_NoDup : NoDup spc.
  Proof. exact (NoDup_map_inv _ _ spec_idx_NoDup). Qed.

  (* the core theorem *)
  Lemma model_perm_spec : Permutation model spc.
  Proof.
    apply NoDup_Permutation; [exact model_NoDup|exact spec_NoDup|].
    intros [[i j] k]. rewrite in_model, in_spec. reflexivity.
  Qed.

  Lemma model_idx_NoDup : NoDup (map (idx K) model).
  Proof.
    apply (Permutation_NoDup (Permutation_map (idx K) (Permutation_sym model_perm_spec))).
    exact spec_idx_NoDup.
  Qed.

  Lemma model_aligned x : In x model -> snd x = out (dist (fst (fst x)) (snd (fst x))).
  Proof. destruct x as [[i j] k]. intros H. apply in_model in H. cbn [fst snd]. tauto. Qed.
End QueryProofs.

(* identity shuffler = no shuffler: sigma of None is a permutation *)
Lemma sigma_none_perm n : Permutation (sigma n None) (seq 0 n).
Proof. apply Permutation_refl. Qed.

(* two indexes over the same points (other permutation, other tree) answer alike *)
Lemma model_independent D K n m dist within out s1 s2 rq1 rq2 :
  Permutation (sigma n s1) (seq 0 n) -> Permutation (sigma n s2) (seq 0 n) ->
  rq_spec D n m dist within s1 rq1 -> rq_spec D n m dist within s2 rq2 ->
  Permutation (query_model D K m out s1 rq1) (query_model D K m out s2 rq2).
Proof.
  intros P1 P2 H1 H2.
  apply (Permutation_trans (model_perm_spec D K n m dist within out s1 rq1 P1 H1)).
  apply Permutation_sym. exact (model_perm_spec D K n m dist within out s2 rq2 P2 H2).
Qed.

(* a correct tree exists for every permutation (the hypotheses are satisfiable) *)
Lemma brute_is_rq_spec D n m dist within s : rq_spec D n m dist within s (rq_brute D n dist within s).
Proof. intros j _. apply Permutation_refl. Qed.

(* ---------- the code as found: `pairs.any()` ---------- *)
(* three build points, the shuffler [2;0;1], one query point that is close to build point 2 only:
   the tree reports stored position 0, the 2x1 array [[0],[0]] has no non-zero entry, and the
   untranslated pair (0,0) is returned instead of (2,0). *)
Definition cx_dist (i j : nat) : Z := match i with 2%nat => 1%Z | _ => 9%Z end.
Definition cx_within (d : Z) : bool := (d <=? 5)%Z.
Definition cx_shuffler := Some [2%nat; 0%nat; 1%nat].

Lemma asis_any_refuted :
  let rq := rq_brute Z 3 cx_dist cx_within cx_shuffler in
  Permutation (sigma 3 cx_shuffler) (seq 0 3) /\
  rq_spec Z 3 1 cx_dist cx_within cx_shuffler rq /\
  query_asis_pairs Z 1 cx_shuffler rq = [(0%nat, 0%nat)] /\
  map (idx Z) (spec Z Z 3 1 cx_dist cx_within (fun d => d)) = [(2%nat, 0%nat)].
Proof.
  cbv zeta. split; [|split; [|split]].
  - unfold sigma, cx_shuffler. cbn [seq].
    apply (perm_trans (l' := [0%nat; 2%nat; 1%nat])); [apply perm_swap|].
    apply perm_skip. apply perm_swap.
  - apply brute_is_rq_spec.
  - vm_compute. reflexivity.
  - vm_compute. reflexivity.
Qed.

(* ---------- metrics ---------- *)
Lemma within_tree_km R mt r_km d : 0 < R ->
  within_tree R mt r_km d = Qle_bool (tree_km R mt d) r_km.
Proof.
  intros HR. unfold within_tree, r_tree, tree_km.
  assert (HR' : ~ R == 0) by (intro E; rewrite E in HR; apply (Qlt_irrefl 0); exact HR).
  destruct mt.
  - destruct (Qle_bool d (r_km * 1000)) eqn:E1; destruct (Qle_bool (d / 1000) r_km) eqn:E2; try reflexivity.
    + apply Qle_bool_iff in E1. assert (H : d / 1000 <= r_km).
      { apply Qle_shift_div_r; [reflexivity|exact E1]. }
      apply Qle_bool_iff in H. congruence.
    + apply Qle_bool_iff in E2. assert (H : d <= r_km * 1000).
      { setoid_replace d with (d / 1000 * 1000) by (field). apply Qmult_le_compat_r; [exact E2|discriminate]. }
      apply Qle_bool_iff in H. congruence.
  - destruct (Qle_bool d (r_km * (1000 / R))) eqn:E1; destruct (Qle_bool (R * d / 1000) r_km) eqn:E2; try reflexivity.
    + apply Qle_bool_iff in E1. assert (H : R * d / 1000 <= r_km).
      { apply Qle_shift_div_r; [reflexivity|].
        setoid_replace (r_km * 1000) with (R * (r_km * (1000 / R))) by (field; exact HR').
        apply Qmult_le_l; [exact HR|exact E1]. }
      apply Qle_bool_iff in H. congruence.
    + apply Qle_bool_iff in E2. assert (H : d <= r_km * (1000 / R)).
      { setoid_replace d with ((R * d / 1000) * (1000 / R)) by (field; exact HR').
        apply Qmult_le_compat_r; [exact E2|].
        apply Qle_shift_div_l; [exact HR|]. rewrite Qmult_0_l. discriminate. }
      apply Qle_bool_iff in H. congruence.
Qed.

Lemma out_km_is_km R mt d : out_km R mt d == tree_km R mt d.
Proof. unfold out_km, tree_km. destruct mt; field. Qed.

(* the haversine distances of the code as found are not kilometres (unless R = 1 m) *)
Lemma asis_haversine_refuted :
  exists R d, 0 < R /\ ~ out_km_asis R Haversine d == tree_km R Haversine d.
Proof.
  exists 6378100, 1. split; [reflexivity|]. unfold out_km_asis, tree_km. intros H. vm_compute in H. discriminate.
Qed.

(* pairs and distances of geo_query in kilometres *)
Definition same_entry (a b : nat * nat * Q) : Prop := fst a = fst b /\ snd a == snd b.

Lemma geo_query_exact R mt r_km n m dist shuffler rq : 0 < R ->
  Permutation (sigma n shuffler) (seq 0 n) ->
  rq_spec Q n m dist (within_tree R mt r_km) shuffler rq ->
  exists l, Permutation (geo_query R mt shuffler rq m) l /\
            Forall2 same_entry l (geo_spec R mt r_km n m dist).
Proof.
  intros HR HP Hrq.
  exists (spec Q Q n m dist (within_tree R mt r_km) (out_km R mt)). split.
  - unfold geo_query. apply model_perm_spec; assumption.
  - unfold spec, geo_spec.
    rewrite (filter_ext _ (fun ij => Qle_bool (tree_km R mt (dist (fst ij) (snd ij))) r_km))
      by (intros ij; apply within_tree_km; exact HR).
    induction (filter (fun ij => Qle_bool (tree_km R mt (dist (fst ij) (snd ij))) r_km) (prod_idx n m))
      as [|a t IH]; cbn [map]; constructor; [|exact IH].
    split; [reflexivity|]. cbn [snd]. apply out_km_is_km.
Qed.

(* ---------- units ---------- *)
Lemma lookup_equiv a b u : table_equiv a b -> opt_Qeq (lookup_unit a u) (lookup_unit b u).
Proof.
  intros H. induction H as [|[na fa] [nb fb] ta tb [Hn Hf] Ht IH]; cbn [lookup_unit]; [exact I|].
  cbn [fst snd] in Hn, Hf. subst nb. destruct (existsb (String.eqb u) na); [exact Hf|exact IH].
Qed.

Lemma to_km_equiv a b r : table_equiv a b -> opt_Qeq (to_km a r) (to_km b r).
Proof.
  intros H. destruct r as [x|x u]; cbn [to_km]; [cbn; reflexivity|].
  destruct (Qeq_bool x 0); [exact I|]. destruct (String.eqb u ""); [cbn; reflexivity|].
  pose proof (lookup_equiv a b u H) as L.
  destruct (lookup_unit a u) as [fa|]; destruct (lookup_unit b u) as [fb|]; cbn in L |- *; try contradiction; [|exact I].
  rewrite L. reflexivity.
Qed.

(* equal lengths written in different units give the same number of kilometres *)
Lemma to_km_same_length tbl x1 u1 f1 x2 u2 f2 :
  ~ x1 == 0 -> ~ x2 == 0 -> u1 <> ""%string -> u2 <> ""%string ->
  lookup_unit tbl u1 = Some f1 -> lookup_unit tbl u2 = Some f2 -> x1 * f1 == x2 * f2 ->
  opt_Qeq (to_km tbl (RStr x1 u1)) (to_km tbl (RStr x2 u2)).
Proof.
  intros H1 H2 Hu1 Hu2 L1 L2 E. cbn [to_km].
  destruct (Qeq_bool x1 0) eqn:E1; [apply Qeq_bool_iff in E1; contradiction|].
  destruct (Qeq_bool x2 0) eqn:E2; [apply Qeq_bool_iff in E2; contradiction|].
  apply String.eqb_neq in Hu1. apply String.eqb_neq in Hu2. rewrite Hu1, Hu2, L1, L2. exact E.
Qed.

(* the radius enters the query only through its value in kilometres *)
Lemma within_tree_Qeq R mt r1 r2 d : r1 == r2 -> within_tree R mt r1 d = within_tree R mt r2 d.
Proof.
  intros E. unfold within_tree, r_tree.
  destruct mt.
  - destruct (Qle_bool d (r1 * 1000)) eqn:E1; destruct (Qle_bool d (r2 * 1000)) eqn:E2; try reflexivity.
    + apply Qle_bool_iff in E1. rewrite E in E1. apply Qle_bool_iff in E1. congruence.
    + apply Qle_bool_iff in E2. rewrite <- E in E2. apply Qle_bool_iff in E2. congruence.
  - destruct (Qle_bool d (r1 * (1000 / R))) eqn:E1; destruct (Qle_bool d (r2 * (1000 / R))) eqn:E2; try reflexivity.
    + apply Qle_bool_iff in E1. rewrite E in E1. apply Qle_bool_iff in E1. congruence.
    + apply Qle_bool_iff in E2. rewrite <- E in E2. apply Qle_bool_iff in E2. congruence.
Qed.

Lemma rq_spec_Qeq R mt r1 r2 n m dist shuffler rq : r1 == r2 ->
  rq_spec Q n m dist (within_tree R mt r1) shuffler rq -> rq_spec Q n m dist (within_tree R mt r2) shuffler rq.
Proof.
  intros E H j Hj. specialize (H j Hj). unfold rq_brute in *.
  rewrite (filter_ext _ (fun td => within_tree R mt r1 (snd td))); [exact H|].
  intros td. symmetry. apply within_tree_Qeq. exact E.
Qed.
