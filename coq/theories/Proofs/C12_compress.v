(* C12 -- lemmas about the model of compress / decompress. *)
From Coq Require Import ZArith List Bool String Ascii Lia.
From Typhon Require Import Model.C12_compress.
Import ListNotations.
Open Scope Z_scope.

(* ------------------------------------------------------------------ association lists *)
Lemma upd_first_head : forall A n (v x : A) l, upd_first n v ((n, x) :: l) = (n, v) :: l.
Proof. intros. cbn [upd_first]. rewrite Z.eqb_refl. reflexivity. Qed.

Lemma del_first_head : forall A n (x : A) l, del_first n ((n, x) :: l) = l.
Proof. intros. cbn [del_first]. rewrite Z.eqb_refl. reflexivity. Qed.

Lemma look_first_head : forall A n (x : A) l, look_first n ((n, x) :: l) = Some x.
Proof. intros. cbn [look_first]. rewrite Z.eqb_refl. reflexivity. Qed.

Lemma str_eqb_refl : forall a, str_eqb a a = true.
Proof. induction a as [|x a IH]; cbn; [reflexivity|]. rewrite Ascii.eqb_refl, IH. reflexivity. Qed.

Lemma str_eqb_eq : forall a b, str_eqb a b = true <-> a = b.
Proof.
  induction a as [|x a IH]; destruct b as [|y b]; cbn; split; intro H; try reflexivity; try discriminate.
  - apply andb_true_iff in H. destruct H as [H1 H2]. apply Ascii.eqb_eq in H1. apply IH in H2. subst. reflexivity.
  - inversion H; subst. rewrite Ascii.eqb_refl. cbn. apply IH. reflexivity.
Qed.

Lemma str_eqb_neq : forall a b, a <> b -> str_eqb a b = false.
Proof. intros a b H. destruct (str_eqb a b) eqn:E; [apply str_eqb_eq in E; contradiction|reflexivity]. Qed.

Lemma flook_fwrite_same : forall n b fs, flook n (fwrite n b fs) = Some b.
Proof. intros. unfold fwrite. cbn [flook]. rewrite str_eqb_refl. reflexivity. Qed.

Lemma flook_fwrite_other : forall n k b fs, k <> n -> flook n (fwrite k b fs) = flook n fs.
Proof. intros. unfold fwrite. cbn [flook]. rewrite str_eqb_neq by assumption. reflexivity. Qed.

Lemma flook_funlink_same : forall n fs, flook n (funlink n fs) = None.
Proof.
  intros n fs. induction fs as [|[k v] fs IH]; cbn; [reflexivity|].
  destruct (str_eqb k n) eqn:E; cbn; [exact IH|]. rewrite E. exact IH.
Qed.

Lemma flook_funlink_other : forall n t fs, t <> n -> flook n (funlink t fs) = flook n fs.
Proof.
  intros n t fs Hne. induction fs as [|[k v] fs IH]; cbn; [reflexivity|].
  destruct (str_eqb k t) eqn:E; cbn.
  - apply str_eqb_eq in E. subst k. rewrite str_eqb_neq by assumption. exact IH.
  - destruct (str_eqb k n); [reflexivity|exact IH].
Qed.

(* ------------------------------------------------------------------ the operations *)
Section Ops.
  Variable known : str -> bool.
  Variable enc : str -> str -> bytes -> bytes.
  Variable encp : str -> bytes.
  Variable dec : str -> str -> bytes -> dres.

  Notation run_compress := (run_compress known enc encp).
  Notation run_decompress := (run_decompress known dec).
  Notation compress_as := (compress_as known enc encp).

  (* the temporary directory of a compress block: created, written, removed *)
  Lemma tmpdir_cycle : forall st w fs,
    let n := next st in
    let st1 := snd (mkdtemp st) in
    let st2 := match w with Some x => td_write n x st1 | None => st1 end in
    tdirs (rmtree n (set_files st2 fs)) = tdirs st /\ tfiles (rmtree n (set_files st2 fs)) = tfiles st
    /\ files (rmtree n (set_files st2 fs)) = fs /\ files st2 = files st
    /\ td_read n st2 = w /\ tdirs (rmtree n st2) = tdirs st /\ tfiles (rmtree n st2) = tfiles st
    /\ files (rmtree n st2) = files st.
  Proof.
    intros st w fs. unfold td_read, td_write, rmtree, set_files, mkdtemp.
    destruct w as [x|]; cbn -[Z.eqb];
      rewrite ?Z.eqb_refl; cbn -[Z.eqb]; rewrite ?Z.eqb_refl; repeat split; reflexivity.
  Qed.

  (* ---- no temporary file or directory remains, whatever step raises ---- *)
  Lemma compress_no_debris : forall st name fmtarg b flt,
    let r := run_compress st name fmtarg b flt in
    tdirs (c_st r) = tdirs st /\ tfiles (c_st r) = tfiles st.
  Proof.
    intros st name fmtarg b flt. unfold C12_compress.run_compress.
    destruct (negb (known (eff_fmt name fmtarg))).
    - destruct (body_write b flt) as [[x|] o]; cbn; split; reflexivity.
    - assert (G : forall w o,
        let st2 := match w with Some x => td_write (next st) x (snd (mkdtemp st)) | None => snd (mkdtemp st) end in
        let r := match o with
                 | Raised => mkC (rmtree (next st) st2) Raised YTemp (ntemps st2)
                 | Done => let '(fs', o') := compress_as (td_read (next st) st2) (eff_fmt name fmtarg) name flt (files st2) in
                           mkC (rmtree (next st) (set_files st2 fs')) o' YTemp (ntemps st2)
                 end in
        tdirs (c_st r) = tdirs st /\ tfiles (c_st r) = tfiles st).
      { intros w o. cbv zeta. destruct o.
        - destruct (compress_as _ _ _ _ _) as [fs' o']. cbn [c_st].
          pose proof (tmpdir_cycle st w fs') as T. cbv zeta in T.
          destruct T as (A & B & _). split; assumption.
        - cbn [c_st]. pose proof (tmpdir_cycle st w []) as T. cbv zeta in T.
          destruct T as (_ & _ & _ & _ & _ & A & B & _). split; assumption. }
      destruct flt; try (cbn [c_st]; split; reflexivity);
        unfold mkdtemp at 1; cbv beta iota zeta;
        destruct (body_write b _) as [w o]; apply (G w o).
  Qed.

  (* ---- an exception in the caller's block (or before it) leaves every user-visible file alone ---- *)
  Lemma compress_body_fault : forall st name fmtarg b j,
    known (eff_fmt name fmtarg) = true ->
    let r := run_compress st name fmtarg b (CBody j) in
    files (c_st r) = files st /\ c_out r = Raised.
  Proof.
    intros st name fmtarg b j K. unfold C12_compress.run_compress. rewrite K. cbn [negb].
    unfold mkdtemp at 1. cbv beta iota zeta.
    destruct j as [j|]; cbn [body_write c_st c_out].
    - pose proof (tmpdir_cycle st (Some (firstn j b)) []) as T. cbv zeta in T. split; [apply T|reflexivity].
    - pose proof (tmpdir_cycle st None []) as T. cbv zeta in T. split; [apply T|reflexivity].
  Qed.

  Lemma compress_mkdtemp_fault : forall st name fmtarg b,
    known (eff_fmt name fmtarg) = true ->
    let r := run_compress st name fmtarg b CMkdtemp in
    c_st r = st /\ c_out r = Raised /\ c_yield r = YNone.
  Proof.
    intros st name fmtarg b K. unfold C12_compress.run_compress. rewrite K. cbn. repeat split.
  Qed.

  (* ---- whatever happens, only the target itself can change among the user-visible files ---- *)
  Lemma compress_as_other : forall src fmt target flt fs p,
    p <> target -> flook p (fst (compress_as src fmt target flt fs)) = flook p fs.
  Proof.
    intros src fmt target flt fs p Hne. unfold C12_compress.compress_as.
    destruct (negb (known fmt)); [reflexivity|].
    destruct (writer_of fmt); destruct src; destruct flt; cbn [fst];
      try reflexivity; apply flook_fwrite_other; congruence.
  Qed.

  Lemma compress_as_ok : forall b fmt target fs,
    known fmt = true -> writer_of fmt <> WNone ->
    compress_as (Some b) fmt target CNone fs = (fwrite target (enc fmt (member_c target fmt) b) fs, Done).
  Proof.
    intros b fmt target fs K W. unfold C12_compress.compress_as. rewrite K. cbn [negb].
    destruct (writer_of fmt); try reflexivity. contradiction.
  Qed.

  Lemma run_compress_known_eq : forall st name fmtarg b flt,
    known (eff_fmt name fmtarg) = true -> flt <> CMkdtemp ->
    run_compress st name fmtarg b flt =
    (let '(w, o) := body_write b flt in
     let st2 := match w with
                | Some x => td_write (next st) x (snd (mkdtemp st))
                | None => snd (mkdtemp st)
                end in
     match o with
     | Raised => mkC (rmtree (next st) st2) Raised YTemp (ntemps st2)
     | Done =>
         let '(fs', o') := compress_as (td_read (next st) st2) (eff_fmt name fmtarg) name flt (files st2) in
         mkC (rmtree (next st) (set_files st2 fs')) o' YTemp (ntemps st2)
     end).
  Proof.
    intros st name fmtarg b flt K NM. unfold C12_compress.run_compress. rewrite K. cbn [negb].
    destruct flt; try contradiction; reflexivity.
  Qed.

  (* ---- an undisturbed block stores a complete archive of the payload under the name ---- *)
  Lemma compress_stores : forall st name fmtarg b,
    let fmt := eff_fmt name fmtarg in
    known fmt = true -> writer_of fmt <> WNone ->
    let r := run_compress st name fmtarg b CNone in
    c_out r = Done /\ c_yield r = YTemp
    /\ files (c_st r) = fwrite name (enc fmt (member_c name fmt) b) (files st).
  Proof.
    intros st name fmtarg b fmt K W. rewrite run_compress_known_eq by (assumption || discriminate).
    fold fmt. cbn [body_write].
    pose proof (tmpdir_cycle st (Some b)) as T. cbv zeta in T.
    destruct (T []) as (_ & _ & _ & F2 & R & _). rewrite R, F2.
    rewrite compress_as_ok by assumption. cbn [c_out c_yield c_st].
    split; [reflexivity|]. split; [reflexivity|].
    apply (T (fwrite name (enc fmt (member_c name fmt) b) (files st))).
  Qed.

  (* ---- names that are not compression formats are passed through ---- *)
  Lemma compress_passthrough : forall st name fmtarg b flt,
    known (eff_fmt name fmtarg) = false ->
    let r := run_compress st name fmtarg b flt in
    c_yield r = YName /\ c_during r = ntemps st
    /\ (flt = CNone -> c_out r = Done /\ files (c_st r) = fwrite name b (files st)).
  Proof.
    intros st name fmtarg b flt K. unfold C12_compress.run_compress. rewrite K. cbn [negb].
    destruct (body_write b flt) as [w o] eqn:E. cbn. split; [reflexivity|]. split; [reflexivity|].
    intros ->. cbn in E. inversion E. subst. cbn. split; reflexivity.
  Qed.

  Lemma decompress_passthrough : forall st name target flt,
    known (fmt_of_name name) = false ->
    let r := run_decompress st name target flt in
    d_yield r = YName /\ d_st r = st /\ (flt = DNone -> d_read r = flook name (files st)).
  Proof.
    intros st name target flt K. unfold C12_compress.run_decompress. rewrite K. cbn [negb].
    destruct flt as [| | | | |[|]]; cbn; repeat split; intros; try reflexivity; discriminate.
  Qed.

  (* ---- decompress: no temporary file remains, the copy is gone, nothing else changes ---- *)
  Ltac break_match :=
    repeat match goal with
           | |- context [match flook ?a ?b with _ => _ end] => destruct (flook a b) eqn:?
           | |- context [match dec ?a ?b ?c with _ => _ end] => destruct (dec a b c) eqn:?
           end.

  Lemma decompress_no_debris : forall st name target flt,
    let r := run_decompress st name target flt in
    tdirs (d_st r) = tdirs st /\ tfiles (d_st r) = tfiles st.
  Proof.
    intros st name target flt. unfold C12_compress.run_decompress, mktemp, tf_write, tf_unlink, set_files.
    destruct (negb (known (fmt_of_name name))).
    - destruct flt as [| | | | |[|]]; cbn; split; reflexivity.
    - destruct target as [t|]; destruct flt as [| | |j| |[|]];
        cbn -[Z.eqb flook funlink fwrite upd_first del_first];
        try (split; reflexivity);
        break_match; cbn -[Z.eqb flook funlink fwrite upd_first del_first];
        rewrite ?upd_first_head, ?del_first_head; split; reflexivity.
  Qed.

  Lemma decompress_copy_gone : forall st name t flt,
    known (fmt_of_name name) = true -> flt <> DMktemp ->
    let r := run_decompress st name (Some t) flt in
    flook t (files (d_st r)) = None.
  Proof.
    intros st name t flt K NM. unfold C12_compress.run_decompress, set_files. rewrite K. cbn [negb].
    destruct flt as [| | |j| |[|]]; try contradiction; cbn -[flook funlink fwrite];
      break_match; cbn -[flook funlink fwrite]; apply flook_funlink_same.
  Qed.

  Lemma decompress_others_untouched : forall st name target flt p,
    target <> Some p ->
    let r := run_decompress st name target flt in
    flook p (files (d_st r)) = flook p (files st).
  Proof.
    intros st name target flt p NT. unfold C12_compress.run_decompress, mktemp, tf_write, tf_unlink, set_files.
    destruct (negb (known (fmt_of_name name))).
    - destruct flt as [| | | | |[|]]; cbn; reflexivity.
    - assert (W : forall t x fs, Some t <> Some p -> flook p (funlink t (fwrite t x fs)) = flook p (funlink t fs)).
      { intros t x fs H. rewrite !flook_funlink_other by congruence. apply flook_fwrite_other. congruence. }
      destruct target as [t|]; destruct flt as [| | |j| |[|]]; cbn -[Z.eqb flook funlink fwrite];
        try reflexivity;
        break_match; cbn -[Z.eqb flook funlink fwrite]; try reflexivity;
        rewrite ?W by assumption; rewrite ?flook_funlink_other by congruence;
        rewrite ?flook_fwrite_other by congruence; reflexivity.
  Qed.

  (* ---- reading back ---- *)
  Lemma decompress_reads : forall st name target x b,
    known (fmt_of_name name) = true ->
    target <> Some name ->
    flook name (files st) = Some x ->
    dec (fmt_of_name name) (member_d name) x = DOk b ->
    let r := run_decompress st name target DNone in
    d_out r = Done /\ d_read r = Some b /\ d_yield r = (match target with None => YTemp | Some _ => YTarget end).
  Proof.
    intros st name target x b K NT L D. unfold C12_compress.run_decompress, mktemp, set_files. rewrite K. cbn [negb].
    destruct target as [t|]; cbn -[flook funlink fwrite].
    - rewrite flook_fwrite_other by congruence. rewrite L, D. cbn. repeat split.
    - rewrite L, D. cbn. repeat split.
  Qed.
End Ops.

(* ------------------------------------------------------------------ names *)
Lemma rsplit_some : forall c l a b, rsplit c l = Some (a, b) -> l = a ++ c :: b /\ ~ In c b.
Proof.
  intros c. induction l as [|x t IH]; intros a b H; cbn in H; [discriminate|].
  destruct (rsplit c t) as [[a' b']|] eqn:E.
  - inversion H; subst. destruct (IH a' b eq_refl) as [-> N]. split; [reflexivity|exact N].
  - destruct (Ascii.eqb x c) eqn:X; [|discriminate]. inversion H; subst. apply Ascii.eqb_eq in X. subst x.
    split; [reflexivity|]. clear -E. revert E. induction b as [|y b IH]; cbn; intros E; [tauto|].
    destruct (rsplit c b) as [[? ?]|]; [discriminate|]. destruct (Ascii.eqb y c) eqn:Y; [discriminate|].
    intros [->|I]; [rewrite Ascii.eqb_refl in Y; discriminate|]. apply IH; [reflexivity|exact I].
Qed.

Lemma rsplit_none : forall c l, ~ In c l -> rsplit c l = None.
Proof.
  intros c. induction l as [|x t IH]; intros N; cbn; [reflexivity|].
  rewrite IH by (intro I; apply N; right; exact I).
  destruct (Ascii.eqb x c) eqn:X; [|reflexivity]. apply Ascii.eqb_eq in X. subst. exfalso. apply N. left. reflexivity.
Qed.

Lemma rsplit_app : forall c a b, ~ In c b -> rsplit c (a ++ c :: b) = Some (a, b).
Proof.
  intros c a b N. induction a as [|x a IH]; cbn.
  - rewrite rsplit_none by exact N. rewrite Ascii.eqb_refl. reflexivity.
  - rewrite IH. reflexivity.
Qed.

Lemma basename_nosep : forall p, ~ In sep (basename p).
Proof.
  intros p. unfold basename. destruct (rsplit sep p) as [[a b]|] eqn:E.
  - apply rsplit_some in E. tauto.
  - intro I. revert E. clear -I. induction p as [|x t IH]; cbn; [destruct I|].
    destruct (rsplit sep t) as [[? ?]|] eqn:E; [discriminate|].
    destruct (Ascii.eqb x sep) eqn:X; [discriminate|]. intros _.
    destruct I as [->|I]; [rewrite Ascii.eqb_refl in X; discriminate|]. apply (IH I). reflexivity.
Qed.

Lemma basename_id : forall q, ~ In sep q -> basename q = q /\ dirpart q = [].
Proof. intros q N. unfold basename, dirpart. rewrite rsplit_none by exact N. split; reflexivity. Qed.

Lemma basename_dirpart_app : forall p b, ~ In sep b -> basename (dirpart p ++ b) = b.
Proof.
  intros p b N. unfold dirpart. destruct (rsplit sep p) as [[a ?]|].
  - rewrite <- app_assoc. cbn [app]. unfold basename. rewrite rsplit_app by exact N. reflexivity.
  - cbn [app]. apply basename_id. exact N.
Qed.

Lemma lstrip_nodot : forall s, ~ In dot s -> lstrip_dots s = s.
Proof.
  intros [|c t] N; cbn; [reflexivity|]. destruct (Ascii.eqb c dot) eqn:X; [|reflexivity].
  apply Ascii.eqb_eq in X. subst. exfalso. apply N. left. reflexivity.
Qed.

Lemma endswith_dot_suffix : forall suf, endswith (dot :: suf) suf = true.
Proof.
  intros suf. unfold endswith. cbn [List.length].
  replace (S (List.length suf) - List.length suf)%nat with 1%nat by lia. cbn [skipn].
  rewrite str_eqb_refl. rewrite andb_true_r. apply Nat.leb_le. lia.
Qed.

Lemma splitext_last_shape : forall q b e, splitext_last q = (b, e) ->
  (e = [] /\ b = q) \/ (exists suf, e = dot :: suf /\ ~ In dot suf /\ q = b ++ dot :: suf).
Proof.
  intros q b e H. unfold splitext_last in H. destruct (rsplit dot q) as [[pre suf]|] eqn:E.
  - destruct (all_dots pre); inversion H; subst; [left; split; reflexivity|].
    right. exists suf. apply rsplit_some in E. destruct E as [-> N]. repeat split; assumption.
  - inversion H; subst. left. split; reflexivity.
Qed.

(* the member name compress_as stores in a zip archive is the one decompress looks for *)
Lemma member_agree : forall p, fmt_of_name p <> [] -> member_c p (fmt_of_name p) = member_d p.
Proof.
  intros p NE. unfold member_c, member_d, fmt_of_name in *.
  pose proof (basename_nosep p) as NS. set (q := basename p) in *.
  unfold splitext at 1. destruct (basename_id q NS) as [Bq Dq]. rewrite Bq, Dq. cbn [app].
  unfold splitext in *. fold q in NE |- *.
  destruct (splitext_last q) as [b e] eqn:S. cbn [fst snd] in *.
  destruct (splitext_last_shape q b e S) as [[-> ->]|[suf (-> & ND & Q)]].
  - cbn in NE. contradiction.
  - assert (NB : ~ In sep b). { intro I. apply NS. rewrite Q. apply in_or_app. left. exact I. }
    rewrite basename_dirpart_app by exact NB.
    cbn [lstrip_dots]. rewrite Ascii.eqb_refl. rewrite lstrip_nodot by exact ND.
    rewrite endswith_dot_suffix. reflexivity.
Qed.

Lemma writer_nonempty : forall f, writer_of f <> WNone -> f <> [].
Proof. intros f W ->. apply W. reflexivity. Qed.

(* ------------------------------------------------------------------ round trip *)
Section RoundTrip.
  Variable known : str -> bool.
  Variable enc : str -> str -> bytes -> bytes.
  Variable encp : str -> bytes.
  Variable dec : str -> str -> bytes -> dres.
  Hypothesis codec_ok : forall f m b, dec f m (enc f m b) = DOk b.

  Lemma compress_others_untouched : forall st name fmtarg b flt p,
    p <> name ->
    flook p (files (c_st (run_compress known enc encp st name fmtarg b flt))) = flook p (files st).
  Proof.
    intros st name fmtarg b flt p Hne.
    destruct (known (eff_fmt name fmtarg)) eqn:K.
    - assert (C : flt = CMkdtemp \/ flt <> CMkdtemp) by (destruct flt; (left; reflexivity) || (right; discriminate)).
      destruct C as [->|NM].
      + destruct (compress_mkdtemp_fault known enc encp st name fmtarg b K) as (-> & _). reflexivity.
      + rewrite (run_compress_known_eq known enc encp) by assumption.
        destruct (body_write b flt) as [w o]. cbv beta iota zeta. destruct o.
        * match goal with |- context [compress_as ?a ?b ?c ?d ?e ?f ?g ?h] =>
            destruct (compress_as a b c d e f g h) as [fs' o'] eqn:E end. cbn [c_st].
          pose proof (tmpdir_cycle st w fs') as T. cbv zeta in T.
          destruct T as (_ & _ & F1 & F2 & _). rewrite F1.
          pose proof (compress_as_other known enc encp) as O.
          match type of E with compress_as _ _ _ ?s ?f ?t ?fl ?fs = _ =>
            specialize (O s f t fl fs p Hne); rewrite E in O; cbn [fst] in O; rewrite O end.
          rewrite F2. reflexivity.
        * cbn [c_st]. pose proof (tmpdir_cycle st w []) as T. cbv zeta in T.
          destruct T as (_ & _ & _ & _ & _ & _ & _ & F). rewrite F. reflexivity.
    - unfold run_compress. rewrite K. cbn [negb].
      destruct (body_write b flt) as [[x|] o]; cbn; [apply flook_fwrite_other; congruence|reflexivity].
  Qed.

  Lemma roundtrip : forall st name fmtarg target b,
    let fmt := fmt_of_name name in
    known fmt = true -> writer_of fmt <> WNone ->
    (fmtarg = None \/ fmtarg = Some fmt) -> target <> Some name ->
    let r1 := run_compress known enc encp st name fmtarg b CNone in
    let r2 := run_decompress known dec (c_st r1) name target DNone in
    c_out r1 = Done /\ dec fmt (member_d name) (match flook name (files (c_st r1)) with Some x => x | None => [] end) = DOk b
    /\ d_out r2 = Done /\ d_read r2 = Some b
    /\ tdirs (d_st r2) = tdirs st /\ tfiles (d_st r2) = tfiles st
    /\ flook name (files (d_st r2)) = flook name (files (c_st r1))
    /\ (forall t, target = Some t -> flook t (files (d_st r2)) = None).
  Proof.
    intros st name fmtarg target b fmt K W FA NT r1 r2.
    assert (EF : eff_fmt name fmtarg = fmt) by (destruct FA as [->| ->]; reflexivity).
    assert (K' : known (eff_fmt name fmtarg) = true) by (rewrite EF; exact K).
    assert (W' : writer_of (eff_fmt name fmtarg) <> WNone) by (rewrite EF; exact W).
    destruct (compress_stores known enc encp st name fmtarg b K' W') as (O1 & _ & F1).
    fold r1 in O1, F1. rewrite EF in F1.
    assert (M : member_c name fmt = member_d name) by (apply member_agree; apply writer_nonempty; exact W).
    rewrite M in F1.
    assert (L : flook name (files (c_st r1)) = Some (enc fmt (member_d name) b))
      by (rewrite F1; apply flook_fwrite_same).
    destruct (decompress_reads known dec (c_st r1) name target _ b K NT L (codec_ok _ _ _)) as (O2 & R2 & _).
    destruct (compress_no_debris known enc encp st name fmtarg b CNone) as [D1 D2].
    destruct (decompress_no_debris known dec (c_st r1) name target DNone) as [D3 D4].
    fold r1 in D1, D2, D3, D4. fold r2 in D3, D4, O2, R2.
    split; [exact O1|]. split; [rewrite L; apply codec_ok|]. split; [exact O2|]. split; [exact R2|].
    split; [congruence|]. split; [congruence|].
    split; [apply decompress_others_untouched; congruence|].
    intros t ->. apply decompress_copy_gone; [exact K|discriminate].
  Qed.
End RoundTrip.

(* ------------------------------------------------------------------ the toy codec meets the hypothesis *)
Lemma firstn_skipn_app : forall (s r : list Z),
  firstn (List.length s) (s ++ r) = s /\ skipn (List.length s) (s ++ r) = r.
Proof. induction s as [|x s IH]; intros r; cbn; [split; reflexivity|]. destruct (IH r) as [-> ->]. split; reflexivity. Qed.

Lemma take_put : forall s rest, take_str (put_str s rest) = Some (s, rest).
Proof.
  intros s rest. unfold take_str, put_str. rewrite Nat2Z.id.
  replace (List.length s <=? List.length (s ++ rest))%nat with true
    by (symmetry; apply Nat.leb_le; rewrite app_length; lia).
  replace (0 <=? Z.of_nat (List.length s)) with true by (symmetry; apply Z.leb_le; lia).
  cbn [andb]. destruct (firstn_skipn_app s rest) as [-> ->]. reflexivity.
Qed.

Lemma zs_eqb_refl : forall a, zs_eqb a a = true.
Proof. induction a as [|x a IH]; cbn; [reflexivity|]. rewrite Z.eqb_refl, IH. reflexivity. Qed.

Lemma toy_codec_ok : forall f m b, toy_dec f m (toy_enc f m b) = DOk b.
Proof.
  intros f m b. unfold toy_dec, toy_enc.
  change (-3 =? -2) with false. change (-3 =? -3) with true. cbv iota.
  rewrite take_put, take_put. rewrite !zs_eqb_refl. rewrite orb_true_r. reflexivity.
Qed.

(* ------------------------------------------------------------------ the format table *)
Lemma is_adv_writer : forall f, is_adv f = true -> writer_of f <> WNone.
Proof.
  intros f H. unfold is_adv, knownb, advertised in H. cbn [existsb] in H.
  repeat (apply orb_true_iff in H; destruct H as [H|H]); try discriminate;
    apply str_eqb_eq in H; subst f; vm_compute; discriminate.
Qed.
