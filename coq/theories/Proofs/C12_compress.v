(* C12 -- lemmas about the model of compress / decompress. *)
From Coq Require Import ZArith List Bool String Ascii Lia.
From Typhon Require Import Model.C12_compress.
Import ListNotations.
Open Scope Z_scope.
