(* C17 -- the whole complex spectrum of A over a real closed field R: every eigenvalue of A in R[i] (algebraically
   closed, mathcomp real_closed) is real and lies in [0,1); the characteristic polynomial splits over R. *)
Set Warnings "-notation-overridden,-ambiguous-paths".
From mathcomp Require Import all_ssreflect all_algebra.
From mathcomp Require Import complex.
From TyphonGen Require Import oem.
From Typhon Require Import Model.C17_oem Proofs.C17_oem Proofs.C17_limits Proofs.C17_selfadjoint.
Set Implicit Arguments.
Unset Strict Implicit.
Import Order.TTheory GRing.Theory Num.Theory.
Local Open Scope ring_scope.
Local Open Scope complex_scope.

Section ComplexSpectrum.
Variable R : rcfType.
Variables m n : nat.
Variable K : 'M[R]_(m.+1, n.+1).
Variable Sa : 'M[R]_(n.+1).
Variable Sy : 'M[R]_(m.+1).
Hypothesis Sa_spd : spd Sa.
Hypothesis Sy_spd : spd Sy.

Local Notation A := (averaging_kernel_matrix K Sa Sy).

Lemma Re_mul_real (z : R[i]) (x : R) : complex.Re (z * x%:C) = complex.Re z * x.
Proof. by case: z => a b /=; rewrite mulr0 subr0. Qed.
Lemma Im_mul_real (z : R[i]) (x : R) : complex.Im (z * x%:C) = complex.Im z * x.
Proof. by case: z => a b /=; rewrite mulr0 add0r. Qed.

Lemma Re_mulmx p q (w : 'M[R[i]]_(p, q)) (B : 'M[R]_q) :
  map_mx (@complex.Re R) (w *m map_mx (real_complex R) B) = map_mx (@complex.Re R) w *m B.
Proof.
apply/matrixP => i j; rewrite !mxE raddf_sum; apply: eq_bigr => k _.
by rewrite !mxE; exact: Re_mul_real.
Qed.
Lemma Im_mulmx p q (w : 'M[R[i]]_(p, q)) (B : 'M[R]_q) :
  map_mx (@complex.Im R) (w *m map_mx (real_complex R) B) = map_mx (@complex.Im R) w *m B.
Proof.
apply/matrixP => i j; rewrite !mxE raddf_sum; apply: eq_bigr => k _.
by rewrite !mxE; exact: Im_mul_real.
Qed.

Lemma spd_A_complex_spectrum (l : R[i]) :
  eigenvalue (map_mx (real_complex R) A) l -> complex.Im l = 0 /\ 0 <= complex.Re l < 1.
Proof.
case/eigenvalueP => w hw wn0.
set u := map_mx (@complex.Re R) w; set v := map_mx (@complex.Im R) w.
case: l hw => a b hw /=.
have hu : u *m A = a *: u - b *: v.
  rewrite -Re_mulmx hw; apply/matrixP => i j; rewrite !mxE.
  by case: (w i j) => x y /=.
have hv : v *m A = b *: u + a *: v.
  rewrite -Im_mulmx hw; apply/matrixP => i j; rewrite !mxE.
  by case: (w i j) => x y /=; rewrite addrC.
have nz : (u != 0) || (v != 0).
  apply/negP => /negP; rewrite negb_or !negbK => /andP [/eqP u0 /eqP v0].
  move/negP: wn0; apply; apply/eqP/matrixP => i j; rewrite mxE.
  have := congr1 (fun M : 'rV[R]_(n.+1) => M i j) u0; have := congr1 (fun M : 'rV[R]_(n.+1) => M i j) v0.
  by rewrite !mxE; case: (w i j) => x y /= -> ->.
exact: (spd_A_complex_eigenpair_row Sa_spd Sy_spd nz hu hv).
Qed.

(* the same for the roots in R[i] (algebraically closed) of the characteristic polynomial of A *)
Lemma spd_A_char_poly_roots (l : R[i]) :
  root (map_poly (real_complex R) (char_poly A)) l -> complex.Im l = 0 /\ 0 <= complex.Re l < 1.
Proof. by rewrite map_char_poly -eigenvalue_root_char; exact: spd_A_complex_spectrum. Qed.

(* hence the characteristic polynomial of A splits over R itself, with all n+1 roots in [0,1) *)
Lemma spd_A_char_poly_splits :
  exists r : seq R, [/\ char_poly A = \prod_(x <- r) ('X - x%:P), size r = n.+1 & all (fun x => 0 <= x < 1) r].
Proof.
have [r hr] := closed_field_poly_normal (map_poly (real_complex R) (char_poly A)).
have mon : lead_coef (map_poly (real_complex R) (char_poly A)) = 1.
  by apply/monicP; apply: monic_map; apply: char_poly_monic.
rewrite mon scale1r in hr.
have hroot z : z \in r -> complex.Im z = 0 /\ 0 <= complex.Re z < 1.
  move=> zr; apply: spd_A_char_poly_roots; rewrite hr.
  by rewrite root_prod_XsubC.
exists (map (@complex.Re R) r).
have e : char_poly A = \prod_(x <- map (@complex.Re R) r) ('X - x%:P).
  apply: (@map_poly_inj _ _ (ComplexField.real_complex_rmorphism R)).
  rewrite /= hr rmorph_prod big_map /=; apply: eq_big_seq => z zr.
  rewrite rmorphB /= map_polyX map_polyC /=.
  have [i0 _] := hroot z zr; congr ('X - _%:P).
  by case: z i0 {zr} => x y /= ->.
split=> //.
  have := size_char_poly A; rewrite e size_prod_XsubC => /eqP; rewrite eqSS => /eqP.
  by [].
by apply/allP => x /mapP [z zr ->]; have [] := hroot z zr.
Qed.

End ComplexSpectrum.

