(* C05 -- proofs about the result queue transition system (Model/C05_queue.v):
   exactly-once delivery, boundedness, parent progress, and refutation of the no-drain mutant. *)
From Coq Require Import ZArith List Bool Lia Permutation Arith.
Import ListNotations.
From Typhon Require Import Model.C05_queue.

Definition all_items (items : list (list Z)) : list Z := concat items.
Definition all_dead (l : list wst) : Prop := Forall (fun w => alive w = false) l.

(* ------------------------------------------------------------------ *)
(* generic list facts                                                  *)

Lemma nth_error_split_eq : forall (A : Type) (l : list A) k w,
  nth_error l k = Some w -> l = firstn k l ++ w :: skipn (S k) l.
Proof.
  intros A l; induction l as [|a l IH]; intros k w Hn.
  - destruct k; simpl in Hn; discriminate.
  - destruct k as [|k]; simpl in Hn.
    + injection Hn as Hn; subst a. reflexivity.
    + simpl. f_equal. apply IH. exact Hn.
Qed.

Lemma flat_map_nth : forall (f : wst -> list Z) l k w,
  nth_error l k = Some w ->
  flat_map f l = flat_map f (firstn k l) ++ f w ++ flat_map f (skipn (S k) l).
Proof.
  intros f l k w Hn.
  rewrite (nth_error_split_eq _ l k w Hn) at 1.
  rewrite flat_map_app. simpl. reflexivity.
Qed.

Lemma flat_map_upd : forall (f : wst -> list Z) l k x,
  flat_map f (upd k x l) = flat_map f (firstn k l) ++ f x ++ flat_map f (skipn (S k) l).
Proof.
  intros f l k x. unfold upd. rewrite flat_map_app. simpl. reflexivity.
Qed.

Lemma Forall_nth : forall (P : wst -> Prop) l k w,
  Forall P l -> nth_error l k = Some w -> P w.
Proof.
  intros P l k w HF Hn.
  rewrite Forall_forall in HF. apply HF. eapply nth_error_In. exact Hn.
Qed.

Lemma Forall_upd : forall (P : wst -> Prop) l k w x,
  nth_error l k = Some w -> Forall P l -> P x -> Forall P (upd k x l).
Proof.
  intros P l k w x Hn HF Hx.
  rewrite (nth_error_split_eq _ l k w Hn) in HF.
  apply Forall_app in HF. destruct HF as [H1 H2].
  inversion H2 as [|y t Hy Ht]; subst.
  unfold upd. apply Forall_app. split; [exact H1|].
  constructor; assumption.
Qed.

Lemma dead_nth : forall l k w, all_dead l -> nth_error l k = Some w -> alive w = false.
Proof.
  intros l k w Hd Hn. exact (Forall_nth _ l k w Hd Hn).
Qed.

Lemma in_flight_app : forall l1 l2, in_flight (l1 ++ l2) = (in_flight l1 + in_flight l2)%nat.
Proof.
  intros l1 l2; induction l1 as [|a l1 IH]; simpl.
  - reflexivity.
  - rewrite IH. lia.
Qed.

Lemma in_flight_upd : forall l k w x,
  nth_error l k = Some w ->
  (in_flight (upd k x l) + length (infl w) = in_flight l + length (infl x))%nat.
Proof.
  intros l k w x Hn.
  rewrite (nth_error_split_eq _ l k w Hn) at 2.
  unfold upd. rewrite !in_flight_app. simpl. lia.
Qed.

(* generic trace induction *)
Lemma qrun_preserves : forall (P : qst -> Prop) cap,
  (forall s a s', P s -> step cap s a = Some s' -> P s') ->
  forall tr s s', P s -> qrun cap s tr = Some s' -> P s'.
Proof.
  intros P cap Hstep tr; induction tr as [|a tr IH]; intros s s' HP Hrun; simpl in Hrun.
  - injection Hrun as Hrun; subst s'. exact HP.
  - destruct (step cap s a) as [s1|] eqn:Hs; [|discriminate].
    apply (IH s1 s'); [|exact Hrun].
    eapply Hstep; [exact HP|exact Hs].
Qed.

(* ------------------------------------------------------------------ *)
(* (1) exactly once                                                    *)

Definition payload (w : wst) : list Z := infl w ++ pend w.

Definition quiet (w : wst) : Prop := alive w = false -> pend w = [] /\ infl w = [].

Definition Inv (items : list (list Z)) (s : qst) : Prop :=
  Permutation (yielded s ++ vis s ++ flat_map payload (ws s)) (concat items) /\
  Forall quiet (ws s) /\
  (pc s = Drain -> run_flag s = false -> all_dead (ws s)) /\
  (pc s = Head -> run_flag s = false -> all_dead (ws s) /\ vis s = []) /\
  (pc s = Exited -> all_dead (ws s) /\ vis s = []).

Lemma flat_map_payload_init : forall items,
  flat_map payload (map (fun l => {| pend := l; infl := []; alive := true |}) items) = concat items.
Proof.
  intros items; induction items as [|l items IH]; simpl.
  - reflexivity.
  - unfold payload at 1. simpl. rewrite IH. reflexivity.
Qed.

Lemma Inv_init : forall items, Inv items (init items).
Proof.
  intros items. unfold Inv, init; simpl.
  split; [|split; [|split; [|split]]].
  - rewrite flat_map_payload_init. apply Permutation_refl.
  - apply Forall_forall. intros w Hin. apply in_map_iff in Hin.
    destruct Hin as [l [Hl _]]. subst w. unfold quiet; simpl. intros Hc; discriminate.
  - intros Hpc; discriminate.
  - intros _ Hrf. destruct items as [|l items]; simpl in Hrf.
    + split; [constructor|reflexivity].
    + discriminate.
  - intros Hpc; discriminate.
Qed.

Lemma existsb_alive_false : forall l, existsb alive l = false -> all_dead l.
Proof.
  intros l; induction l as [|w l IH]; simpl; intros H.
  - constructor.
  - apply orb_false_iff in H. destruct H as [H1 H2].
    constructor; [exact H1|apply IH; exact H2].
Qed.

Lemma step_Inv : forall cap items s a s',
  Inv items s -> step cap s a = Some s' -> Inv items s'.
Proof.
  intros cap items s a s' (Ha & Hb & Hc & Hd & He) Hstep.
  destruct a as [k|k|k| | | | ]; simpl in Hstep.
  - (* Put *)
    destruct (nth_error (ws s) k) as [w|] eqn:Hn; [|discriminate].
    destruct (pend w) as [|x r] eqn:Hp; [discriminate|].
    destruct (alive w) eqn:Hal; simpl in Hstep; [|discriminate].
    destruct (Nat.ltb (occupied s) cap) eqn:Hlt; [|discriminate].
    injection Hstep as Hs'; subst s'. unfold Inv, set_ws; simpl.
    split; [|split; [|split; [|split]]].
    + rewrite flat_map_upd. rewrite (flat_map_nth payload _ _ _ Hn) in Ha.
      unfold payload at 2; simpl. unfold payload at 2 in Ha. rewrite Hp in Ha.
      rewrite <- (app_assoc (infl w) [x] r). simpl. exact Ha.
    + apply (Forall_upd quiet _ _ _ _ Hn Hb). unfold quiet; simpl. intros Hc'; discriminate.
    + intros Hpc Hrf. pose proof (dead_nth _ _ _ (Hc Hpc Hrf) Hn) as Hx. congruence.
    + intros Hpc Hrf. destruct (Hd Hpc Hrf) as [Hdd _].
      pose proof (dead_nth _ _ _ Hdd Hn) as Hx. congruence.
    + intros Hpc. destruct (He Hpc) as [Hdd _].
      pose proof (dead_nth _ _ _ Hdd Hn) as Hx. congruence.
  - (* Flush *)
    destruct (nth_error (ws s) k) as [w|] eqn:Hn; [|discriminate].
    destruct (infl w) as [|x r] eqn:Hi; [discriminate|].
    injection Hstep as Hs'; subst s'.
    assert (Hal : alive w = true).
    { destruct (alive w) eqn:Hal; [reflexivity|].
      destruct (Forall_nth quiet _ _ _ Hb Hn Hal) as [_ Hi']. congruence. }
    unfold Inv; simpl.
    split; [|split; [|split; [|split]]].
    + rewrite flat_map_upd. rewrite (flat_map_nth payload _ _ _ Hn) in Ha.
      unfold payload at 2; simpl. unfold payload at 2 in Ha. rewrite Hi in Ha.
      eapply Permutation_trans; [|exact Ha].
      apply Permutation_app_head. rewrite <- app_assoc. apply Permutation_app_head.
      simpl. apply Permutation_middle.
    + apply (Forall_upd quiet _ _ _ _ Hn Hb). unfold quiet; simpl. intros Hc'; congruence.
    + intros Hpc Hrf. pose proof (dead_nth _ _ _ (Hc Hpc Hrf) Hn) as Hx. congruence.
    + intros Hpc Hrf. destruct (Hd Hpc Hrf) as [Hdd _].
      pose proof (dead_nth _ _ _ Hdd Hn) as Hx. congruence.
    + intros Hpc. destruct (He Hpc) as [Hdd _].
      pose proof (dead_nth _ _ _ Hdd Hn) as Hx. congruence.
  - (* Die *)
    destruct (nth_error (ws s) k) as [w|] eqn:Hn; [|discriminate].
    destruct (pend w) as [|x r] eqn:Hp; [|discriminate].
    destruct (infl w) as [|y t] eqn:Hi; [|discriminate].
    destruct (alive w) eqn:Hal; [|discriminate].
    injection Hstep as Hs'; subst s'. unfold Inv, set_ws; simpl.
    split; [|split; [|split; [|split]]].
    + rewrite flat_map_upd. rewrite (flat_map_nth payload _ _ _ Hn) in Ha.
      unfold payload at 2; simpl. unfold payload at 2 in Ha. rewrite Hp, Hi in Ha.
      simpl in Ha. exact Ha.
    + apply (Forall_upd quiet _ _ _ _ Hn Hb). unfold quiet; simpl. intros _; split; reflexivity.
    + intros Hpc Hrf. pose proof (dead_nth _ _ _ (Hc Hpc Hrf) Hn) as Hx. congruence.
    + intros Hpc Hrf. destruct (Hd Hpc Hrf) as [Hdd _].
      pose proof (dead_nth _ _ _ Hdd Hn) as Hx. congruence.
    + intros Hpc. destruct (He Hpc) as [Hdd _].
      pose proof (dead_nth _ _ _ Hdd Hn) as Hx. congruence.
  - (* Snapshot *)
    destruct (pc s) eqn:Hpc; try discriminate.
    destruct (run_flag s) eqn:Hrf; [|discriminate].
    injection Hstep as Hs'; subst s'. unfold Inv; simpl.
    split; [exact Ha|]. split; [exact Hb|].
    split; [|split].
    + intros _ Hex. apply existsb_alive_false. exact Hex.
    + intros Hx; discriminate.
    + intros Hx; discriminate.
  - (* Get *)
    destruct (pc s) eqn:Hpc; try discriminate.
    destruct (vis s) as [|x r] eqn:Hv; [discriminate|].
    injection Hstep as Hs'; subst s'. unfold Inv; simpl.
    split; [|split; [exact Hb|split; [|split]]].
    + rewrite <- app_assoc. simpl. simpl in Ha. exact Ha.
    + intros _ Hrf. apply Hc; [reflexivity|exact Hrf].
    + intros Hx; discriminate.
    + intros Hx; discriminate.
  - (* EmptyTrue *)
    destruct (pc s) eqn:Hpc; try discriminate.
    destruct (vis s) as [|x r] eqn:Hv; [|discriminate].
    injection Hstep as Hs'; subst s'. unfold Inv; simpl.
    split; [exact Ha|]. split; [exact Hb|].
    split; [|split].
    + intros Hx; discriminate.
    + intros _ Hrf. split; [apply Hc; [reflexivity|exact Hrf]|reflexivity].
    + intros Hx; discriminate.
  - (* Leave *)
    destruct (pc s) eqn:Hpc; try discriminate.
    destruct (run_flag s) eqn:Hrf; [discriminate|].
    injection Hstep as Hs'; subst s'. unfold Inv; simpl.
    split; [exact Ha|]. split; [exact Hb|].
    split; [|split].
    + intros Hx; discriminate.
    + intros Hx; discriminate.
    + intros _. apply Hd; reflexivity.
Qed.

Lemma qrun_Inv : forall cap items tr s,
  qrun cap (init items) tr = Some s -> Inv items s.
Proof.
  intros cap items tr s Hrun.
  apply (qrun_preserves (Inv items) cap (fun s0 a s1 => step_Inv cap items s0 a s1)
                        tr (init items) s (Inv_init items) Hrun).
Qed.

Lemma flat_map_payload_dead : forall l,
  Forall quiet l -> all_dead l -> flat_map payload l = [].
Proof.
  intros l; induction l as [|w l IH]; intros Hq Hd; simpl.
  - reflexivity.
  - inversion Hq as [|w0 l0 Hqw Hql]; subst. inversion Hd as [|w1 l1 Hdw Hdl]; subst.
    destruct (Hqw Hdw) as [Hp Hi]. unfold payload at 1. rewrite Hp, Hi. simpl.
    apply IH; assumption.
Qed.

Theorem queue_exactly_once_lemma : forall cap items tr s,
  qrun cap (init items) tr = Some s -> pc s = Exited ->
  Permutation (yielded s) (concat items) /\ vis s = [] /\
  Forall (fun w => alive w = false /\ pend w = [] /\ infl w = []) (ws s).
Proof.
  intros cap items tr s Hrun Hpc.
  destruct (qrun_Inv cap items tr s Hrun) as (Ha & Hb & _ & _ & He).
  destruct (He Hpc) as [Hdead Hvis].
  split; [|split].
  - rewrite Hvis in Ha. rewrite (flat_map_payload_dead _ Hb Hdead) in Ha.
    simpl in Ha. rewrite app_nil_r in Ha. exact Ha.
  - exact Hvis.
  - unfold all_dead in Hdead. rewrite Forall_forall in *.
    intros w Hin. pose proof (Hdead w Hin) as Hal. destruct (Hb w Hin Hal) as [Hp Hi].
    split; [exact Hal|split; [exact Hp|exact Hi]].
Qed.

(* ------------------------------------------------------------------ *)
(* (2) bounded                                                         *)

Lemma step_bounded : forall cap s a s',
  (occupied s <= cap)%nat -> step cap s a = Some s' -> (occupied s' <= cap)%nat.
Proof.
  intros cap s a s' Hocc Hstep.
  destruct a as [k|k|k| | | | ]; simpl in Hstep.
  - destruct (nth_error (ws s) k) as [w|] eqn:Hn; [|discriminate].
    destruct (pend w) as [|x r] eqn:Hp; [discriminate|].
    destruct (alive w) eqn:Hal; simpl in Hstep; [|discriminate].
    destruct (Nat.ltb (occupied s) cap) eqn:Hlt; [|discriminate].
    injection Hstep as Hs'; subst s'. apply Nat.ltb_lt in Hlt.
    unfold occupied, set_ws in *; simpl.
    pose proof (in_flight_upd (ws s) k w
                  {| pend := r; infl := infl w ++ [x]; alive := true |} Hn) as Hf.
    simpl in Hf. rewrite app_length in Hf. simpl in Hf. lia.
  - destruct (nth_error (ws s) k) as [w|] eqn:Hn; [|discriminate].
    destruct (infl w) as [|x r] eqn:Hi; [discriminate|].
    injection Hstep as Hs'; subst s'.
    unfold occupied in *; simpl.
    pose proof (in_flight_upd (ws s) k w
                  {| pend := pend w; infl := r; alive := alive w |} Hn) as Hf.
    simpl in Hf. rewrite Hi in Hf. simpl in Hf. rewrite app_length. simpl. lia.
  - destruct (nth_error (ws s) k) as [w|] eqn:Hn; [|discriminate].
    destruct (pend w) as [|x r] eqn:Hp; [|discriminate].
    destruct (infl w) as [|y t] eqn:Hi; [|discriminate].
    destruct (alive w) eqn:Hal; [|discriminate].
    injection Hstep as Hs'; subst s'.
    unfold occupied, set_ws in *; simpl.
    pose proof (in_flight_upd (ws s) k w
                  {| pend := []; infl := []; alive := false |} Hn) as Hf.
    simpl in Hf. rewrite Hi in Hf. simpl in Hf. lia.
  - destruct (pc s) eqn:Hpc; try discriminate.
    destruct (run_flag s) eqn:Hrf; [|discriminate].
    injection Hstep as Hs'; subst s'. unfold occupied in *; simpl. exact Hocc.
  - destruct (pc s) eqn:Hpc; try discriminate.
    destruct (vis s) as [|x r] eqn:Hv; [discriminate|].
    injection Hstep as Hs'; subst s'. unfold occupied in *; simpl. rewrite Hv in Hocc.
    simpl in Hocc. lia.
  - destruct (pc s) eqn:Hpc; try discriminate.
    destruct (vis s) as [|x r] eqn:Hv; [|discriminate].
    injection Hstep as Hs'; subst s'. unfold occupied in *; simpl. rewrite Hv in Hocc.
    simpl in Hocc. exact Hocc.
  - destruct (pc s) eqn:Hpc; try discriminate.
    destruct (run_flag s) eqn:Hrf; [discriminate|].
    injection Hstep as Hs'; subst s'. unfold occupied in *; simpl. exact Hocc.
Qed.

Lemma in_flight_init : forall items,
  in_flight (map (fun l => {| pend := l; infl := []; alive := true |}) items) = 0%nat.
Proof.
  intros items; induction items as [|l items IH]; simpl.
  - reflexivity.
  - exact IH.
Qed.

Theorem queue_bounded_lemma : forall cap items tr s,
  qrun cap (init items) tr = Some s -> (occupied s <= cap)%nat.
Proof.
  intros cap items tr s Hrun.
  apply (qrun_preserves (fun s0 => (occupied s0 <= cap)%nat) cap (step_bounded cap)
                        tr (init items) s); [|exact Hrun].
  unfold occupied, init; simpl. rewrite in_flight_init. simpl. lia.
Qed.

(* ------------------------------------------------------------------ *)
(* (3) progress of the parent                                          *)

Lemma parent_enabled : forall cap s, pc s <> Exited -> exists a s', step cap s a = Some s'.
Proof.
  intros cap s Hpc.
  destruct (pc s) eqn:Hp.
  - destruct (run_flag s) eqn:Hrf.
    + exists Snapshot. eexists. simpl. rewrite Hp, Hrf. reflexivity.
    + exists Leave. eexists. simpl. rewrite Hp, Hrf. reflexivity.
  - destruct (vis s) as [|x r] eqn:Hv.
    + exists EmptyTrue. eexists. simpl. rewrite Hp, Hv. reflexivity.
    + exists Get. eexists. simpl. rewrite Hp, Hv. reflexivity.
  - exfalso. apply Hpc. reflexivity.
Qed.

Theorem queue_progress_lemma : forall cap items tr s, (0 < cap)%nat ->
  qrun cap (init items) tr = Some s -> pc s <> Exited -> exists a s', step cap s a = Some s'.
Proof.
  intros cap items tr s _ _ Hpc. apply parent_enabled. exact Hpc.
Qed.

(* ------------------------------------------------------------------ *)
(* (4) the mutant without the final drain loses an item                *)

Theorem nodrain_refuted : exists cap items tr s,
  qrun_nodrain cap (init items) tr = Some s /\ pc s = Exited /\
  ~ Permutation (yielded s) (concat items).
Proof.
  exists 1%nat, [[7%Z]], [Snapshot; EmptyTrue; Put 0; Flush 0; Die 0; Snapshot; Leave].
  eexists. split; [vm_compute; reflexivity|].
  split; [reflexivity|].
  simpl. intros H. apply Permutation_nil in H. discriminate H.
Qed.

(* ------------------------------------------------------------------ *)
(* closed example (non-vacuity)                                        *)

Example queue_example : exists tr s,
  qrun 2 (init [[1;2];[3]]%Z) tr = Some s /\ pc s = Exited /\ yielded s = [3;1;2]%Z.
Proof.
  exists [Snapshot; EmptyTrue; Put 1; Put 0; Flush 1; Flush 0; Snapshot; Get; Get;
          Put 0; Flush 0; Die 1; Die 0; Get; EmptyTrue; Snapshot; EmptyTrue; Leave].
  eexists. split; [vm_compute; reflexivity|].
  split; reflexivity.
Qed.
