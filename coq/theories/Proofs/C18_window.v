(* C18 -- soundness of the chi^2 pre-selection window of BMCI.__find_hits:
   Cauchy-Schwarz for the symmetric positive semi-definite form of S along an eigenvector, and the
   characterisation of searchsorted on a sorted list. *)
From Coq Require Import ZArith List Bool Reals Lra Lia Sorted Permutation.
From Typhon Require Import Model.C18_bmci.
Import ListNotations.
Open Scope R_scope.

(* ------------------------------------------------------------------ finite sums *)
Lemma dot_ext m a a' b b' :
  (forall i, (i < m)%nat -> a i = a' i) -> (forall i, (i < m)%nat -> b i = b' i) -> dot m a b = dot m a' b'.
Proof.
  induction m as [|k IH]; intros Ha Hb; cbn [dot]; [reflexivity|].
  rewrite IH; [| intros i Hi; apply Ha; lia | intros i Hi; apply Hb; lia].
  rewrite Ha, Hb by lia. reflexivity.
Qed.
Lemma dot_comm m a b : dot m a b = dot m b a.
Proof. induction m as [|k IH]; cbn [dot]; [reflexivity|]. rewrite IH. ring. Qed.
Lemma dot_add_l m a b c : dot m (vadd a b) c = dot m a c + dot m b c.
Proof. induction m as [|k IH]; cbn [dot]; [ring|]. rewrite IH. unfold vadd. ring. Qed.
Lemma dot_scale_l m t a c : dot m (vscale t a) c = t * dot m a c.
Proof. induction m as [|k IH]; cbn [dot]; [ring|]. rewrite IH. unfold vscale. ring. Qed.
Lemma dot_add_r m a b c : dot m c (vadd a b) = dot m c a + dot m c b.
Proof. rewrite dot_comm, dot_add_l, (dot_comm m a), (dot_comm m b). reflexivity. Qed.
Lemma dot_scale_r m t a c : dot m c (vscale t a) = t * dot m c a.
Proof. rewrite dot_comm, dot_scale_l, (dot_comm m a). reflexivity. Qed.
Lemma dot_sub_l m a b c : dot m (vsub a b) c = dot m a c - dot m b c.
Proof. induction m as [|k IH]; cbn [dot]; [ring|]. rewrite IH. unfold vsub. ring. Qed.
Lemma dot_zero_l m b : dot m (fun _ => 0) b = 0.
Proof. induction m as [|k IH]; cbn [dot]; [reflexivity|]. rewrite IH. ring. Qed.

(* sum_i a_i (sum_j M_ij b_j) = sum_j (sum_i a_i M_ij) b_j, for an n x m array *)
Lemma dot_swap n m (a b : vec) (M : mat) :
  dot n a (fun i => dot m (M i) b) = dot m (fun j => dot n a (fun i => M i j)) b.
Proof.
  induction n as [|k IH]; cbn [dot].
  - symmetry. apply dot_zero_l.
  - rewrite IH.
    change (fun j => dot k a (fun i => M i j) + a k * M k j)
      with (vadd (fun j => dot k a (fun i => M i j)) (vscale (a k) (M k))).
    rewrite dot_add_l, dot_scale_l. reflexivity.
Qed.
Lemma dot_mulmv_mulvm m a M b : dot m a (mulmv m M b) = dot m (mulvm m a M) b.
Proof. unfold mulmv, mulvm. apply dot_swap. Qed.

(* the quadratic form the code evaluates is d^T Sinv d *)
Lemma chi2_form m Sinv d : chi2 m Sinv d = dot m d (mulmv m Sinv d).
Proof. unfold chi2. rewrite dot_comm. symmetry. apply dot_mulmv_mulvm. Qed.

Lemma mulmv_add m M a b i : mulmv m M (vadd a b) i = mulmv m M a i + mulmv m M b i.
Proof. unfold mulmv. apply dot_add_r. Qed.
Lemma mulmv_scale m M t a i : mulmv m M (vscale t a) i = t * mulmv m M a i.
Proof. unfold mulmv. apply dot_scale_r. Qed.

(* ------------------------------------------------------------------ Cauchy-Schwarz *)
Lemma discriminant (a b c : R) :
  0 <= c -> (forall t, 0 <= a + 2 * t * b + t * t * c) -> b * b <= a * c.
Proof.
  intros Hc H. destruct (Rle_lt_or_eq_dec 0 c Hc) as [Hpos|Hz].
  - specialize (H (- b / c)).
    assert (E : a + 2 * (- b / c) * b + - b / c * (- b / c) * c = (a * c - b * b) / c) by (field; lra).
    rewrite E in H.
    assert (H1 : 0 <= (a * c - b * b) / c * c) by (apply Rmult_le_pos; lra).
    replace ((a * c - b * b) / c * c) with (a * c - b * b) in H1 by (field; lra). lra.
  - subst c. destruct (Req_dec b 0) as [Hb|Hb]; [subst b; lra|].
    specialize (H (- (a + 1) / (2 * b))).
    replace (a + 2 * (- (a + 1) / (2 * b)) * b + - (a + 1) / (2 * b) * (- (a + 1) / (2 * b)) * 0)
      with (-1) in H by (field; exact Hb). lra.
Qed.

Section Form.
  Variable m : nat.
  Variable S : mat.
  Hypothesis Hsym : forall i j, (i < m)%nat -> (j < m)%nat -> S i j = S j i.
  Hypothesis Hpsd : forall u, 0 <= dot m (mulmv m S u) u.

  Definition Q (p q : vec) : R := dot m (mulmv m S p) q.

  Lemma Q_sym p q : Q p q = Q q p.
  Proof.
    unfold Q. rewrite (dot_comm m (mulmv m S p) q), dot_mulmv_mulvm.
    apply dot_ext; [|reflexivity]. intros j Hj. unfold mulvm, mulmv.
    rewrite dot_comm. apply dot_ext; [|reflexivity]. intros i Hi. apply Hsym; assumption.
  Qed.
  Lemma Q_add_l a b q : Q (vadd a b) q = Q a q + Q b q.
  Proof.
    unfold Q. rewrite <- dot_add_l. apply dot_ext; [|reflexivity]. intros i _. apply mulmv_add.
  Qed.
  Lemma Q_scale_l t a q : Q (vscale t a) q = t * Q a q.
  Proof.
    unfold Q. rewrite <- dot_scale_l. apply dot_ext; [|reflexivity]. intros i _. apply mulmv_scale.
  Qed.
  Lemma Q_expand p q t : Q (vadd p (vscale t q)) (vadd p (vscale t q)) = Q p p + 2 * t * Q p q + t * t * Q q q.
  Proof.
    rewrite Q_add_l, Q_scale_l.
    rewrite (Q_sym p (vadd p (vscale t q))), (Q_sym q (vadd p (vscale t q))).
    rewrite !Q_add_l, !Q_scale_l. rewrite (Q_sym q p). ring.
  Qed.
  Lemma cauchy_schwarz p q : Q p q * Q p q <= Q p p * Q q q.
  Proof.
    apply discriminant; [apply Hpsd|]. intros t. rewrite <- Q_expand. apply Hpsd.
  Qed.

  (* the observation covariance, its inverse as delivered by numpy.linalg.inv, and one eigenpair as
     delivered by numpy.linalg.eig (both trusted through these hypotheses) *)
  Variable Sinv : mat.
  Hypothesis Hinv : forall d i, (i < m)%nat -> mulmv m S (mulmv m Sinv d) i = d i.
  Variables (v : vec) (lam : R).
  Hypothesis Heig : forall i, (i < m)%nat -> mulmv m S v i = lam * v i.
  Hypothesis Hunit : dot m v v = 1.

  Lemma window_sound_form d : dot m d v * dot m d v <= lam * chi2 m Sinv d.
  Proof.
    pose proof (cauchy_schwarz (mulmv m Sinv d) v) as H.
    assert (E1 : Q (mulmv m Sinv d) v = dot m d v).
    { unfold Q. apply dot_ext; [|reflexivity]. intros i Hi. apply Hinv; exact Hi. }
    assert (E2 : Q (mulmv m Sinv d) (mulmv m Sinv d) = chi2 m Sinv d).
    { unfold Q. rewrite chi2_form. apply dot_ext; [|reflexivity]. intros i Hi. apply Hinv; exact Hi. }
    assert (E3 : Q v v = lam).
    { unfold Q. rewrite (dot_ext m (mulmv m S v) (vscale lam v) v v);
        [| intros i Hi; apply Heig; exact Hi | reflexivity].
      rewrite dot_scale_l, Hunit. ring. }
    rewrite E1, E2, E3 in H. lra.
  Qed.

  Lemma chi2_nonneg d : 0 <= chi2 m Sinv d.
  Proof.
    assert (E2 : Q (mulmv m Sinv d) (mulmv m Sinv d) = chi2 m Sinv d).
    { unfold Q. rewrite chi2_form. apply dot_ext; [|reflexivity]. intros i Hi. apply Hinv; exact Hi. }
    rewrite <- E2. apply Hpsd.
  Qed.
End Form.

(* ------------------------------------------------------------------ searchsorted on a sorted list *)
Section Search.
  Context {A : Type}.
  Variable ltb : A -> A -> bool.
  (* "not less than" is transitive *)
  Hypothesis ge_trans : forall a b c, ltb a b = false -> ltb b c = false -> ltb a c = false.

  Definition ascending (l : list A) : Prop := StronglySorted (fun a b => ltb b a = false) l.

  Lemma searchsorted_le_length ps s : (searchsorted ltb ps s <= length ps)%nat.
  Proof. induction ps as [|p r IH]; cbn [searchsorted length]; [lia|]. destruct (ltb p s); lia. Qed.

  (* every entry before the index is < s (no sortedness needed) *)
  Lemma searchsorted_before ps s d k : (k < searchsorted ltb ps s)%nat -> ltb (nth k ps d) s = true.
  Proof.
    revert k. induction ps as [|p r IH]; intros k Hk; cbn [searchsorted] in Hk; [lia|].
    destruct (ltb p s) eqn:E; [|lia]. destruct k as [|k]; cbn [nth]; [exact E|]. apply IH. lia.
  Qed.

  Lemma all_ge ps s : ascending ps -> forall p, In p ps -> forall p0, ltb p0 s = false -> ltb p p0 = false -> ltb p s = false.
  Proof. intros _ p _ p0 H1 H2. eapply ge_trans; eassumption. Qed.

  (* every entry from the index on is >= s *)
  Lemma searchsorted_after ps s d k : ascending ps ->
    (searchsorted ltb ps s <= k < length ps)%nat -> ltb (nth k ps d) s = false.
  Proof.
    intros Hs. revert k. induction Hs as [|p r Hr IH Hall]; intros k Hk; cbn [searchsorted length] in Hk; [lia|].
    destruct (ltb p s) eqn:E.
    - destruct k as [|k]; [lia|]. cbn [nth]. apply IH. lia.
    - destruct k as [|k]; cbn [nth]; [exact E|].
      assert (Hin : In (nth k r d) r) by (apply nth_In; lia).
      rewrite Forall_forall in Hall. specialize (Hall _ Hin).
      eapply ge_trans; eassumption.
  Qed.
End Search.

Lemma Rltb_true a b : Rltb a b = true <-> a < b.
Proof. unfold Rltb. destruct (Rlt_dec a b); split; intros; try lra; try discriminate; reflexivity. Qed.
Lemma Rltb_false a b : Rltb a b = false <-> b <= a.
Proof. unfold Rltb. destruct (Rlt_dec a b); split; intros; try lra; try discriminate; reflexivity. Qed.
Lemma Rltb_ge_trans a b c : Rltb a b = false -> Rltb b c = false -> Rltb a c = false.
Proof. rewrite !Rltb_false. lra. Qed.

(* ------------------------------------------------------------------ the window leaves out only large chi^2 *)
Section Window.
  Variable m : nat.
  Variables S Sinv : mat.
  Hypothesis Hsym : forall i j, (i < m)%nat -> (j < m)%nat -> S i j = S j i.
  Hypothesis Hpsd : forall u, 0 <= dot m (mulmv m S u) u.
  Hypothesis Hinv : forall d i, (i < m)%nat -> mulmv m S (mulmv m Sinv d) i = d i.
  Variables (v : vec) (lam : R).
  Hypothesis Heig : forall i, (i < m)%nat -> mulmv m S v i = lam * v i.
  Hypothesis Hunit : dot m v v = 1.
  Hypothesis Hlam : 0 < lam.

  Lemma proj_diff ymean y yobs : proj m v ymean y - dot m v (vsub yobs ymean) = dot m (vsub y yobs) v.
  Proof.
    unfold proj. rewrite (dot_comm m v). rewrite <- dot_sub_l.
    apply dot_ext; [|reflexivity]. intros i _. unfold vsub. ring.
  Qed.

  Lemma half_width_sq x2 : 0 <= x2 -> half_width (1 / lam) x2 * half_width (1 / lam) x2 = 2 * x2 * lam.
  Proof.
    intros Hx. unfold half_width. rewrite sqrt_sqrt.
    - field. lra.
    - replace (2 * x2 / (1 / lam)) with (2 * x2 * lam) by (field; lra).
      apply Rmult_le_pos; lra.
  Qed.
  Lemma half_width_nonneg x2 : 0 <= half_width (1 / lam) x2.
  Proof. apply sqrt_pos. Qed.

  (* any y whose projection lies outside [y_proj - h, y_proj + h) has chi^2 >= 2 x2_max *)
  Lemma outside_window_chi2 ymean y yobs x2 :
    0 <= x2 ->
    let yp := dot m v (vsub yobs ymean) in
    let h := half_width (1 / lam) x2 in
    proj m v ymean y < yp - h \/ yp + h <= proj m v ymean y ->
    2 * x2 <= chi2 m Sinv (vsub y yobs).
  Proof.
    intros Hx yp h Hout.
    pose proof (window_sound_form m S Hsym Hpsd Sinv Hinv v lam Heig Hunit (vsub y yobs)) as Hws.
    pose proof (proj_diff ymean y yobs) as Hd. fold yp in Hd.
    pose proof (half_width_sq x2 Hx) as Hsq. fold h in Hsq.
    pose proof (half_width_nonneg x2) as Hh. fold h in Hh.
    set (t := dot m (vsub y yobs) v) in *.
    assert (Hge : h * h <= t * t).
    { destruct Hout as [Hl|Hu].
      - assert (Ht : t <= - h) by lra. nra.
      - assert (Ht : h <= t) by lra. nra. }
    assert (H2 : 2 * x2 * lam <= lam * chi2 m Sinv (vsub y yobs)) by lra.
    apply Rmult_le_reg_l with lam; [exact Hlam|]. lra.
  Qed.

  Definition asc_proj (ymean : vec) (db : list entry) : Prop :=
    ascending Rltb (projs m v ymean db).

  (* entries of the sorted database that __find_hits leaves out have chi^2 >= 2 x2_max *)
  Lemma cut_entries_chi2 ymean (db : list entry) yobs x2 il iu k e0 :
    0 <= x2 -> asc_proj ymean db ->
    find_hits m v ymean (1 / lam) db yobs x2 = (il, iu) ->
    (k < length db)%nat -> (k < il \/ iu <= k)%nat ->
    2 * x2 <= chi2 m Sinv (vsub (fst (nth k db e0)) yobs).
  Proof.
    intros Hx Hasc Hfh Hk Hcut.
    unfold find_hits, window in Hfh. injection Hfh as Hil Hiu.
    apply outside_window_chi2 with (ymean := ymean); [exact Hx|].
    cbv zeta.
    assert (Hnth : forall d, nth k (projs m v ymean db) d = proj m v ymean (fst (nth k db e0))).
    { intros d. unfold projs. rewrite nth_indep with (d' := proj m v ymean (fst e0)) by (rewrite map_length; exact Hk).
      apply (map_nth (fun e => proj m v ymean (fst e))). }
    destruct Hcut as [Hl|Hu].
    - left. subst il.
      pose proof (searchsorted_before Rltb _ _ 0 k Hl) as H. rewrite Hnth in H.
      apply Rltb_true in H. exact H.
    - right. subst iu.
      assert (Hr : (searchsorted Rltb (projs m v ymean db)
                     (dot m v (vsub yobs ymean) + half_width (1 / lam) x2)%R <= k < length (projs m v ymean db))%nat).
      { split; [exact Hu|]. unfold projs. rewrite map_length. exact Hk. }
      pose proof (searchsorted_after Rltb Rltb_ge_trans _ _ 0 k Hasc Hr) as H. rewrite Hnth in H.
      apply Rltb_false in H. exact H.
  Qed.
End Window.
