(* C10 -- lemmas about the explicit bundle model (Model/C10_bundle.v). *)
From Coq Require Import ZArith List Bool Arith Lia Sorted.
From Typhon Require Import Model.C10_pool Proofs.C10_pool Model.C10_bundle.
Import ListNotations.


Definition member_res (m : mrd) : res := match m with MOk c => Ok c | MFail e => Err e end.

Lemma member_results_eq ms : member_results ms = map member_res ms.
Proof. unfold member_results. apply map_ext. intros [c|e]; reflexivity. Qed.

Lemma collect_model_obs rs : collect_model rs = collect_obs (spec rs).
Proof. unfold collect_model, collect_obs. destruct (spec rs) as (vals, e). reflexivity. Qed.

Lemma first_fail_none ms : first_fail ms = None <-> (forall e, ~ In (MFail e) ms).
Proof.
  induction ms as [|m t IH]; cbn [first_fail].
  - split; [intros _ e []|reflexivity].
  - destruct m as [c|e].
    + rewrite IH. split.
      * intros H e [X|X]; [discriminate|exact (H e X)].
      * intros H e X. apply (H e). right. exact X.
    + split; [discriminate|]. intros H. exfalso. apply (H e). left. reflexivity.
Qed.

Lemma first_fail_some ms e : first_fail ms = Some e <->
  exists pre post, ms = pre ++ MFail e :: post /\ (forall e', ~ In (MFail e') pre).
Proof.
  induction ms as [|m t IH]; cbn [first_fail].
  - split; [discriminate|]. intros (pre & post & H & _). destruct pre; discriminate.
  - destruct m as [c|e0].
    + rewrite IH. split.
      * intros (pre & post & -> & Hp). exists (MOk c :: pre), post. split; [reflexivity|].
        intros e' [X|X]; [discriminate|exact (Hp e' X)].
      * intros (pre & post & H & Hp). destruct pre as [|p pre]; cbn [app] in H; [discriminate|].
        injection H as <- ->. exists pre, post. split; [reflexivity|].
        intros e' X. apply (Hp e'). right. exact X.
    + split.
      * intros H. injection H as ->. exists [], t. split; [reflexivity|intros e' []].
      * intros (pre & post & H & Hp). destruct pre as [|p pre]; cbn [app] in H.
        -- injection H as -> _. reflexivity.
        -- injection H as <- _. exfalso. apply (Hp e0). left. reflexivity.
Qed.

Lemma contents_from_snd ms : forall a, map snd (contents_from a (map member_res ms)) = contents ms.
Proof.
  induction ms as [|m t IH]; intros a; [reflexivity|].
  destruct m as [[c|]|e]; cbn [map member_res contents_from contents snd]; rewrite ?IH; reflexivity.
Qed.

Lemma contents_from_nil ms a : contents_from a (map member_res ms) = [] <-> contents ms = [].
Proof.
  rewrite <- (contents_from_snd ms a). destruct (contents_from a (map member_res ms)); cbn [map]; split; intro H;
    try reflexivity; discriminate.
Qed.

Lemma member_res_noerr ms : (forall e, ~ In (MFail e) ms) ->
  forall r, In r (map member_res ms) -> is_err r = false.
Proof.
  intros H r Hr. apply in_map_iff in Hr. destruct Hr as (m & <- & Hm).
  destruct m as [c|e]; [reflexivity|]. exfalso. exact (H e Hm).
Qed.

(* what the nested collect hands to the try-block, in closed form *)
Lemma bundle_content_spec ms :
  bundle_content ms =
  match first_fail ms with
  | Some e => inr e
  | None => match contents ms with [] => inr e_unzip | l => inl l end
  end.
Proof.
  unfold bundle_content, bundle_collect. rewrite member_results_eq.
  destruct (first_fail ms) as [e|] eqn:Hf.
  - apply first_fail_some in Hf. destruct Hf as (pre & post & -> & Hp).
    rewrite map_app. cbn [map member_res]. rewrite collect_err; [reflexivity|].
    apply member_res_noerr. exact Hp.
  - assert (Hn := proj1 (first_fail_none ms) Hf).
    rewrite collect_noerr by (apply member_res_noerr; exact Hn).
    rewrite <- (contents_from_snd ms 0).
    destruct (contents_from 0 (map member_res ms)); reflexivity.
Qed.

Lemma first_fail_unreadable ms : (exists e, first_fail ms = Some e) <-> unreadable ms.
Proof.
  unfold unreadable. split.
  - intros (e & H). apply first_fail_some in H. destruct H as (pre & post & -> & _).
    exists e. apply in_or_app. right. left. reflexivity.
  - intros (e & H). destruct (first_fail ms) as [e'|] eqn:Hf; [exists e'; reflexivity|].
    exfalso. exact (proj1 (first_fail_none ms) Hf e H).
Qed.

Lemma bundle_task_result_lemma c bt : on_content c = true ->
  let ms := b_members bt in
  (btask_result c bt = ReadWarn <-> (e2w c = true /\ (unreadable ms \/ contents ms = [])))
  /\ (contents ms <> [] -> (btask_result c bt = ReadWarn <-> (e2w c = true /\ unreadable ms)))
  /\ (~ unreadable ms -> contents ms <> [] -> btask_result c bt = func_result (b_func bt (contents ms)))
  /\ (e2w c = false -> forall pre e post, ms = pre ++ MFail e :: post -> ~ unreadable pre ->
        btask_result c bt = Err e).
Proof.
  intros Hoc ms.
  assert (Hgen : btask_result c bt = ReadWarn <-> (e2w c = true /\ (unreadable ms \/ contents ms = []))).
  { unfold btask_result. rewrite Hoc, bundle_content_spec. fold ms.
    destruct (first_fail ms) as [e|] eqn:Hf.
    - assert (Hu : unreadable ms) by (apply first_fail_unreadable; exists e; exact Hf).
      destruct (e2w c); split; try discriminate.
      + intros _. split; [reflexivity|left; exact Hu].
      + reflexivity.
      + intros (X & _). discriminate.
    - assert (Hu : ~ unreadable ms).
      { intros Hu. apply first_fail_unreadable in Hu. destruct Hu as (e & He). rewrite Hf in He. discriminate. }
      destruct (contents ms) as [|x l] eqn:Hc.
      + destruct (e2w c); split; try discriminate.
        * intros _. split; [reflexivity|right; reflexivity].
        * reflexivity.
        * intros (X & _). discriminate.
      + split.
        * unfold func_result. destruct (b_func bt (x :: l)); discriminate.
        * intros (_ & [X|X]); [exfalso; exact (Hu X)|discriminate]. }
  split; [exact Hgen|]. split; [|split].
  - intros Hne. rewrite Hgen. split.
    + intros (H1 & [H2|H2]); [split; assumption|exfalso; exact (Hne H2)].
    + intros (H1 & H2). split; [exact H1|left; exact H2].
  - intros Hu Hne. unfold btask_result. rewrite Hoc, bundle_content_spec. fold ms.
    destruct (first_fail ms) as [e|] eqn:Hf.
    + exfalso. apply Hu. apply first_fail_unreadable. exists e. exact Hf.
    + destruct (contents ms); [exfalso; apply Hne; reflexivity|reflexivity].
  - intros Hew pre e post Hms Hpre. unfold btask_result. rewrite Hoc, bundle_content_spec. fold ms.
    assert (Hf : first_fail ms = Some e).
    { apply first_fail_some. exists pre, post. split; [exact Hms|].
      intros e' X. apply Hpre. exists e'. exact X. }
    rewrite Hf, Hew. reflexivity.
Qed.

(* the explicit bundle model refines the abstract task of Model/C10_pool.v *)
Lemma bundle_read_rd_of ms tail : bundle_read (map rd_of ms ++ tail) =
  match first_fail ms with Some e => RdFail e | None => bundle_read tail end.
Proof.
  induction ms as [|m t IH]; [reflexivity|].
  destruct m as [c|e]; cbn [map rd_of app bundle_read first_fail]; [exact IH|reflexivity].
Qed.

Lemma bundle_refines c bt : btask_result c bt = task_result c (abstract_task c bt).
Proof.
  unfold btask_result, task_result, abstract_task. cbn [t_read t_func].
  destruct (on_content c); [|reflexivity].
  rewrite bundle_content_spec, bundle_read_rd_of.
  destruct (first_fail (b_members bt)); [reflexivity|].
  destruct (contents (b_members bt)); reflexivity.
Qed.

(* the nested collect gives the same answer whatever the completion order of its member reads *)
Lemma bundle_collect_any_order ms tr s :
  let rs := member_results ms in
  run (map_width rs) rs init tr = Some s -> final rs s -> collect_obs (observed rs s) = bundle_collect ms.
Proof.
  intros rs H Hf. unfold bundle_collect. fold rs. rewrite collect_model_obs. f_equal.
  assert (Hw : 0 < map_width rs) by (unfold map_width; lia).
  exact (inv_final_observed _ rs s (reachable_inv _ rs tr s Hw H) Hf).
Qed.

(* under error_to_warning, when the user's function does not raise, every bundle of the stream has its own
   value: None when one of its members cannot be read (or nothing is left to hand on), the function's value
   on the contents otherwise *)
Definition bundle_value (bt : btask) : option Z :=
  match first_fail (b_members bt), contents (b_members bt) with
  | None, (_ :: _) as l => match b_func bt l with FRet v => v | FRaise _ => None end
  | _, _ => None
  end.

Lemma bundle_results_abstract c bts :
  map (btask_result c) bts = map (task_result c) (map (abstract_task c) bts).
Proof. rewrite map_map. apply map_ext. intros bt. apply bundle_refines. Qed.

Lemma warn_value_abstract c bt : on_content c = true ->
  warn_value (abstract_task c bt) = bundle_value bt.
Proof.
  intros Hoc. unfold warn_value, abstract_task, bundle_value. cbn [t_read t_func]. rewrite Hoc.
  rewrite bundle_read_rd_of. destruct (first_fail (b_members bt)); [reflexivity|].
  destruct (contents (b_members bt)) as [|x l]; [reflexivity|].
  cbn [bundle_read]. reflexivity.
Qed.

Lemma bundle_warnings_local c bts :
  on_content c = true -> e2w c = true ->
  (forall bt l, In bt bts -> exists v, b_func bt l = FRet v) ->
  spec (map (btask_result c) bts) = (map bundle_value bts, None).
Proof.
  intros Hoc Hew Hf. rewrite bundle_results_abstract.
  rewrite (read_warnings_local c (map (abstract_task c) bts) Hoc Hew).
  - rewrite map_map. f_equal. apply map_ext. intros bt. apply warn_value_abstract. exact Hoc.
  - intros t Ht. apply in_map_iff in Ht. destruct Ht as (bt & <- & Hbt).
    unfold abstract_task. cbn [t_func]. rewrite Hoc. apply (Hf bt _ Hbt).
Qed.

(* ------------------------------------------------------------------ type and length of the function's argument *)
Lemma zlist_eqb_eq a : forall b, zlist_eqb a b = true <-> a = b.
Proof.
  induction a as [|x a IH]; intros [|y b]; cbn [zlist_eqb]; try (split; [discriminate|discriminate]).
  - split; reflexivity.
  - rewrite andb_true_iff, Z.eqb_eq, IH. split.
    + intros (-> & ->). reflexivity.
    + intros H. injection H as -> ->. split; reflexivity.
Qed.

(* the observation agrees with the model iff the function was called with exactly the model's LIST (a bare
   content never agrees, whatever it is), resp. was not called when the model says so *)
Lemma arg_code_zero m o : arg_code m o = 0%Z <->
  (m = None /\ o = ONot) \/ (exists l, m = Some l /\ o = OList l).
Proof.
  destruct m as [l|]; destruct o as [|c|l']; cbn [arg_code].
  - split; [discriminate|]. intros [(H1 & _)|(l0 & _ & H2)]; discriminate.
  - split; [discriminate|]. intros [(H1 & _)|(l0 & _ & H2)]; discriminate.
  - split.
    + destruct (zlist_eqb l l') eqn:E; [|discriminate]. intros _. apply zlist_eqb_eq in E. subst l'.
      right. exists l. split; reflexivity.
    + intros [(H1 & _)|(l0 & H1 & H2)]; [discriminate|]. injection H1 as E1. injection H2 as E2. subst.
      rewrite (proj2 (zlist_eqb_eq _ _) eq_refl). reflexivity.
  - split; [intros _; left; split; reflexivity|reflexivity].
  - split; [discriminate|]. intros [(_ & H2)|(l0 & H1 & _)]; discriminate.
  - split; [discriminate|]. intros [(_ & H2)|(l0 & H1 & _)]; discriminate.
Qed.

Lemma contents_plain ms : (forall m, In m ms -> plain m) ->
  length (contents ms) = length ms /\ first_fail ms = None.
Proof.
  induction ms as [|m t IH]; intros H; [split; reflexivity|].
  destruct (H m (or_introl eq_refl)) as (c & ->).
  destruct IH as (IH1 & IH2); [intros m' Hm'; apply H; right; exact Hm'|].
  cbn [contents first_fail length]. split; [rewrite IH1; reflexivity|exact IH2].
Qed.

(* TYPE and LENGTH of what the function of a bundle task receives: when every member is readable and has a
   content, it is the list of the members' contents, one entry per member -- for every size >= 1 *)
Lemma bundle_arg_shape c bt : on_content c = true ->
  let ms := b_members bt in
  ms <> [] -> (forall m, In m ms -> plain m) ->
  bundle_content ms = inl (contents ms)
  /\ length (contents ms) = length ms
  /\ (forall i d, i < length ms -> nth i ms d = MOk (Some (nth i (contents ms) 0%Z)))
  /\ btask_result c bt = func_result (b_func bt (contents ms)).
Proof.
  intros Hoc ms Hne Hp. destruct (contents_plain ms Hp) as (Hl & Hf).
  assert (Hc : contents ms <> []).
  { intros E. rewrite E in Hl. destruct ms; [apply Hne; reflexivity|discriminate]. }
  assert (Hb : bundle_content ms = inl (contents ms)).
  { rewrite bundle_content_spec, Hf. destruct (contents ms); [exfalso; apply Hc; reflexivity|reflexivity]. }
  split; [exact Hb|]. split; [exact Hl|]. split.
  - clear Hne Hl Hf Hc Hb. induction ms as [|m t IH]; intros i d Hi; [cbn in Hi; lia|].
    destruct (Hp m (or_introl eq_refl)) as (x & ->). cbn [contents].
    destruct i as [|i]; [reflexivity|]. cbn [nth]. apply IH.
    + intros m' Hm'. apply Hp. right. exact Hm'.
    + cbn [length] in Hi. lia.
  - unfold btask_result. rewrite Hoc. fold ms. rewrite Hb. reflexivity.
Qed.

(* the size-1 case: the argument is the one-element list [x], not the bare content x *)
Lemma bundle_singleton c bt x : on_content c = true -> b_members bt = [MOk (Some x)] ->
  btask_result c bt = func_result (b_func bt [x])
  /\ bundle_args [bt] = [Some [x]]
  /\ (forall o, arg_code (Some [x]) o = 0%Z <-> o = OList [x])
  /\ arg_code (Some [x]) (OBare x) = 2%Z.
Proof.
  intros Hoc Hm. split; [|split; [|split]].
  - unfold btask_result. rewrite Hoc, Hm. reflexivity.
  - unfold bundle_args. cbn [map]. rewrite Hm. reflexivity.
  - intros o. rewrite arg_code_zero. split.
    + intros [(H & _)|(l & H1 & H2)]; [discriminate|]. injection H1 as <-. exact H2.
    + intros ->. right. exists [x]. split; reflexivity.
  - reflexivity.
Qed.
