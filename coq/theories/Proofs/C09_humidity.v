(* C09 -- humidity converters, saturation pressures, RH<->VMR, moist lapse rate.
   All statements are about the definitions GENERATED from typhon/physics/atmosphere.py. *)
From Coq Require Import Reals Lra Lia.
From Coquelicot Require Import Coquelicot.
From Interval Require Import Tactic.
From TyphonGen Require Import atmosphere.
Open Scope R_scope.

Lemma Md_pos : 0 < c_molar_mass_dry_air. Proof. unfold c_molar_mass_dry_air; lra. Qed.
Lemma Mw_pos : 0 < c_molar_mass_water. Proof. unfold c_molar_mass_water; lra. Qed.

Ltac conv := unfold mixing_ratio2specific_humidity, mixing_ratio2vmr, specific_humidity2mixing_ratio,
  specific_humidity2vmr, vmr2mixing_ratio, vmr2specific_humidity; cbv zeta.

(* the proofs below only use that both molar masses are positive *)
Section Converters.
Let Md := c_molar_mass_dry_air.
Let Mw := c_molar_mass_water.
Let HMd : 0 < Md := Md_pos.
Let HMw : 0 < Mw := Mw_pos.
Let HMM : 0 < Md * Mw := Rmult_lt_0_compat _ _ Md_pos Mw_pos.

Ltac fsolve := pose proof HMd; pose proof HMw; pose proof HMM; field; repeat split; try lra; try nra; try (apply Rgt_not_eq; nra); try (apply Rlt_not_eq; nra).

(* ---- each converter is the inverse of its counterpart ---- *)
Lemma inv_x_w x : 0 <= x < 1 -> mixing_ratio2vmr (vmr2mixing_ratio x) = x.
Proof. intros H. conv. fold Md Mw. fsolve. Qed.
Lemma inv_w_x w : 0 <= w -> vmr2mixing_ratio (mixing_ratio2vmr w) = w.
Proof. intros H. conv. fold Md Mw. fsolve. Qed.
Lemma inv_x_q x : 0 <= x < 1 -> specific_humidity2vmr (vmr2specific_humidity x) = x.
Proof. intros H. conv. fold Md Mw. fsolve. Qed.
Lemma inv_q_x q : 0 <= q < 1 -> vmr2specific_humidity (specific_humidity2vmr q) = q.
Proof. intros H. conv. fold Md Mw. fsolve. Qed.
Lemma inv_w_q w : 0 <= w -> specific_humidity2mixing_ratio (mixing_ratio2specific_humidity w) = w.
Proof. intros H. conv. fsolve. Qed.
Lemma inv_q_w q : 0 <= q < 1 -> mixing_ratio2specific_humidity (specific_humidity2mixing_ratio q) = q.
Proof. intros H. conv. fsolve. Qed.

(* ---- every two-step route equals the direct one ---- *)
Lemma route_x_w_q x : 0 <= x < 1 -> mixing_ratio2specific_humidity (vmr2mixing_ratio x) = vmr2specific_humidity x.
Proof. intros H. conv. fold Md Mw. fsolve. Qed.
Lemma route_x_q_w x : 0 <= x < 1 -> specific_humidity2mixing_ratio (vmr2specific_humidity x) = vmr2mixing_ratio x.
Proof. intros H. conv. fold Md Mw. fsolve. Qed.
Lemma route_w_x_q w : 0 <= w -> vmr2specific_humidity (mixing_ratio2vmr w) = mixing_ratio2specific_humidity w.
Proof. intros H. conv. fold Md Mw. fsolve. Qed.
Lemma route_w_q_x w : 0 <= w -> specific_humidity2vmr (mixing_ratio2specific_humidity w) = mixing_ratio2vmr w.
Proof. intros H. conv. fold Md Mw. fsolve. Qed.
Lemma route_q_x_w q : 0 <= q < 1 -> vmr2mixing_ratio (specific_humidity2vmr q) = specific_humidity2mixing_ratio q.
Proof. intros H. conv. fold Md Mw. fsolve. Qed.
Lemma route_q_w_x q : 0 <= q < 1 -> mixing_ratio2vmr (specific_humidity2mixing_ratio q) = specific_humidity2vmr q.
Proof. intros H. conv. fold Md Mw. fsolve. Qed.

(* ---- zero maps to zero ---- *)
Lemma zero_all :
  vmr2mixing_ratio 0 = 0 /\ vmr2specific_humidity 0 = 0 /\ mixing_ratio2vmr 0 = 0 /\
  mixing_ratio2specific_humidity 0 = 0 /\ specific_humidity2vmr 0 = 0 /\ specific_humidity2mixing_ratio 0 = 0.
Proof. conv. fold Md Mw. repeat split; fsolve. Qed.

(* ---- ranges: mixing ratios stay in [0,1) resp. [0,inf) ---- *)
Lemma range_x_w x : 0 <= x < 1 -> 0 <= vmr2mixing_ratio x.
Proof. intros H. conv. fold Md Mw. apply Rmult_le_pos; [|left; apply Rinv_0_lt_compat; lra].
  apply Rmult_le_pos; [|lra]. apply Rmult_le_pos; [lra|left; apply Rinv_0_lt_compat; lra]. Qed.

(* ---- strictly increasing ---- *)
Ltac mono a b H := conv; fold Md Mw;
  apply Rminus_lt_0;
  match goal with |- 0 < ?e => replace e with e by reflexivity end.

Lemma div_lt_cross a b c d : 0 < b -> 0 < d -> a * d < c * b -> a / b < c / d.
Proof. intros Hb Hd H. apply Rminus_lt_0. replace (c / d - a / b) with ((c * b - a * d) / (b * d)) by (field; lra).
  apply Rdiv_lt_0_compat; nra. Qed.

Lemma incr_x_w x y : 0 <= x < y -> y < 1 -> vmr2mixing_ratio x < vmr2mixing_ratio y.
Proof. intros H Hy. conv. fold Md Mw.
  assert (x / (1 - x) < y / (1 - y)) by (apply div_lt_cross; nra).
  apply Rmult_lt_compat_r; [apply Rinv_0_lt_compat; lra|]. apply Rmult_lt_compat_r; lra. Qed.
Lemma incr_x_q x y : 0 <= x < y -> y < 1 -> vmr2specific_humidity x < vmr2specific_humidity y.
Proof. intros H Hy. conv. fold Md Mw.
  assert (0 < (1 - x) * Md / Mw) by (apply Rdiv_lt_0_compat; nra).
  assert (0 < (1 - y) * Md / Mw) by (apply Rdiv_lt_0_compat; nra).
  apply div_lt_cross; try lra.
  replace (x * ((1 - y) * Md / Mw + y)) with ((x * (1 - y) * Md + x * y * Mw) / Mw) by (field; lra).
  replace (y * ((1 - x) * Md / Mw + x)) with ((y * (1 - x) * Md + x * y * Mw) / Mw) by (field; lra).
  apply Rmult_lt_compat_r; [apply Rinv_0_lt_compat; lra|]. nra. Qed.
Lemma incr_w_x w v : 0 <= w < v -> mixing_ratio2vmr w < mixing_ratio2vmr v.
Proof. intros H. conv. fold Md Mw.
  assert (0 < Mw / Md) by (apply Rdiv_lt_0_compat; lra).
  apply div_lt_cross; try lra. nra. Qed.
Lemma incr_w_q w v : 0 <= w < v -> mixing_ratio2specific_humidity w < mixing_ratio2specific_humidity v.
Proof. intros H. conv. apply div_lt_cross; try lra. Qed.
Lemma incr_q_w q r : 0 <= q < r -> r < 1 -> specific_humidity2mixing_ratio q < specific_humidity2mixing_ratio r.
Proof. intros H Hr. conv. apply div_lt_cross; try lra. Qed.
Lemma incr_q_x q r : 0 <= q < r -> r < 1 -> specific_humidity2vmr q < specific_humidity2vmr r.
Proof. intros H Hr. conv. fold Md Mw.
  assert (0 < (1 - q) * Mw / Md) by (apply Rdiv_lt_0_compat; nra).
  assert (0 < (1 - r) * Mw / Md) by (apply Rdiv_lt_0_compat; nra).
  apply div_lt_cross; try lra.
  replace (q * ((1 - r) * Mw / Md + r)) with ((q * (1 - r) * Mw + q * r * Md) / Md) by (field; lra).
  replace (r * ((1 - q) * Mw / Md + q)) with ((r * (1 - q) * Mw + q * r * Md) / Md) by (field; lra).
  apply Rmult_lt_compat_r; [apply Rinv_0_lt_compat; lra|]. nra. Qed.
End Converters.

(* ===================== saturation pressures (Murphy & Koop) ===================== *)
Ltac side := repeat split; try lra; try interval; try (apply Rgt_not_eq; interval); auto.

Lemma e_liq_pos T : 0 < e_eq_water_mk T.
Proof. unfold e_eq_water_mk. cbv zeta. apply exp_pos. Qed.
Lemma e_ice_pos T : 0 < e_eq_ice_mk T.
Proof. unfold e_eq_ice_mk. cbv zeta. apply exp_pos. Qed.

(* strictly increasing on [100, 400] K: sign of the derivative (computed by auto_derive from the
   generated definition) established by interval arithmetic with bisection *)
Lemma e_liq_incr T1 T2 : 100 <= T1 -> T1 < T2 -> T2 <= 400 -> e_eq_water_mk T1 < e_eq_water_mk T2.
Proof.
  intros H1 H12 H2.
  apply (incr_function_le e_eq_water_mk 100 400 (Derive e_eq_water_mk)); simpl; try assumption.
  - intros x Hx1 Hx2. apply Derive_correct. unfold e_eq_water_mk, tanh, sinh, cosh. auto_derive. side.
  - intros x Hx1 Hx2.
    erewrite is_derive_unique; [|unfold e_eq_water_mk, tanh, sinh, cosh; auto_derive; [side|reflexivity]].
    interval with (i_bisect x, i_depth 30).
Qed.
Lemma e_ice_incr T1 T2 : 100 <= T1 -> T1 < T2 -> T2 <= 400 -> e_eq_ice_mk T1 < e_eq_ice_mk T2.
Proof.
  intros H1 H12 H2.
  apply (incr_function_le e_eq_ice_mk 100 400 (Derive e_eq_ice_mk)); simpl; try assumption.
  - intros x Hx1 Hx2. apply Derive_correct. unfold e_eq_ice_mk. auto_derive. side.
  - intros x Hx1 Hx2.
    erewrite is_derive_unique; [|unfold e_eq_ice_mk; auto_derive; [side|reflexivity]].
    interval with (i_bisect x, i_depth 30).
Qed.

(* ice <= liquid below the triple point, to 1e-6 relative (the two published fits cross 4e-8 below T_t) *)
Lemma exp_ratio a b : a - b <= 9.9e-7 -> exp a <= exp b * (1 + 1e-6).
Proof. intros H. replace a with (b + (a - b)) by ring. rewrite exp_plus.
  apply Rmult_le_compat_l; [left; apply exp_pos|].
  apply Rle_trans with (exp 9.9e-7); [|interval].
  destruct H as [H|H]; [left; apply exp_increasing; exact H|right; rewrite H; reflexivity]. Qed.
Lemma ice_le_liq T : 100 <= T <= c_triple_point_water -> e_eq_ice_mk T <= e_eq_water_mk T * (1 + 1e-6).
Proof. unfold c_triple_point_water, e_eq_ice_mk, e_eq_water_mk. cbv zeta. intros H. apply exp_ratio.
  unfold tanh, sinh, cosh. interval with (i_bisect T, i_depth 40, i_prec 50). Qed.
Lemma eq_at_triple_point :
  Rabs (e_eq_water_mk c_triple_point_water / e_eq_ice_mk c_triple_point_water - 1) <= 1e-6.
Proof. unfold c_triple_point_water, e_eq_ice_mk, e_eq_water_mk, tanh, sinh, cosh. interval with (i_prec 60). Qed.

(* non-positive temperatures are rejected (the guards translated from the source) *)
Lemma nonpositive_rejected T : T <= 0 -> e_eq_water_mk_raises T /\ e_eq_ice_mk_raises T.
Proof. intros H. unfold e_eq_water_mk_raises, e_eq_ice_mk_raises. tauto. Qed.

(* ---- mixed phase ---- *)
(* the three branch lemmas decide every `Rlt_dec` of the translated definition, whatever the order in which the
   source applies its two masks *)
Ltac mixed_cases := unfold e_eq_mixed_mk; cbv zeta;
  repeat (match goal with |- context [Rlt_dec ?a ?b] => destruct (Rlt_dec a b) end);
  try lra; try reflexivity; try ring.
Lemma mixed_is_ice T : T < c_triple_point_water - 23 -> e_eq_mixed_mk T = e_eq_ice_mk T.
Proof. intros H. mixed_cases. Qed.
Lemma mixed_is_liquid T : c_triple_point_water < T -> e_eq_mixed_mk T = e_eq_water_mk T.
Proof. intros H. mixed_cases. Qed.
Lemma mixed_blend T : c_triple_point_water - 23 <= T <= c_triple_point_water ->
  e_eq_mixed_mk T = e_eq_ice_mk T + (e_eq_water_mk T - e_eq_ice_mk T) * ((T - c_triple_point_water + 23) / 23) ^ 2.
Proof. intros H. mixed_cases. Qed.
Lemma mixed_between T :
  Rmin (e_eq_ice_mk T) (e_eq_water_mk T) <= e_eq_mixed_mk T <= Rmax (e_eq_ice_mk T) (e_eq_water_mk T).
Proof.
  destruct (Rlt_dec T (c_triple_point_water - 23)) as [H|H].
  { rewrite mixed_is_ice by exact H. split; [apply Rmin_l|apply Rmax_l]. }
  destruct (Rlt_dec c_triple_point_water T) as [H'|H'].
  { rewrite mixed_is_liquid by exact H'. split; [apply Rmin_r|apply Rmax_r]. }
  rewrite mixed_blend by lra.
  set (s := ((T - c_triple_point_water + 23) / 23) ^ 2).
  assert (Hs : 0 <= s <= 1).
  { unfold s. assert (0 <= (T - c_triple_point_water + 23) / 23 <= 1) by (split; [apply Rmult_le_pos; lra|lra]). nra. }
  set (i := e_eq_ice_mk T). set (w := e_eq_water_mk T).
  unfold Rmin, Rmax. destruct (Rle_dec i w); nra. Qed.
(* continuity at the two joints: the blend takes the pure-phase value there *)
Lemma mixed_joint_ice : e_eq_mixed_mk (c_triple_point_water - 23) = e_eq_ice_mk (c_triple_point_water - 23).
Proof. rewrite mixed_blend by lra. replace (c_triple_point_water - 23 - c_triple_point_water + 23) with 0 by ring. field. Qed.
Lemma mixed_joint_liquid : e_eq_mixed_mk c_triple_point_water = e_eq_water_mk c_triple_point_water.
Proof. rewrite mixed_blend by lra. replace (c_triple_point_water - c_triple_point_water + 23) with 23 by ring. field. Qed.

(* ---- continuity of the mixed-phase formula on (0, +inf) ----
   The translated definition is a nest of two `if Rlt_dec`; it is continuous because each branch formula
   is, and the branches agree at the two switching temperatures (the joint-value equalities above). *)
(* gluing: two functions continuous at x, agreeing at the switch a (only needed when x = a) *)
Lemma glue_lt (f g : R -> R) a x : continuous f x -> continuous g x -> (x = a -> f a = g a) ->
  continuous (fun t => if Rlt_dec t a then f t else g t) x.
Proof.
  intros Hf Hg Hj.
  destruct (Rlt_dec x a) as [Hlt|Hge].
  - apply (continuous_ext_loc _ f); [|exact Hf].
    assert (Hpos : 0 < a - x) by lra.
    exists (mkposreal _ Hpos). intros y Hy. simpl in Hy.
    apply Rabs_def2 in Hy. change (minus y x) with (y - x) in Hy.
    destruct (Rlt_dec y a); [reflexivity|lra].
  - destruct (Rlt_dec a x) as [Hgt|Hle].
    + apply (continuous_ext_loc _ g); [|exact Hg].
      assert (Hpos : 0 < x - a) by lra.
      exists (mkposreal _ Hpos). intros y Hy. simpl in Hy.
      apply Rabs_def2 in Hy. change (minus y x) with (y - x) in Hy.
      destruct (Rlt_dec y a); [lra|reflexivity].
    + assert (Hxa : x = a) by lra. specialize (Hj Hxa). subst x.
      intros P HP. unfold filtermap.
      destruct (Rlt_dec a a) as [Habs|_]; [lra|].
      assert (H1 : locally a (fun t => P (f t))) by (apply Hf; rewrite Hj; exact HP).
      assert (H2 : locally a (fun t => P (g t))) by (apply Hg; exact HP).
      generalize (filter_and _ _ H1 H2). apply filter_imp.
      intros t [Ht1 Ht2]. destruct (Rlt_dec t a); assumption.
Qed.
Lemma glue_gt (f g : R -> R) a x : continuous f x -> continuous g x -> (x = a -> f a = g a) ->
  continuous (fun t => if Rlt_dec a t then f t else g t) x.
Proof.
  intros Hf Hg Hj.
  destruct (Rlt_dec a x) as [Hlt|Hge].
  - apply (continuous_ext_loc _ f); [|exact Hf].
    assert (Hpos : 0 < x - a) by lra.
    exists (mkposreal _ Hpos). intros y Hy. simpl in Hy.
    apply Rabs_def2 in Hy. change (minus y x) with (y - x) in Hy.
    destruct (Rlt_dec a y); [reflexivity|lra].
  - destruct (Rlt_dec x a) as [Hgt|Hle].
    + apply (continuous_ext_loc _ g); [|exact Hg].
      assert (Hpos : 0 < a - x) by lra.
      exists (mkposreal _ Hpos). intros y Hy. simpl in Hy.
      apply Rabs_def2 in Hy. change (minus y x) with (y - x) in Hy.
      destruct (Rlt_dec a y); [lra|reflexivity].
    + assert (Hxa : x = a) by lra. specialize (Hj Hxa). subst x.
      intros P HP. unfold filtermap.
      destruct (Rlt_dec a a) as [Habs|_]; [lra|].
      assert (H1 : locally a (fun t => P (f t))) by (apply Hf; rewrite Hj; exact HP).
      assert (H2 : locally a (fun t => P (g t))) by (apply Hg; exact HP).
      generalize (filter_and _ _ H1 H2). apply filter_imp.
      intros t [Ht1 Ht2]. destruct (Rlt_dec a t); assumption.
Qed.

(* the blend formula as a function of its own (it is what the code computes first, before the masks) *)
Definition mixed_blend_fn (T : R) : R :=
  e_eq_ice_mk T + (e_eq_water_mk T - e_eq_ice_mk T) * ((T - c_triple_point_water + 23) / 23) ^ 2.

(* the three branch formulas are differentiable, hence continuous, on (0, +inf) *)
(* side conditions (T <> 0, 0 < T, cosh <> 0) closed without interval arithmetic: the continuity theorems then rest
   on the real-number axioms only *)
Ltac side_pos := repeat split; try lra;
  try (apply Rgt_not_eq; match goal with |- context [exp ?a + exp ?b] => generalize (exp_pos a) (exp_pos b); lra end).
Lemma ice_ex_derive T : 0 < T -> ex_derive e_eq_ice_mk T.
Proof. intros H. unfold e_eq_ice_mk. auto_derive. side_pos. Qed.
Lemma liq_ex_derive T : 0 < T -> ex_derive e_eq_water_mk T.
Proof. intros H. unfold e_eq_water_mk, tanh, sinh, cosh. auto_derive. side_pos. Qed.
Lemma ice_continuous T : 0 < T -> continuous e_eq_ice_mk T.
Proof. intros H. apply (ex_derive_continuous e_eq_ice_mk). exact (ice_ex_derive T H). Qed.
Lemma liq_continuous T : 0 < T -> continuous e_eq_water_mk T.
Proof. intros H. apply (ex_derive_continuous e_eq_water_mk). exact (liq_ex_derive T H). Qed.
Lemma blend_continuous T : 0 < T -> continuous mixed_blend_fn T.
Proof. intros H. unfold mixed_blend_fn.
  apply (continuous_plus (U:=R_UniformSpace) (V:=R_NormedModule)); [exact (ice_continuous T H)|].
  apply (continuous_mult (K:=R_AbsRing)).
  - apply (continuous_minus (U:=R_UniformSpace) (V:=R_NormedModule)); [exact (liq_continuous T H)|exact (ice_continuous T H)].
  - apply (ex_derive_continuous (fun T => ((T - c_triple_point_water + 23) / 23) ^ 2)). auto_derive. exact I.
Qed.

(* the translated definition, through the three branch lemmas only (robust against the order of the masks) *)
Definition mixed_glued (t : R) : R :=
  if Rlt_dec c_triple_point_water t then e_eq_water_mk t
  else (fun u => if Rlt_dec u (c_triple_point_water - 23) then e_eq_ice_mk u else mixed_blend_fn u) t.
Lemma mixed_as_glue T : e_eq_mixed_mk T = mixed_glued T.
Proof. unfold mixed_glued. cbv beta.
  destruct (Rlt_dec c_triple_point_water T) as [H1|H1]; [exact (mixed_is_liquid T H1)|].
  destruct (Rlt_dec T (c_triple_point_water - 23)) as [H2|H2]; [exact (mixed_is_ice T H2)|].
  unfold mixed_blend_fn. apply mixed_blend. lra. Qed.

Lemma mixed_continuous T : 0 < T -> continuous e_eq_mixed_mk T.
Proof.
  intros H.
  apply (continuous_ext mixed_glued); [intros t; symmetry; apply mixed_as_glue|].
  unfold mixed_glued. apply glue_gt.
  - exact (liq_continuous T H).
  - apply glue_lt; [exact (ice_continuous T H)|exact (blend_continuous T H)|].
    intros _. transitivity (e_eq_mixed_mk (c_triple_point_water - 23)); [symmetry; exact mixed_joint_ice|].
    unfold mixed_blend_fn. apply mixed_blend. lra.
  - intros _. cbv beta. destruct (Rlt_dec c_triple_point_water (c_triple_point_water - 23)) as [Habs|_]; [lra|].
    transitivity (e_eq_mixed_mk c_triple_point_water); [symmetry; exact mixed_joint_liquid|].
    unfold mixed_blend_fn. apply mixed_blend. lra.
Qed.
(* the same in the standard library's vocabulary, and spelled out with epsilon and delta *)
Lemma mixed_continuity_pt T : 0 < T -> continuity_pt e_eq_mixed_mk T.
Proof. intros H. apply continuity_pt_filterlim. exact (mixed_continuous T H). Qed.
Lemma mixed_eps_delta T : 0 < T -> forall eps, 0 < eps -> exists delta, 0 < delta /\
  forall T', Rabs (T' - T) < delta -> Rabs (e_eq_mixed_mk T' - e_eq_mixed_mk T) < eps.
Proof.
  intros H eps He. pose proof (mixed_continuous T H) as Hc.
  apply (proj1 (filterlim_locally _ _)) with (eps := mkposreal eps He) in Hc.
  destruct Hc as [d Hd]. exists d. split; [apply cond_pos|].
  intros T' HT'. apply Hd. exact HT'.
Qed.

(* ---- strict monotonicity of the mixed-phase formula on [100, 400] K ----
   ice branch and liquid branch: the two lemmas above; blend on [T_t - 23, T_t]: sign of the derivative of
   mixed_blend_fn (>= 7.5 Pa/K numerically) by interval arithmetic with bisection; the three closed pieces
   share their end points (joint-value equalities), so the pieces chain. *)
Lemma blend_incr T1 T2 : c_triple_point_water - 23 <= T1 -> T1 < T2 -> T2 <= c_triple_point_water ->
  mixed_blend_fn T1 < mixed_blend_fn T2.
Proof.
  intros H1 H12 H2.
  apply (incr_function_le mixed_blend_fn (c_triple_point_water - 23) c_triple_point_water (Derive mixed_blend_fn)); simpl; try assumption.
  - intros x Hx1 Hx2. apply Derive_correct. unfold c_triple_point_water in *.
    unfold mixed_blend_fn, e_eq_ice_mk, e_eq_water_mk, tanh, sinh, cosh. auto_derive. side.
  - intros x Hx1 Hx2. unfold c_triple_point_water in *.
    erewrite is_derive_unique; [|unfold mixed_blend_fn, e_eq_ice_mk, e_eq_water_mk, tanh, sinh, cosh; auto_derive; [side|reflexivity]].
    unfold c_triple_point_water. assert (Hb : 250.16 <= x <= 273.16) by lra. clear - Hb.
    interval with (i_bisect x, i_depth 30, i_prec 50).
Qed.

Lemma incr_chain (f : R -> R) l c u :
  (forall x y, l <= x -> x < y -> y <= c -> f x < f y) ->
  (forall x y, c <= x -> x < y -> y <= u -> f x < f y) ->
  forall x y, l <= x -> x < y -> y <= u -> f x < f y.
Proof.
  intros Hl Hu x y Hx Hxy Hy.
  destruct (Rle_dec y c) as [Hyc|Hyc]; [apply Hl; assumption|].
  destruct (Rle_dec c x) as [Hcx|Hcx]; [apply Hu; assumption|].
  apply Rlt_trans with (f c); [apply Hl|apply Hu]; lra.
Qed.

Lemma mixed_is_ice_le T : T <= c_triple_point_water - 23 -> e_eq_mixed_mk T = e_eq_ice_mk T.
Proof. intros [H|H]; [exact (mixed_is_ice T H)|rewrite H; exact mixed_joint_ice]. Qed.
Lemma mixed_is_liquid_ge T : c_triple_point_water <= T -> e_eq_mixed_mk T = e_eq_water_mk T.
Proof. intros [H|H]; [exact (mixed_is_liquid T H)|rewrite <- H; exact mixed_joint_liquid]. Qed.

Lemma mixed_incr T1 T2 : 100 <= T1 -> T1 < T2 -> T2 <= 400 -> e_eq_mixed_mk T1 < e_eq_mixed_mk T2.
Proof.
  revert T1 T2.
  apply (incr_chain e_eq_mixed_mk 100 (c_triple_point_water - 23) 400).
  - intros x y Hx Hxy Hy. rewrite !mixed_is_ice_le by lra.
    apply e_ice_incr; unfold c_triple_point_water in *; lra.
  - apply (incr_chain e_eq_mixed_mk (c_triple_point_water - 23) c_triple_point_water 400).
    + intros x y Hx Hxy Hy. rewrite !mixed_blend by lra. apply (blend_incr x y); assumption.
    + intros x y Hx Hxy Hy. rewrite !mixed_is_liquid_ge by lra.
      apply e_liq_incr; unfold c_triple_point_water in *; lra.
Qed.
Lemma mixed_pos T : 0 < e_eq_mixed_mk T.
Proof. apply Rlt_le_trans with (2 := proj1 (mixed_between T)).
  apply Rmin_glb_lt; [exact (e_ice_pos T)|exact (e_liq_pos T)]. Qed.

(* ---- RH <-> VMR, for ANY saturation function ---- *)
Lemma rh_vmr_inverse (e_eq : R -> R) RH p T : 0 < e_eq T -> 0 < p ->
  vmr2relative_humidity (relative_humidity2vmr RH p T e_eq) p T e_eq = RH.
Proof. intros He Hp. unfold vmr2relative_humidity, relative_humidity2vmr. field. lra. Qed.
Lemma vmr_rh_inverse (e_eq : R -> R) x p T : 0 < e_eq T -> 0 < p ->
  relative_humidity2vmr (vmr2relative_humidity x p T e_eq) p T e_eq = x.
Proof. intros He Hp. unfold vmr2relative_humidity, relative_humidity2vmr. field. lra. Qed.

(* ---- moist-adiabatic lapse rate ---- *)
Lemma lapse_core g cp Lv Rd Rv T w :
  0 < g -> 0 < cp -> 0 < Lv -> 0 < Rd -> 0 < Rv -> 0 < T -> 0 <= w -> cp * Rv * T <= Lv * Rd ->
  let G := g / cp * ((1 + Lv * w / (Rd * T)) / (1 + Lv ^ 2 * w / (cp * Rv * T ^ 2))) in
  0 < G <= g / cp /\ Rabs (G - g / cp) <= g / cp * (Lv ^ 2 / (cp * Rv * T ^ 2)) * w.
Proof.
  intros Hg Hcp HLv HRd HRv HT Hw Hkey G.
  set (A := Lv * w / (Rd * T)). set (B := Lv ^ 2 * w / (cp * Rv * T ^ 2)).
  assert (HRT : 0 < Rd * T) by nra.
  assert (HcRT : 0 < cp * Rv * T ^ 2) by (apply Rmult_lt_0_compat; [nra|nra]).
  assert (HA : 0 <= A) by (unfold A; apply Rmult_le_pos; [nra|left; apply Rinv_0_lt_compat; exact HRT]).
  assert (HB : 0 <= B) by (unfold B; apply Rmult_le_pos; [nra|left; apply Rinv_0_lt_compat; exact HcRT]).
  assert (HAB : A <= B).
  { unfold A, B. apply Rminus_le_0.
    replace (Lv ^ 2 * w / (cp * Rv * T ^ 2) - Lv * w / (Rd * T))
      with (Lv * w * (Lv * Rd - cp * Rv * T) / (cp * Rv * T ^ 2 * Rd)) by (field; repeat split; lra).
    apply Rmult_le_pos; [|left; apply Rinv_0_lt_compat; nra].
    apply Rmult_le_pos; [nra|lra]. }
  assert (Hgc : 0 < g / cp) by (apply Rdiv_lt_0_compat; lra).
  assert (Hq : 0 < (1 + A) / (1 + B) <= 1).
  { split; [apply Rdiv_lt_0_compat; lra|]. apply Rle_div_l; lra. }
  fold A B in G. unfold G. split; [split; nra|].
  replace (g / cp * ((1 + A) / (1 + B)) - g / cp) with (- (g / cp * ((B - A) / (1 + B)))) by (field; lra).
  rewrite Rabs_Ropp, Rabs_pos_eq.
  2:{ apply Rmult_le_pos; [lra|]. apply Rmult_le_pos; [lra|left; apply Rinv_0_lt_compat; lra]. }
  rewrite Rmult_assoc. apply Rmult_le_compat_l; [lra|].
  replace (Lv ^ 2 / (cp * Rv * T ^ 2) * w) with B by (unfold B; field; repeat split; lra).
  apply Rle_div_l; [lra|]. nra.
Qed.

Lemma lapse_bounds (e_eq : R -> R) p T : 0 < T <= 400 -> 0 <= e_eq T / p < 1 ->
  let w := vmr2mixing_ratio (e_eq T / p) in
  0 < moist_lapse_rate p T e_eq <= c_earth_standard_gravity / c_isobaric_mass_heat_capacity /\
  Rabs (moist_lapse_rate p T e_eq - c_earth_standard_gravity / c_isobaric_mass_heat_capacity)
    <= c_earth_standard_gravity / c_isobaric_mass_heat_capacity
       * (c_heat_of_vaporization ^ 2 / (c_isobaric_mass_heat_capacity * c_gas_constant_water_vapor * T ^ 2)) * w.
Proof.
  intros HT Hx w. unfold moist_lapse_rate. cbv zeta. fold w.
  assert (Hw : 0 <= w) by (apply range_x_w; exact Hx).
  apply lapse_core; try exact Hw; try lra;
    unfold c_earth_standard_gravity, c_isobaric_mass_heat_capacity, c_heat_of_vaporization,
      c_gas_constant_dry_air, c_gas_constant_water_vapor; lra.
Qed.
