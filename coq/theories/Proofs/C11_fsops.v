(* Proofs/C11_fsops.v -- lemmas about Model/C11_fsops.v *)
From Coq Require Import ZArith List Bool Ascii String Lia.
From Typhon Require Import Base.Calendar Base.CalendarProofs Model.C02_template Proofs.C02_template Model.C11_fsops.
Import ListNotations.
Open Scope Z_scope.

Lemma str_eqb_refl a : str_eqb a a = true.
Proof. apply str_eqb_eq. reflexivity. Qed.
Lemma str_eqb_neq a b : a <> b -> str_eqb a b = false.
Proof. intro H. destruct (str_eqb a b) eqn:E; [apply str_eqb_eq in E; contradiction|reflexivity]. Qed.

Lemma Forall2_impl_in {A B} (P Q : A -> B -> Prop) l1 l2 :
  (forall a b, In a l1 -> In b l2 -> P a b -> Q a b) -> Forall2 P l1 l2 -> Forall2 Q l1 l2.
Proof.
  intros H F. induction F as [|a b l1 l2 Hab F IH]; constructor.
  - apply H; [left; reflexivity|left; reflexivity|exact Hab].
  - apply IH. intros a' b' Ha Hb. apply H; right; assumption.
Qed.

Section Proofs.
Variables Data Bytes : Type.
Variable enc : Z -> Z -> Data -> option Bytes.
Variable dec : Z -> Z -> Bytes -> option Data.
Variable pack : str -> Bytes -> Bytes.
Variable unpack : str -> Bytes -> option Bytes.

Notation disk := (list (str * Bytes)).
Notation fset := (@fset Data).
Notation write_file := (write_file Data Bytes enc pack).
Notation read_file := (read_file Data Bytes dec unpack).
Notation encode := (encode Data Bytes enc pack).
Notation decode := (decode Data Bytes dec unpack).
Notation recode := (recode Data Bytes enc dec pack unpack).
Notation move1 := (move1 Data Bytes enc dec pack unpack).
Notation move := (move Data Bytes enc dec pack unpack).
Notation delete1 := (delete1 Bytes).
Notation delete := (delete Data Bytes).
Notation entries := (entries Data Bytes).
Notation find := (find Data Bytes).
Notation foldM := (foldM Bytes).
Notation step := (step Data Bytes enc dec pack unpack).
Notation run := (run Data Bytes enc dec pack unpack).
Notation touched := (touched Data Bytes).
Notation entry_of := (entry_of Data).

(* ------------------------------------------------------------------ the disk as a finite map *)

Lemma dlook_dremove_same p (d : disk) : dlook p (dremove p d) = None.
Proof.
  induction d as [|[k v] d IH]; cbn; [reflexivity|].
  destruct (str_eqb k p) eqn:E; cbn; [exact IH|]. rewrite E. exact IH.
Qed.
Lemma dlook_dremove_other p r (d : disk) : r <> p -> dlook r (dremove p d) = dlook r d.
Proof.
  intro H. induction d as [|[k v] d IH]; cbn; [reflexivity|].
  destruct (str_eqb k p) eqn:E; cbn.
  - apply str_eqb_eq in E. subst k. rewrite (str_eqb_neq p r) by congruence. exact IH.
  - destruct (str_eqb k r); [reflexivity|exact IH].
Qed.
Lemma dlook_dstore_same p b (d : disk) : dlook p (dstore p b d) = Some b.
Proof. unfold dstore. cbn. rewrite str_eqb_refl. reflexivity. Qed.
Lemma dlook_dstore_other p r b (d : disk) : r <> p -> dlook r (dstore p b d) = dlook r d.
Proof.
  intro H. unfold dstore. cbn. rewrite (str_eqb_neq p r) by congruence. apply dlook_dremove_other. exact H.
Qed.
Lemma dlook_in p (d : disk) : dlook p d <> None <-> In p (paths d).
Proof.
  induction d as [|[k v] d IH]; cbn; [tauto|].
  destruct (str_eqb k p) eqn:E.
  - apply str_eqb_eq in E. split; [auto|discriminate].
  - rewrite IH. split; [auto|]. intros [H|H]; [subst; rewrite str_eqb_refl in E; discriminate|exact H].
Qed.
(* dstore keeps the keys unique *)
Lemma paths_dremove p (d : disk) : paths (dremove p d) = filter (fun k => negb (str_eqb k p)) (paths d).
Proof.
  unfold paths, dremove. induction d as [|[k v] d IH]; cbn; [reflexivity|].
  destruct (str_eqb k p); cbn; [exact IH|f_equal; exact IH].
Qed.
Lemma nodup_dstore p b (d : disk) : NoDup (paths d) -> NoDup (paths (dstore p b d)).
Proof.
  intro H. unfold dstore. change (paths ((p, b) :: dremove p d)) with (p :: paths (dremove p d)).
  rewrite paths_dremove. constructor.
  - rewrite filter_In. rewrite str_eqb_refl. cbn. intros [_ F]. discriminate.
  - apply NoDup_filter. exact H.
Qed.
Lemma nodup_dremove p (d : disk) : NoDup (paths d) -> NoDup (paths (dremove p d)).
Proof. intro H. rewrite paths_dremove. apply NoDup_filter. exact H. Qed.

Opaque dstore dremove.

(* ------------------------------------------------------------------ write / read *)

Definition codec_ok : Prop :=
  (forall h a x b, enc h a x = Some b -> dec h a b = Some x) /\ (forall f b, unpack f (pack f b) = Some b).

Lemma decode_encode (F : fset) x p b : codec_ok -> rargs F = wargs F -> zc F = zd F ->
  encode F x p = Some b -> decode F p b = Good (post F x).
Proof.
  intros [Hd Hp] Ha Hz He. unfold C11_fsops.encode in He. unfold C11_fsops.decode.
  destruct (enc (hid F) (wargs F) x) as [b0|] eqn:E; [|discriminate]. injection He as <-.
  rewrite <- Hz, Ha. destruct (if zc F then zfmt p else None) as [f|].
  - rewrite Hp. rewrite (Hd _ _ _ _ E). reflexivity.
  - rewrite (Hd _ _ _ _ E). reflexivity.
Qed.

Theorem write_read_thm (F : fset) x p (d d' : disk) : codec_ok -> rargs F = wargs F -> zc F = zd F ->
  write_file F x p d = Good d' ->
  read_file F p d' = Good (post F x) /\ (forall r, r <> p -> dlook r d' = dlook r d).
Proof.
  intros Hc Ha Hz Hw. unfold C11_fsops.write_file in Hw.
  destruct (encode F x p) as [b|] eqn:E; [|discriminate]. injection Hw as <-. split.
  - unfold C11_fsops.read_file. rewrite dlook_dstore_same. eapply decode_encode; eauto.
  - intros r Hr. apply dlook_dstore_other. exact Hr.
Qed.

(* the written file is found again under exactly its period (templates with a complete end; C02) *)
Theorem written_is_found_thm (F : fset) x s e fill p (d d' : disk) a b :
  start_ok (tpl F) s -> valid e -> s <= e -> end_full (tpl F) = true ->
  in_range (end_fields (tpl F)) (fields e) = true -> at_resolution (end_fields (tpl F)) (fields e) = true ->
  no_parse_only (end_fields (tpl F)) = true -> deterministic fill (tpl F) = true ->
  render (tpl F) s e fill = Ok p -> write_file F x p d = Good d' ->
  s <= b - 1 -> a <= e ->
  exists at_, attrs_are fill (tpl F) at_ /\ finfo F p = Ok (s, e, at_) /\
              In (En p s e at_) (entries F (Sel a b [] [] None) d').
Proof.
  intros Hs Ve Hse Hf Hr Har Hnp Hdet Hren Hw Hb Ha.
  destruct (roundtrip_end_full_thm (Cfg ViaFilename (cov F) None None []) (tpl F) s e fill p
              Hs Ve Hse Hf Hr Har Hnp Hdet eq_refl Hren) as (at_ & Hat & Hi).
  exists at_. split; [exact Hat|]. split; [exact Hi|].
  unfold C11_fsops.write_file in Hw. destruct (encode F x p) as [c|]; [|discriminate]. injection Hw as <-.
  unfold C11_fsops.entries. cbn [s_files]. apply filter_In. split.
  - apply in_flat_map. exists p. split; [cbn; left; reflexivity|].
    unfold entry_of. unfold C11_fsops.finfo in Hi. unfold C11_fsops.finfo. rewrite Hi. left. reflexivity.
  - unfold selected_by. cbn [e_s e_e e_attr s_start s_stop s_white s_black white_ok black_ok forallb].
    rewrite !andb_true_r. apply andb_true_iff. split; apply Z.leb_le; assumption.
Qed.

(* ------------------------------------------------------------------ move / copy *)

(* the content the target gets *)
Definition new_content (F G : fset) (conv : option (Data -> Data)) (en : entry) (q : str) (b : Bytes) : res Bytes :=
  match conv with Some f => recode F G f (e_path en) q b | None => Good b end.

Lemma move1_spec (F G : fset) copy conv (d d' : disk) en q :
  target G en = Ok q -> dlook q d = None -> move1 F G copy conv d en = Good d' ->
  exists b c, dlook (e_path en) d = Some b /\ new_content F G conv en q b = Good c /\
    dlook q d' = Some c /\ dlook (e_path en) d' = (if copy then Some b else None) /\
    (forall r, r <> q -> r <> e_path en -> dlook r d' = dlook r d).
Proof.
  intros Ht Hq Hm. unfold C11_fsops.move1 in Hm. rewrite Ht in Hm.
  destruct (dlook (e_path en) d) as [b|] eqn:Eb; [|discriminate].
  assert (Hpq : e_path en <> q) by (intro E; rewrite E in Eb; congruence).
  exists b. unfold new_content. destruct conv as [f|].
  - destruct (recode F G f (e_path en) q b) as [c|er] eqn:Er; cbn [rbind] in Hm; [|discriminate].
    exists c. split; [reflexivity|]. split; [reflexivity|]. injection Hm as <-. destruct copy.
    + split; [apply dlook_dstore_same|]. split; [rewrite dlook_dstore_other by exact Hpq; exact Eb|].
      intros r Hr _. apply dlook_dstore_other. exact Hr.
    + split; [rewrite dlook_dremove_other by congruence; apply dlook_dstore_same|].
      split; [apply dlook_dremove_same|].
      intros r Hr Hr'. rewrite dlook_dremove_other by exact Hr'. apply dlook_dstore_other. exact Hr.
  - rewrite (str_eqb_neq _ _ Hpq) in Hm. exists b. split; [reflexivity|]. split; [reflexivity|].
    injection Hm as <-. destruct copy.
    + split; [apply dlook_dstore_same|]. split; [rewrite dlook_dstore_other by exact Hpq; exact Eb|].
      intros r Hr _. apply dlook_dstore_other. exact Hr.
    + split; [rewrite dlook_dremove_other by congruence; apply dlook_dstore_same|].
      split; [apply dlook_dremove_same|].
      intros r Hr Hr'. rewrite dlook_dremove_other by exact Hr'. apply dlook_dstore_other. exact Hr.
Qed.

(* what is said about one selected file and its target name *)
Definition moved (F G : fset) (copy : bool) (conv : option (Data -> Data)) (d d' : disk) (en : entry) (q : str) : Prop :=
  target G en = Ok q /\
  exists b c, dlook (e_path en) d = Some b /\ new_content F G conv en q b = Good c /\
              dlook q d' = Some c /\ dlook (e_path en) d' = (if copy then Some b else None).

Lemma move_fold (F G : fset) copy conv : forall es qs (d d' : disk),
  Forall2 (fun en q => target G en = Ok q) es qs ->
  NoDup (map e_path es) -> NoDup qs ->
  (forall q, In q qs -> dlook q d = None) ->
  (forall en, In en es -> dlook (e_path en) d <> None) ->
  foldM (move1 F G copy conv) es d = Good d' ->
  Forall2 (moved F G copy conv d d') es qs /\
  (forall r, ~ In r (map e_path es) -> ~ In r qs -> dlook r d' = dlook r d).
Proof.
  intros es qs d d' H2. revert d d'. induction H2 as [|en q es qs Ht H2 IH]; intros d d' Np Nq Hfresh Hex Hf.
  - cbn in Hf. injection Hf as <-. split; [constructor|reflexivity].
  - cbn [C11_fsops.foldM] in Hf.
    destruct (move1 F G copy conv d en) as [d1|er] eqn:E1; [|discriminate].
    destruct (move1_spec F G copy conv d d1 en q Ht (Hfresh q (or_introl eq_refl)) E1)
      as (b & c & Hb & Hc & Hq1 & Hp1 & Hfr1).
    cbn [map] in Np. inversion Np as [|? ? Hp_notin Np']; subst. inversion Nq as [|? ? Hq_notin Nq']; subst.
    assert (Hsrc_ne_q : forall en', In en' es -> e_path en' <> q).
    { intros en' Hin E. apply (Hex en' (or_intror Hin)). rewrite E. apply Hfresh. left. reflexivity. }
    assert (Hsrc_ne_p : forall en', In en' es -> e_path en' <> e_path en).
    { intros en' Hin E. apply Hp_notin. rewrite <- E. apply in_map. exact Hin. }
    assert (Htgt_ne_p : forall q', In q' qs -> q' <> e_path en).
    { intros q' Hin E. subst q'. rewrite (Hfresh _ (or_intror Hin)) in Hb. discriminate. }
    assert (Htgt_ne_q : forall q', In q' qs -> q' <> q) by (intros q' Hin E; subst; contradiction).
    destruct (IH d1 d' Np' Nq') as (HF & Hfr); [| |exact Hf|].
    + intros q' Hin. rewrite Hfr1; [apply Hfresh; right; exact Hin|apply Htgt_ne_q; exact Hin|apply Htgt_ne_p; exact Hin].
    + intros en' Hin. rewrite Hfr1; [apply Hex; right; exact Hin|apply Hsrc_ne_q; exact Hin|apply Hsrc_ne_p; exact Hin].
    + assert (Hq_not_src : ~ In q (map e_path es)).
      { intro Hin. apply in_map_iff in Hin. destruct Hin as (en' & E & Hin). exact (Hsrc_ne_q en' Hin E). }
      assert (Hp_not_tgt : ~ In (e_path en) qs) by (intro Hin; exact (Htgt_ne_p _ Hin eq_refl)).
      split.
      * constructor.
        -- split; [exact Ht|]. exists b, c. split; [exact Hb|]. split; [exact Hc|]. split.
           ++ rewrite (Hfr q Hq_not_src Hq_notin). exact Hq1.
           ++ rewrite (Hfr (e_path en) Hp_notin Hp_not_tgt). exact Hp1.
        -- revert HF. apply Forall2_impl_in. intros en' q' Hin Hin' (Ht' & b' & c' & Hb' & Hc' & Hq' & Hp').
           split; [exact Ht'|]. exists b', c'. split; [|auto].
           rewrite <- Hb'. symmetry. apply Hfr1; [apply Hsrc_ne_q; exact Hin|apply Hsrc_ne_p; exact Hin].
      * intros r Hr Hr'. cbn in Hr, Hr'. rewrite Hfr by tauto. apply Hfr1; intro E; subst; tauto.
Qed.


(* find() returns the brute-force selection or raises *)
Lemma find_entries (F : fset) sl (d : disk) es : find F sl d = Good es -> es = entries F sl d.
Proof.
  unfold C11_fsops.find. destruct (s_files sl).
  - intro H. injection H as <-. reflexivity.
  - destruct (s_stop sl - 1 <? s_start sl); [discriminate|].
    destruct (entries F sl d) eqn:E; [discriminate|]. intro H. injection H as <-. reflexivity.
Qed.

(* selection by period and filters: exactly the files of the disk that the template parses, whose coverage
   meets [start, stop - 1us] and that pass the white and black lists; they exist and are distinct *)
Lemma entries_spec (F : fset) sl (d : disk) en : s_files sl = None ->
  (In en (entries F sl d) <->
   In (e_path en) (paths d) /\ finfo F (e_path en) = Ok (e_s en, e_e en, e_attr en) /\ selected_by sl en = true).
Proof.
  intro Hn. unfold C11_fsops.entries. rewrite Hn. rewrite filter_In, in_flat_map. split.
  - intros [(p & Hp & He) Hs]. unfold entry_of in He. destruct (finfo F p) as [[[s e] a]|er] eqn:Ei; [|contradiction].
    destruct He as [<-|[]]. cbn. auto.
  - intros (Hp & Hi & Hs). split; [|exact Hs]. exists (e_path en). split; [exact Hp|].
    unfold entry_of. rewrite Hi. left. destruct en; reflexivity.
Qed.
Lemma entry_of_path (F : fset) p en : In en (entry_of F p) -> e_path en = p.
Proof. unfold entry_of. destruct (finfo F p) as [[[s e] a]|]; [|contradiction]. intros [<-|[]]. reflexivity. Qed.
Lemma entries_nodup (F : fset) sl (d : disk) : s_files sl = None -> NoDup (paths d) ->
  NoDup (map e_path (entries F sl d)).
Proof.
  intros Hn Hd. unfold C11_fsops.entries. rewrite Hn.
  assert (H : forall ps, NoDup ps -> NoDup (map e_path (flat_map (entry_of F) ps)) /\ forall en, In en (flat_map (entry_of F) ps) -> In (e_path en) ps).
  { induction ps as [|p ps IH]; intro N; [split; [constructor|intros ? []]|].
    inversion N as [|? ? Hnot N']; subst. destruct (IH N') as [IH1 IH2]. cbn [flat_map]. split.
    - rewrite map_app. unfold entry_of at 1. destruct (finfo F p) as [[[s e] a]|]; [|exact IH1].
      cbn. constructor; [|exact IH1]. intro Hin. apply in_map_iff in Hin. destruct Hin as (en & E & Hin).
      apply IH2 in Hin. rewrite E in Hin. contradiction.
    - intros en Hin. apply in_app_or in Hin. destruct Hin as [Hin|Hin]; [left; symmetry; eapply entry_of_path; eauto|right; auto]. }
  destruct (H (paths d) Hd) as [H1 _].
  revert H1. generalize (flat_map (entry_of F) (paths d)). intro l. induction l as [|x l IH]; cbn; [constructor|].
  intro N. inversion N as [|? ? Hnot N']; subst. destruct (selected_by sl x); [|auto]. cbn. constructor; [|auto].
  intro Hin. apply Hnot. apply in_map_iff in Hin. destruct Hin as (y & E & Hy). apply filter_In in Hy.
  apply in_map_iff. exists y. tauto.
Qed.

Theorem move_conserves_thm (F G : fset) copy conv sl (d d' : disk) es qs :
  find F sl d = Good es ->
  Forall2 (fun en q => target G en = Ok q) es qs ->
  NoDup (map e_path es) -> NoDup qs ->
  (forall q, In q qs -> dlook q d = None) ->
  (forall en, In en es -> dlook (e_path en) d <> None) ->
  move F G copy conv sl d = Good d' ->
  Forall2 (moved F G copy conv d d') es qs /\ (forall r, ~ In r (map e_path es) -> ~ In r qs -> dlook r d' = dlook r d).
Proof.
  intros Hf H2 Np Nq Hfr Hex Hm. unfold C11_fsops.move in Hm. rewrite Hf in Hm. cbn [rbind] in Hm.
  eapply move_fold; eauto.
Qed.

(* for a selection by period and filters on a disk with unique names the side conditions on the sources hold *)
Theorem move_conserves_period_thm (F G : fset) copy conv sl (d d' : disk) qs :
  s_files sl = None -> NoDup (paths d) ->
  Forall2 (fun en q => target G en = Ok q) (entries F sl d) qs ->
  NoDup qs -> (forall q, In q qs -> dlook q d = None) ->
  move F G copy conv sl d = Good d' ->
  Forall2 (moved F G copy conv d d') (entries F sl d) qs /\ (forall r, ~ In r (map e_path (entries F sl d)) -> ~ In r qs -> dlook r d' = dlook r d).
Proof.
  intros Hn Nd H2 Nq Hfr Hm.
  assert (Hf : find F sl d = Good (entries F sl d)).
  { unfold C11_fsops.move in Hm. destruct (find F sl d) as [es|er] eqn:E; [|discriminate].
    f_equal. eapply find_entries. exact E. }
  eapply move_conserves_thm; eauto.
  - apply entries_nodup; assumption.
  - intros en Hin. apply dlook_in. apply (entries_spec F sl d en Hn). exact Hin.
Qed.

(* progress: when every file can be recoded the move does not raise *)
Lemma move_fold_total (F G : fset) copy conv : forall es qs (d : disk),
  Forall2 (fun en q => target G en = Ok q) es qs ->
  NoDup (map e_path es) -> NoDup qs ->
  (forall q, In q qs -> dlook q d = None) ->
  Forall2 (fun en q => exists b c, dlook (e_path en) d = Some b /\ new_content F G conv en q b = Good c) es qs ->
  exists d', foldM (move1 F G copy conv) es d = Good d'.
Proof.
  intros es qs d H2. revert d. induction H2 as [|en q es qs Ht H2 IH]; intros d Np Nq Hfresh Hall.
  - exists d. reflexivity.
  - inversion Hall as [|? ? ? ? (b & c & Hb & Hc) Hall']; subst.
    cbn [map] in Np. inversion Np as [|? ? Hp_notin Np']; subst. inversion Nq as [|? ? Hq_notin Nq']; subst.
    assert (Hpq : e_path en <> q).
    { intro E. rewrite E in Hb. rewrite (Hfresh q (or_introl eq_refl)) in Hb. discriminate. }
    assert (E1 : exists d1, move1 F G copy conv d en = Good d1 /\ (forall r, r <> q -> r <> e_path en -> dlook r d1 = dlook r d)).
    { unfold C11_fsops.move1. rewrite Ht, Hb. unfold new_content in Hc. destruct conv as [f|].
      - rewrite Hc. cbn [rbind]. eexists. split; [reflexivity|]. intros r Hr Hr'. destruct copy.
        + apply dlook_dstore_other. exact Hr.
        + rewrite dlook_dremove_other by exact Hr'. apply dlook_dstore_other. exact Hr.
      - rewrite (str_eqb_neq _ _ Hpq). eexists. split; [reflexivity|]. intros r Hr Hr'. destruct copy.
        + apply dlook_dstore_other. exact Hr.
        + rewrite dlook_dremove_other by exact Hr'. apply dlook_dstore_other. exact Hr. }
    destruct E1 as (d1 & E1 & Hfr1). cbn [C11_fsops.foldM]. rewrite E1.
    apply (IH d1 Np' Nq').
    + intros q' Hin. rewrite Hfr1; [apply Hfresh; right; exact Hin|intro; subst; contradiction|].
      intro E. subst q'. rewrite (Hfresh _ (or_intror Hin)) in Hb. discriminate.
    + revert Hall'. apply Forall2_impl_in. intros en' q' Hin Hin' (b' & c' & Hb' & Hc'). exists b', c'. split; [|exact Hc'].
      rewrite Hfr1; [exact Hb'| |].
      * intro E. rewrite E in Hb'. rewrite (Hfresh q (or_introl eq_refl)) in Hb'. discriminate.
      * intro E. apply Hp_notin. rewrite <- E. apply in_map. exact Hin.
Qed.

(* converted content reads back through the destination as post_G (f (post_F x)) *)
Theorem convert_reads_back_thm (F G : fset) f p q b c y : codec_ok -> rargs G = wargs G -> zc G = zd G ->
  decode F p b = Good y -> recode F G f p q b = Good c -> decode G q c = Good (post G (f y)).
Proof.
  intros Hc Ha Hz Hd Hr. unfold C11_fsops.recode in Hr. rewrite Hd in Hr. cbn [rbind] in Hr.
  destruct (encode G (f y) q) as [c'|] eqn:E; [|discriminate]. injection Hr as <-.
  eapply decode_encode; eauto.
Qed.

(* ------------------------------------------------------------------ delete *)

Definition memb (r : str) (l : list str) : bool := existsb (str_eqb r) l.

Lemma delete_fold : forall es (d d' : disk), foldM delete1 es d = Good d' ->
  forall r, dlook r d' = if memb r (map e_path es) then None else dlook r d.
Proof.
  induction es as [|en es IH]; intros d d' Hf r.
  - cbn in Hf. injection Hf as <-. reflexivity.
  - cbn [C11_fsops.foldM] in Hf. unfold C11_fsops.delete1 in Hf at 1.
    destruct (dlook (e_path en) d) as [b|]; [|discriminate].
    rewrite (IH _ _ Hf r). cbn [map memb existsb]. fold (memb r (map e_path es)).
    destruct (memb r (map e_path es)); [rewrite orb_true_r; reflexivity|]. rewrite orb_false_r.
    destruct (str_eqb r (e_path en)) eqn:E.
    + apply str_eqb_eq in E. subst r. apply dlook_dremove_same.
    + apply dlook_dremove_other. intro E'. subst r. rewrite str_eqb_refl in E. discriminate.
Qed.

Theorem delete_exact_thm (F : fset) sl (d d' : disk) : delete F false sl d = Good d' ->
  exists es, find F sl d = Good es /\ (forall en, In en es -> dlook (e_path en) d <> None /\ dlook (e_path en) d' = None) /\ (forall r, ~ In r (map e_path es) -> dlook r d' = dlook r d).
Proof.
  unfold C11_fsops.delete. destruct (find F sl d) as [es|er]; [|discriminate]. cbn [rbind]. intro Hf.
  exists es. split; [reflexivity|]. pose proof (delete_fold es d d' Hf) as H. split.
  - intros en Hin. split.
    + clear H. revert d Hf. induction es as [|x es IH]; [contradiction|]. intros d Hf. cbn [C11_fsops.foldM] in Hf.
      unfold C11_fsops.delete1 in Hf at 1. destruct (dlook (e_path x) d) as [b|] eqn:Eb; [|discriminate].
      destruct Hin as [<-|Hin]; [congruence|]. specialize (IH Hin _ Hf).
      intro E. apply IH. destruct (str_eqb (e_path en) (e_path x)) eqn:Ex.
      * apply str_eqb_eq in Ex. rewrite Ex. apply dlook_dremove_same.
      * rewrite dlook_dremove_other; [exact E|]. intro E'. rewrite E' in Ex. rewrite str_eqb_refl in Ex. discriminate.
    + rewrite H. replace (memb (e_path en) (map e_path es)) with true; [reflexivity|]. symmetry.
      apply existsb_exists. exists (e_path en). split; [apply in_map; exact Hin|apply str_eqb_refl].
  - intros r Hr. rewrite H. replace (memb r (map e_path es)) with false; [reflexivity|]. symmetry.
    apply not_true_is_false. intro E. apply existsb_exists in E. destruct E as (x & Hx & Ex).
    apply str_eqb_eq in Ex. subst x. contradiction.
Qed.

Theorem dry_run_noop_thm (F : fset) sl (d d' : disk) : delete F true sl d = Good d' -> d' = d.
Proof.
  unfold C11_fsops.delete. destruct (find F sl d); [|discriminate]. cbn [rbind]. intro H. injection H as <-. reflexivity.
Qed.


(* ------------------------------------------------------------------ histories: nothing else is touched *)

Lemma move1_frame (F G : fset) copy conv (d d' : disk) en r : move1 F G copy conv d en = Good d' ->
  (copy = false -> r <> e_path en) -> (forall q, target G en = Ok q -> r <> q) -> dlook r d' = dlook r d.
Proof.
  intros Hm Hp Hq. unfold C11_fsops.move1 in Hm. destruct (target G en) as [q|er]; [|discriminate].
  specialize (Hq q eq_refl). destruct (dlook (e_path en) d) as [b|]; [|discriminate].
  assert (Hgen : forall c, dlook r (if copy then dstore q c d else dremove (e_path en) (dstore q c d)) = dlook r d).
  { intro c. destruct copy.
    - apply dlook_dstore_other. exact Hq.
    - rewrite dlook_dremove_other by (apply Hp; reflexivity). apply dlook_dstore_other. exact Hq. }
  destruct conv as [f|].
  - destruct (recode F G f (e_path en) q b) as [c|]; cbn [rbind] in Hm; [|discriminate]. injection Hm as <-. apply Hgen.
  - destruct (str_eqb (e_path en) q).
    + destruct copy; [discriminate|]. injection Hm as <-. reflexivity.
    + injection Hm as <-. apply Hgen.
Qed.

Lemma move_fold_frame (F G : fset) copy conv r : forall es (d d' : disk),
  foldM (move1 F G copy conv) es d = Good d' ->
  (copy = false -> ~ In r (map e_path es)) -> ~ In r (targets_of G es) -> dlook r d' = dlook r d.
Proof.
  induction es as [|en es IH]; intros d d' Hf Hp Hq.
  - cbn in Hf. injection Hf as <-. reflexivity.
  - cbn [C11_fsops.foldM] in Hf. destruct (move1 F G copy conv d en) as [d1|] eqn:E1; [|discriminate].
    cbn [targets_of flat_map] in Hq. rewrite in_app_iff in Hq.
    rewrite (IH d1 d' Hf).
    + eapply move1_frame; eauto.
      * intros Hc E. apply (Hp Hc). left. symmetry. exact E.
      * intros q Ht E. apply Hq. left. rewrite Ht. left. symmetry. exact E.
    + intros Hc Hin. apply (Hp Hc). right. exact Hin.
    + intro Hin. apply Hq. right. exact Hin.
Qed.

Theorem step_frame_thm o (d d' : disk) ob r : step o d = Good (d', ob) -> ~ In r (touched o d) ->
  dlook r d' = dlook r d.
Proof.
  intros Hs Hr. destruct o; cbn [C11_fsops.step C11_fsops.touched] in Hs, Hr.
  - destruct (render (tpl F) s e (fill_of fill)) as [p|]; [|discriminate].
    unfold C11_fsops.write_file in Hs. destruct (encode F x p) as [b|]; [|discriminate]. cbn [rbind] in Hs.
    injection Hs as <- _. apply dlook_dstore_other. intro E. apply Hr. left. symmetry. exact E.
  - unfold C11_fsops.write_file in Hs. destruct (encode F x p) as [b|]; [|discriminate]. cbn [rbind] in Hs.
    injection Hs as <- _. apply dlook_dstore_other. intro E. apply Hr. left. symmetry. exact E.
  - destruct (read_file F p d); [|discriminate]. injection Hs as <- _. reflexivity.
  - destruct (render (tpl F) t t []) as [p|].
    + destruct (dlook p d).
      * destruct (read_file F p d); [|discriminate]. injection Hs as <- _. reflexivity.
      * injection Hs as <- _. reflexivity.
    + injection Hs as <- _. reflexivity.
  - destruct (find F sl d) as [es|]; [|discriminate]. cbn [rbind] in Hs.
    destruct (mapM _ _) ; [|discriminate]. injection Hs as <- _. reflexivity.
  - destruct (find F sl d) as [es|]; [|discriminate]. injection Hs as <- _. reflexivity.
  - destruct (move F G copy conv sl d) as [d1|] eqn:Em; [|discriminate]. injection Hs as <- _.
    unfold C11_fsops.move in Em. destruct (find F sl d) as [es|] eqn:Ef; [|discriminate]. cbn [rbind] in Em.
    apply find_entries in Ef. subst es. rewrite in_app_iff in Hr.
    eapply move_fold_frame; eauto.
    intros -> Hin. apply Hr. left. exact Hin.
  - destruct (delete F dry sl d) as [d1|] eqn:Em; [|discriminate]. injection Hs as <- _.
    unfold C11_fsops.delete in Em. destruct (find F sl d) as [es|] eqn:Ef; [|discriminate]. cbn [rbind] in Em.
    apply find_entries in Ef. subst es. destruct dry.
    + injection Em as <-. reflexivity.
    + rewrite (delete_fold _ _ _ Em r). replace (memb r (map e_path (entries F sl d))) with false; [reflexivity|].
      symmetry. apply not_true_is_false. intro E. apply existsb_exists in E. destruct E as (x & Hx & Ex).
      apply str_eqb_eq in Ex. subst x. contradiction.
Qed.

(* along a history: r is touched by no operation (each judged on the disk it runs on) *)
Fixpoint untouched (r : str) (ops : list (op Data)) (d : disk) : Prop :=
  match ops with
  | [] => True
  | o :: ops' => ~ In r (touched o d) /\
                 match step o d with Good (d1, _) => untouched r ops' d1 | Bad _ => True end
  end.

Theorem run_frame_thm r : forall ops (d d' : disk), run ops d = Good d' -> untouched r ops d -> dlook r d' = dlook r d.
Proof.
  induction ops as [|o ops IH]; intros d d' Hr Hu.
  - cbn in Hr. injection Hr as <-. reflexivity.
  - cbn [C11_fsops.run] in Hr. cbn [untouched] in Hu. destruct Hu as [Hn Hu].
    destruct (step o d) as [[d1 ob]|] eqn:Es; [|discriminate]. cbn [rbind fst] in Hr.
    rewrite (IH d1 d' Hr Hu). eapply step_frame_thm; eauto.
Qed.


(* ------------------------------------------------------------------ the boolean hypotheses checked per case *)

Lemma nodupb_sound l : nodupb l = true -> NoDup l.
Proof.
  induction l as [|x l IH]; cbn; [constructor|]. intro H. apply andb_true_iff in H. destruct H as [H1 H2].
  constructor; [|auto]. intro Hin. apply negb_true_iff in H1.
  assert (E : existsb (str_eqb x) l = true) by (apply existsb_exists; exists x; split; [exact Hin|apply str_eqb_refl]).
  congruence.
Qed.

Lemma targets_length (G : fset) es : (List.length (targets_of G es) <= List.length es)%nat.
Proof.
  induction es as [|en es IH]; cbn [targets_of flat_map List.length]; [lia|]. rewrite app_length.
  fold (targets_of G es). destruct (target G en); cbn [List.length]; lia.
Qed.
Lemma targets_all (G : fset) es : List.length (targets_of G es) = List.length es ->
  Forall2 (fun en q => target G en = Ok q) es (targets_of G es).
Proof.
  induction es as [|en es IH]; cbn [targets_of flat_map]; [constructor|]. fold (targets_of G es).
  rewrite app_length. pose proof (targets_length G es) as Hl. destruct (target G en) as [q|er] eqn:E; cbn [List.length app].
  - intro H. constructor; [exact E|]. apply IH. lia.
  - intro H. lia.
Qed.

Theorem move_hyp_sound_thm (F G : fset) sl (d : disk) : move_hyp Data Bytes F G sl d = true ->
  let es := entries F sl d in let qs := targets_of G es in
  Forall2 (fun en q => target G en = Ok q) es qs /\ NoDup (map e_path es) /\ NoDup qs /\
  (forall q, In q qs -> dlook q d = None).
Proof.
  unfold move_hyp. intro H. repeat (apply andb_true_iff in H; destruct H as [H ?]).
  cbv zeta. split; [apply targets_all; apply Nat.eqb_eq; assumption|].
  split; [apply nodupb_sound; assumption|]. split; [apply nodupb_sound; assumption|].
  intros q Hin. match goal with Hf : forallb _ _ = true |- _ => rewrite forallb_forall in Hf; specialize (Hf q Hin) end.
  unfold fresh in *. destruct (dlook q d); [discriminate|reflexivity].
Qed.

End Proofs.
