(* Proofs/C11_fsops.v -- lemmas about Model/C11_fsops.v *)
From Coq Require Import ZArith List Bool Ascii String Lia.
From Typhon Require Import Base.Calendar Base.CalendarProofs Model.C02_template Proofs.C02_template Model.C11_fsops.
Import ListNotations.
Open Scope Z_scope.

Lemma str_eqb_refl a : str_eqb a a = true.
Proof. apply str_eqb_eq. reflexivity. Qed.
Lemma str_eqb_neq a b : a <> b -> str_eqb a b = false.
Proof. intro H. destruct (str_eqb a b) eqn:E; [apply str_eqb_eq in E; contradiction|reflexivity]. Qed.

Lemma Forall2_impl_in {A B} (P Q : A -> B -> Prop) l1 l2 :
  (forall a b, In a l1 -> In b l2 -> P a b -> Q a b) -> Forall2 P l1 l2 -> Forall2 Q l1 l2.
Proof.
  intros H F. induction F as [|a b l1 l2 Hab F IH]; constructor.
  - apply H; [left; reflexivity|left; reflexivity|exact Hab].
  - apply IH. intros a' b' Ha Hb. apply H; right; assumption.
Qed.

(* a sub-day suffix is neither empty nor a complete end *)
Lemma end_partial_not_full tp : end_partial tp = true -> end_fields tp <> [] /\ end_full tp = false.
Proof.
  unfold end_partial, end_full. cbv zeta. intro Hp. apply andb_true_iff in Hp. destruct Hp as [Hp _].
  apply andb_true_iff in Hp. destruct Hp as [Hne Hsub]. split.
  - intro E. rewrite E in Hne. discriminate.
  - apply not_true_is_false. intro Hf. apply andb_true_iff in Hf. destruct Hf as [Hdate _].
    unfold has_date in Hdate. apply andb_true_iff in Hdate. destruct Hdate as [Hy _].
    rewrite forallb_forall in Hsub. apply orb_true_iff in Hy. unfold has in Hy.
    destruct Hy as [Hy|Hy]; apply existsb_exists in Hy; destruct Hy as (f & Hin & Hf);
      specialize (Hsub f Hin); destruct f; cbn in Hf, Hsub; discriminate.
Qed.

Lemma start_okb_sound tp s : start_okb tp s = true -> start_ok tp s.
Proof.
  unfold start_okb, start_ok. intro H. apply andb_true_iff in H. destruct H as [H H4].
  apply andb_true_iff in H. destruct H as [H H3]. apply andb_true_iff in H. destruct H as [H H2].
  apply andb_true_iff in H. destruct H as [H H1]. apply validb_iff in H.
  split; [exact H|]. split; [exact H1|]. split; [exact H2|]. split; [exact H3|exact H4].
Qed.

(* pure list facts used for moves that fail half way *)
Lemma forall2_in_l {A B} (R : A -> B -> Prop) l1 l2 a : Forall2 R l1 l2 -> In a l1 -> exists b, In b l2 /\ R a b.
Proof.
  intro F. induction F as [|x y l1 l2 Hxy F IH]; [intros []|].
  intros [<-|Hin]; [exists y; split; [left; reflexivity|exact Hxy]|].
  destruct (IH Hin) as (b & Hb & Hr). exists b. split; [right; exact Hb|exact Hr].
Qed.
Lemma forall2_in_r {A B} (R : A -> B -> Prop) l1 l2 b : Forall2 R l1 l2 -> In b l2 -> exists a, In a l1 /\ R a b.
Proof.
  intro F. induction F as [|x y l1 l2 Hxy F IH]; [intros []|].
  intros [<-|Hin]; [exists x; split; [left; reflexivity|exact Hxy]|].
  destruct (IH Hin) as (a & Ha & Hr). exists a. split; [right; exact Ha|exact Hr].
Qed.
(* a relation that is a partial function, onto a duplicate-free list: related to the same b means the same position *)
Lemma forall2_inj {A B} (R : A -> B -> Prop) l1 l2 :
  (forall a b b', R a b -> R a b' -> b = b') -> Forall2 R l1 l2 -> NoDup l2 ->
  forall a1 a2 b, In a1 l1 -> In a2 l1 -> R a1 b -> R a2 b -> a1 = a2.
Proof.
  intros Hfun F. induction F as [|x y l1 l2 Hxy F IH]; intros N a1 a2 b H1 H2 R1 R2; [destruct H1|].
  inversion N as [|? ? Hnot N']; subst.
  destruct H1 as [<-|H1], H2 as [<-|H2].
  - reflexivity.
  - exfalso. apply Hnot. destruct (forall2_in_l R l1 l2 a2 F H2) as (b2 & Hb2 & Hr2).
    rewrite (Hfun _ _ _ Hxy R1). rewrite (Hfun _ _ _ R2 Hr2). exact Hb2.
  - exfalso. apply Hnot. destruct (forall2_in_l R l1 l2 a1 F H1) as (b1 & Hb1 & Hr1).
    rewrite (Hfun _ _ _ Hxy R2). rewrite (Hfun _ _ _ R1 Hr1). exact Hb1.
  - exact (IH N' a1 a2 b H1 H2 R1 R2).
Qed.
Lemma nodup_map_inj {A B} (f : A -> B) l a b : NoDup (map f l) -> In a l -> In b l -> f a = f b -> a = b.
Proof.
  induction l as [|x l IH]; [intros _ []|]. cbn [map]. intro N. inversion N as [|? ? Hnot N']; subst.
  intros [<-|Ha] [<-|Hb] E.
  - reflexivity.
  - exfalso. apply Hnot. rewrite E. apply in_map. exact Hb.
  - exfalso. apply Hnot. rewrite <- E. apply in_map. exact Ha.
  - exact (IH N' Ha Hb E).
Qed.
Lemma nodup_map_filter {A B} (f : A -> B) (p : A -> bool) l : NoDup (map f l) -> NoDup (map f (filter p l)).
Proof.
  induction l as [|x l IH]; cbn; [intro; constructor|]. intro N. inversion N as [|? ? Hnot N']; subst.
  destruct (p x); [|exact (IH N')]. cbn. constructor; [|exact (IH N')].
  intro Hin. apply Hnot. apply in_map_iff in Hin. destruct Hin as (y & E & Hy). apply filter_In in Hy.
  apply in_map_iff. exists y. split; [exact E|apply Hy].
Qed.
Lemma forall2_forall {A B} (R P : A -> B -> Prop) l1 l2 :
  Forall2 R l1 l2 -> (forall a b, In a l1 -> In b l2 -> R a b -> P a b) -> Forall2 P l1 l2.
Proof. intros F H. revert F. apply Forall2_impl_in. exact H. Qed.

Section Proofs.
Variables Data Bytes : Type.
Variable enc : Z -> Z -> Data -> option Bytes.
Variable dec : Z -> Z -> Bytes -> option Data.
Variable pack : str -> Bytes -> Bytes.
Variable unpack : str -> Bytes -> option Bytes.

Notation disk := (list (str * Bytes)).
Notation fset := (@fset Data).
Notation write_file := (write_file Data Bytes enc pack).
Notation read_file := (read_file Data Bytes dec unpack).
Notation encode := (encode Data Bytes enc pack).
Notation decode := (decode Data Bytes dec unpack).
Notation recode := (recode Data Bytes enc dec pack unpack).
Notation move1 := (move1 Data Bytes enc dec pack unpack).
Notation move := (move Data Bytes enc dec pack unpack).
Notation delete1 := (delete1 Bytes).
Notation delete := (delete Data Bytes).
Notation entries := (entries Data Bytes).
Notation find := (find Data Bytes).
Notation foldM := (foldM Bytes).
Notation step := (step Data Bytes enc dec pack unpack).
Notation run := (run Data Bytes enc dec pack unpack).
Notation touched := (touched Data Bytes).
Notation entry_of := (entry_of Data).

(* ------------------------------------------------------------------ the disk as a finite map *)

Lemma dlook_dremove_same p (d : disk) : dlook p (dremove p d) = None.
Proof.
  induction d as [|[k v] d IH]; cbn; [reflexivity|].
  destruct (str_eqb k p) eqn:E; cbn; [exact IH|]. rewrite E. exact IH.
Qed.
Lemma dlook_dremove_other p r (d : disk) : r <> p -> dlook r (dremove p d) = dlook r d.
Proof.
  intro H. induction d as [|[k v] d IH]; cbn; [reflexivity|].
  destruct (str_eqb k p) eqn:E; cbn.
  - apply str_eqb_eq in E. subst k. rewrite (str_eqb_neq p r) by congruence. exact IH.
  - destruct (str_eqb k r); [reflexivity|exact IH].
Qed.
Lemma dlook_dstore_same p b (d : disk) : dlook p (dstore p b d) = Some b.
Proof. unfold dstore. cbn. rewrite str_eqb_refl. reflexivity. Qed.
Lemma dlook_dstore_other p r b (d : disk) : r <> p -> dlook r (dstore p b d) = dlook r d.
Proof.
  intro H. unfold dstore. cbn. rewrite (str_eqb_neq p r) by congruence. apply dlook_dremove_other. exact H.
Qed.
Lemma dlook_in p (d : disk) : dlook p d <> None <-> In p (paths d).
Proof.
  induction d as [|[k v] d IH]; cbn; [tauto|].
  destruct (str_eqb k p) eqn:E.
  - apply str_eqb_eq in E. split; [auto|discriminate].
  - rewrite IH. split; [auto|]. intros [H|H]; [subst; rewrite str_eqb_refl in E; discriminate|exact H].
Qed.
(* dstore keeps the keys unique *)
Lemma paths_dremove p (d : disk) : paths (dremove p d) = filter (fun k => negb (str_eqb k p)) (paths d).
Proof.
  unfold paths, dremove. induction d as [|[k v] d IH]; cbn; [reflexivity|].
  destruct (str_eqb k p); cbn; [exact IH|f_equal; exact IH].
Qed.
Lemma nodup_dstore p b (d : disk) : NoDup (paths d) -> NoDup (paths (dstore p b d)).
Proof.
  intro H. unfold dstore. change (paths ((p, b) :: dremove p d)) with (p :: paths (dremove p d)).
  rewrite paths_dremove. constructor.
  - rewrite filter_In. rewrite str_eqb_refl. cbn. intros [_ F]. discriminate.
  - apply NoDup_filter. exact H.
Qed.
Lemma nodup_dremove p (d : disk) : NoDup (paths d) -> NoDup (paths (dremove p d)).
Proof. intro H. rewrite paths_dremove. apply NoDup_filter. exact H. Qed.

Opaque dstore dremove.

(* ------------------------------------------------------------------ write / read *)

Definition codec_ok : Prop :=
  (forall h a x b, enc h a x = Some b -> dec h a b = Some x) /\ (forall f b, unpack f (pack f b) = Some b).

Lemma decode_encode (F : fset) x en b : codec_ok -> rargs F = wargs F -> zc F = zd F ->
  encode F x (e_path en) = Some b -> decode F en b = Good (post F en x).
Proof.
  intros [Hd Hp] Ha Hz He. unfold C11_fsops.encode in He. unfold C11_fsops.decode.
  destruct (enc (hid F) (wargs F) x) as [b0|] eqn:E; [|discriminate]. injection He as <-.
  rewrite <- Hz, Ha. destruct (if zc F then zfmt (e_path en) else None) as [f|].
  - rewrite Hp. rewrite (Hd _ _ _ _ E). reflexivity.
  - rewrite (Hd _ _ _ _ E). reflexivity.
Qed.

Theorem write_read_thm (F : fset) x en (d d' : disk) : codec_ok -> rargs F = wargs F -> zc F = zd F ->
  write_file F x (e_path en) d = Good d' ->
  read_file F en d' = Good (post F en x) /\ (forall r, r <> e_path en -> dlook r d' = dlook r d).
Proof.
  intros Hc Ha Hz Hw. unfold C11_fsops.write_file in Hw.
  destruct (encode F x (e_path en)) as [b|] eqn:E; [|discriminate]. injection Hw as <-. split.
  - unfold C11_fsops.read_file. rewrite dlook_dstore_same. eapply decode_encode; eauto.
  - intros r Hr. apply dlook_dstore_other. exact Hr.
Qed.

(* the written file is found again under exactly its period (templates with a complete end; C02) *)
Theorem written_is_found_thm (F : fset) x s e fill p (d d' : disk) a b :
  start_ok (tpl F) s -> valid e -> s <= e -> end_full (tpl F) = true ->
  in_range (end_fields (tpl F)) (fields e) = true -> at_resolution (end_fields (tpl F)) (fields e) = true ->
  no_parse_only (end_fields (tpl F)) = true -> deterministic fill (tpl F) = true ->
  render (tpl F) s e fill = Ok p -> write_file F x p d = Good d' ->
  s <= b - 1 -> a <= e ->
  exists at_, attrs_are fill (tpl F) at_ /\ finfo F p = Ok (s, e, at_) /\
              In (En p s e at_) (entries F (Sel a b [] [] None) d').
Proof.
  intros Hs Ve Hse Hf Hr Har Hnp Hdet Hren Hw Hb Ha.
  destruct (roundtrip_end_full_thm (Cfg ViaFilename (cov F) None None []) (tpl F) s e fill p
              Hs Ve Hse Hf Hr Har Hnp Hdet eq_refl Hren) as (at_ & Hat & Hi).
  exists at_. split; [exact Hat|]. split; [exact Hi|].
  unfold C11_fsops.write_file in Hw. destruct (encode F x p) as [c|]; [|discriminate]. injection Hw as <-.
  unfold C11_fsops.entries. cbn [s_files]. apply filter_In. split.
  - apply in_flat_map. exists p. split; [cbn; left; reflexivity|].
    unfold entry_of. unfold C11_fsops.finfo in Hi. unfold C11_fsops.finfo. rewrite Hi. left. reflexivity.
  - unfold selected_by. cbn [e_s e_e e_attr s_start s_stop s_white s_black white_ok black_ok forallb].
    rewrite !andb_true_r. apply andb_true_iff. split; apply Z.leb_le; assumption.
Qed.

(* ------------------------------------------------------------------ move / copy *)

(* the content the target gets *)
Definition new_content (F G : fset) (conv : option (Data -> Data)) (en : entry) (q : str) (b : Bytes) : res Bytes :=
  match conv with Some f => recode F G f en q b | None => Good b end.

Lemma move1_spec (F G : fset) copy conv (d d' : disk) en q :
  target G en = Ok q -> dlook q d = None -> move1 F G copy conv d en = Good d' ->
  exists b c, dlook (e_path en) d = Some b /\ new_content F G conv en q b = Good c /\
    dlook q d' = Some c /\ dlook (e_path en) d' = (if copy then Some b else None) /\
    (forall r, r <> q -> r <> e_path en -> dlook r d' = dlook r d).
Proof.
  intros Ht Hq Hm. unfold C11_fsops.move1 in Hm. rewrite Ht in Hm.
  destruct (dlook (e_path en) d) as [b|] eqn:Eb; [|discriminate].
  assert (Hpq : e_path en <> q) by (intro E; rewrite E in Eb; congruence).
  exists b. unfold new_content. destruct conv as [f|].
  - destruct (recode F G f en q b) as [c|er] eqn:Er; cbn [rbind] in Hm; [|discriminate].
    exists c. split; [reflexivity|]. split; [reflexivity|]. injection Hm as <-. destruct copy.
    + split; [apply dlook_dstore_same|]. split; [rewrite dlook_dstore_other by exact Hpq; exact Eb|].
      intros r Hr _. apply dlook_dstore_other. exact Hr.
    + split; [rewrite dlook_dremove_other by congruence; apply dlook_dstore_same|].
      split; [apply dlook_dremove_same|].
      intros r Hr Hr'. rewrite dlook_dremove_other by exact Hr'. apply dlook_dstore_other. exact Hr.
  - rewrite (str_eqb_neq _ _ Hpq) in Hm. exists b. split; [reflexivity|]. split; [reflexivity|].
    injection Hm as <-. destruct copy.
    + split; [apply dlook_dstore_same|]. split; [rewrite dlook_dstore_other by exact Hpq; exact Eb|].
      intros r Hr _. apply dlook_dstore_other. exact Hr.
    + split; [rewrite dlook_dremove_other by congruence; apply dlook_dstore_same|].
      split; [apply dlook_dremove_same|].
      intros r Hr Hr'. rewrite dlook_dremove_other by exact Hr'. apply dlook_dstore_other. exact Hr.
Qed.

(* what is said about one selected file and its target name *)
Definition moved (F G : fset) (copy : bool) (conv : option (Data -> Data)) (d d' : disk) (en : entry) (q : str) : Prop :=
  target G en = Ok q /\
  exists b c, dlook (e_path en) d = Some b /\ new_content F G conv en q b = Good c /\
              dlook q d' = Some c /\ dlook (e_path en) d' = (if copy then Some b else None).

Lemma move_fold (F G : fset) copy conv : forall es qs (d d' : disk),
  Forall2 (fun en q => target G en = Ok q) es qs ->
  NoDup (map e_path es) -> NoDup qs ->
  (forall q, In q qs -> dlook q d = None) ->
  (forall en, In en es -> dlook (e_path en) d <> None) ->
  foldM (move1 F G copy conv) es d = Good d' ->
  Forall2 (moved F G copy conv d d') es qs /\
  (forall r, ~ In r (map e_path es) -> ~ In r qs -> dlook r d' = dlook r d).
Proof.
  intros es qs d d' H2. revert d d'. induction H2 as [|en q es qs Ht H2 IH]; intros d d' Np Nq Hfresh Hex Hf.
  - cbn in Hf. injection Hf as <-. split; [constructor|reflexivity].
  - cbn [C11_fsops.foldM] in Hf.
    destruct (move1 F G copy conv d en) as [d1|er] eqn:E1; [|discriminate].
    destruct (move1_spec F G copy conv d d1 en q Ht (Hfresh q (or_introl eq_refl)) E1)
      as (b & c & Hb & Hc & Hq1 & Hp1 & Hfr1).
    cbn [map] in Np. inversion Np as [|? ? Hp_notin Np']; subst. inversion Nq as [|? ? Hq_notin Nq']; subst.
    assert (Hsrc_ne_q : forall en', In en' es -> e_path en' <> q).
    { intros en' Hin E. apply (Hex en' (or_intror Hin)). rewrite E. apply Hfresh. left. reflexivity. }
    assert (Hsrc_ne_p : forall en', In en' es -> e_path en' <> e_path en).
    { intros en' Hin E. apply Hp_notin. rewrite <- E. apply in_map. exact Hin. }
    assert (Htgt_ne_p : forall q', In q' qs -> q' <> e_path en).
    { intros q' Hin E. subst q'. rewrite (Hfresh _ (or_intror Hin)) in Hb. discriminate. }
    assert (Htgt_ne_q : forall q', In q' qs -> q' <> q) by (intros q' Hin E; subst; contradiction).
    destruct (IH d1 d' Np' Nq') as (HF & Hfr); [| |exact Hf|].
    + intros q' Hin. rewrite Hfr1; [apply Hfresh; right; exact Hin|apply Htgt_ne_q; exact Hin|apply Htgt_ne_p; exact Hin].
    + intros en' Hin. rewrite Hfr1; [apply Hex; right; exact Hin|apply Hsrc_ne_q; exact Hin|apply Hsrc_ne_p; exact Hin].
    + assert (Hq_not_src : ~ In q (map e_path es)).
      { intro Hin. apply in_map_iff in Hin. destruct Hin as (en' & E & Hin). exact (Hsrc_ne_q en' Hin E). }
      assert (Hp_not_tgt : ~ In (e_path en) qs) by (intro Hin; exact (Htgt_ne_p _ Hin eq_refl)).
      split.
      * constructor.
        -- split; [exact Ht|]. exists b, c. split; [exact Hb|]. split; [exact Hc|]. split.
           ++ rewrite (Hfr q Hq_not_src Hq_notin). exact Hq1.
           ++ rewrite (Hfr (e_path en) Hp_notin Hp_not_tgt). exact Hp1.
        -- revert HF. apply Forall2_impl_in. intros en' q' Hin Hin' (Ht' & b' & c' & Hb' & Hc' & Hq' & Hp').
           split; [exact Ht'|]. exists b', c'. split; [|auto].
           rewrite <- Hb'. symmetry. apply Hfr1; [apply Hsrc_ne_q; exact Hin|apply Hsrc_ne_p; exact Hin].
      * intros r Hr Hr'. cbn in Hr, Hr'. rewrite Hfr by tauto. apply Hfr1; intro E; subst; tauto.
Qed.


(* find() returns the brute-force selection or raises *)
Lemma find_entries (F : fset) sl (d : disk) es : find F sl d = Good es -> es = entries F sl d.
Proof.
  unfold C11_fsops.find. destruct (s_files sl).
  - intro H. injection H as <-. reflexivity.
  - destruct (s_stop sl - 1 <? s_start sl); [discriminate|].
    destruct (entries F sl d) eqn:E; [discriminate|]. intro H. injection H as <-. reflexivity.
Qed.

(* selection by period and filters: exactly the files of the disk that the template parses, whose coverage
   meets [start, stop - 1us] and that pass the white and black lists; they exist and are distinct *)
Lemma entries_spec (F : fset) sl (d : disk) en : s_files sl = None ->
  (In en (entries F sl d) <->
   In (e_path en) (paths d) /\ finfo F (e_path en) = Ok (e_s en, e_e en, e_attr en) /\ selected_by sl en = true).
Proof.
  intro Hn. unfold C11_fsops.entries. rewrite Hn. rewrite filter_In, in_flat_map. split.
  - intros [(p & Hp & He) Hs]. unfold entry_of in He. destruct (finfo F p) as [[[s e] a]|er] eqn:Ei; [|contradiction].
    destruct He as [<-|[]]. cbn. auto.
  - intros (Hp & Hi & Hs). split; [|exact Hs]. exists (e_path en). split; [exact Hp|].
    unfold entry_of. rewrite Hi. left. destruct en; reflexivity.
Qed.
Lemma entry_of_path (F : fset) p en : In en (entry_of F p) -> e_path en = p.
Proof. unfold entry_of. destruct (finfo F p) as [[[s e] a]|]; [|contradiction]. intros [<-|[]]. reflexivity. Qed.
Lemma entries_nodup (F : fset) sl (d : disk) : s_files sl = None -> NoDup (paths d) ->
  NoDup (map e_path (entries F sl d)).
Proof.
  intros Hn Hd. unfold C11_fsops.entries. rewrite Hn.
  assert (H : forall ps, NoDup ps -> NoDup (map e_path (flat_map (entry_of F) ps)) /\ forall en, In en (flat_map (entry_of F) ps) -> In (e_path en) ps).
  { induction ps as [|p ps IH]; intro N; [split; [constructor|intros ? []]|].
    inversion N as [|? ? Hnot N']; subst. destruct (IH N') as [IH1 IH2]. cbn [flat_map]. split.
    - rewrite map_app. unfold entry_of at 1. destruct (finfo F p) as [[[s e] a]|]; [|exact IH1].
      cbn. constructor; [|exact IH1]. intro Hin. apply in_map_iff in Hin. destruct Hin as (en & E & Hin).
      apply IH2 in Hin. rewrite E in Hin. contradiction.
    - intros en Hin. apply in_app_or in Hin. destruct Hin as [Hin|Hin]; [left; symmetry; eapply entry_of_path; eauto|right; auto]. }
  destruct (H (paths d) Hd) as [H1 _].
  revert H1. generalize (flat_map (entry_of F) (paths d)). intro l. induction l as [|x l IH]; cbn; [constructor|].
  intro N. inversion N as [|? ? Hnot N']; subst. destruct (selected_by sl x); [|auto]. cbn. constructor; [|auto].
  intro Hin. apply Hnot. apply in_map_iff in Hin. destruct Hin as (y & E & Hy). apply filter_In in Hy.
  apply in_map_iff. exists y. tauto.
Qed.

Theorem move_conserves_thm (F G : fset) copy conv sl (d d' : disk) es qs :
  find F sl d = Good es ->
  Forall2 (fun en q => target G en = Ok q) es qs ->
  NoDup (map e_path es) -> NoDup qs ->
  (forall q, In q qs -> dlook q d = None) ->
  (forall en, In en es -> dlook (e_path en) d <> None) ->
  move F G copy conv sl d = Good d' ->
  Forall2 (moved F G copy conv d d') es qs /\ (forall r, ~ In r (map e_path es) -> ~ In r qs -> dlook r d' = dlook r d).
Proof.
  intros Hf H2 Np Nq Hfr Hex Hm. unfold C11_fsops.move in Hm. rewrite Hf in Hm. cbn [rbind] in Hm.
  eapply move_fold; eauto.
Qed.

(* for a selection by period and filters on a disk with unique names the side conditions on the sources hold *)
Theorem move_conserves_period_thm (F G : fset) copy conv sl (d d' : disk) qs :
  s_files sl = None -> NoDup (paths d) ->
  Forall2 (fun en q => target G en = Ok q) (entries F sl d) qs ->
  NoDup qs -> (forall q, In q qs -> dlook q d = None) ->
  move F G copy conv sl d = Good d' ->
  Forall2 (moved F G copy conv d d') (entries F sl d) qs /\ (forall r, ~ In r (map e_path (entries F sl d)) -> ~ In r qs -> dlook r d' = dlook r d).
Proof.
  intros Hn Nd H2 Nq Hfr Hm.
  assert (Hf : find F sl d = Good (entries F sl d)).
  { unfold C11_fsops.move in Hm. destruct (find F sl d) as [es|er] eqn:E; [|discriminate].
    f_equal. eapply find_entries. exact E. }
  eapply move_conserves_thm; eauto.
  - apply entries_nodup; assumption.
  - intros en Hin. apply dlook_in. apply (entries_spec F sl d en Hn). exact Hin.
Qed.

(* progress: when every file can be recoded the move does not raise *)
Lemma move_fold_total (F G : fset) copy conv : forall es qs (d : disk),
  Forall2 (fun en q => target G en = Ok q) es qs ->
  NoDup (map e_path es) -> NoDup qs ->
  (forall q, In q qs -> dlook q d = None) ->
  Forall2 (fun en q => exists b c, dlook (e_path en) d = Some b /\ new_content F G conv en q b = Good c) es qs ->
  exists d', foldM (move1 F G copy conv) es d = Good d'.
Proof.
  intros es qs d H2. revert d. induction H2 as [|en q es qs Ht H2 IH]; intros d Np Nq Hfresh Hall.
  - exists d. reflexivity.
  - inversion Hall as [|? ? ? ? (b & c & Hb & Hc) Hall']; subst.
    cbn [map] in Np. inversion Np as [|? ? Hp_notin Np']; subst. inversion Nq as [|? ? Hq_notin Nq']; subst.
    assert (Hpq : e_path en <> q).
    { intro E. rewrite E in Hb. rewrite (Hfresh q (or_introl eq_refl)) in Hb. discriminate. }
    assert (E1 : exists d1, move1 F G copy conv d en = Good d1 /\ (forall r, r <> q -> r <> e_path en -> dlook r d1 = dlook r d)).
    { unfold C11_fsops.move1. rewrite Ht, Hb. unfold new_content in Hc. destruct conv as [f|].
      - rewrite Hc. cbn [rbind]. eexists. split; [reflexivity|]. intros r Hr Hr'. destruct copy.
        + apply dlook_dstore_other. exact Hr.
        + rewrite dlook_dremove_other by exact Hr'. apply dlook_dstore_other. exact Hr.
      - rewrite (str_eqb_neq _ _ Hpq). eexists. split; [reflexivity|]. intros r Hr Hr'. destruct copy.
        + apply dlook_dstore_other. exact Hr.
        + rewrite dlook_dremove_other by exact Hr'. apply dlook_dstore_other. exact Hr. }
    destruct E1 as (d1 & E1 & Hfr1). cbn [C11_fsops.foldM]. rewrite E1.
    apply (IH d1 Np' Nq').
    + intros q' Hin. rewrite Hfr1; [apply Hfresh; right; exact Hin|intro; subst; contradiction|].
      intro E. subst q'. rewrite (Hfresh _ (or_intror Hin)) in Hb. discriminate.
    + revert Hall'. apply Forall2_impl_in. intros en' q' Hin Hin' (b' & c' & Hb' & Hc'). exists b', c'. split; [|exact Hc'].
      rewrite Hfr1; [exact Hb'| |].
      * intro E. rewrite E in Hb'. rewrite (Hfresh q (or_introl eq_refl)) in Hb'. discriminate.
      * intro E. apply Hp_notin. rewrite <- E. apply in_map. exact Hin.
Qed.

(* converted content reads back through the destination as post_G (f (post_F x)) *)
Theorem convert_reads_back_thm (F G : fset) f en en' b c y : codec_ok -> rargs G = wargs G -> zc G = zd G ->
  decode F en b = Good y -> recode F G f en (e_path en') b = Good c -> decode G en' c = Good (post G en' (f y)).
Proof.
  intros Hc Ha Hz Hd Hr. unfold C11_fsops.recode in Hr. rewrite Hd in Hr. cbn [rbind] in Hr.
  destruct (encode G (f y) (e_path en')) as [c'|] eqn:E; [|discriminate]. injection Hr as <-.
  eapply decode_encode; eauto.
Qed.

(* ------------------------------------------------------------------ delete *)

Definition memb (r : str) (l : list str) : bool := existsb (str_eqb r) l.

Lemma delete_fold : forall es (d d' : disk), foldM delete1 es d = Good d' ->
  forall r, dlook r d' = if memb r (map e_path es) then None else dlook r d.
Proof.
  induction es as [|en es IH]; intros d d' Hf r.
  - cbn in Hf. injection Hf as <-. reflexivity.
  - cbn [C11_fsops.foldM] in Hf. unfold C11_fsops.delete1 in Hf at 1.
    destruct (dlook (e_path en) d) as [b|]; [|discriminate].
    rewrite (IH _ _ Hf r). cbn [map memb existsb]. fold (memb r (map e_path es)).
    destruct (memb r (map e_path es)); [rewrite orb_true_r; reflexivity|]. rewrite orb_false_r.
    destruct (str_eqb r (e_path en)) eqn:E.
    + apply str_eqb_eq in E. subst r. apply dlook_dremove_same.
    + apply dlook_dremove_other. intro E'. subst r. rewrite str_eqb_refl in E. discriminate.
Qed.

Theorem delete_exact_thm (F : fset) sl (d d' : disk) : delete F false sl d = Good d' ->
  exists es, find F sl d = Good es /\ (forall en, In en es -> dlook (e_path en) d <> None /\ dlook (e_path en) d' = None) /\ (forall r, ~ In r (map e_path es) -> dlook r d' = dlook r d).
Proof.
  unfold C11_fsops.delete. destruct (find F sl d) as [es|er]; [|discriminate]. cbn [rbind]. intro Hf.
  exists es. split; [reflexivity|]. pose proof (delete_fold es d d' Hf) as H. split.
  - intros en Hin. split.
    + clear H. revert d Hf. induction es as [|x es IH]; [contradiction|]. intros d Hf. cbn [C11_fsops.foldM] in Hf.
      unfold C11_fsops.delete1 in Hf at 1. destruct (dlook (e_path x) d) as [b|] eqn:Eb; [|discriminate].
      destruct Hin as [<-|Hin]; [congruence|]. specialize (IH Hin _ Hf).
      intro E. apply IH. destruct (str_eqb (e_path en) (e_path x)) eqn:Ex.
      * apply str_eqb_eq in Ex. rewrite Ex. apply dlook_dremove_same.
      * rewrite dlook_dremove_other; [exact E|]. intro E'. rewrite E' in Ex. rewrite str_eqb_refl in Ex. discriminate.
    + rewrite H. replace (memb (e_path en) (map e_path es)) with true; [reflexivity|]. symmetry.
      apply existsb_exists. exists (e_path en). split; [apply in_map; exact Hin|apply str_eqb_refl].
  - intros r Hr. rewrite H. replace (memb r (map e_path es)) with false; [reflexivity|]. symmetry.
    apply not_true_is_false. intro E. apply existsb_exists in E. destruct E as (x & Hx & Ex).
    apply str_eqb_eq in Ex. subst x. contradiction.
Qed.

Theorem dry_run_noop_thm (F : fset) sl (d d' : disk) : delete F true sl d = Good d' -> d' = d.
Proof.
  unfold C11_fsops.delete. destruct (find F sl d); [|discriminate]. cbn [rbind]. intro H. injection H as <-. reflexivity.
Qed.


(* ------------------------------------------------------------------ histories: nothing else is touched *)

Lemma move1_frame (F G : fset) copy conv (d d' : disk) en r : move1 F G copy conv d en = Good d' ->
  (copy = false -> r <> e_path en) -> (forall q, target G en = Ok q -> r <> q) -> dlook r d' = dlook r d.
Proof.
  intros Hm Hp Hq. unfold C11_fsops.move1 in Hm. destruct (target G en) as [q|er]; [|discriminate].
  specialize (Hq q eq_refl). destruct (dlook (e_path en) d) as [b|]; [|discriminate].
  assert (Hgen : forall c, dlook r (if copy then dstore q c d else dremove (e_path en) (dstore q c d)) = dlook r d).
  { intro c. destruct copy.
    - apply dlook_dstore_other. exact Hq.
    - rewrite dlook_dremove_other by (apply Hp; reflexivity). apply dlook_dstore_other. exact Hq. }
  destruct conv as [f|].
  - destruct (recode F G f en q b) as [c|]; cbn [rbind] in Hm; [|discriminate]. injection Hm as <-. apply Hgen.
  - destruct (str_eqb (e_path en) q).
    + destruct copy; [discriminate|]. injection Hm as <-. reflexivity.
    + injection Hm as <-. apply Hgen.
Qed.

Lemma move_fold_frame (F G : fset) copy conv r : forall es (d d' : disk),
  foldM (move1 F G copy conv) es d = Good d' ->
  (copy = false -> ~ In r (map e_path es)) -> ~ In r (targets_of G es) -> dlook r d' = dlook r d.
Proof.
  induction es as [|en es IH]; intros d d' Hf Hp Hq.
  - cbn in Hf. injection Hf as <-. reflexivity.
  - cbn [C11_fsops.foldM] in Hf. destruct (move1 F G copy conv d en) as [d1|] eqn:E1; [|discriminate].
    cbn [targets_of flat_map] in Hq. rewrite in_app_iff in Hq.
    rewrite (IH d1 d' Hf).
    + eapply move1_frame; eauto.
      * intros Hc E. apply (Hp Hc). left. symmetry. exact E.
      * intros q Ht E. apply Hq. left. rewrite Ht. left. symmetry. exact E.
    + intros Hc Hin. apply (Hp Hc). right. exact Hin.
    + intro Hin. apply Hq. right. exact Hin.
Qed.

Theorem step_frame_thm o (d d' : disk) ob r : step o d = Good (d', ob) -> ~ In r (touched o d) ->
  dlook r d' = dlook r d.
Proof.
  intros Hs Hr. destruct o; cbn [C11_fsops.step C11_fsops.touched] in Hs, Hr.
  - destruct (render (tpl F) s e (fill_of fill)) as [p|]; [|discriminate].
    unfold C11_fsops.write_file in Hs. destruct (encode F x p) as [b|]; [|discriminate]. cbn [rbind] in Hs.
    injection Hs as <- _. apply dlook_dstore_other. intro E. apply Hr. left. symmetry. exact E.
  - unfold C11_fsops.write_file in Hs. destruct (encode F x p) as [b|]; [|discriminate]. cbn [rbind] in Hs.
    injection Hs as <- _. apply dlook_dstore_other. intro E. apply Hr. left. symmetry. exact E.
  - destruct (read_file F en d); [|discriminate]. injection Hs as <- _. reflexivity.
  - destruct (render (tpl F) t t []) as [p|].
    + destruct (dlook p d); [destruct (entry_of F p) as [|en0 l0]|].
      * injection Hs as <- _. reflexivity.
      * destruct (read_file F en0 d); [|discriminate]. injection Hs as <- _. reflexivity.
      * injection Hs as <- _. reflexivity.
    + injection Hs as <- _. reflexivity.
  - destruct (find F sl d) as [es|]; [|discriminate]. cbn [rbind] in Hs.
    destruct (mapM _ _) ; [|discriminate]. injection Hs as <- _. reflexivity.
  - destruct (find F sl d) as [es|]; [|discriminate]. injection Hs as <- _. reflexivity.
  - destruct (move F G copy conv sl d) as [d1|] eqn:Em; [|discriminate]. injection Hs as <- _.
    unfold C11_fsops.move in Em. destruct (find F sl d) as [es|] eqn:Ef; [|discriminate]. cbn [rbind] in Em.
    apply find_entries in Ef. subst es. rewrite in_app_iff in Hr.
    eapply move_fold_frame; eauto.
    intros -> Hin. apply Hr. left. exact Hin.
  - destruct (delete F dry sl d) as [d1|] eqn:Em; [|discriminate]. injection Hs as <- _.
    unfold C11_fsops.delete in Em. destruct (find F sl d) as [es|] eqn:Ef; [|discriminate]. cbn [rbind] in Em.
    apply find_entries in Ef. subst es. destruct dry.
    + injection Em as <-. reflexivity.
    + rewrite (delete_fold _ _ _ Em r). replace (memb r (map e_path (entries F sl d))) with false; [reflexivity|].
      symmetry. apply not_true_is_false. intro E. apply existsb_exists in E. destruct E as (x & Hx & Ex).
      apply str_eqb_eq in Ex. subst x. contradiction.
Qed.

(* along a history: r is touched by no operation (each judged on the disk it runs on) *)
Fixpoint untouched (r : str) (ops : list (op Data)) (d : disk) : Prop :=
  match ops with
  | [] => True
  | o :: ops' => ~ In r (touched o d) /\
                 match step o d with Good (d1, _) => untouched r ops' d1 | Bad _ => True end
  end.

Theorem run_frame_thm r : forall ops (d d' : disk), run ops d = Good d' -> untouched r ops d -> dlook r d' = dlook r d.
Proof.
  induction ops as [|o ops IH]; intros d d' Hr Hu.
  - cbn in Hr. injection Hr as <-. reflexivity.
  - cbn [C11_fsops.run] in Hr. cbn [untouched] in Hu. destruct Hu as [Hn Hu].
    destruct (step o d) as [[d1 ob]|] eqn:Es; [|discriminate]. cbn [rbind fst] in Hr.
    rewrite (IH d1 d' Hr Hu). eapply step_frame_thm; eauto.
Qed.


(* ------------------------------------------------------------------ the boolean hypotheses checked per case *)

Lemma nodupb_sound l : nodupb l = true -> NoDup l.
Proof.
  induction l as [|x l IH]; cbn; [constructor|]. intro H. apply andb_true_iff in H. destruct H as [H1 H2].
  constructor; [|auto]. intro Hin. apply negb_true_iff in H1.
  assert (E : existsb (str_eqb x) l = true) by (apply existsb_exists; exists x; split; [exact Hin|apply str_eqb_refl]).
  congruence.
Qed.

Lemma targets_length (G : fset) es : (List.length (targets_of G es) <= List.length es)%nat.
Proof.
  induction es as [|en es IH]; cbn [targets_of flat_map List.length]; [lia|]. rewrite app_length.
  fold (targets_of G es). destruct (target G en); cbn [List.length]; lia.
Qed.
Lemma targets_all (G : fset) es : List.length (targets_of G es) = List.length es ->
  Forall2 (fun en q => target G en = Ok q) es (targets_of G es).
Proof.
  induction es as [|en es IH]; cbn [targets_of flat_map]; [constructor|]. fold (targets_of G es).
  rewrite app_length. pose proof (targets_length G es) as Hl. destruct (target G en) as [q|er] eqn:E; cbn [List.length app].
  - intro H. constructor; [exact E|]. apply IH. lia.
  - intro H. lia.
Qed.

Theorem move_hyp_sound_thm (F G : fset) sl (d : disk) : move_hyp Data Bytes F G sl d = true ->
  let es := entries F sl d in let qs := targets_of G es in
  Forall2 (fun en q => target G en = Ok q) es qs /\ NoDup (map e_path es) /\ NoDup qs /\
  (forall q, In q qs -> dlook q d = None).
Proof.
  unfold move_hyp. intro H. repeat (apply andb_true_iff in H; destruct H as [H ?]).
  cbv zeta. split; [apply targets_all; apply Nat.eqb_eq; assumption|].
  split; [apply nodupb_sound; assumption|]. split; [apply nodupb_sound; assumption|].
  intros q Hin. match goal with Hf : forallb _ _ = true |- _ => rewrite forallb_forall in Hf; specialize (Hf q Hin) end.
  unfold fresh in *. destruct (dlook q d); [discriminate|reflexivity].
Qed.


(* ------------------------------------------------------------------ written files are found: every way of spelling the end *)

(* whatever a selection reports, it reports under the times and attributes the file's name parses to *)
Lemma entries_parsed (F : fset) sl (d : disk) en : In en (entries F sl d) ->
  finfo F (e_path en) = Ok (e_s en, e_e en, e_attr en).
Proof.
  intro H. assert (H' : exists p, In en (entry_of F p)).
  { unfold C11_fsops.entries in H. destruct (s_files sl) as [ps|].
    - apply in_flat_map in H. destruct H as (p & _ & H0). eauto.
    - apply filter_In in H. destruct H as [H0 _]. apply in_flat_map in H0. destruct H0 as (p & _ & H0). eauto. }
  clear H. destruct H' as (p & H). unfold entry_of in H. destruct (finfo F p) as [[[s e] a]|er] eqn:E; [|contradiction].
  destruct H as [<-|[]]. cbn [e_path e_s e_e e_attr]. exact E.
Qed.

Lemma found_exactly (F : fset) sl (d : disk) p s e at_ en : finfo F p = Ok (s, e, at_) ->
  In en (entries F sl d) -> e_path en = p -> en = En p s e at_.
Proof.
  intros Hi Hin Hp. apply entries_parsed in Hin. rewrite Hp, Hi in Hin. destruct en as [p' s' e' a']. cbn in *.
  injection Hin as -> -> ->. subst p'. reflexivity.
Qed.

Lemma not_found_when_rejected (F : fset) sl (d : disk) p er en : finfo F p = Error er ->
  In en (entries F sl d) -> e_path en <> p.
Proof. intros Hi Hin Hp. apply entries_parsed in Hin. rewrite Hp, Hi in Hin. discriminate. Qed.

Lemma found_of_info (F : fset) x p (d d' : disk) s e at_ a b : finfo F p = Ok (s, e, at_) ->
  write_file F x p d = Good d' -> s <= b - 1 -> a <= e -> In (En p s e at_) (entries F (Sel a b [] [] None) d').
Proof.
  intros Hi Hw Hb Ha.
  unfold C11_fsops.write_file in Hw. destruct (encode F x p) as [c|]; [|discriminate]. injection Hw as <-.
  unfold C11_fsops.entries. cbn [s_files]. apply filter_In. split.
  - apply in_flat_map. exists p. split; [cbn; left; reflexivity|]. unfold entry_of. rewrite Hi. left. reflexivity.
  - unfold selected_by. cbn [e_s e_e e_attr s_start s_stop s_white s_black white_ok black_ok forallb].
    rewrite !andb_true_r. apply andb_true_iff. split; apply Z.leb_le; assumption.
Qed.

Notation fcfg F := (Cfg ViaFilename (cov F) None None []).

(* only sub-day end fields: the hypotheses are exactly those of C02.roundtrip_end_partial *)
Theorem written_is_found_partial_thm (F : fset) x s e fill p (d d' : disk) :
  start_ok (tpl F) s -> valid e -> s <= e -> end_partial (tpl F) = true -> deterministic fill (tpl F) = true ->
  render (tpl F) s e fill = Ok p -> write_file F x p d = Good d' ->
  exists r at_, complete (tpl F) (fields s) (fields e) = Some r /\ attrs_are fill (tpl F) at_ /\
    let e' := roll (unit_above (tpl F)) s r in
    if validb e'
    then finfo F p = Ok (s, e', at_) /\
         (forall a b, s <= b - 1 -> a <= e' -> In (En p s e' at_) (entries F (Sel a b [] [] None) d')) /\
         (forall sl en, In en (entries F sl d') -> e_path en = p -> en = En p s e' at_)
    else finfo F p = Error EOverflow /\ (forall sl en, In en (entries F sl d') -> e_path en <> p).
Proof.
  intros Hs Ve Hse Hpart Hdet Hren Hw.
  destruct (roundtrip_end_partial_le_thm (fcfg F) (tpl F) s e fill p Hs Ve Hse Hpart Hdet eq_refl Hren)
    as (r & at_ & Hc & Hat & Hi).
  exists r, at_. split; [exact Hc|]. split; [exact Hat|]. cbv zeta.
  fold (finfo F p) in Hi. destruct (validb (roll (unit_above (tpl F)) s r)).
  - split; [exact Hi|]. split.
    + intros a b Hb Ha. eapply found_of_info; eauto.
    + intros sl en. apply found_exactly. exact Hi.
  - split; [exact Hi|]. intros sl en. eapply not_found_when_rejected. exact Hi.
Qed.

(* the exact class: hypotheses exactly those of C02.roundtrip_end_partial_exact; the period is (s, e) itself *)
Theorem written_is_found_exact_thm (F : fset) x s e fill p (d d' : disk) a b :
  start_ok (tpl F) s -> valid e -> end_partial (tpl F) = true -> end_exact (tpl F) (fields e) = true ->
  0 <= e - s < unit_above (tpl F) -> deterministic fill (tpl F) = true ->
  render (tpl F) s e fill = Ok p -> write_file F x p d = Good d' -> s <= b - 1 -> a <= e ->
  exists at_, attrs_are fill (tpl F) at_ /\ finfo F p = Ok (s, e, at_) /\
              In (En p s e at_) (entries F (Sel a b [] [] None) d') /\
              (forall sl en, In en (entries F sl d') -> e_path en = p -> en = En p s e at_).
Proof.
  intros Hs Ve Hpart Hex Hd Hdet Hren Hw Hb Ha.
  destruct (end_partial_exact_info_thm (fcfg F) (tpl F) s e fill p Hs Ve Hpart Hex Hd Hdet eq_refl Hren)
    as (at_ & Hat & Hi).
  fold (finfo F p) in Hi. exists at_. split; [exact Hat|]. split; [exact Hi|]. split.
  - eapply found_of_info; eauto.
  - intros sl en. apply found_exactly. exact Hi.
Qed.

(* no end fields: hypotheses exactly those of C02.no_end_fields; the period is (s, s + time_coverage) resp. (s, s) *)
Theorem written_is_found_no_end_thm (F : fset) x s e fill p (d d' : disk) :
  start_ok (tpl F) s -> valid e -> 1000 <= year (fields e) -> end_fields (tpl F) = [] ->
  deterministic fill (tpl F) = true -> render (tpl F) s e fill = Ok p -> write_file F x p d = Good d' ->
  exists at_, attrs_are fill (tpl F) at_ /\
    match (match cov F with Some c => add s c | None => Some s end) with
    | Some e' => finfo F p = Ok (s, e', at_) /\
                 (forall a b, s <= b - 1 -> a <= e' -> In (En p s e' at_) (entries F (Sel a b [] [] None) d')) /\
                 (forall sl en, In en (entries F sl d') -> e_path en = p -> en = En p s e' at_)
    | None => finfo F p = Error EOverflow /\ (forall sl en, In en (entries F sl d') -> e_path en <> p)
    end.
Proof.
  intros Hs Ve Hye Hne Hdet Hren Hw.
  destruct (no_end_fields_thm (fcfg F) (tpl F) s e fill p Hs Ve Hye Hne Hdet eq_refl Hren) as (at_ & Hat & Hi).
  fold (finfo F p) in Hi. cbn [coverage] in Hi. exists at_. split; [exact Hat|].
  assert (G : forall e', finfo F p = Ok (s, e', at_) ->
              finfo F p = Ok (s, e', at_) /\
              (forall a b, s <= b - 1 -> a <= e' -> In (En p s e' at_) (entries F (Sel a b [] [] None) d')) /\
              (forall sl en, In en (entries F sl d') -> e_path en = p -> en = En p s e' at_)).
  { intros e' H. split; [exact H|]. split.
    - intros a b Hb Ha. eapply found_of_info; eauto.
    - intros sl en. apply found_exactly. exact H. }
  destruct (cov F) as [c|].
  - destruct (add s c) as [e'|]; [apply G; exact Hi|].
    split; [exact Hi|]. intros sl en. eapply not_found_when_rejected. exact Hi.
  - apply G. exact Hi.
Qed.

(* the boolean the harness evaluates per write, and the one statement it stands for *)

Theorem written_is_found_law_thm (F : fset) x s e fill p (d d' : disk) :
  wif_hyp F s e fill = true -> render (tpl F) s e (fill_of fill) = Ok p -> write_file F x p d = Good d' ->
  (wif_exact F s e = true -> wif_period F s e = Some e) /\
  match wif_period F s e with
  | Some e' => exists at_, attrs_are (fill_of fill) (tpl F) at_ /\ finfo F p = Ok (s, e', at_) /\
                 (forall a b, s <= b - 1 -> a <= e' -> In (En p s e' at_) (entries F (Sel a b [] [] None) d')) /\
                 (forall sl en, In en (entries F sl d') -> e_path en = p -> en = En p s e' at_)
  | None => finfo F p = Error EOverflow /\ (forall sl en, In en (entries F sl d') -> e_path en <> p)
  end.
Proof.
  unfold wif_hyp. cbv zeta. intros H Hren Hw.
  apply andb_true_iff in H. destruct H as [H Hkind]. apply andb_true_iff in H. destruct H as [H Hdet].
  apply andb_true_iff in H. destruct H as [H Hse]. apply andb_true_iff in H. destruct H as [Hs Ve].
  apply start_okb_sound in Hs. apply validb_iff in Ve. apply Z.leb_le in Hse.
  pose proof Hs as (Vs & _ & Hrg & _).
  assert (Hye : 1000 <= year (fields e))
    by exact (Z.le_trans _ _ _ (in_range_1000 _ _ Hrg) (year_mono s e Vs Ve Hse)).  (* not lia: it would drag in every section variable *)
  pose proof (end_partial_not_full (tpl F)) as Hpart_nonempty.
  split.
  { (* the exact class *)
    unfold wif_exact. intro Hx. apply andb_true_iff in Hx. destruct Hx as [Hx Hlt]. apply andb_true_iff in Hx.
    destruct Hx as [Hx Hge]. apply andb_true_iff in Hx. destruct Hx as [Hpart Hex].
    apply Z.leb_le in Hge. apply Z.ltb_lt in Hlt.
    destruct (end_partial_exact_thm (tpl F) s e Hs Ve Hpart Hex (conj Hge Hlt)) as (r & Hc & Hr).
    destruct (Hpart_nonempty Hpart) as [Hne Hnf]. unfold wif_period. cbv zeta.
    destruct (end_fields (tpl F)) as [|f0 ef] eqn:Eef; [contradiction|]. rewrite Hnf, Hc, Hr.
    apply validb_iff in Ve. rewrite Ve. reflexivity. }
  apply orb_true_iff in Hkind. destruct Hkind as [Hkind|Hpart]; [apply orb_true_iff in Hkind; destruct Hkind as [Hne|Hfull]|].
  - (* no end fields *)
    destruct (end_fields (tpl F)) as [|f0 ef] eqn:Eef; [|discriminate].
    destruct (written_is_found_no_end_thm F x s e (fill_of fill) p d d' Hs Ve Hye Eef Hdet Hren Hw) as (at_ & Hat & Hm).
    unfold wif_period. cbv zeta. rewrite Eef.
    destruct (match cov F with Some c => add s c | None => Some s end) as [e'|]; [exists at_; split; [exact Hat|exact Hm]|exact Hm].
  - (* a complete end *)
    apply andb_true_iff in Hfull. destruct Hfull as [Hfull Hnp]. apply andb_true_iff in Hfull. destruct Hfull as [Hfull Har].
    apply andb_true_iff in Hfull. destruct Hfull as [Hfull Hre].
    destruct (roundtrip_end_full_thm (fcfg F) (tpl F) s e (fill_of fill) p Hs Ve Hse Hfull Hre Har Hnp Hdet eq_refl Hren)
      as (at_ & Hat & Hi).
    fold (finfo F p) in Hi. unfold wif_period. cbv zeta. rewrite Hfull.
    assert (Hne : end_fields (tpl F) <> []).
    { intro E. unfold end_full in Hfull. cbv zeta in Hfull. rewrite E in Hfull. cbn in Hfull. discriminate. }
    destruct (end_fields (tpl F)) as [|f0 ef]; [contradiction|].
    exists at_. split; [exact Hat|]. split; [exact Hi|]. split.
    + intros a b Hb Ha. eapply found_of_info; eauto.
    + intros sl en. apply found_exactly. exact Hi.
  - (* only sub-day end fields *)
    destruct (written_is_found_partial_thm F x s e (fill_of fill) p d d' Hs Ve Hse Hpart Hdet Hren Hw)
      as (r & at_ & Hc & Hat & Hm).
    destruct (Hpart_nonempty Hpart) as [Hne Hnf]. unfold wif_period. cbv zeta in Hm |- *.
    destruct (end_fields (tpl F)) as [|f0 ef] eqn:Eef; [contradiction|]. rewrite Hnf, Hc.
    destruct (validb (roll (unit_above (tpl F)) s r)); [exists at_; split; [exact Hat|exact Hm]|exact Hm].
Qed.

(* ------------------------------------------------------------------ an explicit selection that is empty *)

Theorem empty_selection_noop_thm (F G : fset) copy conv dry sl (d : disk) : s_files sl = Some [] ->
  find F sl d = Good [] /\ move F G copy conv sl d = Good d /\ delete F dry sl d = Good d /\
  step (OMove F G copy conv sl) d = Good (d, VNone) /\ step (ODelete F dry sl) d = Good (d, VNone).
Proof.
  intro H. assert (Hf : find F sl d = Good []) by (unfold C11_fsops.find, C11_fsops.entries; rewrite H; reflexivity).
  assert (Hm : move F G copy conv sl d = Good d) by (unfold C11_fsops.move; rewrite Hf; reflexivity).
  assert (Hd : delete F dry sl d = Good d) by (unfold C11_fsops.delete; rewrite Hf; destruct dry; reflexivity).
  split; [exact Hf|]. split; [exact Hm|]. split; [exact Hd|].
  cbn [C11_fsops.step]. rewrite Hm, Hd. split; reflexivity.
Qed.

(* an explicit selection is taken as it is: period, filters and the content of the disk play no role *)
Theorem explicit_selection_thm (F : fset) sl (d : disk) ps : s_files sl = Some ps ->
  find F sl d = Good (flat_map (entry_of F) ps).
Proof. intro H. unfold C11_fsops.find, C11_fsops.entries. rewrite H. reflexivity. Qed.

(* ------------------------------------------------------------------ a move whose conversion fails for some files *)

Notation recodep := (recodep Data Bytes enc dec pack unpack).
Notation move1p := (move1p Data Bytes enc dec pack unpack).
Notation move_part := (move_part Data Bytes enc dec pack unpack).
Notation movep := (movep Data Bytes enc dec pack unpack).
Notation move_given := (move_given Data Bytes enc dec pack unpack).
Notation failsb := (failsb Data Bytes enc dec pack unpack).
Notation foldP := (foldP Bytes).

(* the content the target gets, or why it gets none *)
Definition new_contentp (F G : fset) (conv : option (Data -> option Data)) (en : entry) (q : str) (b : Bytes) : res Bytes :=
  match conv with Some f => recodep F G f en q b | None => Good b end.

(* a conversion that never fails is the conversion of `move` *)
Lemma recodep_total (F G : fset) f (en : entry) q b : recodep F G (fun x => Some (f x)) en q b = recode F G f en q b.
Proof. reflexivity. Qed.
Lemma move1p_total (F G : fset) copy conv (d : disk) en :
  move1p F G copy (option_map (fun f x => Some (f x)) conv) d en = move1 F G copy conv d en.
Proof. destruct conv; reflexivity. Qed.

Lemma move1p_spec (F G : fset) copy conv (d d' : disk) en q :
  target G en = Ok q -> dlook q d = None -> move1p F G copy conv d en = Good d' ->
  exists b c, dlook (e_path en) d = Some b /\ new_contentp F G conv en q b = Good c /\
    dlook q d' = Some c /\ dlook (e_path en) d' = (if copy then Some b else None) /\
    (forall r, r <> q -> r <> e_path en -> dlook r d' = dlook r d).
Proof.
  intros Ht Hq Hm. unfold C11_fsops.move1p in Hm. rewrite Ht in Hm.
  destruct (dlook (e_path en) d) as [b|] eqn:Eb; [|discriminate].
  assert (Hpq : e_path en <> q) by (intro E; rewrite E in Eb; congruence).
  exists b. unfold new_contentp. destruct conv as [f|].
  - destruct (recodep F G f en q b) as [c|er] eqn:Er; cbn [rbind] in Hm; [|discriminate].
    exists c. split; [reflexivity|]. split; [reflexivity|]. injection Hm as <-. destruct copy.
    + split; [apply dlook_dstore_same|]. split; [rewrite dlook_dstore_other by exact Hpq; exact Eb|].
      intros r Hr _. apply dlook_dstore_other. exact Hr.
    + split; [rewrite dlook_dremove_other by congruence; apply dlook_dstore_same|].
      split; [apply dlook_dremove_same|].
      intros r Hr Hr'. rewrite dlook_dremove_other by exact Hr'. apply dlook_dstore_other. exact Hr.
  - rewrite (str_eqb_neq _ _ Hpq) in Hm. exists b. split; [reflexivity|]. split; [reflexivity|].
    injection Hm as <-. destruct copy.
    + split; [apply dlook_dstore_same|]. split; [rewrite dlook_dstore_other by exact Hpq; exact Eb|].
      intros r Hr _. apply dlook_dstore_other. exact Hr.
    + split; [rewrite dlook_dremove_other by congruence; apply dlook_dstore_same|].
      split; [apply dlook_dremove_same|].
      intros r Hr Hr'. rewrite dlook_dremove_other by exact Hr'. apply dlook_dstore_other. exact Hr.
Qed.

(* the files whose worker ran to its end, in whatever order: each of them is moved, nothing else has changed *)
Lemma movep_fold (F G : fset) copy conv : forall done (d d' : disk),
  (forall en, In en done -> exists q, target G en = Ok q /\ dlook q d = None) ->
  (forall en, In en done -> dlook (e_path en) d <> None) ->
  NoDup (map e_path done) ->
  (forall en1 en2 q, In en1 done -> In en2 done -> target G en1 = Ok q -> target G en2 = Ok q -> e_path en1 = e_path en2) ->
  foldM (move1p F G copy conv) done d = Good d' ->
  (forall en, In en done -> exists q b c, target G en = Ok q /\ dlook (e_path en) d = Some b /\
       new_contentp F G conv en q b = Good c /\ dlook q d' = Some c /\
       dlook (e_path en) d' = (if copy then Some b else None)) /\
  (forall r, ~ In r (map e_path done) -> (forall en q, In en done -> target G en = Ok q -> r <> q) -> dlook r d' = dlook r d).
Proof.
  induction done as [|en done IH]; intros d d' Hfresh Hex Np Hinj Hf.
  - cbn in Hf. injection Hf as <-. split; [intros ? []|reflexivity].
  - cbn [C11_fsops.foldM] in Hf.
    destruct (move1p F G copy conv d en) as [d1|er] eqn:E1; [|discriminate].
    destruct (Hfresh en (or_introl eq_refl)) as (q & Ht & Hq).
    destruct (move1p_spec F G copy conv d d1 en q Ht Hq E1) as (b & c & Hb & Hc & Hq1 & Hp1 & Hfr1).
    cbn [map] in Np. inversion Np as [|? ? Hp_notin Np']; subst.
    assert (Hsrc_ne_p : forall en', In en' done -> e_path en' <> e_path en).
    { intros en' Hin E. apply Hp_notin. rewrite <- E. apply in_map. exact Hin. }
    assert (Hsrc_ne_q : forall en', In en' done -> e_path en' <> q).
    { intros en' Hin E. apply (Hex en' (or_intror Hin)). rewrite E. exact Hq. }
    assert (Htgt_ne_q : forall en' q', In en' done -> target G en' = Ok q' -> q' <> q).
    { intros en' q' Hin Ht' E. subst q'. apply (Hsrc_ne_p en' Hin).
      apply (Hinj en' en q (or_intror Hin) (or_introl eq_refl) Ht' Ht). }
    assert (Htgt_ne_p : forall en' q', In en' done -> target G en' = Ok q' -> q' <> e_path en).
    { intros en' q' Hin Ht' E. destruct (Hfresh en' (or_intror Hin)) as (q2 & Ht2 & Hq2).
      rewrite Ht' in Ht2. injection Ht2 as <-. rewrite E in Hq2. rewrite Hq2 in Hb. discriminate. }
    destruct (IH d1 d') as (Hmoved & Hframe); [| |exact Np'| |exact Hf|].
    + intros en' Hin. destruct (Hfresh en' (or_intror Hin)) as (q' & Ht' & Hq'). exists q'. split; [exact Ht'|].
      rewrite Hfr1; [exact Hq'|exact (Htgt_ne_q en' q' Hin Ht')|exact (Htgt_ne_p en' q' Hin Ht')].
    + intros en' Hin. rewrite Hfr1; [apply Hex; right; exact Hin|exact (Hsrc_ne_q en' Hin)|exact (Hsrc_ne_p en' Hin)].
    + intros en1 en2 q' H1 H2. apply Hinj; right; assumption.
    + split.
      * intros en' [<-|Hin].
        -- exists q, b, c. split; [exact Ht|]. split; [exact Hb|]. split; [exact Hc|]. split.
           ++ rewrite Hframe; [exact Hq1| |].
              ** intro Hin. apply in_map_iff in Hin. destruct Hin as (en' & E & Hin). exact (Hsrc_ne_q en' Hin E).
              ** intros en' q' Hin Ht' E. exact (Htgt_ne_q en' q' Hin Ht' (eq_sym E)).
           ++ rewrite Hframe; [exact Hp1|exact Hp_notin|].
              intros en' q' Hin Ht' E. exact (Htgt_ne_p en' q' Hin Ht' (eq_sym E)).
        -- destruct (Hmoved en' Hin) as (q' & b' & c' & Ht' & Hb' & Hc' & Hq' & Hp').
           exists q', b', c'. split; [exact Ht'|]. split; [|split; [exact Hc'|split; [exact Hq'|exact Hp']]].
           rewrite <- Hb'. symmetry. apply Hfr1; [exact (Hsrc_ne_q en' Hin)|exact (Hsrc_ne_p en' Hin)].
      * intros r Hr Hrq. cbn [map In] in Hr. rewrite Hframe.
        -- apply Hfr1.
           ++ apply (Hrq en q (or_introl eq_refl) Ht).
           ++ intro E. apply Hr. left. symmetry. exact E.
        -- intro Hin. apply Hr. right. exact Hin.
        -- intros en' q' Hin Ht'. apply (Hrq en' q' (or_intror Hin) Ht').
Qed.

Lemma target_fun (G : fset) en q q' : target G en = Ok q -> target G en = Ok q' -> q = q'.
Proof. intros H H'. rewrite H in H'. injection H' as <-. reflexivity. Qed.

(* CONSERVATION WHEN A MOVE FAILS HALF WAY.  es = the selected files, qs their target names (pairwise distinct, fresh:
   the hypotheses of move_conserves); done = the files whose worker ran to its end, in the order they did. *)
Theorem move_failure_conserves_thm (F G : fset) copy conv (d d' : disk) es qs done :
  Forall2 (fun en q => target G en = Ok q) es qs ->
  NoDup (map e_path es) -> NoDup qs ->
  (forall q, In q qs -> dlook q d = None) ->
  (forall en, In en es -> dlook (e_path en) d <> None) ->
  incl done es -> NoDup (map e_path done) ->
  move_part F G copy conv done d = Good d' ->
  Forall2 (fun en q => target G en = Ok q /\ exists b, dlook (e_path en) d = Some b /\
      ((In en done /\ exists c, new_contentp F G conv en q b = Good c /\ dlook q d' = Some c /\
                                 dlook (e_path en) d' = (if copy then Some b else None))
       \/ (~ In en done /\ dlook (e_path en) d' = Some b /\ dlook q d' = None))) es qs /\
  (forall en q b e, In en es -> target G en = Ok q -> dlook (e_path en) d = Some b ->
                    new_contentp F G conv en q b = Bad e -> ~ In en done) /\
  (forall r, ~ In r (map e_path es) -> ~ In r qs -> dlook r d' = dlook r d).
Proof.
  intros H2 Np Nq Hfresh Hex Hincl Npd Hm. unfold C11_fsops.move_part in Hm.
  assert (Hinj : forall en1 en2 q, In en1 es -> In en2 es -> target G en1 = Ok q -> target G en2 = Ok q -> en1 = en2).
  { intros en1 en2 q H1 H2' T1 T2.
    exact (forall2_inj (fun en q => target G en = Ok q) es qs (target_fun G) H2 Nq en1 en2 q H1 H2' T1 T2). }
  assert (Htq : forall en, In en es -> exists q, In q qs /\ target G en = Ok q).
  { intros en Hin. exact (forall2_in_l _ es qs en H2 Hin). }
  destruct (movep_fold F G copy conv done d d') as (Hmoved & Hframe); [| | exact Npd | | exact Hm |].
  - intros en Hin. destruct (Htq en (Hincl en Hin)) as (q & Hq & Ht). exists q. split; [exact Ht|apply Hfresh; exact Hq].
  - intros en Hin. apply Hex. apply Hincl. exact Hin.
  - intros en1 en2 q H1 H2' T1 T2. f_equal. exact (Hinj en1 en2 q (Hincl _ H1) (Hincl _ H2') T1 T2).
  - (* a file of es whose path is a path of done is in done *)
    assert (Hdone_path : forall en, In en es -> In (e_path en) (map e_path done) -> In en done).
    { intros en Hin Hp. apply in_map_iff in Hp. destruct Hp as (en' & E & Hin').
      rewrite <- (nodup_map_inj e_path es en' en Np (Hincl _ Hin') Hin E). exact Hin'. }
    assert (Hrest : forall en q, In en es -> target G en = Ok q -> ~ In en done ->
                      dlook (e_path en) d' = dlook (e_path en) d /\ dlook q d' = dlook q d).
    { intros en q Hin Ht Hnot. split.
      - apply Hframe.
        + intro Hp. apply Hnot. apply Hdone_path; assumption.
        + intros en' q' Hin' Ht' E. destruct (Htq en' (Hincl _ Hin')) as (q2 & Hq2 & Ht2).
          rewrite (target_fun G en' q' q2 Ht' Ht2) in E. apply (Hex en Hin). rewrite E. apply Hfresh. exact Hq2.
      - apply Hframe.
        + intro Hp. apply in_map_iff in Hp. destruct Hp as (en' & E & Hin').
          apply (Hex en' (Hincl _ Hin')). rewrite E. destruct (Htq en Hin) as (q2 & Hq2 & Ht2).
          rewrite (target_fun G en q q2 Ht Ht2). apply Hfresh. exact Hq2.
        + intros en' q' Hin' Ht' E. subst q'. apply Hnot.
          rewrite (Hinj en en' q Hin (Hincl _ Hin') Ht Ht'). exact Hin'. }
    split; [|split].
    + apply (forall2_forall (fun en q => target G en = Ok q)); [exact H2|].
      intros en q Hin Hq Ht. split; [exact Ht|].
      destruct (dlook (e_path en) d) as [b|] eqn:Eb; [|exfalso; exact (Hex en Hin Eb)].
      exists b. split; [reflexivity|].
      destruct (memb (e_path en) (map e_path done)) eqn:Em.
      * left. apply existsb_exists in Em. destruct Em as (p' & Hp' & E). apply str_eqb_eq in E. subst p'.
        pose proof (Hdone_path en Hin Hp') as Hd. split; [exact Hd|].
        destruct (Hmoved en Hd) as (q' & b' & c' & Ht' & Hb' & Hc' & Hq' & Hpp').
        rewrite (target_fun G en q q' Ht Ht'). rewrite Eb in Hb'. injection Hb' as <-.
        exists c'. split; [exact Hc'|]. split; [exact Hq'|exact Hpp'].
      * right. assert (Hnot : ~ In en done).
        { intro Hd. assert (E : memb (e_path en) (map e_path done) = true).
          { apply existsb_exists. exists (e_path en). split; [apply in_map; exact Hd|apply str_eqb_refl]. }
          rewrite E in Em. discriminate. }
        split; [exact Hnot|]. destruct (Hrest en q Hin Ht Hnot) as [Hs Hqq]. split.
        -- rewrite Hs. exact Eb.
        -- rewrite Hqq. apply Hfresh. exact Hq.
    + intros en q b e Hin Ht Hb Hbad Hd.
      destruct (Hmoved en Hd) as (q' & b' & c' & Ht' & Hb' & Hc' & _).
      rewrite (target_fun G en q' q Ht' Ht) in Hc'. rewrite Hb in Hb'. injection Hb' as <-.
      rewrite Hbad in Hc'. discriminate.
    + intros r Hr Hrq. apply Hframe.
      * intro Hp. apply Hr. apply in_map_iff in Hp. destruct Hp as (en' & E & Hin'). apply in_map_iff.
        exists en'. split; [exact E|apply Hincl; exact Hin'].
      * intros en' q' Hin' Ht' E. subst q'. apply Hrq. destruct (Htq en' (Hincl _ Hin')) as (q2 & Hq2 & Ht2).
        rewrite (target_fun G en' r q2 Ht' Ht2). exact Hq2.
Qed.

(* workers one after the other: the files before the first failing one are done, the rest is not begun *)
Lemma foldP_prefix {A} (f : disk -> A -> res disk) : forall l (d d' : disk) r, foldP f l d = (d', r) ->
  exists done rest, l = done ++ rest /\ C11_fsops.foldM Bytes f done d = Good d' /\
    match r with
    | None => rest = []
    | Some e => exists x rest', rest = x :: rest' /\ f d' x = Bad e
    end.
Proof.
  induction l as [|x l IH]; intros d d' r H.
  - cbn in H. injection H as <- <-. exists [], []. split; [reflexivity|]. split; reflexivity.
  - cbn [C11_fsops.foldP] in H. destruct (f d x) as [d1|e] eqn:E.
    + destruct (IH d1 d' r H) as (done & rest & -> & Hf & Hr). exists (x :: done), rest.
      split; [reflexivity|]. split; [cbn [C11_fsops.foldM]; rewrite E; exact Hf|exact Hr].
    + injection H as <- <-. exists [], (x :: l). split; [reflexivity|]. split; [reflexivity|].
      exists x, l. split; [reflexivity|exact E].
Qed.

Theorem move_sequential_thm (F G : fset) copy conv sl (d d' : disk) r :
  movep F G copy conv sl d = Good (d', r) ->
  exists es done rest, find F sl d = Good es /\ es = done ++ rest /\ move_part F G copy conv done d = Good d' /\
    match r with
    | None => rest = []
    | Some e => exists en rest', rest = en :: rest' /\ move1p F G copy conv d' en = Bad e
    end.
Proof.
  unfold C11_fsops.movep. destruct (find F sl d) as [es|er]; [|discriminate]. cbn [rbind]. intro H. injection H as H.
  destruct (foldP_prefix _ es d d' r H) as (done & rest & E & Hf & Hr).
  exists es, done, rest. split; [reflexivity|]. split; [exact E|]. split; [exact Hf|exact Hr].
Qed.

(* ---- the form the harness evaluates on the tree d' it observes after a move (that raised or not) *)
Theorem move_given_sound_thm (F G : fset) copy conv sl (d d' d'' : disk) :
  movep_hyp Data Bytes F G sl d = true ->
  move_given F G copy conv sl d d' = Good d'' -> (forall r, dlook r d'' = dlook r d') ->
  let es := entries F sl d in
  find F sl d = Good es /\
  (forall en, In en es -> exists q b, target G en = Ok q /\ dlook (e_path en) d = Some b /\
      ((exists c, new_contentp F G conv en q b = Good c /\ dlook q d' = Some c /\
                  dlook (e_path en) d' = (if copy then Some b else None))
       \/ (dlook (e_path en) d' = Some b /\ dlook q d' = None)) /\
      (forall e, new_contentp F G conv en q b = Bad e -> dlook (e_path en) d' = Some b /\ dlook q d' = None)) /\
  (forall r, ~ In r (map e_path es) -> ~ In r (targets_of G es) -> dlook r d' = dlook r d).
Proof.
  intros Hh Hm Heq. cbv zeta. unfold C11_fsops.movep_hyp in Hh. apply andb_true_iff in Hh. destruct Hh as [Hh Hexb].
  destruct (move_hyp_sound_thm F G sl d Hh) as (H2 & Np & Nq & Hfresh).
  cbv zeta in H2, Np, Nq, Hfresh.
  unfold C11_fsops.move_given in Hm. destruct (find F sl d) as [es|er] eqn:Ef; [|discriminate]. cbn [rbind] in Hm.
  pose proof (find_entries F sl d es Ef) as ->. split; [reflexivity|].
  assert (Hex : forall en, In en (entries F sl d) -> dlook (e_path en) d <> None).
  { intros en Hin. rewrite forallb_forall in Hexb. specialize (Hexb en Hin). unfold fresh in Hexb.
    destruct (dlook (e_path en) d); [discriminate|discriminate Hexb]. }
  destruct (move_failure_conserves_thm F G copy conv d d'' (entries F sl d) (targets_of G (entries F sl d))
              (filter (arrivedb Data Bytes G d') (entries F sl d)) H2 Np Nq Hfresh Hex)
    as (Hall & Hfail & Hframe).
  - intros en Hin. apply filter_In in Hin. apply Hin.
  - apply nodup_map_filter. exact Np.
  - exact Hm.
  - split.
    + intros en Hin. destruct (forall2_in_l _ _ _ en Hall Hin) as (q & Hq & Ht & b & Hb & Hc).
      exists q, b. split; [exact Ht|]. split; [exact Hb|]. rewrite <- !Heq. split.
      * destruct Hc as [(_ & c & Hc1 & Hc2 & Hc3)|(_ & Hs & Hn)]; [left; exists c; auto|right; auto].
      * intros e Hbad. destruct Hc as [(Hd & _)|(_ & Hs & Hn)]; [|auto].
        exfalso. exact (Hfail en q b e Hin Ht Hb Hbad Hd).
    + intros r Hr Hrq. rewrite <- Heq. apply Hframe; assumption.
Qed.

(* ------------------------------------------------------------------ post_reader is handed the file's own FileInfo *)

Notation handler_read := (handler_read Data Bytes dec unpack).

(* reading = what the handler returns for the (decompressed) content, then post_reader on the FileInfo handed in *)
Lemma decode_factor (F : fset) en b :
  decode F en b = rbind (handler_read F (e_path en) b) (fun x => Good (post F en x)).
Proof.
  unfold C11_fsops.decode, C11_fsops.handler_read.
  destruct (match (if zd F then zfmt (e_path en) else None) with Some f => unpack f b | None => Some b end) as [raw|]; [|reflexivity].
  destruct (dec (hid F) (rargs F) raw); reflexivity.
Qed.

Theorem read_own_entry_thm (F : fset) en (d : disk) :
  read_file F en d = match dlook (e_path en) d with
                     | None => Bad ENoFile
                     | Some b => rbind (handler_read F (e_path en) b) (fun x => Good (post F en x))
                     end /\
  step (ORead F en) d = rbind (read_file F en d) (fun x => Good (d, VData x)).
Proof.
  split; [|reflexivity]. unfold C11_fsops.read_file. destruct (dlook (e_path en) d); [apply decode_factor|reflexivity].
Qed.

(* fileset[t], exact-name short cut: the FileInfo is get_info(name) -- the entry the name parses to *)
Theorem get_own_entry_thm (F : fset) t p s e a b (d : disk) :
  render (tpl F) t t [] = Ok p -> dlook p d = Some b -> finfo F p = Ok (s, e, a) ->
  step (OGet F t) d = rbind (handler_read F p b) (fun x => Good (d, VData (post F (En p s e a) x))).
Proof.
  intros Hr Hb Hi. cbn [C11_fsops.step]. rewrite Hr, Hb. unfold C11_fsops.entry_of. rewrite Hi.
  unfold C11_fsops.read_file. cbn [e_path]. rewrite Hb. rewrite decode_factor. cbn [e_path].
  destruct (handler_read F p b); reflexivity.
Qed.

(* collect / fileset[s:e]: every file found is read, each through post_reader with ITS OWN entry *)
Lemma mapM_forall2 {A B} (f : A -> res B) : forall l r, mapM f l = Good r -> Forall2 (fun a b => f a = Good b) l r.
Proof.
  induction l as [|x l IH]; intros r H.
  - cbn in H. injection H as <-. constructor.
  - cbn [C11_fsops.mapM] in H. destruct (f x) as [y|] eqn:E; [|discriminate]. cbn [rbind] in H.
    destruct (mapM f l) as [ys|]; [|discriminate]. cbn [rbind] in H. injection H as <-.
    constructor; [exact E|apply IH; reflexivity].
Qed.

Theorem collect_own_entries_thm (F : fset) sl (d d' : disk) l :
  step (OCollect F sl) d = Good (d', VList l) ->
  d' = d /\ exists es, find F sl d = Good es /\
  Forall2 (fun en py => fst py = e_path en /\ finfo F (e_path en) = Ok (e_s en, e_e en, e_attr en) /\
                        exists b x, dlook (e_path en) d = Some b /\ handler_read F (e_path en) b = Good x /\
                                    snd py = post F en x) es l.
Proof.
  cbn [C11_fsops.step]. destruct (find F sl d) as [es|] eqn:Ef; [|discriminate]. cbn [rbind].
  destruct (mapM _ es) as [l0|] eqn:Em; [|discriminate]. cbn [rbind]. intro H. injection H as <- <-.
  split; [reflexivity|]. exists es. split; [reflexivity|].
  apply mapM_forall2 in Em. pose proof (find_entries F sl d es Ef) as Hes.
  revert Em. apply Forall2_impl_in. intros en py Hin _ H.
  destruct (read_own_entry_thm F en d) as [Hr _]. rewrite Hr in H.
  destruct (dlook (e_path en) d) as [b|]; [|discriminate].
  destruct (handler_read F (e_path en) b) as [x|] eqn:Eh; [|discriminate]. cbn [rbind] in H. injection H as <-.
  split; [reflexivity|]. split; [apply (entries_parsed F sl d); rewrite <- Hes; exact Hin|].
  exists b, x. split; [reflexivity|]. split; [exact Eh|reflexivity].
Qed.

(* move(convert=f): the file is read through the source -- post_reader with the entry of the file itself -- before f *)
Theorem convert_own_entry_thm (F G : fset) f en q b c :
  new_content F G (Some f) en q b = Good c ->
  exists x, handler_read F (e_path en) b = Good x /\ encode G (f (post F en x)) q = Some c.
Proof.
  unfold new_content, C11_fsops.recode. rewrite decode_factor.
  destruct (handler_read F (e_path en) b) as [x|]; [|discriminate]. cbn [rbind].
  destruct (encode G (f (post F en x)) q) as [c'|] eqn:E; [|discriminate]. intro H. injection H as <-.
  exists x. split; [reflexivity|exact E].
Qed.

(* transparent decompression: the handler returns for the packed content under a name with a compression suffix what it
   returns for the plain content under a name without; post_reader then sees the entry of the file that was asked for *)
Theorem decompression_transparent_thm (F : fset) p p' f b : codec_ok -> zd F = true ->
  zfmt p' = Some f -> zfmt p = None -> handler_read F p' (pack f b) = handler_read F p b.
Proof.
  intros [_ Hp] Hz Hf Hn. unfold C11_fsops.handler_read. rewrite Hz, Hf, Hn, Hp. reflexivity.
Qed.

(* ------------------------------------------------------------------ a copy is an independent file *)

Lemma moved_of_in (F G : fset) copy conv (d d' : disk) es qs en q :
  Forall2 (moved F G copy conv d d') es qs -> In en es -> target G en = Ok q -> moved F G copy conv d d' en q.
Proof.
  intros H2 Hin Ht. destruct (forall2_in_l _ es qs en H2 Hin) as (q' & _ & Hm).
  destruct Hm as (Ht' & Hrest). rewrite Ht in Ht'. injection Ht' as <-. split; [exact Ht|exact Hrest].
Qed.

Theorem copy_independent_thm (F G H : fset) conv sl (d d1 d2 : disk) es qs en q x :
  find F sl d = Good es ->
  Forall2 (fun en q => target G en = Ok q) es qs ->
  NoDup (map e_path es) -> NoDup qs ->
  (forall q, In q qs -> dlook q d = None) ->
  (forall en, In en es -> dlook (e_path en) d <> None) ->
  move F G true conv sl d = Good d1 ->
  In en es -> target G en = Ok q ->
  exists b c, dlook (e_path en) d = Some b /\ new_content F G conv en q b = Good c /\
    dlook (e_path en) d1 = Some b /\ dlook q d1 = Some c /\ e_path en <> q /\
    (write_file H x (e_path en) d1 = Good d2 -> dlook q d2 = Some c) /\
    (write_file H x q d1 = Good d2 -> dlook (e_path en) d2 = Some b).
Proof.
  intros Hf H2 Np Nq Hfresh Hex Hm Hin Ht.
  destruct (move_conserves_thm F G true conv sl d d1 es qs Hf H2 Np Nq Hfresh Hex Hm) as [Hall _].
  destruct (moved_of_in F G true conv d d1 es qs en q Hall Hin Ht) as (_ & b & c & Hb & Hc & Hq1 & Hp1).
  assert (Hq0 : dlook q d = None).
  { destruct (forall2_in_l _ es qs en H2 Hin) as (q' & Hq' & Ht'). rewrite Ht in Ht'. injection Ht' as <-.
    apply Hfresh. exact Hq'. }
  assert (Hpq : e_path en <> q) by (intro E; rewrite E in Hb; rewrite Hq0 in Hb; discriminate).
  exists b, c. split; [exact Hb|]. split; [exact Hc|]. split; [exact Hp1|]. split; [exact Hq1|]. split; [exact Hpq|].
  split; intro Hw; unfold C11_fsops.write_file in Hw.
  - destruct (encode H x (e_path en)) as [bb|]; [|discriminate]. injection Hw as <-.
    rewrite dlook_dstore_other; [exact Hq1|]. intro E. apply Hpq. symmetry. exact E.
  - destruct (encode H x q) as [bb|]; [|discriminate]. injection Hw as <-.
    rewrite dlook_dstore_other; [exact Hp1|exact Hpq].
Qed.

(* ------------------------------------------------------------------ arguments of a single call *)

Variable kcode : kwargs -> Z.
Notation fobj := (@fobj Data).
Notation view := (view Data kcode).
Notation call_step := (call_step Data Bytes enc dec pack unpack kcode).
Notation calls := (calls Data Bytes enc dec pack unpack kcode).

(* {**dflt, **call}: the call's own entries win key by key, the other defaults stay *)
Lemma kmerge_spec dflt call k :
  klook k (kmerge dflt call) = match klook k call with Some v => Some v | None => klook k dflt end.
Proof.
  unfold kmerge. induction call as [|[k' v] call IH]; cbn; [reflexivity|].
  destruct (str_eqb k k'); [reflexivity|exact IH].
Qed.
Lemma kmerge_nil dflt : kmerge dflt [] = dflt.
Proof. reflexivity. Qed.

(* read(p, **a): the handler gets {**defaults, **a} for THIS call; the object is as before *)
Theorem read_with_args_thm (O : fobj) a (en : entry) (d : disk) :
  call_step O (CRead a en) d = (O, rbind (read_file (view O a []) en d) (fun x => Good (d, VData x))) /\
  rargs (view O a []) = kcode (kmerge (o_rd O) a) /\
  (forall k, klook k (kmerge (o_rd O) a) = match klook k a with Some v => Some v | None => klook k (o_rd O) end) /\
  view O [] [] = FSet (o_tpl O) (o_cov O) (o_hid O) (kcode (o_rd O)) (kcode (o_wd O)) (o_post O) (o_zc O) (o_zd O).
Proof.
  split; [reflexivity|]. split; [reflexivity|]. split; [intro k; apply kmerge_spec|reflexivity].
Qed.

Theorem write_with_args_thm (O : fobj) a x p (d : disk) :
  call_step O (CWrite a x p) d = (O, rbind (write_file (view O [] a) x p d) (fun d' => Good (d', VNone))) /\
  wargs (view O [] a) = kcode (kmerge (o_wd O) a) /\
  (forall k, klook k (kmerge (o_wd O) a) = match klook k a with Some v => Some v | None => klook k (o_wd O) end).
Proof. split; [reflexivity|]. split; [reflexivity|]. intro k. apply kmerge_spec. Qed.

(* no call changes the object *)
Lemma call_keeps_object (O : fobj) c (d : disk) : fst (call_step O c d) = O.
Proof. reflexivity. Qed.
Theorem calls_keep_object_thm : forall cs (O : fobj) (d : disk), fst (calls O cs d) = O.
Proof.
  induction cs as [|c cs IH]; intros O d; [reflexivity|]. cbn [C11_fsops.calls].
  destruct (call_step O c d) as [O1 r] eqn:E. assert (E1 : O1 = O) by (change O1 with (fst (O1, r)); rewrite <- E; reflexivity).
  subst O1. destruct r as [[d1 ob]|er]; [|reflexivity].
  specialize (IH O d1). destruct (calls O cs d1) as [O2 r2]. exact IH.
Qed.

(* hence the arguments of earlier calls do not stick: after any history of calls, a call behaves as on the
   object as it was built, on the disk the history left *)
Theorem args_do_not_stick_thm : forall cs (O : fobj) c (d d1 : disk) outs,
  snd (calls O cs d) = Good (d1, outs) ->
  calls O (cs ++ [c]) d =
    (O, rbind (snd (call_step O c d1)) (fun r => Good (fst r, outs ++ [snd r]))).
Proof.
  induction cs as [|c0 cs IH]; intros O c d d1 outs H.
  - cbn in H. injection H as <- <-. cbn [app C11_fsops.calls].
    destruct (call_step O c d) as [O1 r] eqn:E. assert (E1 : O1 = O) by (change O1 with (fst (O1, r)); rewrite <- E; reflexivity).
    subst O1. cbn [snd]. destruct r as [[d2 ob]|er]; reflexivity.
  - cbn [app C11_fsops.calls] in *.
    destruct (call_step O c0 d) as [O1 r] eqn:E. assert (E1 : O1 = O) by (change O1 with (fst (O1, r)); rewrite <- E; reflexivity).
    subst O1. destruct r as [[d2 ob]|er]; [|cbn in H; discriminate].
    destruct (calls O cs d2) as [O2 r2] eqn:E2. cbn [snd] in H.
    destruct r2 as [[d3 outs3]|er]; [|cbn in H; discriminate]. cbn [rbind fst snd] in H. injection H as <- <-.
    rewrite (IH O c d2 d3 outs3) by (rewrite E2; reflexivity).
    destruct (snd (call_step O c d3)) as [[d4 ob4]|er]; reflexivity.
Qed.

(* written with the write arguments of one call, read with the read arguments of another: the object comes back
   when the two dictionaries mean the same to the handler *)
Theorem write_read_with_args_thm (O : fobj) aw ar x (en : entry) (d d' : disk) : codec_ok ->
  kcode (kmerge (o_rd O) ar) = kcode (kmerge (o_wd O) aw) -> o_zc O = o_zd O ->
  snd (call_step O (CWrite aw x (e_path en)) d) = Good (d', VNone) ->
  snd (call_step O (CRead ar en) d') = Good (d', VData (o_post O en x)) /\ (forall r, r <> e_path en -> dlook r d' = dlook r d).
Proof.
  intros Hc Ha Hz Hw. cbn [C11_fsops.call_step snd C11_fsops.step] in *.
  destruct (write_file (view O [] aw) x (e_path en) d) as [d1|er] eqn:E; [|discriminate]. cbn [rbind] in Hw. injection Hw as <-.
  change (write_file (view O [] aw) x (e_path en) d) with (write_file (view O ar aw) x (e_path en) d) in E.
  destruct (write_read_thm (view O ar aw) x en d d1 Hc Ha Hz E) as [Hr Hfr].
  change (read_file (view O ar []) en d1) with (read_file (view O ar aw) en d1). rewrite Hr. split; [reflexivity|exact Hfr].
Qed.

Notation reads := (reads Data).

(* ------------------------------------------------------------------ reading keeps the disk; overwriting forgets *)
(* an operation that only reads hands back the WHOLE disk as it was: no path gone, none new, no content changed *)
Theorem reading_keeps_disk_thm (o : op Data) (d d' : disk) ob :
  reads o = true -> step o d = Good (d', ob) -> d' = d.
Proof.
  destruct o as [F s e fl x|F p x|F en|F t|F sl|F sl|F G cp cv sl|F dry sl]; cbn [C11_fsops.reads C11_fsops.step];
    intro Hr; try discriminate.
  - destruct (read_file F en d); cbn [rbind]; [|discriminate]. intro H. injection H as <- _. reflexivity.
  - destruct (render (tpl F) t t []) as [p|]; [|intro H; injection H as <- _; reflexivity].
    destruct (dlook p d); [|intro H; injection H as <- _; reflexivity].
    destruct (entry_of F p) as [|en ?]; [intro H; injection H as <- _; reflexivity|].
    destruct (read_file F en d); cbn [rbind]; [|discriminate]. intro H. injection H as <- _. reflexivity.
  - destruct (find F sl d) as [es|]; cbn [rbind]; [|discriminate].
    destruct (mapM _ es); cbn [rbind]; [|discriminate]. intro H. injection H as <- _. reflexivity.
  - destruct (find F sl d) as [es|]; cbn [rbind]; [|discriminate]. intro H. injection H as <- _. reflexivity.
  - subst dry. unfold C11_fsops.delete. destruct (find F sl d) as [es|]; cbn [rbind]; [|discriminate].
    intro H. injection H as <- _. reflexivity.
Qed.

(* lifted to histories: after any sequence of reading operations the disk is the one it started from *)
Theorem read_history_keeps_disk_thm (ops : list (op Data)) (d d' : disk) :
  forallb reads ops = true -> run ops d = Good d' -> d' = d.
Proof.
  revert d. induction ops as [|o ops IH]; intros d Hall; cbn [C11_fsops.run].
  - intro H. injection H as <-. reflexivity.
  - cbn [forallb] in Hall. apply andb_true_iff in Hall. destruct Hall as [Ho Hall].
    destruct (step o d) as [[d1 ob]|] eqn:Es; cbn [rbind fst]; [|discriminate].
    apply (reading_keeps_disk_thm o d d1 ob Ho) in Es. subst d1. apply IH. exact Hall.
Qed.

(* what a read returns depends on the content under the file's OWN path only *)
Lemma read_file_local (F : fset) en (d1 d2 : disk) :
  dlook (e_path en) d1 = dlook (e_path en) d2 -> read_file F en d1 = read_file F en d2.
Proof. unfold C11_fsops.read_file. intros ->. reflexivity. Qed.

(* collect / icollect / fileset[s:e]: every element is what read() of that file ALONE returns -- on the disk as it is and on
   every disk that has the same content under that one path, whatever the other selected files are called and whatever
   else the tree (the temporary directory included) holds *)
Theorem collect_reads_each_file_alone_thm (F : fset) sl (d d' : disk) l :
  step (OCollect F sl) d = Good (d', VList l) ->
  d' = d /\ exists es, find F sl d = Good es /\
  Forall2 (fun en py => fst py = e_path en /\
                        forall d2 : disk, dlook (e_path en) d2 = dlook (e_path en) d ->
                                          step (ORead F en) d2 = Good (d2, VData (snd py))) es l.
Proof.
  cbn [C11_fsops.step]. destruct (find F sl d) as [es|] eqn:Ef; [|discriminate]. cbn [rbind].
  destruct (mapM _ es) as [l0|] eqn:Em; [|discriminate]. cbn [rbind]. intro H. injection H as <- <-.
  split; [reflexivity|]. exists es. split; [reflexivity|].
  apply mapM_forall2 in Em. revert Em. apply Forall2_impl_in. intros en py _ _ H.
  destruct (read_file F en d) as [x|] eqn:Er; cbn [rbind] in H; [|discriminate]. injection H as <-.
  split; [reflexivity|]. intros d2 E. cbn [snd]. rewrite (read_file_local F en d2 d E), Er. reflexivity.
Qed.

(* writing a path twice = writing it once, with the LAST content: whole-disk equality *)
Transparent dstore dremove.
Lemma dremove_idem p (d : disk) : dremove p (dremove p d) = dremove p d.
Proof.
  unfold dremove. induction d as [|[k v] d IH]; [reflexivity|]. cbn [filter fst].
  destruct (negb (str_eqb k p)) eqn:E; cbn [filter fst]; [rewrite E, IH|rewrite IH]; reflexivity.
Qed.
Lemma dstore_dstore p b c (d : disk) : dstore p c (dstore p b d) = dstore p c d.
Proof.
  unfold dstore at 1 3. f_equal. unfold dstore, dremove at 1. cbn [filter fst]. rewrite str_eqb_refl. cbn [negb].
  apply dremove_idem.
Qed.

Opaque dstore dremove.

(* overwrite: a file written over an existing one -- by this fileset or by any other, with any handler, write
   arguments and compression -- leaves the disk that the LAST write alone produces: nothing of the earlier content survives *)
Theorem overwrite_forgets_thm (F G : fset) x y p (d d1 d2 : disk) :
  write_file F x p d = Good d1 -> write_file G y p d1 = Good d2 -> write_file G y p d = Good d2.
Proof.
  unfold C11_fsops.write_file. destruct (C11_fsops.encode Data Bytes enc pack F x p) as [b|]; [|discriminate].
  intro H. injection H as <-. destruct (C11_fsops.encode Data Bytes enc pack G y p) as [c|]; [|discriminate].
  intro H. injection H as <-. rewrite dstore_dstore. reflexivity.
Qed.

(* overwrite, then read: what comes back is the object written LAST; the disk is the one the last write alone produces *)
Theorem overwrite_reads_last_thm (F G : fset) x y en (d d1 d2 : disk) :
  codec_ok -> rargs G = wargs G -> zc G = zd G ->
  write_file F x (e_path en) d = Good d1 -> write_file G y (e_path en) d1 = Good d2 ->
  read_file G en d2 = Good (post G en y) /\ write_file G y (e_path en) d = Good d2 /\
  (forall r, r <> e_path en -> dlook r d2 = dlook r d).
Proof.
  intros Hc Hr Hz H1 H2. pose proof (overwrite_forgets_thm F G x y (e_path en) d d1 d2 H1 H2) as H3.
  destruct (write_read_thm G y en d d2 Hc Hr Hz H3) as [A B]. split; [exact A|]. split; [exact H3|exact B].
Qed.

End Proofs.
