(* C06 -- the two metrics of GeoIndex over the reals: the straight-line chord between the points
   geocentric2cart(R, lat, lon) (default metric) and the great-circle arc computed by the haversine formula
   of scikit-learn are two readings of the same central angle: chord = 2 R sin(arc / (2 R)).
   Angles in radians.  Standard-library real-number axioms only. *)
From Coq Require Import Reals Lra.
Open Scope R_scope.

Section Metric.
  Variables Re lat1 lon1 lat2 lon2 : R.

  (* typhon.geodesy.geocentric2cart(Re, lat, lon) *)
  Definition cx (lat lon : R) : R := Re * cos lat * cos lon.
  Definition cy (lat lon : R) : R := Re * cos lat * sin lon.
  Definition cz (lat : R) : R := Re * sin lat.

  (* squared Euclidean distance of the two cartesian points (what the minkowski tree measures, squared) *)
  Definition chord2 : R :=
    (cx lat1 lon1 - cx lat2 lon2) ^ 2 + (cy lat1 lon1 - cy lat2 lon2) ^ 2 + (cz lat1 - cz lat2) ^ 2.
  Definition chord : R := sqrt chord2.

  (* sklearn HaversineDistance: 2 asin (sqrt (sin^2(dlat/2) + cos lat1 cos lat2 sin^2(dlon/2))), an angle *)
  Definition hav : R :=
    sin ((lat2 - lat1) / 2) ^ 2 + cos lat1 * cos lat2 * sin ((lon2 - lon1) / 2) ^ 2.
  Definition angle : R := 2 * asin (sqrt hav).

  Lemma sin_half_sq (y : R) : sin (y / 2) ^ 2 = (1 - cos y) / 2.
  Proof.
    pose proof (cos_2a_sin (y / 2)) as H. replace (2 * (y / 2)) with y in H by field. rewrite H. field.
  Qed.

  Lemma chord2_hav : chord2 = 4 * Re ^ 2 * hav.
  Proof.
    unfold chord2, hav, cx, cy, cz. rewrite !sin_half_sq, !cos_minus.
    pose proof (sin2_cos2 lat1) as E1. pose proof (sin2_cos2 lat2) as E2.
    pose proof (sin2_cos2 lon1) as E3. pose proof (sin2_cos2 lon2) as E4.
    unfold Rsqr in E1, E2, E3, E4.
    remember (sin lat1) as s1. remember (cos lat1) as c1. remember (sin lat2) as s2. remember (cos lat2) as c2.
    remember (sin lon1) as sl1. remember (cos lon1) as cl1. remember (sin lon2) as sl2. remember (cos lon2) as cl2.
    apply Rminus_diag_uniq.
    replace ((Re * c1 * cl1 - Re * c2 * cl2) ^ 2 + (Re * c1 * sl1 - Re * c2 * sl2) ^ 2 + (Re * s1 - Re * s2) ^ 2 -
             4 * Re ^ 2 * ((1 - (c2 * c1 + s2 * s1)) / 2 + c1 * c2 * ((1 - (cl2 * cl1 + sl2 * sl1)) / 2)))
      with (Re * Re * (c1 * c1 * ((sl1 * sl1 + cl1 * cl1) - 1) + c2 * c2 * ((sl2 * sl2 + cl2 * cl2) - 1)
                     + ((s1 * s1 + c1 * c1) - 1) + ((s2 * s2 + c2 * c2) - 1))) by field.
    rewrite E1, E2, E3, E4. ring.
  Qed.

  (* the sum of the two points: |p + q|^2 = 4 Re^2 - |p - q|^2, hence chord2 <= 4 Re^2 *)
  Lemma chord2_le : chord2 <= 4 * Re ^ 2.
  Proof.
    assert (H : 4 * Re ^ 2 - chord2 =
                (cx lat1 lon1 + cx lat2 lon2) ^ 2 + (cy lat1 lon1 + cy lat2 lon2) ^ 2 + (cz lat1 + cz lat2) ^ 2).
    { unfold chord2, cx, cy, cz.
      pose proof (sin2_cos2 lat1) as E1. pose proof (sin2_cos2 lat2) as E2.
      pose proof (sin2_cos2 lon1) as E3. pose proof (sin2_cos2 lon2) as E4.
      unfold Rsqr in E1, E2, E3, E4.
      remember (sin lat1) as s1. remember (cos lat1) as c1. remember (sin lat2) as s2. remember (cos lat2) as c2.
      remember (sin lon1) as sl1. remember (cos lon1) as cl1. remember (sin lon2) as sl2. remember (cos lon2) as cl2.
      apply Rminus_diag_uniq.
      match goal with |- ?L - ?Rr = 0 =>
        replace (L - Rr) with (- 2 * (Re * Re) * (c1 * c1 * ((sl1 * sl1 + cl1 * cl1) - 1) + c2 * c2 * ((sl2 * sl2 + cl2 * cl2) - 1)
                                             + ((s1 * s1 + c1 * c1) - 1) + ((s2 * s2 + c2 * c2) - 1))) by ring end.
      rewrite E1, E2, E3, E4. ring. }
    assert (0 <= 4 * Re ^ 2 - chord2).
    { rewrite H. repeat apply Rplus_le_le_0_compat; apply pow2_ge_0. }
    lra.
  Qed.

  Lemma chord2_ge : 0 <= chord2.
  Proof. unfold chord2. repeat apply Rplus_le_le_0_compat; apply pow2_ge_0. Qed.

  Hypothesis HR : 0 < Re.

  Lemma hav_range : 0 <= hav <= 1.
  Proof.
    pose proof chord2_hav as E. pose proof chord2_le as L. pose proof chord2_ge as G.
    assert (HR2 : 0 < 4 * Re ^ 2) by (assert (0 < Re ^ 2) by (apply pow_lt; exact HR); lra).
    rewrite E in L, G. split.
    - apply (Rmult_le_reg_l (4 * Re ^ 2)); [exact HR2|]. lra.
    - apply (Rmult_le_reg_l (4 * Re ^ 2)); [exact HR2|]. lra.
  Qed.

  Lemma sqrt_hav_range : 0 <= sqrt hav <= 1.
  Proof.
    destruct hav_range as [H0 H1]. split; [apply sqrt_pos|].
    rewrite <- sqrt_1. apply sqrt_le_1_alt. exact H1.
  Qed.

  (* chord = 2 Re sin(angle / 2) *)
  Lemma chord_of_angle : chord = 2 * Re * sin (angle / 2).
  Proof.
    unfold chord, angle. rewrite chord2_hav.
    replace (2 * asin (sqrt hav) / 2) with (asin (sqrt hav)) by field.
    destruct sqrt_hav_range as [S0 S1].
    rewrite sin_asin by lra.
    replace (4 * Re ^ 2) with ((2 * Re) * (2 * Re)) by ring.
    rewrite sqrt_mult_alt by (apply Rmult_le_pos; lra).
    rewrite sqrt_square by lra. reflexivity.
  Qed.

  Lemma angle_range : 0 <= angle <= PI.
  Proof.
    unfold angle. destruct sqrt_hav_range as [S0 S1].
    pose proof PI_RGT_0 as Hpi.
    assert (A0 : 0 <= asin (sqrt hav)).
    { destruct (Rle_or_lt 0 (asin (sqrt hav))) as [L|L]; [exact L|exfalso].
      pose proof (asin_bound (sqrt hav)) as [B0 B1].
      assert (sin (asin (sqrt hav)) < 0) by (apply sin_lt_0_var; lra).
      rewrite sin_asin in H by lra. lra. }
    assert (A1 : asin (sqrt hav) <= PI / 2) by (apply asin_bound).
    lra.
  Qed.

  (* the two metrics select the same pairs: for a search angle a in [0, PI],
     angle <= a  <->  chord <= 2 Re sin(a/2)   (sin is increasing on [0, PI/2]) *)
  Lemma same_selection (a : R) : 0 <= a <= PI -> (angle <= a <-> chord <= 2 * Re * sin (a / 2)).
  Proof.
    intros [a0 a1]. rewrite chord_of_angle. destruct angle_range as [g0 g1]. pose proof PI_RGT_0 as Hpi.
    assert (P : 0 < 2 * Re) by lra.
    split; intros H.
    - apply Rmult_le_compat_l; [lra|].
      destruct (Req_dec (angle / 2) (a / 2)) as [E|N]; [rewrite E; lra|].
      left. apply sin_increasing_1; lra.
    - apply Rmult_le_reg_l in H; [|exact P].
      destruct (Rle_or_lt angle a) as [L|L]; [exact L|exfalso].
      assert (sin (a / 2) < sin (angle / 2)) by (apply sin_increasing_1; lra). lra.
  Qed.
End Metric.
