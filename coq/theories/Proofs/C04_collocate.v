(* C04 -- lemmas about Model/C04_collocate.v *)
From Coq Require Import ZArith List Bool Arith Lia Permutation Sorted.
From Typhon Require Import Model.C13_compact Proofs.C13_compact Model.C04_collocate.
Import ListNotations.
Open Scope Z_scope.

(* ------------------------------------------------------------------ generic list facts *)
Lemma In_indexed_from {A} (l : list A) : forall k i x,
  In (i, x) (combine (seq k (length l)) l) <-> (k <= i)%nat /\ nth_error l (i - k) = Some x.
Proof.
  induction l as [|a l IH]; intros k i x; cbn [length seq combine].
  - split; [intros []|]. intros [_ H]. destruct (i - k)%nat; discriminate.
  - cbn [In]. rewrite IH. split.
    + intros [H|[H1 H2]].
      * inversion H; subst. split; [lia|]. replace (i - i)%nat with 0%nat by lia. reflexivity.
      * split; [lia|]. replace (i - k)%nat with (S (i - S k)) by lia. exact H2.
    + intros [H1 H2]. destruct (Nat.eq_dec i k) as [->|Hne].
      * left. replace (k - k)%nat with 0%nat in H2 by lia. cbn in H2. congruence.
      * right. split; [lia|]. replace (i - k)%nat with (S (i - S k)) in H2 by lia. exact H2.
Qed.

Lemma In_indexed {A} (l : list A) i x : In (i, x) (indexed l) <-> nth_error l i = Some x.
Proof.
  unfold indexed. rewrite In_indexed_from. replace (i - 0)%nat with i by lia.
  split; [intros [_ H]; exact H|intros H; split; [lia|exact H]].
Qed.

Section SortFacts.
  Context {A : Type} (key : A -> Z).
  Definition le_key (a b : A) : Prop := key a <= key b.

  Lemma insert_perm x l : Permutation (insert key x l) (x :: l).
  Proof.
    induction l as [|y t IH]; cbn [insert]; [reflexivity|].
    destruct (key y <? key x); [|reflexivity].
    rewrite IH. apply perm_swap.
  Qed.

  Lemma isort_perm l : Permutation (isort key l) l.
  Proof.
    induction l as [|a l IH]; cbn [isort fold_right]; [reflexivity|].
    fold (isort key l). rewrite insert_perm. constructor. exact IH.
  Qed.

  Lemma isort_In x l : In x (isort key l) <-> In x l.
  Proof. split; apply Permutation_in; [|symmetry]; apply isort_perm. Qed.

  Lemma insert_sorted x l : StronglySorted le_key l -> StronglySorted le_key (insert key x l).
  Proof.
    induction l as [|y t IH]; intros Hs; cbn [insert].
    - constructor; constructor.
    - inversion Hs as [|? ? Hs' Hall]; subst.
      destruct (key y <? key x) eqn:E.
      + constructor; [apply IH; exact Hs'|].
        rewrite Forall_forall. intros z Hz.
        apply (Permutation_in _ (insert_perm x t)) in Hz. destruct Hz as [<-|Hz].
        * unfold le_key. lia.
        * rewrite Forall_forall in Hall. apply Hall. exact Hz.
      + constructor; [exact Hs|]. constructor; [unfold le_key; lia|].
        rewrite Forall_forall in *. intros z Hz. specialize (Hall z Hz). unfold le_key in *. lia.
  Qed.

  Lemma isort_sorted l : StronglySorted le_key (isort key l).
  Proof.
    induction l as [|a l IH]; cbn [isort fold_right]; [constructor|].
    apply insert_sorted. exact IH.
  Qed.
End SortFacts.

Lemma fold_min_le t : forall a x, x = a \/ In x t -> fold_right Z.min a t <= x.
Proof.
  induction t as [|b t IH]; intros a x H; cbn [fold_right].
  - destruct H as [H|[]]. lia.
  - destruct H as [H|[H|H]].
    + specialize (IH a x (or_introl H)). lia.
    + lia.
    + specialize (IH a x (or_intror H)). lia.
Qed.

Lemma fold_max_ge t : forall a x, x = a \/ In x t -> x <= fold_right Z.max a t.
Proof.
  induction t as [|b t IH]; intros a x H; cbn [fold_right].
  - destruct H as [H|[]]. lia.
  - destruct H as [H|[H|H]].
    + specialize (IH a x (or_introl H)). lia.
    + lia.
    + specialize (IH a x (or_intror H)). lia.
Qed.

Lemma zmin_l_le l x : In x l -> zmin_l l <= x.
Proof.
  destruct l as [|a t]; [intros []|]. intros H. cbn [zmin_l]. apply fold_min_le.
  destruct H as [H|H]; [left; symmetry; exact H|right; exact H].
Qed.

Lemma zmax_l_ge l x : In x l -> x <= zmax_l l.
Proof.
  destruct l as [|a t]; [intros []|]. intros H. cbn [zmax_l]. apply fold_max_ge.
  destruct H as [H|H]; [left; symmetry; exact H|right; exact H].
Qed.

(* ------------------------------------------------------------------ the spatial search *)
Section Search.
  Variable P : Type.
  Variable D : Type.
  Variable near : P -> P -> bool.
  Variable dist : P -> P -> D.
  Variable ctest : list P -> list P -> bool.
  Hypothesis near_sym : forall a b, near a b = near b a.
  Hypothesis dist_sym : forall a b, dist a b = dist b a.
  (* fixes/C04_2: the kept index is reused only for the very same points *)
  Hypothesis ctest_sound : forall a b, ctest a b = true -> a = b.

  Notation gquery := (gquery P D near dist).
  Notation spatial_search := (spatial_search P D near dist ctest).
  Notation swap3 := (swap3 D).

  (* entry x = (i, j, d) names the i-th point of L1 and the j-th of L2, they are near, d is their distance *)
  Definition hit (L1 L2 : list P) (x : nat * nat * D) : Prop :=
    exists a b, nth_error L1 (fst (fst x)) = Some a /\ nth_error L2 (snd (fst x)) = Some b /\
                near a b = true /\ snd x = dist a b.

  Lemma gquery_spec B Q x : In x (gquery B Q) <-> hit B Q x.
  Proof.
    unfold C04_collocate.gquery, hit. rewrite in_flat_map. split.
    - intros [[j q] [Hq H]]. rewrite in_flat_map in H. destruct H as [[i b] [Hb H]].
      cbn [fst snd] in H. destruct (near b q) eqn:E; [|destruct H].
      destruct H as [<-|[]]. cbn [fst snd]. exists b, q.
      apply In_indexed in Hq. apply In_indexed in Hb. auto.
    - intros [b [q [Hb [Hq [Hn Hd]]]]]. exists (snd (fst x), q). split; [apply In_indexed; exact Hq|].
      rewrite in_flat_map. exists (fst (fst x), b). split; [apply In_indexed; exact Hb|].
      cbn [fst snd]. rewrite Hn. left. rewrite <- Hd. destruct x as [[i j] d]. reflexivity.
  Qed.

  Lemma hit_swap L1 L2 x : hit L2 L1 x <-> hit L1 L2 (swap3 x).
  Proof.
    unfold hit, swap3. cbn [fst snd]. split; intros [a [b [H1 [H2 [H3 H4]]]]]; exists b, a;
      rewrite near_sym, dist_sym; auto.
  Qed.

  Lemma swap3_invol (x : nat * nat * D) : swap3 (swap3 x) = x.
  Proof. destruct x as [[i j] d]. reflexivity. Qed.

  (* whatever the Collocator remembers from earlier calls, the search reports exactly the near pairs *)
  Lemma spatial_search_spec mf st L1 L2 x : In x (snd (spatial_search mf st L1 L2)) <-> hit L1 L2 x.
  Proof.
    unfold C04_collocate.spatial_search. cbn [snd].
    set (wp := choose P ctest mf st L1 L2).
    set (B := if wp then L1 else L2).
    assert (HI : match sidx st with Some i' => if ctest B i' then i' else B | None => B end = B).
    { destruct (sidx st) as [i'|]; [|reflexivity]. destruct (ctest B i') eqn:E; [|reflexivity].
      symmetry. apply ctest_sound. exact E. }
    rewrite HI. subst B. destruct wp.
    - apply gquery_spec.
    - rewrite in_map_iff. split.
      + intros [y [<- Hy]]. apply gquery_spec in Hy. apply hit_swap in Hy. exact Hy.
      + intros H. exists (swap3 x). split; [apply swap3_invol|].
        apply gquery_spec. apply hit_swap. rewrite swap3_invol. exact H.
  Qed.
End Search.

(* ------------------------------------------------------------------ collocate *)
Lemma passes_whole m t1 t2 : whole_seconds m -> passes m t1 t2 = (Z.abs (t1 - t2) <? m).
Proof.
  intros [k ->]. unfold passes, interval_s, sec.
  pose proof (Z.div_mod (Z.abs (t1 - t2)) 1000000000 ltac:(lia)) as H1.
  pose proof (Z.mod_pos_bound (Z.abs (t1 - t2)) 1000000000 ltac:(lia)) as H2.
  set (q := Z.abs (t1 - t2) / 1000000000) in *. set (r := Z.abs (t1 - t2) mod 1000000000) in *.
  destruct (Z.ltb_spec (q * 1000000000) (k * 1000000000)); destruct (Z.ltb_spec (Z.abs (t1 - t2)) (k * 1000000000));
    try reflexivity; lia.
Qed.

Lemma combine_map_same {A B C} (g : A -> B) (h : A -> C) l :
  combine (map g l) (map h l) = map (fun x => (g x, h x)) l.
Proof. induction l as [|a l IH]; cbn; [reflexivity|rewrite IH; reflexivity]. Qed.

Lemma nth_map_lt {A B} (g : A -> B) l i d d' : (i < length l)%nat -> nth i (map g l) d = g (nth i l d').
Proof.
  revert i. induction l as [|a l IH]; intros i H; cbn in H; [lia|].
  destruct i; cbn; [reflexivity|apply IH; lia].
Qed.

Lemma gather_compact {A} (d : A) raw f :
  gather d (snd (compact raw)) (gather d (fst (compact raw)) f) = gather d raw f.
Proof.
  transitivity (gather d (map (fun i => nth i (fst (compact raw)) 0%nat) (snd (compact raw))) f).
  - unfold gather. rewrite map_map. apply map_ext_in. intros i Hi.
    pose proof (compact_valid_l raw) as Hv. rewrite Forall_forall in Hv. specialize (Hv i Hi).
    exact (nth_map_lt (fun k => nth k f d) (fst (compact raw)) i d 0%nat Hv).
  - rewrite compact_roundtrip_l. reflexivity.
Qed.

Section Facts.
  Variable P : Type.
  Variable D : Type.
  Variable near : P -> P -> bool.
  Variable dist : P -> P -> D.
  Variable ctest : list P -> list P -> bool.
  Hypothesis near_sym : forall a b, near a b = near b a.
  Hypothesis dist_sym : forall a b, dist a b = dist b a.
  Hypothesis ctest_sound : forall a b, ctest a b = true -> a = b.

  Notation pt := (pt P).
  Notation d0 := (d0 P).
  Notation has_pos := (has_pos P).
  Notation poslist := (poslist P).
  Notation points_of := (points_of P).
  Notation times_of := (times_of P).
  Notation select := (select P).
  Notation orig_from := (orig_from P).
  Notation orig_of := (orig_of P).
  Notation line_pts := (line_pts P).

  (* ---- selection and flattening *)
  Lemma line_pts_time l p : In p (line_pts l) -> ptime p = fst l.
  Proof. unfold C04_collocate.line_pts. rewrite in_map_iff. intros [c [<- _]]. reflexivity. Qed.

  Lemma time_in d p : In p (points_of d) -> In (ptime p) (times_of d).
  Proof.
    destruct d as [l|ls]; cbn [C04_collocate.points_of C04_collocate.times_of].
    - apply in_map.
    - rewrite in_flat_map. intros [l [Hl Hp]]. rewrite (line_pts_time l p Hp). apply in_map. exact Hl.
  Qed.

  Lemma select_points lo hi d p :
    In p (points_of (select lo hi d)) <-> In p (points_of d) /\ in_range lo hi (ptime p) = true.
  Proof.
    destruct d as [l|ls]; cbn [C04_collocate.select C04_collocate.points_of].
    - rewrite isort_In, filter_In. reflexivity.
    - rewrite !in_flat_map. split.
      + intros [l [Hl Hp]]. rewrite isort_In, filter_In in Hl. destruct Hl as [Hl Hr].
        split; [exists l; auto|]. rewrite (line_pts_time l p Hp). exact Hr.
      + intros [[l [Hl Hp]] Hr]. exists l. split; [|exact Hp].
        rewrite isort_In, filter_In. split; [exact Hl|]. rewrite <- (line_pts_time l p Hp). exact Hr.
  Qed.

  Lemma select_nil lo hi d p :
    times_of (select lo hi d) = [] -> In p (points_of d) -> in_range lo hi (ptime p) = true -> False.
  Proof.
    intros Hn Hp Hr.
    assert (H : In p (points_of (select lo hi d))) by (apply select_points; auto).
    apply time_in in H. rewrite Hn in H. exact H.
  Qed.

  (* ---- NaN filter: the index arrays lead back to the selected points *)
  Lemma orig_nth f : forall k i, (i < length (filter has_pos f))%nat ->
    exists m, nth i (orig_from k f) 0%nat = (k + m)%nat /\ nth m f d0 = nth i (filter has_pos f) d0.
  Proof.
    induction f as [|p t IH]; intros k i Hi; cbn [filter length] in Hi; [lia|].
    cbn [C04_collocate.orig_from filter]. destruct (has_pos p) eqn:E.
    - destruct i as [|i].
      + exists 0%nat. cbn. split; [lia|reflexivity].
      + cbn [length] in Hi. destruct (IH (S k) i ltac:(lia)) as [m [H1 H2]].
        exists (S m). cbn [nth]. split; [rewrite H1; lia|exact H2].
    - destruct (IH (S k) i Hi) as [m [H1 H2]]. exists (S m). cbn [nth]. split; [rewrite H1; lia|exact H2].
  Qed.

  Lemma orig_of_nth f i : (i < length (filter has_pos f))%nat ->
    nth (nth i (orig_of f) 0%nat) f d0 = nth i (filter has_pos f) d0.
  Proof. intros Hi. destruct (orig_nth f 0 i Hi) as [m [H1 H2]]. unfold C04_collocate.orig_of. rewrite H1. exact H2. Qed.

  Lemma poslist_nth l : Forall (fun p => has_pos p = true) l -> forall i a,
    nth_error (poslist l) i = Some a <-> exists p, nth_error l i = Some p /\ ppos p = Some a.
  Proof.
    induction l as [|p t IH]; intros Hall i a.
    - cbn. destruct i; split; try discriminate; intros [q [H _]]; discriminate.
    - inversion Hall as [|? ? Hp Ht]; subst. unfold C04_collocate.has_pos in Hp.
      unfold C04_collocate.poslist. cbn [flat_map]. destruct (ppos p) as [x|] eqn:E; [|discriminate].
      cbn [app]. fold (poslist t). destruct i as [|i]; cbn [nth_error].
      + split.
        * intros H. exists p. split; [reflexivity|congruence].
        * intros [q [H1 H2]]. congruence.
      + apply IH. exact Ht.
  Qed.

  Lemma filter_has_pos l : Forall (fun p => has_pos p = true) (filter has_pos l).
  Proof. rewrite Forall_forall. intros p Hp. apply filter_In in Hp. apply Hp. Qed.

  (* ---- the result, identified by the data it carries *)
  Definition pair_ids (f1 f2 : list pt) (o1 o2 : list nat) (x : nat * nat * D) : Z * Z :=
    (pid (nth (nth (fst (fst x)) o1 0%nat) f1 d0), pid (nth (nth (snd (fst x)) o2 0%nat) f2 d0)).

  Lemma ids_create f1 f2 v1 v2 o1 o2 ok :
    ids_opt P D (create_return P D f1 f2 v1 v2 o1 o2 ok) = map (pair_ids f1 f2 o1 o2) ok.
  Proof.
    destruct ok as [|x0 ok0]; [reflexivity|]. set (ok := x0 :: ok0).
    unfold create_return. fold ok. cbv zeta. unfold ok at 1. cbn [ids_opt]. unfold ids. cbn [r_prow r_prim r_srow r_sec].
    rewrite !gather_compact. unfold gather. rewrite !map_map. rewrite combine_map_same. reflexivity.
  Qed.

  (* ---- sortedness of what the search receives *)
  Lemma SS_filter {A} (R : A -> A -> Prop) (f : A -> bool) l : StronglySorted R l -> StronglySorted R (filter f l).
  Proof.
    induction 1 as [|a l Hs IH Hall]; cbn [filter]; [constructor|].
    destruct (f a); [|exact IH]. constructor; [exact IH|].
    rewrite Forall_forall in *. intros y Hy. apply filter_In in Hy. apply Hall. apply Hy.
  Qed.

  Lemma SS_app {A} (R : A -> A -> Prop) l1 l2 : StronglySorted R l1 -> StronglySorted R l2 ->
    (forall x y, In x l1 -> In y l2 -> R x y) -> StronglySorted R (l1 ++ l2).
  Proof.
    induction 1 as [|a l Hs IH Hall]; intros H2 Hc; cbn [app]; [exact H2|].
    constructor.
    - apply IH; [exact H2|]. intros x y Hx Hy. apply Hc; [right; exact Hx|exact Hy].
    - rewrite Forall_forall in *. intros y Hy. apply in_app_or in Hy. destruct Hy as [Hy|Hy].
      + apply Hall. exact Hy.
      + apply Hc; [left; reflexivity|exact Hy].
  Qed.

  Lemma SS_const {A} (key : A -> Z) l t : (forall x, In x l -> key x = t) -> StronglySorted (le_key key) l.
  Proof.
    induction l as [|a l IH]; intros H; [constructor|]. constructor.
    - apply IH. intros x Hx. apply H. right. exact Hx.
    - rewrite Forall_forall. intros y Hy. unfold le_key. rewrite (H a (or_introl eq_refl)), (H y (or_intror Hy)). lia.
  Qed.

  Lemma sorted_points lo hi d : StronglySorted (le_key (@ptime P)) (points_of (select lo hi d)).
  Proof.
    destruct d as [l|ls]; cbn [C04_collocate.select C04_collocate.points_of].
    - apply isort_sorted.
    - pose proof (isort_sorted (@fst Z (list (Z * option P))) (filter (fun l => in_range lo hi (fst l)) ls)) as Hs.
      induction Hs as [|l t Hs IH Hall]; cbn [flat_map]; [constructor|].
      apply SS_app; [|exact IH|].
      + apply SS_const with (t := fst l). intros x Hx. apply line_pts_time. exact Hx.
      + intros x y Hx Hy. rewrite in_flat_map in Hy. destruct Hy as [l' [Hl' Hy]].
        rewrite Forall_forall in Hall. specialize (Hall l' Hl'). unfold le_key in *.
        rewrite (line_pts_time l x Hx), (line_pts_time l' y Hy). exact Hall.
  Qed.

  (* ---- what both search paths must deliver (element form) *)
  Definition hitp (v1 v2 : list pt) (x : nat * nat * D) : Prop :=
    exists p s a b, nth_error v1 (fst (fst x)) = Some p /\ nth_error v2 (snd (fst x)) = Some s /\
                    ppos p = Some a /\ ppos s = Some b /\ near a b = true /\ snd x = dist a b.
  Definition raw_ok (m : Z) (v1 v2 : list pt) (raw : list (nat * nat * D)) : Prop :=
    (forall x, In x raw -> hitp v1 v2 x) /\
    (forall p s a b, In p v1 -> In s v2 -> ppos p = Some a -> ppos s = Some b -> near a b = true ->
       Z.abs (ptime p - ptime s) < m ->
       exists x, In x raw /\ nth_error v1 (fst (fst x)) = Some p /\ nth_error v2 (snd (fst x)) = Some s /\
                 snd x = dist a b).

  Lemma direct_raw_ok m mf st v1 v2 :
    Forall (fun p => has_pos p = true) v1 -> Forall (fun p => has_pos p = true) v2 ->
    raw_ok m v1 v2 (snd (spatial_search P D near dist ctest mf st (poslist v1) (poslist v2))).
  Proof.
    intros H1 H2. split.
    - intros x Hx. apply (spatial_search_spec P D near dist ctest near_sym dist_sym ctest_sound) in Hx.
      destruct Hx as [a [b [Ha [Hb [Hn Hd]]]]].
      apply (poslist_nth v1 H1) in Ha. apply (poslist_nth v2 H2) in Hb.
      destruct Ha as [p [Hp Hpa]]. destruct Hb as [s [Hs Hsb]]. exists p, s, a, b. auto 10.
    - intros p s a b Hp Hs Hpa Hsb Hn _.
      apply In_nth_error in Hp. apply In_nth_error in Hs. destruct Hp as [i Hi]. destruct Hs as [j Hj].
      exists (i, j, dist a b). cbn [fst snd]. split; [|auto].
      apply (spatial_search_spec P D near dist ctest near_sym dist_sym ctest_sound).
      exists a, b. cbn [fst snd]. split; [apply (poslist_nth v1 H1); eauto|].
      split; [apply (poslist_nth v2 H2); eauto|auto].
  Qed.

  (* ---- the window *)
  Lemma window_ok c dp ds p s :
    In p (points_of dp) -> In s (points_of ds) -> Z.abs (ptime p - ptime s) < mi c ->
    in_win P c p = true -> in_win P c s = true ->
    in_range (common_start c (times_of dp) (times_of ds)) (common_end c (times_of dp) (times_of ds)) (ptime p) = true /\
    in_range (common_start c (times_of dp) (times_of ds)) (common_end c (times_of dp) (times_of ds)) (ptime s) = true.
  Proof.
    intros Hp Hs Hd Wp Ws. apply time_in in Hp. apply time_in in Hs.
    pose proof (zmin_l_le _ _ Hp). pose proof (zmax_l_ge _ _ Hp).
    pose proof (zmin_l_le _ _ Hs). pose proof (zmax_l_ge _ _ Hs).
    unfold in_win, in_range, common_start, common_end in *.
    rewrite !andb_true_iff, !Z.leb_le in *. lia.
  Qed.

  Lemma range_win c t1 t2 t :
    in_range (common_start c t1 t2) (common_end c t1 t2) t = true -> in_range (wstart c) (wend c) t = true.
  Proof. unfold in_range, common_start, common_end. rewrite !andb_true_iff, !Z.leb_le. lia. Qed.

  Lemma isnil_true {A} (l : list A) : isnil l = true -> l = [].
  Proof. destruct l; [reflexivity|discriminate]. Qed.

  (* ---- collocate = specification, provided the binned search delivers what the direct one does *)
  Definition binned_ok (tn : tune) (c : cfg) : Prop :=
    forall st v1 v2, StronglySorted (le_key (@ptime P)) v1 -> StronglySorted (le_key (@ptime P)) v2 ->
      Forall (fun p => has_pos p = true) v1 -> Forall (fun p => has_pos p = true) v2 ->
      raw_ok (mi c) v1 v2 (snd (binned_search P D near dist ctest (mfac tn) (mi c) (bw tn) (borigin tn) st v1 v2)).

  Lemma collocate_exact_if tn st c dp ds :
    whole_seconds (mi c) -> binned_ok tn c ->
    set_eq (ids_opt P D (snd (collocate P D near dist ctest tn st c dp ds))) (spec_pairs P near c dp ds).
  Proof.
    intros Hw Hbin. unfold collocate.
    set (lo := common_start c (times_of dp) (times_of ds)).
    set (hi := common_end c (times_of dp) (times_of ds)).
    destruct (isnil (times_of (select lo hi dp)) || isnil (times_of (select lo hi ds))) eqn:E.
    - cbn [snd ids_opt]. intros x. split; [intros []|]. intros Hx. exfalso.
      unfold spec_pairs in Hx. rewrite in_map_iff in Hx. destruct Hx as [[p s] [_ Hx]].
      rewrite filter_In, in_prod_iff in Hx. destruct Hx as [[Hp Hs] Hc].
      unfold collocated in Hc. cbn [fst snd] in Hc. rewrite !andb_true_iff in Hc.
      destruct Hc as [[[_ Hd] Wp] Ws]. apply Z.ltb_lt in Hd.
      destruct (window_ok c dp ds p s Hp Hs Hd Wp Ws) as [Rp Rs]. fold lo hi in Rp, Rs.
      apply orb_true_iff in E. destruct E as [E|E]; apply isnil_true in E.
      + exact (select_nil lo hi dp p E Hp Rp).
      + exact (select_nil lo hi ds s E Hs Rs).
    - set (f1 := points_of (select lo hi dp)). set (f2 := points_of (select lo hi ds)).
      set (v1 := filter has_pos f1). set (v2 := filter has_pos f2).
      set (r := if thr tn <? Z.of_nat (length v1 * length v2)
                then binned_search P D near dist ctest (mfac tn) (mi c) (bw tn) (borigin tn) st v1 v2
                else spatial_search P D near dist ctest (mfac tn) st (poslist v1) (poslist v2)).
      set (passf := fun x : nat * nat * D =>
             passes (mi c) (ptime (nth (fst (fst x)) v1 d0)) (ptime (nth (snd (fst x)) v2 d0))).
      assert (Hraw : raw_ok (mi c) v1 v2 (snd r)).
      { subst r. destruct (thr tn <? Z.of_nat (length v1 * length v2)).
        - apply Hbin; try apply filter_has_pos; apply SS_filter; apply sorted_points.
        - apply direct_raw_ok; apply filter_has_pos. }
      assert (Hids : ids_opt P D (snd (if isnil (snd r) then (fst r, None)
                 else (fst r, create_return P D f1 f2 v1 v2 (orig_of f1) (orig_of f2) (filter passf (snd r)))))
                 = map (pair_ids f1 f2 (orig_of f1) (orig_of f2)) (filter passf (snd r))).
      { destruct (snd r) as [|x0 l0] eqn:Er; cbn [isnil snd]; [reflexivity|]. apply ids_create. }
      rewrite Hids. clear Hids. destruct Hraw as [Hsound Hcomp].
      assert (Hmem1 : forall p, In p v1 <-> In p (points_of dp) /\ in_range lo hi (ptime p) = true /\ has_pos p = true).
      { intros p. unfold v1, f1. rewrite filter_In, select_points. tauto. }
      assert (Hmem2 : forall p, In p v2 <-> In p (points_of ds) /\ in_range lo hi (ptime p) = true /\ has_pos p = true).
      { intros p. unfold v2, f2. rewrite filter_In, select_points. tauto. }
      intros ab. rewrite in_map_iff. split.
      + intros [x [<- Hx]]. rewrite filter_In in Hx. destruct Hx as [Hx Hpass].
        destruct (Hsound x Hx) as [p [s [a [b [Hp [Hs [Hpa [Hsb [Hn Hd]]]]]]]]].
        assert (Li : (fst (fst x) < length v1)%nat) by (apply nth_error_Some; congruence).
        assert (Lj : (snd (fst x) < length v2)%nat) by (apply nth_error_Some; congruence).
        unfold pair_ids. unfold v1 in Li. unfold v2 in Lj.
        rewrite (orig_of_nth f1 _ Li), (orig_of_nth f2 _ Lj). fold v1 v2.
        rewrite (nth_error_nth v1 _ d0 Hp), (nth_error_nth v2 _ d0 Hs).
        unfold passf in Hpass. rewrite (nth_error_nth v1 _ d0 Hp), (nth_error_nth v2 _ d0 Hs) in Hpass.
        rewrite (passes_whole _ _ _ Hw) in Hpass.
        apply nth_error_In in Hp. apply nth_error_In in Hs.
        apply Hmem1 in Hp. apply Hmem2 in Hs. destruct Hp as [Hp [Rp _]]. destruct Hs as [Hs [Rs _]].
        unfold spec_pairs. rewrite in_map_iff. exists (p, s). split; [reflexivity|].
        rewrite filter_In, in_prod_iff. split; [auto|].
        unfold collocated, nearp, in_win. cbn [fst snd]. rewrite Hpa, Hsb, Hn, Hpass.
        rewrite (range_win c _ _ _ Rp), (range_win c _ _ _ Rs). reflexivity.
      + intros Hab. unfold spec_pairs in Hab. rewrite in_map_iff in Hab. destruct Hab as [[p s] [<- Hx]].
        rewrite filter_In, in_prod_iff in Hx. destruct Hx as [[Hp Hs] Hc].
        unfold collocated in Hc. cbn [fst snd] in Hc. rewrite !andb_true_iff in Hc.
        destruct Hc as [[[Hn Hd] Wp] Ws]. pose proof Hd as Hdb. apply Z.ltb_lt in Hd.
        destruct (window_ok c dp ds p s Hp Hs Hd Wp Ws) as [Rp Rs]. fold lo hi in Rp, Rs.
        unfold nearp in Hn. destruct (ppos p) as [a|] eqn:Hpa; [|discriminate].
        destruct (ppos s) as [b|] eqn:Hsb; [|discriminate].
        assert (Vp : In p v1) by (apply Hmem1; unfold C04_collocate.has_pos; rewrite Hpa; auto).
        assert (Vs : In s v2) by (apply Hmem2; unfold C04_collocate.has_pos; rewrite Hsb; auto).
        destruct (Hcomp p s a b Vp Vs Hpa Hsb Hn Hd) as [x [Hx [Hi [Hj _]]]].
        exists x. 
        assert (Li : (fst (fst x) < length v1)%nat) by (apply nth_error_Some; congruence).
        assert (Lj : (snd (fst x) < length v2)%nat) by (apply nth_error_Some; congruence).
        split.
        * unfold pair_ids. unfold v1 in Li. unfold v2 in Lj.
          rewrite (orig_of_nth f1 _ Li), (orig_of_nth f2 _ Lj). fold v1 v2.
          rewrite (nth_error_nth v1 _ d0 Hi), (nth_error_nth v2 _ d0 Hj). reflexivity.
        * rewrite filter_In. split; [exact Hx|]. unfold passf.
          rewrite (nth_error_nth v1 _ d0 Hi), (nth_error_nth v2 _ d0 Hj).
          rewrite (passes_whole _ _ _ Hw). exact Hdb.
  Qed.
End Facts.

(* ------------------------------------------------------------------ temporal pre-binning *)
Lemma filter_all_false {A} (f : A -> bool) l : (forall x, In x l -> f x = false) -> filter f l = [].
Proof.
  induction l as [|a l IH]; intros H; cbn [filter]; [reflexivity|].
  rewrite (H a (or_introl eq_refl)). apply IH. intros x Hx. apply H. right. exact Hx.
Qed.

Lemma filter_all_true {A} (f : A -> bool) l : (forall x, In x l -> f x = true) -> filter f l = l.
Proof.
  induction l as [|a l IH]; intros H; cbn [filter]; [reflexivity|].
  rewrite (H a (or_introl eq_refl)). f_equal. apply IH. intros x Hx. apply H. right. exact Hx.
Qed.

Lemma filter_filter {A} (f g : A -> bool) l : filter g (filter f l) = filter (fun x => f x && g x) l.
Proof.
  induction l as [|a l IH]; cbn [filter]; [reflexivity|].
  destruct (f a); cbn [filter andb]; [destruct (g a)|]; rewrite IH; reflexivity.
Qed.

(* a sorted list is its part below a followed by its part from a on: searchsorted(a) = length of the first *)
Lemma sorted_split {A} (key : A -> Z) a l : StronglySorted (le_key key) l ->
  l = filter (fun x => key x <? a) l ++ filter (fun x => a <=? key x) l.
Proof.
  induction 1 as [|x l Hs IH Hall]; [reflexivity|]. cbn [filter].
  destruct (Z.ltb_spec (key x) a) as [Hlt|Hge].
  - destruct (Z.leb_spec a (key x)); [lia|]. cbn [app]. f_equal. exact IH.
  - destruct (Z.leb_spec a (key x)); [|lia].
    rewrite Forall_forall in Hall. unfold le_key in Hall.
    rewrite filter_all_false, filter_all_true; [reflexivity| |].
    + intros y Hy. specialize (Hall y Hy). apply Z.leb_le. lia.
    + intros y Hy. specialize (Hall y Hy). apply Z.ltb_ge. lia.
Qed.

Lemma segment_nth {A} (key : A -> Z) (a a' : Z) l i : StronglySorted (le_key key) l ->
  Nat.lt i (length (filter (fun x => (a <=? key x) && (key x <? a')) l)) ->
  nth_error l (length (filter (fun x => key x <? a) l) + i)
  = nth_error (filter (fun x => (a <=? key x) && (key x <? a')) l) i.
Proof.
  intros Hs Hi.
  set (c := filter (fun x => (a <=? key x) && (key x <? a')) l) in *.
  set (pre := filter (fun x => key x <? a) l).
  set (suf := filter (fun x => a <=? key x) l).
  assert (El : l = pre ++ suf) by (apply sorted_split; exact Hs).
  assert (Es : suf = filter (fun x => key x <? a') suf ++ filter (fun x => a' <=? key x) suf).
  { apply sorted_split. apply SS_filter. exact Hs. }
  assert (Ec : c = filter (fun x => key x <? a') suf) by (unfold c, suf; rewrite filter_filter; reflexivity).
  rewrite El. rewrite nth_error_app2 by lia.
  replace (length pre + i - length pre)%nat with i by lia.
  rewrite Es. rewrite <- Ec. rewrite nth_error_app1 by exact Hi. reflexivity.
Qed.

Lemma binof_edges w o t b : 0 < w ->
  (binof w o t =? b) = (edge w o b <=? t) && (t <? edge w o (b + 1)).
Proof.
  intros Hw. unfold binof, edge.
  pose proof (Z.div_mod (t - o) w ltac:(lia)) as H1.
  pose proof (Z.mod_pos_bound (t - o) w Hw) as H2.
  set (q := (t - o) / w) in *. set (r := (t - o) mod w) in *.
  destruct (Z.eqb_spec q b) as [E|E].
  - subst b. symmetry. apply andb_true_iff. split; [apply Z.leb_le|apply Z.ltb_lt]; nia.
  - symmetry. apply andb_false_iff.
    destruct (Z.leb_spec (o + b * w) t) as [L|L]; [|left; reflexivity].
    destruct (Z.ltb_spec t (o + (b + 1) * w)) as [U|U]; [|right; reflexivity].
    exfalso. assert (b < q + 1) by nia. assert (q < b + 1) by nia. lia.
Qed.

Lemma leb_ltb_succ t hi : (t <=? hi) = (t <? hi + 1).
Proof. destruct (Z.leb_spec t hi), (Z.ltb_spec t (hi + 1)); try reflexivity; lia. Qed.

Lemma in_bins_of w o ts t : 0 < w -> In t ts -> In (binof w o t) (bins_of w o ts).
Proof.
  intros Hw Ht. unfold bins_of.
  pose proof (zmin_l_le ts t Ht) as Hmin. pose proof (zmax_l_ge ts t Ht) as Hmax.
  assert (L : binof w o (zmin_l ts) <= binof w o t) by (unfold binof; apply Z.div_le_mono; lia).
  assert (U : binof w o t <= binof w o (zmax_l ts)) by (unfold binof; apply Z.div_le_mono; lia).
  rewrite in_map_iff. exists (Z.to_nat (binof w o t - binof w o (zmin_l ts))). split; [lia|].
  apply in_seq. lia.
Qed.

Lemma isnil_false_in {A} (l : list A) x : In x l -> isnil l = false.
Proof. destruct l; [intros []|reflexivity]. Qed.

Section Binned.
  Variable P : Type.
  Variable D : Type.
  Variable near : P -> P -> bool.
  Variable dist : P -> P -> D.
  Variable ctest : list P -> list P -> bool.
  Hypothesis near_sym : forall a b, near a b = near b a.
  Hypothesis dist_sym : forall a b, dist a b = dist b a.
  Hypothesis ctest_sound : forall a b, ctest a b = true -> a = b.

  Notation pt := (pt P).
  Notation has_pos := (has_pos P).
  Notation poslist := (poslist P).
  Notation hitp := (hitp P D near dist).
  Notation tkey := (@ptime P).

  Variables (mf m w o : Z) (A B : list pt).
  Hypothesis w_pos : 0 < w.
  Hypothesis A_sorted : StronglySorted (le_key tkey) A.
  Hypothesis B_sorted : StronglySorted (le_key tkey) B.
  Hypothesis A_pos : Forall (fun p => has_pos p = true) A.
  Hypothesis B_pos : Forall (fun p => has_pos p = true) B.

  Definition chunk1 (b : Z) := filter (fun p : pt => binof w o (ptime p) =? b) A.
  Definition chunk2 (lo hi : Z) := filter (fun p : pt => in_range lo hi (ptime p)) B.

  Lemma chunk1_seg b : chunk1 b = filter (fun p : pt => (edge w o b <=? ptime p) && (ptime p <? edge w o (b + 1))) A.
  Proof. apply filter_ext. intros p. apply binof_edges. exact w_pos. Qed.

  Lemma chunk2_seg lo hi : chunk2 lo hi = filter (fun p : pt => (lo <=? ptime p) && (ptime p <? hi + 1)) B.
  Proof. apply filter_ext. intros p. unfold in_range. rewrite (leb_ltb_succ (ptime p) hi). reflexivity. Qed.

  Lemma chunk1_nth b i : (i < length (chunk1 b))%nat ->
    nth_error A (length (filter (fun p : pt => ptime p <? edge w o b) A) + i) = nth_error (chunk1 b) i.
  Proof. rewrite chunk1_seg. intros Hi. apply (segment_nth tkey); assumption. Qed.

  Lemma chunk2_nth lo hi j : (j < length (chunk2 lo hi))%nat ->
    nth_error B (length (filter (fun p : pt => ptime p <? lo) B) + j) = nth_error (chunk2 lo hi) j.
  Proof. rewrite chunk2_seg. intros Hj. apply (segment_nth tkey); assumption. Qed.

  Lemma sub_pos (f : pt -> bool) l : Forall (fun p => has_pos p = true) l -> Forall (fun p => has_pos p = true) (filter f l).
  Proof. rewrite !Forall_forall. intros H p Hp. apply filter_In in Hp. apply H. apply Hp. Qed.

  Notation bin_search := (bin_search P D near dist ctest mf m w o A B).

  Lemma bin_sound st b x : In x (snd (bin_search st b)) -> hitp A B x.
  Proof.
    unfold C04_collocate.bin_search. fold (chunk1 b).
    set (lo := edge w o b - m). set (hi := zmax_l (map tkey (chunk1 b)) + m). fold (chunk2 lo hi).
    destruct (isnil (chunk1 b) || isnil (chunk2 lo hi)); cbn [snd]; [intros []|].
    rewrite in_map_iff. intros [y [<- Hy]].
    apply (spatial_search_spec P D near dist ctest near_sym dist_sym ctest_sound) in Hy.
    destruct Hy as [a [c [Ha [Hc [Hn Hd]]]]].
    apply (poslist_nth P (chunk1 b) (sub_pos _ A A_pos)) in Ha.
    apply (poslist_nth P (chunk2 lo hi) (sub_pos _ B B_pos)) in Hc.
    destruct Ha as [p [Hp Hpa]]. destruct Hc as [s [Hs Hsc]].
    exists p, s, a, c. unfold shift3. cbn [fst snd].
    assert (Li : (fst (fst y) < length (chunk1 b))%nat) by (apply nth_error_Some; congruence).
    assert (Lj : (snd (fst y) < length (chunk2 lo hi))%nat) by (apply nth_error_Some; congruence).
    rewrite (chunk1_nth b _ Li), (chunk2_nth lo hi _ Lj). auto 10.
  Qed.

  Lemma bin_complete st p s a c :
    In p A -> In s B -> ppos p = Some a -> ppos s = Some c -> near a c = true ->
    Z.abs (ptime p - ptime s) < m ->
    exists x, In x (snd (bin_search st (binof w o (ptime p)))) /\
              nth_error A (fst (fst x)) = Some p /\ nth_error B (snd (fst x)) = Some s /\ snd x = dist a c.
  Proof.
    intros Hp Hs Hpa Hsc Hn Hd. set (b := binof w o (ptime p)).
    unfold C04_collocate.bin_search. fold (chunk1 b).
    set (lo := edge w o b - m). set (hi := zmax_l (map tkey (chunk1 b)) + m). fold (chunk2 lo hi).
    assert (C1 : In p (chunk1 b)) by (unfold chunk1; apply filter_In; split; [exact Hp|apply Z.eqb_refl]).
    assert (Eb : edge w o b <= ptime p).
    { pose proof (binof_edges w o (ptime p) b w_pos) as H. fold b in H. rewrite Z.eqb_refl in H.
      symmetry in H. apply andb_true_iff in H. apply Z.leb_le. apply H. }
    assert (Hhi : ptime p + m <= hi).
    { unfold hi. assert (ptime p <= zmax_l (map tkey (chunk1 b))) by (apply zmax_l_ge; apply in_map; exact C1). lia. }
    assert (C2 : In s (chunk2 lo hi)).
    { unfold chunk2. apply filter_In. split; [exact Hs|]. unfold in_range, lo.
      apply andb_true_iff. split; apply Z.leb_le; lia. }
    rewrite (isnil_false_in _ _ C1), (isnil_false_in _ _ C2). cbn [orb snd].
    apply In_nth_error in C1. apply In_nth_error in C2. destruct C1 as [i Hi]. destruct C2 as [j Hj].
    exists (shift3 D (length (filter (fun q : pt => ptime q <? edge w o b) A))
                     (length (filter (fun q : pt => ptime q <? lo) B)) (i, j, dist a c)).
    split; [|unfold shift3; cbn [fst snd]].
    - apply in_map. apply (spatial_search_spec P D near dist ctest near_sym dist_sym ctest_sound).
      exists a, c. cbn [fst snd].
      split; [apply (poslist_nth P (chunk1 b) (sub_pos _ A A_pos)); eauto|].
      split; [apply (poslist_nth P (chunk2 lo hi) (sub_pos _ B B_pos)); eauto|auto].
    - assert (Li : (i < length (chunk1 b))%nat) by (apply nth_error_Some; congruence).
      assert (Lj : (j < length (chunk2 lo hi))%nat) by (apply nth_error_Some; congruence).
      rewrite (chunk1_nth b _ Li), (chunk2_nth lo hi _ Lj). auto.
  Qed.

  Lemma fold_bins_sound (Q : nat * nat * D -> Prop) f :
    (forall st b x, In x (snd (f st b)) -> Q x) ->
    forall bs st x, In x (snd (fold_bins P D f st bs)) -> Q x.
  Proof.
    intros Hf. induction bs as [|b t IH]; intros st x; cbn [fold_bins snd]; [intros []|].
    intros H. apply in_app_or in H. destruct H as [H|H]; [exact (Hf _ _ _ H)|exact (IH _ _ H)].
  Qed.

  Lemma fold_bins_complete (Q : nat * nat * D -> Prop) f b :
    (forall st, exists x, In x (snd (f st b)) /\ Q x) ->
    forall bs, In b bs -> forall st, exists x, In x (snd (fold_bins P D f st bs)) /\ Q x.
  Proof.
    intros Hf. induction bs as [|b' t IH]; intros Hb st; [destruct Hb|]. cbn [fold_bins snd].
    destruct Hb as [->|Hb].
    - destruct (Hf st) as [x [Hx HQ]]. exists x. split; [apply in_or_app; left; exact Hx|exact HQ].
    - destruct (IH Hb (fst (f st b'))) as [x [Hx HQ]]. exists x. split; [apply in_or_app; right; exact Hx|exact HQ].
  Qed.

  (* all bins of A against B *)
  Lemma bins_raw_ok st :
    raw_ok P D near dist m A B (snd (fold_bins P D bin_search st (bins_of w o (map tkey A)))).
  Proof.
    split.
    - intros x. apply (fold_bins_sound (hitp A B)). intros st' b y. apply bin_sound.
    - intros p s a c Hp Hs Hpa Hsc Hn Hd.
      apply (fold_bins_complete (fun x => nth_error A (fst (fst x)) = Some p /\ nth_error B (snd (fst x)) = Some s
                                           /\ snd x = dist a c) bin_search (binof w o (ptime p))).
      + intros st'. apply bin_complete; assumption.
      + apply in_bins_of; [exact w_pos|]. apply in_map. exact Hp.
  Qed.
End Binned.

Section BinnedSearch.
  Variable P : Type.
  Variable D : Type.
  Variable near : P -> P -> bool.
  Variable dist : P -> P -> D.
  Variable ctest : list P -> list P -> bool.
  Hypothesis near_sym : forall a b, near a b = near b a.
  Hypothesis dist_sym : forall a b, dist a b = dist b a.
  Hypothesis ctest_sound : forall a b, ctest a b = true -> a = b.

  Lemma binned_ok_all tn c : 0 < bw tn -> binned_ok P D near dist ctest tn c.
  Proof.
    intros Hw st v1 v2 S1 S2 P1 P2. unfold binned_search.
    destruct (length v1 <? length v2)%nat.
    - pose proof (bins_raw_ok P D near dist ctest near_sym dist_sym ctest_sound (mfac tn) (mi c) (bw tn) (borigin tn)
                    v2 v1 Hw S2 S1 P2 P1 st) as [Hs Hc].
      cbn [snd]. split.
      + intros x Hx. rewrite in_map_iff in Hx. destruct Hx as [y [<- Hy]].
        destruct (Hs y Hy) as [p [s [a [b [H1 [H2 [H3 [H4 [H5 H6]]]]]]]]].
        exists s, p, b, a. unfold swap3. cbn [fst snd]. rewrite near_sym, dist_sym. auto 10.
      + intros p s a b Hp Hsv Hpa Hsb Hn Hd.
        destruct (Hc s p b a Hsv Hp Hsb Hpa) as [y [Hy [H1 [H2 H3]]]].
        * rewrite near_sym. exact Hn.
        * replace (ptime s - ptime p) with (- (ptime p - ptime s)) by lia. rewrite Z.abs_opp. exact Hd.
        * exists (swap3 D y). split; [apply in_map; exact Hy|]. unfold swap3. cbn [fst snd].
          rewrite dist_sym. auto.
    - cbn [snd]. apply (bins_raw_ok P D near dist ctest near_sym dist_sym ctest_sound); assumption.
  Qed.

  (* the core statement: for every tuning, every state left by earlier calls, both layouts, both paths *)
  Lemma collocate_exact tn st c dp ds :
    whole_seconds (mi c) -> 0 < bw tn ->
    set_eq (ids_opt P D (snd (collocate P D near dist ctest tn st c dp ds))) (spec_pairs P near c dp ds).
  Proof.
    intros Hw Hb. apply (collocate_exact_if P D near dist ctest near_sym dist_sym ctest_sound); [exact Hw|].
    apply binned_ok_all. exact Hb.
  Qed.
End BinnedSearch.

(* ------------------------------------------------------------------ corollaries *)
Section Corollaries.
  Variable P : Type.
  Variable D : Type.
  Variable near : P -> P -> bool.
  Variable dist : P -> P -> D.
  Variable ctest : list P -> list P -> bool.
  Hypothesis near_sym : forall a b, near a b = near b a.
  Hypothesis dist_sym : forall a b, dist a b = dist b a.
  Hypothesis ctest_sound : forall a b, ctest a b = true -> a = b.

  Notation collocate := (collocate P D near dist ctest).
  Notation ids_opt := (ids_opt P D).

  Lemma tuning_history_invariant tn1 tn2 st1 st2 c dp ds :
    whole_seconds (mi c) -> 0 < bw tn1 -> 0 < bw tn2 ->
    set_eq (ids_opt (snd (collocate tn1 st1 c dp ds))) (ids_opt (snd (collocate tn2 st2 c dp ds))).
  Proof.
    intros Hw H1 H2 x.
    rewrite (collocate_exact P D near dist ctest near_sym dist_sym ctest_sound tn1 st1 c dp ds Hw H1 x).
    rewrite (collocate_exact P D near dist ctest near_sym dist_sym ctest_sound tn2 st2 c dp ds Hw H2 x).
    reflexivity.
  Qed.

  Lemma spec_transposed c dp ds a b : In (a, b) (spec_pairs P near c ds dp) <-> In (b, a) (spec_pairs P near c dp ds).
  Proof.
    assert (H : forall d1 d2 a b, In (a, b) (spec_pairs P near c d1 d2) -> In (b, a) (spec_pairs P near c d2 d1)).
    { intros d1 d2 a' b' Hab. unfold spec_pairs in *. rewrite in_map_iff in *.
      destruct Hab as [[p s] [E Hx]]. cbn [fst snd] in E. inversion E; subst. exists (s, p). split; [reflexivity|].
      rewrite filter_In, in_prod_iff in *. destruct Hx as [[Hp Hs] Hc]. split; [auto|].
      unfold collocated, nearp in *. cbn [fst snd] in *. rewrite !andb_true_iff in *.
      destruct Hc as [[[Hn Hd] Wp] Ws]. repeat split; try assumption.
      - destruct (ppos p), (ppos s); try discriminate. rewrite near_sym. exact Hn.
      - replace (ptime s - ptime p) with (- (ptime p - ptime s)) by lia. rewrite Z.abs_opp. exact Hd. }
    split; apply H.
  Qed.

  Lemma transposed tn1 tn2 st1 st2 c dp ds :
    whole_seconds (mi c) -> 0 < bw tn1 -> 0 < bw tn2 ->
    forall a b, In (a, b) (ids_opt (snd (collocate tn1 st1 c ds dp))) <-> In (b, a) (ids_opt (snd (collocate tn2 st2 c dp ds))).
  Proof.
    intros Hw H1 H2 a b.
    rewrite (collocate_exact P D near dist ctest near_sym dist_sym ctest_sound tn1 st1 c ds dp Hw H1 (a, b)).
    rewrite (collocate_exact P D near dist ctest near_sym dist_sym ctest_sound tn2 st2 c dp ds Hw H2 (b, a)).
    apply spec_transposed.
  Qed.

  Lemma some_nonempty tn st c dp ds r : snd (collocate tn st c dp ds) = Some r -> ids P D r <> [].
  Proof.
    unfold C04_collocate.collocate.
    destruct (isnil _ || isnil _); cbn [snd]; [discriminate|].
    match goal with |- context [if isnil (snd ?r) then _ else _] => destruct (isnil (snd r)) end; cbn [snd]; [discriminate|].
    match goal with |- create_return P D ?f1 ?f2 ?v1 ?v2 ?o1 ?o2 ?ok = Some r -> _ =>
      intros H; pose proof (ids_create P D f1 f2 v1 v2 o1 o2 ok) as Hi; rewrite H in Hi; cbn [C04_collocate.ids_opt] in Hi;
      rewrite Hi; destruct ok; [discriminate H|discriminate] end.
  Qed.

  Lemma none_iff_empty tn st c dp ds : whole_seconds (mi c) -> 0 < bw tn ->
    (snd (collocate tn st c dp ds) = None <-> spec_pairs P near c dp ds = []).
  Proof.
    intros Hw Hb. pose proof (collocate_exact P D near dist ctest near_sym dist_sym ctest_sound tn st c dp ds Hw Hb) as He.
    split.
    - intros Hn. rewrite Hn in He. cbn [C04_collocate.ids_opt] in He.
      destruct (spec_pairs P near c dp ds) as [|x l]; [reflexivity|]. exfalso. apply (He x). left. reflexivity.
    - intros Hs. rewrite Hs in He. destruct (snd (collocate tn st c dp ds)) as [r|] eqn:E; [|reflexivity]. exfalso.
      apply (some_nonempty tn st c dp ds r E). cbn [C04_collocate.ids_opt] in He.
      destruct (ids P D r) as [|x l]; [reflexivity|]. exfalso. apply (He x). left. reflexivity.
  Qed.
End Corollaries.

Lemma list_eqb_sound {P} (eqb : P -> P -> bool) : (forall a b, eqb a b = true -> a = b) ->
  forall a b, list_eqb eqb a b = true -> a = b.
Proof.
  intros H. induction a as [|x s IH]; intros [|y t]; cbn; try discriminate; [reflexivity|].
  intros E. apply andb_true_iff in E. destruct E as [E1 E2]. f_equal; [apply H; exact E1|apply IH; exact E2].
Qed.

(* ================================================================== each pair once, the stored values, the compaction *)
(* ------------------------------------------------------------------ each pair once: generic facts *)
Lemma NoDup_app_iff' {A} (l1 l2 : list A) :
  NoDup (l1 ++ l2) <-> NoDup l1 /\ NoDup l2 /\ (forall x, In x l1 -> In x l2 -> False).
Proof.
  induction l1 as [|a l1 IH]; cbn [app].
  - split; [intros H; repeat split; [constructor|exact H|intros x []]|intros [_ [H _]]; exact H].
  - split.
    + intros H. inversion H as [|? ? Hn Hd]; subst. apply IH in Hd. destruct Hd as [H1 [H2 H3]].
      split; [constructor; [intros Hi; apply Hn; apply in_or_app; left; exact Hi|exact H1]|].
      split; [exact H2|]. intros x [<-|Hx] Hx2; [apply Hn; apply in_or_app; right; exact Hx2|exact (H3 x Hx Hx2)].
    + intros [H1 [H2 H3]]. inversion H1 as [|? ? Hn Hd]; subst. constructor.
      * intros Hi. apply in_app_or in Hi. destruct Hi as [Hi|Hi]; [exact (Hn Hi)|exact (H3 a (or_introl eq_refl) Hi)].
      * apply IH. split; [exact Hd|]. split; [exact H2|]. intros x Hx. apply H3. right. exact Hx.
Qed.

Lemma NoDup_map_inj_in {A B} (f : A -> B) l :
  (forall x y, In x l -> In y l -> f x = f y -> x = y) -> NoDup l -> NoDup (map f l).
Proof.
  induction l as [|a l IH]; intros Hinj Hn; cbn [map]; [constructor|].
  inversion Hn as [|? ? Ha Hl]; subst. constructor.
  - rewrite in_map_iff. intros [y [E Hy]]. apply Ha.
    rewrite (Hinj a y (or_introl eq_refl) (or_intror Hy) (eq_sym E)). exact Hy.
  - apply IH; [|exact Hl]. intros x y Hx Hy. apply Hinj; right; assumption.
Qed.

Lemma NoDup_map_filter {A B} (g : A -> B) (f : A -> bool) l : NoDup (map g l) -> NoDup (map g (filter f l)).
Proof.
  induction l as [|a l IH]; intros H; cbn [filter map]; [constructor|].
  cbn [map] in H. inversion H as [|? ? Ha Hl]; subst.
  destruct (f a); [|exact (IH Hl)]. cbn [map]. constructor; [|exact (IH Hl)].
  rewrite in_map_iff. intros [y [E Hy]]. apply Ha. rewrite in_map_iff. exists y.
  apply filter_In in Hy. split; [exact E|apply Hy].
Qed.

(* a concatenation of lists whose elements carry the key of their source: no duplicates across sources *)
Lemma NoDup_map_flat_map {A B C K} (g : B -> C) (f : A -> list B) (ka : A -> K) (kc : C -> K) l :
  (forall a b, In a l -> In b (f a) -> kc (g b) = ka a) -> NoDup (map ka l) ->
  (forall a, In a l -> NoDup (map g (f a))) -> NoDup (map g (flat_map f l)).
Proof.
  induction l as [|a l IH]; intros Hk Hn Hf; cbn [flat_map map]; [constructor|].
  rewrite map_app. cbn [map] in Hn. inversion Hn as [|? ? Ha Hl]; subst.
  apply NoDup_app_iff'. split; [apply Hf; left; reflexivity|]. split.
  - apply IH; [intros a' b Ha' Hb; apply Hk; [right; exact Ha'|exact Hb]|exact Hl|intros a' Ha'; apply Hf; right; exact Ha'].
  - intros x Hx1 Hx2. rewrite in_map_iff in Hx1, Hx2. destruct Hx1 as [b1 [<- Hb1]]. destruct Hx2 as [b2 [E Hb2]].
    rewrite in_flat_map in Hb2. destruct Hb2 as [a' [Ha' Hb2]].
    apply Ha. rewrite in_map_iff. exists a'. split; [|exact Ha'].
    rewrite <- (Hk a' b2 (or_intror Ha') Hb2), E. apply Hk; [left; reflexivity|exact Hb1].
Qed.

Lemma map_fst_indexed {A} (l : list A) : map fst (indexed l) = seq 0 (length l).
Proof.
  unfold indexed. generalize 0%nat. induction l as [|a l IH]; intros k; cbn [length seq combine map]; [reflexivity|].
  cbn [fst]. f_equal. apply IH.
Qed.

Section SearchOnce.
  Variable P : Type.
  Variable D : Type.
  Variable near : P -> P -> bool.
  Variable dist : P -> P -> D.
  Variable ctest : list P -> list P -> bool.

  Notation ipair := (ipair D).

  Lemma gquery_once B Q : NoDup (map ipair (gquery P D near dist B Q)).
  Proof.
    unfold gquery.
    apply (NoDup_map_flat_map ipair _ (@fst nat P) (@snd nat nat)).
    - intros [j q] x _ Hx. rewrite in_flat_map in Hx. destruct Hx as [[i b] [_ Hx]]. cbn [fst snd] in *.
      destruct (near b q); [|destruct Hx]. destruct Hx as [<-|[]]. reflexivity.
    - rewrite map_fst_indexed. apply seq_NoDup.
    - intros [j q] _. cbn [fst snd].
      apply (NoDup_map_flat_map ipair _ (@fst nat P) (@fst nat nat)).
      + intros [i b] x _ Hx. cbn [fst snd] in *. destruct (near b q); [|destruct Hx]. destruct Hx as [<-|[]]. reflexivity.
      + rewrite map_fst_indexed. apply seq_NoDup.
      + intros [i b] _. cbn [fst snd]. destruct (near b q); cbn [map]; repeat constructor. intros [].
  Qed.

  Lemma ipair_swap3 x : ipair (swap3 D x) = (snd (ipair x), fst (ipair x)).
  Proof. destruct x as [[i j] d]. reflexivity. Qed.

  Lemma swap3_once l : NoDup (map ipair l) -> NoDup (map ipair (map (swap3 D) l)).
  Proof.
    intros H. rewrite map_map.
    rewrite (map_ext _ (fun x => (fun ij : nat * nat => (snd ij, fst ij)) (ipair x)) ipair_swap3).
    rewrite <- (map_map ipair (fun ij : nat * nat => (snd ij, fst ij))). apply NoDup_map_inj_in; [|exact H].
    intros [a b] [a' b'] _ _ E. cbn [fst snd] in E. congruence.
  Qed.

  (* the search reports each index pair once: whatever index is kept *)
  Lemma spatial_search_once mf st L1 L2 : NoDup (map ipair (snd (spatial_search P D near dist ctest mf st L1 L2))).
  Proof.
    unfold spatial_search. cbn [snd]. destruct (choose P ctest mf st L1 L2).
    - apply gquery_once.
    - apply swap3_once. apply gquery_once.
  Qed.
End SearchOnce.

Lemma bins_of_NoDup w o ts : NoDup (bins_of w o ts).
Proof.
  unfold bins_of. apply NoDup_map_inj_in; [|apply seq_NoDup]. intros x y _ _ E. lia.
Qed.

Section BinnedOnce.
  Variable P : Type.
  Variable D : Type.
  Variable near : P -> P -> bool.
  Variable dist : P -> P -> D.
  Variable ctest : list P -> list P -> bool.
  Hypothesis near_sym : forall a b, near a b = near b a.
  Hypothesis dist_sym : forall a b, dist a b = dist b a.
  Hypothesis ctest_sound : forall a b, ctest a b = true -> a = b.

  Notation pt := (pt P).
  Notation has_pos := (has_pos P).
  Notation ipair := (ipair D).

  Variables (mf m w o : Z) (A B : list pt).
  Hypothesis w_pos : 0 < w.
  Hypothesis A_sorted : StronglySorted (le_key (@ptime P)) A.
  Hypothesis A_pos : Forall (fun p => has_pos p = true) A.

  Notation bin_search := (bin_search P D near dist ctest mf m w o A B).

  (* an entry of the bin b names (after the offset) a point of A that lies in the bin b *)
  Definition in_bin (b : Z) (x : nat * nat * D) : Prop :=
    exists p, nth_error A (fst (fst x)) = Some p /\ binof w o (ptime p) = b.

  Lemma bin_tag st b x : In x (snd (bin_search st b)) -> in_bin b x.
  Proof.
    unfold C04_collocate.bin_search. fold (chunk1 P w o A b).
    match goal with |- context [isnil ?c1 || isnil ?c2] => destruct (isnil c1 || isnil c2) end; cbn [snd]; [intros []|].
    rewrite in_map_iff. intros [y [<- Hy]].
    apply (spatial_search_spec P D near dist ctest near_sym dist_sym ctest_sound) in Hy.
    destruct Hy as [a [c [Ha [_ _]]]].
    apply (poslist_nth P (chunk1 P w o A b) (sub_pos P _ A A_pos)) in Ha. destruct Ha as [p [Hp _]].
    assert (Li : (fst (fst y) < length (chunk1 P w o A b))%nat) by (apply nth_error_Some; congruence).
    exists p. unfold shift3. cbn [fst snd]. rewrite (chunk1_nth P w o A w_pos A_sorted b _ Li).
    split; [exact Hp|]. apply nth_error_In in Hp. unfold chunk1 in Hp. apply filter_In in Hp.
    apply Z.eqb_eq. apply Hp.
  Qed.

  Lemma ipair_shift3 o1 o2 x : ipair (shift3 D o1 o2 x) = ((o1 + fst (ipair x))%nat, (o2 + snd (ipair x))%nat).
  Proof. destruct x as [[i j] d]. reflexivity. Qed.

  Lemma bin_once st b : NoDup (map ipair (snd (bin_search st b))).
  Proof.
    unfold C04_collocate.bin_search.
    match goal with |- context [isnil ?c1 || isnil ?c2] => destruct (isnil c1 || isnil c2) end; cbn [snd map]; [constructor|].
    rewrite map_map.
    match goal with |- NoDup (map (fun x => ipair (shift3 D ?o1 ?o2 x)) ?l) =>
      rewrite (map_ext _ (fun x => (fun ij : nat * nat => ((o1 + fst ij)%nat, (o2 + snd ij)%nat)) (ipair x))
                       (ipair_shift3 o1 o2));
      rewrite <- (map_map ipair (fun ij : nat * nat => ((o1 + fst ij)%nat, (o2 + snd ij)%nat))) end.
    apply NoDup_map_inj_in; [|apply spatial_search_once].
    intros [a b'] [a' b''] _ _ E. cbn [fst snd] in E. inversion E. f_equal; lia.
  Qed.

  Lemma fold_bins_from f : forall bs st x, In x (snd (fold_bins P D f st bs)) -> exists st' b, In b bs /\ In x (snd (f st' b)).
  Proof.
    induction bs as [|b t IH]; intros st x; cbn [fold_bins snd]; [intros []|].
    intros H. apply in_app_or in H. destruct H as [H|H].
    - exists st, b. split; [left; reflexivity|exact H].
    - destruct (IH _ _ H) as [st' [b' [Hb Hx]]]. exists st', b'. split; [right; exact Hb|exact Hx].
  Qed.

  (* no index pair comes from two bins: the first index names a point of A and a point lies in one bin *)
  Lemma fold_bins_once : forall bs st, NoDup bs -> NoDup (map ipair (snd (fold_bins P D bin_search st bs))).
  Proof.
    induction bs as [|b t IH]; intros st Hn; cbn [fold_bins snd map]; [constructor|].
    inversion Hn as [|? ? Hb Ht]; subst. rewrite map_app. apply NoDup_app_iff'.
    split; [apply bin_once|]. split; [apply IH; exact Ht|].
    intros ij H1 H2. rewrite in_map_iff in H1, H2. destruct H1 as [x [<- Hx]]. destruct H2 as [y [E Hy]].
    apply bin_tag in Hx. apply fold_bins_from in Hy. destruct Hy as [st' [b' [Hb' Hy]]]. apply bin_tag in Hy.
    destruct Hx as [p [Hp Hpb]]. destruct Hy as [q [Hq Hqb]].
    unfold C04_collocate.ipair in E. rewrite E in Hq. rewrite Hp in Hq. inversion Hq; subst q. subst b'. subst b. exact (Hb Hb').
  Qed.
End BinnedOnce.

Section PathsOnce.
  Variable P : Type.
  Variable D : Type.
  Variable near : P -> P -> bool.
  Variable dist : P -> P -> D.
  Variable ctest : list P -> list P -> bool.
  Hypothesis near_sym : forall a b, near a b = near b a.
  Hypothesis dist_sym : forall a b, dist a b = dist b a.
  Hypothesis ctest_sound : forall a b, ctest a b = true -> a = b.

  Lemma binned_search_once mf m w o st v1 v2 : 0 < w ->
    StronglySorted (le_key (@ptime P)) v1 -> StronglySorted (le_key (@ptime P)) v2 ->
    Forall (fun p => has_pos P p = true) v1 -> Forall (fun p => has_pos P p = true) v2 ->
    NoDup (map (ipair D) (snd (binned_search P D near dist ctest mf m w o st v1 v2))).
  Proof.
    intros Hw S1 S2 P1 P2. unfold binned_search. destruct (length v1 <? length v2)%nat; cbn [snd].
    - apply swap3_once.
      apply (fold_bins_once P D near dist ctest near_sym dist_sym ctest_sound mf m w o v2 v1 Hw S2 P2). apply bins_of_NoDup.
    - apply (fold_bins_once P D near dist ctest near_sym dist_sym ctest_sound mf m w o v1 v2 Hw S1 P1). apply bins_of_NoDup.
  Qed.
End PathsOnce.

Lemma NoDup_map_flat_map_filter {A B C} (h : B -> C) (f : A -> list B) (g : A -> bool) l :
  NoDup (map h (flat_map f l)) -> NoDup (map h (flat_map f (filter g l))).
Proof.
  induction l as [|a l IH]; intros H; cbn [filter flat_map map]; [constructor|].
  cbn [flat_map] in H. rewrite map_app in H. apply NoDup_app_iff' in H. destruct H as [H1 [H2 H3]].
  destruct (g a); [|exact (IH H2)]. cbn [flat_map]. rewrite map_app. apply NoDup_app_iff'.
  split; [exact H1|]. split; [exact (IH H2)|]. intros x Hx Hy. apply (H3 x Hx).
  rewrite in_map_iff in *. destruct Hy as [b [E Hb]]. exists b. split; [exact E|].
  rewrite in_flat_map in *. destruct Hb as [a' [Ha' Hb]]. exists a'. apply filter_In in Ha'. split; [apply Ha'|exact Hb].
Qed.

Section Values.
  Variable P : Type.
  Variable D : Type.
  Variable near : P -> P -> bool.
  Variable dist : P -> P -> D.
  Variable ctest : list P -> list P -> bool.
  Hypothesis near_sym : forall a b, near a b = near b a.
  Hypothesis dist_sym : forall a b, dist a b = dist b a.
  Hypothesis ctest_sound : forall a b, ctest a b = true -> a = b.

  Notation pt := (pt P).
  Notation d0 := (d0 P).
  Notation has_pos := (has_pos P).
  Notation points_of := (points_of P).
  Notation orig_of := (orig_of P).
  Notation collocate := (collocate P D near dist ctest).
  Notation checked := (checked P D near dist ctest).
  Notation original_pairs := (original_pairs P D near dist ctest).
  Notation ipair := (ipair D).

  (* ---- the ids of the selected points stay distinct *)
  Lemma select_ids_once lo hi d : NoDup (map pid (points_of d)) -> NoDup (map pid (points_of (select P lo hi d))).
  Proof.
    destruct d as [l|ls]; cbn [select C04_collocate.points_of]; intros H.
    - apply (Permutation_NoDup (l := map pid (filter (fun p : pt => in_range lo hi (ptime p)) l))).
      + apply Permutation_map. symmetry. apply isort_perm.
      + apply NoDup_map_filter. exact H.
    - apply (Permutation_NoDup (l := map pid (flat_map (line_pts P) (filter (fun l => in_range lo hi (fst l)) ls)))).
      + apply Permutation_map. apply Permutation_flat_map. symmetry. apply isort_perm.
      + apply NoDup_map_flat_map_filter. exact H.
  Qed.

  (* ---- collocate is _create_return of the checked rows *)
  Lemma collocate_checked tn st c dp ds :
    snd (collocate tn st c dp ds) =
    create_return P D (selected_p P c dp ds) (selected_s P c dp ds)
                  (filter has_pos (selected_p P c dp ds)) (filter has_pos (selected_s P c dp ds))
                  (orig_of (selected_p P c dp ds)) (orig_of (selected_s P c dp ds)) (checked tn st c dp ds).
  Proof.
    unfold C04_collocate.collocate, C04_collocate.checked, selected_p, selected_s.
    destruct (isnil _ || isnil _); cbn [snd]; [reflexivity|].
    match goal with |- context [isnil (snd ?r)] => destruct (snd r) as [|x0 l0] eqn:Er end; cbn [isnil snd]; reflexivity.
  Qed.

  (* ---- every checked row names two NaN-free selected points that are near, with their distance *)
  Lemma checked_raw_ok tn st c dp ds : 0 < bw tn ->
    forall x, In x (checked tn st c dp ds) ->
      hitp P D near dist (filter has_pos (selected_p P c dp ds)) (filter has_pos (selected_s P c dp ds)) x.
  Proof.
    intros Hb x. unfold C04_collocate.checked.
    destruct (isnil _ || isnil _); [intros []|]. cbv zeta. rewrite filter_In. intros [Hx _]. revert x Hx.
    match goal with |- forall x, In x (snd ?r) -> hitp _ _ _ _ ?v1 ?v2 x =>
      assert (Hraw : raw_ok P D near dist (mi c) v1 v2 (snd r)) end.
    { destruct (thr tn <? _).
      - apply (binned_ok_all P D near dist ctest near_sym dist_sym ctest_sound tn c Hb);
          try apply filter_has_pos; apply SS_filter; apply sorted_points.
      - apply (direct_raw_ok P D near dist ctest near_sym dist_sym ctest_sound); apply filter_has_pos. }
    exact (proj1 Hraw).
  Qed.

  (* ---- each index pair once, on both paths *)
  Lemma checked_once tn st c dp ds : 0 < bw tn -> NoDup (map ipair (checked tn st c dp ds)).
  Proof.
    intros Hb. unfold C04_collocate.checked.
    destruct (isnil _ || isnil _); [constructor|]. cbv zeta. apply NoDup_map_filter.
    destruct (thr tn <? _).
    - apply (binned_search_once P D near dist ctest near_sym dist_sym ctest_sound); [exact Hb| | | |];
        try apply filter_has_pos; apply SS_filter; apply sorted_points.
    - apply spatial_search_once.
  Qed.

  Lemma hitp_valid v1 v2 x : hitp P D near dist v1 v2 x ->
    (fst (fst x) < length v1)%nat /\ (snd (fst x) < length v2)%nat.
  Proof.
    intros [p [s [a [b [Hp [Hs _]]]]]]. split; apply nth_error_Some; congruence.
  Qed.

  (* ---- each pair once, by the ids the data carry *)
  Lemma pairs_once tn st c dp ds : 0 < bw tn ->
    NoDup (map pid (points_of dp)) -> NoDup (map pid (points_of ds)) ->
    NoDup (ids_opt P D (snd (collocate tn st c dp ds))).
  Proof.
    intros Hb N1 N2. rewrite collocate_checked, ids_create.
    set (f1 := selected_p P c dp ds). set (f2 := selected_s P c dp ds).
    set (v1 := filter has_pos f1). set (v2 := filter has_pos f2).
    pose proof (checked_raw_ok tn st c dp ds Hb) as Hhit. fold f1 f2 v1 v2 in Hhit.
    pose proof (checked_once tn st c dp ds Hb) as Honce.
    assert (M1 : NoDup (map pid v1)) by (apply NoDup_map_filter; apply select_ids_once; exact N1).
    assert (M2 : NoDup (map pid v2)) by (apply NoDup_map_filter; apply select_ids_once; exact N2).
    set (g := fun ij : nat * nat =>
               (pid (nth (nth (fst ij) (orig_of f1) 0%nat) f1 d0), pid (nth (nth (snd ij) (orig_of f2) 0%nat) f2 d0))).
    change (NoDup (map (fun x => g (ipair x)) (checked tn st c dp ds))).
    rewrite <- (map_map ipair g). apply NoDup_map_inj_in; [|exact Honce]. unfold g.
    intros ij ij' Hi Hi' E. rewrite in_map_iff in Hi, Hi'.
    destruct Hi as [x [<- Hx]]. destruct Hi' as [y [<- Hy]].
    destruct (hitp_valid _ _ _ (Hhit x Hx)) as [Lx1 Lx2]. destruct (hitp_valid _ _ _ (Hhit y Hy)) as [Ly1 Ly2].
    unfold C04_collocate.ipair in *. unfold v1 in Lx1, Ly1. unfold v2 in Lx2, Ly2.
    rewrite (orig_of_nth P f1 _ Lx1), (orig_of_nth P f1 _ Ly1), (orig_of_nth P f2 _ Lx2), (orig_of_nth P f2 _ Ly2) in E.
    fold v1 v2 in E, Lx1, Lx2, Ly1, Ly2. inversion E as [[E1 E2]].
    rewrite <- (map_nth pid v1 d0), <- (map_nth pid v1 d0 (fst (fst y))) in E1.
    rewrite <- (map_nth pid v2 d0), <- (map_nth pid v2 d0 (snd (fst y))) in E2.
    apply (proj1 (NoDup_nth (map pid v1) (pid d0)) M1) in E1; [|rewrite map_length; exact Lx1|rewrite map_length; exact Ly1].
    apply (proj1 (NoDup_nth (map pid v2) (pid d0)) M2) in E2; [|rewrite map_length; exact Lx2|rewrite map_length; exact Ly2].
    destruct (fst x) as [i j], (fst y) as [i' j']. cbn [fst snd] in E1, E2. congruence.
  Qed.

  (* ---- the stored points of the k-th pair *)
  Lemma result_shape tn st c dp ds res : snd (collocate tn st c dp ds) = Some res ->
    let f1 := selected_p P c dp ds in let f2 := selected_s P c dp ds in
    let ok := checked tn st c dp ds in
    let rp := map (fun x => nth (fst (fst x)) (orig_of f1) 0%nat) ok in
    let rs := map (fun x => nth (snd (fst x)) (orig_of f2) 0%nat) ok in
    ok <> [] /\
    res = mk_res P D (gather d0 (fst (compact rp)) f1) (gather d0 (fst (compact rs)) f2) (snd (compact rp)) (snd (compact rs))
            (map (fun x => interval_s (ptime (nth (fst (fst x)) (filter has_pos f1) d0))
                                      (ptime (nth (snd (fst x)) (filter has_pos f2) d0))) ok)
            (map snd ok).
  Proof.
    rewrite collocate_checked. cbv zeta. unfold create_return.
    destruct (checked tn st c dp ds) as [|x0 l0]; [discriminate|]. intros H. inversion H. split; [discriminate|reflexivity].
  Qed.

  Lemma pair_pts_orig tn st c dp ds res : snd (collocate tn st c dp ds) = Some res ->
    pair_pts P D res = map (fun ij => (nth (fst ij) (selected_p P c dp ds) d0, nth (snd ij) (selected_s P c dp ds) d0))
                           (original_pairs tn st c dp ds).
  Proof.
    intros H. destruct (result_shape tn st c dp ds res H) as [_ ->]. unfold pair_pts. cbn [r_prow r_prim r_srow r_sec].
    rewrite !gather_compact. unfold gather, C04_collocate.original_pairs. rewrite !map_map. rewrite combine_map_same. reflexivity.
  Qed.

  Lemma pair_pts_checked tn st c dp ds res : 0 < bw tn -> snd (collocate tn st c dp ds) = Some res ->
    pair_pts P D res = map (fun x => (nth (fst (fst x)) (filter has_pos (selected_p P c dp ds)) d0,
                                      nth (snd (fst x)) (filter has_pos (selected_s P c dp ds)) d0))
                           (checked tn st c dp ds).
  Proof.
    intros Hb H. rewrite (pair_pts_orig tn st c dp ds res H). unfold C04_collocate.original_pairs. rewrite map_map.
    apply map_ext_in. intros x Hx. cbn [fst snd].
    destruct (hitp_valid _ _ _ (checked_raw_ok tn st c dp ds Hb x Hx)) as [L1 L2].
    rewrite (orig_of_nth P _ _ L1), (orig_of_nth P _ _ L2). reflexivity.
  Qed.

  Lemma ids_pair_pts (res : result P D) : ids P D res = map (fun ps => (pid (fst ps), pid (snd ps))) (pair_pts P D res).
  Proof.
    unfold ids, pair_pts. generalize (gather d0 (r_prow res) (r_prim res)) (gather d0 (r_srow res) (r_sec res)).
    induction l as [|a l IH]; intros [|b l']; cbn [map combine]; try reflexivity. rewrite IH. reflexivity.
  Qed.

  (* ---- values_are_of_the_pair *)
  Lemma values_of_the_pair tn st c dp ds res : 0 < bw tn -> snd (collocate tn st c dp ds) = Some res ->
    r_int res = map (fun ps => Z.abs (ptime (fst ps) - ptime (snd ps)) / sec) (pair_pts P D res) /\
    map Some (r_dist res) = map (fun ps => pos_dist P D dist (fst ps) (snd ps)) (pair_pts P D res) /\
    Forall (fun ps => In (fst ps) (points_of dp) /\ In (snd ps) (points_of ds)) (pair_pts P D res) /\
    ids P D res = map (fun ps => (pid (fst ps), pid (snd ps))) (pair_pts P D res).
  Proof.
    intros Hb H. rewrite (pair_pts_checked tn st c dp ds res Hb H).
    destruct (result_shape tn st c dp ds res H) as [_ Hres].
    pose proof (checked_raw_ok tn st c dp ds Hb) as Hhit.
    split; [|split; [|split]].
    - rewrite Hres. cbn [r_int]. rewrite map_map. reflexivity.
    - rewrite Hres. cbn [r_dist]. rewrite !map_map. apply map_ext_in. intros x Hx. cbn [fst snd].
      destruct (Hhit x Hx) as [p [s [a [b [Hp [Hs [Hpa [Hsb [_ Hd]]]]]]]]].
      rewrite (nth_error_nth _ _ d0 Hp), (nth_error_nth _ _ d0 Hs). unfold pos_dist. rewrite Hpa, Hsb, Hd. reflexivity.
    - rewrite Forall_forall. intros ps Hps. rewrite in_map_iff in Hps. destruct Hps as [x [<- Hx]]. cbn [fst snd].
      destruct (Hhit x Hx) as [p [s [a [b [Hp [Hs _]]]]]].
      rewrite (nth_error_nth _ _ d0 Hp), (nth_error_nth _ _ d0 Hs).
      apply nth_error_In in Hp. apply nth_error_In in Hs. apply filter_In in Hp. apply filter_In in Hs.
      unfold selected_p in Hp. unfold selected_s in Hs.
      split; [exact (proj1 (proj1 (select_points P _ _ dp p) (proj1 Hp)))|exact (proj1 (proj1 (select_points P _ _ ds s) (proj1 Hs)))].
    - rewrite <- (pair_pts_checked tn st c dp ds res Hb H). apply ids_pair_pts.
  Qed.

  (* ---- compaction_consistent *)
  Lemma orig_of_lt f : forall k i, (i < length (filter has_pos f))%nat -> (nth i (orig_from P k f) 0 < k + length f)%nat.
  Proof.
    induction f as [|p t IH]; intros k i Hi; cbn [filter length] in Hi; [lia|].
    cbn [orig_from filter length] in *. destruct (has_pos p).
    - destruct i as [|i]; cbn [nth]; [lia|]. cbn [length] in Hi. specialize (IH (S k) i ltac:(lia)). lia.
    - specialize (IH (S k) i Hi). lia.
  Qed.

  Lemma gather_length {A} (d : A) idx vals : length (gather d idx vals) = length idx.
  Proof. unfold gather. apply map_length. Qed.

  Lemma compaction_ok tn st c dp ds res : 0 < bw tn -> snd (collocate tn st c dp ds) = Some res ->
    let f1 := selected_p P c dp ds in let f2 := selected_s P c dp ds in
    let op := original_pairs tn st c dp ds in
    op <> [] /\
    Forall (fun ij => (fst ij < length f1)%nat /\ (snd ij < length f2)%nat) op /\
    compact_ok (as_cds P D res) /\
    expand d0 d0 (as_cds P D res) = map (fun ij => (nth (fst ij) f1 d0, nth (snd ij) f2 d0)) op /\
    r_prim res = gather d0 (uniq (map fst op)) f1 /\ r_sec res = gather d0 (uniq (map snd op)) f2.
  Proof.
    intros Hb H. cbv zeta.
    destruct (result_shape tn st c dp ds res H) as [Hne Hres].
    split; [|split; [|split; [|split; [|split]]]].
    - unfold C04_collocate.original_pairs. destruct (checked tn st c dp ds); [congruence|discriminate].
    - unfold C04_collocate.original_pairs. rewrite Forall_forall. intros ij Hij. rewrite in_map_iff in Hij.
      destruct Hij as [x [<- Hx]]. cbn [fst snd].
      destruct (hitp_valid _ _ _ (checked_raw_ok tn st c dp ds Hb x Hx)) as [L1 L2].
      split; [apply (orig_of_lt _ 0 _ L1)|apply (orig_of_lt _ 0 _ L2)].
    - rewrite Hres. unfold as_cds, compact_ok. cbn [prow srow pvals svals r_prow r_srow r_prim r_sec].
      rewrite !gather_length. split; [|split; apply compact_row_ok].
      unfold compact. cbn [snd]. rewrite !map_length. reflexivity.
    - exact (pair_pts_orig tn st c dp ds res H).
    - rewrite Hres. cbn [r_prim]. unfold compact, C04_collocate.original_pairs. cbn [fst]. rewrite !map_map. reflexivity.
    - rewrite Hres. cbn [r_sec]. unfold compact, C04_collocate.original_pairs. cbn [fst]. rewrite !map_map. reflexivity.
  Qed.

  Lemma none_iff_no_original tn st c dp ds :
    snd (collocate tn st c dp ds) = None <-> original_pairs tn st c dp ds = [].
  Proof.
    rewrite collocate_checked. unfold C04_collocate.original_pairs, create_return.
    destruct (checked tn st c dp ds); cbn [map]; split; intros; try reflexivity; discriminate.
  Qed.

  (* every original point is stored once: the stored ids are distinct *)
  Lemma stored_once tn st c dp ds res : 0 < bw tn -> snd (collocate tn st c dp ds) = Some res ->
    NoDup (map pid (points_of dp)) -> NoDup (map pid (points_of ds)) ->
    NoDup (map pid (r_prim res)) /\ NoDup (map pid (r_sec res)).
  Proof.
    intros Hb H N1 N2.
    destruct (compaction_ok tn st c dp ds res Hb H) as [_ [Hv [_ [_ [E1 E2]]]]]. rewrite Forall_forall in Hv.
    assert (G : forall (f : list pt) (u : list nat), NoDup (map pid f) -> NoDup u -> (forall i, In i u -> (i < length f)%nat) ->
                NoDup (map pid (gather d0 u f))).
    { intros f u Nf Nu Hu. unfold gather. rewrite map_map. apply NoDup_map_inj_in; [|exact Nu].
      intros i j Hi Hj E. rewrite <- !(map_nth pid f d0) in E.
      apply (proj1 (NoDup_nth (map pid f) (pid d0)) Nf); [rewrite map_length; apply Hu; exact Hi|rewrite map_length; apply Hu; exact Hj|exact E]. }
    split.
    - rewrite E1. apply G; [apply select_ids_once; exact N1|apply uniq_NoDup|].
      intros i Hi. apply (proj1 (uniq_In i _)) in Hi. apply in_map_iff in Hi. destruct Hi as [ij [<- Hij]]. apply (Hv ij Hij).
    - rewrite E2. apply G; [apply select_ids_once; exact N2|apply uniq_NoDup|].
      intros i Hi. apply (proj1 (uniq_In i _)) in Hi. apply in_map_iff in Hi. destruct Hi as [ij [<- Hij]]. apply (Hv ij Hij).
  Qed.
End Values.

(* ------------------------------------------------------------------ the checker of the implementation's output *)
Lemma nodupZ_iff l : nodupZ l = true <-> NoDup l.
Proof.
  induction l as [|x t IH]; cbn [nodupZ]; [split; [constructor|reflexivity]|].
  rewrite andb_true_iff, negb_true_iff, IH. split.
  - intros [H1 H2]. constructor; [|exact H2]. intros Hi.
    assert (E : existsb (Z.eqb x) t = true) by (apply existsb_exists; exists x; split; [exact Hi|apply Z.eqb_refl]).
    congruence.
  - intros H. inversion H as [|? ? Hn Ht]; subst. split; [|exact Ht].
    destruct (existsb (Z.eqb x) t) eqn:E; [|reflexivity]. exfalso. apply Hn.
    apply existsb_exists in E. destruct E as [y [Hy E]]. apply Z.eqb_eq in E. subst y. exact Hy.
Qed.

Lemma ns_zs l : ns (zs l) = l.
Proof. unfold ns, zs. rewrite map_map. rewrite (map_ext _ (fun x => x)); [apply map_id|]. intros x. apply Nat2Z.id. Qed.

Lemma gather_map_pid {P} idx (l : list (pt P)) : gather 0 idx (map pid l) = map pid (gather (d0 P) idx l).
Proof.
  unfold gather. rewrite map_map. apply map_ext. intros i. exact (map_nth pid l (d0 P) i).
Qed.

Section Checker.
  Variable P : Type.
  Variable D : Type.
  Variable near : P -> P -> bool.
  Variable dist : P -> P -> D.
  Variable ctest : list P -> list P -> bool.
  Hypothesis near_sym : forall a b, near a b = near b a.
  Hypothesis dist_sym : forall a b, dist a b = dist b a.
  Hypothesis ctest_sound : forall a b, ctest a b = true -> a = b.

  (* what the checker demands of the implementation holds of every output of the model *)
  Lemma checker_accepts tn st c dp ds res : 0 < bw tn ->
    NoDup (map pid (points_of P dp)) -> NoDup (map pid (points_of P ds)) ->
    snd (collocate P D near dist ctest tn st c dp ds) = Some res ->
    check_output (zs (r_prow res)) (zs (r_srow res)) (map pid (r_prim res)) (map pid (r_sec res)) = (true, true, ids P D res).
  Proof.
    intros Hb N1 N2 H. unfold check_output. rewrite !ns_zs.
    destruct (compaction_ok P D near dist ctest near_sym dist_sym ctest_sound tn st c dp ds res Hb H) as [_ [_ [Hok _]]].
    destruct (stored_once P D near dist ctest near_sym dist_sym ctest_sound tn st c dp ds res Hb H N1 N2) as [S1 S2].
    f_equal; [f_equal|].
    - apply compact_okb_iff_l. unfold compact_ok, as_cds in *. cbn [prow srow pvals svals] in *. rewrite !map_length. exact Hok.
    - apply andb_true_iff. split; apply nodupZ_iff; assumption.
    - unfold expand, ids. cbn [prow srow pvals svals]. rewrite !gather_map_pid. reflexivity.
  Qed.
End Checker.

(* what a passed check says about the implementation's output *)
Lemma checker_sound_l prow srow pids sids e : check_output prow srow pids sids = (true, true, e) ->
  compact_ok (mk_cds (ns prow) (ns srow) pids sids) /\ NoDup pids /\ NoDup sids /\
  e = expand 0 0 (mk_cds (ns prow) (ns srow) pids sids).
Proof.
  unfold check_output. intros H.
  assert (H1 : compact_okb (mk_cds (ns prow) (ns srow) pids sids) = true) by congruence.
  assert (H2 : nodupZ pids && nodupZ sids = true) by congruence.
  assert (H3 : expand 0 0 (mk_cds (ns prow) (ns srow) pids sids) = e) by congruence.
  apply andb_true_iff in H2. destruct H2 as [N1 N2].
  split; [apply compact_okb_iff_l; exact H1|]. split; [apply nodupZ_iff; exact N1|]. split; [apply nodupZ_iff; exact N2|symmetry; exact H3].
Qed.

(* ================================================================== the code on its three arrays = the model on rows *)
Lemma compress_map {A B} (p : A -> bool) (g : A -> B) l : compress (map p l) (map g l) = map g (filter p l).
Proof.
  induction l as [|a l IH]; cbn [map compress filter]; [reflexivity|]. destruct (p a); cbn [map]; rewrite IH; reflexivity.
Qed.

Section ArraysAgree.
  Variable P : Type.
  Variable D : Type.
  Variable near : P -> P -> bool.
  Variable dist : P -> P -> D.
  Variable ctest : list P -> list P -> bool.

  Notation unzip3 := (unzip3 D).

  Lemma unzip3_app a b : unzip3 (a ++ b) = hstack D (unzip3 a) (unzip3 b).
  Proof. unfold C04_collocate.unzip3, hstack. cbn [h0 h1 hd]. rewrite !map_app. reflexivity. Qed.

  Lemma unzip3_swap r : unzip3 (map (swap3 D) r) = swap_rows D (unzip3 r).
  Proof. unfold C04_collocate.unzip3, swap_rows. cbn [h0 h1 hd]. rewrite !map_map. reflexivity. Qed.

  Lemma unzip3_shift o1 o2 r : unzip3 (map (shift3 D o1 o2) r) = add_offsets D o1 o2 (unzip3 r).
  Proof. unfold C04_collocate.unzip3, add_offsets. cbn [h0 h1 hd]. rewrite !map_map. reflexivity. Qed.

  Lemma spatial_search_a_eq mf st L1 L2 :
    spatial_search_a P D near dist ctest mf st L1 L2 =
    (fst (spatial_search P D near dist ctest mf st L1 L2), unzip3 (snd (spatial_search P D near dist ctest mf st L1 L2))).
  Proof.
    unfold spatial_search_a, spatial_search, gquery_a. cbn [fst snd].
    destruct (choose P ctest mf st L1 L2); [reflexivity|]. rewrite unzip3_swap. reflexivity.
  Qed.

  Lemma bin_search_a_eq mf m w o A B st b :
    bin_search_a P D near dist ctest mf m w o A B st b =
    (fst (bin_search P D near dist ctest mf m w o A B st b), unzip3 (snd (bin_search P D near dist ctest mf m w o A B st b))).
  Proof.
    unfold bin_search_a, bin_search.
    match goal with |- context [isnil ?c1 || isnil ?c2] => destruct (isnil c1 || isnil c2) end; [reflexivity|].
    rewrite spatial_search_a_eq. cbn [fst snd]. rewrite unzip3_shift. reflexivity.
  Qed.

  Lemma fold_bins_a_eq mf m w o A B : forall bs st,
    fold_bins_a P D (bin_search_a P D near dist ctest mf m w o A B) st bs =
    (fst (fold_bins P D (bin_search P D near dist ctest mf m w o A B) st bs),
     unzip3 (snd (fold_bins P D (bin_search P D near dist ctest mf m w o A B) st bs))).
  Proof.
    induction bs as [|b t IH]; intros st; cbn [fold_bins_a fold_bins fst snd]; [reflexivity|].
    rewrite bin_search_a_eq. cbn [fst snd]. rewrite IH. cbn [fst snd]. rewrite unzip3_app. reflexivity.
  Qed.

  Lemma binned_search_a_eq mf m w o st V1 V2 :
    binned_search_a P D near dist ctest mf m w o st V1 V2 =
    (fst (binned_search P D near dist ctest mf m w o st V1 V2), unzip3 (snd (binned_search P D near dist ctest mf m w o st V1 V2))).
  Proof.
    unfold binned_search_a, binned_search. rewrite fold_bins_a_eq. cbn [fst snd].
    destruct (length V1 <? length V2)%nat; [rewrite unzip3_swap|]; reflexivity.
  Qed.

  Lemma intervals_unzip v1 v2 (r : list (nat * nat * D)) :
    intervals_a (take_times P v1 (h0 (unzip3 r))) (take_times P v2 (h1 (unzip3 r))) =
    map (fun x => interval_s (ptime (nth (fst (fst x)) v1 (d0 P))) (ptime (nth (snd (fst x)) v2 (d0 P)))) r.
  Proof.
    unfold intervals_a, take_times, C04_collocate.unzip3. cbn [h0 h1]. rewrite !map_map.
    induction r as [|x r IH]; cbn [map combine]; [reflexivity|]. rewrite IH. reflexivity.
  Qed.

  (* the code on its three arrays computes what the model on rows computes: state and result *)
  Lemma collocate_a_eq tn st c dp ds :
    collocate_a P D near dist ctest tn st c dp ds = collocate P D near dist ctest tn st c dp ds.
  Proof.
    unfold collocate_a, collocate.
    destruct (isnil _ || isnil _); [reflexivity|].
    match goal with |- context [thr tn <? ?n] => destruct (thr tn <? n) end.
    - rewrite binned_search_a_eq. cbn [fst snd].
      match goal with |- context [unzip3 (snd ?r)] => set (rr := r) end.
      destruct (snd rr) as [|x0 l0] eqn:Er; [reflexivity|]. rewrite <- Er.
      assert (Hn : isnil (h0 (unzip3 (snd rr))) = false) by (rewrite Er; reflexivity). rewrite Hn.
      assert (Hn' : isnil (snd rr) = false) by (rewrite Er; reflexivity). rewrite Hn'.
      f_equal. rewrite intervals_unzip.
      set (passf := fun x : nat * nat * D => passes (mi c) _ _).
      rewrite (map_map _ (fun iv => iv * sec <? mi c)).
      change (map (fun x : nat * nat * D => interval_s _ _ * sec <? mi c) (snd rr)) with (map passf (snd rr)).
      unfold C04_collocate.unzip3 at 1 2 3. cbn [h0 h1 hd]. rewrite !compress_map.
      unfold create_return_a, create_return. rewrite !map_map.
      destruct (filter passf (snd rr)); reflexivity.
    - rewrite spatial_search_a_eq. cbn [fst snd].
      match goal with |- context [unzip3 (snd ?r)] => set (rr := r) end.
      destruct (snd rr) as [|x0 l0] eqn:Er; [reflexivity|]. rewrite <- Er.
      assert (Hn : isnil (h0 (unzip3 (snd rr))) = false) by (rewrite Er; reflexivity). rewrite Hn.
      assert (Hn' : isnil (snd rr) = false) by (rewrite Er; reflexivity). rewrite Hn'.
      f_equal. rewrite intervals_unzip.
      set (passf := fun x : nat * nat * D => passes (mi c) _ _).
      rewrite (map_map _ (fun iv => iv * sec <? mi c)).
      change (map (fun x : nat * nat * D => interval_s _ _ * sec <? mi c) (snd rr)) with (map passf (snd rr)).
      unfold C04_collocate.unzip3 at 1 2 3. cbn [h0 h1 hd]. rewrite !compress_map.
      unfold create_return_a, create_return. rewrite !map_map.
      destruct (filter passf (snd rr)); reflexivity.
  Qed.
End ArraysAgree.
