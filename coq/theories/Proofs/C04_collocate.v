(* C04 -- lemmas about Model/C04_collocate.v *)
From Coq Require Import ZArith List Bool Arith Lia Permutation Sorted.
From Typhon Require Import Model.C13_compact Proofs.C13_compact Model.C04_collocate.
Import ListNotations.
Open Scope Z_scope.

(* ------------------------------------------------------------------ generic list facts *)
Lemma In_indexed_from {A} (l : list A) : forall k i x,
  In (i, x) (combine (seq k (length l)) l) <-> (k <= i)%nat /\ nth_error l (i - k) = Some x.
Proof.
  induction l as [|a l IH]; intros k i x; cbn [length seq combine].
  - split; [intros []|]. intros [_ H]. destruct (i - k)%nat; discriminate.
  - cbn [In]. rewrite IH. split.
    + intros [H|[H1 H2]].
      * inversion H; subst. split; [lia|]. replace (i - i)%nat with 0%nat by lia. reflexivity.
      * split; [lia|]. replace (i - k)%nat with (S (i - S k)) by lia. exact H2.
    + intros [H1 H2]. destruct (Nat.eq_dec i k) as [->|Hne].
      * left. replace (k - k)%nat with 0%nat in H2 by lia. cbn in H2. congruence.
      * right. split; [lia|]. replace (i - k)%nat with (S (i - S k)) in H2 by lia. exact H2.
Qed.

Lemma In_indexed {A} (l : list A) i x : In (i, x) (indexed l) <-> nth_error l i = Some x.
Proof.
  unfold indexed. rewrite In_indexed_from. replace (i - 0)%nat with i by lia.
  split; [intros [_ H]; exact H|intros H; split; [lia|exact H]].
Qed.

Section SortFacts.
  Context {A : Type} (key : A -> Z).
  Definition le_key (a b : A) : Prop := key a <= key b.

  Lemma insert_perm x l : Permutation (insert key x l) (x :: l).
  Proof.
    induction l as [|y t IH]; cbn [insert]; [reflexivity|].
    destruct (key y <? key x); [|reflexivity].
    rewrite IH. apply perm_swap.
  Qed.

  Lemma isort_perm l : Permutation (isort key l) l.
  Proof.
    induction l as [|a l IH]; cbn [isort fold_right]; [reflexivity|].
    fold (isort key l). rewrite insert_perm. constructor. exact IH.
  Qed.

  Lemma isort_In x l : In x (isort key l) <-> In x l.
  Proof. split; apply Permutation_in; [|symmetry]; apply isort_perm. Qed.

  Lemma insert_sorted x l : StronglySorted le_key l -> StronglySorted le_key (insert key x l).
  Proof.
    induction l as [|y t IH]; intros Hs; cbn [insert].
    - constructor; constructor.
    - inversion Hs as [|? ? Hs' Hall]; subst.
      destruct (key y <? key x) eqn:E.
      + constructor; [apply IH; exact Hs'|].
        rewrite Forall_forall. intros z Hz.
        apply (Permutation_in _ (insert_perm x t)) in Hz. destruct Hz as [<-|Hz].
        * unfold le_key. lia.
        * rewrite Forall_forall in Hall. apply Hall. exact Hz.
      + constructor; [exact Hs|]. constructor; [unfold le_key; lia|].
        rewrite Forall_forall in *. intros z Hz. specialize (Hall z Hz). unfold le_key in *. lia.
  Qed.

  Lemma isort_sorted l : StronglySorted le_key (isort key l).
  Proof.
    induction l as [|a l IH]; cbn [isort fold_right]; [constructor|].
    apply insert_sorted. exact IH.
  Qed.
End SortFacts.

Lemma fold_min_le t : forall a x, x = a \/ In x t -> fold_right Z.min a t <= x.
Proof.
  induction t as [|b t IH]; intros a x H; cbn [fold_right].
  - destruct H as [H|[]]. lia.
  - destruct H as [H|[H|H]].
    + specialize (IH a x (or_introl H)). lia.
    + lia.
    + specialize (IH a x (or_intror H)). lia.
Qed.

Lemma fold_max_ge t : forall a x, x = a \/ In x t -> x <= fold_right Z.max a t.
Proof.
  induction t as [|b t IH]; intros a x H; cbn [fold_right].
  - destruct H as [H|[]]. lia.
  - destruct H as [H|[H|H]].
    + specialize (IH a x (or_introl H)). lia.
    + lia.
    + specialize (IH a x (or_intror H)). lia.
Qed.

Lemma zmin_l_le l x : In x l -> zmin_l l <= x.
Proof.
  destruct l as [|a t]; [intros []|]. intros H. cbn [zmin_l]. apply fold_min_le.
  destruct H as [H|H]; [left; symmetry; exact H|right; exact H].
Qed.

Lemma zmax_l_ge l x : In x l -> x <= zmax_l l.
Proof.
  destruct l as [|a t]; [intros []|]. intros H. cbn [zmax_l]. apply fold_max_ge.
  destruct H as [H|H]; [left; symmetry; exact H|right; exact H].
Qed.

(* ------------------------------------------------------------------ the spatial search *)
Section Search.
  Variable P : Type.
  Variable D : Type.
  Variable near : P -> P -> bool.
  Variable dist : P -> P -> D.
  Variable ctest : list P -> list P -> bool.
  Hypothesis near_sym : forall a b, near a b = near b a.
  Hypothesis dist_sym : forall a b, dist a b = dist b a.
  (* fixes/C04_2: the kept index is reused only for the very same points *)
  Hypothesis ctest_sound : forall a b, ctest a b = true -> a = b.

  Notation gquery := (gquery P D near dist).
  Notation spatial_search := (spatial_search P D near dist ctest).
  Notation swap3 := (swap3 D).

  (* entry x = (i, j, d) names the i-th point of L1 and the j-th of L2, they are near, d is their distance *)
  Definition hit (L1 L2 : list P) (x : nat * nat * D) : Prop :=
    exists a b, nth_error L1 (fst (fst x)) = Some a /\ nth_error L2 (snd (fst x)) = Some b /\
                near a b = true /\ snd x = dist a b.

  Lemma gquery_spec B Q x : In x (gquery B Q) <-> hit B Q x.
  Proof.
    unfold C04_collocate.gquery, hit. rewrite in_flat_map. split.
    - intros [[j q] [Hq H]]. rewrite in_flat_map in H. destruct H as [[i b] [Hb H]].
      cbn [fst snd] in H. destruct (near b q) eqn:E; [|destruct H].
      destruct H as [<-|[]]. cbn [fst snd]. exists b, q.
      apply In_indexed in Hq. apply In_indexed in Hb. auto.
    - intros [b [q [Hb [Hq [Hn Hd]]]]]. exists (snd (fst x), q). split; [apply In_indexed; exact Hq|].
      rewrite in_flat_map. exists (fst (fst x), b). split; [apply In_indexed; exact Hb|].
      cbn [fst snd]. rewrite Hn. left. rewrite <- Hd. destruct x as [[i j] d]. reflexivity.
  Qed.

  Lemma hit_swap L1 L2 x : hit L2 L1 x <-> hit L1 L2 (swap3 x).
  Proof.
    unfold hit, swap3. cbn [fst snd]. split; intros [a [b [H1 [H2 [H3 H4]]]]]; exists b, a;
      rewrite near_sym, dist_sym; auto.
  Qed.

  Lemma swap3_invol (x : nat * nat * D) : swap3 (swap3 x) = x.
  Proof. destruct x as [[i j] d]. reflexivity. Qed.

  (* whatever the Collocator remembers from earlier calls, the search reports exactly the near pairs *)
  Lemma spatial_search_spec mf st L1 L2 x : In x (snd (spatial_search mf st L1 L2)) <-> hit L1 L2 x.
  Proof.
    unfold C04_collocate.spatial_search. cbn [snd].
    set (wp := choose P ctest mf st L1 L2).
    set (B := if wp then L1 else L2).
    assert (HI : match sidx st with Some i' => if ctest B i' then i' else B | None => B end = B).
    { destruct (sidx st) as [i'|]; [|reflexivity]. destruct (ctest B i') eqn:E; [|reflexivity].
      symmetry. apply ctest_sound. exact E. }
    rewrite HI. subst B. destruct wp.
    - apply gquery_spec.
    - rewrite in_map_iff. split.
      + intros [y [<- Hy]]. apply gquery_spec in Hy. apply hit_swap in Hy. exact Hy.
      + intros H. exists (swap3 x). split; [apply swap3_invol|].
        apply gquery_spec. apply hit_swap. rewrite swap3_invol. exact H.
  Qed.
End Search.

(* ------------------------------------------------------------------ collocate *)
Lemma passes_whole m t1 t2 : whole_seconds m -> passes m t1 t2 = (Z.abs (t1 - t2) <? m).
Proof.
  intros [k ->]. unfold passes, interval_s, sec.
  pose proof (Z.div_mod (Z.abs (t1 - t2)) 1000000000 ltac:(lia)) as H1.
  pose proof (Z.mod_pos_bound (Z.abs (t1 - t2)) 1000000000 ltac:(lia)) as H2.
  set (q := Z.abs (t1 - t2) / 1000000000) in *. set (r := Z.abs (t1 - t2) mod 1000000000) in *.
  destruct (Z.ltb_spec (q * 1000000000) (k * 1000000000)); destruct (Z.ltb_spec (Z.abs (t1 - t2)) (k * 1000000000));
    try reflexivity; lia.
Qed.

Lemma combine_map_same {A B C} (g : A -> B) (h : A -> C) l :
  combine (map g l) (map h l) = map (fun x => (g x, h x)) l.
Proof. induction l as [|a l IH]; cbn; [reflexivity|rewrite IH; reflexivity]. Qed.

Lemma nth_map_lt {A B} (g : A -> B) l i d d' : (i < length l)%nat -> nth i (map g l) d = g (nth i l d').
Proof.
  revert i. induction l as [|a l IH]; intros i H; cbn in H; [lia|].
  destruct i; cbn; [reflexivity|apply IH; lia].
Qed.

Lemma gather_compact {A} (d : A) raw f :
  gather d (snd (compact raw)) (gather d (fst (compact raw)) f) = gather d raw f.
Proof.
  transitivity (gather d (map (fun i => nth i (fst (compact raw)) 0%nat) (snd (compact raw))) f).
  - unfold gather. rewrite map_map. apply map_ext_in. intros i Hi.
    pose proof (compact_valid_l raw) as Hv. rewrite Forall_forall in Hv. specialize (Hv i Hi).
    exact (nth_map_lt (fun k => nth k f d) (fst (compact raw)) i d 0%nat Hv).
  - rewrite compact_roundtrip_l. reflexivity.
Qed.

Section Facts.
  Variable P : Type.
  Variable D : Type.
  Variable near : P -> P -> bool.
  Variable dist : P -> P -> D.
  Variable ctest : list P -> list P -> bool.
  Hypothesis near_sym : forall a b, near a b = near b a.
  Hypothesis dist_sym : forall a b, dist a b = dist b a.
  Hypothesis ctest_sound : forall a b, ctest a b = true -> a = b.

  Notation pt := (pt P).
  Notation d0 := (d0 P).
  Notation has_pos := (has_pos P).
  Notation poslist := (poslist P).
  Notation points_of := (points_of P).
  Notation times_of := (times_of P).
  Notation select := (select P).
  Notation orig_from := (orig_from P).
  Notation orig_of := (orig_of P).
  Notation line_pts := (line_pts P).

  (* ---- selection and flattening *)
  Lemma line_pts_time l p : In p (line_pts l) -> ptime p = fst l.
  Proof. unfold C04_collocate.line_pts. rewrite in_map_iff. intros [c [<- _]]. reflexivity. Qed.

  Lemma time_in d p : In p (points_of d) -> In (ptime p) (times_of d).
  Proof.
    destruct d as [l|ls]; cbn [C04_collocate.points_of C04_collocate.times_of].
    - apply in_map.
    - rewrite in_flat_map. intros [l [Hl Hp]]. rewrite (line_pts_time l p Hp). apply in_map. exact Hl.
  Qed.

  Lemma select_points lo hi d p :
    In p (points_of (select lo hi d)) <-> In p (points_of d) /\ in_range lo hi (ptime p) = true.
  Proof.
    destruct d as [l|ls]; cbn [C04_collocate.select C04_collocate.points_of].
    - rewrite isort_In, filter_In. reflexivity.
    - rewrite !in_flat_map. split.
      + intros [l [Hl Hp]]. rewrite isort_In, filter_In in Hl. destruct Hl as [Hl Hr].
        split; [exists l; auto|]. rewrite (line_pts_time l p Hp). exact Hr.
      + intros [[l [Hl Hp]] Hr]. exists l. split; [|exact Hp].
        rewrite isort_In, filter_In. split; [exact Hl|]. rewrite <- (line_pts_time l p Hp). exact Hr.
  Qed.

  Lemma select_nil lo hi d p :
    times_of (select lo hi d) = [] -> In p (points_of d) -> in_range lo hi (ptime p) = true -> False.
  Proof.
    intros Hn Hp Hr.
    assert (H : In p (points_of (select lo hi d))) by (apply select_points; auto).
    apply time_in in H. rewrite Hn in H. exact H.
  Qed.

  (* ---- NaN filter: the index arrays lead back to the selected points *)
  Lemma orig_nth f : forall k i, (i < length (filter has_pos f))%nat ->
    exists m, nth i (orig_from k f) 0%nat = (k + m)%nat /\ nth m f d0 = nth i (filter has_pos f) d0.
  Proof.
    induction f as [|p t IH]; intros k i Hi; cbn [filter length] in Hi; [lia|].
    cbn [C04_collocate.orig_from filter]. destruct (has_pos p) eqn:E.
    - destruct i as [|i].
      + exists 0%nat. cbn. split; [lia|reflexivity].
      + cbn [length] in Hi. destruct (IH (S k) i ltac:(lia)) as [m [H1 H2]].
        exists (S m). cbn [nth]. split; [rewrite H1; lia|exact H2].
    - destruct (IH (S k) i Hi) as [m [H1 H2]]. exists (S m). cbn [nth]. split; [rewrite H1; lia|exact H2].
  Qed.

  Lemma orig_of_nth f i : (i < length (filter has_pos f))%nat ->
    nth (nth i (orig_of f) 0%nat) f d0 = nth i (filter has_pos f) d0.
  Proof. intros Hi. destruct (orig_nth f 0 i Hi) as [m [H1 H2]]. unfold C04_collocate.orig_of. rewrite H1. exact H2. Qed.

  Lemma poslist_nth l : Forall (fun p => has_pos p = true) l -> forall i a,
    nth_error (poslist l) i = Some a <-> exists p, nth_error l i = Some p /\ ppos p = Some a.
  Proof.
    induction l as [|p t IH]; intros Hall i a.
    - cbn. destruct i; split; try discriminate; intros [q [H _]]; discriminate.
    - inversion Hall as [|? ? Hp Ht]; subst. unfold C04_collocate.has_pos in Hp.
      unfold C04_collocate.poslist. cbn [flat_map]. destruct (ppos p) as [x|] eqn:E; [|discriminate].
      cbn [app]. fold (poslist t). destruct i as [|i]; cbn [nth_error].
      + split.
        * intros H. exists p. split; [reflexivity|congruence].
        * intros [q [H1 H2]]. congruence.
      + apply IH. exact Ht.
  Qed.

  Lemma filter_has_pos l : Forall (fun p => has_pos p = true) (filter has_pos l).
  Proof. rewrite Forall_forall. intros p Hp. apply filter_In in Hp. apply Hp. Qed.

  (* ---- the result, identified by the data it carries *)
  Definition pair_ids (f1 f2 : list pt) (o1 o2 : list nat) (x : nat * nat * D) : Z * Z :=
    (pid (nth (nth (fst (fst x)) o1 0%nat) f1 d0), pid (nth (nth (snd (fst x)) o2 0%nat) f2 d0)).

  Lemma ids_create f1 f2 v1 v2 o1 o2 ok :
    ids_opt P D (create_return P D f1 f2 v1 v2 o1 o2 ok) = map (pair_ids f1 f2 o1 o2) ok.
  Proof.
    destruct ok as [|x0 ok0]; [reflexivity|]. set (ok := x0 :: ok0).
    unfold create_return. fold ok. cbv zeta. unfold ok at 1. cbn [ids_opt]. unfold ids. cbn [r_prow r_prim r_srow r_sec].
    rewrite !gather_compact. unfold gather. rewrite !map_map. rewrite combine_map_same. reflexivity.
  Qed.

  (* ---- sortedness of what the search receives *)
  Lemma SS_filter {A} (R : A -> A -> Prop) (f : A -> bool) l : StronglySorted R l -> StronglySorted R (filter f l).
  Proof.
    induction 1 as [|a l Hs IH Hall]; cbn [filter]; [constructor|].
    destruct (f a); [|exact IH]. constructor; [exact IH|].
    rewrite Forall_forall in *. intros y Hy. apply filter_In in Hy. apply Hall. apply Hy.
  Qed.

  Lemma SS_app {A} (R : A -> A -> Prop) l1 l2 : StronglySorted R l1 -> StronglySorted R l2 ->
    (forall x y, In x l1 -> In y l2 -> R x y) -> StronglySorted R (l1 ++ l2).
  Proof.
    induction 1 as [|a l Hs IH Hall]; intros H2 Hc; cbn [app]; [exact H2|].
    constructor.
    - apply IH; [exact H2|]. intros x y Hx Hy. apply Hc; [right; exact Hx|exact Hy].
    - rewrite Forall_forall in *. intros y Hy. apply in_app_or in Hy. destruct Hy as [Hy|Hy].
      + apply Hall. exact Hy.
      + apply Hc; [left; reflexivity|exact Hy].
  Qed.

  Lemma SS_const {A} (key : A -> Z) l t : (forall x, In x l -> key x = t) -> StronglySorted (le_key key) l.
  Proof.
    induction l as [|a l IH]; intros H; [constructor|]. constructor.
    - apply IH. intros x Hx. apply H. right. exact Hx.
    - rewrite Forall_forall. intros y Hy. unfold le_key. rewrite (H a (or_introl eq_refl)), (H y (or_intror Hy)). lia.
  Qed.

  Lemma sorted_points lo hi d : StronglySorted (le_key (@ptime P)) (points_of (select lo hi d)).
  Proof.
    destruct d as [l|ls]; cbn [C04_collocate.select C04_collocate.points_of].
    - apply isort_sorted.
    - pose proof (isort_sorted (@fst Z (list (Z * option P))) (filter (fun l => in_range lo hi (fst l)) ls)) as Hs.
      induction Hs as [|l t Hs IH Hall]; cbn [flat_map]; [constructor|].
      apply SS_app; [|exact IH|].
      + apply SS_const with (t := fst l). intros x Hx. apply line_pts_time. exact Hx.
      + intros x y Hx Hy. rewrite in_flat_map in Hy. destruct Hy as [l' [Hl' Hy]].
        rewrite Forall_forall in Hall. specialize (Hall l' Hl'). unfold le_key in *.
        rewrite (line_pts_time l x Hx), (line_pts_time l' y Hy). exact Hall.
  Qed.

  (* ---- what both search paths must deliver (element form) *)
  Definition hitp (v1 v2 : list pt) (x : nat * nat * D) : Prop :=
    exists p s a b, nth_error v1 (fst (fst x)) = Some p /\ nth_error v2 (snd (fst x)) = Some s /\
                    ppos p = Some a /\ ppos s = Some b /\ near a b = true /\ snd x = dist a b.
  Definition raw_ok (m : Z) (v1 v2 : list pt) (raw : list (nat * nat * D)) : Prop :=
    (forall x, In x raw -> hitp v1 v2 x) /\
    (forall p s a b, In p v1 -> In s v2 -> ppos p = Some a -> ppos s = Some b -> near a b = true ->
       Z.abs (ptime p - ptime s) < m ->
       exists x, In x raw /\ nth_error v1 (fst (fst x)) = Some p /\ nth_error v2 (snd (fst x)) = Some s /\
                 snd x = dist a b).

  Lemma direct_raw_ok m mf st v1 v2 :
    Forall (fun p => has_pos p = true) v1 -> Forall (fun p => has_pos p = true) v2 ->
    raw_ok m v1 v2 (snd (spatial_search P D near dist ctest mf st (poslist v1) (poslist v2))).
  Proof.
    intros H1 H2. split.
    - intros x Hx. apply (spatial_search_spec P D near dist ctest near_sym dist_sym ctest_sound) in Hx.
      destruct Hx as [a [b [Ha [Hb [Hn Hd]]]]].
      apply (poslist_nth v1 H1) in Ha. apply (poslist_nth v2 H2) in Hb.
      destruct Ha as [p [Hp Hpa]]. destruct Hb as [s [Hs Hsb]]. exists p, s, a, b. auto 10.
    - intros p s a b Hp Hs Hpa Hsb Hn _.
      apply In_nth_error in Hp. apply In_nth_error in Hs. destruct Hp as [i Hi]. destruct Hs as [j Hj].
      exists (i, j, dist a b). cbn [fst snd]. split; [|auto].
      apply (spatial_search_spec P D near dist ctest near_sym dist_sym ctest_sound).
      exists a, b. cbn [fst snd]. split; [apply (poslist_nth v1 H1); eauto|].
      split; [apply (poslist_nth v2 H2); eauto|auto].
  Qed.

  (* ---- the window *)
  Lemma window_ok c dp ds p s :
    In p (points_of dp) -> In s (points_of ds) -> Z.abs (ptime p - ptime s) < mi c ->
    in_win P c p = true -> in_win P c s = true ->
    in_range (common_start c (times_of dp) (times_of ds)) (common_end c (times_of dp) (times_of ds)) (ptime p) = true /\
    in_range (common_start c (times_of dp) (times_of ds)) (common_end c (times_of dp) (times_of ds)) (ptime s) = true.
  Proof.
    intros Hp Hs Hd Wp Ws. apply time_in in Hp. apply time_in in Hs.
    pose proof (zmin_l_le _ _ Hp). pose proof (zmax_l_ge _ _ Hp).
    pose proof (zmin_l_le _ _ Hs). pose proof (zmax_l_ge _ _ Hs).
    unfold in_win, in_range, common_start, common_end in *.
    rewrite !andb_true_iff, !Z.leb_le in *. lia.
  Qed.

  Lemma range_win c t1 t2 t :
    in_range (common_start c t1 t2) (common_end c t1 t2) t = true -> in_range (wstart c) (wend c) t = true.
  Proof. unfold in_range, common_start, common_end. rewrite !andb_true_iff, !Z.leb_le. lia. Qed.

  Lemma isnil_true {A} (l : list A) : isnil l = true -> l = [].
  Proof. destruct l; [reflexivity|discriminate]. Qed.

  (* ---- collocate = specification, provided the binned search delivers what the direct one does *)
  Definition binned_ok (tn : tune) (c : cfg) : Prop :=
    forall st v1 v2, StronglySorted (le_key (@ptime P)) v1 -> StronglySorted (le_key (@ptime P)) v2 ->
      Forall (fun p => has_pos p = true) v1 -> Forall (fun p => has_pos p = true) v2 ->
      raw_ok (mi c) v1 v2 (snd (binned_search P D near dist ctest (mfac tn) (mi c) (bw tn) (borigin tn) st v1 v2)).

  Lemma collocate_exact_if tn st c dp ds :
    whole_seconds (mi c) -> binned_ok tn c ->
    set_eq (ids_opt P D (snd (collocate P D near dist ctest tn st c dp ds))) (spec_pairs P near c dp ds).
  Proof.
    intros Hw Hbin. unfold collocate.
    set (lo := common_start c (times_of dp) (times_of ds)).
    set (hi := common_end c (times_of dp) (times_of ds)).
    destruct (isnil (times_of (select lo hi dp)) || isnil (times_of (select lo hi ds))) eqn:E.
    - cbn [snd ids_opt]. intros x. split; [intros []|]. intros Hx. exfalso.
      unfold spec_pairs in Hx. rewrite in_map_iff in Hx. destruct Hx as [[p s] [_ Hx]].
      rewrite filter_In, in_prod_iff in Hx. destruct Hx as [[Hp Hs] Hc].
      unfold collocated in Hc. cbn [fst snd] in Hc. rewrite !andb_true_iff in Hc.
      destruct Hc as [[[_ Hd] Wp] Ws]. apply Z.ltb_lt in Hd.
      destruct (window_ok c dp ds p s Hp Hs Hd Wp Ws) as [Rp Rs]. fold lo hi in Rp, Rs.
      apply orb_true_iff in E. destruct E as [E|E]; apply isnil_true in E.
      + exact (select_nil lo hi dp p E Hp Rp).
      + exact (select_nil lo hi ds s E Hs Rs).
    - set (f1 := points_of (select lo hi dp)). set (f2 := points_of (select lo hi ds)).
      set (v1 := filter has_pos f1). set (v2 := filter has_pos f2).
      set (r := if thr tn <? Z.of_nat (length v1 * length v2)
                then binned_search P D near dist ctest (mfac tn) (mi c) (bw tn) (borigin tn) st v1 v2
                else spatial_search P D near dist ctest (mfac tn) st (poslist v1) (poslist v2)).
      set (passf := fun x : nat * nat * D =>
             passes (mi c) (ptime (nth (fst (fst x)) v1 d0)) (ptime (nth (snd (fst x)) v2 d0))).
      assert (Hraw : raw_ok (mi c) v1 v2 (snd r)).
      { subst r. destruct (thr tn <? Z.of_nat (length v1 * length v2)).
        - apply Hbin; try apply filter_has_pos; apply SS_filter; apply sorted_points.
        - apply direct_raw_ok; apply filter_has_pos. }
      assert (Hids : ids_opt P D (snd (if isnil (snd r) then (fst r, None)
                 else (fst r, create_return P D f1 f2 v1 v2 (orig_of f1) (orig_of f2) (filter passf (snd r)))))
                 = map (pair_ids f1 f2 (orig_of f1) (orig_of f2)) (filter passf (snd r))).
      { destruct (snd r) as [|x0 l0] eqn:Er; cbn [isnil snd]; [reflexivity|]. apply ids_create. }
      rewrite Hids. clear Hids. destruct Hraw as [Hsound Hcomp].
      assert (Hmem1 : forall p, In p v1 <-> In p (points_of dp) /\ in_range lo hi (ptime p) = true /\ has_pos p = true).
      { intros p. unfold v1, f1. rewrite filter_In, select_points. tauto. }
      assert (Hmem2 : forall p, In p v2 <-> In p (points_of ds) /\ in_range lo hi (ptime p) = true /\ has_pos p = true).
      { intros p. unfold v2, f2. rewrite filter_In, select_points. tauto. }
      intros ab. rewrite in_map_iff. split.
      + intros [x [<- Hx]]. rewrite filter_In in Hx. destruct Hx as [Hx Hpass].
        destruct (Hsound x Hx) as [p [s [a [b [Hp [Hs [Hpa [Hsb [Hn Hd]]]]]]]]].
        assert (Li : (fst (fst x) < length v1)%nat) by (apply nth_error_Some; congruence).
        assert (Lj : (snd (fst x) < length v2)%nat) by (apply nth_error_Some; congruence).
        unfold pair_ids. unfold v1 in Li. unfold v2 in Lj.
        rewrite (orig_of_nth f1 _ Li), (orig_of_nth f2 _ Lj). fold v1 v2.
        rewrite (nth_error_nth v1 _ d0 Hp), (nth_error_nth v2 _ d0 Hs).
        unfold passf in Hpass. rewrite (nth_error_nth v1 _ d0 Hp), (nth_error_nth v2 _ d0 Hs) in Hpass.
        rewrite (passes_whole _ _ _ Hw) in Hpass.
        apply nth_error_In in Hp. apply nth_error_In in Hs.
        apply Hmem1 in Hp. apply Hmem2 in Hs. destruct Hp as [Hp [Rp _]]. destruct Hs as [Hs [Rs _]].
        unfold spec_pairs. rewrite in_map_iff. exists (p, s). split; [reflexivity|].
        rewrite filter_In, in_prod_iff. split; [auto|].
        unfold collocated, nearp, in_win. cbn [fst snd]. rewrite Hpa, Hsb, Hn, Hpass.
        rewrite (range_win c _ _ _ Rp), (range_win c _ _ _ Rs). reflexivity.
      + intros Hab. unfold spec_pairs in Hab. rewrite in_map_iff in Hab. destruct Hab as [[p s] [<- Hx]].
        rewrite filter_In, in_prod_iff in Hx. destruct Hx as [[Hp Hs] Hc].
        unfold collocated in Hc. cbn [fst snd] in Hc. rewrite !andb_true_iff in Hc.
        destruct Hc as [[[Hn Hd] Wp] Ws]. pose proof Hd as Hdb. apply Z.ltb_lt in Hd.
        destruct (window_ok c dp ds p s Hp Hs Hd Wp Ws) as [Rp Rs]. fold lo hi in Rp, Rs.
        unfold nearp in Hn. destruct (ppos p) as [a|] eqn:Hpa; [|discriminate].
        destruct (ppos s) as [b|] eqn:Hsb; [|discriminate].
        assert (Vp : In p v1) by (apply Hmem1; unfold C04_collocate.has_pos; rewrite Hpa; auto).
        assert (Vs : In s v2) by (apply Hmem2; unfold C04_collocate.has_pos; rewrite Hsb; auto).
        destruct (Hcomp p s a b Vp Vs Hpa Hsb Hn Hd) as [x [Hx [Hi [Hj _]]]].
        exists x. 
        assert (Li : (fst (fst x) < length v1)%nat) by (apply nth_error_Some; congruence).
        assert (Lj : (snd (fst x) < length v2)%nat) by (apply nth_error_Some; congruence).
        split.
        * unfold pair_ids. unfold v1 in Li. unfold v2 in Lj.
          rewrite (orig_of_nth f1 _ Li), (orig_of_nth f2 _ Lj). fold v1 v2.
          rewrite (nth_error_nth v1 _ d0 Hi), (nth_error_nth v2 _ d0 Hj). reflexivity.
        * rewrite filter_In. split; [exact Hx|]. unfold passf.
          rewrite (nth_error_nth v1 _ d0 Hi), (nth_error_nth v2 _ d0 Hj).
          rewrite (passes_whole _ _ _ Hw). exact Hdb.
  Qed.
End Facts.

(* ------------------------------------------------------------------ temporal pre-binning *)
Lemma filter_all_false {A} (f : A -> bool) l : (forall x, In x l -> f x = false) -> filter f l = [].
Proof.
  induction l as [|a l IH]; intros H; cbn [filter]; [reflexivity|].
  rewrite (H a (or_introl eq_refl)). apply IH. intros x Hx. apply H. right. exact Hx.
Qed.

Lemma filter_all_true {A} (f : A -> bool) l : (forall x, In x l -> f x = true) -> filter f l = l.
Proof.
  induction l as [|a l IH]; intros H; cbn [filter]; [reflexivity|].
  rewrite (H a (or_introl eq_refl)). f_equal. apply IH. intros x Hx. apply H. right. exact Hx.
Qed.

Lemma filter_filter {A} (f g : A -> bool) l : filter g (filter f l) = filter (fun x => f x && g x) l.
Proof.
  induction l as [|a l IH]; cbn [filter]; [reflexivity|].
  destruct (f a); cbn [filter andb]; [destruct (g a)|]; rewrite IH; reflexivity.
Qed.

(* a sorted list is its part below a followed by its part from a on: searchsorted(a) = length of the first *)
Lemma sorted_split {A} (key : A -> Z) a l : StronglySorted (le_key key) l ->
  l = filter (fun x => key x <? a) l ++ filter (fun x => a <=? key x) l.
Proof.
  induction 1 as [|x l Hs IH Hall]; [reflexivity|]. cbn [filter].
  destruct (Z.ltb_spec (key x) a) as [Hlt|Hge].
  - destruct (Z.leb_spec a (key x)); [lia|]. cbn [app]. f_equal. exact IH.
  - destruct (Z.leb_spec a (key x)); [|lia].
    rewrite Forall_forall in Hall. unfold le_key in Hall.
    rewrite filter_all_false, filter_all_true; [reflexivity| |].
    + intros y Hy. specialize (Hall y Hy). apply Z.leb_le. lia.
    + intros y Hy. specialize (Hall y Hy). apply Z.ltb_ge. lia.
Qed.

Lemma segment_nth {A} (key : A -> Z) (a a' : Z) l i : StronglySorted (le_key key) l ->
  Nat.lt i (length (filter (fun x => (a <=? key x) && (key x <? a')) l)) ->
  nth_error l (length (filter (fun x => key x <? a) l) + i)
  = nth_error (filter (fun x => (a <=? key x) && (key x <? a')) l) i.
Proof.
  intros Hs Hi.
  set (c := filter (fun x => (a <=? key x) && (key x <? a')) l) in *.
  set (pre := filter (fun x => key x <? a) l).
  set (suf := filter (fun x => a <=? key x) l).
  assert (El : l = pre ++ suf) by (apply sorted_split; exact Hs).
  assert (Es : suf = filter (fun x => key x <? a') suf ++ filter (fun x => a' <=? key x) suf).
  { apply sorted_split. apply SS_filter. exact Hs. }
  assert (Ec : c = filter (fun x => key x <? a') suf) by (unfold c, suf; rewrite filter_filter; reflexivity).
  rewrite El. rewrite nth_error_app2 by lia.
  replace (length pre + i - length pre)%nat with i by lia.
  rewrite Es. rewrite <- Ec. rewrite nth_error_app1 by exact Hi. reflexivity.
Qed.

Lemma binof_edges w o t b : 0 < w ->
  (binof w o t =? b) = (edge w o b <=? t) && (t <? edge w o (b + 1)).
Proof.
  intros Hw. unfold binof, edge.
  pose proof (Z.div_mod (t - o) w ltac:(lia)) as H1.
  pose proof (Z.mod_pos_bound (t - o) w Hw) as H2.
  set (q := (t - o) / w) in *. set (r := (t - o) mod w) in *.
  destruct (Z.eqb_spec q b) as [E|E].
  - subst b. symmetry. apply andb_true_iff. split; [apply Z.leb_le|apply Z.ltb_lt]; nia.
  - symmetry. apply andb_false_iff.
    destruct (Z.leb_spec (o + b * w) t) as [L|L]; [|left; reflexivity].
    destruct (Z.ltb_spec t (o + (b + 1) * w)) as [U|U]; [|right; reflexivity].
    exfalso. assert (b < q + 1) by nia. assert (q < b + 1) by nia. lia.
Qed.

Lemma leb_ltb_succ t hi : (t <=? hi) = (t <? hi + 1).
Proof. destruct (Z.leb_spec t hi), (Z.ltb_spec t (hi + 1)); try reflexivity; lia. Qed.

Lemma in_bins_of w o ts t : 0 < w -> In t ts -> In (binof w o t) (bins_of w o ts).
Proof.
  intros Hw Ht. unfold bins_of.
  pose proof (zmin_l_le ts t Ht) as Hmin. pose proof (zmax_l_ge ts t Ht) as Hmax.
  assert (L : binof w o (zmin_l ts) <= binof w o t) by (unfold binof; apply Z.div_le_mono; lia).
  assert (U : binof w o t <= binof w o (zmax_l ts)) by (unfold binof; apply Z.div_le_mono; lia).
  rewrite in_map_iff. exists (Z.to_nat (binof w o t - binof w o (zmin_l ts))). split; [lia|].
  apply in_seq. lia.
Qed.

Lemma isnil_false_in {A} (l : list A) x : In x l -> isnil l = false.
Proof. destruct l; [intros []|reflexivity]. Qed.

Section Binned.
  Variable P : Type.
  Variable D : Type.
  Variable near : P -> P -> bool.
  Variable dist : P -> P -> D.
  Variable ctest : list P -> list P -> bool.
  Hypothesis near_sym : forall a b, near a b = near b a.
  Hypothesis dist_sym : forall a b, dist a b = dist b a.
  Hypothesis ctest_sound : forall a b, ctest a b = true -> a = b.

  Notation pt := (pt P).
  Notation has_pos := (has_pos P).
  Notation poslist := (poslist P).
  Notation hitp := (hitp P D near dist).
  Notation tkey := (@ptime P).

  Variables (mf m w o : Z) (A B : list pt).
  Hypothesis w_pos : 0 < w.
  Hypothesis A_sorted : StronglySorted (le_key tkey) A.
  Hypothesis B_sorted : StronglySorted (le_key tkey) B.
  Hypothesis A_pos : Forall (fun p => has_pos p = true) A.
  Hypothesis B_pos : Forall (fun p => has_pos p = true) B.

  Definition chunk1 (b : Z) := filter (fun p : pt => binof w o (ptime p) =? b) A.
  Definition chunk2 (lo hi : Z) := filter (fun p : pt => in_range lo hi (ptime p)) B.

  Lemma chunk1_seg b : chunk1 b = filter (fun p : pt => (edge w o b <=? ptime p) && (ptime p <? edge w o (b + 1))) A.
  Proof. apply filter_ext. intros p. apply binof_edges. exact w_pos. Qed.

  Lemma chunk2_seg lo hi : chunk2 lo hi = filter (fun p : pt => (lo <=? ptime p) && (ptime p <? hi + 1)) B.
  Proof. apply filter_ext. intros p. unfold in_range. rewrite (leb_ltb_succ (ptime p) hi). reflexivity. Qed.

  Lemma chunk1_nth b i : (i < length (chunk1 b))%nat ->
    nth_error A (length (filter (fun p : pt => ptime p <? edge w o b) A) + i) = nth_error (chunk1 b) i.
  Proof. rewrite chunk1_seg. intros Hi. apply (segment_nth tkey); assumption. Qed.

  Lemma chunk2_nth lo hi j : (j < length (chunk2 lo hi))%nat ->
    nth_error B (length (filter (fun p : pt => ptime p <? lo) B) + j) = nth_error (chunk2 lo hi) j.
  Proof. rewrite chunk2_seg. intros Hj. apply (segment_nth tkey); assumption. Qed.

  Lemma sub_pos (f : pt -> bool) l : Forall (fun p => has_pos p = true) l -> Forall (fun p => has_pos p = true) (filter f l).
  Proof. rewrite !Forall_forall. intros H p Hp. apply filter_In in Hp. apply H. apply Hp. Qed.

  Notation bin_search := (bin_search P D near dist ctest mf m w o A B).

  Lemma bin_sound st b x : In x (snd (bin_search st b)) -> hitp A B x.
  Proof.
    unfold C04_collocate.bin_search. fold (chunk1 b).
    set (lo := edge w o b - m). set (hi := zmax_l (map tkey (chunk1 b)) + m). fold (chunk2 lo hi).
    destruct (isnil (chunk1 b) || isnil (chunk2 lo hi)); cbn [snd]; [intros []|].
    rewrite in_map_iff. intros [y [<- Hy]].
    apply (spatial_search_spec P D near dist ctest near_sym dist_sym ctest_sound) in Hy.
    destruct Hy as [a [c [Ha [Hc [Hn Hd]]]]].
    apply (poslist_nth P (chunk1 b) (sub_pos _ A A_pos)) in Ha.
    apply (poslist_nth P (chunk2 lo hi) (sub_pos _ B B_pos)) in Hc.
    destruct Ha as [p [Hp Hpa]]. destruct Hc as [s [Hs Hsc]].
    exists p, s, a, c. unfold shift3. cbn [fst snd].
    assert (Li : (fst (fst y) < length (chunk1 b))%nat) by (apply nth_error_Some; congruence).
    assert (Lj : (snd (fst y) < length (chunk2 lo hi))%nat) by (apply nth_error_Some; congruence).
    rewrite (chunk1_nth b _ Li), (chunk2_nth lo hi _ Lj). auto 10.
  Qed.

  Lemma bin_complete st p s a c :
    In p A -> In s B -> ppos p = Some a -> ppos s = Some c -> near a c = true ->
    Z.abs (ptime p - ptime s) < m ->
    exists x, In x (snd (bin_search st (binof w o (ptime p)))) /\
              nth_error A (fst (fst x)) = Some p /\ nth_error B (snd (fst x)) = Some s /\ snd x = dist a c.
  Proof.
    intros Hp Hs Hpa Hsc Hn Hd. set (b := binof w o (ptime p)).
    unfold C04_collocate.bin_search. fold (chunk1 b).
    set (lo := edge w o b - m). set (hi := zmax_l (map tkey (chunk1 b)) + m). fold (chunk2 lo hi).
    assert (C1 : In p (chunk1 b)) by (unfold chunk1; apply filter_In; split; [exact Hp|apply Z.eqb_refl]).
    assert (Eb : edge w o b <= ptime p).
    { pose proof (binof_edges w o (ptime p) b w_pos) as H. fold b in H. rewrite Z.eqb_refl in H.
      symmetry in H. apply andb_true_iff in H. apply Z.leb_le. apply H. }
    assert (Hhi : ptime p + m <= hi).
    { unfold hi. assert (ptime p <= zmax_l (map tkey (chunk1 b))) by (apply zmax_l_ge; apply in_map; exact C1). lia. }
    assert (C2 : In s (chunk2 lo hi)).
    { unfold chunk2. apply filter_In. split; [exact Hs|]. unfold in_range, lo.
      apply andb_true_iff. split; apply Z.leb_le; lia. }
    rewrite (isnil_false_in _ _ C1), (isnil_false_in _ _ C2). cbn [orb snd].
    apply In_nth_error in C1. apply In_nth_error in C2. destruct C1 as [i Hi]. destruct C2 as [j Hj].
    exists (shift3 D (length (filter (fun q : pt => ptime q <? edge w o b) A))
                     (length (filter (fun q : pt => ptime q <? lo) B)) (i, j, dist a c)).
    split; [|unfold shift3; cbn [fst snd]].
    - apply in_map. apply (spatial_search_spec P D near dist ctest near_sym dist_sym ctest_sound).
      exists a, c. cbn [fst snd].
      split; [apply (poslist_nth P (chunk1 b) (sub_pos _ A A_pos)); eauto|].
      split; [apply (poslist_nth P (chunk2 lo hi) (sub_pos _ B B_pos)); eauto|auto].
    - assert (Li : (i < length (chunk1 b))%nat) by (apply nth_error_Some; congruence).
      assert (Lj : (j < length (chunk2 lo hi))%nat) by (apply nth_error_Some; congruence).
      rewrite (chunk1_nth b _ Li), (chunk2_nth lo hi _ Lj). auto.
  Qed.

  Lemma fold_bins_sound (Q : nat * nat * D -> Prop) f :
    (forall st b x, In x (snd (f st b)) -> Q x) ->
    forall bs st x, In x (snd (fold_bins P D f st bs)) -> Q x.
  Proof.
    intros Hf. induction bs as [|b t IH]; intros st x; cbn [fold_bins snd]; [intros []|].
    intros H. apply in_app_or in H. destruct H as [H|H]; [exact (Hf _ _ _ H)|exact (IH _ _ H)].
  Qed.

  Lemma fold_bins_complete (Q : nat * nat * D -> Prop) f b :
    (forall st, exists x, In x (snd (f st b)) /\ Q x) ->
    forall bs, In b bs -> forall st, exists x, In x (snd (fold_bins P D f st bs)) /\ Q x.
  Proof.
    intros Hf. induction bs as [|b' t IH]; intros Hb st; [destruct Hb|]. cbn [fold_bins snd].
    destruct Hb as [->|Hb].
    - destruct (Hf st) as [x [Hx HQ]]. exists x. split; [apply in_or_app; left; exact Hx|exact HQ].
    - destruct (IH Hb (fst (f st b'))) as [x [Hx HQ]]. exists x. split; [apply in_or_app; right; exact Hx|exact HQ].
  Qed.

  (* all bins of A against B *)
  Lemma bins_raw_ok st :
    raw_ok P D near dist m A B (snd (fold_bins P D bin_search st (bins_of w o (map tkey A)))).
  Proof.
    split.
    - intros x. apply (fold_bins_sound (hitp A B)). intros st' b y. apply bin_sound.
    - intros p s a c Hp Hs Hpa Hsc Hn Hd.
      apply (fold_bins_complete (fun x => nth_error A (fst (fst x)) = Some p /\ nth_error B (snd (fst x)) = Some s
                                           /\ snd x = dist a c) bin_search (binof w o (ptime p))).
      + intros st'. apply bin_complete; assumption.
      + apply in_bins_of; [exact w_pos|]. apply in_map. exact Hp.
  Qed.
End Binned.

Section BinnedSearch.
  Variable P : Type.
  Variable D : Type.
  Variable near : P -> P -> bool.
  Variable dist : P -> P -> D.
  Variable ctest : list P -> list P -> bool.
  Hypothesis near_sym : forall a b, near a b = near b a.
  Hypothesis dist_sym : forall a b, dist a b = dist b a.
  Hypothesis ctest_sound : forall a b, ctest a b = true -> a = b.

  Lemma binned_ok_all tn c : 0 < bw tn -> binned_ok P D near dist ctest tn c.
  Proof.
    intros Hw st v1 v2 S1 S2 P1 P2. unfold binned_search.
    destruct (length v1 <? length v2)%nat.
    - pose proof (bins_raw_ok P D near dist ctest near_sym dist_sym ctest_sound (mfac tn) (mi c) (bw tn) (borigin tn)
                    v2 v1 Hw S2 S1 P2 P1 st) as [Hs Hc].
      cbn [snd]. split.
      + intros x Hx. rewrite in_map_iff in Hx. destruct Hx as [y [<- Hy]].
        destruct (Hs y Hy) as [p [s [a [b [H1 [H2 [H3 [H4 [H5 H6]]]]]]]]].
        exists s, p, b, a. unfold swap3. cbn [fst snd]. rewrite near_sym, dist_sym. auto 10.
      + intros p s a b Hp Hsv Hpa Hsb Hn Hd.
        destruct (Hc s p b a Hsv Hp Hsb Hpa) as [y [Hy [H1 [H2 H3]]]].
        * rewrite near_sym. exact Hn.
        * replace (ptime s - ptime p) with (- (ptime p - ptime s)) by lia. rewrite Z.abs_opp. exact Hd.
        * exists (swap3 D y). split; [apply in_map; exact Hy|]. unfold swap3. cbn [fst snd].
          rewrite dist_sym. auto.
    - cbn [snd]. apply (bins_raw_ok P D near dist ctest near_sym dist_sym ctest_sound); assumption.
  Qed.

  (* the core statement: for every tuning, every state left by earlier calls, both layouts, both paths *)
  Lemma collocate_exact tn st c dp ds :
    whole_seconds (mi c) -> 0 < bw tn ->
    set_eq (ids_opt P D (snd (collocate P D near dist ctest tn st c dp ds))) (spec_pairs P near c dp ds).
  Proof.
    intros Hw Hb. apply (collocate_exact_if P D near dist ctest near_sym dist_sym ctest_sound); [exact Hw|].
    apply binned_ok_all. exact Hb.
  Qed.
End BinnedSearch.

(* ------------------------------------------------------------------ corollaries *)
Section Corollaries.
  Variable P : Type.
  Variable D : Type.
  Variable near : P -> P -> bool.
  Variable dist : P -> P -> D.
  Variable ctest : list P -> list P -> bool.
  Hypothesis near_sym : forall a b, near a b = near b a.
  Hypothesis dist_sym : forall a b, dist a b = dist b a.
  Hypothesis ctest_sound : forall a b, ctest a b = true -> a = b.

  Notation collocate := (collocate P D near dist ctest).
  Notation ids_opt := (ids_opt P D).

  Lemma tuning_history_invariant tn1 tn2 st1 st2 c dp ds :
    whole_seconds (mi c) -> 0 < bw tn1 -> 0 < bw tn2 ->
    set_eq (ids_opt (snd (collocate tn1 st1 c dp ds))) (ids_opt (snd (collocate tn2 st2 c dp ds))).
  Proof.
    intros Hw H1 H2 x.
    rewrite (collocate_exact P D near dist ctest near_sym dist_sym ctest_sound tn1 st1 c dp ds Hw H1 x).
    rewrite (collocate_exact P D near dist ctest near_sym dist_sym ctest_sound tn2 st2 c dp ds Hw H2 x).
    reflexivity.
  Qed.

  Lemma spec_transposed c dp ds a b : In (a, b) (spec_pairs P near c ds dp) <-> In (b, a) (spec_pairs P near c dp ds).
  Proof.
    assert (H : forall d1 d2 a b, In (a, b) (spec_pairs P near c d1 d2) -> In (b, a) (spec_pairs P near c d2 d1)).
    { intros d1 d2 a' b' Hab. unfold spec_pairs in *. rewrite in_map_iff in *.
      destruct Hab as [[p s] [E Hx]]. cbn [fst snd] in E. inversion E; subst. exists (s, p). split; [reflexivity|].
      rewrite filter_In, in_prod_iff in *. destruct Hx as [[Hp Hs] Hc]. split; [auto|].
      unfold collocated, nearp in *. cbn [fst snd] in *. rewrite !andb_true_iff in *.
      destruct Hc as [[[Hn Hd] Wp] Ws]. repeat split; try assumption.
      - destruct (ppos p), (ppos s); try discriminate. rewrite near_sym. exact Hn.
      - replace (ptime s - ptime p) with (- (ptime p - ptime s)) by lia. rewrite Z.abs_opp. exact Hd. }
    split; apply H.
  Qed.

  Lemma transposed tn1 tn2 st1 st2 c dp ds :
    whole_seconds (mi c) -> 0 < bw tn1 -> 0 < bw tn2 ->
    forall a b, In (a, b) (ids_opt (snd (collocate tn1 st1 c ds dp))) <-> In (b, a) (ids_opt (snd (collocate tn2 st2 c dp ds))).
  Proof.
    intros Hw H1 H2 a b.
    rewrite (collocate_exact P D near dist ctest near_sym dist_sym ctest_sound tn1 st1 c ds dp Hw H1 (a, b)).
    rewrite (collocate_exact P D near dist ctest near_sym dist_sym ctest_sound tn2 st2 c dp ds Hw H2 (b, a)).
    apply spec_transposed.
  Qed.

  Lemma some_nonempty tn st c dp ds r : snd (collocate tn st c dp ds) = Some r -> ids P D r <> [].
  Proof.
    unfold C04_collocate.collocate.
    destruct (isnil _ || isnil _); cbn [snd]; [discriminate|].
    match goal with |- context [if isnil (snd ?r) then _ else _] => destruct (isnil (snd r)) end; cbn [snd]; [discriminate|].
    match goal with |- create_return P D ?f1 ?f2 ?v1 ?v2 ?o1 ?o2 ?ok = Some r -> _ =>
      intros H; pose proof (ids_create P D f1 f2 v1 v2 o1 o2 ok) as Hi; rewrite H in Hi; cbn [C04_collocate.ids_opt] in Hi;
      rewrite Hi; destruct ok; [discriminate H|discriminate] end.
  Qed.

  Lemma none_iff_empty tn st c dp ds : whole_seconds (mi c) -> 0 < bw tn ->
    (snd (collocate tn st c dp ds) = None <-> spec_pairs P near c dp ds = []).
  Proof.
    intros Hw Hb. pose proof (collocate_exact P D near dist ctest near_sym dist_sym ctest_sound tn st c dp ds Hw Hb) as He.
    split.
    - intros Hn. rewrite Hn in He. cbn [C04_collocate.ids_opt] in He.
      destruct (spec_pairs P near c dp ds) as [|x l]; [reflexivity|]. exfalso. apply (He x). left. reflexivity.
    - intros Hs. rewrite Hs in He. destruct (snd (collocate tn st c dp ds)) as [r|] eqn:E; [|reflexivity]. exfalso.
      apply (some_nonempty tn st c dp ds r E). cbn [C04_collocate.ids_opt] in He.
      destruct (ids P D r) as [|x l]; [reflexivity|]. exfalso. apply (He x). left. reflexivity.
  Qed.
End Corollaries.

Lemma list_eqb_sound {P} (eqb : P -> P -> bool) : (forall a b, eqb a b = true -> a = b) ->
  forall a b, list_eqb eqb a b = true -> a = b.
Proof.
  intros H. induction a as [|x s IH]; intros [|y t]; cbn; try discriminate; [reflexivity|].
  intros E. apply andb_true_iff in E. destruct E as [E1 E2]. f_equal; [apply H; exact E1|apply IH; exact E2].
Qed.
