(* C14 -- the two formulations of integrate_water_vapor: the exact layer-by-layer identity when z is the hydrostatic
   height of the moist column (pressure2height at the virtual temperature), the size of the defect, and the limit under
   grid refinement. *)
From Coq Require Import Reals List Lra Lia.
From Interval Require Import Tactic.
From TyphonGen Require Import atmosphere.
From Typhon Require Import Model.C14_column Model.C14_forms Proofs.C14_trapz Proofs.C09_humidity Proofs.C14_hydro.
Import ListNotations.
Open Scope R_scope.

Lemma k_gt_1 : 1 < c_molar_mass_dry_air / c_molar_mass_water.
Proof.
  pose proof Mw_pos. apply Rmult_lt_reg_r with c_molar_mass_water; [assumption|].
  unfold Rdiv. rewrite Rmult_assoc, Rinv_l by lra. unfold c_molar_mass_dry_air, c_molar_mass_water. lra.
Qed.

Lemma moist_factor_alt x : moist_factor x = c_molar_mass_dry_air / c_molar_mass_water - x * (c_molar_mass_dry_air / c_molar_mass_water - 1).
Proof. unfold moist_factor. pose proof Mw_pos. field. lra. Qed.

Lemma moist_factor_ge_1 x : 0 <= x <= 1 -> 1 <= moist_factor x.
Proof. intros Hx. rewrite moist_factor_alt. pose proof k_gt_1. nra. Qed.

Lemma q_is x : vmr2specific_humidity x = x / moist_factor x.
Proof. reflexivity. Qed.

Lemma moist_density_eq x p T : 0 <= x <= 1 -> 0 < T ->
  moist_density x p T = p * moist_factor x / (c_gas_constant_water_vapor * T).
Proof.
  intros Hx HT. pose proof (moist_factor_ge_1 x Hx). pose proof Rd_pos. pose proof Rv_pos.
  unfold moist_density, density, virtual_temperature. field. repeat split; lra.
Qed.

Lemma moist_density_pos x p T : 0 <= x <= 1 -> 0 < p -> 0 < T -> 0 < moist_density x p T.
Proof.
  intros Hx Hp HT. rewrite moist_density_eq by assumption. pose proof (moist_factor_ge_1 x Hx). pose proof Rv_pos.
  apply Rdiv_lt_0_compat; nra.
Qed.

(* the vapour density of the general form is specific humidity times the density of the moist air *)
Lemma vapour_density x p T : 0 <= x <= 1 -> 0 < T ->
  x * density p T c_gas_constant_water_vapor = vmr2specific_humidity x * moist_density x p T.
Proof.
  intros Hx HT. rewrite moist_density_eq, q_is by assumption. pose proof (moist_factor_ge_1 x Hx). pose proof Rv_pos.
  unfold density. field. repeat split; lra.
Qed.

(* one layer of the general form over its own hydrostatic thickness = the layer of the hydrostatic form + the defect *)
Lemma layer_identity x0 p0 T0 x1 p1 T1 : 0 <= x0 <= 1 -> 0 <= x1 <= 1 -> 0 < p0 -> 0 < p1 -> 0 < T0 -> 0 < T1 ->
  - (p1 - p0) / (0.5 * (moist_density x0 p0 T0 + moist_density x1 p1 T1) * c_earth_standard_gravity) *
    (x1 * density p1 T1 c_gas_constant_water_vapor + x0 * density p0 T0 c_gas_constant_water_vapor) / 2 =
  layer_hydro x0 p0 T0 x1 p1 T1 + layer_defect x0 p0 T0 x1 p1 T1.
Proof.
  intros Hx0 Hx1 Hp0 Hp1 HT0 HT1.
  rewrite !vapour_density by assumption. unfold layer_hydro, layer_defect.
  pose proof (moist_density_pos x0 p0 T0 Hx0 Hp0 HT0). pose proof (moist_density_pos x1 p1 T1 Hx1 Hp1 HT1).
  set (r0 := moist_density x0 p0 T0) in *. set (r1 := moist_density x1 p1 T1) in *.
  set (q0 := vmr2specific_humidity x0). set (q1 := vmr2specific_humidity x1).
  pose proof g_pos. replace 0.5 with (1 / 2) by lra. field. repeat split; lra.
Qed.

Lemma zip3_cons2 {A B C D} (f : A -> B -> C -> D) a0 a b0 b c0 c : zip3 f (a0 :: a) (b0 :: b) (c0 :: c) = f a0 b0 c0 :: zip3 f a b c.
Proof. reflexivity. Qed.
Lemma layer_map_cons2 {A} (f : R -> R -> R -> R -> R -> R -> A) x0 x1 x p0 p1 p T0 T1 T :
  layer_map f (x0 :: x1 :: x) (p0 :: p1 :: p) (T0 :: T1 :: T) = f x0 p0 T0 x1 p1 T1 :: layer_map f (x1 :: x) (p1 :: p) (T1 :: T).
Proof. reflexivity. Qed.
Lemma layer_all_cons2 P x0 x1 x p0 p1 p T0 T1 T :
  layer_all P (x0 :: x1 :: x) (p0 :: p1 :: p) (T0 :: T1 :: T) <-> P x0 p0 T0 x1 p1 T1 /\ layer_all P (x1 :: x) (p1 :: p) (T1 :: T).
Proof. reflexivity. Qed.

(* the general form over the heights accumulated from `acc` *)
Lemma forms_identity_acc : forall vmr p T acc, length vmr = length p -> length T = length p ->
  List.Forall (fun x => 0 <= x <= 1) vmr -> List.Forall (fun x => 0 < x) p -> List.Forall (fun x => 0 < x) T ->
  trapz (zip3 (fun x p T => x * density p T c_gas_constant_water_vapor) vmr p T)
        (acc :: cumsum_from acc (layers p (zip2 (fun p T => density p T c_gas_constant_dry_air) p (zip2 virtual_temperature vmr T)))) =
  rsum (layer_map layer_hydro vmr p T) + rsum (layer_map layer_defect vmr p T).
Proof.
  induction vmr as [|x0 vmr IH]; intros p T acc Hlx HlT Hx Hp HT.
  - cbn [zip3 trapz layer_map rsum]. lra.
  - destruct p as [|p0 p]; [discriminate|]. destruct T as [|T0 T]; [discriminate|].
    cbn [length] in Hlx, HlT. injection Hlx as Hlx. injection HlT as HlT.
    destruct vmr as [|x1 vmr].
    + destruct p; [|discriminate]. destruct T; [|discriminate]. cbn [zip3 layer_map rsum]. rewrite trapz_single_l. lra.
    + destruct p as [|p1 p]; [discriminate|]. destruct T as [|T1 T]; [discriminate|].
      inversion Hx as [|? ? Hx0 Hx']; subst. inversion Hp as [|? ? Hp0 Hp']; subst. inversion HT as [|? ? HT0 HT']; subst.
      inversion Hx' as [|? ? Hx1 _]; subst. inversion Hp' as [|? ? Hp1 _]; subst. inversion HT' as [|? ? HT1 _]; subst.
      rewrite !layer_map_cons2. cbn [rsum].
      change (zip2 virtual_temperature (x0 :: x1 :: vmr) (T0 :: T1 :: T))
        with (virtual_temperature x0 T0 :: virtual_temperature x1 T1 :: zip2 virtual_temperature vmr T).
      change (zip2 (fun p T => density p T c_gas_constant_dry_air) (p0 :: p1 :: p)
                (virtual_temperature x0 T0 :: virtual_temperature x1 T1 :: zip2 virtual_temperature vmr T))
        with (moist_density x0 p0 T0 :: moist_density x1 p1 T1 ::
              zip2 (fun p T => density p T c_gas_constant_dry_air) p (zip2 virtual_temperature vmr T)).
      rewrite layers_cons2. cbn [cumsum_from]. rewrite !zip3_cons2.
      rewrite trapz_cons2.
      specialize (IH (p1 :: p) (T1 :: T)
        (acc + - (p1 - p0) / (0.5 * (moist_density x0 p0 T0 + moist_density x1 p1 T1) * c_earth_standard_gravity)) Hlx HlT Hx' Hp' HT').
      change (zip2 virtual_temperature (x1 :: vmr) (T1 :: T)) with (virtual_temperature x1 T1 :: zip2 virtual_temperature vmr T) in IH.
      change (zip2 (fun p T => density p T c_gas_constant_dry_air) (p1 :: p) (virtual_temperature x1 T1 :: zip2 virtual_temperature vmr T))
        with (moist_density x1 p1 T1 :: zip2 (fun p T => density p T c_gas_constant_dry_air) p (zip2 virtual_temperature vmr T)) in IH.
      rewrite !zip3_cons2 in IH. rewrite IH.
      pose proof (layer_identity x0 p0 T0 x1 p1 T1 Hx0 Hx1 Hp0 Hp1 HT0 HT1) as HL.
      set (dz := - (p1 - p0) / (0.5 * (moist_density x0 p0 T0 + moist_density x1 p1 T1) * c_earth_standard_gravity)) in *.
      replace (acc + dz - acc) with dz by ring.
      cbv beta. rewrite HL. ring.
Qed.

Lemma hydro_layers : forall vmr p T, length vmr = length p -> length T = length p ->
  iwv_hydro vmr p = rsum (layer_map layer_hydro vmr p T).
Proof.
  unfold iwv_hydro.
  induction vmr as [|x0 vmr IH]; intros p T Hlx HlT.
  - cbn [map trapz layer_map rsum]. unfold Rdiv. ring.
  - destruct p as [|p0 p]; [discriminate|]. destruct T as [|T0 T]; [discriminate|].
    cbn [length] in Hlx, HlT. injection Hlx as Hlx. injection HlT as HlT.
    destruct vmr as [|x1 vmr].
    + cbn [map layer_map rsum]. rewrite trapz_single_l. unfold Rdiv. ring.
    + destruct p as [|p1 p]; [discriminate|]. destruct T as [|T1 T]; [discriminate|].
      rewrite layer_map_cons2. cbn [rsum]. rewrite <- (IH (p1 :: p) (T1 :: T) Hlx HlT).
      cbn [map]. rewrite trapz_cons2. unfold layer_hydro. pose proof g_pos. field. lra.
Qed.

Lemma forms_identity vmr p T : length vmr = length p -> length T = length p ->
  List.Forall (fun x => 0 <= x <= 1) vmr -> List.Forall (fun x => 0 < x) p -> List.Forall (fun x => 0 < x) T ->
  iwv_general vmr p T (moist_height vmr p T) - iwv_hydro vmr p = rsum (layer_map layer_defect vmr p T).
Proof.
  intros Hlx HlT Hx Hp HT. unfold iwv_general, moist_height, pressure2height.
  rewrite (forms_identity_acc vmr p T 0 Hlx HlT Hx Hp HT), (hydro_layers vmr p T Hlx HlT). ring.
Qed.

(* ---- the size of the defect *)

Lemma contrast_core p0 p1 m0 m1 T0 T1 dm : 0 < p1 -> p1 <= p0 -> 1 <= m0 -> 1 <= m1 -> 0 < T0 -> 0 < T1 -> Rabs (m0 - m1) <= dm ->
  Rabs (p0 * m0 * T1 - p1 * m1 * T0) <= ((p0 / p1 - 1) + dm + Rabs (T0 - T1) / T0) * (p0 * m0 * T1 + p1 * m1 * T0).
Proof.
  intros Hp1 Hp Hm0 Hm1 HT0 HT1 Hdm.
  assert (Hu : exists u, u * p1 = p0 /\ 1 <= u /\ p0 / p1 = u).
  { exists (p0 / p1). split; [field; lra|]. split; [|reflexivity].
    apply Rmult_le_reg_r with p1; [assumption|]. unfold Rdiv. rewrite Rmult_assoc, Rinv_l by lra. lra. }
  destruct Hu as [u [Hu1 [Hu2 Hu3]]]. rewrite Hu3.
  assert (Hw : exists w, w * T0 = Rabs (T0 - T1) /\ 0 <= w /\ Rabs (T0 - T1) / T0 = w).
  { exists (Rabs (T0 - T1) / T0). split; [field; lra|]. split; [|reflexivity].
    apply Rmult_le_pos; [apply Rabs_pos|]. left. apply Rinv_0_lt_compat. assumption. }
  destruct Hw as [w [Hw1 [Hw2 Hw3]]]. rewrite Hw3.
  pose proof (Rabs_pos (m0 - m1)) as Ha0.
  set (A := p0 * m0 * T1). set (B := p1 * m1 * T0).
  assert (HA : 0 < A) by (unfold A; apply Rmult_lt_0_compat; [apply Rmult_lt_0_compat|]; lra).
  assert (HB : 0 < B) by (unfold B; apply Rmult_lt_0_compat; [apply Rmult_lt_0_compat|]; lra).
  assert (Hsplit : A - B = (p0 - p1) * m0 * T1 + p1 * (m0 - m1) * T1 + p1 * m1 * (T1 - T0)) by (unfold A, B; ring).
  assert (H1 : Rabs ((p0 - p1) * m0 * T1) <= (u - 1) * (A + B)).
  { rewrite Rabs_pos_eq by (apply Rmult_le_pos; [apply Rmult_le_pos|]; lra).
    assert ((p0 - p1) * m0 * T1 <= (u - 1) * A).
    { unfold A. rewrite <- Hu1. assert (0 <= (u - 1) * (u - 1) * (p1 * m0 * T1)).
      { apply Rmult_le_pos; [nra|]. apply Rmult_le_pos; [apply Rmult_le_pos|]; lra. } nra. }
    assert (0 <= (u - 1) * B) by (apply Rmult_le_pos; lra). lra. }
  assert (H2 : Rabs (p1 * (m0 - m1) * T1) <= dm * (A + B)).
  { replace (p1 * (m0 - m1) * T1) with ((p1 * T1) * (m0 - m1)) by ring.
    rewrite Rabs_mult, (Rabs_pos_eq (p1 * T1)) by (apply Rmult_le_pos; lra).
    assert (Hpt : p1 * T1 <= A).
    { unfold A. assert (0 <= p1 * T1 * (m0 - 1)) by (apply Rmult_le_pos; [apply Rmult_le_pos|]; lra).
      assert (0 <= (p0 - p1) * (m0 * T1)) by (apply Rmult_le_pos; [|apply Rmult_le_pos]; lra). nra. }
    assert (0 <= dm) by lra.
    assert (p1 * T1 * Rabs (m0 - m1) <= A * dm) by (apply Rmult_le_compat; try lra; apply Rmult_le_pos; lra).
    assert (0 <= dm * B) by (apply Rmult_le_pos; lra). lra. }
  assert (H3 : Rabs (p1 * m1 * (T1 - T0)) <= w * (A + B)).
  { rewrite Rabs_mult, (Rabs_pos_eq (p1 * m1)) by (apply Rmult_le_pos; lra).
    rewrite (Rabs_minus_sym T1 T0), <- Hw1.
    assert (0 <= w * A) by (apply Rmult_le_pos; lra). unfold B. nra. }
  fold A B in Hsplit |- *. rewrite Hsplit.
  eapply Rle_trans; [apply Rabs_triang|]. eapply Rle_trans; [apply Rplus_le_compat_r, Rabs_triang|].
  rewrite !Rmult_plus_distr_r. lra.
Qed.

(* relative density contrast of neighbouring levels <= pressure step + composition step + temperature step *)
Lemma density_contrast x0 p0 T0 x1 p1 T1 : 0 <= x0 <= 1 -> 0 <= x1 <= 1 -> 0 < p1 -> p1 <= p0 -> 0 < T0 -> 0 < T1 ->
  Rabs ((moist_density x0 p0 T0 - moist_density x1 p1 T1) / (moist_density x0 p0 T0 + moist_density x1 p1 T1))
  <= layer_contrast x0 p0 T0 x1 p1 T1.
Proof.
  intros Hx0 Hx1 Hp1 Hp HT0 HT1. assert (Hp0 : 0 < p0) by lra.
  pose proof (moist_density_pos x0 p0 T0 Hx0 Hp0 HT0) as Hr0. pose proof (moist_density_pos x1 p1 T1 Hx1 Hp1 HT1) as Hr1.
  pose proof (moist_factor_ge_1 x0 Hx0) as Hm0. pose proof (moist_factor_ge_1 x1 Hx1) as Hm1. pose proof Rv_pos as HRv.
  pose proof k_gt_1 as Hk.
  assert (Hdm : Rabs (moist_factor x0 - moist_factor x1) <= (c_molar_mass_dry_air / c_molar_mass_water - 1) * Rabs (x0 - x1)).
  { rewrite !moist_factor_alt.
    replace (c_molar_mass_dry_air / c_molar_mass_water - x0 * (c_molar_mass_dry_air / c_molar_mass_water - 1) -
             (c_molar_mass_dry_air / c_molar_mass_water - x1 * (c_molar_mass_dry_air / c_molar_mass_water - 1)))
      with (- ((c_molar_mass_dry_air / c_molar_mass_water - 1) * (x0 - x1))) by ring.
    rewrite Rabs_Ropp, Rabs_mult, (Rabs_pos_eq (c_molar_mass_dry_air / c_molar_mass_water - 1)) by lra. lra. }
  pose proof (contrast_core p0 p1 _ _ T0 T1 _ Hp1 Hp Hm0 Hm1 HT0 HT1 Hdm) as Hc. fold (layer_contrast x0 p0 T0 x1 p1 T1) in Hc.
  unfold Rdiv at 1. rewrite Rabs_mult, (Rabs_pos_eq (/ _)) by (left; apply Rinv_0_lt_compat; lra).
  apply Rmult_le_reg_r with (moist_density x0 p0 T0 + moist_density x1 p1 T1); [lra|].
  rewrite Rmult_assoc, Rinv_l, Rmult_1_r by lra.
  rewrite !moist_density_eq by assumption.
  set (c := layer_contrast x0 p0 T0 x1 p1 T1) in *. set (m0 := moist_factor x0) in *. set (m1 := moist_factor x1) in *.
  set (s := c_gas_constant_water_vapor * T0 * T1). assert (Hs : 0 < s) by (unfold s; apply Rmult_lt_0_compat; nra).
  replace (p0 * m0 / (c_gas_constant_water_vapor * T0) - p1 * m1 / (c_gas_constant_water_vapor * T1))
    with ((p0 * m0 * T1 - p1 * m1 * T0) / s) by (unfold s; field; lra).
  replace (p0 * m0 / (c_gas_constant_water_vapor * T0) + p1 * m1 / (c_gas_constant_water_vapor * T1))
    with ((p0 * m0 * T1 + p1 * m1 * T0) / s) by (unfold s; field; lra).
  unfold Rdiv. rewrite Rabs_mult, (Rabs_pos_eq (/ s)) by (left; apply Rinv_0_lt_compat; lra).
  rewrite <- Rmult_assoc. apply Rmult_le_compat_r; [left; apply Rinv_0_lt_compat; lra|]. exact Hc.
Qed.

Lemma q_le_1 x : 0 <= x <= 1 -> vmr2specific_humidity x <= 1.
Proof.
  intros Hx. rewrite q_is. pose proof (moist_factor_ge_1 x Hx).
  apply Rmult_le_reg_r with (moist_factor x); [lra|]. unfold Rdiv. rewrite Rmult_assoc, Rinv_l by lra. lra.
Qed.

Lemma q_step x0 x1 : 0 <= x0 <= 1 -> 0 <= x1 <= 1 ->
  Rabs (vmr2specific_humidity x0 - vmr2specific_humidity x1) <= c_molar_mass_dry_air / c_molar_mass_water * Rabs (x0 - x1).
Proof.
  intros Hx0 Hx1. rewrite !q_is. pose proof (moist_factor_ge_1 x0 Hx0) as Hm0. pose proof (moist_factor_ge_1 x1 Hx1) as Hm1.
  pose proof k_gt_1 as Hk.
  replace (x0 / moist_factor x0 - x1 / moist_factor x1)
    with (c_molar_mass_dry_air / c_molar_mass_water * (x0 - x1) * / (moist_factor x0 * moist_factor x1)).
  2:{ rewrite (moist_factor_alt x0), (moist_factor_alt x1). rewrite moist_factor_alt in Hm0, Hm1.
      set (k := c_molar_mass_dry_air / c_molar_mass_water) in *. field. split; lra. }
  rewrite !Rabs_mult, (Rabs_pos_eq (c_molar_mass_dry_air / c_molar_mass_water)) by lra.
  assert (Hmm : 1 <= moist_factor x0 * moist_factor x1) by nra.
  rewrite (Rabs_pos_eq (/ _)) by (left; apply Rinv_0_lt_compat; lra).
  assert (Hi : / (moist_factor x0 * moist_factor x1) <= 1).
  { rewrite <- Rinv_1. apply Rinv_le_contravar; lra. }
  pose proof (Rabs_pos (x0 - x1)).
  assert (0 <= c_molar_mass_dry_air / c_molar_mass_water * Rabs (x0 - x1)) by (apply Rmult_le_pos; lra).
  assert (0 < / (moist_factor x0 * moist_factor x1)) by (apply Rinv_0_lt_compat; lra).
  nra.
Qed.

(* per layer: |defect| <= contrast * (the layer of the hydrostatic form), and <= contrast * (Md/Mw) |dx| * dp / (2 g) *)
Lemma layer_defect_rel x0 p0 T0 x1 p1 T1 : 0 <= x0 <= 1 -> 0 <= x1 <= 1 -> 0 < p1 -> p1 <= p0 -> 0 < T0 -> 0 < T1 ->
  Rabs (layer_defect x0 p0 T0 x1 p1 T1) <= layer_contrast x0 p0 T0 x1 p1 T1 * layer_hydro x0 p0 T0 x1 p1 T1.
Proof.
  intros Hx0 Hx1 Hp1 Hp HT0 HT1. pose proof (density_contrast x0 p0 T0 x1 p1 T1 Hx0 Hx1 Hp1 Hp HT0 HT1) as Hc.
  pose proof (q_nonneg x0 Hx0) as Hq0. pose proof (q_nonneg x1 Hx1) as Hq1. pose proof g_pos as Hg.
  unfold layer_defect, layer_hydro. rewrite !Rabs_mult.
  set (D := Rabs ((moist_density x0 p0 T0 - moist_density x1 p1 T1) / (moist_density x0 p0 T0 + moist_density x1 p1 T1))) in *.
  set (c := layer_contrast x0 p0 T0 x1 p1 T1) in *. set (q0 := vmr2specific_humidity x0) in *. set (q1 := vmr2specific_humidity x1) in *.
  assert (HD : 0 <= D) by apply Rabs_pos.
  assert (Hw : 0 <= (p0 - p1) / (2 * c_earth_standard_gravity)).
  { apply Rmult_le_pos; [lra|]. left. apply Rinv_0_lt_compat. lra. }
  rewrite (Rabs_pos_eq _ Hw).
  assert (Hq : Rabs (q0 - q1) <= q1 + q0) by (apply Rabs_le; lra).
  replace ((p0 - p1) * (q1 + q0) / 2 / c_earth_standard_gravity) with ((p0 - p1) / (2 * c_earth_standard_gravity) * (q1 + q0)) by (field; lra).
  set (w := (p0 - p1) / (2 * c_earth_standard_gravity)) in *.
  assert (0 <= Rabs (q0 - q1)) by apply Rabs_pos.
  assert (H1 : w * Rabs (q0 - q1) <= w * (q1 + q0)) by (apply Rmult_le_compat_l; assumption).
  assert (H2 : w * Rabs (q0 - q1) * D <= w * (q1 + q0) * c).
  { apply Rmult_le_compat; try assumption. apply Rmult_le_pos; assumption. }
  lra.
Qed.

Lemma layer_hydro_nonneg x0 p0 T0 x1 p1 T1 : 0 <= x0 <= 1 -> 0 <= x1 <= 1 -> p1 <= p0 -> 0 <= layer_hydro x0 p0 T0 x1 p1 T1.
Proof.
  intros Hx0 Hx1 Hp. pose proof (q_nonneg x0 Hx0). pose proof (q_nonneg x1 Hx1). pose proof g_pos. unfold layer_hydro.
  apply Rmult_le_pos; [|left; apply Rinv_0_lt_compat; lra]. apply Rmult_le_pos; [|lra]. apply Rmult_le_pos; lra.
Qed.

Lemma layer_defect_abs x0 p0 T0 x1 p1 T1 : 0 <= x0 <= 1 -> 0 <= x1 <= 1 -> 0 < p1 -> p1 <= p0 -> 0 < T0 -> 0 < T1 ->
  Rabs (layer_defect x0 p0 T0 x1 p1 T1) <=
  layer_contrast x0 p0 T0 x1 p1 T1 * (c_molar_mass_dry_air / c_molar_mass_water * Rabs (x0 - x1)) * ((p0 - p1) / (2 * c_earth_standard_gravity)).
Proof.
  intros Hx0 Hx1 Hp1 Hp HT0 HT1. pose proof (density_contrast x0 p0 T0 x1 p1 T1 Hx0 Hx1 Hp1 Hp HT0 HT1) as Hc.
  pose proof (q_step x0 x1 Hx0 Hx1) as Hq. pose proof g_pos as Hg.
  unfold layer_defect. rewrite !Rabs_mult.
  set (D := Rabs ((moist_density x0 p0 T0 - moist_density x1 p1 T1) / (moist_density x0 p0 T0 + moist_density x1 p1 T1))) in *.
  set (c := layer_contrast x0 p0 T0 x1 p1 T1) in *.
  set (dq := Rabs (vmr2specific_humidity x0 - vmr2specific_humidity x1)) in *.
  set (kx := c_molar_mass_dry_air / c_molar_mass_water * Rabs (x0 - x1)) in *.
  assert (HD : 0 <= D) by apply Rabs_pos. assert (Hdq : 0 <= dq) by apply Rabs_pos.
  assert (Hw : 0 <= (p0 - p1) / (2 * c_earth_standard_gravity)).
  { apply Rmult_le_pos; [lra|]. left. apply Rinv_0_lt_compat. lra. }
  rewrite (Rabs_pos_eq _ Hw). set (w := (p0 - p1) / (2 * c_earth_standard_gravity)) in *.
  assert (H1 : dq * D <= kx * c) by (apply Rmult_le_compat; assumption).
  assert (H2 : w * (dq * D) <= w * (kx * c)) by (apply Rmult_le_compat_l; assumption).
  lra.
Qed.

Lemma layer_defect_bounds x0 p0 T0 x1 p1 T1 : 0 <= x0 <= 1 -> 0 <= x1 <= 1 -> 0 < p1 -> p1 <= p0 -> 0 < T0 -> 0 < T1 ->
  Rabs (layer_defect x0 p0 T0 x1 p1 T1) <= layer_contrast x0 p0 T0 x1 p1 T1 * layer_hydro x0 p0 T0 x1 p1 T1 /\
  Rabs (layer_defect x0 p0 T0 x1 p1 T1) <=
    layer_contrast x0 p0 T0 x1 p1 T1 * (c_molar_mass_dry_air / c_molar_mass_water * Rabs (x0 - x1)) * ((p0 - p1) / (2 * c_earth_standard_gravity)).
Proof. intros; split; [apply layer_defect_rel|apply layer_defect_abs]; assumption. Qed.

(* ---- summed over the column *)

Lemma forms_close_sum e : forall vmr p T, length vmr = length p -> length T = length p ->
  List.Forall (fun x => 0 <= x <= 1) vmr -> List.Forall (fun x => 0 < x) p -> decreasing p -> List.Forall (fun x => 0 < x) T ->
  layer_all (fun x0 p0 T0 x1 p1 T1 => layer_contrast x0 p0 T0 x1 p1 T1 <= e) vmr p T ->
  0 <= rsum (layer_map layer_hydro vmr p T) /\
  Rabs (rsum (layer_map layer_defect vmr p T)) <= e * rsum (layer_map layer_hydro vmr p T).
Proof.
  induction vmr as [|x0 vmr IH]; intros p T Hlx HlT Hx Hp Hd HT Hc.
  - cbn [layer_map rsum]. rewrite Rabs_R0. lra.
  - destruct p as [|p0 p]; [discriminate|]. destruct T as [|T0 T]; [discriminate|].
    cbn [length] in Hlx, HlT. injection Hlx as Hlx. injection HlT as HlT.
    destruct vmr as [|x1 vmr]; [cbn [layer_map rsum]; rewrite Rabs_R0; lra|].
    destruct p as [|p1 p]; [discriminate|]. destruct T as [|T1 T]; [discriminate|].
    inversion Hx as [|? ? Hx0 Hx']; subst. inversion Hp as [|? ? Hp0 Hp']; subst. inversion HT as [|? ? HT0 HT']; subst.
    inversion Hx' as [|? ? Hx1 _]; subst. inversion Hp' as [|? ? Hp1 _]; subst. inversion HT' as [|? ? HT1 _]; subst.
    apply decreasing_cons2 in Hd. destruct Hd as [H01 Hd']. apply layer_all_cons2 in Hc. destruct Hc as [Hc0 Hc'].
    destruct (IH (p1 :: p) (T1 :: T) Hlx HlT Hx' Hp' Hd' HT' Hc') as [IH1 IH2].
    rewrite !layer_map_cons2. cbn [rsum].
    assert (Hle : p1 <= p0) by lra.
    pose proof (layer_defect_rel x0 p0 T0 x1 p1 T1 Hx0 Hx1 Hp1 Hle HT0 HT1) as Hl.
    pose proof (layer_hydro_nonneg x0 p0 T0 x1 p1 T1 Hx0 Hx1 Hle) as Hh.
    split; [lra|]. eapply Rle_trans; [apply Rabs_triang|].
    assert (layer_contrast x0 p0 T0 x1 p1 T1 * layer_hydro x0 p0 T0 x1 p1 T1 <= e * layer_hydro x0 p0 T0 x1 p1 T1)
      by (apply Rmult_le_compat_r; assumption).
    rewrite Rmult_plus_distr_l. lra.
Qed.

Lemma forms_close e vmr p T : length vmr = length p -> length T = length p ->
  List.Forall (fun x => 0 <= x <= 1) vmr -> List.Forall (fun x => 0 < x) p -> decreasing p -> List.Forall (fun x => 0 < x) T ->
  layer_all (fun x0 p0 T0 x1 p1 T1 => layer_contrast x0 p0 T0 x1 p1 T1 <= e) vmr p T ->
  Rabs (iwv_general vmr p T (moist_height vmr p T) - iwv_hydro vmr p) <= e * iwv_hydro vmr p.
Proof.
  intros Hlx HlT Hx Hp Hd HT Hc. rewrite (forms_identity vmr p T Hlx HlT Hx Hp HT), (hydro_layers vmr p T Hlx HlT).
  apply (forms_close_sum e vmr p T Hlx HlT Hx Hp Hd HT Hc).
Qed.

Lemma contrast_nonneg x0 p0 T0 x1 p1 T1 : 0 < p1 -> p1 <= p0 -> 0 < T0 -> 0 <= layer_contrast x0 p0 T0 x1 p1 T1.
Proof.
  intros Hp1 Hp HT0. unfold layer_contrast. pose proof k_gt_1.
  assert (1 <= p0 / p1). { apply Rmult_le_reg_r with p1; [assumption|]. unfold Rdiv. rewrite Rmult_assoc, Rinv_l by lra. lra. }
  assert (0 <= (c_molar_mass_dry_air / c_molar_mass_water - 1) * Rabs (x0 - x1)) by (apply Rmult_le_pos; [lra|apply Rabs_pos]).
  assert (0 <= Rabs (T0 - T1) / T0) by (apply Rmult_le_pos; [apply Rabs_pos|left; apply Rinv_0_lt_compat; assumption]).
  lra.
Qed.

(* second order: contrast e and composition step dx per layer *)
Lemma forms_second_order_sum e dx : forall vmr p T, length vmr = length p -> length T = length p ->
  List.Forall (fun x => 0 <= x <= 1) vmr -> List.Forall (fun x => 0 < x) p -> decreasing p -> List.Forall (fun x => 0 < x) T ->
  layer_all (fun x0 p0 T0 x1 p1 T1 => layer_contrast x0 p0 T0 x1 p1 T1 <= e /\ Rabs (x0 - x1) <= dx) vmr p T ->
  Rabs (rsum (layer_map layer_defect vmr p T)) <=
  e * (c_molar_mass_dry_air / c_molar_mass_water * dx) * ((hd 0 p - last p 0) / (2 * c_earth_standard_gravity)).
Proof.
  induction vmr as [|x0 vmr IH]; intros p T Hlx HlT Hx Hp Hd HT Hc.
  - destruct p; [|discriminate]. cbn [layer_map rsum hd last]. rewrite Rabs_R0. unfold Rdiv. rewrite Rminus_diag_eq by reflexivity. lra.
  - destruct p as [|p0 p]; [discriminate|]. destruct T as [|T0 T]; [discriminate|].
    cbn [length] in Hlx, HlT. injection Hlx as Hlx. injection HlT as HlT.
    destruct vmr as [|x1 vmr].
    { destruct p; [|discriminate]. cbn [layer_map rsum hd last]. rewrite Rabs_R0. unfold Rdiv. rewrite Rminus_diag_eq by reflexivity. lra. }
    destruct p as [|p1 p]; [discriminate|]. destruct T as [|T1 T]; [discriminate|].
    inversion Hx as [|? ? Hx0 Hx']; subst. inversion Hp as [|? ? Hp0 Hp']; subst. inversion HT as [|? ? HT0 HT']; subst.
    inversion Hx' as [|? ? Hx1 _]; subst. inversion Hp' as [|? ? Hp1 _]; subst. inversion HT' as [|? ? HT1 _]; subst.
    apply decreasing_cons2 in Hd. destruct Hd as [H01 Hd']. apply layer_all_cons2 in Hc. destruct Hc as [[Hc0 Hdx0] Hc'].
    pose proof (IH (p1 :: p) (T1 :: T) Hlx HlT Hx' Hp' Hd' HT' Hc') as IH1.
    rewrite !layer_map_cons2. cbn [rsum].
    change (last (p0 :: p1 :: p) 0) with (last (p1 :: p) 0). cbn [hd] in IH1 |- *.
    assert (Hle : p1 <= p0) by lra.
    pose proof (layer_defect_abs x0 p0 T0 x1 p1 T1 Hx0 Hx1 Hp1 Hle HT0 HT1) as Hl.
    pose proof (contrast_nonneg x0 p0 T0 x1 p1 T1 Hp1 Hle HT0) as Hcn.
    pose proof k_gt_1 as Hk. pose proof g_pos as Hg. pose proof (Rabs_pos (x0 - x1)) as Hax.
    set (k := c_molar_mass_dry_air / c_molar_mass_water) in *. set (c := layer_contrast x0 p0 T0 x1 p1 T1) in *.
    assert (Hw : 0 <= (p0 - p1) / (2 * c_earth_standard_gravity)).
    { apply Rmult_le_pos; [lra|]. left. apply Rinv_0_lt_compat. lra. }
    assert (H1 : c * (k * Rabs (x0 - x1)) <= e * (k * dx)).
    { apply Rmult_le_compat; try assumption. - apply Rmult_le_pos; lra. - apply Rmult_le_compat_l; lra. }
    assert (H2 : c * (k * Rabs (x0 - x1)) * ((p0 - p1) / (2 * c_earth_standard_gravity)) <= e * (k * dx) * ((p0 - p1) / (2 * c_earth_standard_gravity)))
      by (apply Rmult_le_compat_r; assumption).
    eapply Rle_trans; [apply Rabs_triang|].
    replace ((p0 - last (p1 :: p) 0) / (2 * c_earth_standard_gravity))
      with ((p0 - p1) / (2 * c_earth_standard_gravity) + (p1 - last (p1 :: p) 0) / (2 * c_earth_standard_gravity)) by (field; lra).
    rewrite Rmult_plus_distr_l. lra.
Qed.

Lemma forms_second_order e dx vmr p T : length vmr = length p -> length T = length p ->
  List.Forall (fun x => 0 <= x <= 1) vmr -> List.Forall (fun x => 0 < x) p -> decreasing p -> List.Forall (fun x => 0 < x) T ->
  layer_all (fun x0 p0 T0 x1 p1 T1 => layer_contrast x0 p0 T0 x1 p1 T1 <= e /\ Rabs (x0 - x1) <= dx) vmr p T ->
  Rabs (iwv_general vmr p T (moist_height vmr p T) - iwv_hydro vmr p) <=
  e * (c_molar_mass_dry_air / c_molar_mass_water * dx) * ((hd 0 p - last p 0) / (2 * c_earth_standard_gravity)).
Proof.
  intros Hlx HlT Hx Hp Hd HT Hc. rewrite (forms_identity vmr p T Hlx HlT Hx Hp HT).
  apply (forms_second_order_sum e dx vmr p T Hlx HlT Hx Hp Hd HT Hc).
Qed.

(* ---- profiles whose steps are controlled by the pressure step (Lipschitz in ln p, or in p on a bounded range) *)


Lemma layer_all_weaken (P Q : R -> R -> R -> R -> R -> R -> Prop) :
  (forall x0 p0 T0 x1 p1 T1, P x0 p0 T0 x1 p1 T1 -> Q x0 p0 T0 x1 p1 T1) ->
  forall x p T, layer_all P x p T -> layer_all Q x p T.
Proof.
  intros HPQ. induction x as [|x0 x IH]; intros p T H; [exact I|].
  destruct x as [|x1 x]; [destruct p as [|? [|? ?]]; destruct T as [|? [|? ?]]; exact I|].
  destruct p as [|p0 [|p1 p]]; try exact I. destruct T as [|T0 [|T1 T]]; try exact I.
  apply layer_all_cons2 in H. apply layer_all_cons2. destruct H as [H0 H']. split; [apply HPQ, H0|apply IH, H'].
Qed.

Lemma smooth_contrast Lx LT Tmin d x0 p0 T0 x1 p1 T1 : 0 <= Lx -> 0 <= LT -> 0 < Tmin -> Tmin <= T0 -> 0 < p1 -> p1 <= p0 ->
  smooth_layer Lx LT d x0 p0 T0 x1 p1 T1 ->
  layer_contrast x0 p0 T0 x1 p1 T1 <= forms_constant Lx LT Tmin * d /\ Rabs (x0 - x1) <= Lx * d.
Proof.
  intros HLx HLT HTm HT0 Hp1 Hp [Hd [Hsx HsT]]. unfold layer_contrast, forms_constant. pose proof k_gt_1 as Hk.
  set (k := c_molar_mass_dry_air / c_molar_mass_water) in *.
  assert (Hr : 0 <= p0 / p1 - 1).
  { assert (1 <= p0 / p1); [|lra]. apply Rmult_le_reg_r with p1; [assumption|]. unfold Rdiv. rewrite Rmult_assoc, Rinv_l by lra. lra. }
  set (s := p0 / p1 - 1) in *.
  assert (HiT : / T0 <= / Tmin) by (apply Rinv_le_contravar; lra).
  assert (HiTm : 0 < / Tmin) by (apply Rinv_0_lt_compat; lra).
  assert (HiT0 : 0 < / T0) by (apply Rinv_0_lt_compat; lra).
  pose proof (Rabs_pos (T0 - T1)) as HaT. pose proof (Rabs_pos (x0 - x1)) as Hax.
  assert (H1 : Rabs (T0 - T1) / T0 <= LT / Tmin * s).
  { unfold Rdiv. assert (Rabs (T0 - T1) * / T0 <= (LT * s) * / Tmin) by (apply Rmult_le_compat; lra). lra. }
  assert (H2 : (k - 1) * Rabs (x0 - x1) <= (k - 1) * Lx * s).
  { rewrite Rmult_assoc. apply Rmult_le_compat_l; lra. }
  assert (H3 : 0 <= 1 + (k - 1) * Lx + LT / Tmin).
  { assert (0 <= (k - 1) * Lx) by (apply Rmult_le_pos; lra). assert (0 <= LT / Tmin) by (apply Rmult_le_pos; lra). lra. }
  split.
  - apply Rle_trans with ((1 + (k - 1) * Lx + LT / Tmin) * s); [|apply Rmult_le_compat_l; assumption].
    rewrite !Rmult_plus_distr_r. lra.
  - apply Rle_trans with (Lx * s); [assumption|]. apply Rmult_le_compat_l; assumption.
Qed.

Lemma layer_all_smooth Lx LT Tmin d : 0 <= Lx -> 0 <= LT -> 0 < Tmin ->
  forall vmr p T, List.Forall (fun x => 0 < x) p -> decreasing p -> List.Forall (fun t => Tmin <= t) T ->
  layer_all (smooth_layer Lx LT d) vmr p T ->
  layer_all (fun x0 p0 T0 x1 p1 T1 => layer_contrast x0 p0 T0 x1 p1 T1 <= forms_constant Lx LT Tmin * d /\ Rabs (x0 - x1) <= Lx * d) vmr p T.
Proof.
  intros HLx HLT HTm. induction vmr as [|x0 vmr IH]; intros p T Hp Hd HT H; [exact I|].
  destruct vmr as [|x1 vmr]; [destruct p as [|? [|? ?]]; destruct T as [|? [|? ?]]; exact I|].
  destruct p as [|p0 [|p1 p]]; try exact I. destruct T as [|T0 [|T1 T]]; try exact I.
  apply layer_all_cons2 in H. apply layer_all_cons2. destruct H as [H0 H'].
  inversion Hp as [|? ? Hp0 Hp']; subst. inversion Hp' as [|? ? Hp1 _]; subst. inversion HT as [|? ? HT0 HT']; subst.
  apply decreasing_cons2 in Hd. destruct Hd as [H01 Hd'].
  split; [apply (smooth_contrast Lx LT Tmin d); try assumption; lra|apply IH; assumption].
Qed.

Lemma Forall_Tmin_pos Tmin T : 0 < Tmin -> List.Forall (fun t => Tmin <= t) T -> List.Forall (fun t => 0 < t) T.
Proof. intros H HT. eapply Forall_impl; [|exact HT]. intros a Ha. cbv beta in Ha. lra. Qed.

Lemma forms_close_refinement Lx LT Tmin d vmr p T : 0 <= Lx -> 0 <= LT -> 0 < Tmin ->
  length vmr = length p -> length T = length p ->
  List.Forall (fun x => 0 <= x <= 1) vmr -> List.Forall (fun x => 0 < x) p -> decreasing p -> List.Forall (fun t => Tmin <= t) T ->
  layer_all (smooth_layer Lx LT d) vmr p T ->
  let D := iwv_general vmr p T (moist_height vmr p T) - iwv_hydro vmr p in
  Rabs D <= forms_constant Lx LT Tmin * d * iwv_hydro vmr p /\
  Rabs D <= forms_constant Lx LT Tmin * d * (c_molar_mass_dry_air / c_molar_mass_water * (Lx * d)) *
            ((hd 0 p - last p 0) / (2 * c_earth_standard_gravity)).
Proof.
  intros HLx HLT HTm Hlx HlT Hx Hp Hd HT Hs D.
  pose proof (layer_all_smooth Lx LT Tmin d HLx HLT HTm vmr p T Hp Hd HT Hs) as Hc.
  pose proof (Forall_Tmin_pos Tmin T HTm HT) as HT'.
  split.
  - apply forms_close; try assumption. eapply layer_all_weaken; [|exact Hc]. intros ? ? ? ? ? ? [H _]. exact H.
  - apply forms_second_order; assumption.
Qed.

(* ---- the limit under grid refinement *)

Lemma neg_trapz_le_hd : forall ys xs, List.Forall (fun y => 0 <= y <= 1) ys -> List.Forall (fun x => 0 < x) xs -> decreasing xs ->
  - trapz ys xs <= hd 0 xs.
Proof.
  induction ys as [|y0 ys IH]; intros xs Hy Hx Hd.
  - cbn [trapz]. destruct xs; cbn [hd]; [lra|]. inversion Hx; subst. lra.
  - destruct ys as [|y1 ys]; [rewrite trapz_single_l; destruct xs; cbn [hd]; [lra|inversion Hx; subst; lra]|].
    destruct xs as [|x0 [|x1 xs]]; [rewrite trapz_nil_r; cbn [hd]; lra|rewrite trapz_single_r; cbn [hd]; inversion Hx; subst; lra|].
    inversion Hy as [|? ? Hy0 Hy']; subst. inversion Hy' as [|? ? Hy1 _]; subst.
    inversion Hx as [|? ? Hx0 Hx']; subst. apply decreasing_cons2 in Hd. destruct Hd as [H01 Hd'].
    specialize (IH (x1 :: xs) Hy' Hx' Hd'). cbn [hd] in IH |- *. rewrite trapz_cons2. nra.
Qed.

Lemma iwv_hydro_le vmr p : List.Forall (fun x => 0 <= x <= 1) vmr -> List.Forall (fun x => 0 < x) p -> decreasing p ->
  iwv_hydro vmr p <= hd 0 p / c_earth_standard_gravity.
Proof.
  intros Hx Hp Hd. unfold iwv_hydro. pose proof g_pos.
  apply Rmult_le_compat_r; [left; apply Rinv_0_lt_compat; assumption|].
  apply neg_trapz_le_hd; try assumption. apply Forall_map_R. eapply Forall_impl; [|exact Hx].
  intros a Ha. split; [apply q_nonneg, Ha|apply q_le_1, Ha].
Qed.

Lemma sampled_smooth (fx fT : R -> R) Lx LT P d :
  (forall a b, 0 < b -> b <= a -> a <= P -> Rabs (fx a - fx b) <= Lx * (a / b - 1) /\ Rabs (fT a - fT b) <= LT * (a / b - 1)) ->
  forall p, List.Forall (fun a => 0 < a <= P) p -> decreasing p -> List.Forall (fun r => r - 1 <= d) (ratios p) ->
  layer_all (smooth_layer Lx LT d) (map fx p) p (map fT p).
Proof.
  intros HL. induction p as [|p0 p IH]; intros Hp Hd Hr; [exact I|].
  destruct p as [|p1 p]; [exact I|].
  inversion Hp as [|? ? Hp0 Hp']; subst. inversion Hp' as [|? ? Hp1 _]; subst.
  apply decreasing_cons2 in Hd. destruct Hd as [H01 Hd']. rewrite ratios_cons2 in Hr. inversion Hr as [|? ? Hr0 Hr']; subst.
  cbn [map]. apply layer_all_cons2. split; [|apply (IH Hp' Hd' Hr')].
  destruct (HL p0 p1) as [H1 H2]; try lra. unfold smooth_layer. auto.
Qed.

Lemma forms_converge (fx fT : R -> R) (Lx LT Tmin P : R) (grid : nat -> list R) :
  0 <= Lx -> 0 <= LT -> 0 < Tmin -> 0 < P ->
  (forall a b, 0 < b -> b <= a -> a <= P -> Rabs (fx a - fx b) <= Lx * (a / b - 1) /\ Rabs (fT a - fT b) <= LT * (a / b - 1)) ->
  (forall a, 0 < a <= P -> 0 <= fx a <= 1 /\ Tmin <= fT a) ->
  (forall n, decreasing (grid n) /\ List.Forall (fun a => 0 < a <= P) (grid n)) ->
  (forall d, 0 < d -> exists N, forall n, (N <= n)%nat -> List.Forall (fun r => r - 1 <= d) (ratios (grid n))) ->
  Un_cv (fun n => iwv_general (map fx (grid n)) (grid n) (map fT (grid n)) (moist_height (map fx (grid n)) (grid n) (map fT (grid n)))
                  - iwv_hydro (map fx (grid n)) (grid n)) 0.
Proof.
  intros HLx HLT HTm HP HL Hrange Hgrid Hmesh eps Heps.
  pose proof g_pos as Hg. pose proof k_gt_1 as Hk.
  set (C := forms_constant Lx LT Tmin).
  assert (HC : 0 <= C).
  { unfold C, forms_constant. assert (0 <= (c_molar_mass_dry_air / c_molar_mass_water - 1) * Lx) by (apply Rmult_le_pos; lra).
    assert (0 <= LT / Tmin) by (apply Rmult_le_pos; [lra|left; apply Rinv_0_lt_compat; lra]). lra. }
  set (K := C * (P / c_earth_standard_gravity)).
  assert (HPg : 0 < P / c_earth_standard_gravity) by (apply Rdiv_lt_0_compat; lra).
  assert (HK : 0 <= K) by (unfold K; apply Rmult_le_pos; lra).
  set (d := eps / (K + 1)).
  assert (Hd : 0 < d) by (unfold d; apply Rdiv_lt_0_compat; lra).
  destruct (Hmesh d Hd) as [N HN]. exists N. intros n Hn.
  destruct (Hgrid n) as [Hdec Hpos]. pose proof (HN n Hn) as Hr.
  set (p := grid n) in *.
  assert (Hp : List.Forall (fun x => 0 < x) p) by (eapply Forall_impl; [|exact Hpos]; intros a Ha; cbv beta in Ha; lra).
  assert (Hx : List.Forall (fun x => 0 <= x <= 1) (map fx p)).
  { apply Forall_map_R. eapply Forall_impl; [|exact Hpos]. intros a Ha. apply (Hrange a Ha). }
  assert (HT : List.Forall (fun t => Tmin <= t) (map fT p)).
  { apply Forall_map_R. eapply Forall_impl; [|exact Hpos]. intros a Ha. apply (Hrange a Ha). }
  pose proof (sampled_smooth fx fT Lx LT P d HL p Hpos Hdec Hr) as Hs.
  destruct (forms_close_refinement Lx LT Tmin d (map fx p) p (map fT p) HLx HLT HTm (map_length _ _) (map_length _ _) Hx Hp Hdec HT Hs) as [H1 _].
  fold C in H1.
  pose proof (iwv_hydro_le (map fx p) p Hx Hp Hdec) as Hh.
  assert (Hhd : hd 0 p <= P). { destruct p as [|a ?]; cbn [hd]; [lra|]. inversion Hpos; subst. lra. }
  assert (Hh' : iwv_hydro (map fx p) p <= P / c_earth_standard_gravity).
  { eapply Rle_trans; [exact Hh|]. apply Rmult_le_compat_r; [left; apply Rinv_0_lt_compat; lra|exact Hhd]. }
  unfold R_dist. rewrite Rminus_0_r.
  eapply Rle_lt_trans; [exact H1|].
  assert (HCd : 0 <= C * d) by (apply Rmult_le_pos; lra).
  apply Rle_lt_trans with (C * d * (P / c_earth_standard_gravity)); [apply Rmult_le_compat_l; assumption|].
  replace (C * d * (P / c_earth_standard_gravity)) with (K * d) by (unfold K; ring).
  unfold d. apply Rmult_lt_reg_r with (K + 1); [lra|]. unfold Rdiv. rewrite !Rmult_assoc, Rinv_l by lra. nra.
Qed.

(* ---- the virtual temperature is the textbook one (up to the rounding of the two gas constants) *)
Lemma virtual_temperature_textbook x T : 0 <= x <= 1 ->
  let c := c_gas_constant_water_vapor * c_molar_mass_water / (c_gas_constant_dry_air * c_molar_mass_dry_air) in
  virtual_temperature x T = c * (T / (1 - x * (1 - c_molar_mass_water / c_molar_mass_dry_air))) /\ Rabs (c - 1) <= 2 / 10 ^ 16.
Proof.
  intros Hx c. split.
  - unfold c, virtual_temperature. pose proof (moist_factor_ge_1 x Hx) as Hm. unfold moist_factor in *.
    pose proof Md_pos. pose proof Mw_pos. pose proof Rd_pos. pose proof Rv_pos.
    assert (Hden : 1 - x * (1 - c_molar_mass_water / c_molar_mass_dry_air) <> 0).
    { assert (0 < c_molar_mass_water / c_molar_mass_dry_air) by (apply Rdiv_lt_0_compat; lra).
      assert (c_molar_mass_water / c_molar_mass_dry_air < 1).
      { apply Rmult_lt_reg_r with c_molar_mass_dry_air; [lra|]. unfold Rdiv. rewrite Rmult_assoc, Rinv_l by lra.
        unfold c_molar_mass_water, c_molar_mass_dry_air. lra. }
      nra. }
    field. repeat split; try lra.
    intros Habs. apply Hden. apply Rmult_eq_reg_r with c_molar_mass_dry_air; [|lra]. rewrite Rmult_0_l. rewrite <- Habs. field. lra.
  - unfold c, c_gas_constant_water_vapor, c_molar_mass_water, c_gas_constant_dry_air, c_molar_mass_dry_air. apply Rabs_le. split; lra.
Qed.

(* ---- witnesses *)

Ltac fa := repeat first [apply Forall_nil | apply Forall_cons | split].


Lemma geom_unfold a r k : exists l, geom a r k = a :: l.
Proof. destruct k; eexists; reflexivity. Qed.

Lemma geom_props r P : 1 < r -> forall k a, 0 < a -> a <= P ->
  decreasing (geom a r k) /\ List.Forall (fun b => 0 < b <= P) (geom a r k) /\ List.Forall (fun s => s = r) (ratios (geom a r k)) /\
  length (geom a r k) = S k.
Proof.
  intros Hr. induction k as [|k IH]; intros a Ha HaP.
  - cbn [geom decreasing ratios length]. fa; lra.
  - assert (Har : 0 < a / r) by (apply Rdiv_lt_0_compat; lra).
    assert (Hlt : a / r < a).
    { apply Rmult_lt_reg_r with r; [lra|]. unfold Rdiv. rewrite Rmult_assoc, Rinv_l by lra. nra. }
    destruct (IH (a / r) Har ltac:(lra)) as [I1 [I2 [I3 I4]]].
    cbn [geom]. destruct (geom_unfold (a / r) r k) as [l El]. rewrite El in *.
    rewrite ratios_cons2. cbn [length] in *. repeat split.
    + exact Hlt.
    + exact I1.
    + constructor; [lra|exact I2].
    + constructor; [field; lra|exact I3].
    + rewrite I4. reflexivity.
Qed.

(* a three-level column (1000, 700, 400 hPa) meets the hypotheses of the closeness theorems with contrast 0.9 *)
Lemma nonvacuous_forms_witness :
  let vmr := [0.02; 0.01; 0.001] in let p := [100000; 70000; 40000] in let T := [290; 270; 240] in
  length vmr = length p /\ length T = length p /\ List.Forall (fun x => 0 <= x <= 1) vmr /\ List.Forall (fun x => 0 < x) p /\
  decreasing p /\ List.Forall (fun x => 0 < x) T /\ List.Forall (fun t => 200 <= t) T /\
  layer_all (fun x0 p0 T0 x1 p1 T1 => layer_contrast x0 p0 T0 x1 p1 T1 <= 0.9 /\ Rabs (x0 - x1) <= 0.011) vmr p T /\
  layer_all (smooth_layer 0.03 80 0.75) vmr p T /\
  0 < iwv_hydro vmr p.
Proof.
  cbn [length decreasing layer_all]. unfold smooth_layer, layer_contrast, c_molar_mass_dry_air, c_molar_mass_water.
  fa; try lra; try interval.
  unfold iwv_hydro. cbn [map trapz]. unfold vmr2specific_humidity, c_earth_standard_gravity, c_molar_mass_dry_air, c_molar_mass_water.
  cbv zeta. interval.
Qed.

(* the pressure step alone does not control the difference: two levels 1 % apart in pressure, the lower one warm and
   moist, the upper one cold and dry -- the general form lies more than a quarter below the hydrostatic form *)
Lemma pressure_step_alone_witness :
  let vmr := [0.04; 0] in let p := [100000; 99000] in let T := [330; 180] in
  List.Forall (fun r => r - 1 <= 0.0102) (ratios p) /\ 0 < iwv_hydro vmr p /\
  iwv_general vmr p T (moist_height vmr p T) - iwv_hydro vmr p <= - (1 / 4) * iwv_hydro vmr p.
Proof.
  cbv zeta. split; [cbn [ratios]; fa; lra|].
  rewrite forms_identity; try reflexivity; try (fa; lra).
  unfold iwv_hydro. cbn [map trapz layer_map rsum].
  unfold layer_defect, moist_density, density, virtual_temperature, moist_factor, vmr2specific_humidity,
    c_earth_standard_gravity, c_molar_mass_dry_air, c_molar_mass_water, c_gas_constant_water_vapor, c_gas_constant_dry_air.
  cbv zeta. split; interval.
Qed.

(* a family of grids and profiles that meets the hypotheses of the limit theorem: n + 2 levels from 1000 hPa with the
   constant ratio 1 + 1 / (n + 1), vmr and T linear in p *)
Lemma nonvacuous_converge_witness :
  let fx := fun a => 0.02 * (a / 100000) in let fT := fun a => 200 + 90 * (a / 100000) in
  (forall a b, 0 < b -> b <= a -> a <= 100000 -> Rabs (fx a - fx b) <= 0.02 * (a / b - 1) /\ Rabs (fT a - fT b) <= 90 * (a / b - 1)) /\
  (forall a, 0 < a <= 100000 -> 0 <= fx a <= 1 /\ 200 <= fT a) /\
  (forall n, decreasing (witness_grid n) /\ List.Forall (fun a => 0 < a <= 100000) (witness_grid n)) /\
  (forall d, 0 < d -> exists N, forall n, (N <= n)%nat -> List.Forall (fun r => r - 1 <= d) (ratios (witness_grid n))) /\
  (forall n, length (witness_grid n) = S (S n)).
Proof.
  cbv zeta.
  assert (Hr : forall n, 1 < 1 + / INR (S n)).
  { intros n. assert (0 < / INR (S n)) by (apply Rinv_0_lt_compat, lt_0_INR; lia). lra. }
  split; [|split; [|split; [|split]]].
  - intros a b Hb Hba HaP.
    assert (Hs : 0 <= a / b - 1).
    { assert (1 <= a / b); [|lra]. apply Rmult_le_reg_r with b; [assumption|]. unfold Rdiv. rewrite Rmult_assoc, Rinv_l by lra. lra. }
    assert (Hk : (a - b) / 100000 <= a / b - 1).
    { replace (a / b - 1) with ((a - b) / b) by (field; lra). unfold Rdiv. apply Rmult_le_compat_l; [lra|].
      apply Rinv_le_contravar; lra. }
    assert (H0 : 0 <= (a - b) / 100000) by (apply Rmult_le_pos; lra).
    split.
    + replace (0.02 * (a / 100000) - 0.02 * (b / 100000)) with (0.02 * ((a - b) / 100000)) by field.
      rewrite Rabs_pos_eq by lra. lra.
    + replace (200 + 90 * (a / 100000) - (200 + 90 * (b / 100000))) with (90 * ((a - b) / 100000)) by field.
      rewrite Rabs_pos_eq by lra. lra.
  - intros a Ha. assert (0 < a / 100000 <= 1).
    { split; [apply Rdiv_lt_0_compat; lra|]. apply Rmult_le_reg_r with 100000; [lra|]. unfold Rdiv. rewrite Rmult_assoc, Rinv_l by lra. lra. }
    lra.
  - intros n. destruct (geom_props (1 + / INR (S n)) 100000 (Hr n) (S n) 100000 ltac:(lra) ltac:(lra)) as [H1 [H2 _]].
    split; assumption.
  - intros d Hd. destruct (archimed_cor1 d Hd) as [N [HN HN0]]. exists N. intros n Hn.
    destruct (geom_props (1 + / INR (S n)) 100000 (Hr n) (S n) 100000 ltac:(lra) ltac:(lra)) as [_ [_ [H3 _]]].
    eapply Forall_impl; [|exact H3]. intros s Hs. cbv beta in Hs. subst s.
    assert (/ INR (S n) <= / INR N).
    { apply Rinv_le_contravar; [apply lt_0_INR; lia|apply le_INR; lia]. }
    lra.
  - intros n. apply (geom_props (1 + / INR (S n)) 100000 (Hr n) (S n) 100000); lra.
Qed.
