(* C07 -- geodesy: lemmas about the definitions GENERATED from typhon/geodesy.py (coq/gen/geodesy.v) and about the
   hand-written part of the model (Model/C07_geodesy.v).  Real analysis; standard-library real axioms only.
   Sections: atan2 by cases / canonical forms of the generated closed forms + spherical <-> cartesian / distances (via
   Proofs/C06_metric) / ellipsoid radii / geodetic <-> cartesian (fixed point of the iteration map) / position + line
   of sight / chord triangle / ellipsoid table / spherical triangle inequality. *)
From Coq Require Import Reals Lra Nsatz.
From Typhon Require Import Base.RealAux Model.C07_geodesy.
From TyphonGen Require Import geodesy.
From Typhon Require Import Proofs.C06_metric.
Open Scope R_scope.

(* ---- atan2 by cases *)
Lemma atan2_px y x : 0 < x -> atan2 y x = atan (y / x).
Proof. intros H. unfold atan2. destruct (Rlt_dec 0 x); [reflexivity|contradiction]. Qed.
Lemma atan2_nx_py y x : x < 0 -> 0 <= y -> atan2 y x = atan (y / x) + PI.
Proof. intros H Hy. unfold atan2. destruct (Rlt_dec 0 x); [lra|]. destruct (Rlt_dec x 0); [|contradiction].
  destruct (Rle_dec 0 y); [reflexivity|contradiction]. Qed.
Lemma atan2_nx_ny y x : x < 0 -> y < 0 -> atan2 y x = atan (y / x) - PI.
Proof. intros H Hy. unfold atan2. destruct (Rlt_dec 0 x); [lra|]. destruct (Rlt_dec x 0); [|contradiction].
  destruct (Rle_dec 0 y); [lra|reflexivity]. Qed.
Lemma atan2_zx_py y : 0 < y -> atan2 y 0 = PI / 2.
Proof. intros Hy. unfold atan2. destruct (Rlt_dec 0 0); [lra|]. destruct (Rlt_dec 0 y); [reflexivity|contradiction]. Qed.
Lemma atan2_zx_ny y : y < 0 -> atan2 y 0 = - (PI / 2).
Proof. intros Hy. unfold atan2. destruct (Rlt_dec 0 0); [lra|]. destruct (Rlt_dec 0 y); [lra|].
  destruct (Rlt_dec y 0); [reflexivity|contradiction]. Qed.
Lemma atan2_00 : atan2 0 0 = 0.
Proof. unfold atan2. destruct (Rlt_dec 0 0); [lra|]. reflexivity. Qed.

Lemma tan_shift_PI t : cos t <> 0 -> tan (t + PI) = tan t.
Proof. intros H. unfold tan. rewrite neg_sin, neg_cos. field. exact H. Qed.
Lemma tan_shift_mPI t : cos t <> 0 -> tan (t - PI) = tan t.
Proof. intros H. unfold tan. unfold Rminus. rewrite sin_plus, cos_plus, sin_neg, cos_neg, sin_PI, cos_PI. field. exact H. Qed.

(* polar form: atan2 (rho sin t) (rho cos t) = t on (-PI, PI] *)
Lemma atan2_polar rho t : 0 < rho -> - PI < t <= PI -> atan2 (rho * sin t) (rho * cos t) = t.
Proof.
  intros Hr [Hlo Hhi]. pose proof PI_RGT_0 as Hpi.
  assert (Q : forall c, c <> 0 -> rho * sin t / (rho * c) = sin t / c) by (intros c Hc; field; split; lra).
  destruct (Rlt_or_le t (- (PI / 2))) as [A|A].
  { (* third quadrant *)
    assert (C : cos t < 0).
    { rewrite <- (cos_neg t). apply cos_lt_0; lra. }
    assert (S : sin t < 0) by (apply sin_lt_0_var; lra).
    rewrite atan2_nx_ny by nra. rewrite Q by lra. change (sin t / cos t) with (tan t).
    rewrite <- (tan_shift_PI t) by lra. rewrite atan_tan by lra. lra. }
  destruct (Req_dec t (- (PI / 2))) as [E|NE].
  { subst t. rewrite cos_neg, sin_neg, cos_PI2, sin_PI2. replace (rho * 0) with 0 by ring.
    rewrite atan2_zx_ny by lra. reflexivity. }
  destruct (Rlt_or_le t (PI / 2)) as [B|B].
  { assert (C : 0 < cos t) by (apply cos_gt_0; lra).
    rewrite atan2_px by nra. rewrite Q by lra. change (sin t / cos t) with (tan t). apply atan_tan. lra. }
  destruct (Req_dec t (PI / 2)) as [E|NE2].
  { subst t. rewrite cos_PI2, sin_PI2. replace (rho * 0) with 0 by ring. rewrite atan2_zx_py by lra. reflexivity. }
  assert (C : cos t < 0) by (apply cos_lt_0; lra).
  assert (S : 0 <= sin t) by (apply sin_ge_0; lra).
  rewrite atan2_nx_py by nra. rewrite Q by lra. change (sin t / cos t) with (tan t).
  rewrite <- (tan_shift_mPI t) by lra. rewrite atan_tan by lra. lra.
Qed.

(* cartesian form: the angle atan2 y x points at (x, y) *)
Lemma sqrt_1_sq_div y x : x <> 0 -> sqrt (1 + (y / x)²) = sqrt (x ^ 2 + y ^ 2) / Rabs x.
Proof.
  intros Hx. unfold Rsqr.
  replace (1 + y / x * (y / x)) with ((x ^ 2 + y ^ 2) / (x * x)) by (field; exact Hx).
  rewrite sqrt_div_alt by nra. f_equal. replace (x * x) with (x²) by reflexivity. apply sqrt_Rsqr_abs.
Qed.

Lemma atan2_cartesian x y : x ^ 2 + y ^ 2 <> 0 ->
  hypot x y * cos (atan2 y x) = x /\ hypot x y * sin (atan2 y x) = y.
Proof.
  intros Hn. unfold hypot. pose proof PI_RGT_0 as Hpi.
  assert (Hs : 0 < sqrt (x ^ 2 + y ^ 2)) by (apply sqrt_lt_R0; nra).
  destruct (Rtotal_order 0 x) as [Px|[Zx|Nx]].
  - rewrite atan2_px by exact Px. rewrite cos_atan, sin_atan, sqrt_1_sq_div by lra.
    rewrite Rabs_pos_eq by lra. split; field; lra.
  - subst x. destruct (Rtotal_order 0 y) as [Py|[Zy|Ny]].
    + rewrite atan2_zx_py by exact Py. rewrite cos_PI2, sin_PI2.
      replace (0 ^ 2 + y ^ 2) with (y * y) by ring. rewrite sqrt_square by lra. lra.
    + subst y. exfalso. apply Hn. ring.
    + rewrite atan2_zx_ny by exact Ny. rewrite cos_neg, sin_neg, cos_PI2, sin_PI2.
      replace (0 ^ 2 + y ^ 2) with ((- y) * (- y)) by ring. rewrite sqrt_square by lra. lra.
  - assert (A : Rabs x = - x) by (apply Rabs_left; exact Nx).
    destruct (Rle_or_lt 0 y) as [Py|Ny].
    + rewrite atan2_nx_py by assumption. rewrite neg_cos, neg_sin, cos_atan, sin_atan, sqrt_1_sq_div by lra.
      rewrite A. split; field; lra.
    + rewrite atan2_nx_ny by assumption. unfold Rminus. rewrite cos_plus, sin_plus, cos_neg, sin_neg, cos_PI, sin_PI.
      rewrite cos_atan, sin_atan, sqrt_1_sq_div by lra. rewrite A. split; field; lra.
Qed.
(* ---- spherical <-> cartesian *)
Lemma deg_rad_range d lo hi : lo < d < hi -> lo * PI / 180 < d * PI / 180 < hi * PI / 180.
Proof.
  intros [A B]. pose proof PI_RGT_0 as Hpi.
  assert (lo * PI < d * PI) by (apply Rmult_lt_compat_r; lra).
  assert (d * PI < hi * PI) by (apply Rmult_lt_compat_r; lra). lra.
Qed.

Lemma sph_norm r phi lam :
  (r * cos phi * cos lam) ^ 2 + (r * cos phi * sin lam) ^ 2 + (r * sin phi) ^ 2 = r * r.
Proof.
  pose proof (sin2_cos2 phi) as E1. pose proof (sin2_cos2 lam) as E2. unfold Rsqr in E1, E2.
  remember (sin phi) as s1. remember (cos phi) as c1. remember (sin lam) as s2. remember (cos lam) as c2.
  replace ((r * c1 * c2) ^ 2 + (r * c1 * s2) ^ 2 + (r * s1) ^ 2)
    with (r * r * (c1 * c1 * (s2 * s2 + c2 * c2) + s1 * s1)) by ring.
  rewrite E2. replace (c1 * c1 * 1 + s1 * s1) with (s1 * s1 + c1 * c1) by ring. rewrite E1. ring.
Qed.

(* canonical forms of the generated closed forms: proved by congruence + ring, so that re-associated / commuted /
   renamed arithmetic in the source leaves every later proof untouched *)
Ltac shape := cbv zeta; repeat (apply (f_equal2 (@pair _ _))); try ring; repeat (f_equal; try ring).

Lemma geocentric2cart_spec r lat lon :
  geocentric2cart r lat lon =
  (r * cos (lat * PI / 180) * cos (lon * PI / 180), r * cos (lat * PI / 180) * sin (lon * PI / 180), r * sin (lat * PI / 180)).
Proof. unfold geocentric2cart. shape. Qed.

Lemma geodetic2cart_spec h lat lon a e :
  geodetic2cart h lat lon a e =
  let N := a / sqrt (1 - e ^ 2 * sind lat ^ 2) in
  ((N + h) * cosd lat * cosd lon, (N + h) * cosd lat * sind lon, (N * (1 - e ^ 2) + h) * sind lat).
Proof. unfold geodetic2cart. shape. Qed.

Lemma cart2geocentric_spec x y z :
  cart2geocentric x y z =
  (sqrt (x ^ 2 + y ^ 2 + z ^ 2), asin (z / sqrt (x ^ 2 + y ^ 2 + z ^ 2)) * 180 / PI, atan2 y x * 180 / PI).
Proof. unfold cart2geocentric. shape. Qed.

Lemma ellipsoid_r_geocentric_spec a e lat :
  ellipsoid_r_geocentric a e lat =
  if Req_EM_T e 0 then a else a * sqrt (1 - e ^ 2) / sqrt ((1 - e ^ 2) * cosd lat ^ 2 + sind lat ^ 2).
Proof. unfold ellipsoid_r_geocentric. destruct (Req_EM_T e 0); shape. Qed.

Lemma ellipsoid_r_geodetic_spec a e lat :
  ellipsoid_r_geodetic a e lat =
  if Req_EM_T e 0 then a
  else a * sqrt ((1 - e ^ 2) ^ 2 * sind lat ^ 2 + cosd lat ^ 2) / sqrt (1 - e ^ 2 * sind lat ^ 2).
Proof. unfold ellipsoid_r_geodetic. destruct (Req_EM_T e 0); shape. Qed.

Lemma sph_cart_sph r lat lon : 0 < r -> -90 < lat < 90 -> -180 < lon <= 180 ->
  (let '(x, y, z) := geocentric2cart r lat lon in cart2geocentric x y z) = (r, lat, lon).
Proof.
  intros Hr Hlat Hlon. pose proof PI_RGT_0 as Hpi.
  rewrite geocentric2cart_spec. cbv beta iota zeta. rewrite cart2geocentric_spec.
  set (phi := lat * PI / 180). set (lam := lon * PI / 180).
  assert (Hphi : - (PI / 2) < phi < PI / 2).
  { destruct (deg_rad_range lat (-90) 90 Hlat) as [A B]. unfold phi. lra. }
  assert (Hlam : - PI < lam <= PI).
  { unfold lam. destruct Hlon as [A B].
    assert (-180 * PI < lon * PI) by (apply Rmult_lt_compat_r; lra).
    assert (lon * PI <= 180 * PI) by (apply Rmult_le_compat_r; lra). lra. }
  assert (Hc : 0 < cos phi) by (apply cos_gt_0; lra).
  replace ((r * cos phi * cos lam) ^ 2 + (r * cos phi * sin lam) ^ 2 + (r * sin phi) ^ 2) with (r * r)
    by (symmetry; apply sph_norm).
  rewrite sqrt_square by lra.
  replace (r * sin phi / r) with (sin phi) by (field; lra).
  rewrite asin_sin by lra.
  replace (r * cos phi * sin lam) with ((r * cos phi) * sin lam) by ring.
  replace (r * cos phi * cos lam) with ((r * cos phi) * cos lam) by ring.
  rewrite atan2_polar by (try exact Hlam; nra).
  unfold phi, lam. f_equal; [f_equal|]; field; lra.
Qed.
Lemma hypot_cos_sin x y : hypot x y * cos (atan2 y x) = x /\ hypot x y * sin (atan2 y x) = y.
Proof.
  destruct (Req_dec (x ^ 2 + y ^ 2) 0) as [Z|NZ]; [|apply atan2_cartesian; exact NZ].
  assert (x = 0) by nra. assert (y = 0) by nra. subst x y.
  unfold hypot. replace (0 ^ 2 + 0 ^ 2) with 0 by ring. rewrite sqrt_0. lra.
Qed.

Lemma cart_sph_cart x y z : x ^ 2 + y ^ 2 + z ^ 2 <> 0 ->
  (let '(r, lat, lon) := cart2geocentric x y z in geocentric2cart r lat lon) = (x, y, z).
Proof.
  intros Hn. pose proof PI_RGT_0 as Hpi.
  rewrite cart2geocentric_spec. cbv beta iota zeta. rewrite geocentric2cart_spec.
  set (r := sqrt (x ^ 2 + y ^ 2 + z ^ 2)).
  assert (Hr : 0 < r) by (apply sqrt_lt_R0; nra).
  assert (Hrr : r * r = x ^ 2 + y ^ 2 + z ^ 2) by (apply sqrt_sqrt; nra).
  replace (asin (z / r) * 180 / PI * PI / 180) with (asin (z / r)) by (field; lra).
  replace (atan2 y x * 180 / PI * PI / 180) with (atan2 y x) by (field; lra).
  assert (Hz : -1 <= z / r <= 1).
  { assert (z * z <= r * r) by nra.
    assert (- r <= z <= r) by (split; nra).
    split; [apply Rmult_le_reg_r with r|apply Rmult_le_reg_r with r]; try lra; unfold Rdiv; rewrite Rmult_assoc, Rinv_l by lra; lra. }
  rewrite cos_asin, sin_asin by lra.
  assert (Hc : r * sqrt (1 - (z / r)²) = hypot x y).
  { unfold hypot. rewrite <- (sqrt_square r) at 1 by lra. rewrite <- sqrt_mult_alt by nra. f_equal.
    unfold Rsqr. replace (r * r * (1 - z / r * (z / r))) with (r * r - z * z) by (field; lra). rewrite Hrr. ring. }
  rewrite Hc. destruct (hypot_cos_sin x y) as [Ex Ey]. rewrite Ex, Ey. f_equal. field. lra.
Qed.
(* ---- distances: bridge to the C06 metric lemmas (radians) *)
Definition rad (d : R) : R := d * PI / 180.

Lemma tunnel_is_chord Re lat1 lon1 lat2 lon2 :
  tunnel Re lat1 lon1 lat2 lon2 = chord Re (rad lat1) (rad lon1) (rad lat2) (rad lon2).
Proof.
  unfold tunnel. rewrite !geocentric2cart_spec. unfold chord, chord2, cx, cy, cz, rad. cbv beta iota zeta. f_equal. ring.
Qed.

Lemma gcd_r_is_angle lat1 lon1 lat2 lon2 r :
  great_circle_distance_r lat1 lon1 lat2 lon2 r = r * angle (rad lat1) (rad lon1) (rad lat2) (rad lon2).
Proof. unfold great_circle_distance_r, angle, hav, rad. shape. Qed.

Lemma gcd_deg_is_angle lat1 lon1 lat2 lon2 :
  great_circle_distance_deg lat1 lon1 lat2 lon2 = angle (rad lat1) (rad lon1) (rad lat2) (rad lon2) * 180 / PI.
Proof. unfold great_circle_distance_deg, angle, hav, rad. shape. Qed.

Lemma chord_arc Re lat1 lon1 lat2 lon2 : 0 < Re ->
  tunnel Re lat1 lon1 lat2 lon2 = 2 * Re * sin (great_circle_distance_r lat1 lon1 lat2 lon2 Re / (2 * Re)).
Proof.
  intros HR. rewrite tunnel_is_chord, gcd_r_is_angle, (chord_of_angle _ _ _ _ _ HR).
  f_equal. f_equal. field. lra.
Qed.

Lemma chord_arc_deg Re lat1 lon1 lat2 lon2 : 0 < Re ->
  tunnel Re lat1 lon1 lat2 lon2 = 2 * Re * sin (great_circle_distance_deg lat1 lon1 lat2 lon2 * PI / 180 / 2).
Proof.
  intros HR. pose proof PI_RGT_0. rewrite tunnel_is_chord, gcd_deg_is_angle, (chord_of_angle _ _ _ _ _ HR).
  f_equal. f_equal. field. lra.
Qed.

Lemma hav_sym lat1 lon1 lat2 lon2 : hav lat1 lon1 lat2 lon2 = hav lat2 lon2 lat1 lon1.
Proof.
  unfold hav.
  replace ((lat1 - lat2) / 2) with (- ((lat2 - lat1) / 2)) by field.
  replace ((lon1 - lon2) / 2) with (- ((lon2 - lon1) / 2)) by field.
  rewrite !sin_neg. ring.
Qed.

Lemma gcd_sym lat1 lon1 lat2 lon2 r :
  great_circle_distance_r lat1 lon1 lat2 lon2 r = great_circle_distance_r lat2 lon2 lat1 lon1 r /\
  great_circle_distance_deg lat1 lon1 lat2 lon2 = great_circle_distance_deg lat2 lon2 lat1 lon1.
Proof. rewrite !gcd_r_is_angle, !gcd_deg_is_angle. unfold angle. rewrite hav_sym. split; reflexivity. Qed.

Lemma tunnel_sym Re lat1 lon1 lat2 lon2 : tunnel Re lat1 lon1 lat2 lon2 = tunnel Re lat2 lon2 lat1 lon1.
Proof. rewrite !tunnel_is_chord. unfold chord, chord2. f_equal. ring. Qed.

Lemma asin_0' : asin 0 = 0.
Proof. rewrite <- sin_0 at 1. apply asin_sin. pose proof PI_RGT_0. lra. Qed.

Lemma gcd_self lat lon r :
  great_circle_distance_r lat lon lat lon r = 0 /\ great_circle_distance_deg lat lon lat lon = 0.
Proof.
  rewrite gcd_r_is_angle, gcd_deg_is_angle. unfold angle, hav.
  replace ((rad lat - rad lat) / 2) with 0 by field. replace ((rad lon - rad lon) / 2) with 0 by field.
  rewrite sin_0. replace (0 ^ 2 + cos (rad lat) * cos (rad lat) * 0 ^ 2) with 0 by ring.
  rewrite sqrt_0, asin_0'. pose proof PI_RGT_0. split; [ring|field; lra].
Qed.

Lemma tunnel_self Re lat lon : tunnel Re lat lon lat lon = 0.
Proof.
  rewrite tunnel_is_chord. unfold chord, chord2.
  replace ((cx Re (rad lat) (rad lon) - cx Re (rad lat) (rad lon)) ^ 2 + (cy Re (rad lat) (rad lon) - cy Re (rad lat) (rad lon)) ^ 2 +
           (cz Re (rad lat) - cz Re (rad lat)) ^ 2) with 0 by ring.
  apply sqrt_0.
Qed.

Lemma gcd_bounds lat1 lon1 lat2 lon2 r : 0 < r ->
  0 <= great_circle_distance_r lat1 lon1 lat2 lon2 r <= PI * r /\
  0 <= great_circle_distance_deg lat1 lon1 lat2 lon2 <= 180.
Proof.
  intros Hr. pose proof PI_RGT_0 as Hpi. rewrite gcd_r_is_angle, gcd_deg_is_angle.
  destruct (angle_range r (rad lat1) (rad lon1) (rad lat2) (rad lon2) Hr) as [A0 A1].
  set (g := angle (rad lat1) (rad lon1) (rad lat2) (rad lon2)) in *.
  split; split.
  - apply Rmult_le_pos; lra.
  - rewrite (Rmult_comm PI r). apply Rmult_le_compat_l; lra.
  - apply Rmult_le_reg_r with (PI / 180); [lra|]. field_simplify; lra.
  - apply Rmult_le_reg_r with (PI / 180); [lra|]. field_simplify; lra.
Qed.

Lemma tunnel_bounds Re lat1 lon1 lat2 lon2 : 0 < Re -> 0 <= tunnel Re lat1 lon1 lat2 lon2 <= 2 * Re.
Proof.
  intros HR. rewrite tunnel_is_chord. unfold chord. split; [apply sqrt_pos|].
  rewrite <- (sqrt_square (2 * Re)) by lra. apply sqrt_le_1_alt.
  pose proof (chord2_le Re (rad lat1) (rad lon1) (rad lat2) (rad lon2)). lra.
Qed.

Lemma lon_shift lat1 lon1 lat2 lon2 s r Re :
  great_circle_distance_r lat1 (lon1 + s) lat2 (lon2 + s) r = great_circle_distance_r lat1 lon1 lat2 lon2 r /\
  great_circle_distance_deg lat1 (lon1 + s) lat2 (lon2 + s) = great_circle_distance_deg lat1 lon1 lat2 lon2 /\
  tunnel Re lat1 (lon1 + s) lat2 (lon2 + s) = tunnel Re lat1 lon1 lat2 lon2.
Proof.
  assert (H : hav (rad lat1) (rad (lon1 + s)) (rad lat2) (rad (lon2 + s)) = hav (rad lat1) (rad lon1) (rad lat2) (rad lon2)).
  { unfold hav, rad. replace (((lon2 + s) * PI / 180 - (lon1 + s) * PI / 180) / 2) with ((lon2 * PI / 180 - lon1 * PI / 180) / 2) by field.
    reflexivity. }
  rewrite !gcd_r_is_angle, !gcd_deg_is_angle, !tunnel_is_chord. unfold angle, chord. rewrite !chord2_hav, H. repeat split; reflexivity.
Qed.
(* ---- ellipsoid radii *)
Lemma sincos_d x : sind x ^ 2 + cosd x ^ 2 = 1.
Proof. unfold sind, cosd. pose proof (sin2_cos2 (x * PI / 180)) as H. unfold Rsqr in H. lra. Qed.

Lemma W_pos e s : 0 <= e < 1 -> -1 <= s <= 1 -> 0 < 1 - e ^ 2 * s ^ 2.
Proof. intros He Hs. assert (e ^ 2 < 1) by nra. assert (0 <= s ^ 2 <= 1) by nra. assert (0 <= e ^ 2) by nra. nra. Qed.

Lemma sind_range x : -1 <= sind x <= 1.
Proof. unfold sind. pose proof (SIN_bound (x * PI / 180)). lra. Qed.

Lemma on_ellipsoid_radius a e lat lon : 0 < a -> 0 <= e < 1 ->
  (let '(x, y, z) := geodetic2cart 0 lat lon a e in sqrt (x ^ 2 + y ^ 2 + z ^ 2)) = ellipsoid_r_geodetic a e lat.
Proof.
  intros Ha He. rewrite geodetic2cart_spec, ellipsoid_r_geodetic_spec. cbv beta iota zeta.
  pose proof (sincos_d lat) as E1. pose proof (sincos_d lon) as E2. pose proof (sind_range lat) as Hs.
  pose proof (W_pos e (sind lat) He Hs) as HW.
  set (s := sind lat) in *. set (c := cosd lat) in *. set (sl := sind lon) in *. set (cl := cosd lon) in *.
  set (W := sqrt (1 - e ^ 2 * s ^ 2)).
  assert (HWp : 0 < W) by (apply sqrt_lt_R0; exact HW).
  assert (HWW : W * W = 1 - e ^ 2 * s ^ 2) by (apply sqrt_sqrt; lra).
  set (Q := (1 - e ^ 2) ^ 2 * s ^ 2 + c ^ 2).
  assert (HQ : 0 <= Q) by (unfold Q; nra).
  assert (Hsum : ((a / W + 0) * c * cl) ^ 2 + ((a / W + 0) * c * sl) ^ 2 + ((a / W * (1 - e ^ 2) + 0) * s) ^ 2
                 = (a / W) * (a / W) * Q).
  { unfold Q. replace (((a / W + 0) * c * cl) ^ 2 + ((a / W + 0) * c * sl) ^ 2)
      with ((a / W) * (a / W) * (c * c) * (sl ^ 2 + cl ^ 2)) by ring. rewrite E2. ring. }
  rewrite Hsum.
  assert (Hgen : sqrt (a / W * (a / W) * Q) = a * sqrt Q / W).
  { rewrite sqrt_mult_alt by (apply Rmult_le_pos; apply Rlt_le; apply Rdiv_lt_0_compat; lra).
    rewrite sqrt_square by (apply Rlt_le; apply Rdiv_lt_0_compat; lra). field. lra. }
  rewrite Hgen.
  destruct (Req_EM_T e 0) as [Z|NZ]; [|reflexivity].
  subst e. unfold Q, W. replace (1 - 0 ^ 2 * s ^ 2) with 1 by ring.
  replace ((1 - 0 ^ 2) ^ 2 * s ^ 2 + c ^ 2) with 1 by lra. rewrite sqrt_1. field.
Qed.

(* the surface point lies on the ellipsoid x^2/a^2 + y^2/a^2 + z^2/b^2 = 1 with b^2 = a^2 (1 - e^2) *)
Lemma surface_on_ellipsoid a e lat lon : 0 < a -> 0 <= e < 1 ->
  let '(x, y, z) := geodetic2cart 0 lat lon a e in
  (x ^ 2 + y ^ 2) * (1 - e ^ 2) + z ^ 2 = a ^ 2 * (1 - e ^ 2).
Proof.
  intros Ha He. rewrite geodetic2cart_spec. cbv beta iota zeta.
  pose proof (sincos_d lat) as E1. pose proof (sincos_d lon) as E2. pose proof (sind_range lat) as Hs.
  pose proof (W_pos e (sind lat) He Hs) as HW.
  set (s := sind lat) in *. set (c := cosd lat) in *. set (sl := sind lon) in *. set (cl := cosd lon) in *.
  set (W := sqrt (1 - e ^ 2 * s ^ 2)).
  assert (HWp : 0 < W) by (apply sqrt_lt_R0; exact HW).
  assert (HWW : W * W = 1 - e ^ 2 * s ^ 2) by (apply sqrt_sqrt; lra).
  replace (((a / W + 0) * c * cl) ^ 2 + ((a / W + 0) * c * sl) ^ 2)
    with ((a / W) * (a / W) * (c * c) * (sl ^ 2 + cl ^ 2)) by ring. rewrite E2.
  replace (a / W * (a / W)) with (a * a / (W * W)) by (field; lra). rewrite HWW.
  replace (c * c) with (1 - s ^ 2) by lra.
  replace (((a / W * (1 - e ^ 2) + 0) * s) ^ 2) with (a * a / (W * W) * (1 - e ^ 2) ^ 2 * s ^ 2) by (field; lra).
  rewrite HWW. field. lra.
Qed.

(* ellipsoid_r_geocentric satisfies the ellipse equation in the meridian plane *)
Lemma geocentric_radius_on_ellipse a e lat : 0 < a -> 0 <= e < 1 ->
  let r := ellipsoid_r_geocentric a e lat in
  0 < r /\ (r * cosd lat) ^ 2 * (1 - e ^ 2) + (r * sind lat) ^ 2 = a ^ 2 * (1 - e ^ 2).
Proof.
  intros Ha He. cbv zeta. rewrite ellipsoid_r_geocentric_spec. pose proof (sincos_d lat) as E1.
  destruct (Req_EM_T e 0) as [Z|NZ].
  - subst e. cbv zeta. split; [lra|]. replace (1 - 0 ^ 2) with 1 by ring.
    replace ((a * cosd lat) ^ 2 * 1 + (a * sind lat) ^ 2) with (a ^ 2 * (sind lat ^ 2 + cosd lat ^ 2)) by ring.
    rewrite E1. ring.
  - cbv zeta. set (s := sind lat) in *. set (c := cosd lat) in *.
    assert (Hc : 0 < 1 - e ^ 2) by nra.
    set (k := 1 - e ^ 2) in *.
    assert (HD : 0 < k * c ^ 2 + s ^ 2) by nra.
    set (D := sqrt (k * c ^ 2 + s ^ 2)).
    assert (HDp : 0 < D) by (apply sqrt_lt_R0; exact HD).
    assert (HDD : D * D = k * c ^ 2 + s ^ 2) by (apply sqrt_sqrt; lra).
    assert (Hk : sqrt k * sqrt k = k) by (apply sqrt_sqrt; lra).
    assert (Hkp : 0 < sqrt k) by (apply sqrt_lt_R0; exact Hc).
    split.
    + apply Rdiv_lt_0_compat; [apply Rmult_lt_0_compat; lra|lra].
    + replace ((a * sqrt k / D * c) ^ 2 * k + (a * sqrt k / D * s) ^ 2)
        with (a ^ 2 * (sqrt k * sqrt k) * (k * c ^ 2 + s ^ 2) / (D * D)) by (field; lra).
      rewrite HDD, Hk. field. lra.
Qed.
Lemma surface_radii_agree a e lat lon : 0 < a -> 0 <= e < 1 ->
  let '(x, y, z) := geodetic2cart 0 lat lon a e in
  let '(r, latc, lonc) := cart2geocentric x y z in
  ellipsoid_r_geocentric a e latc = r /\ ellipsoid_r_geodetic a e lat = r.
Proof.
  intros Ha He.
  pose proof (surface_on_ellipsoid a e lat lon Ha He) as HS.
  pose proof (on_ellipsoid_radius a e lat lon Ha He) as HR.
  destruct (geodetic2cart 0 lat lon a e) as [[x y] z].
  assert (Hk : 0 < 1 - e ^ 2) by nra.
  assert (Hn : x ^ 2 + y ^ 2 + z ^ 2 <> 0).
  { intros Z. assert (Hxy : x ^ 2 + y ^ 2 = 0) by nra. assert (Hz : z ^ 2 = 0) by nra.
    assert (0 < a ^ 2 * (1 - e ^ 2)) by (apply Rmult_lt_0_compat; nra). rewrite Hxy, Hz in HS. lra. }
  pose proof (cart_sph_cart x y z Hn) as HC.
  rewrite cart2geocentric_spec in *. cbv beta iota zeta in *.
  set (r := sqrt (x ^ 2 + y ^ 2 + z ^ 2)) in *.
  set (latc := asin (z / r) * 180 / PI) in *. set (lonc := atan2 y x * 180 / PI) in *.
  split; [|exact (eq_sym HR)].
  assert (Hr : 0 < r) by (apply sqrt_lt_R0; nra).
  rewrite geocentric2cart_spec in HC. injection HC as Ex Ey Ez.
  destruct (geocentric_radius_on_ellipse a e latc Ha He) as [Hr' Hell].
  set (r' := ellipsoid_r_geocentric a e latc) in *.
  unfold cosd, sind in Hell.
  set (c := cos (latc * PI / 180)) in *. set (s := sin (latc * PI / 180)) in *.
  pose proof (sin2_cos2 (lonc * PI / 180)) as E2. unfold Rsqr in E2.
  set (cl := cos (lonc * PI / 180)) in *. set (sl := sin (lonc * PI / 180)) in *.
  assert (Hp : x ^ 2 + y ^ 2 = (r * c) ^ 2).
  { rewrite <- Ex, <- Ey. replace ((r * c * cl) ^ 2 + (r * c * sl) ^ 2) with ((r * c) ^ 2 * (sl * sl + cl * cl)) by ring.
    rewrite E2. ring. }
  assert (Hsame : r' ^ 2 * (c ^ 2 * (1 - e ^ 2) + s ^ 2) = r ^ 2 * (c ^ 2 * (1 - e ^ 2) + s ^ 2)).
  { rewrite Hp, <- Ez in HS. nra. }
  assert (Hpos : 0 < c ^ 2 * (1 - e ^ 2) + s ^ 2).
  { pose proof (sin2_cos2 (latc * PI / 180)) as E1. unfold Rsqr in E1. fold c s in E1. nra. }
  assert (Hsq : r' ^ 2 = r ^ 2) by (apply Rmult_eq_reg_r with (c ^ 2 * (1 - e ^ 2) + s ^ 2); lra).
  nra.
Qed.
(* ---- geodetic <-> cartesian *)
Lemma N_ge_a a e s : 0 < a -> 0 <= e < 1 -> -1 <= s <= 1 -> a <= a / sqrt (1 - e ^ 2 * s ^ 2).
Proof.
  intros Ha He Hs. pose proof (W_pos e s He Hs) as HW.
  assert (HW1 : sqrt (1 - e ^ 2 * s ^ 2) <= 1).
  { rewrite <- sqrt_1 at 2. apply sqrt_le_1_alt. nra. }
  assert (HWp : 0 < sqrt (1 - e ^ 2 * s ^ 2)) by (apply sqrt_lt_R0; exact HW).
  apply Rmult_le_reg_r with (sqrt (1 - e ^ 2 * s ^ 2)); [exact HWp|].
  unfold Rdiv. rewrite Rmult_assoc, Rinv_l by lra. nra.
Qed.

Lemma geodetic_fixed_point a e h lat lon :
  0 < a -> 0 <= e < 1 -> -90 < lat < 90 -> -180 < lon <= 180 -> - (a * (1 - e ^ 2)) < h ->
  let '(x, y, z) := geodetic2cart h lat lon a e in
  let p := hypot x y in
  let B := lat * PI / 180 in
  0 < p /\ geod_T a (e ^ 2) p z B = B /\ geod_h a (e ^ 2) p B = h /\ atan2 y x * 180 / PI = lon.
Proof.
  intros Ha He Hlat Hlon Hh. pose proof PI_RGT_0 as Hpi.
  rewrite geodetic2cart_spec. unfold sind, cosd. cbv beta iota zeta.
  set (B := lat * PI / 180). set (lam := lon * PI / 180).
  assert (HB : - (PI / 2) < B < PI / 2).
  { destruct (deg_rad_range lat (-90) 90 Hlat) as [A1 A2]. unfold B. lra. }
  assert (Hlam : - PI < lam <= PI).
  { unfold lam. destruct Hlon as [A1 A2].
    assert (-180 * PI < lon * PI) by (apply Rmult_lt_compat_r; lra).
    assert (lon * PI <= 180 * PI) by (apply Rmult_le_compat_r; lra). lra. }
  assert (Hc : 0 < cos B) by (apply cos_gt_0; lra).
  pose proof (SIN_bound B) as Hs.
  pose proof (N_ge_a a e (sin B) Ha He Hs) as HN.
  set (N := a / sqrt (1 - e ^ 2 * sin B ^ 2)) in *.
  assert (Hk : 0 < 1 - e ^ 2) by nra.
  assert (HNk : 0 < N * (1 - e ^ 2) + h) by nra.
  assert (HNh : 0 < N + h) by nra.
  set (rho := (N + h) * cos B).
  assert (Hrho : 0 < rho) by (unfold rho; nra).
  assert (Hp : hypot (rho * cos lam) (rho * sin lam) = rho).
  { unfold hypot. pose proof (sin2_cos2 lam) as E. unfold Rsqr in E.
    replace ((rho * cos lam) ^ 2 + (rho * sin lam) ^ 2) with (rho * rho * (sin lam * sin lam + cos lam * cos lam)) by ring.
    rewrite E, Rmult_1_r. apply sqrt_square. lra. }
  fold rho. rewrite Hp.
  assert (Hgh : geod_h a (e ^ 2) rho B = h).
  { unfold geod_h, geod_N. fold N. unfold rho. field. lra. }
  split; [exact Hrho|]. split; [|split].
  - unfold geod_T. cbv zeta. rewrite Hgh. unfold geod_N. fold N.
    replace ((N * (1 - e ^ 2) + h) * sin B / rho * / (1 - e ^ 2 * N / (N + h))) with (tan B).
    + apply atan_tan. exact HB.
    + unfold tan, rho. field. repeat split; lra.
  - exact Hgh.
  - rewrite atan2_polar by assumption. unfold lam. field. lra.
Qed.

(* conversely: a fixed point of the iteration map is a geodetic position of (x, y, z) *)
Lemma fixed_point_maps_back a e x y z B :
  0 < a -> 0 <= e < 1 -> 0 < hypot x y -> - (PI / 2) < B < PI / 2 ->
  let p := hypot x y in
  let h := geod_h a (e ^ 2) p B in
  0 < geod_N a (e ^ 2) B * (1 - e ^ 2) + h ->
  geod_T a (e ^ 2) p z B = B ->
  geodetic2cart h (B * 180 / PI) (atan2 y x * 180 / PI) a e = (x, y, z).
Proof.
  intros Ha He Hp HB p h HNk HT. pose proof PI_RGT_0 as Hpi.
  assert (Hc : 0 < cos B) by (apply cos_gt_0; lra).
  rewrite geodetic2cart_spec. unfold sind, cosd. cbv beta iota zeta.
  replace (B * 180 / PI * PI / 180) with B by (field; lra).
  replace (atan2 y x * 180 / PI * PI / 180) with (atan2 y x) by (field; lra).
  unfold geod_T in HT. cbv zeta in HT. fold h in HT.
  unfold geod_N in *. set (N := a / sqrt (1 - e ^ 2 * sin B ^ 2)) in *.
  assert (HNh : N + h = p / cos B) by (unfold h, geod_h, geod_N; fold N; ring).
  assert (HNhp : 0 < N + h) by (rewrite HNh; apply Rdiv_lt_0_compat; assumption).
  assert (HD : 1 - e ^ 2 * N / (N + h) = (N * (1 - e ^ 2) + h) / (N + h)) by (field; lra).
  assert (Htan : tan B = z / p * / (1 - e ^ 2 * N / (N + h))) by (rewrite <- HT at 1; apply tan_atan).
  rewrite HD in Htan.
  assert (Hz : (N * (1 - e ^ 2) + h) * sin B = z).
  { unfold tan in Htan.
    assert (E : sin B = cos B * (z / p * / ((N * (1 - e ^ 2) + h) / (N + h)))) by (rewrite <- Htan; field; lra).
    rewrite E. replace (N + h) with (p / cos B) by (symmetry; exact HNh). field. repeat split; try lra.
    fold p in Hp. lra. }
  destruct (hypot_cos_sin x y) as [Ex Ey]. fold p in Ex, Ey.
  rewrite Hz, HNh.
  replace (p / cos B * cos B * cos (atan2 y x)) with (p * cos (atan2 y x)) by (field; lra).
  replace (p / cos B * cos B * sin (atan2 y x)) with (p * sin (atan2 y x)) by (field; lra).
  rewrite Ex, Ey. reflexivity.
Qed.

(* the loop returns an iterate at which the stop criterion holds *)
Lemma geod_loop_stops a e2 p z tol fuel : forall B0 B,
  geod_loop a e2 p z tol fuel B0 = Some B ->
  exists n, B = geod_iter a e2 p z n B0 /\ Rabs (B - geod_T a e2 p z B) <= tol.
Proof.
  induction fuel as [|k IH]; intros B0 B H; [discriminate|].
  cbn [geod_loop] in H. cbv zeta in H.
  destruct (Rle_dec (Rabs (B0 - geod_T a e2 p z B0)) tol) as [L|L].
  - injection H as <-. exists O. split; [reflexivity|exact L].
  - destruct (IH _ _ H) as [n [E St]]. exists (Datatypes.S n). split; [exact E|exact St].
Qed.

(* spherical short cut: exact inverse of geodetic2cart with e = 0 *)
Lemma geodetic_spherical_inverse a h lat lon : 0 < a + h -> -90 < lat < 90 -> -180 < lon <= 180 ->
  (let '(x, y, z) := geodetic2cart h lat lon a 0 in cart2geodetic_sph x y z a) = (h, lat, lon).
Proof.
  intros Hah Hlat Hlon.
  pose proof (sph_cart_sph (a + h) lat lon Hah Hlat Hlon) as H.
  rewrite geodetic2cart_spec. rewrite geocentric2cart_spec in H. unfold cart2geodetic_sph, sind, cosd. cbv zeta in *.
  replace (1 - 0 ^ 2 * sin (lat * PI / 180) ^ 2) with 1 by ring. rewrite sqrt_1.
  replace ((a / 1 + h) * cos (lat * PI / 180) * cos (lon * PI / 180)) with ((a + h) * cos (lat * PI / 180) * cos (lon * PI / 180)) by field.
  replace ((a / 1 + h) * cos (lat * PI / 180) * sin (lon * PI / 180)) with ((a + h) * cos (lat * PI / 180) * sin (lon * PI / 180)) by field.
  replace ((a / 1 * (1 - 0 ^ 2) + h) * sin (lat * PI / 180)) with ((a + h) * sin (lat * PI / 180)) by field.
  rewrite H. f_equal. f_equal. ring.
Qed.
(* ---- position + line of sight *)
Section LosAlgebra.
  Variables c1 s1 c2 s2 cz sz ca sa : R.
  Hypothesis E1 : s1 * s1 + c1 * c1 = 1.
  Hypothesis E2 : s2 * s2 + c2 * c2 = 1.
  Hypothesis Ez : sz * sz + cz * cz = 1.
  Hypothesis Ea : sa * sa + ca * ca = 1.
  Let dx := c1 * c2 * cz - s1 * c2 * (sz * ca) - s2 * (sz * sa).
  Let dy := c1 * s2 * cz - s1 * s2 * (sz * ca) + c2 * (sz * sa).
  Let dz := s1 * cz + c1 * (sz * ca).
  Lemma los_unit : dx * dx + dy * dy + dz * dz = 1.
  Proof. unfold dx, dy, dz. nsatz. Qed.
  Lemma los_dr : c1 * c2 * dx + s1 * dz + c1 * s2 * dy = cz.
  Proof. unfold dx, dy, dz. nsatz. Qed.
  Lemma los_dlat : - s1 * c2 * dx + c1 * dz - s1 * s2 * dy = sz * ca.
  Proof. unfold dx, dy, dz. nsatz. Qed.
  Lemma los_dlon : - s2 * dx + c2 * dy = sz * sa.
  Proof. unfold dx, dy, dz. nsatz. Qed.
End LosAlgebra.

Lemma clip1_id x : -1 <= x <= 1 -> clip1 x = x.
Proof. intros [A B]. unfold clip1. rewrite (Rmin_left x 1) by lra. apply Rmax_right. lra. Qed.

Lemma los_roundtrip r lat lon za aa :
  0 < r -> Rabs lat <= 90 - 1e-8 -> -180 < lon <= 180 -> 1e-6 <= za <= 180 - 1e-6 -> -180 < aa <= 180 ->
  let '(x, y, z, (dx, dy, dz)) := poslos2cart r lat lon za aa in
  dx ^ 2 + dy ^ 2 + dz ^ 2 = 1 /\ cartposlos2geoc x y z dx dy dz = (r, lat, lon, (za, aa)).
Proof.
  intros Hr Hlat Hlon Hza Haa. pose proof PI_RGT_0 as Hpi.
  assert (Hlat' : -90 < lat < 90) by (revert Hlat; unfold Rabs; destruct (Rcase_abs lat); lra).
  pose proof (sph_cart_sph r lat lon Hr Hlat' Hlon) as Hpos.
  unfold poslos2cart. cbv zeta.
  replace (PI / 180 * lat) with (lat * PI / 180) by field.
  replace (PI / 180 * lon) with (lon * PI / 180) by field.
  replace (PI / 180 * za) with (za * PI / 180) by field.
  replace (PI / 180 * aa) with (aa * PI / 180) by field.
  rewrite geocentric2cart_spec in Hpos.
  set (phi := lat * PI / 180) in *. set (lam := lon * PI / 180) in *.
  set (zr := za * PI / 180). set (ar := aa * PI / 180).
  assert (Hphi : - (PI / 2) < phi < PI / 2).
  { destruct (deg_rad_range lat (-90) 90 Hlat') as [A B]. unfold phi. lra. }
  assert (Hzr : 0 < zr < PI).
  { destruct (deg_rad_range za 0 180) as [A B]; [lra|]. unfold zr. lra. }
  assert (Har : - PI < ar <= PI).
  { unfold ar. destruct Haa as [A B].
    assert (-180 * PI < aa * PI) by (apply Rmult_lt_compat_r; lra).
    assert (aa * PI <= 180 * PI) by (apply Rmult_le_compat_r; lra). lra. }
  assert (Hc1 : 0 < cos phi) by (apply cos_gt_0; lra).
  assert (Hsz : 0 < sin zr) by (apply sin_gt_0; lra).
  pose proof (sin2_cos2 phi) as E1. pose proof (sin2_cos2 lam) as E2.
  pose proof (sin2_cos2 zr) as Ez. pose proof (sin2_cos2 ar) as Ea. unfold Rsqr in E1, E2, Ez, Ea.
  set (c1 := cos phi) in *. set (s1 := sin phi) in *. set (c2 := cos lam) in *. set (s2 := sin lam) in *.
  set (cz := cos zr) in *. set (sz := sin zr) in *. set (ca := cos ar) in *. set (sa := sin ar) in *.
  (* the line of sight, with the division by coslat carried out *)
  replace (c1 * c2 * cz - s1 * c2 * (sz * ca) - c1 * s2 * (sz * sa / c1))
    with (c1 * c2 * cz - s1 * c2 * (sz * ca) - s2 * (sz * sa)) by (field; lra).
  replace (c1 * s2 * cz - s1 * s2 * (sz * ca) + c1 * c2 * (sz * sa / c1))
    with (c1 * s2 * cz - s1 * s2 * (sz * ca) + c2 * (sz * sa)) by (field; lra).
  set (dx := c1 * c2 * cz - s1 * c2 * (sz * ca) - s2 * (sz * sa)).
  set (dy := c1 * s2 * cz - s1 * s2 * (sz * ca) + c2 * (sz * sa)).
  set (dz := s1 * cz + c1 * (sz * ca)).
  assert (Hu : dx ^ 2 + dy ^ 2 + dz ^ 2 = 1).
  { replace (dx ^ 2 + dy ^ 2 + dz ^ 2) with (dx * dx + dy * dy + dz * dz) by ring.
    exact (los_unit c1 s1 c2 s2 cz sz ca sa E1 E2 Ez Ea). }
  split; [exact Hu|].
  unfold cartposlos2geoc. rewrite Hpos.
  assert (Hza_eq : los_za lat lon dx dy dz = za).
  { unfold los_za. cbv zeta. rewrite Hu, sqrt_1. fold phi lam. fold c1 s1 c2 s2.
    replace (c1 * c2 * (dx / 1) + s1 * (dz / 1) + c1 * s2 * (dy / 1)) with (c1 * c2 * dx + s1 * dz + c1 * s2 * dy) by field.
    unfold dx, dy, dz. rewrite (los_dr c1 s1 c2 s2 cz sz ca sa E1 E2 Ez Ea).
    rewrite clip1_id by (unfold cz; pose proof (COS_bound zr); lra).
    unfold cz. rewrite acos_cos by lra. unfold zr. field. lra. }
  rewrite Hza_eq. f_equal. f_equal.
  unfold los_aa. cbv zeta. rewrite Hu, sqrt_1. fold phi lam zr. fold c1 s1 c2 s2 sz.
  destruct (Rlt_dec za 1e-6) as [Bad|_]; [lra|].
  destruct (Rlt_dec (180 - 1e-6) za) as [Bad|_]; [lra|].
  destruct (Rlt_dec (90 - 1e-8) (Rabs lat)) as [Bad|_]; [lra|].
  assert (Hdlat : - s1 * c2 / r * (dx / 1) + c1 / r * (dz / 1) - s1 * s2 / r * (dy / 1) = sz * ca / r).
  { rewrite <- (los_dlat c1 s1 c2 s2 cz sz ca sa E1 E2 Ez Ea). fold dx dy dz. field. lra. }
  assert (Hdlon : - s2 / c1 / r * (dx / 1) + c2 / c1 / r * (dy / 1) = sz * sa / (c1 * r)).
  { rewrite <- (los_dlon c1 s1 c2 s2 cz sz ca sa E1 E2 Ez Ea). fold dx dy dz. field. lra. }
  rewrite Hdlat, Hdlon.
  replace (r * (sz * ca / r) / sz) with ca by (field; lra).
  destruct (Rlt_dec 1 (Rabs ca)) as [Bad|_].
  { exfalso. assert (Rabs ca <= 1) by (apply Rabs_le; unfold ca; pose proof (COS_bound ar); lra). lra. }
  assert (Hden : 0 < c1 * r) by (apply Rmult_lt_0_compat; lra).
  destruct (Rlt_dec (sz * sa / (c1 * r)) 0) as [Neg|Pos].
  - (* sin aa < 0: aa in (-180, 0) *)
    assert (Hsa : sa < 0).
    { destruct (Rlt_or_le sa 0) as [L|L]; [exact L|exfalso].
      assert (0 <= sz * sa / (c1 * r)) by (apply Rmult_le_pos; [apply Rmult_le_pos; lra|apply Rlt_le, Rinv_0_lt_compat; exact Hden]). lra. }
    assert (Hneg : ar < 0).
    { destruct (Rlt_or_le ar 0) as [L|L]; [exact L|exfalso]. assert (0 <= sin ar) by (apply sin_ge_0; lra). fold sa in H. lra. }
    unfold ca. rewrite <- (cos_neg ar). rewrite acos_cos by lra. unfold ar. field. lra.
  - assert (Hsa : 0 <= sa).
    { destruct (Rlt_or_le sa 0) as [L|L]; [exfalso|exact L]. apply Pos.
      apply Ropp_lt_cancel. rewrite Ropp_0.
      replace (- (sz * sa / (c1 * r))) with (sz * (- sa) / (c1 * r)) by (field; lra).
      apply Rdiv_lt_0_compat; [apply Rmult_lt_0_compat; lra|exact Hden]. }
    assert (Hnn : 0 <= ar).
    { destruct (Rlt_or_le ar 0) as [L|L]; [exfalso|exact L]. assert (sin ar < 0) by (apply sin_lt_0_var; lra). fold sa in H. lra. }
    unfold ca. rewrite acos_cos by lra. unfold ar. field. lra.
Qed.
(* ---- triangle inequality of the chord (Euclidean norm in R^3) *)
Lemma norm3_triangle a1 a2 a3 b1 b2 b3 :
  sqrt ((a1 + b1) ^ 2 + (a2 + b2) ^ 2 + (a3 + b3) ^ 2) <= sqrt (a1 ^ 2 + a2 ^ 2 + a3 ^ 2) + sqrt (b1 ^ 2 + b2 ^ 2 + b3 ^ 2).
Proof.
  set (A := a1 ^ 2 + a2 ^ 2 + a3 ^ 2). set (B := b1 ^ 2 + b2 ^ 2 + b3 ^ 2).
  assert (HA : 0 <= A) by (unfold A; nra). assert (HB : 0 <= B) by (unfold B; nra).
  pose proof (sqrt_pos A) as PA. pose proof (sqrt_pos B) as PB.
  pose proof (sqrt_sqrt A HA) as SA. pose proof (sqrt_sqrt B HB) as SB.
  set (d := a1 * b1 + a2 * b2 + a3 * b3).
  assert (CS : d <= sqrt A * sqrt B).
  { destruct (Rle_or_lt d 0) as [L|L]; [apply Rle_trans with 0; [exact L|apply Rmult_le_pos; assumption]|].
    rewrite <- sqrt_mult_alt by exact HA. rewrite <- (sqrt_square d) by lra. apply sqrt_le_1_alt.
    assert (Lag : A * B - d * d = (a1 * b2 - a2 * b1) ^ 2 + (a1 * b3 - a3 * b1) ^ 2 + (a2 * b3 - a3 * b2) ^ 2)
      by (unfold A, B, d; ring).
    assert (0 <= A * B - d * d) by (rewrite Lag; repeat apply Rplus_le_le_0_compat; apply pow2_ge_0). lra. }
  apply Rsqr_incr_0_var; [|lra]. unfold Rsqr.
  rewrite sqrt_sqrt by (repeat apply Rplus_le_le_0_compat; apply pow2_ge_0).
  replace ((a1 + b1) ^ 2 + (a2 + b2) ^ 2 + (a3 + b3) ^ 2) with (A + B + 2 * d) by (unfold A, B, d; ring).
  nra.
Qed.

Lemma tunnel_triangle Re lat1 lon1 lat2 lon2 lat3 lon3 :
  tunnel Re lat1 lon1 lat3 lon3 <= tunnel Re lat1 lon1 lat2 lon2 + tunnel Re lat2 lon2 lat3 lon3.
Proof.
  unfold tunnel. rewrite !geocentric2cart_spec. cbv beta iota zeta.
  match goal with |- sqrt ((?x3 - ?x1) ^ 2 + (?y3 - ?y1) ^ 2 + (?z3 - ?z1) ^ 2) <=
                     sqrt ((?x2 - ?x1) ^ 2 + (?y2 - ?y1) ^ 2 + (?z2 - ?z1) ^ 2) + _ =>
    pose proof (norm3_triangle (x2 - x1) (y2 - y1) (z2 - z1) (x3 - x2) (y3 - y2) (z3 - z2)) as H;
    replace (x2 - x1 + (x3 - x2)) with (x3 - x1) in H by ring;
    replace (y2 - y1 + (y3 - y2)) with (y3 - y1) in H by ring;
    replace (z2 - z1 + (z3 - z2)) with (z3 - z1) in H by ring
  end.
  exact H.
Qed.

(* zero exactly for coincident points: a vanishing distance means the same cartesian point *)
Lemma tunnel_zero_iff Re lat1 lon1 lat2 lon2 :
  tunnel Re lat1 lon1 lat2 lon2 = 0 <-> geocentric2cart Re lat1 lon1 = geocentric2cart Re lat2 lon2.
Proof.
  unfold tunnel. rewrite !geocentric2cart_spec. cbv beta iota zeta. split.
  - intros H. apply sqrt_eq_0 in H; [|repeat apply Rplus_le_le_0_compat; apply pow2_ge_0].
    match type of H with (?x2 - ?x1) ^ 2 + (?y2 - ?y1) ^ 2 + (?z2 - ?z1) ^ 2 = 0 =>
      pose proof (pow2_ge_0 (x2 - x1)) as Q1; pose proof (pow2_ge_0 (y2 - y1)) as Q2; pose proof (pow2_ge_0 (z2 - z1)) as Q3;
      assert (x2 - x1 = 0) by (apply Rsqr_0_uniq; unfold Rsqr; lra);
      assert (y2 - y1 = 0) by (apply Rsqr_0_uniq; unfold Rsqr; lra);
      assert (z2 - z1 = 0) by (apply Rsqr_0_uniq; unfold Rsqr; lra) end.
    f_equal; [f_equal|]; lra.
  - intros H. injection H as Ex Ey Ez. rewrite Ex, Ey, Ez.
    match goal with |- sqrt ?t = 0 => replace t with 0 by ring end. apply sqrt_0.
Qed.

Lemma gcd_zero_coincident Re lat1 lon1 lat2 lon2 : 0 < Re ->
  great_circle_distance_r lat1 lon1 lat2 lon2 Re = 0 -> geocentric2cart Re lat1 lon1 = geocentric2cart Re lat2 lon2.
Proof.
  intros HR H. apply tunnel_zero_iff. rewrite (chord_arc _ _ _ _ _ HR), H.
  replace (0 / (2 * Re)) with 0 by (field; lra). rewrite sin_0. ring.
Qed.
(* ---- the ellipsoid table generated from ellipsoidmodels._data meets the hypotheses 0 < a, 0 <= e < 1 *)
From Coq Require Import List.
Lemma ellipsoid_table_valid :
  Forall (fun m : String.string * (R * R) => 0 < fst (snd m) /\ 0 <= snd (snd m) < 1) ellipsoid_models.
Proof. unfold ellipsoid_models. repeat (apply Forall_cons; [cbn [fst snd]; lra|]). apply Forall_nil. Qed.
(* ---- triangle inequality of the arc (spherical triangle: Gram determinant of three unit vectors >= 0) *)
Lemma gram_identity u1 u2 u3 v1 v2 v3 w1 w2 w3 :
  let uu := u1*u1+u2*u2+u3*u3 in let vv := v1*v1+v2*v2+v3*v3 in let ww := w1*w1+w2*w2+w3*w3 in
  let uv := u1*v1+u2*v2+u3*v3 in let vw := v1*w1+v2*w2+v3*w3 in let uw := u1*w1+u2*w2+u3*w3 in
  uu*vv*ww + 2*uv*vw*uw - uu*vw*vw - vv*uw*uw - ww*uv*uv =
  (u1*(v2*w3-v3*w2) - u2*(v1*w3-v3*w1) + u3*(v1*w2-v2*w1)) ^ 2.
Proof. cbv zeta. ring. Qed.

Section SphericalTriangle.
  Variables p1 l1 p2 l2 p3 l3 : R.
  Definition ux p l := cos p * cos l.
  Definition uy p l := cos p * sin l.
  Definition uz (p : R) := sin p.
  Definition dot pa la pb lb := ux pa la * ux pb lb + uy pa la * uy pb lb + uz pa * uz pb.

  Lemma unit_norm p l : dot p l p l = 1.
  Proof.
    unfold dot, ux, uy, uz. pose proof (sin2_cos2 p) as E1. pose proof (sin2_cos2 l) as E2. unfold Rsqr in E1, E2.
    replace (cos p * cos l * (cos p * cos l) + cos p * sin l * (cos p * sin l) + sin p * sin p)
      with (cos p * cos p * (sin l * sin l + cos l * cos l) + sin p * sin p) by ring.
    rewrite E2. lra.
  Qed.

  Lemma cos_angle pa la pb lb : cos (angle pa la pb lb) = dot pa la pb lb.
  Proof.
    assert (H1 : 0 < 1) by lra.
    destruct (sqrt_hav_range 1 pa la pb lb H1) as [S0 S1].
    destruct (hav_range 1 pa la pb lb H1) as [V0 V1].
    pose proof (sqrt_sqrt (hav pa la pb lb) V0) as SS.
    unfold angle. rewrite cos_2a_sin, sin_asin by lra.
    set (sh := sqrt (hav pa la pb lb)) in *.
    replace (1 - 2 * sh * sh) with (1 - 2 * (sh * sh)) by ring. rewrite SS.
    pose proof (chord2_hav 1 pa la pb lb) as E.
    pose proof (unit_norm pa la) as Na. pose proof (unit_norm pb lb) as Nb.
    unfold chord2, cx, cy, cz in E. unfold dot, ux, uy, uz in *. nra.
  Qed.

  Lemma arc_triangle : angle p1 l1 p3 l3 <= angle p1 l1 p2 l2 + angle p2 l2 p3 l3.
  Proof.
    assert (H1 : 0 < 1) by lra. pose proof PI_RGT_0 as Hpi.
    destruct (angle_range 1 p1 l1 p2 l2 H1) as [a0 a1]. destruct (angle_range 1 p2 l2 p3 l3 H1) as [b0 b1].
    destruct (angle_range 1 p1 l1 p3 l3 H1) as [c0 c1].
    pose proof (cos_angle p1 l1 p2 l2) as EA. pose proof (cos_angle p2 l2 p3 l3) as EB. pose proof (cos_angle p1 l1 p3 l3) as EC.
    set (a := angle p1 l1 p2 l2) in *. set (b := angle p2 l2 p3 l3) in *. set (c := angle p1 l1 p3 l3) in *.
    destruct (Rle_or_lt PI (a + b)) as [Big|Small]; [lra|].
    destruct (Rle_or_lt c (a + b)) as [Ok|Bad]; [exact Ok|exfalso].
    assert (Hlt : cos c < cos (a + b)) by (apply cos_decreasing_1; lra).
    pose proof (gram_identity (ux p1 l1) (uy p1 l1) (uz p1) (ux p2 l2) (uy p2 l2) (uz p2) (ux p3 l3) (uy p3 l3) (uz p3)) as G.
    cbv zeta in G.
    pose proof (unit_norm p1 l1) as N1. pose proof (unit_norm p2 l2) as N2. pose proof (unit_norm p3 l3) as N3.
    unfold dot in *. rewrite N1, N2, N3 in G. rewrite <- EA, <- EB, <- EC in G.
    match type of G with ?L = _ => assert (G0 : 0 <= L) by (rewrite G; apply pow2_ge_0) end.
    assert (Sa : 0 <= sin a) by (apply sin_ge_0; lra). assert (Sb : 0 <= sin b) by (apply sin_ge_0; lra).
    pose proof (sin2_cos2 a) as Ea. pose proof (sin2_cos2 b) as Eb. unfold Rsqr in Ea, Eb.
    rewrite cos_plus in Hlt.
    (* (cos c - cos a cos b)^2 <= sin^2 a sin^2 b  and  cos c - cos a cos b < - sin a sin b <= 0 *)
    assert (Q : (cos c - cos a * cos b) * (cos c - cos a * cos b) <= (sin a * sin b) * (sin a * sin b)) by nra.
    assert (P : 0 <= sin a * sin b) by (apply Rmult_le_pos; assumption).
    nra.
  Qed.
End SphericalTriangle.

Lemma gcd_triangle lat1 lon1 lat2 lon2 lat3 lon3 r : 0 <= r ->
  great_circle_distance_r lat1 lon1 lat3 lon3 r <=
    great_circle_distance_r lat1 lon1 lat2 lon2 r + great_circle_distance_r lat2 lon2 lat3 lon3 r /\
  great_circle_distance_deg lat1 lon1 lat3 lon3 <=
    great_circle_distance_deg lat1 lon1 lat2 lon2 + great_circle_distance_deg lat2 lon2 lat3 lon3.
Proof.
  intros Hr. pose proof PI_RGT_0 as Hpi. rewrite !gcd_r_is_angle, !gcd_deg_is_angle.
  pose proof (arc_triangle (rad lat1) (rad lon1) (rad lat2) (rad lon2) (rad lat3) (rad lon3)) as T.
  set (c := angle (rad lat1) (rad lon1) (rad lat3) (rad lon3)) in *.
  set (a := angle (rad lat1) (rad lon1) (rad lat2) (rad lon2)) in *.
  set (b := angle (rad lat2) (rad lon2) (rad lat3) (rad lon3)) in *.
  split.
  - rewrite <- Rmult_plus_distr_l. apply Rmult_le_compat_l; assumption.
  - apply Rmult_le_reg_r with (PI / 180); [lra|]. field_simplify; lra.
Qed.
