(* C19 -- proofs about the generated kernels of typhon/retrieval/scores.py and their list wrappers *)
From Coq Require Import Reals Lra List Permutation.
From TyphonGen Require Import scores.
From Typhon Require Import Model.C19_scores.
Import ListNotations.
Open Scope R_scope.

(* ---------- pinball loss ---------- *)
Lemma pinball_below y o tau : y < o -> quantile_score_kernel y o tau = tau * Rabs (y - o).
Proof. intros H. unfold quantile_score_kernel. cbv zeta. destruct (Rlt_dec y o); [ring|lra]. Qed.
Lemma pinball_above y o tau : o <= y -> quantile_score_kernel y o tau = (1 - tau) * Rabs (y - o).
Proof. intros H. unfold quantile_score_kernel. cbv zeta. destruct (Rlt_dec y o); [lra|ring]. Qed.
Lemma pinball_nonneg y o tau : 0 < tau < 1 -> 0 <= quantile_score_kernel y o tau.
Proof. intros Ht. pose proof (Rabs_pos (y - o)) as Hab. destruct (Rlt_dec y o) as [H|H].
  - rewrite pinball_below by exact H. apply Rmult_le_pos; lra.
  - rewrite pinball_above by lra. apply Rmult_le_pos; lra. Qed.
Lemma pinball_zero_iff y o tau : 0 < tau < 1 -> (quantile_score_kernel y o tau = 0 <-> y = o).
Proof. intros Ht. split.
  - intros E. destruct (Rlt_dec y o) as [H|H].
    + rewrite pinball_below in E by exact H. apply Rmult_integral in E. destruct E as [E|E]; [lra|].
      revert E. unfold Rabs. destruct (Rcase_abs (y - o)); lra.
    + rewrite pinball_above in E by lra. apply Rmult_integral in E. destruct E as [E|E]; [lra|].
      revert E. unfold Rabs. destruct (Rcase_abs (y - o)); lra.
  - intros ->. rewrite pinball_above by lra. replace (o - o) with 0 by ring. rewrite Rabs_R0. ring. Qed.

(* ---------- the tau-quantile minimises the mean pinball loss of a constant estimate ---------- *)
Lemma kernel_explicit c y tau :
  quantile_score_kernel c y tau = if Rlt_dec c y then tau * (y - c) else (1 - tau) * (c - y).
Proof. unfold quantile_score_kernel. cbv zeta. destruct (Rlt_dec c y) as [H|H].
  - rewrite Rabs_left by lra. ring.
  - rewrite Rabs_pos_eq by lra. ring. Qed.

(* sub-gradient inequalities of c |-> loss(c, y) at q *)
Lemma subgrad_right tau q c y : 0 < tau < 1 -> q <= c ->
  (c - q) * ((if Rle_dec y q then 1 else 0) - tau) <= quantile_score_kernel c y tau - quantile_score_kernel q y tau.
Proof. intros Ht Hc. rewrite !kernel_explicit.
  destruct (Rle_dec y q), (Rlt_dec c y), (Rlt_dec q y); try lra; nra. Qed.
Lemma subgrad_left tau q c y : 0 < tau < 1 -> c <= q ->
  (c - q) * ((if Rlt_dec y q then 1 else 0) - tau) <= quantile_score_kernel c y tau - quantile_score_kernel q y tau.
Proof. intros Ht Hc. rewrite !kernel_explicit.
  destruct (Rlt_dec y q), (Rlt_dec c y), (Rlt_dec q y); try lra; nra. Qed.

Lemma sum_right tau q c ys : 0 < tau < 1 -> q <= c ->
  (c - q) * (cnt_le q ys - tau * rlen ys) <= loss_sum tau c ys - loss_sum tau q ys.
Proof. intros Ht Hc. unfold cnt_le, rlen, loss_sum. induction ys as [|y ys IH]; cbn [map rsum]; [lra|].
  pose proof (subgrad_right tau q c y Ht Hc). lra. Qed.
Lemma sum_left tau q c ys : 0 < tau < 1 -> c <= q ->
  (c - q) * (cnt_lt q ys - tau * rlen ys) <= loss_sum tau c ys - loss_sum tau q ys.
Proof. intros Ht Hc. unfold cnt_lt, rlen, loss_sum. induction ys as [|y ys IH]; cbn [map rsum]; [lra|].
  pose proof (subgrad_left tau q c y Ht Hc). lra. Qed.

Lemma quantile_minimises_sum tau q ys c : 0 < tau < 1 -> is_quantile tau q ys ->
  loss_sum tau q ys <= loss_sum tau c ys.
Proof. intros Ht [Hlo Hhi]. destruct (Rle_dec q c) as [H|H].
  - pose proof (sum_right tau q c ys Ht H). assert (0 <= (c - q) * (cnt_le q ys - tau * rlen ys)) by (apply Rmult_le_pos; lra). lra.
  - pose proof (sum_left tau q c ys Ht ltac:(lra)).
    assert (0 <= (c - q) * (cnt_lt q ys - tau * rlen ys)) by (replace ((c - q) * (cnt_lt q ys - tau * rlen ys))
      with ((q - c) * (tau * rlen ys - cnt_lt q ys)) by ring; apply Rmult_le_pos; lra). lra. Qed.

Lemma rlen_pos ys : ys <> [] -> 0 < rlen ys.
Proof. unfold rlen. destruct ys as [|y ys]; [congruence|intros _]. cbn [map rsum].
  assert (0 <= rsum (map (fun _ => 1) ys)) by (induction ys; cbn [map rsum]; lra). lra. Qed.

Lemma quantile_minimises_mean tau q ys c : 0 < tau < 1 -> ys <> [] -> is_quantile tau q ys ->
  mean_loss tau q ys <= mean_loss tau c ys.
Proof. intros Ht Hne Hq. unfold mean_loss. pose proof (rlen_pos ys Hne).
  apply Rmult_le_compat_r; [left; apply Rinv_0_lt_compat; assumption|].
  apply quantile_minimises_sum; assumption. Qed.

(* ---------- mape / bias ---------- *)
Lemma rsum_const (c : R) {A} (g : A -> R) (l : list A) : (forall a, In a l -> g a = c) ->
  rsum (map g l) = c * rlen (map g l).
Proof. unfold rlen. induction l as [|a l IH]; cbn [map rsum]; intros H; [ring|].
  rewrite H by (left; reflexivity). rewrite IH by (intros b Hb; apply H; right; exact Hb). ring. Qed.

Lemma rmean_const (c : R) {A} (g : A -> R) (l : list A) : l <> [] -> (forall a, In a l -> g a = c) ->
  rmean (map g l) = c.
Proof. intros Hne H. unfold rmean. rewrite (rsum_const c g l H).
  assert (0 < rlen (map g l)) by (apply rlen_pos; destruct l; [congruence|discriminate]). field. lra. Qed.

(* predictions uniformly p percent off: pred = (1 + p/100) * truth *)
Definition offset (p : R) (ts : list R) : list (R * R) := map (fun t => ((1 + p / 100) * t, t)) ts.

Lemma mape_uniform_offset p ts : ts <> [] -> Forall (fun t => t <> 0) ts -> mape (offset p ts) = Rabs p.
Proof. intros Hne Hnz. unfold mape, offset. rewrite map_map. apply rmean_const; [exact Hne|].
  intros t Ht. rewrite Forall_forall in Hnz. specialize (Hnz t Ht). unfold mape_kernel.
  replace (t - (1 + p / 100) * t) with (- (p / 100) * t) by field.
  rewrite Rabs_mult, Rabs_Ropp. unfold Rdiv at 2. rewrite Rabs_mult, (Rabs_pos_eq (/ 100)) by lra.
  assert (Rabs t <> 0) by (apply Rabs_no_R0; exact Hnz). field. exact H. Qed.
Lemma bias_uniform_offset p ts : ts <> [] -> Forall (fun t => t <> 0) ts -> bias (offset p ts) = p.
Proof. intros Hne Hnz. unfold bias, offset. rewrite map_map. apply rmean_const; [exact Hne|].
  intros t Ht. rewrite Forall_forall in Hnz. specialize (Hnz t Ht). unfold bias_kernel. field. exact Hnz. Qed.
Lemma perfect_predictions ts : ts <> [] -> Forall (fun t => t <> 0) ts ->
  mape (offset 0 ts) = 0 /\ bias (offset 0 ts) = 0.
Proof. intros Hne Hnz. rewrite mape_uniform_offset, bias_uniform_offset by assumption. rewrite Rabs_R0. split; reflexivity. Qed.

(* order of the samples is irrelevant *)
Lemma rsum_perm l l' : Permutation l l' -> rsum l = rsum l'.
Proof. induction 1; cbn [rsum]; lra. Qed.
Lemma rmean_perm l l' : Permutation l l' -> rmean l = rmean l'.
Proof. intros H. unfold rmean, rlen. rewrite (rsum_perm _ _ H), (rsum_perm _ _ (Permutation_map _ H)). reflexivity. Qed.
Lemma scores_perm s s' : Permutation s s' -> mape s = mape s' /\ bias s = bias s'.
Proof. intros H. unfold mape, bias. split; apply rmean_perm, Permutation_map, H. Qed.

(* unchanged when prediction and truth are scaled by the same factor *)
Definition scale (k : R) (s : list (R * R)) : list (R * R) := map (fun '(p, t) => (k * p, k * t)) s.
Lemma scores_scale k s : k <> 0 -> Forall (fun '(p, t) => t <> 0) s -> mape (scale k s) = mape s /\ bias (scale k s) = bias s.
Proof. intros Hk Hnz. unfold mape, bias, scale. rewrite !map_map. unfold rmean, rlen. rewrite !map_map.
  assert (E1 : map (fun x : R * R => let '(p, t) := let '(p, t) := x in (k * p, k * t) in mape_kernel p t) s
             = map (fun '(p, t) => mape_kernel p t) s).
  { apply map_ext_in. intros [p t] Hin. rewrite Forall_forall in Hnz. specialize (Hnz _ Hin). cbn in Hnz.
    unfold mape_kernel. replace (k * t - k * p) with (k * (t - p)) by ring. rewrite !Rabs_mult.
    assert (Rabs k <> 0) by (apply Rabs_no_R0; exact Hk). assert (Rabs t <> 0) by (apply Rabs_no_R0; exact Hnz). field. tauto. }
  assert (E2 : map (fun x : R * R => let '(p, t) := let '(p, t) := x in (k * p, k * t) in bias_kernel p t) s
             = map (fun '(p, t) => bias_kernel p t) s).
  { apply map_ext_in. intros [p t] Hin. rewrite Forall_forall in Hnz. specialize (Hnz _ Hin). cbn in Hnz.
    unfold bias_kernel. field. tauto. }
  rewrite E1, E2. split; reflexivity. Qed.

(* ---------- shape contract ---------- *)
From Coq Require Import ZArith Lia.
Lemma shape_accepts_consistent n m : (0 < n)%Z -> (0 < m)%Z -> quantile_score_shape (n * m) n m = Some n.
Proof. intros Hn Hm. unfold quantile_score_shape.
  destruct (m <=? 0)%Z eqn:E; [lia|]. rewrite Z.mod_mul by lia. cbn [negb Z.eqb].
  rewrite Z.div_mul by lia. rewrite Z.eqb_refl. reflexivity. Qed.
Lemma shape_rejects_inconsistent st sy m : (0 < m)%Z -> (sy * m <> st)%Z -> quantile_score_shape st sy m = None.
Proof. intros Hm Hne. unfold quantile_score_shape.
  destruct (m <=? 0)%Z eqn:E; [reflexivity|]. destruct (st mod m =? 0)%Z eqn:E2; cbn [negb]; [|reflexivity].
  destruct (sy =? st / m)%Z eqn:E3; [|reflexivity]. exfalso. apply Hne.
  apply Z.eqb_eq in E2, E3. subst sy. rewrite Z.mul_comm. symmetry. apply Z.div_exact; lia. Qed.

(* ====================== extension: converse of quantile_minimises, NaN handling, vector of taus ====================== *)
(* ---------- exact slope of the loss between neighbouring sample values ---------- *)
(* no sample value lies in the open interval (c', c) *)
Lemma kernel_left_exact tau c c' y : c' <= c -> (y < c -> y <= c') ->
  quantile_score_kernel c' y tau - quantile_score_kernel c y tau = (c' - c) * ((if Rlt_dec y c then 1 else 0) - tau).
Proof. intros Hc Hgap. rewrite !kernel_explicit.
  destruct (Rlt_dec y c) as [H|H].
  - specialize (Hgap H). destruct (Rlt_dec c' y), (Rlt_dec c y); try lra.
  - destruct (Rlt_dec c' y), (Rlt_dec c y); lra. Qed.
Lemma kernel_right_exact tau c c' y : c <= c' -> (c < y -> c' <= y) ->
  quantile_score_kernel c' y tau - quantile_score_kernel c y tau = (c' - c) * ((if Rle_dec y c then 1 else 0) - tau).
Proof. intros Hc Hgap. rewrite !kernel_explicit.
  destruct (Rle_dec y c) as [H|H].
  - destruct (Rlt_dec c' y), (Rlt_dec c y); try lra.
  - assert (c' <= y) by (apply Hgap; lra). destruct (Rlt_dec c' y), (Rlt_dec c y); try lra. Qed.

Lemma loss_left_exact tau c c' ys : c' <= c -> (forall y, In y ys -> y < c -> y <= c') ->
  loss_sum tau c' ys - loss_sum tau c ys = (c' - c) * (cnt_lt c ys - tau * rlen ys).
Proof. intros Hc. unfold cnt_lt, rlen, loss_sum. induction ys as [|y ys IH]; cbn [map rsum]; intros Hgap; [lra|].
  pose proof (kernel_left_exact tau c c' y Hc (Hgap y (or_introl eq_refl))) as Hk.
  assert (IH' := IH (fun z Hz => Hgap z (or_intror Hz))). lra. Qed.
Lemma loss_right_exact tau c c' ys : c <= c' -> (forall y, In y ys -> c < y -> c' <= y) ->
  loss_sum tau c' ys - loss_sum tau c ys = (c' - c) * (cnt_le c ys - tau * rlen ys).
Proof. intros Hc. unfold cnt_le, rlen, loss_sum. induction ys as [|y ys IH]; cbn [map rsum]; intros Hgap; [lra|].
  pose proof (kernel_right_exact tau c c' y Hc (Hgap y (or_introl eq_refl))) as Hk.
  assert (IH' := IH (fun z Hz => Hgap z (or_intror Hz))). lra. Qed.

(* ---------- nearest sample values below / above c ---------- *)
Lemma cnt_lt_nonneg c ys : 0 <= cnt_lt c ys.
Proof. unfold cnt_lt. induction ys as [|y ys IH]; cbn [map rsum]; [lra|]. destruct (Rlt_dec y c); lra. Qed.
Lemma cnt_le_le_len c ys : cnt_le c ys <= rlen ys.
Proof. unfold cnt_le, rlen. induction ys as [|y ys IH]; cbn [map rsum]; [lra|]. destruct (Rle_dec y c); lra. Qed.
Lemma cnt_lt_le c ys : cnt_lt c ys <= cnt_le c ys.
Proof. unfold cnt_lt, cnt_le. induction ys as [|y ys IH]; cbn [map rsum]; [lra|].
  destruct (Rlt_dec y c), (Rle_dec y c); lra. Qed.

Lemma nearest_below c ys : 0 < cnt_lt c ys ->
  exists m, In m ys /\ m < c /\ forall y, In y ys -> y < c -> y <= m.
Proof. unfold cnt_lt. induction ys as [|y ys IH]; cbn [map rsum]; [lra|]. intros Hpos.
  fold (cnt_lt c ys) in *. destruct (Rlt_dec y c) as [Hy|Hy].
  - destruct (Rlt_dec 0 (cnt_lt c ys)) as [Hp|Hp].
    + destruct (IH Hp) as (m & Hin & Hm & Hmax). destruct (Rle_dec y m) as [Hym|Hym].
      * exists m. split; [right; exact Hin|]. split; [exact Hm|]. intros z [->|Hz] Hzc; [exact Hym|apply Hmax; assumption].
      * exists y. split; [left; reflexivity|]. split; [exact Hy|]. intros z [->|Hz] Hzc; [lra|].
        specialize (Hmax z Hz Hzc). lra.
    + exists y. split; [left; reflexivity|]. split; [exact Hy|]. intros z [->|Hz] Hzc; [lra|]. exfalso.
      apply Hp. clear - Hz Hzc. unfold cnt_lt. induction ys as [|w ys IH]; [destruct Hz|]. cbn [map rsum].
      pose proof (cnt_lt_nonneg c ys) as Hn. unfold cnt_lt in Hn. destruct Hz as [->|Hz].
      * destruct (Rlt_dec z c); lra.
      * specialize (IH Hz). destruct (Rlt_dec w c); lra.
  - destruct (IH ltac:(lra)) as (m & Hin & Hm & Hmax). exists m. split; [right; exact Hin|]. split; [exact Hm|].
    intros z [->|Hz] Hzc; [lra|apply Hmax; assumption]. Qed.

Lemma nearest_above c ys : cnt_le c ys < rlen ys ->
  exists m, In m ys /\ c < m /\ forall y, In y ys -> c < y -> m <= y.
Proof. unfold cnt_le, rlen. induction ys as [|y ys IH]; cbn [map rsum]; [lra|]. intros Hlt.
  fold (cnt_le c ys) in *. fold (rlen ys) in *. destruct (Rle_dec y c) as [Hy|Hy].
  - destruct (IH ltac:(lra)) as (m & Hin & Hm & Hmin). exists m. split; [right; exact Hin|]. split; [exact Hm|].
    intros z [->|Hz] Hzc; [lra|apply Hmin; assumption].
  - destruct (Rlt_dec (cnt_le c ys) (rlen ys)) as [Hp|Hp].
    + destruct (IH Hp) as (m & Hin & Hm & Hmin). destruct (Rle_dec m y) as [Hym|Hym].
      * exists m. split; [right; exact Hin|]. split; [exact Hm|]. intros z [->|Hz] Hzc; [exact Hym|apply Hmin; assumption].
      * exists y. split; [left; reflexivity|]. split; [lra|]. intros z [->|Hz] Hzc; [lra|].
        specialize (Hmin z Hz Hzc). lra.
    + exists y. split; [left; reflexivity|]. split; [lra|]. intros z [->|Hz] Hzc; [lra|]. exfalso.
      apply Hp. clear - Hz Hzc. unfold cnt_le, rlen. induction ys as [|w ys IH]; [destruct Hz|]. cbn [map rsum].
      pose proof (cnt_le_le_len c ys) as Hn. unfold cnt_le, rlen in Hn. destruct Hz as [->|Hz].
      * destruct (Rle_dec z c); lra.
      * specialize (IH Hz). destruct (Rle_dec w c); lra. Qed.

(* ---------- the converse: a minimiser is a tau-quantile ---------- *)
(* it is enough that c is not beaten by any SAMPLE POINT *)
Lemma minimiser_is_quantile_sum tau c ys : 0 < tau < 1 -> ys <> [] ->
  (forall y, In y ys -> loss_sum tau c ys <= loss_sum tau y ys) -> is_quantile tau c ys.
Proof. intros Ht Hne Hmin. pose proof (rlen_pos ys Hne) as Hn. unfold is_quantile. split.
  - destruct (Rle_dec (cnt_lt c ys) (tau * rlen ys)) as [H|H]; [exact H|exfalso].
    assert (Hpos : 0 < cnt_lt c ys) by (assert (0 < tau * rlen ys) by (apply Rmult_lt_0_compat; lra); lra).
    destruct (nearest_below c ys Hpos) as (m & Hin & Hm & Hmax).
    pose proof (loss_left_exact tau c m ys ltac:(lra) Hmax) as E. specialize (Hmin m Hin).
    assert (0 < (c - m) * (cnt_lt c ys - tau * rlen ys)) by (apply Rmult_lt_0_compat; lra). lra.
  - destruct (Rle_dec (tau * rlen ys) (cnt_le c ys)) as [H|H]; [exact H|exfalso].
    assert (Hlt : cnt_le c ys < rlen ys) by (assert (tau * rlen ys < 1 * rlen ys) by (apply Rmult_lt_compat_r; lra); lra).
    destruct (nearest_above c ys Hlt) as (m & Hin & Hm & Hmax).
    pose proof (loss_right_exact tau c m ys ltac:(lra) Hmax) as E. specialize (Hmin m Hin).
    assert (0 < (m - c) * (tau * rlen ys - cnt_le c ys)) by (apply Rmult_lt_0_compat; lra). lra. Qed.

Lemma mean_loss_le_iff tau a b ys : ys <> [] -> (mean_loss tau a ys <= mean_loss tau b ys <-> loss_sum tau a ys <= loss_sum tau b ys).
Proof. intros Hne. pose proof (rlen_pos ys Hne) as Hn. unfold mean_loss. split; intros H.
  - apply (Rmult_le_reg_r (/ rlen ys)); [apply Rinv_0_lt_compat; exact Hn|exact H].
  - apply Rmult_le_compat_r; [left; apply Rinv_0_lt_compat; exact Hn|exact H]. Qed.

Lemma minimiser_over_sample_is_quantile_mean tau c ys : 0 < tau < 1 -> ys <> [] ->
  (forall y, In y ys -> mean_loss tau c ys <= mean_loss tau y ys) -> is_quantile tau c ys.
Proof. intros Ht Hne Hmin. apply minimiser_is_quantile_sum; [exact Ht|exact Hne|].
  intros y Hy. apply (mean_loss_le_iff tau c y ys Hne), Hmin, Hy. Qed.

Lemma minimiser_is_quantile_mean tau c ys : 0 < tau < 1 -> ys <> [] ->
  (forall c', mean_loss tau c ys <= mean_loss tau c' ys) -> is_quantile tau c ys.
Proof. intros Ht Hne Hmin. apply minimiser_over_sample_is_quantile_mean; [exact Ht|exact Hne|]. intros y _. apply Hmin. Qed.

Lemma quantile_iff_minimiser_mean tau c ys : 0 < tau < 1 -> ys <> [] ->
  (is_quantile tau c ys <-> forall c', mean_loss tau c ys <= mean_loss tau c' ys).
Proof. intros Ht Hne. split.
  - intros Hq c'. apply quantile_minimises_mean; assumption.
  - apply minimiser_is_quantile_mean; assumption. Qed.

(* local version: not beaten by c +- any small delta *)
Lemma local_minimiser_is_quantile_mean tau c ys eps : 0 < tau < 1 -> ys <> [] -> 0 < eps ->
  (forall c', Rabs (c' - c) < eps -> mean_loss tau c ys <= mean_loss tau c' ys) -> is_quantile tau c ys.
Proof. intros Ht Hne Heps Hmin. pose proof (rlen_pos ys Hne) as Hn. unfold is_quantile. split.
  - destruct (Rle_dec (cnt_lt c ys) (tau * rlen ys)) as [H|H]; [exact H|exfalso].
    assert (Hpos : 0 < cnt_lt c ys) by (assert (0 < tau * rlen ys) by (apply Rmult_lt_0_compat; lra); lra).
    destruct (nearest_below c ys Hpos) as (m & Hin & Hm & Hmax).
    set (c' := Rmax m (c - eps / 2)).
    assert (Hc1 : m <= c') by apply Rmax_l. assert (Hc2 : c - eps / 2 <= c') by apply Rmax_r.
    assert (Hc3 : c' < c) by (unfold c'; apply Rmax_lub_lt; lra).
    assert (Hgap : forall y, In y ys -> y < c -> y <= c') by (intros y Hy Hyc; specialize (Hmax y Hy Hyc); lra).
    pose proof (loss_left_exact tau c c' ys ltac:(lra) Hgap) as E.
    assert (Hab : Rabs (c' - c) < eps) by (rewrite Rabs_left by lra; lra).
    pose proof (proj1 (mean_loss_le_iff tau c c' ys Hne) (Hmin c' Hab)) as Hle.
    assert (0 < (c - c') * (cnt_lt c ys - tau * rlen ys)) by (apply Rmult_lt_0_compat; lra). lra.
  - destruct (Rle_dec (tau * rlen ys) (cnt_le c ys)) as [H|H]; [exact H|exfalso].
    assert (Hlt : cnt_le c ys < rlen ys) by (assert (tau * rlen ys < 1 * rlen ys) by (apply Rmult_lt_compat_r; lra); lra).
    destruct (nearest_above c ys Hlt) as (m & Hin & Hm & Hmax).
    set (c' := Rmin m (c + eps / 2)).
    assert (Hc1 : c' <= m) by apply Rmin_l. assert (Hc2 : c' <= c + eps / 2) by apply Rmin_r.
    assert (Hc3 : c < c') by (unfold c'; apply Rmin_glb_lt; lra).
    assert (Hgap : forall y, In y ys -> c < y -> c' <= y) by (intros y Hy Hyc; specialize (Hmax y Hy Hyc); lra).
    pose proof (loss_right_exact tau c c' ys ltac:(lra) Hgap) as E.
    assert (Hab : Rabs (c' - c) < eps) by (rewrite Rabs_pos_eq by lra; lra).
    pose proof (proj1 (mean_loss_le_iff tau c c' ys Hne) (Hmin c' Hab)) as Hle.
    assert (0 < (c' - c) * (tau * rlen ys - cnt_le c ys)) by (apply Rmult_lt_0_compat; lra). lra. Qed.

(* ---------- a tau-quantile exists among the sample points: the search over sample points is exact ---------- *)
Lemma argmin_exists (f : R -> R) (ys : list R) : ys <> [] -> exists q, In q ys /\ forall y, In y ys -> f q <= f y.
Proof. induction ys as [|a ys IH]; [congruence|intros _]. destruct ys as [|b ys].
  - exists a. split; [left; reflexivity|]. intros y [->|[]]. lra.
  - destruct (IH ltac:(discriminate)) as (q & Hin & Hq). destruct (Rle_dec (f a) (f q)) as [H|H].
    + exists a. split; [left; reflexivity|]. intros y [->|Hy]; [lra|]. specialize (Hq y Hy). lra.
    + exists q. split; [right; exact Hin|]. intros y [->|Hy]; [lra|]. apply Hq, Hy. Qed.

Lemma sample_quantile_exists_l tau ys : 0 < tau < 1 -> ys <> [] -> exists q, In q ys /\ is_quantile tau q ys.
Proof. intros Ht Hne. destruct (argmin_exists (fun c => loss_sum tau c ys) ys Hne) as (q & Hin & Hq).
  exists q. split; [exact Hin|]. apply minimiser_is_quantile_sum; assumption. Qed.

(* the minimum over ALL constants is attained at a sample point *)
Lemma search_over_sample_points_exact_l tau ys : 0 < tau < 1 -> ys <> [] ->
  exists q, In q ys /\ is_quantile tau q ys /\ forall c, mean_loss tau q ys <= mean_loss tau c ys.
Proof. intros Ht Hne. destruct (sample_quantile_exists_l tau ys Ht Hne) as (q & Hin & Hq).
  exists q. split; [exact Hin|]. split; [exact Hq|]. intros c. apply quantile_minimises_mean; assumption. Qed.

(* ---------- NaN handling ---------- *)
Lemma somes_map_Some l : somes (map Some l) = l.
Proof. induction l as [|x l IH]; cbn [map somes]; [reflexivity|rewrite IH; reflexivity]. Qed.
Lemma all_some_map_Some l : all_some (map Some l) = Some l.
Proof. induction l as [|x l IH]; cbn [map all_some]; [reflexivity|rewrite IH; reflexivity]. Qed.

Lemma nanmean_nan_free l : l <> [] -> nanmean (map Some l) = Some (rmean l) /\ npmean (map Some l) = Some (rmean l).
Proof. intros Hne. unfold nanmean, npmean. rewrite somes_map_Some, all_some_map_Some.
  destruct l; [congruence|split; reflexivity]. Qed.
Lemma nanmean_drops_nan l : nanmean l = nanmean (map Some (somes l)).
Proof. unfold nanmean. rewrite somes_map_Some. reflexivity. Qed.
Lemma nanmean_perm_somes l l' : Permutation (somes l) (somes l') -> nanmean l = nanmean l'.
Proof. intros H. unfold nanmean. destruct (somes l) as [|x v] eqn:E1, (somes l') as [|x' v'] eqn:E2.
  - reflexivity.
  - apply Permutation_nil in H. discriminate.
  - apply Permutation_sym, Permutation_nil in H. discriminate.
  - f_equal. apply rmean_perm, H. Qed.

Lemma somes_scores tau c ys :
  somes (map (fun y => quantile_score_fl (Some c) y (Some tau)) ys) = map (fun y => quantile_score_kernel c y tau) (somes ys).
Proof. induction ys as [|[y|] ys IH]; cbn [map somes quantile_score_fl lift3] in *; [reflexivity|rewrite IH; reflexivity|exact IH]. Qed.

Lemma rmean_scores tau c ys : rmean (map (fun y => quantile_score_kernel c y tau) ys) = mean_loss tau c ys.
Proof. unfold rmean, mean_loss, loss_sum, rlen. rewrite map_map. reflexivity. Qed.

(* the value on ANY sample: NaN observations are dropped; all-NaN (or empty) gives NaN, never an exception *)
Lemma mqs_fl_value tau c ys :
  mqs_fl (Some tau) (Some c) ys = match somes ys with [] => None | v => Some (mean_loss tau c v) end.
Proof. unfold mqs_fl, nanmean. rewrite somes_scores. destruct (somes ys) as [|y v]; [reflexivity|].
  cbn [map]. f_equal. rewrite <- rmean_scores. reflexivity. Qed.
Lemma mqs_fl_nan_free tau c ys : ys <> [] -> mqs_fl (Some tau) (Some c) (map Some ys) = Some (mean_loss tau c ys).
Proof. intros Hne. rewrite mqs_fl_value, somes_map_Some. destruct ys; [congruence|reflexivity]. Qed.
Lemma mqs_fl_nan_estimate tau ys : mqs_fl tau None ys = None /\ mqs_fl None tau ys = None.
Proof. unfold mqs_fl, nanmean. split.
  - replace (somes (map (fun y => quantile_score_fl None y tau) ys)) with (@nil R); [reflexivity|].
    induction ys as [|y ys IH]; cbn [map somes quantile_score_fl lift3]; [reflexivity|exact IH].
  - replace (somes (map (fun y => quantile_score_fl tau y None) ys)) with (@nil R); [reflexivity|].
    induction ys as [|y ys IH]; cbn [map somes quantile_score_fl lift3]; [reflexivity|].
    destruct tau, y; exact IH. Qed.

(* ---------- the score matrix ---------- *)
Lemma map2_length {A B C} (f : A -> B -> C) l m : length (map2 f l m) = Nat.min (length l) (length m).
Proof. revert m. induction l as [|a l IH]; intros [|b m]; cbn [map2 length Nat.min]; try reflexivity. rewrite IH. reflexivity. Qed.
Lemma map2_nth {A B C} (f : A -> B -> C) l m i da db dc : (i < length l)%nat -> (i < length m)%nat ->
  nth i (map2 f l m) dc = f (nth i l da) (nth i m db).
Proof. revert m i. induction l as [|a l IH]; intros [|b m] i Hl Hm; cbn [length] in *; try lia.
  destruct i as [|i]; cbn [map2 nth]; [reflexivity|]. apply IH; lia. Qed.

Lemma score_shape rows ys taus : rect (length ys) (length taus) rows ->
  rect (length ys) (length taus) (quantile_score_rows rows ys taus).
Proof. intros [Hn Hk]. unfold rect, quantile_score_rows. split.
  - rewrite map2_length, Hn. apply Nat.min_id.
  - revert ys Hn. induction Hk as [|r rows Hr Hk IH]; intros [|y ys] Hn; cbn [map2]; try constructor.
    + unfold score_row. rewrite map2_length, Hr. apply Nat.min_id.
    + apply IH. cbn [length] in Hn. lia. Qed.

Lemma score_entry rows ys taus i j : rect (length ys) (length taus) rows -> (i < length ys)%nat -> (j < length taus)%nat ->
  nth j (nth i (quantile_score_rows rows ys taus) []) 0
  = quantile_score_kernel (nth j (nth i rows []) 0) (nth i ys 0) (nth j taus 0).
Proof. intros [Hn Hk] Hi Hj. unfold quantile_score_rows.
  rewrite (map2_nth (score_row taus) rows ys i [] 0 []) by lia. unfold score_row.
  assert (Hr : length (nth i rows []) = length taus).
  { rewrite Forall_forall in Hk. apply Hk, nth_In. lia. }
  rewrite (map2_nth _ (nth i rows []) taus j 0 0 0) by lia. reflexivity. Qed.

Lemma col_length j M : length (col j M) = length M.
Proof. unfold col. apply map_length. Qed.
Lemma col_nth j M i : nth i (col j M) 0 = nth j (nth i M []) 0.
Proof. unfold col. revert i. induction M as [|r M IH]; intros [|i]; cbn [map nth]; try (destruct j; reflexivity); try reflexivity.
  apply IH. Qed.

Lemma list_ext_nth (l l' : list R) : length l = length l' -> (forall i, (i < length l)%nat -> nth i l 0 = nth i l' 0) -> l = l'.
Proof. revert l'. induction l as [|a l IH]; intros [|b l'] Hlen Hnth; cbn [length] in *; try lia; [reflexivity|].
  f_equal; [exact (Hnth 0%nat ltac:(lia))|]. apply IH; [lia|]. intros i Hi. exact (Hnth (S i) ltac:(lia)). Qed.

(* column j of the score matrix = the pinball loss of column j of the estimates for the fraction taus[j] *)
Lemma score_column rows ys taus j : rect (length ys) (length taus) rows -> (j < length taus)%nat ->
  col j (quantile_score_rows rows ys taus) = map2 (fun e y => quantile_score_kernel e y (nth j taus 0)) (col j rows) ys.
Proof. intros Hrect Hj. pose proof (score_shape rows ys taus Hrect) as [Hn' _]. destruct Hrect as [Hn Hk].
  apply list_ext_nth.
  - rewrite col_length, map2_length, col_length, Hn', Hn. symmetry. apply Nat.min_id.
  - intros i Hi. rewrite col_length, Hn' in Hi. rewrite col_nth.
    rewrite score_entry by (try split; assumption).
    rewrite (map2_nth _ (col j rows) ys i 0 0 0) by (rewrite ?col_length; lia). rewrite col_nth. reflexivity. Qed.

Lemma map2_const_l {A B C} (f : A -> B -> C) a (m : list B) : map2 f (repeat a (length m)) m = map (f a) m.
Proof. induction m as [|b m IH]; cbn [length repeat map2 map]; [reflexivity|rewrite IH; reflexivity]. Qed.
Lemma col_repeat j (cs : list R) n : col j (repeat cs n) = repeat (nth j cs 0) n.
Proof. unfold col. induction n as [|n IH]; cbn [repeat map]; [reflexivity|rewrite IH; reflexivity]. Qed.

Lemma nth_map_seq (f : nat -> R) a n j : (j < n)%nat -> nth j (map f (seq a n)) 0 = f (a + j)%nat.
Proof. revert a j. induction n as [|n IH]; intros a j Hj; [lia|]. cbn [seq map]. destruct j as [|j]; cbn [nth].
  - f_equal. lia.
  - rewrite IH by lia. f_equal. lia. Qed.

(* constant estimates cs (one constant per fraction): entry j of mean_quantile_score is the mean loss of cs[j] for taus[j] *)
Lemma mqs_rows_const cs ys taus j : length cs = length taus -> (j < length taus)%nat ->
  nth j (mqs_rows (repeat cs (length ys)) ys taus) 0 = mean_loss (nth j taus 0) (nth j cs 0) ys.
Proof. intros Hlen Hj. unfold mqs_rows.
  rewrite nth_map_seq by exact Hj. cbn [Nat.add].
  rewrite score_column; [|split; [apply repeat_length|apply Forall_forall; intros r Hr; apply repeat_spec in Hr; subst r; exact Hlen]|exact Hj].
  rewrite col_repeat, map2_const_l. apply rmean_scores. Qed.
Lemma mqs_rows_length rows ys taus : length (mqs_rows rows ys taus) = length taus.
Proof. unfold mqs_rows. rewrite map_length, seq_length. reflexivity. Qed.

(* ---------- reshape(-1, m) of flat data ---------- *)
Lemma firstn_nth_lt j m (l : list R) : (j < m)%nat -> nth j (firstn m l) 0 = nth j l 0.
Proof. revert j l. induction m as [|m IHm]; intros j l Hj; [lia|]. destruct l as [|b l]; [destruct j; reflexivity|].
  destruct j as [|j]; cbn [firstn nth]; [reflexivity|]. apply IHm. lia. Qed.
Lemma skipn_nth j m (l : list R) : nth j (skipn m l) 0 = nth (m + j) l 0.
Proof. revert l. induction m as [|m IHm]; intros l; [reflexivity|]. destruct l as [|b l]; [destruct j; reflexivity|].
  cbn [skipn Nat.add nth]. apply IHm. Qed.
Lemma chunks_nth fuel m l i j : (0 < m)%nat -> (length l <= fuel)%nat -> (i * m + j < length l)%nat -> (j < m)%nat ->
  nth j (nth i (chunks fuel m l) []) 0 = nth (i * m + j) l 0.
Proof. intros Hm. revert l i. induction fuel as [|f IH]; intros l i Hf Hij Hj; [lia|].
  cbn [chunks]. destruct l as [|a l]; [cbn [length] in Hij; lia|]. destruct i as [|i].
  - cbn [Nat.mul Nat.add]. change (nth 0 (firstn m (a :: l) :: chunks f m (skipn m (a :: l))) []) with (firstn m (a :: l)).
    apply firstn_nth_lt. exact Hj.
  - replace (S i * m + j)%nat with (m + (i * m + j))%nat by (cbn [Nat.mul]; lia). rewrite <- skipn_nth.
    cbn [Nat.mul] in Hij. cbn [nth]. apply IH.
    + rewrite skipn_length. cbn [length] in *. lia.
    + rewrite skipn_length. lia.
    + exact Hj. Qed.

Lemma chunks_shape fuel m n l : (0 < m)%nat -> (length l <= fuel)%nat -> length l = (n * m)%nat -> rect n m (chunks fuel m l).
Proof. intros Hm. revert l n. induction fuel as [|f IH]; intros l n Hf Hlen.
  - assert (n = 0)%nat by nia. subst n. split; [reflexivity|constructor].
  - cbn [chunks]. destruct l as [|a l].
    + assert (n = 0)%nat by (cbn [length] in Hlen; nia). subst n. split; [reflexivity|constructor].
    + destruct n as [|n]; [cbn [length] in Hlen; lia|].
      destruct (IH (skipn m (a :: l)) n) as [H1 H2].
      * rewrite skipn_length. cbn [length] in *. lia.
      * rewrite skipn_length, Hlen. lia.
      * split; [cbn [length]; rewrite H1; reflexivity|]. constructor; [|exact H2].
        rewrite firstn_length, Hlen. lia. Qed.

Lemma shape_some_inv st sy m n : quantile_score_shape st sy m = Some n -> (0 < m /\ st = sy * m /\ n = sy)%Z.
Proof. unfold quantile_score_shape. destruct (m <=? 0)%Z eqn:E1; [discriminate|].
  destruct (st mod m =? 0)%Z eqn:E2; cbn [negb]; [|discriminate]. destruct (sy =? st / m)%Z eqn:E3; [|discriminate].
  intros [= <-]. apply Z.eqb_eq in E2, E3. apply Z.leb_gt in E1. split; [exact E1|]. split; [|symmetry; exact E3].
  subst sy. rewrite Z.mul_comm. apply Z.div_exact; lia. Qed.

Lemma shape_accepts_consistent0 n m : (0 <= n)%Z -> (0 < m)%Z -> quantile_score_shape (n * m) n m = Some n.
Proof. intros Hn Hm. unfold quantile_score_shape.
  destruct (m <=? 0)%Z eqn:E; [lia|]. rewrite Z.mod_mul by lia. cbn [negb Z.eqb].
  rewrite Z.div_mul by lia. rewrite Z.eqb_refl. reflexivity. Qed.

(* flat data: accepted exactly when len(y_tau) = len(y_test) * len(taus) (and there is a fraction); entry (i, j) is the
   pinball loss of y_tau.flat[i * k + j] against y_test.flat[i] for taus[j] *)
Lemma quantile_score_flat_spec flat ys taus :
  match quantile_score_flat flat ys taus with
  | Some M => taus <> [] /\ length flat = (length ys * length taus)%nat /\ rect (length ys) (length taus) M /\
      forall i j, (i < length ys)%nat -> (j < length taus)%nat ->
        nth j (nth i M []) 0 = quantile_score_kernel (nth (i * length taus + j) flat 0) (nth i ys 0) (nth j taus 0)
  | None => taus = [] \/ length flat <> (length ys * length taus)%nat
  end.
Proof. unfold quantile_score_flat.
  destruct (quantile_score_shape (Z.of_nat (length flat)) (Z.of_nat (length ys)) (Z.of_nat (length taus))) as [n|] eqn:E.
  - apply shape_some_inv in E. destruct E as (Hm & Hst & _).
    assert (Hm' : (0 < length taus)%nat) by lia. assert (Hlen : length flat = (length ys * length taus)%nat) by nia.
    pose proof (chunks_shape (length flat) (length taus) (length ys) flat Hm' (le_n _) Hlen) as Hrect.
    split; [destruct taus; [cbn [length] in Hm'; lia|discriminate]|]. split; [exact Hlen|]. split.
    + apply score_shape. exact Hrect.
    + intros i j Hi Hj. rewrite score_entry by assumption. unfold reshape_rows.
      rewrite chunks_nth; [reflexivity|exact Hm'|apply le_n| |exact Hj]. rewrite Hlen. nia.
  - destruct taus as [|t taus]; [left; reflexivity|right]. intros Hlen. rewrite Hlen, Nat2Z.inj_mul in E.
    rewrite shape_accepts_consistent0 in E; [discriminate|lia|cbn [length]; lia]. Qed.

(* mape / bias on NaN-free data: nanmean resp. mean of the kernel = the real-valued model *)
Lemma scores_fl_nan_free s : s <> [] -> mape_fl (nan_free s) = Some (mape s) /\ bias_fl (nan_free s) = Some (bias s).
Proof. intros Hne. unfold mape_fl, bias_fl, nan_free, mape, bias. rewrite !map_map.
  assert (E1 : map (fun x : R * R => let '(p, t) := let '(p, t) := x in (Some p, Some t) in lift2 mape_kernel p t) s
             = map Some (map (fun '(p, t) => mape_kernel p t) s)).
  { rewrite map_map. apply map_ext. intros [p t]. reflexivity. }
  assert (E2 : map (fun x : R * R => let '(p, t) := let '(p, t) := x in (Some p, Some t) in lift2 bias_kernel p t) s
             = map Some (map (fun '(p, t) => bias_kernel p t) s)).
  { rewrite map_map. apply map_ext. intros [p t]. reflexivity. }
  rewrite E1, E2. split.
  - apply nanmean_nan_free. destruct s; [congruence|discriminate].
  - apply nanmean_nan_free. destruct s; [congruence|discriminate]. Qed.

(* a vector of quantiles (one per fraction) minimises every entry of mean_quantile_score over vectors of constants *)
Lemma vector_quantiles_minimise_l qs cs ys taus j : ys <> [] -> length qs = length taus -> length cs = length taus ->
  (j < length taus)%nat -> 0 < nth j taus 0 < 1 -> is_quantile (nth j taus 0) (nth j qs 0) ys ->
  nth j (mqs_rows (repeat qs (length ys)) ys taus) 0 <= nth j (mqs_rows (repeat cs (length ys)) ys taus) 0.
Proof. intros Hne Hq Hc Hj Ht Hquant. rewrite !mqs_rows_const by assumption. apply quantile_minimises_mean; assumption. Qed.
