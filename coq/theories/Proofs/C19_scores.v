(* C19 -- proofs about the generated kernels of typhon/retrieval/scores.py and their list wrappers *)
From Coq Require Import Reals Lra List Permutation.
From TyphonGen Require Import scores.
From Typhon Require Import Model.C19_scores.
Import ListNotations.
Open Scope R_scope.

(* ---------- pinball loss ---------- *)
Lemma pinball_below y o tau : y < o -> quantile_score_kernel y o tau = tau * Rabs (y - o).
Proof. intros H. unfold quantile_score_kernel. cbv zeta. destruct (Rlt_dec y o); [reflexivity|lra]. Qed.
Lemma pinball_above y o tau : o <= y -> quantile_score_kernel y o tau = (1 - tau) * Rabs (y - o).
Proof. intros H. unfold quantile_score_kernel. cbv zeta. destruct (Rlt_dec y o); [lra|reflexivity]. Qed.
Lemma pinball_nonneg y o tau : 0 < tau < 1 -> 0 <= quantile_score_kernel y o tau.
Proof. intros Ht. pose proof (Rabs_pos (y - o)) as Hab. destruct (Rlt_dec y o) as [H|H].
  - rewrite pinball_below by exact H. apply Rmult_le_pos; lra.
  - rewrite pinball_above by lra. apply Rmult_le_pos; lra. Qed.
Lemma pinball_zero_iff y o tau : 0 < tau < 1 -> (quantile_score_kernel y o tau = 0 <-> y = o).
Proof. intros Ht. split.
  - intros E. destruct (Rlt_dec y o) as [H|H].
    + rewrite pinball_below in E by exact H. apply Rmult_integral in E. destruct E as [E|E]; [lra|].
      revert E. unfold Rabs. destruct (Rcase_abs (y - o)); lra.
    + rewrite pinball_above in E by lra. apply Rmult_integral in E. destruct E as [E|E]; [lra|].
      revert E. unfold Rabs. destruct (Rcase_abs (y - o)); lra.
  - intros ->. rewrite pinball_above by lra. replace (o - o) with 0 by ring. rewrite Rabs_R0. ring. Qed.

(* ---------- the tau-quantile minimises the mean pinball loss of a constant estimate ---------- *)
Lemma kernel_explicit c y tau :
  quantile_score_kernel c y tau = if Rlt_dec c y then tau * (y - c) else (1 - tau) * (c - y).
Proof. unfold quantile_score_kernel. cbv zeta. destruct (Rlt_dec c y) as [H|H].
  - rewrite Rabs_left by lra. ring_simplify. lra.
  - rewrite Rabs_pos_eq by lra. reflexivity. Qed.

(* sub-gradient inequalities of c |-> loss(c, y) at q *)
Lemma subgrad_right tau q c y : 0 < tau < 1 -> q <= c ->
  (c - q) * ((if Rle_dec y q then 1 else 0) - tau) <= quantile_score_kernel c y tau - quantile_score_kernel q y tau.
Proof. intros Ht Hc. rewrite !kernel_explicit.
  destruct (Rle_dec y q), (Rlt_dec c y), (Rlt_dec q y); try lra; nra. Qed.
Lemma subgrad_left tau q c y : 0 < tau < 1 -> c <= q ->
  (c - q) * ((if Rlt_dec y q then 1 else 0) - tau) <= quantile_score_kernel c y tau - quantile_score_kernel q y tau.
Proof. intros Ht Hc. rewrite !kernel_explicit.
  destruct (Rlt_dec y q), (Rlt_dec c y), (Rlt_dec q y); try lra; nra. Qed.

Lemma sum_right tau q c ys : 0 < tau < 1 -> q <= c ->
  (c - q) * (cnt_le q ys - tau * rlen ys) <= loss_sum tau c ys - loss_sum tau q ys.
Proof. intros Ht Hc. unfold cnt_le, rlen, loss_sum. induction ys as [|y ys IH]; cbn [map rsum]; [lra|].
  pose proof (subgrad_right tau q c y Ht Hc). lra. Qed.
Lemma sum_left tau q c ys : 0 < tau < 1 -> c <= q ->
  (c - q) * (cnt_lt q ys - tau * rlen ys) <= loss_sum tau c ys - loss_sum tau q ys.
Proof. intros Ht Hc. unfold cnt_lt, rlen, loss_sum. induction ys as [|y ys IH]; cbn [map rsum]; [lra|].
  pose proof (subgrad_left tau q c y Ht Hc). lra. Qed.

Lemma quantile_minimises_sum tau q ys c : 0 < tau < 1 -> is_quantile tau q ys ->
  loss_sum tau q ys <= loss_sum tau c ys.
Proof. intros Ht [Hlo Hhi]. destruct (Rle_dec q c) as [H|H].
  - pose proof (sum_right tau q c ys Ht H). assert (0 <= (c - q) * (cnt_le q ys - tau * rlen ys)) by (apply Rmult_le_pos; lra). lra.
  - pose proof (sum_left tau q c ys Ht ltac:(lra)).
    assert (0 <= (c - q) * (cnt_lt q ys - tau * rlen ys)) by (replace ((c - q) * (cnt_lt q ys - tau * rlen ys))
      with ((q - c) * (tau * rlen ys - cnt_lt q ys)) by ring; apply Rmult_le_pos; lra). lra. Qed.

Lemma rlen_pos ys : ys <> [] -> 0 < rlen ys.
Proof. unfold rlen. destruct ys as [|y ys]; [congruence|intros _]. cbn [map rsum].
  assert (0 <= rsum (map (fun _ => 1) ys)) by (induction ys; cbn [map rsum]; lra). lra. Qed.

Lemma quantile_minimises_mean tau q ys c : 0 < tau < 1 -> ys <> [] -> is_quantile tau q ys ->
  mean_loss tau q ys <= mean_loss tau c ys.
Proof. intros Ht Hne Hq. unfold mean_loss. pose proof (rlen_pos ys Hne).
  apply Rmult_le_compat_r; [left; apply Rinv_0_lt_compat; assumption|].
  apply quantile_minimises_sum; assumption. Qed.

(* ---------- mape / bias ---------- *)
Lemma rsum_const (c : R) {A} (g : A -> R) (l : list A) : (forall a, In a l -> g a = c) ->
  rsum (map g l) = c * rlen (map g l).
Proof. unfold rlen. induction l as [|a l IH]; cbn [map rsum]; intros H; [ring|].
  rewrite H by (left; reflexivity). rewrite IH by (intros b Hb; apply H; right; exact Hb). ring. Qed.

Lemma rmean_const (c : R) {A} (g : A -> R) (l : list A) : l <> [] -> (forall a, In a l -> g a = c) ->
  rmean (map g l) = c.
Proof. intros Hne H. unfold rmean. rewrite (rsum_const c g l H).
  assert (0 < rlen (map g l)) by (apply rlen_pos; destruct l; [congruence|discriminate]). field. lra. Qed.

(* predictions uniformly p percent off: pred = (1 + p/100) * truth *)
Definition offset (p : R) (ts : list R) : list (R * R) := map (fun t => ((1 + p / 100) * t, t)) ts.

Lemma mape_uniform_offset p ts : ts <> [] -> Forall (fun t => t <> 0) ts -> mape (offset p ts) = Rabs p.
Proof. intros Hne Hnz. unfold mape, offset. rewrite map_map. apply rmean_const; [exact Hne|].
  intros t Ht. rewrite Forall_forall in Hnz. specialize (Hnz t Ht). unfold mape_kernel.
  replace (t - (1 + p / 100) * t) with (- (p / 100) * t) by field.
  rewrite Rabs_mult, Rabs_Ropp. unfold Rdiv at 2. rewrite Rabs_mult, (Rabs_pos_eq (/ 100)) by lra.
  assert (Rabs t <> 0) by (apply Rabs_no_R0; exact Hnz). field. exact H. Qed.
Lemma bias_uniform_offset p ts : ts <> [] -> Forall (fun t => t <> 0) ts -> bias (offset p ts) = p.
Proof. intros Hne Hnz. unfold bias, offset. rewrite map_map. apply rmean_const; [exact Hne|].
  intros t Ht. rewrite Forall_forall in Hnz. specialize (Hnz t Ht). unfold bias_kernel. field. exact Hnz. Qed.
Lemma perfect_predictions ts : ts <> [] -> Forall (fun t => t <> 0) ts ->
  mape (offset 0 ts) = 0 /\ bias (offset 0 ts) = 0.
Proof. intros Hne Hnz. rewrite mape_uniform_offset, bias_uniform_offset by assumption. rewrite Rabs_R0. split; reflexivity. Qed.

(* order of the samples is irrelevant *)
Lemma rsum_perm l l' : Permutation l l' -> rsum l = rsum l'.
Proof. induction 1; cbn [rsum]; lra. Qed.
Lemma rmean_perm l l' : Permutation l l' -> rmean l = rmean l'.
Proof. intros H. unfold rmean, rlen. rewrite (rsum_perm _ _ H), (rsum_perm _ _ (Permutation_map _ H)). reflexivity. Qed.
Lemma scores_perm s s' : Permutation s s' -> mape s = mape s' /\ bias s = bias s'.
Proof. intros H. unfold mape, bias. split; apply rmean_perm, Permutation_map, H. Qed.

(* unchanged when prediction and truth are scaled by the same factor *)
Definition scale (k : R) (s : list (R * R)) : list (R * R) := map (fun '(p, t) => (k * p, k * t)) s.
Lemma scores_scale k s : k <> 0 -> Forall (fun '(p, t) => t <> 0) s -> mape (scale k s) = mape s /\ bias (scale k s) = bias s.
Proof. intros Hk Hnz. unfold mape, bias, scale. rewrite !map_map. unfold rmean, rlen. rewrite !map_map.
  assert (E1 : map (fun x : R * R => let '(p, t) := let '(p, t) := x in (k * p, k * t) in mape_kernel p t) s
             = map (fun '(p, t) => mape_kernel p t) s).
  { apply map_ext_in. intros [p t] Hin. rewrite Forall_forall in Hnz. specialize (Hnz _ Hin). cbn in Hnz.
    unfold mape_kernel. replace (k * t - k * p) with (k * (t - p)) by ring. rewrite !Rabs_mult.
    assert (Rabs k <> 0) by (apply Rabs_no_R0; exact Hk). assert (Rabs t <> 0) by (apply Rabs_no_R0; exact Hnz). field. tauto. }
  assert (E2 : map (fun x : R * R => let '(p, t) := let '(p, t) := x in (k * p, k * t) in bias_kernel p t) s
             = map (fun '(p, t) => bias_kernel p t) s).
  { apply map_ext_in. intros [p t] Hin. rewrite Forall_forall in Hnz. specialize (Hnz _ Hin). cbn in Hnz.
    unfold bias_kernel. field. tauto. }
  rewrite E1, E2. split; reflexivity. Qed.

(* ---------- shape contract ---------- *)
From Coq Require Import ZArith Lia.
Lemma shape_accepts_consistent n m : (0 < n)%Z -> (0 < m)%Z -> quantile_score_shape (n * m) n m = Some n.
Proof. intros Hn Hm. unfold quantile_score_shape.
  destruct (m <=? 0)%Z eqn:E; [lia|]. rewrite Z.mod_mul by lia. cbn [negb Z.eqb].
  rewrite Z.div_mul by lia. rewrite Z.eqb_refl. reflexivity. Qed.
Lemma shape_rejects_inconsistent st sy m : (0 < m)%Z -> (sy * m <> st)%Z -> quantile_score_shape st sy m = None.
Proof. intros Hm Hne. unfold quantile_score_shape.
  destruct (m <=? 0)%Z eqn:E; [reflexivity|]. destruct (st mod m =? 0)%Z eqn:E2; cbn [negb]; [|reflexivity].
  destruct (sy =? st / m)%Z eqn:E3; [|reflexivity]. exfalso. apply Hne.
  apply Z.eqb_eq in E2, E3. subst sy. rewrite Z.mul_comm. symmetry. apply Z.div_exact; lia. Qed.
