(* C06 -- proofs about the unit table of the tree under test (coq/gen/C06_units.v is regenerated from
   typhon/geographical.py on every run; this file is re-checked against it). *)
From Coq Require Import String ZArith QArith List Bool.
From Typhon Require Import Model.C06_geoindex Proofs.C06_geoindex.
From TyphonGen Require Import C06_units.
Import ListNotations.

(* every row of the table as written in the source: the same spellings, and the factor of the definition *)
Lemma gen_units_exact : table_equiv gen_units si_units.
Proof.
  unfold table_equiv, gen_units, si_units.
  repeat (apply Forall2_cons; [split; [reflexivity|vm_compute; reflexivity]|]).
  apply Forall2_nil.
Qed.

Lemma gen_to_km_si r : opt_Qeq (to_km gen_units r) (to_km si_units r).
Proof. apply to_km_equiv. exact gen_units_exact. Qed.

Lemma gen_same_length x1 u1 f1 x2 u2 f2 :
  ~ x1 == 0 -> ~ x2 == 0 -> u1 <> ""%string -> u2 <> ""%string ->
  lookup_unit gen_units u1 = Some f1 -> lookup_unit gen_units u2 = Some f2 -> x1 * f1 == x2 * f2 ->
  opt_Qeq (to_km gen_units (RStr x1 u1)) (to_km gen_units (RStr x2 u2)).
Proof. apply to_km_same_length. Qed.
