(* C03 -- proofs about Model/C03_match.v (the whole of FileSet.match) *)
From Coq Require Import ZArith List Bool Lia Permutation Sorted.
From Typhon Require Import Model.C03_tree Proofs.C03_tree Model.C03_match.
Import ListNotations.
Open Scope Z_scope.

Ltac case_ifs :=
  repeat match goal with
         | |- context [if ?c then _ else _] =>
             lazymatch c with
             | context [if _ then _ else _] => fail
             | _ => let E := fresh "E" in destruct c eqn:E
             end
         end.

(* ---------- the period ---------- *)
Lemma US_pos : 0 < US.
Proof. unfold US. lia. Qed.

Lemma period_valid dmin dmax mi start end_ :
  period_ok dmin dmax mi start end_ ->
  fst (wperiod dmin dmax mi start end_) <= snd (wperiod dmin dmax mi start end_) ->
  (let '(s, e) := match_period dmin dmax mi start end_ in find_period dmin dmax s e)
  = inr (wperiod dmin dmax mi start end_).
Proof.
  unfold period_ok, wperiod, match_period, find_period, dt_add, mi_us, default.
  cbn [fst snd]. intros (Hmi & Hs & He) Hv.
  destruct mi as [m|], start as [s|], end_ as [e|]; case_ifs; try (f_equal; f_equal; lia); try lia.
Qed.

Lemma period_invalid dmin dmax mi start end_ :
  period_ok dmin dmax mi start end_ ->
  snd (wperiod dmin dmax mi start end_) < fst (wperiod dmin dmax mi start end_) ->
  (let '(s, e) := match_period dmin dmax mi start end_ in find_period dmin dmax s e)
  = inl (if snd (wperiod dmin dmax mi start end_) <? dmin then OverflowError else ValueError).
Proof.
  unfold period_ok, wperiod, match_period, find_period, dt_add, mi_us, default.
  cbn [fst snd]. intros (Hmi & Hs & He) Hv.
  destruct mi as [m|], start as [s|], end_ as [e|]; case_ifs; try reflexivity; try lia.
Qed.

(* ---------- small list facts ---------- *)
Lemma flat_map_filter {A B} (f : A -> bool) (g : A -> list B) l :
  flat_map g (filter f l) = flat_map (fun x => if f x then g x else []) l.
Proof.
  induction l as [|x t IH]; cbn [filter flat_map]; [reflexivity|].
  destruct (f x); cbn [flat_map]; rewrite IH; reflexivity.
Qed.

Lemma filter_filter {A} (f g : A -> bool) l :
  filter g (filter f l) = filter (fun x => f x && g x) l.
Proof.
  induction l as [|x t IH]; cbn [filter]; [reflexivity|].
  destruct (f x); cbn [filter andb]; [destruct (g x)|]; rewrite IH; reflexivity.
Qed.

Lemma widen_0 l : widen 0 l = l.
Proof.
  unfold widen. induction l as [|[a b] t IH]; cbn [map]; [reflexivity|].
  rewrite IH. f_equal. f_equal; lia.
Qed.

Lemma secs_wf f : wf f -> fst (secs f) <= snd (secs f).
Proof. unfold wf, secs. cbn [fst snd]. intros H. apply Z.div_le_mono; [exact US_pos|exact H]. Qed.

Lemma secs_list_wf f2 : Forall wf f2 -> Forall (fun '(a, b) => a <= b) (map secs f2).
Proof.
  intros H. rewrite Forall_forall in *. intros [a b] Hab. apply in_map_iff in Hab.
  destruct Hab as (f & E & Hf). pose proof (secs_wf f (H f Hf)) as Hw. rewrite E in Hw. exact Hw.
Qed.

(* ---------- local row numbers back to files ---------- *)
Lemma partner_ids_back ms q : forall f2' pre2,
  map (fun j => idx (nth (Z.to_nat j) (pre2 ++ f2') ivl0))
      (partner_ids (Z.of_nat (length pre2)) ms q (map secs f2'))
  = map idx (filter (fun s => widened_overlap ms q (secs s)) f2').
Proof.
  induction f2' as [|s t IH]; intros pre2; cbn [map partner_ids filter]; [reflexivity|].
  assert (Ht : map (fun j => idx (nth (Z.to_nat j) (pre2 ++ s :: t) ivl0))
                   (partner_ids (Z.of_nat (length pre2) + 1) ms q (map secs t))
               = map idx (filter (fun s => widened_overlap ms q (secs s)) t)).
  { specialize (IH (pre2 ++ [s])). rewrite <- app_assoc in IH. cbn [app] in IH.
    rewrite app_length in IH. cbn [length] in IH.
    replace (Z.of_nat (length pre2 + 1)) with (Z.of_nat (length pre2) + 1) in IH by lia. exact IH. }
  destruct (widened_overlap ms q (secs s)); cbn [app map].
  - rewrite Ht. f_equal. rewrite Nat2Z.id. rewrite nth_middle. reflexivity.
  - exact Ht.
Qed.

Definition spec_row (ms : Z) (f2 : list ivl) (p : ivl) : list (Z * list Z) :=
  match map idx (filter (partner ms p) f2) with [] => [] | js => [(idx p, js)] end.

Lemma match_spec_back ms f2 : forall f1' pre,
  map (back (pre ++ f1') f2) (match_spec_from (Z.of_nat (length pre)) ms (map secs f1') (map secs f2))
  = flat_map (spec_row ms f2) f1'.
Proof.
  induction f1' as [|p t IH]; intros pre; cbn [map match_spec_from flat_map]; [reflexivity|].
  assert (Ht : map (back (pre ++ p :: t) f2)
                   (match_spec_from (Z.of_nat (length pre) + 1) ms (map secs t) (map secs f2))
               = flat_map (spec_row ms f2) t).
  { specialize (IH (pre ++ [p])). rewrite <- app_assoc in IH. cbn [app] in IH.
    rewrite app_length in IH. cbn [length] in IH.
    replace (Z.of_nat (length pre + 1)) with (Z.of_nat (length pre) + 1) in IH by lia. exact IH. }
  pose proof (partner_ids_back ms (secs p) f2 []) as Hc. cbn [app length] in Hc.
  change (Z.of_nat 0) with 0 in Hc.
  unfold spec_row at 1. unfold partner. rewrite <- Hc.
  destruct (partner_ids 0 ms (secs p) (map secs f2)) as [|z r] eqn:Er; cbn [map app].
  - exact Ht.
  - rewrite Ht. f_equal. unfold back at 1. cbn [fst snd map].
    rewrite Nat2Z.id, nth_middle. reflexivity.
Qed.

Lemma match_core ms f1 f2 : 0 <= ms -> Forall wf f2 ->
  map (back f1 f2) (match_model ms (map secs f1) (map secs f2)) = flat_map (spec_row ms f2) f1.
Proof.
  intros Hms Hwf. rewrite match_model_correct; [|exact Hms|apply secs_list_wf; exact Hwf].
  unfold match_spec. exact (match_spec_back ms f2 f1 []).
Qed.

(* ---------- match_full = specification ---------- *)
Lemma spec_unfold dmin dmax mi start end_ prim sec :
  match_full_spec dmin dmax mi start end_ prim sec
  = flat_map (spec_row (mi_us mi / US) (find_sel (wperiod dmin dmax mi start end_) sec))
             (find_sel (wperiod dmin dmax mi start end_) prim).
Proof.
  unfold match_full_spec, find_sel. rewrite flat_map_filter.
  apply flat_map_ext. intros p. destruct (overlaps _ p); [|reflexivity].
  unfold spec_row, partners_of. rewrite filter_filter. reflexivity.
Qed.

Lemma find_sel_wf pe files : Forall (fun '(a, b) => a <= b) files -> Forall wf (find_sel pe files).
Proof. intros H. unfold find_sel. apply Forall_filter. apply number_wf. exact H. Qed.

Lemma match_full_correct dmin dmax mi start end_ prim sec :
  period_ok dmin dmax mi start end_ ->
  Forall (fun '(a, b) => a <= b) sec ->
  let w := wperiod dmin dmax mi start end_ in
  fst w <= snd w -> find_sel w prim <> [] -> find_sel w sec <> [] ->
  match_full dmin dmax mi start end_ prim sec = Yields (match_full_spec dmin dmax mi start end_ prim sec).
Proof.
  intros Hok Hsec w Hv H1 H2. unfold match_full.
  pose proof (period_valid dmin dmax mi start end_ Hok Hv) as Hp.
  destruct (match_period dmin dmax mi start end_) as [s e]. unfold match_body. rewrite Hp. fold w.
  rewrite spec_unfold. fold w.
  pose proof (find_sel_wf w sec Hsec) as Hwf.
  destruct (find_sel w prim) as [|p1 t1] eqn:E1; [contradiction|].
  destruct (find_sel w sec) as [|s1 t2] eqn:E2; [contradiction|].
  f_equal. destruct Hok as (Hmi & _).
  destruct mi as [m|]; cbn [mi_us default] in *.
  - unfold mi_secs. rewrite Z.quot_div_nonneg by (try exact US_pos; exact Hmi).
    apply match_core; [apply Z.div_pos; [exact Hmi|exact US_pos]|exact Hwf].
  - change (0 / US) with 0. rewrite <- (widen_0 (map secs (s1 :: t2))) at 1.
    apply (match_core 0); [lia|exact Hwf].
Qed.

Lemma match_full_invalid dmin dmax mi start end_ prim sec :
  period_ok dmin dmax mi start end_ ->
  let w := wperiod dmin dmax mi start end_ in
  snd w < fst w ->
  match_full dmin dmax mi start end_ prim sec = Raised (if snd w <? dmin then OverflowError else ValueError).
Proof.
  intros Hok w Hv. unfold match_full.
  pose proof (period_invalid dmin dmax mi start end_ Hok Hv) as Hp.
  destruct (match_period dmin dmax mi start end_) as [s e]. unfold match_body. rewrite Hp. reflexivity.
Qed.

Lemma match_full_nofiles dmin dmax mi start end_ prim sec :
  period_ok dmin dmax mi start end_ ->
  let w := wperiod dmin dmax mi start end_ in
  fst w <= snd w -> find_sel w prim = [] \/ find_sel w sec = [] ->
  match_full dmin dmax mi start end_ prim sec = Raised NoFilesError.
Proof.
  intros Hok w Hv H. unfold match_full.
  pose proof (period_valid dmin dmax mi start end_ Hok Hv) as Hp.
  destruct (match_period dmin dmax mi start end_) as [s e]. unfold match_body. rewrite Hp. fold w.
  destruct H as [H|H]; rewrite H; [reflexivity|]. destruct (find_sel w prim); reflexivity.
Qed.

(* max_interval=None is max_interval=0 *)
Lemma match_full_none_zero dmin dmax start end_ prim sec :
  period_ok dmin dmax None start end_ ->
  match_full dmin dmax None start end_ prim sec = match_full dmin dmax (Some 0) start end_ prim sec.
Proof.
  intros (_ & Hs & He). unfold match_full, match_period, dt_add.
  rewrite Z.add_0_r. change (- 0) with 0. rewrite Z.add_0_r.
  assert (E1 : (dmin <=? default dmin start) && (default dmin start <=? dmax) = true) by lia.
  assert (E2 : (dmin <=? default dmax end_) && (default dmax end_ <=? dmax) = true) by lia.
  rewrite E1, E2. cbn [default].
  unfold match_body, find_period. cbn [default].
  change (mi_secs 0) with 0.
  destruct start as [s|], end_ as [e|]; cbn [default]; destruct (dt_add _ _ _ _); try reflexivity;
    case_ifs; try reflexivity;
    destruct (find_sel _ prim); try reflexivity; destruct (find_sel _ sec); try reflexivity;
    rewrite widen_0; reflexivity.
Qed.

(* ---------- the listing positions ---------- *)
Lemma number_from_In k l x :
  In x (number_from k l) <->
  exists n, (n < length l)%nat /\
            x = {| lo := fst (nth n l (0, 0)); hi := snd (nth n l (0, 0)); idx := k + Z.of_nat n |}.
Proof.
  revert k; induction l as [|[a b] t IH]; intros k; cbn [number_from In length].
  - split; [contradiction|]. intros (n & Hn & _). lia.
  - rewrite IH. split.
    + intros [<-|(n & Hn & ->)].
      * exists 0%nat. split; [lia|]. cbn [nth fst snd]. f_equal. lia.
      * exists (S n). split; [lia|]. cbn [nth]. f_equal. lia.
    + intros ([|n] & Hn & ->).
      * left. cbn [nth fst snd]. f_equal. lia.
      * right. exists n. split; [lia|]. cbn [nth]. f_equal. lia.
Qed.

Lemma number_In l x :
  In x (number l) <-> 0 <= idx x < Z.of_nat (length l) /\ x = file_at l (idx x).
Proof.
  unfold number. rewrite number_from_In. unfold file_at. split.
  - intros (n & Hn & ->). cbn [idx]. split; [lia|]. rewrite Z.add_0_l, Nat2Z.id. reflexivity.
  - intros (Hr & E). exists (Z.to_nat (idx x)). split; [lia|].
    rewrite Z2Nat.id by lia. rewrite Z.add_0_l. exact E.
Qed.

Lemma file_at_idx l i : idx (file_at l i) = i.
Proof. reflexivity. Qed.

Lemma partners_of_iff pe ms p sec j :
  In j (partners_of pe ms p sec) <->
  0 <= j < Z.of_nat (length sec) /\ overlaps pe (file_at sec j) = true /\ partner ms p (file_at sec j) = true.
Proof.
  unfold partners_of. rewrite in_map_iff. split.
  - intros (s & <- & Hs). apply filter_In in Hs. destruct Hs as [Hs Hb].
    apply number_In in Hs. destruct Hs as [Hr E]. rewrite <- E.
    apply andb_true_iff in Hb. tauto.
  - intros (Hr & Ho & Hp). exists (file_at sec j). split; [reflexivity|].
    apply filter_In. split.
    + apply number_In. rewrite file_at_idx. split; [exact Hr|reflexivity].
    + rewrite Ho, Hp. reflexivity.
Qed.

Lemma match_full_spec_iff dmin dmax mi start end_ prim sec i js :
  let pe := wperiod dmin dmax mi start end_ in
  let ms := mi_us mi / US in
  In (i, js) (match_full_spec dmin dmax mi start end_ prim sec) <->
  0 <= i < Z.of_nat (length prim) /\ overlaps pe (file_at prim i) = true /\
  js = partners_of pe ms (file_at prim i) sec /\ js <> [].
Proof.
  intros pe ms. unfold match_full_spec. fold pe ms. rewrite in_flat_map. split.
  - intros (p & Hp & Hin). apply number_In in Hp. destruct Hp as [Hr E].
    destruct (overlaps pe p) eqn:Eo; [|contradiction].
    destruct (partners_of pe ms p sec) as [|z r] eqn:Ej; [contradiction|].
    destruct Hin as [Hin|[]]. inversion Hin; subst i js. rewrite <- E.
    repeat split; try lia; try assumption; try (symmetry; assumption). discriminate.
  - intros (Hr & Ho & -> & Hne). exists (file_at prim i). split.
    + apply number_In. rewrite file_at_idx. split; [exact Hr|reflexivity].
    + rewrite Ho. destruct (partners_of pe ms (file_at prim i) sec) as [|z r]; [contradiction|].
      left. reflexivity.
Qed.

(* ---------- order: strictly increasing listing positions ---------- *)
Lemma number_from_lt_sorted f k l : StronglySorted Z.lt (map idx (filter f (number_from k l))).
Proof.
  revert k; induction l as [|[a b] t IH]; intros k; cbn [number_from filter map]; [constructor|].
  destruct (f _); cbn [map idx]; [|apply IH].
  constructor; [apply IH|]. rewrite Forall_forall. intros z Hz. apply in_map_iff in Hz.
  destruct Hz as (i & <- & Hi). apply filter_In in Hi. destruct Hi as [Hi _].
  apply number_from_idx in Hi. lia.
Qed.

Lemma partners_of_sorted pe ms p sec : StronglySorted Z.lt (partners_of pe ms p sec).
Proof. unfold partners_of, number. apply number_from_lt_sorted. Qed.

Lemma rows_fst_sorted (g : ivl -> list Z) : forall l k,
  StronglySorted Z.lt
    (map fst (flat_map (fun p => match g p with [] => [] | js => [(idx p, js)] end) (number_from k l))).
Proof.
  induction l as [|[a b] t IH]; intros k; cbn [number_from flat_map map]; [constructor|].
  destruct (g _) as [|z r]; cbn [app map fst idx]; [apply IH|].
  constructor; [apply IH|]. rewrite Forall_forall. intros i Hi. apply in_map_iff in Hi.
  destruct Hi as ([i' js] & <- & Hin). apply in_flat_map in Hin. destruct Hin as (p & Hp & Hin).
  apply number_from_idx in Hp. destruct (g p); [contradiction|]. destruct Hin as [Hin|[]].
  inversion Hin; subst. cbn [fst]. lia.
Qed.

Lemma match_full_spec_sorted dmin dmax mi start end_ prim sec :
  StronglySorted Z.lt (map fst (match_full_spec dmin dmax mi start end_ prim sec)) /\
  Forall (fun r => StronglySorted Z.lt (snd r)) (match_full_spec dmin dmax mi start end_ prim sec).
Proof.
  split.
  - unfold match_full_spec.
    set (pe := wperiod dmin dmax mi start end_). set (ms := mi_us mi / US).
    pose proof (rows_fst_sorted (fun p => if overlaps pe p then partners_of pe ms p sec else []) prim 0) as H.
    unfold number.
    erewrite flat_map_ext; [exact H|]. intros p. cbv beta. destruct (overlaps pe p); reflexivity.
  - rewrite Forall_forall. intros [i js] Hin. apply match_full_spec_iff in Hin.
    destruct Hin as (_ & _ & -> & _). cbn [snd]. apply partners_of_sorted.
Qed.

Lemma StronglySorted_nth {A} (R : A -> A -> Prop) (l : list A) d :
  StronglySorted R l -> forall i j, (i < j < length l)%nat -> R (nth i l d) (nth j l d).
Proof.
  induction 1 as [|a l Hs IH Hall]; intros i j Hij; cbn [length] in Hij; [lia|].
  destruct j as [|j]; [lia|]. destruct i as [|i]; cbn [nth].
  - rewrite Forall_forall in Hall. apply Hall. apply nth_In. lia.
  - apply IH. lia.
Qed.

Lemma pick_sorted {A} (R : A -> A -> Prop) (l : list A) d (is : list Z) :
  StronglySorted R l -> StronglySorted Z.lt is ->
  Forall (fun i => 0 <= i < Z.of_nat (length l)) is ->
  StronglySorted R (map (fun i => nth (Z.to_nat i) l d) is).
Proof.
  intros Hl. induction is as [|i t IH]; intros Hs Hr; cbn [map]; [constructor|].
  inversion Hs as [|? ? Hs' Hlt]; subst. inversion Hr as [|? ? Hi Hr']; subst.
  constructor; [apply IH; assumption|].
  rewrite Forall_forall in *. intros x Hx. apply in_map_iff in Hx. destruct Hx as (j & <- & Hj).
  specialize (Hlt j Hj). specialize (Hr' j Hj). cbv beta in Hr'.
  apply StronglySorted_nth; [exact Hl|]. lia.
Qed.

(* the yielded primaries, and every partner list, come in the order of the listings: whatever order R the
   listing of find() has (by start time, by (start, end), ...), the yielded files have it too *)
Lemma match_full_spec_order (R : Z * Z -> Z * Z -> Prop) dmin dmax mi start end_ prim sec :
  let out := match_full_spec dmin dmax mi start end_ prim sec in
  (StronglySorted R prim -> StronglySorted R (map (fun r => nth (Z.to_nat (fst r)) prim (0, 0)) out)) /\
  (StronglySorted R sec ->
   Forall (fun r => StronglySorted R (map (fun j => nth (Z.to_nat j) sec (0, 0)) (snd r))) out).
Proof.
  intros out. destruct (match_full_spec_sorted dmin dmax mi start end_ prim sec) as [H1 H2]. fold out in H1, H2.
  split; intros HR.
  - rewrite <- (map_map fst (fun i => nth (Z.to_nat i) prim (0, 0))).
    apply pick_sorted; [exact HR|exact H1|].
    rewrite Forall_forall. intros i Hi. apply in_map_iff in Hi. destruct Hi as ([i' js] & <- & Hin).
    apply match_full_spec_iff in Hin. cbn [fst]. tauto.
  - rewrite Forall_forall in *. intros [i js] Hin. cbn [snd]. specialize (H2 _ Hin). cbn [snd] in H2.
    apply pick_sorted; [exact HR|exact H2|].
    apply match_full_spec_iff in Hin. destruct Hin as (_ & _ & -> & _).
    rewrite Forall_forall. intros j Hj. apply partners_of_iff in Hj. tauto.
Qed.

Lemma key_le_start a b : key_le a b -> fst a <= fst b.
Proof. unfold key_le. lia. Qed.

Lemma sorted_weaken {A} (R S : A -> A -> Prop) l :
  (forall a b, R a b -> S a b) -> StronglySorted R l -> StronglySorted S l.
Proof.
  intros HRS. induction 1 as [|a l Hs IH Hall]; constructor; [exact IH|].
  rewrite Forall_forall in *. intros x Hx. apply HRS, Hall, Hx.
Qed.

(* ---------- whole seconds: the seconds of the code are the microseconds of the files ---------- *)
Lemma partner_whole_seconds ms p s :
  (US | lo p) -> (US | hi p) -> (US | lo s) -> (US | hi s) ->
  partner ms p s = (lo s - ms * US <=? hi p) && (lo p <=? hi s + ms * US).
Proof.
  unfold partner, widened_overlap, secs. cbn [fst snd].
  intros (a & ->) (b & ->) (c & ->) (d & ->).
  rewrite !Z.div_mul by (unfold US; lia).
  pose proof US_pos.
  destruct (c - ms <=? b) eqn:E1, (a <=? d + ms) eqn:E2,
           (c * US - ms * US <=? b * US) eqn:E3, (a * US <=? d * US + ms * US) eqn:E4;
    cbn [andb]; try reflexivity; nia.
Qed.

(* ---------- the outcome of match() in one equation ---------- *)
Lemma match_full_outcome_lemma dmin dmax mi start end_ prim sec :
  period_ok dmin dmax mi start end_ ->
  Forall (fun '(a, b) => a <= b) sec ->
  let w := wperiod dmin dmax mi start end_ in
  match_full dmin dmax mi start end_ prim sec =
  if snd w <? fst w then Raised (if snd w <? dmin then OverflowError else ValueError)
  else match find_sel w prim, find_sel w sec with
       | [], _ => Raised NoFilesError
       | _, [] => Raised NoFilesError
       | _, _ => Yields (match_full_spec dmin dmax mi start end_ prim sec)
       end.
Proof.
  intros Hok Hsec w. destruct (snd w <? fst w) eqn:Ev.
  - apply match_full_invalid; [exact Hok|]. fold w. lia.
  - assert (Hv : fst w <= snd w) by lia.
    destruct (find_sel w prim) as [|p1 t1] eqn:E1.
    { apply match_full_nofiles; [exact Hok|exact Hv|left; exact E1]. }
    destruct (find_sel w sec) as [|s1 t2] eqn:E2.
    { apply match_full_nofiles; [exact Hok|exact Hv|right; exact E2]. }
    apply match_full_correct; try assumption; fold w; [rewrite E1|rewrite E2]; discriminate.
Qed.

Lemma yields_is_spec dmin dmax mi start end_ prim sec out :
  period_ok dmin dmax mi start end_ ->
  Forall (fun '(a, b) => a <= b) sec ->
  match_full dmin dmax mi start end_ prim sec = Yields out ->
  out = match_full_spec dmin dmax mi start end_ prim sec.
Proof.
  intros Hok Hsec. rewrite (match_full_outcome_lemma dmin dmax mi start end_ prim sec Hok Hsec).
  cbv zeta. destruct (_ <? _); [discriminate|].
  destruct (find_sel _ prim); [discriminate|]. destruct (find_sel _ sec); [discriminate|].
  intros H. inversion H. reflexivity.
Qed.

Lemma ssorted_lt_nodup (l : list Z) : StronglySorted Z.lt l -> NoDup l.
Proof.
  induction 1 as [|a l Hs IH Hall]; constructor; [|exact IH].
  intros Hin. rewrite Forall_forall in Hall. specialize (Hall a Hin). lia.
Qed.

(* what is yielded, said without the specification function *)
Lemma match_full_yields_lemma dmin dmax mi start end_ prim sec out :
  period_ok dmin dmax mi start end_ ->
  Forall (fun '(a, b) => a <= b) sec ->
  match_full dmin dmax mi start end_ prim sec = Yields out ->
  let pe := wperiod dmin dmax mi start end_ in
  let ms := mi_us mi / US in
  let is_partner i j :=
      0 <= j < Z.of_nat (length sec) /\ overlaps pe (file_at sec j) = true /\
      partner ms (file_at prim i) (file_at sec j) = true in
  (forall i, In i (map fst out) <->
             0 <= i < Z.of_nat (length prim) /\ overlaps pe (file_at prim i) = true /\ exists j, is_partner i j) /\
  (forall i js, In (i, js) out -> forall j, In j js <-> is_partner i j) /\
  NoDup (map fst out) /\
  Forall (fun r => NoDup (snd r)) out.
Proof.
  intros Hok Hsec Hy pe ms is_partner.
  apply yields_is_spec in Hy; [|assumption|assumption]. subst out.
  destruct (match_full_spec_sorted dmin dmax mi start end_ prim sec) as [S1 S2].
  split; [|split; [|split]].
  - intros i. rewrite in_map_iff. split.
    + intros ([i' js] & <- & Hin). apply match_full_spec_iff in Hin. fold pe ms in Hin. cbn [fst].
      destruct Hin as (Hr & Ho & Ej & Hne). split; [exact Hr|]. split; [exact Ho|].
      destruct js as [|j r]; [contradiction|]. exists j.
      apply (partners_of_iff pe ms (file_at prim i') sec j). rewrite <- Ej. left. reflexivity.
    + intros (Hr & Ho & j & Hj). exists (i, partners_of pe ms (file_at prim i) sec). split; [reflexivity|].
      apply match_full_spec_iff. fold pe ms. repeat split; try tauto.
      intros E. apply (partners_of_iff pe ms (file_at prim i) sec j) in Hj. rewrite E in Hj. contradiction.
  - intros i js Hin j. apply match_full_spec_iff in Hin. fold pe ms in Hin.
    destruct Hin as (_ & _ & -> & _). apply partners_of_iff.
  - apply ssorted_lt_nodup. exact S1.
  - rewrite Forall_forall in *. intros r Hr. apply ssorted_lt_nodup. apply S2. exact Hr.
Qed.

Lemma match_full_order_lemma dmin dmax mi start end_ prim sec out :
  period_ok dmin dmax mi start end_ ->
  Forall (fun '(a, b) => a <= b) sec ->
  match_full dmin dmax mi start end_ prim sec = Yields out ->
  StronglySorted Z.lt (map fst out) /\ Forall (fun r => StronglySorted Z.lt (snd r)) out.
Proof.
  intros Hok Hsec Hy. apply yields_is_spec in Hy; [|assumption|assumption]. subst out.
  apply match_full_spec_sorted.
Qed.

Lemma match_full_time_order_lemma dmin dmax mi start end_ prim sec out :
  period_ok dmin dmax mi start end_ ->
  Forall (fun '(a, b) => a <= b) sec ->
  match_full dmin dmax mi start end_ prim sec = Yields out ->
  (StronglySorted key_le prim ->
   StronglySorted key_le (map (fun r => nth (Z.to_nat (fst r)) prim (0, 0)) out) /\
   StronglySorted Z.le (map (fun r => fst (nth (Z.to_nat (fst r)) prim (0, 0))) out)) /\
  (StronglySorted key_le sec ->
   Forall (fun r => StronglySorted key_le (map (fun j => nth (Z.to_nat j) sec (0, 0)) (snd r)) /\
                    StronglySorted Z.le (map (fun j => fst (nth (Z.to_nat j) sec (0, 0))) (snd r))) out).
Proof.
  intros Hok Hsec Hy. apply yields_is_spec in Hy; [|assumption|assumption]. subst out.
  destruct (match_full_spec_order key_le dmin dmax mi start end_ prim sec) as [H1 H2].
  split; intros HR.
  - specialize (H1 HR). split; [exact H1|].
    rewrite <- (map_map (fun r => nth (Z.to_nat (fst r)) prim (0, 0)) fst).
    set (l := map _ _) in *. clearbody l. clear - H1.
    induction H1 as [|a l Hs IH Hall]; cbn [map]; constructor; [exact IH|].
    rewrite Forall_forall in *. intros x Hx. apply in_map_iff in Hx. destruct Hx as (y & <- & Hy).
    apply key_le_start. apply Hall. exact Hy.
  - specialize (H2 HR). rewrite Forall_forall in *. intros r Hr. specialize (H2 r Hr). split; [exact H2|].
    rewrite <- (map_map (fun j => nth (Z.to_nat j) sec (0, 0)) fst).
    set (l := map _ (snd r)) in *. clearbody l. clear - H2.
    induction H2 as [|a l Hs IH Hall]; cbn [map]; constructor; [exact IH|].
    rewrite Forall_forall in *. intros x Hx. apply in_map_iff in Hx. destruct Hx as (y & <- & Hy).
    apply key_le_start. apply Hall. exact Hy.
Qed.
