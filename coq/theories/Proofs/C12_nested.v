(* C12 -- lemmas about histories of several blocks (Model/C12_nested.v). *)
From Coq Require Import ZArith List Bool String Ascii Lia.
From Typhon Require Import Model.C12_compress Model.C12_nested Proofs.C12_compress.
Import ListNotations.
Open Scope Z_scope.

(* ------------------------------------------------------------------ association lists keyed by nat *)
Section Assoc.
  Context {A B : Type}.
  Variable R : A -> B -> Prop.
  Definition arel (x : nat * A) (y : nat * B) : Prop := fst x = fst y /\ R (snd x) (snd y).

  Lemma look_none_rel : forall i l l', Forall2 arel l l' -> look i l = None -> look i l' = None.
  Proof.
    intros i l l' F. induction F as [|[k a] [k' b] l l' [E _] F IH]; cbn; [reflexivity|].
    cbn in E. subst k'. destruct (Nat.eqb k i); [discriminate|exact IH].
  Qed.

  Lemma look_split : forall i l l' h, Forall2 arel l l' -> look i l = Some h ->
    exists l1 l2 l1' l2' ih,
      l = l1 ++ (i, h) :: l2 /\ l' = l1' ++ (i, ih) :: l2' /\
      Forall2 arel l1 l1' /\ Forall2 arel l2 l2' /\ R h ih /\ look i l1 = None /\ look i l1' = None.
  Proof.
    intros i l l' h F. induction F as [|[k a] [k' b] l l' [E Rab] F IH]; cbn; [discriminate|].
    cbn in E, Rab. subst k'. destruct (Nat.eqb k i) eqn:K.
    - intros H. inversion H; subst a. apply Nat.eqb_eq in K. subst k.
      exists [], l, [], l', b. repeat split; try assumption; constructor.
    - intros H. destruct (IH H) as (l1 & l2 & l1' & l2' & ih & -> & -> & F1 & F2 & Rh & N1 & N2).
      exists ((k, a) :: l1), l2, ((k, b) :: l1'), l2', ih. cbn. rewrite K.
      repeat split; try assumption. constructor; [split; [reflexivity|exact Rab]|exact F1].
  Qed.
End Assoc.

Lemma look_app_none : forall A i (l1 l2 : list (nat * A)), look i l1 = None -> look i (l1 ++ l2) = look i l2.
Proof.
  intros A i l1 l2. induction l1 as [|[k a] l1 IH]; cbn; [reflexivity|].
  destruct (Nat.eqb k i); [discriminate|exact IH].
Qed.

Lemma del_app_none : forall A i (l1 l2 : list (nat * A)) x, look i l1 = None ->
  del i (l1 ++ (i, x) :: l2) = l1 ++ l2.
Proof.
  intros A i l1 l2 x. induction l1 as [|[k a] l1 IH]; cbn.
  - rewrite Nat.eqb_refl. reflexivity.
  - destruct (Nat.eqb k i); [discriminate|]. intros H. rewrite IH by exact H. reflexivity.
Qed.

Lemma upd_app_none : forall A i (l1 l2 : list (nat * A)) x v, look i l1 = None ->
  upd i v (l1 ++ (i, x) :: l2) = l1 ++ (i, v) :: l2.
Proof.
  intros A i l1 l2 x v. induction l1 as [|[k a] l1 IH]; cbn.
  - rewrite Nat.eqb_refl. reflexivity.
  - destruct (Nat.eqb k i); [discriminate|]. intros H. rewrite IH by exact H. reflexivity.
Qed.

Lemma look_mid : forall A i (l1 l2 : list (nat * A)) x, look i l1 = None -> look i (l1 ++ (i, x) :: l2) = Some x.
Proof. intros. rewrite look_app_none by assumption. cbn. rewrite Nat.eqb_refl. reflexivity. Qed.

(* ------------------------------------------------------------------ paths *)
Lemma tpaths_app : forall l1 l2, tpaths (l1 ++ l2) = tpaths l1 ++ tpaths l2.
Proof. intros. unfold tpaths. apply flat_map_app. Qed.

Lemma tpaths_cons : forall i h l, tpaths ((i, h) :: l) = hpaths h ++ tpaths l.
Proof. reflexivity. Qed.

Lemma tpath_inj : forall d d', tpath d = tpath d' -> d = d'.
Proof. intros d d' H. unfold tpath in H. apply app_inv_tail in H. exact H. Qed.

(* a temporary path belongs to an open copy or to a live directory *)
Lemma tpaths_cases : forall q op, In q (tpaths op) ->
  (exists i b, In (i, HCopy q b) op) \/ (exists d, In d (live_dirs op) /\ q = tpath d).
Proof.
  intros q op. induction op as [|[i h] op IH]; cbn; [tauto|].
  intros H. apply in_app_or in H. destruct H as [H|H].
  - destruct h; cbn in H; try tauto; destruct H as [<-|[]].
    + left. exists i, b. left. reflexivity.
    + right. exists d. split; [left; reflexivity|reflexivity].
  - destruct (IH H) as [(j & b & I)|(d & I & E)].
    + left. exists j, b. right. exact I.
    + right. exists d. split; [apply in_or_app; right; exact I|exact E].
Qed.

Lemma flook_some_key : forall p fs v, flook p fs = Some v -> In p (map fst fs).
Proof.
  intros p fs v. induction fs as [|[k x] fs IH]; cbn; [discriminate|].
  destruct (str_eqb k p) eqn:E; [apply str_eqb_eq in E; left; exact E|right; apply IH; assumption].
Qed.

(* compress_as threads the file system: what it writes and whether it raises do not depend on it *)
Lemma compress_as_shape : forall known enc encp src fmt target flt,
  exists (wr : option bytes) (o : outcome), forall fs,
    compress_as known enc encp src fmt target flt fs =
    (match wr with Some x => fwrite target x fs | None => fs end, o).
Proof.
  intros known enc encp src fmt target flt. unfold compress_as.
  destruct (negb (known fmt)); [exists None, Raised; reflexivity|].
  destruct (writer_of fmt); destruct src; destruct flt;
    try (exists None, Raised; reflexivity); try (exists None, Done; reflexivity);
    try (eexists (Some _), Raised; reflexivity); (eexists (Some _), Done; reflexivity).
Qed.

(* ------------------------------------------------------------------ the simulation *)
Section Sim.
  Variable known : str -> bool.
  Variable enc : str -> str -> bytes -> bytes.
  Variable encp : str -> bytes.
  Variable dec : str -> str -> bytes -> dres.
  Variable freshf : fsmap -> list str -> str -> str -> str.
  Variable freshd : fsmap -> list str -> str -> str.
  Variable istmp : str -> bool.
  Hypothesis Hf : fresh_file_ok istmp freshf.
  Hypothesis Hd : fresh_dir_ok istmp freshd.

  Notation step := (step known enc encp dec freshf freshd).
  Notation istep := (istep known enc encp dec).
  Notation run_hist := (run_hist known enc encp dec freshf freshd).
  Notation ideal_hist := (ideal_hist known enc encp dec).

  Definition hrel (fs : fsmap) (h : handle) (ih : ihandle) : Prop :=
    match h, ih with
    | HPassR n, IPassR n' => n = n' /\ istmp n = false
    | HPassW n c, IPassW n' c' => n = n' /\ c = c' /\ istmp n = false
    | HCopy p b, ICopy b' => b = b' /\ flook p fs = Some b
    | HDir d n f c, IDir n' f' c' w => n = n' /\ f = f' /\ c = c' /\ flook (tpath d) fs = w /\ istmp n = false
    | _, _ => False
    end.

  Definition Rel (r : nstate) (s : istate) : Prop :=
    Forall2 (arel (hrel (n_fs r))) (n_open r) (i_open s)
    /\ NoDup (tpaths (n_open r))
    /\ (forall p, In p (tpaths (n_open r)) -> istmp p = true /\ flook p (i_fs s) = None)
    /\ (forall p, ~ In p (tpaths (n_open r)) -> flook p (n_fs r) = flook p (i_fs s)).

  Lemma hrel_ext : forall fs fs' h ih,
    (forall q, In q (hpaths h) -> flook q fs' = flook q fs) -> hrel fs h ih -> hrel fs' h ih.
  Proof.
    intros fs fs' h ih E H. destruct h, ih; cbn in *; try assumption.
    - destruct H as [-> H]. split; [reflexivity|]. rewrite E by (left; reflexivity). exact H.
    - destruct H as (-> & -> & -> & H & I). repeat split; try assumption. rewrite E by (left; reflexivity). exact H.
  Qed.

  Lemma open_ext : forall fs fs' l l',
    (forall q, In q (tpaths l) -> flook q fs' = flook q fs) ->
    Forall2 (arel (hrel fs)) l l' -> Forall2 (arel (hrel fs')) l l'.
  Proof.
    intros fs fs' l l' E F. induction F as [|[k h] [k' ih] l l' [E1 H] F IH]; constructor.
    - split; [exact E1|]. cbn in *. apply (hrel_ext fs); [|exact H].
      intros q I. apply E. apply in_or_app. left. exact I.
    - apply IH. intros q I. apply E. rewrite tpaths_cons. apply in_or_app. right. exact I.
  Qed.

  Lemma open_in : forall fs l l' i h, Forall2 (arel (hrel fs)) l l' -> In (i, h) l -> exists ih, hrel fs h ih.
  Proof.
    intros fs l l' i h F. induction F as [|[k a] [k' b] l l' [_ H] F IH]; cbn; [tauto|].
    intros [E|I]; [inversion E; subst; exists b; exact H|apply IH; exact I].
  Qed.

  (* a path that does not exist, is no 'temp' of a live directory: it is nobody's temporary path *)
  Lemma not_open_file : forall r s q, Rel r s -> flook q (n_fs r) = None ->
    (forall d, In d (live_dirs (n_open r)) -> q <> tpath d) -> ~ In q (tpaths (n_open r)).
  Proof.
    intros r s q (F & _) N D I. destruct (tpaths_cases q _ I) as [(i & b & J)|(d & J & E)].
    - destruct (open_in _ _ _ _ _ F J) as [ih H]. destruct ih; cbn in H; try contradiction.
      destruct H as [_ H]. congruence.
    - exact (D d J E).
  Qed.

  Lemma user_not_open : forall r s n, Rel r s -> istmp n = false -> ~ In n (tpaths (n_open r)).
  Proof. intros r s n (_ & _ & T & _) U I. destruct (T n I) as [T1 _]. congruence. Qed.

  (* ---- the file system changes only outside all temporary paths or not at all ---- *)
  Lemma Rel_same_files : forall r s fs', Rel r s -> (forall q, flook q fs' = flook q (n_fs r)) ->
    Rel (mkN fs' (n_open r)) s.
  Proof.
    intros r s fs' (F & N & T & O) E. split; [|split; [|split]]; cbn [n_fs n_open].
    - apply (open_ext (n_fs r)); [intros; apply E|exact F].
    - exact N.
    - exact T.
    - intros p I. rewrite E. apply O. exact I.
  Qed.

  (* ---- both sides write a user file ---- *)
  Lemma Rel_user_write : forall r s n x, Rel r s -> istmp n = false ->
    Rel (mkN (fwrite n x (n_fs r)) (n_open r)) (mkI (fwrite n x (i_fs s)) (i_open s)).
  Proof.
    intros r s n x RS U. pose proof (user_not_open r s n RS U) as NI.
    destruct RS as (F & N & T & O). split; [|split; [|split]]; cbn [n_fs n_open i_fs i_open].
    - apply (open_ext (n_fs r)); [|exact F]. intros q I. apply flook_fwrite_other. intros ->. contradiction.
    - exact N.
    - intros p H. destruct (T p H) as [T1 T2]. split; [exact T1|].
      rewrite flook_fwrite_other; [exact T2|]. intros ->. congruence.
    - intros p I. destruct (str_eqb n p) eqn:E.
      + apply str_eqb_eq in E. subst p. rewrite !flook_fwrite_same. reflexivity.
      + assert (n <> p) by (intros ->; rewrite str_eqb_refl in E; discriminate).
        rewrite !flook_fwrite_other by assumption. apply O. exact I.
  Qed.

  (* ---- a new handle with a new temporary path ---- *)
  Lemma Rel_open : forall r s i h ih fs' q,
    Rel r s -> hpaths h = [q] -> ~ In q (tpaths (n_open r)) -> istmp q = true ->
    flook q (n_fs r) = None ->
    (forall p, p <> q -> flook p fs' = flook p (n_fs r)) ->
    hrel fs' h ih ->
    Rel (mkN fs' ((i, h) :: n_open r)) (mkI (i_fs s) ((i, ih) :: i_open s)).
  Proof.
    intros r s i h ih fs' q (F & N & T & O) HP NI TQ NQ E H.
    split; [|split; [|split]]; cbn [n_fs n_open i_fs i_open]; rewrite ?tpaths_cons, ?HP; cbn [app].
    - constructor; [split; [reflexivity|exact H]|].
      apply (open_ext (n_fs r)); [|exact F]. intros p I. apply E. intros ->. contradiction.
    - constructor; assumption.
    - intros p [<-|I]; [|apply T; exact I]. split; [exact TQ|]. rewrite <- O by exact NI. exact NQ.
    - intros p I. rewrite E by (intros ->; apply I; left; reflexivity).
      apply O. intros J. apply I. right. exact J.
  Qed.

  Lemma Rel_open_pass : forall r s i h ih,
    Rel r s -> hpaths h = [] -> hrel (n_fs r) h ih ->
    Rel (mkN (n_fs r) ((i, h) :: n_open r)) (mkI (i_fs s) ((i, ih) :: i_open s)).
  Proof.
    intros r s i h ih (F & N & T & O) HP H.
    split; [|split; [|split]]; cbn [n_fs n_open i_fs i_open]; rewrite ?tpaths_cons, ?HP; cbn [app]; try assumption.
    constructor; [split; [reflexivity|exact H]|exact F].
  Qed.

  (* ---- a handle is closed: its temporary path is removed, a user file may be written ---- *)
  Lemma Rel_close : forall r s i h ih l1 l2 l1' l2' fs' ifs',
    Rel r s ->
    n_open r = l1 ++ (i, h) :: l2 -> i_open s = l1' ++ (i, ih) :: l2' ->
    Forall2 (arel (hrel (n_fs r))) l1 l1' -> Forall2 (arel (hrel (n_fs r))) l2 l2' ->
    (forall p, In p (tpaths (l1 ++ l2)) -> flook p fs' = flook p (n_fs r) /\ flook p ifs' = flook p (i_fs s)) ->
    (forall p, In p (hpaths h) -> flook p fs' = None /\ flook p ifs' = None) ->
    (forall p, ~ In p (tpaths (n_open r)) -> flook p fs' = flook p ifs') ->
    Rel (mkN fs' (l1 ++ l2)) (mkI ifs' (l1' ++ l2')).
  Proof.
    intros r s i h ih l1 l2 l1' l2' fs' ifs' (F & N & T & O) E1 E2 F1 F2 K C U.
    rewrite E1 in N, T, U. rewrite tpaths_app, tpaths_cons in N, T, U.
    assert (SUB : forall p, In p (tpaths (l1 ++ l2)) -> In p (tpaths l1 ++ hpaths h ++ tpaths l2)).
    { intros p I. rewrite tpaths_app in I. apply in_app_or in I. apply in_or_app.
      destruct I; [left; assumption|right; apply in_or_app; right; assumption]. }
    split; [|split; [|split]]; cbn [n_fs n_open i_fs i_open].
    - apply Forall2_app.
      + apply (open_ext (n_fs r)); [|exact F1]. intros q I. apply K. rewrite tpaths_app. apply in_or_app. left. exact I.
      + apply (open_ext (n_fs r)); [|exact F2]. intros q I. apply K. rewrite tpaths_app. apply in_or_app. right. exact I.
    - rewrite tpaths_app. clear -N. revert N. generalize (tpaths l1) (tpaths l2) (hpaths h). intros a b c.
      induction c as [|x c IH]; cbn; [tauto|]. intros N. apply IH. apply NoDup_remove_1 in N. exact N.
    - intros p H. split; [apply T; apply SUB; exact H|].
      destruct (K p H) as [_ ->]. apply T. apply SUB. exact H.
    - intros p I. destruct (in_dec (list_eq_dec ascii_dec) p (hpaths h)) as [J|J].
      + destruct (C p J) as [-> ->]. reflexivity.
      + apply U. intros M. apply in_app_or in M. destruct M as [M|M].
        * apply I. rewrite tpaths_app. apply in_or_app. left. exact M.
        * apply in_app_or in M. destruct M as [M|M]; [contradiction|].
          apply I. rewrite tpaths_app. apply in_or_app. right. exact M.
  Qed.

  (* the temporary path of a handle that is being closed is not among the others *)
  Lemma closing_path_alone : forall (l1 l2 : list (nat * handle)) i h q,
    NoDup (tpaths (l1 ++ (i, h) :: l2)) -> In q (hpaths h) -> ~ In q (tpaths (l1 ++ l2)).
  Proof.
    intros l1 l2 i h q N I. rewrite tpaths_app, tpaths_cons in N. rewrite tpaths_app.
    destruct h; cbn in I; try tauto; destruct I as [<-|[]]; cbn [hpaths app] in N;
      apply NoDup_remove_2 in N; exact N.
  Qed.

  Variable bs : list blk.
  Hypothesis Hu : user_names_ok istmp bs.

  Lemma step_sim : forall r s e, Rel r s ->
    let '(r', o) := step bs r e in
    let '(s', o') := istep bs s e in
    o = o' /\ Rel r' s'.
  Proof.
    intros r s e RS. destruct r as [fs op], s as [ifs iop].
    pose proof RS as (F & N & T & O). cbn [n_fs n_open i_fs i_open] in F, N, T, O.
    destruct e as [i|i|i exc]; cbn [C12_nested.step C12_nested.istep n_fs n_open i_fs i_open].
    - (* Enter *)
      destruct (look i op) as [h|] eqn:L.
      + destruct (look_split _ i _ _ h F L) as (l1 & l2 & l1' & l2' & ih & _ & E2 & _ & _ & _ & _ & N2).
        rewrite E2, look_mid by exact N2. rewrite <- E2. split; [reflexivity|exact RS].
      + rewrite (look_none_rel _ i _ _ F L).
        destruct (nth_error bs i) as [b|] eqn:B; [|split; [reflexivity|exact RS]].
        assert (U : istmp (blk_name b) = false) by (apply Hu; eapply nth_error_In; exact B).
        destruct b as [name td|name fa content td]; cbn [blk_name] in U;
          cbn [enter_blk ienter_blk n_fs n_open i_fs i_open].
        * destruct (negb (known (fmt_of_name name))).
          { split; [reflexivity|]. apply (Rel_open_pass _ _ i _ _ RS); [reflexivity|].
            cbn. split; [reflexivity|exact U]. }
          set (p := freshf fs (live_dirs op) td name).
          destruct (Hf fs (live_dirs op) td name) as (P1 & P2 & P3). fold p in P1, P2, P3.
          assert (NI : ~ In p (tpaths op)) by (apply (not_open_file _ _ p RS); assumption).
          assert (NP : name <> p) by (intros E; rewrite E in U; congruence).
          assert (A : flook name (fwrite p [] fs) = flook name ifs).
          { rewrite flook_fwrite_other by congruence. apply O. apply (user_not_open _ _ name RS); assumption. }
          rewrite A.
          assert (SAME : forall w, (forall q, flook q (funlink p w) = flook q fs) ->
                               Rel (mkN (funlink p w) op) (mkI ifs iop))
            by (intros w W; apply (Rel_same_files _ _ _ RS); exact W).
          assert (E0 : forall q x, (forall z, z <> p -> flook z x = flook z fs) ->
                                 flook q (funlink p x) = flook q fs).
          { intros q x X. destruct (str_eqb p q) eqn:E.
            - apply str_eqb_eq in E. rewrite <- E. rewrite flook_funlink_same. symmetry. exact P1.
            - assert (p <> q) by (intros E'; rewrite E', str_eqb_refl in E; discriminate).
              rewrite flook_funlink_other by assumption. apply X. congruence. }
          assert (W1 : forall z, z <> p -> flook z (fwrite p [] fs) = flook z fs)
            by (intros; apply flook_fwrite_other; congruence).
          destruct (flook name ifs) as [x|].
          2:{ split; [reflexivity|]. apply SAME. intros q. apply E0. exact W1. }
          destruct (dec (fmt_of_name name) (member_d name) x) as [pl| |w].
          { split; [reflexivity|].
            apply (Rel_open _ _ i (HCopy p pl) (ICopy pl) _ p RS); try assumption; try reflexivity.
            - intros q Q. rewrite flook_fwrite_other by congruence. apply W1. exact Q.
            - unfold hrel. split; [reflexivity|apply flook_fwrite_same]. }
          { split; [reflexivity|]. apply SAME. intros q. apply E0. exact W1. }
          { split; [reflexivity|]. apply SAME. intros q. apply E0.
            intros z Z. rewrite flook_fwrite_other by congruence. apply W1. exact Z. }
        * destruct (negb (known (eff_fmt name fa))).
          { split; [reflexivity|]. apply (Rel_open_pass _ _ i _ _ RS); [reflexivity|].
            cbn. repeat split. exact U. }
          set (d := freshd fs (live_dirs op) td).
          destruct (Hd fs (live_dirs op) td) as (D1 & D2 & D3). fold d in D1, D2, D3.
          split; [reflexivity|].
          assert (NI : ~ In (tpath d) (tpaths op)).
          { apply (not_open_file _ _ (tpath d) RS); try assumption.
            intros d' I E. apply tpath_inj in E. rewrite <- E in I. contradiction. }
          apply (Rel_open _ _ i (HDir d name (eff_fmt name fa) content) (IDir name (eff_fmt name fa) content None)
                          fs (tpath d) RS); try assumption; try reflexivity.
          unfold hrel. repeat split; assumption.
    - (* Use *)
      destruct (look i op) as [h|] eqn:L.
      2:{ rewrite (look_none_rel _ i _ _ F L). split; [reflexivity|exact RS]. }
      destruct (look_split _ i _ _ h F L) as (l1 & l2 & l1' & l2' & ih & E1 & E2 & F1 & F2 & H & N1 & N2).
      subst op iop. rewrite look_mid by exact N2.
      destruct h as [n|n c|p b|d n f c], ih as [n'|n' c'|b'|n' f' c' w]; cbn in H; try contradiction;
        cbn [use_handle iuse_handle n_fs n_open i_fs i_open].
      + destruct H as [<- U]. split; [|exact RS]. f_equal. apply O. apply (user_not_open _ _ n RS); assumption.
      + destruct H as (<- & <- & U). split; [reflexivity|]. apply (Rel_user_write _ _ n c RS); assumption.
      + destruct H as [<- H]. rewrite H. split; [reflexivity|exact RS].
      + destruct H as (<- & <- & <- & H & U). split; [reflexivity|].
        rewrite upd_app_none by exact N2.
        assert (Q : In (tpath d) (tpaths (l1 ++ (i, HDir d n f c) :: l2))).
        { rewrite tpaths_app, tpaths_cons. apply in_or_app. right. left. reflexivity. }
        assert (OT : forall q, In q (tpaths (l1 ++ l2)) -> q <> tpath d).
        { intros q I ->. exact (closing_path_alone l1 l2 i _ (tpath d) N (or_introl eq_refl) I). }
        split; [|split; [|split]]; cbn [n_fs n_open i_fs i_open].
        * apply Forall2_app.
          { apply (open_ext fs); [|exact F1]. intros q I. apply flook_fwrite_other.
            intros X. apply (OT q); [rewrite tpaths_app; apply in_or_app; left; exact I|symmetry; exact X]. }
          constructor.
          { split; [reflexivity|]. unfold hrel. cbn [snd]. repeat split; try assumption. apply flook_fwrite_same. }
          apply (open_ext fs); [|exact F2]. intros q I. apply flook_fwrite_other.
          intros X. apply (OT q); [rewrite tpaths_app; apply in_or_app; right; exact I|symmetry; exact X].
        * exact N.
        * exact T.
        * intros p I. rewrite flook_fwrite_other by (intros <-; contradiction). apply O. exact I.
    - (* Leave *)
      destruct (look i op) as [h|] eqn:L.
      2:{ rewrite (look_none_rel _ i _ _ F L). split; [reflexivity|exact RS]. }
      destruct (look_split _ i _ _ h F L) as (l1 & l2 & l1' & l2' & ih & E1 & E2 & F1 & F2 & H & N1 & N2).
      subst op iop. rewrite look_mid by exact N2. rewrite !del_app_none by assumption.
      assert (ALONE : forall q, In q (hpaths h) -> ~ In q (tpaths (l1 ++ l2))).
      { intros q I. exact (closing_path_alone l1 l2 i h q N I). }
      assert (INQ : forall q, In q (hpaths h) -> In q (tpaths (l1 ++ (i, h) :: l2))).
      { intros q I. rewrite tpaths_app, tpaths_cons. apply in_or_app. right. apply in_or_app. left. exact I. }
      destruct h as [n|n c|p b|d n f c], ih as [n'|n' c'|b'|n' f' c' w]; cbn in H; try contradiction;
        cbn [leave_handle ileave_handle].
      + split; [reflexivity|].
        apply (Rel_close _ _ i _ _ l1 l2 l1' l2' fs ifs RS eq_refl eq_refl F1 F2).
        * intros; split; reflexivity.
        * intros p [].
        * exact O.
      + split; [reflexivity|].
        apply (Rel_close _ _ i _ _ l1 l2 l1' l2' fs ifs RS eq_refl eq_refl F1 F2).
        * intros; split; reflexivity.
        * intros p [].
        * exact O.
      + destruct H as [<- H]. rewrite H. split; [reflexivity|].
        apply (Rel_close _ _ i _ _ l1 l2 l1' l2' (funlink p fs) ifs RS eq_refl eq_refl F1 F2).
        * intros q I. split; [|reflexivity]. apply flook_funlink_other. intros ->.
          exact (ALONE q (or_introl eq_refl) I).
        * intros q [<-|[]]. split; [apply flook_funlink_same|]. apply T. apply INQ. left. reflexivity.
        * intros q I. cbn [n_open] in I. rewrite flook_funlink_other; [apply O; exact I|].
          intros ->. apply I. apply INQ. left. reflexivity.
      + destruct H as (<- & <- & <- & H & U).
        assert (TQ : istmp (tpath d) = true /\ flook (tpath d) ifs = None)
          by (apply T; apply INQ; left; reflexivity).
        destruct TQ as [TQ1 TQ2].
        assert (NQ : n <> tpath d) by (intros E; rewrite E in U; congruence).
        destruct exc.
        * split; [reflexivity|].
          apply (Rel_close _ _ i _ _ l1 l2 l1' l2' (funlink (tpath d) fs) ifs RS eq_refl eq_refl F1 F2).
          { intros q I. split; [|reflexivity]. apply flook_funlink_other. intros <-.
            exact (ALONE _ (or_introl eq_refl) I). }
          { intros q [<-|[]]. split; [apply flook_funlink_same|exact TQ2]. }
          { intros q I. cbn [n_open] in I. rewrite flook_funlink_other; [apply O; exact I|].
            intros <-. apply I. apply INQ. left. reflexivity. }
        * rewrite H.
          destruct (compress_as_shape known enc encp w f n CNone) as (wr & o & SH).
          rewrite !SH. split; [reflexivity|].
          destruct wr as [x|].
          2:{ apply (Rel_close _ _ i _ _ l1 l2 l1' l2' (funlink (tpath d) fs) ifs RS eq_refl eq_refl F1 F2).
              { intros q I. split; [|reflexivity]. apply flook_funlink_other. intros <-.
                exact (ALONE _ (or_introl eq_refl) I). }
              { intros q [<-|[]]. split; [apply flook_funlink_same|exact TQ2]. }
              { intros q I. cbn [n_open] in I. rewrite flook_funlink_other; [apply O; exact I|].
                intros <-. apply I. apply INQ. left. reflexivity. } }
          apply (Rel_close _ _ i _ _ l1 l2 l1' l2' (funlink (tpath d) (fwrite n x fs)) (fwrite n x ifs)
                           RS eq_refl eq_refl F1 F2).
          { intros q I.
            assert (QT : istmp q = true).
            { apply T. rewrite tpaths_app, tpaths_cons. rewrite tpaths_app in I. apply in_app_or in I.
              apply in_or_app. destruct I; [left; assumption|right; apply in_or_app; right; assumption]. }
            assert (n <> q) by (intros E; rewrite E in U; congruence).
            cbn [n_fs i_fs].
            split; [|apply flook_fwrite_other; assumption].
            rewrite flook_funlink_other; [apply flook_fwrite_other; assumption|].
            intros <-. exact (ALONE _ (or_introl eq_refl) I). }
          { intros q [<-|[]]. split; [apply flook_funlink_same|].
            rewrite flook_fwrite_other by exact NQ. exact TQ2. }
          { intros q I. cbn [n_open] in I.
            rewrite flook_funlink_other by (intros <-; apply I; apply INQ; left; reflexivity).
            destruct (str_eqb n q) eqn:E.
            - apply str_eqb_eq in E. subst q. rewrite !flook_fwrite_same. reflexivity.
            - assert (n <> q) by (intros ->; rewrite str_eqb_refl in E; discriminate).
              rewrite !flook_fwrite_other by assumption. apply O. exact I. }
  Qed.

  Lemma hist_sim : forall evs r s, Rel r s ->
    snd (run_hist bs evs r) = snd (ideal_hist bs evs s)
    /\ Rel (fst (run_hist bs evs r)) (fst (ideal_hist bs evs s)).
  Proof.
    induction evs as [|e evs IH]; intros r s RS; cbn [C12_nested.run_hist C12_nested.ideal_hist].
    - split; [reflexivity|exact RS].
    - pose proof (step_sim r s e RS) as S.
      destruct (step bs r e) as [r1 o]. destruct (istep bs s e) as [s1 o']. destruct S as [<- R1].
      destruct (IH r1 s1 R1) as [L R2].
      destruct (run_hist bs evs r1) as [r2 os]. destruct (ideal_hist bs evs s1) as [s2 os'].
      cbn [fst snd] in *. split; [f_equal; exact L|exact R2].
  Qed.

  Lemma Rel_start : forall fs0, Rel (mkN fs0 []) (mkI fs0 []).
  Proof.
    intros fs0. split; [|split; [|split]]; cbn.
    - constructor.
    - constructor.
    - intros p [].
    - reflexivity.
  Qed.

  (* the theorem: same observations, same blocks open, same files outside the temporary paths of the
     blocks that are still open *)
  Lemma nested_independent : forall fs0 evs,
    let r := run_hist bs evs (mkN fs0 []) in
    let s := ideal_hist bs evs (mkI fs0 []) in
    snd r = snd s
    /\ map fst (n_open (fst r)) = map fst (i_open (fst s))
    /\ (forall p, ~ In p (tpaths (n_open (fst r))) -> flook p (n_fs (fst r)) = flook p (i_fs (fst s))).
  Proof.
    intros fs0 evs r s. destruct (hist_sim evs _ _ (Rel_start fs0)) as [L (F & _ & _ & O)].
    fold r s in L, F, O. split; [exact L|]. split; [|exact O].
    clear -F. induction F as [|[k a] [k' b] l l' [E _] F IH]; cbn; [reflexivity|]. cbn in E. subst. f_equal. exact IH.
  Qed.
End Sim.

(* ------------------------------------------------------------------ the ideal history touches nothing
   but the targets of its compress blocks *)
Lemma look_in : forall A i (l : list (nat * A)) h, look i l = Some h -> In (i, h) l.
Proof.
  intros A i l h. induction l as [|[k a] l IH]; cbn; [discriminate|].
  destruct (Nat.eqb k i) eqn:K.
  - intros E. inversion E; subst. apply Nat.eqb_eq in K. subst. left. reflexivity.
  - intros E. right. apply IH. exact E.
Qed.

Lemma Forall_del : forall A (P : nat * A -> Prop) i l, Forall P l -> Forall P (del i l).
Proof.
  intros A P i l F. induction F as [|[k a] l Pa F IH]; cbn; [constructor|].
  destruct (Nat.eqb k i); [exact F|constructor; assumption].
Qed.

Lemma Forall_upd : forall A (P : nat * A -> Prop) i v l,
  (forall k, P (k, v)) -> Forall P l -> Forall P (upd i v l).
Proof.
  intros A P i v l Pv F. induction F as [|[k a] l Pa F IH]; cbn; [constructor|].
  destruct (Nat.eqb k i); constructor; try assumption. apply Pv.
Qed.

Section Ideal.
  Variable known : str -> bool.
  Variable enc : str -> str -> bytes -> bytes.
  Variable encp : str -> bytes.
  Variable dec : str -> str -> bytes -> dres.
  Variable bs : list blk.
  Variable fs0 : fsmap.

  Definition targ_ok (x : nat * ihandle) : Prop :=
    match snd x with
    | IPassW n _ | IDir n _ _ _ => In n (comp_targets bs)
    | _ => True
    end.
  Definition Iinv (s : istate) : Prop :=
    (forall p, ~ In p (comp_targets bs) -> flook p (i_fs s) = flook p fs0) /\ Forall targ_ok (i_open s).

  Lemma comp_target_in : forall i n fa c td, nth_error bs i = Some (BComp n fa c td) -> In n (comp_targets bs).
  Proof.
    intros i n fa c td H. apply nth_error_In in H. unfold comp_targets. apply in_flat_map.
    exists (BComp n fa c td). split; [exact H|left; reflexivity].
  Qed.

  Lemma istep_inv : forall s e, Iinv s -> Iinv (fst (istep known enc encp dec bs s e)).
  Proof.
    intros s e [P F]. destruct e as [i|i|i exc]; cbn [istep].
    - destruct (look i (i_open s)); [split; assumption|].
      destruct (nth_error bs i) as [[name td|name fa c td]|] eqn:B; [| |split; assumption]; cbn [ienter_blk].
      + destruct (negb (known (fmt_of_name name))).
        * split; [exact P|]. constructor; [exact I|exact F].
        * destruct (flook name (i_fs s)); [|split; assumption].
          destruct (dec _ _ _); try (split; assumption).
          split; [exact P|]. constructor; [exact I|exact F].
      + pose proof (comp_target_in _ _ _ _ _ B) as T.
        destruct (negb (known (eff_fmt name fa))); (split; [exact P|]); constructor; try exact F; exact T.
    - destruct (look i (i_open s)) as [h|] eqn:L; [|split; assumption].
      pose proof (look_in _ _ _ _ L) as J. rewrite Forall_forall in F. pose proof (F _ J) as TH.
      rewrite <- Forall_forall in F.
      destruct h; cbn [iuse_handle fst]; try (split; assumption).
      + split; [|exact F]. cbn [i_fs]. intros p NP. rewrite flook_fwrite_other; [apply P; exact NP|].
        intros <-. apply NP. exact TH.
      + split; [exact P|]. cbn [i_open]. apply Forall_upd; [|exact F]. intros k. exact TH.
    - destruct (look i (i_open s)) as [h|] eqn:L; [|split; assumption].
      pose proof (look_in _ _ _ _ L) as J. rewrite Forall_forall in F. pose proof (F _ J) as TH.
      rewrite <- Forall_forall in F.
      destruct h as [n0|n0 c0|b0|n0 f0 c0 w0]; cbn [ileave_handle]; try (split; [exact P|apply Forall_del; exact F]).
      destruct exc; [split; [exact P|apply Forall_del; exact F]|].
      destruct (compress_as_shape known enc encp w0 f0 n0 CNone) as (wr & o & SH). rewrite SH.
      split; [|apply Forall_del; exact F]. cbn [fst i_fs]. destruct wr as [x|]; [|exact P].
      intros p NP. rewrite flook_fwrite_other; [apply P; exact NP|]. intros <-. apply NP. exact TH.
  Qed.

  Lemma ideal_hist_inv : forall evs s, Iinv s -> Iinv (fst (ideal_hist known enc encp dec bs evs s)).
  Proof.
    induction evs as [|e evs IH]; intros s H; cbn [ideal_hist]; [exact H|].
    pose proof (istep_inv s e H) as H1. destruct (istep known enc encp dec bs s e) as [s1 o]. cbn [fst] in H1.
    specialize (IH s1 H1). destruct (ideal_hist known enc encp dec bs evs s1) as [s2 os]. exact IH.
  Qed.

  Lemma ideal_only_targets : forall evs p, ~ In p (comp_targets bs) ->
    flook p (i_fs (fst (ideal_hist known enc encp dec bs evs (mkI fs0 [])))) = flook p fs0.
  Proof.
    intros evs p NP. apply (ideal_hist_inv evs (mkI fs0 [])); [|exact NP].
    split; [reflexivity|constructor].
  Qed.
End Ideal.

(* ------------------------------------------------------------------ consequences *)
Section Cor.
  Variable known : str -> bool.
  Variable enc : str -> str -> bytes -> bytes.
  Variable encp : str -> bytes.
  Variable dec : str -> str -> bytes -> dres.
  Variable freshf : fsmap -> list str -> str -> str -> str.
  Variable freshd : fsmap -> list str -> str -> str.
  Variable istmp : str -> bool.
  Hypothesis Hf : fresh_file_ok istmp freshf.
  Hypothesis Hd : fresh_dir_ok istmp freshd.

  (* when every block has been left, no temporary file remains and every file that is not the target
     of a compress block -- every archive, every bystander -- is byte for byte what it was *)
  Lemma nested_no_debris : forall bs, user_names_ok istmp bs -> forall fs0 evs,
    let r := fst (run_hist known enc encp dec freshf freshd bs evs (mkN fs0 [])) in
    n_open r = [] -> forall p, ~ In p (comp_targets bs) -> flook p (n_fs r) = flook p fs0.
  Proof.
    intros bs Hu fs0 evs r E p NP.
    destruct (nested_independent known enc encp dec freshf freshd istmp Hf Hd bs Hu fs0 evs) as (_ & _ & O).
    fold r in O. rewrite O by (rewrite E; intros []). apply ideal_only_targets. exact NP.
  Qed.

  (* two decompress blocks, nested or overlapping, any two archives (also the same one twice, the same
     stem, the same temporary directory), with or without an exception in either body *)
  Lemma two_decompress_blocks : forall fs0 A B tdA tdB xA xB bA bB (nested e0 e1 : bool),
    istmp A = false -> istmp B = false ->
    known (fmt_of_name A) = true -> known (fmt_of_name B) = true ->
    flook A fs0 = Some xA -> dec (fmt_of_name A) (member_d A) xA = DOk bA ->
    flook B fs0 = Some xB -> dec (fmt_of_name B) (member_d B) xB = DOk bB ->
    let bs := [BDec A tdA; BDec B tdB] in
    let evs := if nested
               then [Enter 0; Use 0; Enter 1; Use 1; Use 0; Leave 1 e1; Use 0; Leave 0 e0]
               else [Enter 0; Use 0; Enter 1; Use 1; Use 0; Leave 0 e0; Use 1; Leave 1 e1] in
    let r := run_hist known enc encp dec freshf freshd bs evs (mkN fs0 []) in
    snd r = [OEnter false YTemp; ORead (Some bA); OEnter false YTemp; ORead (Some bB); ORead (Some bA);
             OLeave false; ORead (Some (if nested then bA else bB)); OLeave false]
    /\ n_open (fst r) = [] /\ (forall p, flook p (n_fs (fst r)) = flook p fs0).
  Proof.
    intros fs0 A B tdA tdB xA xB bA bB nested e0 e1 UA UB KA KB LA DA LB DB bs evs r.
    assert (Hu : user_names_ok istmp bs).
    { intros b [<-|[<-|[]]]; assumption. }
    destruct (nested_independent known enc encp dec freshf freshd istmp Hf Hd bs Hu fs0 evs) as (L & M & O).
    fold r in L, M, O.
    assert (I : ideal_hist known enc encp dec bs evs (mkI fs0 []) =
                (mkI fs0 [], [OEnter false YTemp; ORead (Some bA); OEnter false YTemp; ORead (Some bB);
                              ORead (Some bA); OLeave false; ORead (Some (if nested then bA else bB)); OLeave false])).
    { unfold evs, bs. destruct nested;
        cbn [ideal_hist istep look nth_error ienter_blk iuse_handle ileave_handle del i_open i_fs Nat.eqb];
        rewrite ?KA, ?KB; cbn [negb]; rewrite ?LA, ?DA, ?LB, ?DB;
        cbn [ideal_hist istep look nth_error ienter_blk iuse_handle ileave_handle del i_open i_fs Nat.eqb];
        rewrite ?KA, ?KB; cbn [negb]; rewrite ?LA, ?DA, ?LB, ?DB;
        cbn [ideal_hist istep look nth_error ienter_blk iuse_handle ileave_handle del i_open i_fs Nat.eqb];
        reflexivity. }
    rewrite I in L, M, O. cbn [fst snd i_open i_fs map] in L, M, O.
    apply map_eq_nil in M. split; [exact L|]. split; [exact M|].
    intros p. apply O. rewrite M. intros [].
  Qed.
End Cor.

(* ------------------------------------------------------------------ one block: the phases compose to
   the one-block model of Model/C12_compress.v, with the oracle's name in the place of target= *)
Lemma single_block_phases : forall known enc encp dec freshf freshd fs tds tfs nx name td,
  known (fmt_of_name name) = true ->
  let p := freshf fs [] td name in
  let r := run_decompress known dec (mkSt fs tds tfs nx) name (Some p) DNone in
  let h := run_hist known enc encp dec freshf freshd [BDec name td] [Enter 0; Use 0; Leave 0 false] (mkN fs []) in
  n_fs (fst h) = files (d_st r) /\ n_open (fst h) = [] /\
  snd h = match d_out r with
          | Done => [OEnter false YTemp; ORead (d_read r); OLeave false]
          | Raised => [OEnter true YNone; OSkip; OSkip]
          end.
Proof.
  intros known enc encp dec freshf freshd fs tds tfs nx name td K p r h.
  unfold h, r, run_decompress, set_files.
  cbn [run_hist step look nth_error n_open enter_blk n_fs live_dirs flat_map files].
  rewrite K. cbn [negb]. fold p.
  destruct (flook name (fwrite p [] fs)) as [x|]; [|cbn; repeat split].
  destruct (dec (fmt_of_name name) (member_d name) x) as [pl| |w]; [|cbn; repeat split|cbn; repeat split].
  cbn [look Nat.eqb n_open use_handle leave_handle n_fs del fst snd d_st d_out d_read files].
  rewrite flook_fwrite_same. cbn [fst snd n_fs n_open]. repeat split.
Qed.

Lemma single_compress_phases : forall known enc encp dec freshf freshd st name fa b td,
  known (eff_fmt name fa) = true ->
  let d := freshd (files st) [] td in
  flook (tpath d) (files st) = None -> name <> tpath d ->
  let rc := run_compress known enc encp st name fa b CNone in
  let h := run_hist known enc encp dec freshf freshd [BComp name fa b td] [Enter 0; Use 0; Leave 0 false]
                    (mkN (files st) []) in
  (forall p, flook p (n_fs (fst h)) = flook p (files (c_st rc))) /\ n_open (fst h) = [] /\
  snd h = [OEnter false YTemp; OWrite; OLeave (raisedb (c_out rc))].
Proof.
  intros known enc encp dec freshf freshd st name fa b td K d FR NQ rc h.
  destruct (compress_as_shape known enc encp (Some b) (eff_fmt name fa) name CNone) as (wr & o & SH).
  assert (RC : files (c_st rc) = match wr with Some x => fwrite name x (files st) | None => files st end
               /\ c_out rc = o).
  { unfold rc. rewrite run_compress_known_eq by (assumption || discriminate). cbn [body_write].
    pose proof (tmpdir_cycle st (Some b)) as T. cbv zeta in T.
    destruct (T []) as (_ & _ & _ & F2 & R & _). rewrite R, F2, SH. cbn [c_st c_out].
    split; [|reflexivity]. apply (T (match wr with Some x => fwrite name x (files st) | None => files st end)). }
  destruct RC as [RC1 RC2]. rewrite RC1, RC2.
  unfold h. cbn [run_hist step look nth_error n_open enter_blk n_fs live_dirs flat_map].
  rewrite K. cbn [negb]. fold d.
  cbn [look Nat.eqb n_open use_handle leave_handle n_fs del fst snd].
  rewrite flook_fwrite_same, SH. cbn [fst snd n_fs n_open]. split; [|split; reflexivity].
  intros p. destruct (str_eqb (tpath d) p) eqn:E.
  - apply str_eqb_eq in E. subst p. rewrite flook_funlink_same.
    destruct wr; [rewrite flook_fwrite_other by exact NQ|]; symmetry; exact FR.
  - assert (tpath d <> p) by (intros E'; rewrite E', str_eqb_refl in E; discriminate).
    rewrite flook_funlink_other by assumption.
    destruct wr as [x|].
    + destruct (str_eqb name p) eqn:E2.
      * apply str_eqb_eq in E2. subst p. rewrite !flook_fwrite_same. reflexivity.
      * assert (name <> p) by (intros E'; rewrite E', str_eqb_refl in E2; discriminate).
        rewrite !flook_fwrite_other by assumption. reflexivity.
    + rewrite !flook_fwrite_other by assumption. reflexivity.
Qed.

(* ------------------------------------------------------------------ the concrete oracle is fresh *)
Lemma maxlen_ge : forall k l, In k l -> (List.length k <= maxlen l)%nat.
Proof.
  intros k l. induction l as [|x l IH]; [intros []|].
  change (maxlen (x :: l)) with (Nat.max (List.length x) (maxlen l)).
  intros [->|I]; [lia|]. specialize (IH I). lia.
Qed.

Lemma flook_none_long : forall p fs, (maxlen (map fst fs) < List.length p)%nat -> flook p fs = None.
Proof.
  intros p fs H. destruct (flook p fs) eqn:E; [|reflexivity].
  apply flook_some_key in E. apply maxlen_ge in E. lia.
Qed.

Lemma maxlen_app : forall a b, maxlen (a ++ b) = Nat.max (maxlen a) (maxlen b).
Proof.
  induction a as [|x a IH]; intros b; [reflexivity|].
  change (maxlen ((x :: a) ++ b)) with (Nat.max (List.length x) (maxlen (a ++ b))).
  change (maxlen (x :: a)) with (Nat.max (List.length x) (maxlen a)). rewrite IH. lia.
Qed.

Lemma tmp_name_length : forall td n, List.length (tmp_name td n) = (List.length td + 4 + n)%nat.
Proof. intros. unfold tmp_name, xs. rewrite !app_length, repeat_length. cbn. lia. Qed.

Lemma tpath_length : forall d, List.length (tpath d) = (List.length d + 5)%nat.
Proof. intros. unfold tpath. rewrite app_length. reflexivity. Qed.

Lemma prefixb_app : forall a b, prefixb a (a ++ b) = true.
Proof. induction a as [|x a IH]; intros b; cbn; [reflexivity|]. rewrite Ascii.eqb_refl, IH. reflexivity. Qed.

Lemma containsb_mid : forall a l b, containsb a (l ++ a ++ b) = true.
Proof.
  intros a l b. induction l as [|x l IH].
  - cbn [app]. destruct (a ++ b) eqn:E; cbn [containsb]; rewrite <- E, prefixb_app; reflexivity.
  - cbn [app containsb]. rewrite IH. apply orb_true_r.
Qed.

Lemma istmp0_tmp_name : forall td n rest, istmp0 (tmp_name td n ++ rest) = true.
Proof.
  intros. unfold istmp0, tmp_name. rewrite <- !app_assoc. apply containsb_mid.
Qed.

Lemma fresh0_ok : fresh_file_ok istmp0 freshf0 /\ fresh_dir_ok istmp0 freshd0.
Proof.
  split.
  - intros fs dirs td nm p. unfold p, freshf0.
    set (n := S (maxlen (map fst fs ++ map tpath dirs))).
    assert (L : (maxlen (map fst fs ++ map tpath dirs) < List.length (tmp_name td n))%nat)
      by (rewrite tmp_name_length; unfold n; lia).
    rewrite maxlen_app in L. split; [|split].
    + apply flook_none_long. lia.
    + intros d I E. assert (J : In (tpath d) (map tpath dirs)) by (apply in_map; exact I).
      apply maxlen_ge in J. rewrite <- E in J. lia.
    + rewrite <- (app_nil_r (tmp_name td n)). apply istmp0_tmp_name.
  - intros fs dirs td d. unfold d, freshd0.
    set (n := S (maxlen (map fst fs ++ dirs))).
    assert (L : (maxlen (map fst fs ++ dirs) < List.length (tmp_name td n))%nat)
      by (rewrite tmp_name_length; unfold n; lia).
    rewrite maxlen_app in L. split; [|split].
    + intros I. apply maxlen_ge in I. lia.
    + apply flook_none_long. rewrite tpath_length. lia.
    + unfold tpath. apply istmp0_tmp_name.
Qed.

(* ------------------------------------------------------------------ with a name that is a function of
   the archive's stem (the seeded change C12-g) the statement fails: two archives with the same stem
   in different directories, one temporary directory, nested blocks *)
Definition wA : str := s2l "W/2020/01/orbit.dat.gz".
Definition wB : str := s2l "W/2020/02/orbit.dat.gz".
Definition wfs : fsmap :=
  [(wA, toy_enc (s2l "gz") (s2l "orbit.dat") [1; 2]); (wB, toy_enc (s2l "gz") (s2l "orbit.dat") [3]);
   (s2l "T/orbit.dat", [7])].
Definition wbs : list blk := [BDec wA (s2l "T"); BDec wB (s2l "T")].
Definition wevs : list ev := [Enter 0; Use 0; Enter 1; Use 1; Use 0; Leave 1 false; Use 0; Leave 0 false]%nat.

Lemma stem_name_refuted :
  let r := run_hist (knownb advertised) toy_enc toy_encp toy_dec stem_name freshd0 wbs wevs (mkN wfs []) in
  let s := ideal_hist (knownb advertised) toy_enc toy_encp toy_dec wbs wevs (mkI wfs []) in
  user_names_ok istmp0 wbs /\
  snd s = [OEnter false YTemp; ORead (Some [1; 2]); OEnter false YTemp; ORead (Some [3]); ORead (Some [1; 2]);
           OLeave false; ORead (Some [1; 2]); OLeave false] /\
  (* the outer block reads the inner archive's bytes, then nothing at all, and cannot be left *)
  snd r = [OEnter false YTemp; ORead (Some [1; 2]); OEnter false YTemp; ORead (Some [3]); ORead (Some [3]);
           OLeave false; ORead None; OLeave true] /\
  n_open (fst r) = [] /\
  (* and the bystander that had the stem's name is gone *)
  flook (s2l "T/orbit.dat") wfs = Some [7] /\ flook (s2l "T/orbit.dat") (n_fs (fst r)) = None.
Proof.
  split; [intros b [<-|[<-|[]]]; reflexivity|]. vm_compute. repeat split.
Qed.
