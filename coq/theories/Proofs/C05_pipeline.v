(* C05 -- proofs about Model/C05_pipeline.v *)
From Coq Require Import ZArith List Bool Lia Permutation Arith.
From Typhon Require Import Model.C03_tree Proofs.C03_tree Model.C05_pipeline Proofs.C05_bundle.
Import ListNotations.
Open Scope Z_scope.

(* ---------- generic list lemmas ---------- *)
Lemma NoDup_app_iff {X} (a b : list X) :
  NoDup (a ++ b) <-> NoDup a /\ NoDup b /\ (forall x, In x a -> In x b -> False).
Proof.
  induction a as [|y t IH]; cbn [app].
  - split; [intros H; repeat split; [constructor|exact H|intros x []]|intros (_ & H & _); exact H].
  - split.
    + intros H. inversion H as [|? ? Hn Hnd]; subst. apply IH in Hnd. destruct Hnd as (Ha & Hb & Hd).
      repeat split; [constructor; [intros Hin; apply Hn, in_or_app; left; exact Hin|exact Ha]|exact Hb|].
      intros x [->|Hx] Hxb; [apply Hn, in_or_app; right; exact Hxb|exact (Hd x Hx Hxb)].
    + intros (Ha & Hb & Hd). inversion Ha as [|? ? Hn Hnd]; subst. constructor.
      * intros Hin. apply in_app_or in Hin. destruct Hin as [Hin|Hin]; [exact (Hn Hin)|].
        exact (Hd y (or_introl eq_refl) Hin).
      * apply IH. repeat split; [exact Hnd|exact Hb|]. intros x Hx. apply Hd. right; exact Hx.
Qed.

Lemma NoDup_flat_map {X Y} (g : X -> list Y) (l : list X) :
  NoDup l -> (forall x, In x l -> NoDup (g x)) ->
  (forall x y z, In x l -> In y l -> In z (g x) -> In z (g y) -> x = y) ->
  NoDup (flat_map g l).
Proof.
  induction l as [|a t IH]; intros Hnd Hg Hdis; cbn [flat_map]; [constructor|].
  inversion Hnd as [|? ? Hn Hnd']; subst. apply NoDup_app_iff. repeat split.
  - apply Hg. left; reflexivity.
  - apply IH; [exact Hnd'|intros x Hx; apply Hg; right; exact Hx|].
    intros x y z Hx Hy. apply Hdis; right; assumption.
  - intros z Hza Hzt. apply in_flat_map in Hzt. destruct Hzt as (y & Hy & Hzy).
    assert (E : a = y) by (apply (Hdis a y z); [left; reflexivity|right; exact Hy|exact Hza|exact Hzy]).
    subst y. exact (Hn Hy).
Qed.

Lemma NoDup_flat_map_elem {X Y} (g : X -> list Y) (l : list X) x :
  NoDup (flat_map g l) -> In x l -> NoDup (g x).
Proof.
  induction l as [|a t IH]; cbn [flat_map In]; intros Hnd Hin; [contradiction|].
  apply NoDup_app_iff in Hnd. destruct Hnd as (Ha & Ht & _).
  destruct Hin as [->|Hin]; [exact Ha|exact (IH Ht Hin)].
Qed.

Lemma NoDup_flat_map_filter {X Y} (g : X -> list Y) (f : X -> bool) (l : list X) :
  NoDup (flat_map g l) -> NoDup (flat_map g (filter f l)).
Proof.
  induction l as [|a t IH]; cbn [flat_map filter]; intros Hnd; [constructor|].
  apply NoDup_app_iff in Hnd. destruct Hnd as (Ha & Ht & Hd).
  destruct (f a); [|exact (IH Ht)]. cbn [flat_map]. apply NoDup_app_iff. repeat split; [exact Ha|exact (IH Ht)|].
  intros z Hza Hzt. apply (Hd z Hza). apply in_flat_map in Hzt. destruct Hzt as (y & Hy & Hzy).
  apply in_flat_map. exists y. split; [|exact Hzy]. apply filter_In in Hy. exact (proj1 Hy).
Qed.

(* a point of a duplicate-free fileset lives in one file only *)
Lemma owner_unique {X Y} (g : X -> list Y) (l : list X) :
  NoDup (flat_map g l) -> forall n m x y z,
  nth_error l n = Some x -> nth_error l m = Some y -> In z (g x) -> In z (g y) -> n = m.
Proof.
  induction l as [|a t IH]; intros Hnd n m x y z Hn Hm Hzx Hzy.
  - destruct n; discriminate.
  - cbn [flat_map] in Hnd. apply NoDup_app_iff in Hnd. destruct Hnd as (_ & Ht & Hd).
    destruct n as [|n], m as [|m]; cbn [nth_error] in Hn, Hm.
    + reflexivity.
    + inversion Hn; subst x. exfalso. apply (Hd z Hzx). apply in_flat_map. exists y.
      split; [eapply nth_error_In; exact Hm|exact Hzy].
    + inversion Hm; subst y. exfalso. apply (Hd z Hzy). apply in_flat_map. exists x.
      split; [eapply nth_error_In; exact Hn|exact Hzx].
    + f_equal. exact (IH Ht n m x y z Hn Hm Hzx Hzy).
Qed.

Lemma nthf_nth_error (F : list file) n f : nth_error F n = Some f -> nthf (Z.of_nat n) F = f.
Proof. intros H. unfold nthf. rewrite Nat2Z.id. apply nth_error_nth. exact H. Qed.

(* ---------- the match list, positionally ---------- *)
Lemma partner_ids_in sec : forall k mi p j,
  In j (partner_ids k mi p sec) <->
  exists m s, j = k + Z.of_nat m /\ nth_error sec m = Some s /\ widened_overlap mi p s = true.
Proof.
  induction sec as [|s0 t IH]; intros k mi p j; cbn [partner_ids].
  - split; [intros []|intros (m & s & _ & H & _); destruct m; discriminate].
  - rewrite in_app_iff, IH. split.
    + intros [H|(m & s & -> & Hm & Hw)].
      * destruct (widened_overlap mi p s0) eqn:E; [|destruct H].
        destruct H as [<-|[]]. exists 0%nat, s0. repeat split; [cbn; lia|exact E].
      * exists (S m), s. repeat split; [lia|exact Hm|exact Hw].
    + intros (m & s & -> & Hm & Hw). destruct m as [|m]; cbn [nth_error] in Hm.
      * inversion Hm; subst s0. rewrite Hw. left. left. cbn; lia.
      * right. exists m, s. repeat split; [lia|exact Hm|exact Hw].
Qed.

Lemma partner_ids_ge sec : forall k mi p j, In j (partner_ids k mi p sec) -> k <= j.
Proof. intros k mi p j H. apply partner_ids_in in H. destruct H as (m & s & -> & _). lia. Qed.

Lemma partner_ids_nodup sec : forall k mi p, NoDup (partner_ids k mi p sec).
Proof.
  induction sec as [|s0 t IH]; intros k mi p; cbn [partner_ids]; [constructor|].
  destruct (widened_overlap mi p s0); cbn [app]; [|apply IH].
  constructor; [|apply IH]. intros H. apply partner_ids_ge in H. lia.
Qed.

Lemma flat_cons m ms : flat (m :: ms) = map (pair (fst m)) (snd m) ++ flat ms.
Proof. reflexivity. Qed.

Lemma match_spec_from_in prim : forall k mi sec i j,
  In (i, j) (flat (match_spec_from k mi prim sec)) <->
  exists n p, i = k + Z.of_nat n /\ nth_error prim n = Some p /\ In j (partner_ids 0 mi p sec).
Proof.
  induction prim as [|p0 t IH]; intros k mi sec i j; cbn [match_spec_from].
  - split; [intros []|intros (n & p & _ & H & _); destruct n; discriminate].
  - assert (Hrest : In (i, j) (flat (match_spec_from (k + 1) mi t sec)) <->
                    exists n p, i = k + Z.of_nat (S n) /\ nth_error t n = Some p /\ In j (partner_ids 0 mi p sec)).
    { rewrite IH. split; intros (n & p & E & H1 & H2); exists n, p; repeat split; try assumption; lia. }
    assert (Hhead : In (i, j) (map (pair k) (partner_ids 0 mi p0 sec)) <-> i = k /\ In j (partner_ids 0 mi p0 sec)).
    { rewrite in_map_iff. split.
      - intros (x & E & Hx). inversion E; subst. split; [reflexivity|exact Hx].
      - intros (-> & Hx). exists j. split; [reflexivity|exact Hx]. }
    destruct (partner_ids 0 mi p0 sec) as [|j0 js] eqn:Ep.
    + rewrite Hrest. split.
      * intros (n & p & E & H1 & H2). exists (S n), p. repeat split; assumption.
      * intros (n & p & E & H1 & H2). destruct n as [|n]; cbn [nth_error] in H1.
        -- inversion H1; subst p. rewrite Ep in H2. destruct H2.
        -- exists n, p. repeat split; assumption.
    + rewrite flat_cons. cbn [fst snd]. rewrite in_app_iff, Hhead, Hrest. split.
      * intros [(-> & Hj)|(n & p & E & H1 & H2)].
        -- exists 0%nat, p0. repeat split; [cbn; lia|rewrite Ep; exact Hj].
        -- exists (S n), p. repeat split; assumption.
      * intros (n & p & E & H1 & H2). destruct n as [|n]; cbn [nth_error] in H1.
        -- inversion H1; subst p. left. split; [cbn in E; lia|rewrite <- Ep; exact H2].
        -- right. exists n, p. repeat split; assumption.
Qed.

Lemma match_spec_from_nodup prim : forall k mi sec, NoDup (flat (match_spec_from k mi prim sec)).
Proof.
  induction prim as [|p0 t IH]; intros k mi sec; cbn [match_spec_from]; [constructor|].
  destruct (partner_ids 0 mi p0 sec) as [|j0 js] eqn:Ep; [apply IH|].
  rewrite flat_cons. cbn [fst snd]. apply NoDup_app_iff. repeat split.
  - rewrite <- Ep. apply FinFun.Injective_map_NoDup; [|apply partner_ids_nodup].
    intros a b E. inversion E; reflexivity.
  - apply IH.
  - intros [i j] H1 H2. apply in_map_iff in H1. destruct H1 as (x & E & _). inversion E; subst.
    apply match_spec_from_in in H2. destruct H2 as (n & p & E2 & _). pose proof (Nat2Z.is_nonneg n). lia.
Qed.

Lemma match_flat_in mi prim sec i j :
  In (i, j) (flat (match_spec mi prim sec)) <->
  exists n m p s, i = Z.of_nat n /\ j = Z.of_nat m /\ nth_error prim n = Some p /\ nth_error sec m = Some s /\
                  widened_overlap mi p s = true.
Proof.
  unfold match_spec. rewrite match_spec_from_in. split.
  - intros (n & p & -> & Hn & Hj). apply partner_ids_in in Hj. destruct Hj as (m & s & -> & Hm & Hw).
    exists n, m, p, s. repeat split; try assumption; lia.
  - intros (n & m & p & s & -> & -> & Hn & Hm & Hw). exists n, p. split; [lia|]. split; [exact Hn|].
    apply partner_ids_in. exists m, s. split; [lia|]. split; [exact Hm|exact Hw].
Qed.

(* ---------- seconds ---------- *)
Lemma sec_shift t m : sec (t + m * US) = sec t + m.
Proof. unfold sec, US. apply Z_div_plus_full. discriminate. Qed.
Lemma sec_mono a b : a <= b -> sec a <= sec b.
Proof. unfold sec, US. intros H. apply Z.div_le_mono; [reflexivity|exact H]. Qed.

Lemma covs_nth F n f : nth_error F n = Some f -> nth_error (covs F) n = Some (sec (c0 f), sec (c1 f)).
Proof. intros H. unfold covs. rewrite nth_error_map, H. reflexivity. Qed.
Lemma covs_nth_inv F n x : nth_error (covs F) n = Some x -> exists f, nth_error F n = Some f /\ x = (sec (c0 f), sec (c1 f)).
Proof.
  unfold covs. rewrite nth_error_map. destruct (nth_error F n) as [f|]; cbn; intros H; inversion H.
  exists f. split; reflexivity.
Qed.

(* ---------- the theorems ---------- *)
Definition unique_points (F : list file) : Prop := NoDup (map pid (all_pts F)).
Definition coverage_contains (F : list file) : Prop :=
  forall f p, In f F -> In p (pts f) -> c0 f <= ptime p <= c1 f.
Definition coverage_wf (F : list file) : Prop := forall f, In f F -> c0 f <= c1 f.

Section Proofs.
  Variable near : Z -> Z -> bool.
  Variable collocate : cfg -> list pt -> list pt -> cset.
  (* what is assumed about Collocator.collocate (property C04): exactly the pairs that meet the criterion *)
  Hypothesis collocate_exact : forall c P S p s,
    In (p, s) (collocate c P S) <-> In p P /\ In s S /\ okpair near c p s = true.
  Hypothesis collocate_once : forall c P S, NoDup P -> NoDup S -> NoDup (collocate c P S).

  Lemma unique_nodup F : unique_points F -> NoDup (all_pts F).
  Proof. unfold unique_points. apply NoDup_map_inv. Qed.

  Lemma found_in c F f : In f (found c F) -> In f F.
  Proof. unfold found. intros H. apply filter_In in H. exact (proj1 H). Qed.

  Lemma nthf_cases i F : In (nthf i F) F \/ pts (nthf i F) = [].
  Proof.
    unfold nthf. destruct (nth_in_or_default (Z.to_nat i) F nofile) as [H|H]; [left; exact H|right; rewrite H; reflexivity].
  Qed.

  Lemma okpair_facts c p s : okpair near c p s = true ->
    p_start c <= ptime p <= p_end c /\ p_start c <= ptime s <= p_end c /\ Z.abs (ptime p - ptime s) < mius c.
  Proof.
    unfold okpair, inwin. intros H. repeat (apply andb_prop in H; destruct H as [H ?]).
    repeat match goal with
           | H : (_ <=? _) = true |- _ => apply Z.leb_le in H
           | H : (_ <? _) = true |- _ => apply Z.ltb_lt in H
           end. lia.
  Qed.

  Lemma in_found c F f p : coverage_contains F -> In f F -> In p (pts f) ->
    p_start c <= ptime p <= p_end c -> 0 < mius c -> In f (found c F).
  Proof.
    intros Hcov Hf Hp Hw Hm. unfold found. apply filter_In. split; [exact Hf|].
    specialize (Hcov f p Hf Hp). apply andb_true_intro. split; [apply Z.ltb_lt|apply Z.leb_le]; lia.
  Qed.

  Section Union.
    Variables (c : cfg) (A B : list file).
    Hypothesis Hmi : 0 <= mi c.
    Hypothesis HuA : unique_points A.
    Hypothesis HuB : unique_points B.
    Hypothesis HcA : coverage_contains A.
    Hypothesis HcB : coverage_contains B.
    Hypothesis HwB : coverage_wf B.

    Let FA := found c A.
    Let FB := found c B.

    Lemma matches_spec : matches c A B = match_spec (mi c) (covs FA) (covs FB).
    Proof.
      unfold matches. apply match_model_correct; [exact Hmi|].
      rewrite Forall_forall. intros [a b] Hab. unfold covs in Hab. apply in_map_iff in Hab.
      destruct Hab as (f & E & Hf). inversion E; subst. apply sec_mono. apply HwB. eapply found_in; exact Hf.
    Qed.

    Lemma ndFA : NoDup (flat_map pts FA).
    Proof. apply NoDup_flat_map_filter. apply unique_nodup. exact HuA. Qed.
    Lemma ndFB : NoDup (flat_map pts FB).
    Proof. apply NoDup_flat_map_filter. apply unique_nodup. exact HuB. Qed.

    (* indices of the match list point at found files *)
    Lemma match_idx i j : In (i, j) (flat (matches c A B)) ->
      exists n m fa fb, i = Z.of_nat n /\ j = Z.of_nat m /\ nth_error FA n = Some fa /\ nth_error FB m = Some fb /\
                        nthf i FA = fa /\ nthf j FB = fb.
    Proof.
      rewrite matches_spec, match_flat_in. intros (n & m & p & s & -> & -> & Hn & Hm & _).
      apply covs_nth_inv in Hn. destruct Hn as (fa & Hn & _). apply covs_nth_inv in Hm. destruct Hm as (fb & Hm & _).
      exists n, m, fa, fb. repeat split; try assumption; apply nthf_nth_error; assumption.
    Qed.

    Lemma union_in p s :
      In (p, s) (flat_map (coll_pair collocate c A B) (flat (matches c A B))) <->
      In (p, s) (collocate c (all_pts A) (all_pts B)).
    Proof.
      rewrite in_flat_map. split.
      - intros ([i j] & Hij & Hps). unfold coll_pair in Hps. cbn [fst snd] in Hps.
        apply collocate_exact in Hps. destruct Hps as (Hp & Hs & Hok).
        apply collocate_exact. repeat split; [| |exact Hok].
        + destruct (nthf_cases i FA) as [H|H]; [|unfold FA in H; rewrite H in Hp; destruct Hp].
          unfold all_pts. apply in_flat_map. exists (nthf i FA). split; [eapply found_in; exact H|exact Hp].
        + destruct (nthf_cases j FB) as [H|H]; [|unfold FB in H; rewrite H in Hs; destruct Hs].
          unfold all_pts. apply in_flat_map. exists (nthf j FB). split; [eapply found_in; exact H|exact Hs].
      - intros Hps. apply collocate_exact in Hps. destruct Hps as (Hp & Hs & Hok).
        pose proof (okpair_facts c p s Hok) as (Hwp & Hws & Hdt).
        assert (Hm : 0 < mius c) by (pose proof (Z.abs_nonneg (ptime p - ptime s)); lia).
        unfold all_pts in Hp, Hs. apply in_flat_map in Hp. destruct Hp as (fa & Hfa & Hp).
        apply in_flat_map in Hs. destruct Hs as (fb & Hfb & Hs).
        assert (HfaF : In fa FA) by (eapply in_found; eassumption).
        assert (HfbF : In fb FB) by (eapply in_found; eassumption).
        apply In_nth_error in HfaF. destruct HfaF as (n & Hn). apply In_nth_error in HfbF. destruct HfbF as (m & Hm').
        exists (Z.of_nat n, Z.of_nat m). split.
        + rewrite matches_spec. apply match_flat_in.
          exists n, m, (sec (c0 fa), sec (c1 fa)), (sec (c0 fb), sec (c1 fb)).
          repeat split; [apply covs_nth; exact Hn|apply covs_nth; exact Hm'|].
          unfold widened_overlap. cbn [fst snd]. pose proof (HcA fa p Hfa Hp) as Ha. pose proof (HcB fb s Hfb Hs) as Hb.
          unfold mius in Hdt.
          apply andb_true_intro. split; apply Z.leb_le.
          * replace (sec (c0 fb) - mi c) with (sec (c0 fb + (- mi c) * US)) by (rewrite sec_shift; lia).
            apply sec_mono. lia.
          * replace (sec (c1 fb) + mi c) with (sec (c1 fb + mi c * US)) by (rewrite sec_shift; lia).
            apply sec_mono. lia.
        + unfold coll_pair. cbn [fst snd]. fold FA FB. rewrite (nthf_nth_error FA n fa Hn), (nthf_nth_error FB m fb Hm').
          apply collocate_exact. repeat split; assumption.
    Qed.

    Lemma union_nodup : NoDup (flat_map (coll_pair collocate c A B) (flat (matches c A B))).
    Proof.
      apply NoDup_flat_map.
      - rewrite matches_spec. apply match_spec_from_nodup.
      - intros [i j] Hij. unfold coll_pair. cbn [fst snd]. fold FA FB. apply collocate_once.
        + destruct (nthf_cases i FA) as [H|H]; [|rewrite H; constructor].
          eapply NoDup_flat_map_elem; [apply ndFA|exact H].
        + destruct (nthf_cases j FB) as [H|H]; [|rewrite H; constructor].
          eapply NoDup_flat_map_elem; [apply ndFB|exact H].
      - intros [i j] [i' j'] [p s] Hij Hij' H1 H2. unfold coll_pair in H1, H2. cbn [fst snd] in H1, H2. fold FA FB in H1, H2.
        apply collocate_exact in H1. destruct H1 as (Hp1 & Hs1 & _).
        apply collocate_exact in H2. destruct H2 as (Hp2 & Hs2 & _).
        apply match_idx in Hij. destruct Hij as (n & m & fa & fb & -> & -> & Hn & Hm & Ea & Eb).
        apply match_idx in Hij'. destruct Hij' as (n' & m' & fa' & fb' & -> & -> & Hn' & Hm' & Ea' & Eb').
        rewrite Ea in Hp1. rewrite Eb in Hs1. rewrite Ea' in Hp2. rewrite Eb' in Hs2.
        assert (n = n') by (eapply (owner_unique pts FA ndFA); eassumption).
        assert (m = m') by (eapply (owner_unique pts FB ndFB); eassumption).
        subst. reflexivity.
    Qed.

    Theorem union_over_matches_lemma :
      Permutation (flat_map (coll_pair collocate c A B) (flat (matches c A B)))
                  (collocate c (all_pts A) (all_pts B)).
    Proof.
      apply NoDup_Permutation.
      - apply union_nodup.
      - apply collocate_once; apply unique_nodup; assumption.
      - intros [p s]. apply union_in.
    Qed.
  End Union.

  (* ---------- from the union over the match list to what the workers emit ---------- *)
  Definition some_of (r : cset) : option cset := match r with [] => None | p :: l => Some (p :: l) end.

  Lemma somes_combine (h : Z * Z -> cset) : forall (yl : list (Z * Z)) (tags : list Z),
    (length yl <= length tags)%nat ->
    concat (somes (combine tags (map (fun ij => some_of (h ij)) yl))) = flat_map h yl.
  Proof.
    induction yl as [|y t IH]; intros tags Hlen.
    - destruct tags; reflexivity.
    - destruct tags as [|x tags]; cbn [length] in Hlen; [lia|].
      cbn [map combine somes flat_map snd]. rewrite concat_app, IH by lia.
      unfold some_of. destruct (h y) as [|z r]; cbn [concat app]; [reflexivity|rewrite app_nil_r; reflexivity].
  Qed.

  Lemma worker_somes c bad A B ch :
    concat (somes (worker_items collocate c bad A B ch)) =
    flat_map (coll_pair collocate c A B) (filter (fun ij => negb (is_bad bad ij)) (flat ch)).
  Proof.
    unfold worker_items. apply (somes_combine (coll_pair collocate c A B)).
    rewrite map_length. apply filter_length_le'.
  Qed.

  Lemma flat_app a b : flat (a ++ b) = flat a ++ flat b.
  Proof. unfold flat. apply flat_map_app. Qed.

  Lemma chunks_flat (g : Z * Z -> cset) (f : Z * Z -> bool) (chunks : list (list (Z * list Z))) :
    flat_map (fun ch => flat_map g (filter f (flat ch))) chunks = flat_map g (filter f (flat (concat chunks))).
  Proof.
    induction chunks as [|a t IH]; cbn [flat_map concat]; [reflexivity|].
    rewrite IH, flat_app, filter_app, flat_map_app. reflexivity.
  Qed.

  Lemma total_flat c k md bad A B : (0 < k)%nat ->
    total collocate c k md bad A B =
    flat_map (coll_pair collocate c A B) (filter (fun ij => negb (is_bad bad ij)) (flat (matches c A B))).
  Proof.
    intros Hk. unfold total, pipeline. cbv zeta.
    set (ms := matches c A B).
    set (chunks := array_split (Nat.min k (length ms)) ms).
    assert (E : concat (concat (map (fun ch => map (@concat _) (loop md (worker_items collocate c bad A B ch) [] None)) chunks))
                = flat_map (fun ch => flat_map (coll_pair collocate c A B)
                                               (filter (fun ij => negb (is_bad bad ij)) (flat ch))) chunks).
    { induction chunks as [|a t IH]; cbn [map concat flat_map]; [reflexivity|].
      rewrite concat_app, IH, bundling_lossless_lemma, worker_somes. reflexivity. }
    etransitivity; [exact E|]. rewrite chunks_flat. f_equal. f_equal. f_equal. unfold chunks.
    destruct ms as [|m0 mr] eqn:Em.
    - rewrite Nat.min_0_r. reflexivity.
    - apply array_split_concat_lemma. cbn [length]. lia.
  Qed.

  Theorem pipeline_exact_lemma c k md A B : (0 < k)%nat ->
    0 <= mi c -> unique_points A -> unique_points B -> coverage_contains A -> coverage_contains B -> coverage_wf B ->
    Permutation (total collocate c k md None A B) (collocate c (all_pts A) (all_pts B)).
  Proof.
    intros Hk Hmi HuA HuB HcA HcB HwB. rewrite total_flat by exact Hk. cbn [is_bad negb].
    rewrite filter_all_true by reflexivity. apply union_over_matches_lemma; assumption.
  Qed.

  (* ---------- an unreadable file (skip_file_errors) removes exactly the pairs that involve it ---------- *)
  Lemma pt_eqb_eq p q : pt_eqb p q = true <-> p = q.
  Proof.
    unfold pt_eqb. destruct p as [t1 i1], q as [t2 i2]. cbn [ptime pid]. rewrite andb_true_iff, !Z.eqb_eq.
    split; [intros [-> ->]; reflexivity|intros E; inversion E; split; reflexivity].
  Qed.
  Definition mem_pt (p : pt) (l : list pt) : bool := existsb (pt_eqb p) l.
  Lemma mem_pt_in p l : mem_pt p l = true <-> In p l.
  Proof.
    unfold mem_pt. rewrite existsb_exists. split.
    - intros (x & Hx & E). apply pt_eqb_eq in E. subst x. exact Hx.
    - intros H. exists p. split; [exact H|apply pt_eqb_eq; reflexivity].
  Qed.

  Definition in_bad_file (c : cfg) (bad : bool * Z) (A B : list file) (ps : pt * pt) : bool :=
    if fst bad then mem_pt (fst ps) (pts (nthf (snd bad) (found c A)))
    else mem_pt (snd ps) (pts (nthf (snd bad) (found c B))).

  Lemma filter_flat_map_split {X Y} (g : X -> list Y) (q : Y -> bool) (nb : X -> bool) (l : list X) :
    (forall x, In x l -> nb x = true -> forall z, In z (g x) -> q z = true) ->
    (forall x, In x l -> nb x = false -> forall z, In z (g x) -> q z = false) ->
    filter q (flat_map g l) = flat_map g (filter nb l).
  Proof.
    induction l as [|a t IH]; intros Ht Hf; cbn [flat_map filter]; [reflexivity|].
    rewrite filter_app, IH; [|intros x Hx; apply Ht; right; exact Hx|intros x Hx; apply Hf; right; exact Hx].
    destruct (nb a) eqn:E; cbn [flat_map].
    - rewrite filter_all_true; [reflexivity|]. apply Ht; [left; reflexivity|exact E].
    - rewrite filter_all_false; [reflexivity|]. apply Hf; [left; reflexivity|exact E].
  Qed.

  Theorem skip_errors_local_lemma c k md bad A B : (0 < k)%nat -> 0 <= snd bad ->
    0 <= mi c -> unique_points A -> unique_points B -> coverage_contains A -> coverage_contains B -> coverage_wf B ->
    Permutation (total collocate c k md (Some bad) A B)
                (filter (fun ps => negb (in_bad_file c bad A B ps)) (collocate c (all_pts A) (all_pts B))).
  Proof.
    intros Hk Hkb Hmi HuA HuB HcA HcB HwB. rewrite total_flat by exact Hk.
    etransitivity; [|apply filter_perm; apply union_over_matches_lemma; assumption].
    apply Permutation_refl'. symmetry. destruct bad as [side kb]. cbn [snd] in Hkb.
    assert (HndA : NoDup (flat_map pts (found c A))) by (apply ndFA; exact HuA).
    assert (HndB : NoDup (flat_map pts (found c B))) by (apply ndFB; exact HuB).
    apply filter_flat_map_split.
    - intros [i j] Hij Hnb [p s] Hz. unfold in_bad_file. cbn [fst snd].
      apply negb_true_iff. apply not_true_iff_false. intros Hmem.
      unfold coll_pair in Hz. cbn [fst snd] in Hz. apply collocate_exact in Hz. destruct Hz as (Hp & Hs & _).
      apply match_idx in Hij; try assumption. destruct Hij as (n & m & fa & fb & -> & -> & Hn & Hm & Ea & Eb).
      rewrite Ea in Hp. rewrite Eb in Hs. cbn [is_bad fst snd] in Hnb.
      destruct side; apply mem_pt_in in Hmem; apply negb_true_iff, Z.eqb_neq in Hnb.
      + unfold nthf in Hmem. destruct (nth_error (found c A) (Z.to_nat kb)) as [f'|] eqn:E.
        * rewrite (nth_error_nth _ _ _ E) in Hmem.
          assert (n = Z.to_nat kb) by (eapply (owner_unique pts (found c A) HndA); eassumption). lia.
        * rewrite nth_overflow in Hmem by (apply nth_error_None; exact E). destruct Hmem.
      + unfold nthf in Hmem. destruct (nth_error (found c B) (Z.to_nat kb)) as [f'|] eqn:E.
        * rewrite (nth_error_nth _ _ _ E) in Hmem.
          assert (m = Z.to_nat kb) by (eapply (owner_unique pts (found c B) HndB); eassumption). lia.
        * rewrite nth_overflow in Hmem by (apply nth_error_None; exact E). destruct Hmem.
    - intros [i j] Hij Hnb [p s] Hz. unfold in_bad_file. cbn [fst snd].
      apply negb_false_iff.
      unfold coll_pair in Hz. cbn [fst snd] in Hz. apply collocate_exact in Hz. destruct Hz as (Hp & Hs & _).
      cbn [is_bad fst snd] in Hnb. destruct side; apply negb_false_iff, Z.eqb_eq in Hnb; subst; apply mem_pt_in; assumption.
  Qed.
End Proofs.

(* ---------- the brute-force collocate meets the hypotheses (non-vacuity of the section) ---------- *)
Lemma bf_exact near c P S p s :
  In (p, s) (collocate_bf near c P S) <-> In p P /\ In s S /\ okpair near c p s = true.
Proof.
  unfold collocate_bf. rewrite in_flat_map. split.
  - intros (p' & Hp' & H). apply in_flat_map in H. destruct H as (s' & Hs' & H).
    destruct (okpair near c p' s') eqn:E; [|destruct H]. destruct H as [H|[]]. inversion H; subst. repeat split; assumption.
  - intros (Hp & Hs & Hok). exists p. split; [exact Hp|]. apply in_flat_map. exists s. split; [exact Hs|].
    rewrite Hok. left; reflexivity.
Qed.

Lemma bf_once near c P S : NoDup P -> NoDup S -> NoDup (collocate_bf near c P S).
Proof.
  intros HP HS. unfold collocate_bf. apply NoDup_flat_map; [exact HP| |].
  - intros p _. apply NoDup_flat_map; [exact HS| |].
    + intros s _. destruct (okpair near c p s); constructor; [intros []|constructor].
    + intros s s' z _ _ H1 H2. destruct (okpair near c p s); [|destruct H1]. destruct (okpair near c p s'); [|destruct H2].
      destruct H1 as [<-|[]]. destruct H2 as [E|[]]. inversion E; reflexivity.
  - intros p p' z _ _ H1 H2. apply in_flat_map in H1. destruct H1 as (s & _ & H1).
    apply in_flat_map in H2. destruct H2 as (s' & _ & H2).
    destruct (okpair near c p s); [|destruct H1]. destruct (okpair near c p' s'); [|destruct H2].
    destruct H1 as [<-|[]]. destruct H2 as [E|[]]. inversion E; reflexivity.
Qed.

(* ---------- boolean forms of the hypotheses (used by the correspondence and by the example) ---------- *)
Lemma nodupb_NoDup l : nodupb l = true -> NoDup l.
Proof.
  induction l as [|x t IH]; cbn [nodupb]; intros H; [constructor|].
  apply andb_prop in H. destruct H as [Hx Ht]. constructor; [|exact (IH Ht)].
  intros Hin. apply negb_true_iff in Hx. assert (E : existsb (Z.eqb x) t = true).
  { apply existsb_exists. exists x. split; [exact Hin|apply Z.eqb_refl]. }
  rewrite E in Hx. discriminate.
Qed.

Lemma cover_ok_spec F : cover_ok F = true -> coverage_contains F.
Proof.
  unfold cover_ok, coverage_contains. intros H f p Hf Hp. rewrite forallb_forall in H. specialize (H f Hf).
  rewrite forallb_forall in H. specialize (H p Hp). apply andb_prop in H. destruct H as [H1 H2].
  apply Z.leb_le in H1. apply Z.leb_le in H2. lia.
Qed.

Definition wf_ok (F : list file) : bool := forallb (fun f => c0 f <=? c1 f) F.
Lemma wf_ok_spec F : wf_ok F = true -> coverage_wf F.
Proof.
  unfold wf_ok, coverage_wf. intros H f Hf. rewrite forallb_forall in H. apply Z.leb_le. exact (H f Hf).
Qed.

(* ---------- the result does not depend on the split into files, the process count, the bundle mode ---------- *)
Section Independence.
  Variable near : Z -> Z -> bool.
  Variable collocate : cfg -> list pt -> list pt -> cset.
  Hypothesis collocate_exact : forall c P S p s,
    In (p, s) (collocate c P S) <-> In p P /\ In s S /\ okpair near c p s = true.
  Hypothesis collocate_once : forall c P S, NoDup P -> NoDup S -> NoDup (collocate c P S).

  Lemma collocate_perm c P P' S S' : NoDup P -> NoDup S -> Permutation P P' -> Permutation S S' ->
    Permutation (collocate c P S) (collocate c P' S').
  Proof.
    intros HP HS EP ES. apply NoDup_Permutation.
    - apply collocate_once; assumption.
    - apply collocate_once; [eapply Permutation_NoDup; eassumption|eapply Permutation_NoDup; eassumption].
    - intros [p s]. rewrite !collocate_exact. split; intros (Hp & Hs & Hok); repeat split; try exact Hok.
      + eapply Permutation_in; eassumption.
      + eapply Permutation_in; eassumption.
      + eapply Permutation_in; [apply Permutation_sym|]; eassumption.
      + eapply Permutation_in; [apply Permutation_sym|]; eassumption.
  Qed.

  Theorem independence_lemma c k k' md md' A A' B B' : (0 < k)%nat -> (0 < k')%nat -> 0 <= mi c ->
    unique_points A -> unique_points B -> coverage_contains A -> coverage_contains B -> coverage_wf B ->
    unique_points A' -> unique_points B' -> coverage_contains A' -> coverage_contains B' -> coverage_wf B' ->
    Permutation (all_pts A) (all_pts A') -> Permutation (all_pts B) (all_pts B') ->
    Permutation (total collocate c k md None A B) (total collocate c k' md' None A' B').
  Proof.
    intros Hk Hk' Hmi HuA HuB HcA HcB HwB HuA' HuB' HcA' HcB' HwB' EA EB.
    etransitivity; [apply (pipeline_exact_lemma near collocate collocate_exact collocate_once); assumption|].
    etransitivity; [|apply Permutation_sym; apply (pipeline_exact_lemma near collocate collocate_exact collocate_once); assumption].
    apply collocate_perm; try assumption; apply (unique_nodup); assumption.
  Qed.
End Independence.
