(* C14 -- integrated water vapour, column relative humidity, pressure2height and the standard atmosphere. *)
From Coq Require Import Reals List Lra Lia.
From Coquelicot Require Import Coquelicot.
From Interval Require Import Tactic.
From TyphonGen Require Import atmosphere.
From Typhon Require Import Model.C14_column Proofs.C14_trapz Proofs.C09_humidity.
Import ListNotations.
Open Scope R_scope.

Lemma g_pos : 0 < c_earth_standard_gravity. Proof. unfold c_earth_standard_gravity; lra. Qed.
Lemma Rd_pos : 0 < c_gas_constant_dry_air. Proof. unfold c_gas_constant_dry_air; lra. Qed.
Lemma Rv_pos : 0 < c_gas_constant_water_vapor. Proof. unfold c_gas_constant_water_vapor; lra. Qed.
(* the one fact about the translated `density` the sign lemmas need, whichever way the source writes the quotient *)
Lemma density_quotient p T R0 : 0 < R0 -> 0 < T -> density p T R0 = p / (R0 * T).
Proof. intros HR HT. unfold density. field. repeat split; lra. Qed.

Lemma Forall_map_R {A} (P : R -> Prop) (f : A -> R) l : List.Forall (fun a => P (f a)) l -> List.Forall P (map f l).
Proof. induction 1; cbn [map]; constructor; auto. Qed.

(* ------------------------------------------------------------------ integrated water vapour *)

Lemma q_nonneg x : 0 <= x <= 1 -> 0 <= vmr2specific_humidity x.
Proof.
  intros Hx. unfold vmr2specific_humidity. cbv zeta.
  pose proof Md_pos as HMd. pose proof Mw_pos as HMw.
  assert (Hr : 0 < c_molar_mass_dry_air / c_molar_mass_water) by (apply Rdiv_lt_0_compat; lra).
  assert (Hd : 0 < (1 - x) * c_molar_mass_dry_air / c_molar_mass_water + x).
  { unfold Rdiv in *. rewrite Rmult_assoc. set (r := c_molar_mass_dry_air * / c_molar_mass_water) in *.
    destruct (Rle_lt_dec x (1 / 2)); nra. }
  apply Rmult_le_pos; [lra|]. left. apply Rinv_0_lt_compat. exact Hd.
Qed.

Lemma iwv_hydro_nonneg vmr p : List.Forall (fun x => 0 <= x <= 1) vmr -> nonincreasing p -> 0 <= iwv_hydro vmr p.
Proof.
  intros Hv Hp. unfold iwv_hydro.
  assert (Ht : trapz (map vmr2specific_humidity vmr) p <= 0).
  { apply trapz_nonpos; [|exact Hp]. apply Forall_map_R. eapply Forall_impl; [|exact Hv]. intros a Ha. apply q_nonneg, Ha. }
  pose proof g_pos as Hg. apply Rmult_le_pos; [lra|]. left. apply Rinv_0_lt_compat. exact Hg.
Qed.

Lemma zip3_nonneg (f : R -> R -> R -> R) : forall a b c,
  List.Forall (fun x => 0 <= x) a -> List.Forall (fun x => 0 <= x) b -> List.Forall (fun x => 0 < x) c ->
  (forall x y z, 0 <= x -> 0 <= y -> 0 < z -> 0 <= f x y z) -> List.Forall (fun x => 0 <= x) (zip3 f a b c).
Proof.
  induction a as [|x a IH]; intros b c Ha Hb Hc Hf; [constructor|].
  destruct b as [|y b]; [constructor|]. destruct c as [|z c]; [constructor|].
  inversion Ha; inversion Hb; inversion Hc; subst. cbn [zip3]. constructor; auto.
Qed.

Lemma iwv_general_nonneg vmr p T z : List.Forall (fun x => 0 <= x) vmr -> List.Forall (fun x => 0 <= x) p ->
  List.Forall (fun x => 0 < x) T -> nondecreasing z -> 0 <= iwv_general vmr p T z.
Proof.
  intros Hv Hp HT Hz. unfold iwv_general. apply trapz_nonneg; [|exact Hz].
  apply zip3_nonneg; auto. intros x y t Hx Hy Ht. rewrite (density_quotient y t _ Rv_pos Ht). unfold Rdiv.
  pose proof Rv_pos as HR. apply Rmult_le_pos; [exact Hx|]. apply Rmult_le_pos; [exact Hy|].
  left. apply Rinv_0_lt_compat. nra.
Qed.

(* ------------------------------------------------------------------ column relative humidity *)

Lemma q_roundtrip q : List.Forall (fun x => 0 <= x < 1) q -> map vmr2specific_humidity (map specific_humidity2vmr q) = q.
Proof.
  induction 1 as [|x q Hx _ IH]; [reflexivity|]. cbn [map]. rewrite IH, inv_q_x by exact Hx. reflexivity.
Qed.

Lemma iwv_of_q q p : List.Forall (fun x => 0 <= x < 1) q ->
  iwv_hydro (map specific_humidity2vmr q) p = - trapz q p / c_earth_standard_gravity.
Proof. intros Hq. unfold iwv_hydro. rewrite q_roundtrip by exact Hq. reflexivity. Qed.

Lemma crh_saturated_guarded p t : iwv_hydro (map specific_humidity2vmr (zip2 qsat t p)) p <> 0 ->
  crh (zip2 qsat t p) p t = 1.
Proof. intros H. unfold crh. field. exact H. Qed.

Lemma crh_linear c q p t : List.Forall (fun x => 0 <= x < 1) q -> List.Forall (fun x => 0 <= c * x < 1) q ->
  crh (map (Rmult c) q) p t = c * crh q p t.
Proof.
  intros Hq Hcq. unfold crh. rewrite (iwv_of_q q p Hq).
  rewrite (iwv_of_q (map (Rmult c) q) p) by (apply Forall_map_R; exact Hcq).
  rewrite trapz_scale. unfold Rdiv. ring.
Qed.

(* the saturated column has a positive water content on a strictly decreasing pressure grid of >= 2 levels whose
   saturation pressure stays below the total pressure: the guard of crh_saturated_guarded is met *)
Lemma trapz_neg : forall ys xs, List.Forall (fun y => 0 < y) ys -> decreasing xs -> length ys = length xs ->
  (2 <= length ys)%nat -> trapz ys xs < 0.
Proof.
  induction ys as [|y0 ys IH]; intros xs Hy Hx Hl Hn; [cbn in Hn; lia|].
  destruct ys as [|y1 ys]; [cbn in Hn; lia|].
  destruct xs as [|x0 [|x1 xs]]; [discriminate|discriminate|].
  rewrite trapz_cons2. inversion Hy as [|? ? Hy0 Hy']; subst. inversion Hy' as [|? ? Hy1 Hy'']; subst.
  destruct Hx as [Hx0 Hx'].
  assert (Hle : trapz (y1 :: ys) (x1 :: xs) <= 0).
  { apply trapz_nonpos.
    - eapply Forall_impl; [|exact Hy']. intros a Ha. lra.
    - clear -Hx'. revert Hx'. generalize (x1 :: xs). induction l as [|a [|b l] IHl]; cbn; auto. intros [H1 H2]. split; [lra|]. apply IHl, H2. }
  nra.
Qed.

Lemma e_mixed_pos T : 0 < e_eq_mixed_mk T.
Proof.
  pose proof (mixed_between T) as [Hlo _]. pose proof (e_ice_pos T). pose proof (e_liq_pos T).
  unfold Rmin in Hlo. destruct (Rle_dec (e_eq_ice_mk T) (e_eq_water_mk T)); lra.
Qed.

Lemma qsat_range t p : e_eq_mixed_mk t < p -> 0 < qsat t p < 1.
Proof.
  intros H. pose proof (e_mixed_pos t) as He. unfold qsat, water_vapor_pressure2specific_humidity.
  set (e := e_eq_mixed_mk t) in *.
  assert (Hd : 0 < p - 0.378 * e) by lra.
  split.
  - apply Rdiv_lt_0_compat; lra.
  - apply Rmult_lt_reg_r with (p - 0.378 * e); [exact Hd|]. unfold Rdiv. rewrite Rmult_assoc, Rinv_l by lra. lra.
Qed.

Lemma zip2_qsat_range : forall t p, length t = length p ->
  List.Forall (fun tp => e_eq_mixed_mk (fst tp) < snd tp) (combine t p) ->
  List.Forall (fun x => 0 < x < 1) (zip2 qsat t p) /\ length (zip2 qsat t p) = length p.
Proof.
  induction t as [|t0 t IH]; intros [|p0 p] Hl H; try discriminate; [split; [constructor|reflexivity]|].
  cbn [combine] in H. inversion H as [|? ? H0 H']; subst. cbn [fst snd] in H0.
  cbn [length] in Hl. injection Hl as Hl. destruct (IH p Hl H') as [IH1 IH2].
  cbn [zip2 length]. split; [constructor; [apply qsat_range, H0|exact IH1]|rewrite IH2; reflexivity].
Qed.

Lemma crh_saturated t p : length t = length p -> (2 <= length p)%nat -> decreasing p ->
  List.Forall (fun tp => e_eq_mixed_mk (fst tp) < snd tp) (combine t p) ->
  crh (zip2 qsat t p) p t = 1.
Proof.
  intros Hl Hn Hp Hsat. destruct (zip2_qsat_range t p Hl Hsat) as [Hq Hlen].
  apply crh_saturated_guarded.
  rewrite iwv_of_q by (eapply Forall_impl; [|exact Hq]; intros a Ha; cbv beta; lra).
  assert (Ht : trapz (zip2 qsat t p) p < 0).
  { apply trapz_neg; [|exact Hp|exact Hlen|rewrite Hlen; exact Hn].
    eapply Forall_impl; [|exact Hq]. intros a Ha. cbv beta. lra. }
  pose proof g_pos as Hg. intros Habs.
  assert (H0 : - trapz (zip2 qsat t p) p = 0).
  { apply Rmult_eq_reg_r with (/ c_earth_standard_gravity); [|apply Rinv_neq_0_compat; lra]. rewrite Rmult_0_l. exact Habs. }
  lra.
Qed.

(* ------------------------------------------------------------------ pressure2height: shape and monotonicity *)

Lemma layers_cons2 p0 p1 p r0 r1 rho :
  layers (p0 :: p1 :: p) (r0 :: r1 :: rho) =
  - (p1 - p0) / (0.5 * (r0 + r1) * c_earth_standard_gravity) :: layers (p1 :: p) (r1 :: rho).
Proof. reflexivity. Qed.
Lemma ratios_cons2 p0 p1 p : ratios (p0 :: p1 :: p) = p0 / p1 :: ratios (p1 :: p).
Proof. reflexivity. Qed.
Lemma increasing_cons2 a b l : increasing (a :: b :: l) <-> a < b /\ increasing (b :: l).
Proof. reflexivity. Qed.
Lemma decreasing_cons2 a b l : decreasing (a :: b :: l) <-> b < a /\ decreasing (b :: l).
Proof. reflexivity. Qed.

Lemma cumsum_length : forall l acc, length (cumsum_from acc l) = length l.
Proof. induction l as [|a l IH]; intros acc; cbn [cumsum_from length]; auto. Qed.
Lemma layers_length : forall p rho, length rho = length p -> length (layers p rho) = pred (length p).
Proof.
  induction p as [|p0 p IH]; intros rho Hl; [destruct rho; reflexivity|].
  destruct rho as [|r0 rho]; [discriminate|]. cbn [length] in Hl. injection Hl as Hl.
  destruct p as [|p1 p]; [destruct rho; [reflexivity|discriminate]|].
  destruct rho as [|r1 rho]; [discriminate|].
  rewrite layers_cons2. cbn [length pred]. rewrite (IH (r1 :: rho) Hl). reflexivity.
Qed.
Lemma zip2_length {A B C} (f : A -> B -> C) : forall a b, length a = length b -> length (zip2 f a b) = length a.
Proof. induction a as [|x a IH]; intros [|y b] H; try discriminate; cbn [zip2 length]; auto. Qed.

Lemma p2h_shape p T : p <> [] -> length T = length p ->
  hd 1 (pressure2height p T) = 0 /\ length (pressure2height p T) = length p.
Proof.
  intros Hne Hl. unfold pressure2height. split; [reflexivity|].
  cbn [length]. rewrite cumsum_length, layers_length by (rewrite zip2_length; auto).
  destruct p; [congruence|reflexivity].
Qed.

Lemma cumsum_increasing : forall l acc, List.Forall (fun a => 0 < a) l -> increasing (acc :: cumsum_from acc l).
Proof.
  induction l as [|a l IH]; intros acc H; [exact I|].
  inversion H as [|? ? Ha H']; subst. cbn [cumsum_from]. apply increasing_cons2. split; [lra|]. apply IH, H'.
Qed.

Lemma layers_pos : forall p rho, decreasing p -> List.Forall (fun r => 0 < r) rho -> List.Forall (fun a => 0 < a) (layers p rho).
Proof.
  induction p as [|p0 p IH]; intros rho Hp Hr; [constructor|].
  destruct p as [|p1 p]; [destruct rho as [|? [|? ?]]; constructor|].
  destruct rho as [|r0 [|r1 rho]]; [constructor|constructor|].
  rewrite layers_cons2. apply decreasing_cons2 in Hp. destruct Hp as [H01 Hp'].
  inversion Hr as [|? ? Hr0 Hr']; subst. inversion Hr' as [|? ? Hr1 _]; subst.
  constructor; [|apply IH; assumption].
  pose proof g_pos. apply Rdiv_lt_0_compat; [lra|]. apply Rmult_lt_0_compat; lra.
Qed.

Lemma density_pos : forall p T, List.Forall (fun x => 0 < x) p -> List.Forall (fun x => 0 < x) T ->
  List.Forall (fun r => 0 < r) (zip2 (fun p T => density p T c_gas_constant_dry_air) p T).
Proof.
  induction p as [|p0 p IH]; intros [|T0 T] Hp HT; try constructor.
  - inversion Hp; inversion HT; subst. pose proof Rd_pos. rewrite density_quotient by assumption. apply Rdiv_lt_0_compat; [assumption|nra].
  - inversion Hp; inversion HT; subst. apply IH; assumption.
Qed.

Lemma p2h_increasing p T : decreasing p -> List.Forall (fun x => 0 < x) p -> List.Forall (fun x => 0 < x) T ->
  increasing (pressure2height p T).
Proof.
  intros Hd Hp HT. unfold pressure2height. apply cumsum_increasing. apply layers_pos; [exact Hd|]. apply density_pos; assumption.
Qed.

(* ------------------------------------------------------------------ pressure2height: the isothermal column *)

(* the layer-mean density turns ln r into its Pade approximant 2 (r - 1) / (r + 1); the defect is of third order *)
Lemma nondecr_from (f df : R -> R) a b : a <= b ->
  (forall x, a <= x <= b -> is_derive f x (df x)) -> (forall x, a <= x <= b -> 0 <= df x) -> f a <= f b.
Proof.
  intros Hab Hd Hpos.
  destruct (MVT_gen f a b df) as [c [Hc Heq]].
  - intros x Hx. rewrite Rmin_left, Rmax_right in Hx by lra. apply Hd. lra.
  - intros x Hx. rewrite Rmin_left, Rmax_right in Hx by lra.
    apply continuity_pt_filterlim. apply (ex_derive_continuous f). exists (df x). apply Hd. lra.
  - rewrite Rmin_left, Rmax_right in Hc by lra. specialize (Hpos c Hc). nra.
Qed.

Definition pade (r : R) : R := 2 * (r - 1) / (r + 1).

Lemma ln_pade_bound r : 1 <= r -> 0 <= ln r - pade r <= (r - 1) ^ 3 / 12.
Proof.
  intros Hr. split.
  - pose (f := fun x => ln x - 2 * (x - 1) / (x + 1)).
    assert (H : f 1 <= f r).
    { apply (nondecr_from f (fun x => (x - 1) ^ 2 / (x * (x + 1) ^ 2)) 1 r Hr).
      - intros x Hx. unfold f. auto_derive; [repeat split; lra|]. field. lra.
      - intros x Hx. apply Rmult_le_pos; [apply pow2_ge_0|]. left. apply Rinv_0_lt_compat. nra. }
    unfold f in H. rewrite ln_1 in H. unfold pade. replace (2 * (1 - 1) / (1 + 1)) with 0 in H by field. lra.
  - pose (h := fun x => (x - 1) ^ 3 / 12 - (ln x - 2 * (x - 1) / (x + 1))).
    assert (H : h 1 <= h r).
    { apply (nondecr_from h (fun x => (x - 1) ^ 2 * (1 / 4 - 1 / (x * (x + 1) ^ 2))) 1 r Hr).
      - intros x Hx. unfold h. auto_derive; [repeat split; lra|]. field. lra.
      - intros x Hx. apply Rmult_le_pos; [apply pow2_ge_0|].
        assert (H4 : 4 <= x * (x + 1) ^ 2) by nra.
        assert (Hinv : 1 / (x * (x + 1) ^ 2) <= 1 / 4).
        { unfold Rdiv. rewrite !Rmult_1_l. apply Rinv_le_contravar; lra. }
        lra. }
    unfold h in H. rewrite ln_1 in H. unfold pade.
    replace ((1 - 1) ^ 3 / 12 - (0 - 2 * (1 - 1) / (1 + 1))) with 0 in H by field. lra.
Qed.

Lemma nth_cumsum : forall l acc k, (k <= length l)%nat -> nth k (acc :: cumsum_from acc l) 0 = acc + rsum (firstn k l).
Proof.
  induction l as [|a l IH]; intros acc k Hk.
  - cbn [length] in Hk. assert (k = 0%nat) by lia. subst. cbn [nth firstn rsum]. lra.
  - destruct k as [|k]; [cbn [nth firstn rsum]; lra|].
    cbn [length] in Hk. cbn [cumsum_from firstn rsum].
    change (nth (S k) (acc :: (acc + a) :: cumsum_from (acc + a) l) 0) with (nth k ((acc + a) :: cumsum_from (acc + a) l) 0).
    rewrite IH by lia. lra.
Qed.

Lemma layers_isothermal T0 : 0 < T0 -> forall p, List.Forall (fun x => 0 < x) p ->
  layers p (zip2 (fun p T => density p T c_gas_constant_dry_air) p (repeat T0 (length p))) =
  map (fun r => c_gas_constant_dry_air * T0 / c_earth_standard_gravity * pade r) (ratios p).
Proof.
  intros HT. induction p as [|p0 p IH]; intros Hp; [reflexivity|].
  destruct p as [|p1 p]; [reflexivity|].
  inversion Hp as [|? ? Hp0 Hp']; subst. inversion Hp' as [|? ? Hp1 _]; subst.
  specialize (IH Hp').
  change (length (p0 :: p1 :: p)) with (S (S (length p))).
  change (length (p1 :: p)) with (S (length p)) in IH.
  cbn [repeat zip2] in IH |- *. rewrite layers_cons2, ratios_cons2. cbn [map]. rewrite IH. f_equal.
  unfold density, pade. pose proof g_pos. pose proof Rd_pos.
  replace 0.5 with (1 / 2) by lra. field. repeat split; lra.
Qed.

Lemma ratios_ge_1 : forall p, List.Forall (fun x => 0 < x) p -> decreasing p -> List.Forall (fun r => 1 <= r) (ratios p).
Proof.
  induction p as [|p0 p IH]; intros Hp Hd; [constructor|].
  destruct p as [|p1 p]; [constructor|].
  inversion Hp as [|? ? Hp0 Hp']; subst. inversion Hp' as [|? ? Hp1 _]; subst.
  apply decreasing_cons2 in Hd. destruct Hd as [H01 Hd'].
  rewrite ratios_cons2. constructor; [|apply IH; assumption].
  apply Rmult_le_reg_r with p1; [exact Hp1|]. unfold Rdiv. rewrite Rmult_assoc, Rinv_l by lra. lra.
Qed.

Lemma ln_ratio_sum : forall p k, List.Forall (fun x => 0 < x) p -> (k < length p)%nat ->
  ln (nth 0 p 0 / nth k p 0) = rsum (map ln (firstn k (ratios p))).
Proof.
  induction p as [|p0 p IH]; intros k Hp Hk; [cbn in Hk; lia|].
  destruct k as [|k].
  - cbn [nth firstn map rsum]. inversion Hp; subst. unfold Rdiv. rewrite Rinv_r by lra. apply ln_1.
  - destruct p as [|p1 p]; [cbn in Hk; lia|].
    inversion Hp as [|? ? Hp0 Hp']; subst. inversion Hp' as [|? ? Hp1 _]; subst.
    assert (Hk' : (k < length (p1 :: p))%nat) by (cbn [length] in *; lia).
    specialize (IH k Hp' Hk').
    rewrite ratios_cons2. cbn [firstn map rsum]. rewrite <- IH.
    change (nth (S k) (p0 :: p1 :: p) 0) with (nth k (p1 :: p) 0).
    change (nth 0 (p0 :: p1 :: p) 0) with p0. change (nth 0 (p1 :: p) 0) with p1.
    assert (Hpk : 0 < nth k (p1 :: p) 0).
    { rewrite Forall_forall in Hp'. apply Hp'. apply nth_In. exact Hk'. }
    rewrite <- ln_mult.
    + f_equal. field. split; lra.
    + apply Rdiv_lt_0_compat; lra.
    + apply Rdiv_lt_0_compat; lra.
Qed.

Lemma sum_pade_bound : forall rs, List.Forall (fun r => 1 <= r) rs ->
  0 <= rsum (map ln rs) - rsum (map pade rs) <= rsum (map (fun r => (r - 1) ^ 3 / 12) rs).
Proof.
  induction 1 as [|r rs Hr _ IH]; cbn [map rsum]; [lra|]. pose proof (ln_pade_bound r Hr). lra.
Qed.

Lemma rsum_scale c (f : R -> R) : forall l, rsum (map (fun r => c * f r) l) = c * rsum (map f l).
Proof. induction l as [|a l IH]; cbn [map rsum]; [lra|]. rewrite IH. lra. Qed.

Lemma Forall_firstn {A} (P : A -> Prop) : forall k l, List.Forall P l -> List.Forall P (firstn k l).
Proof. induction k as [|k IH]; intros [|a l] H; cbn [firstn]; try constructor. - inversion H; assumption. - apply IH. inversion H; assumption. Qed.

Lemma ratios_length : forall p, length (ratios p) = pred (length p).
Proof.
  induction p as [|p0 p IH]; [reflexivity|]. destruct p as [|p1 p]; [reflexivity|].
  rewrite ratios_cons2. cbn [length pred] in *. rewrite IH. reflexivity.
Qed.

Lemma p2h_isothermal T0 p k : 0 < T0 -> List.Forall (fun x => 0 < x) p -> decreasing p -> (k < length p)%nat ->
  let H := c_gas_constant_dry_air * T0 / c_earth_standard_gravity in
  let z := nth k (pressure2height p (repeat T0 (length p))) 0 in
  z = H * rsum (map pade (firstn k (ratios p))) /\
  0 <= H * ln (nth 0 p 0 / nth k p 0) - z <= H * rsum (map (fun r => (r - 1) ^ 3 / 12) (firstn k (ratios p))).
Proof.
  intros HT Hp Hd Hk H z.
  assert (HH : 0 < H). { unfold H. pose proof g_pos. pose proof Rd_pos. apply Rdiv_lt_0_compat; nra. }
  assert (Hz : z = H * rsum (map pade (firstn k (ratios p)))).
  { unfold z, pressure2height. rewrite (layers_isothermal T0 HT p Hp).
    rewrite nth_cumsum by (rewrite map_length, ratios_length; lia).
    rewrite firstn_map. fold H. rewrite (rsum_scale H pade). lra. }
  split; [exact Hz|].
  rewrite (ln_ratio_sum p k Hp Hk), Hz.
  pose proof (sum_pade_bound (firstn k (ratios p)) (Forall_firstn _ k _ (ratios_ge_1 p Hp Hd))) as [B1 B2].
  split; nra.
Qed.

(* on a grid whose successive pressure ratios stay below 1 + d the height error is at most H k d^3 / 12 *)
Lemma rsum_cube_bound d : 0 <= d -> forall rs, List.Forall (fun r => 1 <= r <= 1 + d) rs ->
  rsum (map (fun r => (r - 1) ^ 3 / 12) rs) <= INR (length rs) * (d ^ 3 / 12).
Proof.
  intros Hd. induction 1 as [|r rs Hr _ IH]; [cbn; lra|].
  cbn [map rsum]. change (length (r :: rs)) with (S (length rs)). rewrite S_INR.
  assert (Hc : (r - 1) ^ 3 <= d ^ 3).
  { assert (0 <= r - 1 <= d) by lra. apply pow_incr. lra. }
  lra.
Qed.

(* ------------------------------------------------------------------ standard atmosphere *)

Lemma interp_seg_first x0 x1 xs2 y0 y1 ys2 x : x <= x1 ->
  interp_seg (x0 :: x1 :: xs2) (y0 :: y1 :: ys2) x = line x0 y0 x1 y1 x.
Proof. intros H. cbn [interp_seg]. destruct xs2; [reflexivity|]. destruct (Rle_dec x x1); [reflexivity|contradiction]. Qed.
Lemma interp_seg_skip x0 x1 x2 xs3 y0 y1 ys2 x : x1 < x ->
  interp_seg (x0 :: x1 :: x2 :: xs3) (y0 :: y1 :: ys2) x = interp_seg (x1 :: x2 :: xs3) (y1 :: ys2) x.
Proof. intros H. cbn [interp_seg]. destruct (Rle_dec x x1); [lra|reflexivity]. Qed.
Lemma interp_seg_last x0 x1 y0 y1 ys2 x : interp_seg [x0; x1] (y0 :: y1 :: ys2) x = line x0 y0 x1 y1 x.
Proof. reflexivity. Qed.

Ltac isa_side := first [lra | apply ln_increasing; lra | apply ln_le; lra].
Ltac isa_walk := repeat first [rewrite interp_seg_skip by isa_side | rewrite interp_seg_first by isa_side | rewrite interp_seg_last].
Ltac isa_open := unfold standard_atmosphere_h, standard_atmosphere_p, isa_kelvin, isa_h, isa_p, isa_temp; cbn [map rev app nth].

(* the straight line between the neighbours k, k+1 of the table, in height and in ln p *)
Definition seg_h (k : nat) (z : R) : R :=
  line (nth k isa_h 0) (nth k isa_kelvin 0) (nth (S k) isa_h 0) (nth (S k) isa_kelvin 0) z.
Definition seg_p (k : nat) (p : R) : R :=
  line (ln (nth (S k) isa_p 1)) (nth (S k) isa_kelvin 0) (ln (nth k isa_p 1)) (nth k isa_kelvin 0) (ln p).

Lemma sa_h_segment k z : (k < 7)%nat -> (k = 0%nat \/ nth k isa_h 0 < z) -> (k = 6%nat \/ z <= nth (S k) isa_h 0) ->
  standard_atmosphere_h z = seg_h k z.
Proof.
  intros Hk Hlo Hhi. unfold seg_h.
  do 7 (destruct k as [|k]; [isa_open; isa_open; cbn [nth] in Hlo, Hhi;
        unfold isa_h in Hlo, Hhi; cbn [nth] in Hlo, Hhi;
        (destruct Hlo as [Hlo|Hlo]; [try discriminate Hlo|]); (destruct Hhi as [Hhi|Hhi]; [try discriminate Hhi|]);
        isa_walk; reflexivity|]).
  lia.
Qed.

Lemma sa_p_segment k p : (k < 7)%nat -> 0 < p -> (k = 6%nat \/ nth (S k) isa_p 1 < p) -> (k = 0%nat \/ p <= nth k isa_p 1) ->
  standard_atmosphere_p p = seg_p k p.
Proof.
  intros Hk Hp Hlo Hhi. unfold seg_p.
  do 7 (destruct k as [|k]; [isa_open; isa_open; cbn [nth] in Hlo, Hhi;
        unfold isa_p in Hlo, Hhi; cbn [nth] in Hlo, Hhi;
        (destruct Hlo as [Hlo|Hlo]; [try discriminate Hlo|]); (destruct Hhi as [Hhi|Hhi]; [try discriminate Hhi|]);
        isa_walk; reflexivity|]).
  lia.
Qed.

(* height and pressure addressing agree at the tabulated levels: both give the tabulated temperature *)
Lemma isa_levels_agree k : (k < 8)%nat ->
  standard_atmosphere_h (nth k isa_h 0) = nth k isa_kelvin 0 /\
  standard_atmosphere_p (nth k isa_p 1) = nth k isa_kelvin 0.
Proof.
  intros Hk.
  do 8 (destruct k as [|k]; [isa_open; isa_open; isa_walk; unfold line; split; field;
        try lra; try (apply Rgt_not_eq; apply Rlt_Rminus; apply ln_increasing; lra);
        try (apply Rlt_not_eq; apply Rlt_minus; apply ln_increasing; lra)|]).
  lia.
Qed.

(* the witness of Props/C14.v: a three-level column (1000, 700, 400 hPa) meets the hypotheses of the theorems *)
Lemma nonvacuous_column_witness :
  let p := [100000; 70000; 40000] in
  0 < 250 /\ List.Forall (fun x => 0 < x) p /\ decreasing p /\ nonincreasing p /\ (2 < length p)%nat /\ p <> [] /\
  List.Forall (fun x => 0 <= x <= 1) [0.02; 0.01; 0.001] /\
  List.Forall (fun tp => e_eq_mixed_mk (fst tp) < snd tp) (combine [290; 270; 240] p).
Proof.
  cbn [decreasing nonincreasing length combine]. repeat split; try lra; try lia; try discriminate.
  - repeat constructor; lra.
  - repeat constructor; lra.
  - repeat constructor; cbn [fst snd].
    + rewrite mixed_is_liquid by (unfold c_triple_point_water; lra).
      unfold e_eq_water_mk, tanh, sinh, cosh; cbv zeta. interval.
    + rewrite mixed_blend by (unfold c_triple_point_water; lra).
      unfold e_eq_water_mk, e_eq_ice_mk, c_triple_point_water, tanh, sinh, cosh; cbv zeta. interval.
    + rewrite mixed_is_ice by (unfold c_triple_point_water; lra).
      unfold e_eq_ice_mk; cbv zeta. interval.
Qed.
