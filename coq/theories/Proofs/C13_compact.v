(* C13 -- proofs about Model/C13_compact.v *)
From Coq Require Import Arith List Bool Lia Permutation.
From Typhon Require Import Model.C13_compact.
Import ListNotations.

(* ------------------------------------------------------------------ generic list lemmas *)
Lemma upd_length {A} k (v : A) l : length (upd k v l) = length l.
Proof. revert k; induction l as [|h t IH]; intros [|k]; cbn [upd length]; auto. Qed.

Lemma nth_upd_eq {A} k (v d : A) l : k < length l -> nth k (upd k v l) d = v.
Proof.
  revert k; induction l as [|h t IH]; intros [|k]; cbn [upd length nth]; intros H; try lia; auto.
  apply IH; lia.
Qed.

Lemma nth_upd_neq {A} k j (v d : A) l : j <> k -> nth j (upd k v l) d = nth j l d.
Proof.
  revert k j; induction l as [|h t IH]; intros [|k] [|j]; cbn [upd nth]; intros H; try congruence; auto.
Qed.

Lemma upd_app_mid {A} (l1 l2 : list A) x v : upd (length l1) v (l1 ++ x :: l2) = l1 ++ v :: l2.
Proof. induction l1 as [|h t IH]; cbn [length app upd]; [reflexivity|]. rewrite IH. reflexivity. Qed.

Lemma nth_repeat_lt {A} (x d : A) n k : k < n -> nth k (repeat x n) d = x.
Proof. revert k; induction n as [|n IH]; intros [|k] H; cbn [repeat nth]; try lia; auto. apply IH; lia. Qed.

Lemma map_repeat' {A B} (f : A -> B) x n : map f (repeat x n) = repeat (f x) n.
Proof. induction n as [|n IH]; cbn [repeat map]; [reflexivity|]. rewrite IH. reflexivity. Qed.

Lemma combine_app' {A B} (l1 l1' : list A) (l2 l2' : list B) :
  length l1 = length l2 -> combine (l1 ++ l1') (l2 ++ l2') = combine l1 l2 ++ combine l1' l2'.
Proof.
  revert l2; induction l1 as [|a t IH]; intros [|b t2] H; cbn [length] in H; try discriminate; cbn [app combine].
  - reflexivity.
  - rewrite IH by lia. reflexivity.
Qed.

Lemma filter_length_le {A} (f : A -> bool) l : length (filter f l) <= length l.
Proof. induction l as [|y t IH]; cbn [filter length]; [lia|]. destruct (f y); cbn [length]; lia. Qed.

(* ------------------------------------------------------------------ cnt *)
Lemma cnt_app c l1 l2 : cnt c (l1 ++ l2) = cnt c l1 + cnt c l2.
Proof. induction l1 as [|x t IH]; cbn [app cnt]; [reflexivity|]. rewrite IH. lia. Qed.

Lemma cnt_snoc_eq p l : cnt p (l ++ [p]) = S (cnt p l).
Proof. rewrite cnt_app. cbn [cnt]. rewrite Nat.eqb_refl. lia. Qed.

Lemma cnt_snoc_neq c p l : c <> p -> cnt c (l ++ [p]) = cnt c l.
Proof. intros H. rewrite cnt_app. cbn [cnt]. destruct (Nat.eqb_spec p c); [congruence|lia]. Qed.

Lemma cnt_pos c l : In c l -> 0 < cnt c l.
Proof.
  induction l as [|x t IH]; cbn [In cnt]; [tauto|]. intros [->|H].
  - rewrite Nat.eqb_refl. lia.
  - specialize (IH H). lia.
Qed.

(* ------------------------------------------------------------------ uniq *)
Lemma uniq_In x l : In x (uniq l) <-> In x l.
Proof.
  induction l as [|y t IH]; cbn [uniq In]; [tauto|]. rewrite filter_In, IH. split.
  - intros [->|[Hin _]]; auto.
  - intros [->|Hin]; [left; reflexivity|].
    destruct (Nat.eq_dec y x) as [->|Hn]; [left; reflexivity|right].
    split; [exact Hin|]. apply negb_true_iff, Nat.eqb_neq. congruence.
Qed.

Lemma uniq_NoDup l : NoDup (uniq l).
Proof.
  induction l as [|y t IH]; cbn [uniq]; constructor.
  - rewrite filter_In. intros [_ H]. rewrite Nat.eqb_refl in H. discriminate.
  - apply NoDup_filter. exact IH.
Qed.

Lemma uniq_length_le l : length (uniq l) <= length l.
Proof.
  induction l as [|y t IH]; cbn [uniq length]; [lia|].
  pose proof (filter_length_le (fun z => negb (z =? y)) (uniq t)). lia.
Qed.

Lemma uniq_length_row_ok n row : row_ok n row -> length (uniq row) = n.
Proof.
  intros [Hb Hs]. rewrite Forall_forall in Hb.
  assert (H1 : length (uniq row) <= length (seq 0 n)).
  { apply NoDup_incl_length; [apply uniq_NoDup|].
    intros x Hx. apply (proj1 (uniq_In x row)) in Hx. apply in_seq. specialize (Hb x Hx). lia. }
  assert (H2 : length (seq 0 n) <= length (uniq row)).
  { apply NoDup_incl_length; [apply seq_NoDup|].
    intros x Hx. apply in_seq in Hx. apply uniq_In. apply Hs. lia. }
  rewrite seq_length in H1, H2. lia.
Qed.

(* ------------------------------------------------------------------ the index table of the compaction *)
Lemma scatter_cons tb i idx v vals : scatter tb (i :: idx) (v :: vals) = scatter (upd i v tb) idx vals.
Proof. reflexivity. Qed.

Lemma scatter_other idx : forall tb vals j, ~ In j idx -> nth j (scatter tb idx vals) 0 = nth j tb 0.
Proof.
  induction idx as [|i idx IH]; intros tb [|v vals] j Hn; try reflexivity.
  rewrite scatter_cons, IH.
  - apply nth_upd_neq. intros ->. apply Hn. left; reflexivity.
  - intros H. apply Hn. right; exact H.
Qed.

Lemma scatter_nth idx : forall vals tb k,
  NoDup idx -> length idx = length vals -> Forall (fun i => i < length tb) idx -> k < length idx ->
  nth (nth k idx 0) (scatter tb idx vals) 0 = nth k vals 0.
Proof.
  induction idx as [|i idx IH]; intros [|v vals] tb k Hnd Hlen Hb Hk; cbn [length] in *; try lia.
  inversion Hnd as [|? ? Hni Hnd']; subst. inversion Hb as [|? ? Hi Hb']; subst.
  rewrite scatter_cons. destruct k as [|k]; cbn [nth].
  - rewrite scatter_other by exact Hni. apply nth_upd_eq; exact Hi.
  - apply IH; try assumption; try lia.
    assert (E : length (upd i v tb) = length tb) by apply upd_length. rewrite E. exact Hb'.
Qed.

(* every slot that is read was written, and holds the position of the value in the stored points *)
Lemma new_indices_spec u k : NoDup u -> k < length u -> nth (nth k u 0) (new_indices u) 0 = k.
Proof.
  intros Hnd Hk. unfold new_indices. rewrite scatter_nth.
  - rewrite seq_nth by exact Hk. reflexivity.
  - exact Hnd.
  - rewrite seq_length. reflexivity.
  - rewrite repeat_length. apply Forall_forall. intros x Hx.
    pose proof (proj1 (list_max_le u (list_max u)) (le_n _)) as H.
    rewrite Forall_forall in H. specialize (H x Hx). lia.
  - exact Hk.
Qed.

Lemma compact_lookup raw v : In v raw ->
  exists k, k < length (uniq raw) /\ nth k (uniq raw) 0 = v /\ nth v (new_indices (uniq raw)) 0 = k.
Proof.
  intros Hv. apply (proj2 (uniq_In v raw)) in Hv. destruct (In_nth _ _ 0 Hv) as (k & Hk & E).
  exists k. split; [exact Hk|]. split; [exact E|]. rewrite <- E. apply new_indices_spec; [apply uniq_NoDup|exact Hk].
Qed.

Lemma compact_valid_l raw : Forall (fun i => i < length (fst (compact raw))) (snd (compact raw)).
Proof.
  unfold compact; cbn [fst snd]. apply Forall_forall. intros i Hi.
  apply in_map_iff in Hi as (v & <- & Hv). destruct (compact_lookup raw v Hv) as (k & Hk & _ & ->). exact Hk.
Qed.

Lemma compact_surjective_l raw i : i < length (fst (compact raw)) -> In i (snd (compact raw)).
Proof.
  unfold compact; cbn [fst snd]. intros Hi. apply in_map_iff. exists (nth i (uniq raw) 0). split.
  - apply new_indices_spec; [apply uniq_NoDup|exact Hi].
  - apply uniq_In. apply nth_In. exact Hi.
Qed.

Lemma compact_roundtrip_l raw : map (fun i => nth i (fst (compact raw)) 0) (snd (compact raw)) = raw.
Proof.
  unfold compact; cbn [fst snd]. rewrite map_map.
  transitivity (map (fun v : nat => v) raw); [|apply map_id].
  apply map_ext_in. intros v Hv. destruct (compact_lookup raw v Hv) as (k & _ & E & ->). exact E.
Qed.

Lemma compact_stored_once raw : NoDup (fst (compact raw)) /\ (forall v, In v (fst (compact raw)) <-> In v raw).
Proof. unfold compact; cbn [fst]. split; [apply uniq_NoDup|intros v; apply uniq_In]. Qed.

Lemma compact_row_ok raw : row_ok (length (fst (compact raw))) (snd (compact raw)).
Proof. split; [apply compact_valid_l|intros i; apply compact_surjective_l]. Qed.

(* ------------------------------------------------------------------ the boolean checker *)
Lemma row_okb_iff n row : row_okb n row = true <-> row_ok n row.
Proof.
  unfold row_okb, row_ok. rewrite andb_true_iff, !forallb_forall, Forall_forall. split.
  - intros [H1 H2]. split.
    + intros x Hx. apply Nat.ltb_lt. apply H1; exact Hx.
    + intros i Hi. assert (Hin : In i (seq 0 n)) by (apply in_seq; lia).
      specialize (H2 i Hin). apply existsb_exists in H2 as (y & Hy & E). apply Nat.eqb_eq in E. subst y. exact Hy.
  - intros [H1 H2]. split.
    + intros x Hx. apply Nat.ltb_lt. apply H1; exact Hx.
    + intros i Hi. apply in_seq in Hi. apply existsb_exists. exists i. split; [apply H2; lia|apply Nat.eqb_refl].
Qed.

Lemma compact_okb_iff_l {A B} (d : cds A B) : compact_okb d = true <-> compact_ok d.
Proof.
  unfold compact_okb, compact_ok. rewrite !andb_true_iff, Nat.eqb_eq, !row_okb_iff. tauto.
Qed.

(* ------------------------------------------------------------------ rows = running counts *)
Fixpoint rows_ok (pre rows prim : list nat) : Prop :=
  match rows, prim with
  | [], [] => True
  | r :: rt, p :: pt => r = cnt p pre /\ rows_ok (pre ++ [p]) rt pt
  | _, _ => False
  end.

Lemma rows_loop_ok prim : forall cur pre,
  (forall p, p < length cur -> nth p cur 0 = cnt p pre) ->
  Forall (fun p => p < length cur) prim -> rows_ok pre (rows_loop cur prim) prim.
Proof.
  induction prim as [|p t IH]; intros cur pre Hinv Hb; cbn [rows_loop rows_ok]; [exact I|].
  inversion Hb as [|? ? Hp Hb']; subst. split; [apply Hinv; exact Hp|].
  apply IH.
  - intros q Hq. rewrite upd_length in Hq. destruct (Nat.eq_dec q p) as [->|Hn].
    + rewrite nth_upd_eq by exact Hp. rewrite cnt_snoc_eq. rewrite Hinv by exact Hp. reflexivity.
    + rewrite nth_upd_neq by exact Hn. rewrite cnt_snoc_neq by exact Hn. apply Hinv; exact Hq.
  - assert (E : length (upd p (S (nth p cur 0)) cur) = length cur) by apply upd_length. rewrite E. exact Hb'.
Qed.

Lemma rows_for_ok prim : Forall (fun p => p < length prim) prim -> rows_ok [] (rows_for prim) prim.
Proof.
  intros H. unfold rows_for. apply rows_loop_ok.
  - intros p Hp. rewrite repeat_length in Hp. cbn [cnt]. apply nth_repeat_lt; exact Hp.
  - rewrite repeat_length. exact H.
Qed.

Lemma rows_ok_nth prim : forall rows pre, rows_ok pre rows prim ->
  length rows = length prim /\
  forall k, k < length prim -> nth k rows 0 = cnt (nth k prim 0) (pre ++ firstn k prim).
Proof.
  induction prim as [|p t IH]; intros [|r rt] pre H; cbn [rows_ok] in H; try contradiction.
  - split; [reflexivity|]. cbn [length]; lia.
  - destruct H as [-> H]. destruct (IH _ _ H) as [Hl Hn]. split; [cbn [length]; lia|].
    intros [|k] Hk; cbn [nth firstn length] in *.
    + rewrite app_nil_r. reflexivity.
    + rewrite Hn by lia. rewrite <- app_assoc. reflexivity.
Qed.

Lemma rows_ok_height prim : forall rows pre c, rows_ok pre rows prim -> 0 < cnt c prim ->
  cnt c (pre ++ prim) <= S (list_max rows).
Proof.
  induction prim as [|p t IH]; intros [|r rt] pre c H Hc; cbn [rows_ok] in H; try contradiction.
  - cbn [cnt] in Hc; lia.
  - destruct H as [-> H]. change (list_max (cnt p pre :: rt)) with (Nat.max (cnt p pre) (list_max rt)).
    destruct (Nat.eq_dec (cnt c t) 0) as [Hz|Hnz].
    + cbn [cnt] in Hc. rewrite cnt_app. cbn [cnt]. destruct (Nat.eqb_spec p c) as [->|Hn]; [|lia]. lia.
    + assert (Hpos : 0 < cnt c t) by lia. specialize (IH rt (pre ++ [p]) c H Hpos).
      rewrite <- app_assoc in IH. cbn [app] in IH. lia.
Qed.

(* ------------------------------------------------------------------ partners *)
Section BinsProofs.
  Context {A : Type}.
  Implicit Types (vals : list A).

  Lemma partners_app prim1 vals1 prim2 vals2 c : length prim1 = length vals1 ->
    partners (prim1 ++ prim2) (vals1 ++ vals2) c = partners prim1 vals1 c ++ partners prim2 vals2 c.
  Proof. intros H. unfold partners. rewrite combine_app' by exact H. rewrite filter_app, map_app. reflexivity. Qed.

  Lemma partners_snoc_eq pre vpre p (v : A) : length pre = length vpre ->
    partners (pre ++ [p]) (vpre ++ [v]) p = partners pre vpre p ++ [v].
  Proof.
    intros H. rewrite partners_app by exact H. f_equal. unfold partners. cbn [combine filter fst].
    rewrite Nat.eqb_refl. reflexivity.
  Qed.

  Lemma partners_snoc_neq pre vpre p c (v : A) : length pre = length vpre -> c <> p ->
    partners (pre ++ [p]) (vpre ++ [v]) c = partners pre vpre c.
  Proof.
    intros H Hn. rewrite partners_app by exact H. unfold partners at 2. cbn [combine filter fst].
    destruct (Nat.eqb_spec p c); [congruence|]. cbn [map]. apply app_nil_r.
  Qed.

  Lemma partners_length prim : forall vals c, length prim = length vals -> length (partners prim vals c) = cnt c prim.
  Proof.
    induction prim as [|p t IH]; intros [|v vt] c H; cbn [length] in H; try discriminate; [reflexivity|].
    unfold partners in *. cbn [combine filter fst cnt]. specialize (IH vt c ltac:(lia)).
    destruct (p =? c); cbn [map length]; rewrite IH; reflexivity.
  Qed.

  Lemma somes_pad (l : list A) k : somes (map Some l ++ repeat None k) = l.
  Proof.
    unfold somes. rewrite flat_map_app.
    assert (E1 : forall l : list A, flat_map (fun o : option A => match o with Some v => [v] | None => [] end) (map Some l) = l).
    { intros l0. induction l0 as [|x t IH]; cbn [map flat_map app]; [reflexivity|]. rewrite IH. reflexivity. }
    assert (E2 : flat_map (fun o : option A => match o with Some v => [v] | None => [] end) (repeat None k) = []).
    { induction k as [|k IH]; cbn [repeat flat_map app]; [reflexivity|exact IH]. }
    rewrite E1, E2. apply app_nil_r.
  Qed.

  (* invariant of the scatter assignment  binned[rows, prim] = vals *)
  Definition col_ok (H : nat) (pre : list nat) (vpre : list A) (m : @matrix A) (n : nat) : Prop :=
    length m = n /\
    forall c, c < n -> nth c m [] = map Some (partners pre vpre c) ++ repeat None (H - cnt c pre).

  Lemma fill_inv prim : forall rows vals pre vpre m H n,
    rows_ok pre rows prim -> length vals = length prim -> length pre = length vpre ->
    Forall (fun p => p < n) prim ->
    (forall c, c < n -> cnt c (pre ++ prim) <= H) ->
    col_ok H pre vpre m n ->
    col_ok H (pre ++ prim) (vpre ++ vals) (fill m rows prim vals) n.
  Proof.
    induction prim as [|p pt IH]; intros [|r rt] [|v vt] pre vpre m H n Hrows Hlv Hlp Hb Hcap Hok;
      cbn [rows_ok length] in *; try contradiction; try discriminate.
    - cbn [fill]. rewrite !app_nil_r. exact Hok.
    - destruct Hrows as [-> Hrows]. inversion Hb as [|? ? Hp Hb']; subst. cbn [fill].
      replace (pre ++ p :: pt) with ((pre ++ [p]) ++ pt) by (rewrite <- app_assoc; reflexivity).
      replace (vpre ++ v :: vt) with ((vpre ++ [v]) ++ vt) by (rewrite <- app_assoc; reflexivity).
      apply (IH rt vt (pre ++ [p]) (vpre ++ [v]) _ H n).
      + exact Hrows.
      + lia.
      + rewrite !app_length. cbn [length]. lia.
      + exact Hb'.
      + intros c Hc. rewrite <- app_assoc. apply Hcap; exact Hc.
      + destruct Hok as [Hlen Hcols]. split; [unfold set_cell; rewrite upd_length; exact Hlen|].
        intros c Hc. unfold set_cell. destruct (Nat.eq_dec c p) as [->|Hn].
        * rewrite nth_upd_eq by lia. rewrite Hcols by exact Hp.
          rewrite partners_snoc_eq by exact Hlp. rewrite cnt_snoc_eq.
          pose proof (Hcap p Hp) as Hc'. rewrite cnt_app in Hc'. cbn [cnt] in Hc'. rewrite Nat.eqb_refl in Hc'.
          replace (H - cnt p pre) with (S (H - S (cnt p pre))) by lia.
          cbn [repeat]. rewrite map_app, <- app_assoc. cbn [map app].
          set (R := repeat None (H - S (cnt p pre))).
          assert (E : cnt p pre = length (map (@Some A) (partners pre vpre p)))
            by (rewrite map_length, partners_length by exact Hlp; reflexivity).
          rewrite E. apply upd_app_mid.
        * rewrite nth_upd_neq by exact Hn. rewrite Hcols by exact Hc.
          rewrite partners_snoc_neq by assumption. rewrite cnt_snoc_neq by exact Hn. reflexivity.
  Qed.

  Lemma bins_exact_l prim vals n c :
    length vals = length prim -> row_ok n prim -> c < n ->
    column (bin_matrix prim vals) c
      = map Some (partners prim vals c) ++ repeat None (S (list_max (rows_for prim)) - cnt c prim)
    /\ length (bin_matrix prim vals) = n
    /\ 0 < cnt c prim <= S (list_max (rows_for prim)).
  Proof.
    intros Hlv Hok Hc. pose proof (uniq_length_row_ok n prim Hok) as Hn.
    destruct Hok as [Hb Hs].
    assert (Hlt : Forall (fun p => p < length prim) prim).
    { pose proof (uniq_length_le prim). eapply Forall_impl; [|exact Hb]. cbn beta. intros a Ha. lia. }
    pose proof (rows_for_ok prim Hlt) as Hrows.
    assert (Hcap : forall c, c < n -> cnt c ([] ++ prim) <= S (list_max (rows_for prim))).
    { intros c0 Hc0. apply rows_ok_height; [exact Hrows|]. apply cnt_pos. apply Hs; exact Hc0. }
    assert (Hinit : col_ok (S (list_max (rows_for prim))) [] [] (empty_matrix (S (list_max (rows_for prim))) n) n).
    { split; [apply repeat_length|]. intros c0 Hc0. unfold empty_matrix. rewrite nth_repeat_lt by exact Hc0.
      cbn [partners combine filter map cnt app]. rewrite Nat.sub_0_r. reflexivity. }
    pose proof (fill_inv prim (rows_for prim) vals [] [] _ _ n Hrows Hlv eq_refl Hb Hcap Hinit) as [Hlen Hcols].
    cbn [app] in Hlen, Hcols. unfold bin_matrix, column. rewrite Hn.
    split; [apply Hcols; exact Hc|]. split; [exact Hlen|]. split.
    - apply cnt_pos. apply Hs; exact Hc.
    - apply (Hcap c Hc).
  Qed.

  Lemma partners_gather (d : A) refrow : forall otherrow vals c,
    partners refrow (gather d otherrow vals) c = gather d (partner_points refrow otherrow c) vals.
  Proof.
    unfold partners, partner_points, gather.
    induction refrow as [|i t IH]; intros [|j jt] vals c; try reflexivity.
    cbn [map combine filter fst]. destruct (i =? c); cbn [map snd]; rewrite IH; reflexivity.
  Qed.
End BinsProofs.

Lemma partners_map {A B} (f : A -> B) prim : forall vals c,
  partners prim (map f vals) c = map f (partners prim vals c).
Proof.
  unfold partners. induction prim as [|p t IH]; intros [|v vt] c; try reflexivity.
  cbn [map combine filter fst]. destruct (p =? c); cbn [map snd]; rewrite IH; reflexivity.
Qed.

Lemma bins_lanes_l {A B} (f : A -> B) prim (vals : list A) n c :
  length vals = length prim -> row_ok n prim -> c < n ->
  map (option_map f) (column (bin_matrix prim vals) c) = column (bin_matrix prim (map f vals)) c.
Proof.
  intros Hlv Hok Hc.
  destruct (bins_exact_l prim vals n c Hlv Hok Hc) as [E1 _].
  assert (Hlv' : length (map f vals) = length prim) by (rewrite map_length; exact Hlv).
  destruct (bins_exact_l prim (map f vals) n c Hlv' Hok Hc) as [E2 _].
  rewrite E1, E2, map_app, map_map, map_repeat', partners_map, map_map. reflexivity.
Qed.

(* ------------------------------------------------------------------ expand *)
Lemma gather_nth {A} (d : A) idx vals k : k < length idx -> nth k (gather d idx vals) d = nth (nth k idx 0) vals d.
Proof.
  intros Hk. unfold gather.
  rewrite (nth_indep _ d (nth 0 vals d)) by (rewrite map_length; exact Hk).
  apply (map_nth (fun i => nth i vals d) idx 0 k).
Qed.

Lemma expand_rows_l {A B} (da : A) (db : B) (d : cds A B) k :
  length (prow d) = length (srow d) -> k < length (prow d) ->
  nth k (expand da db d) (da, db) = (nth (nth k (prow d) 0) (pvals d) da, nth (nth k (srow d) 0) (svals d) db).
Proof.
  intros Hl Hk. unfold expand. rewrite combine_nth by (unfold gather; rewrite !map_length; exact Hl).
  rewrite !gather_nth by lia. reflexivity.
Qed.

Lemma expand_length_l {A B} (da : A) (db : B) (d : cds A B) :
  length (prow d) = length (srow d) -> length (expand da db d) = length (prow d).
Proof. intros Hl. unfold expand, gather. rewrite combine_length, !map_length. lia. Qed.

(* ------------------------------------------------------------------ concat *)
Definition pairs_valid {A B} (d : cds A B) : Prop :=
  length (prow d) = length (srow d) /\
  Forall (fun i => i < length (pvals d)) (prow d) /\ Forall (fun j => j < length (svals d)) (srow d).

Lemma compact_ok_valid {A B} (d : cds A B) : compact_ok d -> pairs_valid d.
Proof. intros (H1 & [H2 _] & [H3 _]). repeat split; assumption. Qed.

Lemma gather_shift_app {A} (d : A) pre row l : gather d (map (Nat.add (length pre)) row) (pre ++ l) = gather d row l.
Proof.
  unfold gather. rewrite map_map. apply map_ext. intros i. rewrite app_nth2 by lia. f_equal. lia.
Qed.

Lemma gather_app1 {A} (d : A) row l post : Forall (fun i => i < length l) row -> gather d row (l ++ post) = gather d row l.
Proof.
  intros H. rewrite Forall_forall in H. unfold gather. apply map_ext_in. intros i Hi. apply app_nth1. apply H; exact Hi.
Qed.

Lemma gather_app_idx {A} (d : A) r1 r2 l : gather d (r1 ++ r2) l = gather d r1 l ++ gather d r2 l.
Proof. unfold gather. apply map_app. Qed.

Lemma expand_shifted {A B} (da : A) (db : B) (ds : list (cds A B)) : forall (Ppre : list A) (Spre : list B),
  Forall pairs_valid ds ->
  combine (gather da (fst (shifted_rows (length Ppre) (length Spre) ds)) (Ppre ++ flat_map pvals ds))
          (gather db (snd (shifted_rows (length Ppre) (length Spre) ds)) (Spre ++ flat_map svals ds))
  = flat_map (expand da db) ds.
Proof.
  induction ds as [|d t IH]; intros Ppre Spre Hv; [reflexivity|].
  inversion Hv as [|? ? (Hl & Hp & Hs) Hv']; subst.
  cbn [shifted_rows flat_map fst snd]. rewrite !gather_app_idx.
  rewrite combine_app' by (unfold gather; rewrite !map_length; exact Hl).
  f_equal.
  - rewrite !gather_shift_app. rewrite !gather_app1 by assumption. reflexivity.
  - rewrite <- !app_length. rewrite !app_assoc. apply IH. exact Hv'.
Qed.

Lemma expand_concat_l {A B} (da : A) (db : B) (ds : list (cds A B)) :
  Forall pairs_valid ds -> expand da db (concat_c ds) = concat (map (expand da db) ds).
Proof.
  intros Hv. rewrite <- flat_map_concat_map. unfold expand at 1, concat_c. cbn [prow srow pvals svals].
  apply (expand_shifted da db ds [] [] Hv).
Qed.

(* concat keeps the invariant: one row at a time *)
Fixpoint shift_row (off : nat) (l : list (list nat * nat)) : list nat :=
  match l with
  | [] => []
  | (row, n) :: t => map (Nat.add off) row ++ shift_row (off + n) t
  end.
Definition total (l : list (list nat * nat)) : nat := fold_right (fun rn s => snd rn + s) 0 l.

Lemma shift_row_ok l : forall off, Forall (fun rn => row_ok (snd rn) (fst rn)) l ->
  Forall (fun i => off <= i < off + total l) (shift_row off l) /\
  (forall i, off <= i < off + total l -> In i (shift_row off l)).
Proof.
  induction l as [|[row n] t IH]; intros off H; cbn [shift_row total fold_right snd].
  - split; [constructor|]. intros i Hi. lia.
  - inversion H as [|? ? [Hb Hs] H']; subst. cbn [fst snd] in Hb, Hs. destruct (IH (off + n) H') as [IH1 IH2].
    fold (total t). split.
    + apply Forall_app. split.
      * apply Forall_forall. intros i Hi. apply in_map_iff in Hi as (j & <- & Hj).
        rewrite Forall_forall in Hb. specialize (Hb j Hj). lia.
      * eapply Forall_impl; [|exact IH1]. cbn beta. intros i Hi. lia.
    + intros i Hi. apply in_or_app. destruct (Nat.lt_ge_cases i (off + n)) as [Hlt|Hge].
      * left. apply in_map_iff. exists (i - off). split; [lia|]. apply Hs. lia.
      * right. apply IH2. lia.
Qed.

Lemma shifted_fst {A B} (ds : list (cds A B)) : forall po so,
  fst (shifted_rows po so ds) = shift_row po (map (fun d => (prow d, length (pvals d))) ds).
Proof. induction ds as [|d t IH]; intros po so; cbn [shifted_rows map shift_row fst]; [reflexivity|]. rewrite IH. reflexivity. Qed.

Lemma shifted_snd {A B} (ds : list (cds A B)) : forall po so,
  snd (shifted_rows po so ds) = shift_row so (map (fun d => (srow d, length (svals d))) ds).
Proof. induction ds as [|d t IH]; intros po so; cbn [shifted_rows map shift_row snd]; [reflexivity|]. rewrite IH. reflexivity. Qed.

Lemma total_flat {A B} (f : cds A B -> list nat) {C} (g : cds A B -> list C) (ds : list (cds A B)) :
  total (map (fun d => (f d, length (g d))) ds) = length (flat_map g ds).
Proof. induction ds as [|d t IH]; cbn [map total fold_right flat_map snd]; [reflexivity|]. rewrite app_length. fold (total (map (fun d => (f d, length (g d))) t)). rewrite IH. reflexivity. Qed.

Lemma shift_row_length l : forall off, length (shift_row off l) = fold_right (fun rn s => length (fst rn) + s) 0 l.
Proof. induction l as [|[row n] t IH]; intros off; cbn [shift_row fold_right fst]; [reflexivity|]. rewrite app_length, map_length, IH. reflexivity. Qed.

Lemma concat_compact_ok_l {A B} (ds : list (cds A B)) : Forall compact_ok ds -> compact_ok (concat_c ds).
Proof.
  intros H. unfold compact_ok, concat_c. cbn [prow srow pvals svals].
  rewrite shifted_fst, shifted_snd. split; [|split].
  - rewrite !shift_row_length. induction H as [|d t (Hl & _) _ IH]; cbn [map fold_right fst]; [reflexivity|]. rewrite IH, Hl. reflexivity.
  - rewrite <- (total_flat prow pvals ds).
    assert (Hr : Forall (fun rn => row_ok (snd rn) (fst rn)) (map (fun d => (prow d, length (pvals d))) ds)).
    { apply Forall_forall. intros rn Hrn. apply in_map_iff in Hrn as (d & <- & Hd). rewrite Forall_forall in H. apply (H d Hd). }
    destruct (shift_row_ok _ 0 Hr) as [H1 H2]. split.
    + eapply Forall_impl; [|exact H1]. cbn beta. intros i Hi. lia.
    + intros i Hi. apply H2. lia.
  - rewrite <- (total_flat srow svals ds).
    assert (Hr : Forall (fun rn => row_ok (snd rn) (fst rn)) (map (fun d => (srow d, length (svals d))) ds)).
    { apply Forall_forall. intros rn Hrn. apply in_map_iff in Hrn as (d & <- & Hd). rewrite Forall_forall in H. apply (H d Hd). }
    destruct (shift_row_ok _ 0 Hr) as [H1 H2]. split.
    + eapply Forall_impl; [|exact H1]. cbn beta. intros i Hi. lia.
    + intros i Hi. apply H2. lia.
Qed.

(* ------------------------------------------------------------------ concat in an index type of W values *)
Lemma shifted_rows_w_mod {A B} (W : nat) (ds : list (cds A B)) : forall po so,
  shifted_rows_w W po so ds
  = (map (fun i => i mod W) (fst (shifted_rows po so ds)), map (fun i => i mod W) (snd (shifted_rows po so ds))).
Proof.
  induction ds as [|d t IH]; intros po so; cbn [shifted_rows_w shifted_rows fst snd map]; [reflexivity|].
  rewrite IH. cbn [fst snd]. rewrite !map_app, !map_map. reflexivity.
Qed.

Lemma map_mod_id W l : 0 < W -> (map (fun i => i mod W) l = l <-> Forall (fun i => i < W) l).
Proof.
  intros HW. induction l as [|x t IH]; cbn [map].
  - split; [constructor|reflexivity].
  - split.
    + intros E. injection E as Ex Et. constructor.
      * rewrite <- Ex. apply Nat.mod_upper_bound. lia.
      * apply IH. exact Et.
    + intros H. inversion H as [|? ? Hx Ht]; subst. f_equal.
      * apply Nat.mod_small. exact Hx.
      * apply IH. exact Ht.
Qed.

Lemma concat_width_is_mod_l {A B} (W : nat) (ds : list (cds A B)) :
  prow (concat_w W ds) = map (fun i => i mod W) (prow (concat_c ds)) /\
  srow (concat_w W ds) = map (fun j => j mod W) (srow (concat_c ds)) /\
  pvals (concat_w W ds) = pvals (concat_c ds) /\ svals (concat_w W ds) = svals (concat_c ds).
Proof.
  unfold concat_w, concat_c. cbn [prow srow pvals svals]. rewrite shifted_rows_w_mod. cbn [fst snd].
  repeat split; reflexivity.
Qed.

Lemma concat_w_eq_iff {A B} (W : nat) (ds : list (cds A B)) : 0 < W ->
  (concat_w W ds = concat_c ds <->
   Forall (fun i => i < W) (prow (concat_c ds)) /\ Forall (fun j => j < W) (srow (concat_c ds))).
Proof.
  intros HW. destruct (concat_width_is_mod_l W ds) as (Hp & Hs & Hpv & Hsv).
  split.
  - intros E. rewrite E in Hp, Hs. split; apply (map_mod_id W _ HW); symmetry; assumption.
  - intros [Fp Fs]. apply (map_mod_id W _ HW) in Fp, Fs.
    destruct (concat_w W ds) as [p s pv sv], (concat_c ds) as [p' s' pv' sv']. cbn [prow srow pvals svals] in *.
    subst. rewrite Fp, Fs. reflexivity.
Qed.

Lemma concat_fits_width_iff_l {A B} (W : nat) (ds : list (cds A B)) : 0 < W -> Forall compact_ok ds ->
  (concat_w W ds = concat_c ds <-> length (flat_map pvals ds) <= W /\ length (flat_map svals ds) <= W).
Proof.
  intros HW Hok. rewrite (concat_w_eq_iff W ds HW).
  destruct (concat_compact_ok_l ds Hok) as (_ & [Hpv Hps] & [Hsv Hss]).
  unfold concat_c in *. cbn [prow srow pvals svals] in *.
  split.
  - intros [Fp Fs]. rewrite Forall_forall in Fp, Fs. split.
    + destruct (Nat.le_gt_cases (length (flat_map pvals ds)) W) as [H|H]; [exact H|].
      specialize (Fp W (Hps W H)). lia.
    + destruct (Nat.le_gt_cases (length (flat_map svals ds)) W) as [H|H]; [exact H|].
      specialize (Fs W (Hss W H)). lia.
  - intros [Lp Ls]. split; (eapply Forall_impl; [|eassumption]); cbn beta; intros i Hi; lia.
Qed.

Lemma expand_concat_any_width_l {A B} (da : A) (db : B) (W : nat) (ds : list (cds A B)) :
  0 < W -> Forall compact_ok ds -> length (flat_map pvals ds) <= W -> length (flat_map svals ds) <= W ->
  expand da db (concat_w W ds) = concat (map (expand da db) ds) /\ compact_ok (concat_w W ds).
Proof.
  intros HW Hok Lp Ls. rewrite (proj2 (concat_fits_width_iff_l W ds HW Hok) (conj Lp Ls)). split.
  - apply expand_concat_l. eapply Forall_impl; [|exact Hok]. intros d. apply compact_ok_valid.
  - apply concat_compact_ok_l. exact Hok.
Qed.

Lemma nonvacuous_width_l :
  let d1 := mk_cds (seq 0 150) (seq 0 150) (seq 200 150) (seq 400 150) in
  let d2 := mk_cds (seq 0 150) (seq 0 150) (seq 600 150) (seq 800 150) in
  Forall compact_ok [d1; d2] /\ length (flat_map pvals [d1; d2]) = 300 /\
  concat_w 512 [d1; d2] = concat_c [d1; d2] /\
  concat_w 256 [d1; d2] <> concat_c [d1; d2] /\
  nth 260 (srow (concat_c [d1; d2])) 0 = 260 /\ nth 260 (srow (concat_w 256 [d1; d2])) 0 = 4 /\
  nth 260 (expand 0 0 (concat_c [d1; d2])) (0, 0) = (710, 910) /\
  nth 260 (expand 0 0 (concat_w 256 [d1; d2])) (0, 0) = (204, 404) /\
  compact_okb (concat_w 256 [d1; d2]) = false.
Proof.
  cbv zeta.
  assert (Hok : Forall compact_ok [mk_cds (seq 0 150) (seq 0 150) (seq 200 150) (seq 400 150);
                                   mk_cds (seq 0 150) (seq 0 150) (seq 600 150) (seq 800 150)]).
  { apply Forall_cons; [|apply Forall_cons; [|apply Forall_nil]]; apply compact_okb_iff_l; vm_compute; reflexivity. }
  split; [exact Hok|]. split; [vm_compute; reflexivity|].
  split.
  - apply concat_fits_width_iff_l; [lia|exact Hok|]. split; apply Nat.leb_le; vm_compute; reflexivity.
  - split.
    + intros E. apply (concat_fits_width_iff_l 256 _ ltac:(lia) Hok) in E. destruct E as [E _]. apply Nat.leb_le in E. vm_compute in E. discriminate E.
    + do 4 (split; [vm_compute; reflexivity|]). vm_compute; reflexivity.
Qed.

(* ------------------------------------------------------------------ statements used by Props/C13.v *)
Lemma rows_running_l prim : Forall (fun p => p < length prim) prim ->
  length (rows_for prim) = length prim /\
  forall k, k < length prim -> nth k (rows_for prim) 0 = cnt (nth k prim 0) (firstn k prim).
Proof. intros H. exact (rows_ok_nth prim (rows_for prim) [] (rows_for_ok prim H)). Qed.

(* the height of the matrix is exactly the largest multiplicity: some column has no padding *)
Lemma rows_ok_full prim : forall rows pre, rows_ok pre rows prim -> prim <> [] ->
  exists c, In c prim /\ S (list_max rows) <= cnt c (pre ++ prim).
Proof.
  induction prim as [|p t IH]; intros [|r rt] pre H Hne; cbn [rows_ok] in H; try contradiction; try congruence.
  destruct H as [-> H]. change (list_max (cnt p pre :: rt)) with (Nat.max (cnt p pre) (list_max rt)).
  destruct t as [|q t'].
  - destruct rt as [|? ?]; cbn [rows_ok] in H; [|contradiction].
    exists p. split; [left; reflexivity|]. rewrite cnt_snoc_eq. cbn [list_max fold_right]. lia.
  - assert (Hne' : q :: t' <> []) by discriminate.
    destruct (IH rt (pre ++ [p]) H Hne') as (c & Hc & Hle). rewrite <- app_assoc in Hle. cbn [app] in Hle.
    destruct (Nat.le_ge_cases (cnt p pre) (list_max rt)) as [Hm|Hm].
    + exists c. split; [right; exact Hc|]. lia.
    + exists p. split; [left; reflexivity|]. rewrite cnt_app. cbn [cnt]. rewrite Nat.eqb_refl. lia.
Qed.

Lemma bins_height_l prim n : row_ok n prim -> prim <> [] ->
  exists c, c < n /\ cnt c prim = S (list_max (rows_for prim)).
Proof.
  intros Hok Hne. pose proof (uniq_length_row_ok n prim Hok) as Hn. destruct Hok as [Hb Hs].
  assert (Hlt : Forall (fun p => p < length prim) prim).
  { pose proof (uniq_length_le prim). eapply Forall_impl; [|exact Hb]. cbn beta. intros a Ha. lia. }
  pose proof (rows_for_ok prim Hlt) as Hrows.
  destruct (rows_ok_full prim _ [] Hrows Hne) as (c & Hc & Hle). cbn [app] in Hle.
  exists c. rewrite Forall_forall in Hb. split; [apply Hb; exact Hc|].
  pose proof (rows_ok_height prim _ [] c Hrows (cnt_pos c prim Hc)) as Hup. cbn [app] in Hup. lia.
Qed.

Lemma collapse_exact_l {A} (d : A) refrow otherrow (vals : list A) n c :
  length refrow = length otherrow -> row_ok n refrow -> c < n ->
  column (collapse_model d refrow otherrow vals) c
    = map Some (gather d (partner_points refrow otherrow c) vals)
      ++ repeat None (S (list_max (rows_for refrow)) - cnt c refrow)
  /\ length (collapse_model d refrow otherrow vals) = n.
Proof.
  intros Hl Hok Hc. unfold collapse_model.
  assert (Hlv : length (gather d otherrow vals) = length refrow) by (unfold gather; rewrite map_length; lia).
  destruct (bins_exact_l refrow (gather d otherrow vals) n c Hlv Hok Hc) as (E & Hlen & _).
  rewrite partners_gather in E. split; assumption.
Qed.

Lemma collapse_stat_l {A R} (stat : list A -> R) (d : A) refrow otherrow (vals : list A) n c :
  length refrow = length otherrow -> row_ok n refrow -> c < n ->
  stat (somes (column (collapse_model d refrow otherrow vals) c))
    = stat (gather d (partner_points refrow otherrow c) vals).
Proof.
  intros Hl Hok Hc. destruct (collapse_exact_l d refrow otherrow vals n c Hl Hok Hc) as [E _].
  rewrite E, somes_pad. reflexivity.
Qed.

(* ------------------------------------------------------------------ consistency of the compaction (one law for the first sentence) *)
Lemma compact_length raw : length (snd (compact raw)) = length raw.
Proof. unfold compact. cbn [snd]. apply map_length. Qed.

Lemma compact_is_consistent_l raw : consistent raw (fst (compact raw)) (snd (compact raw)).
Proof.
  destruct (compact_stored_once raw) as [Hnd Hin].
  split; [exact Hnd|]. split; [exact Hin|]. split; [apply compact_length|].
  split; [apply compact_row_ok|apply compact_roundtrip_l].
Qed.

Lemma map_nth_eq_combine (stored idx raw : list nat) :
  length idx = length raw ->
  forallb (fun ab => fst ab =? snd ab) (combine (gather 0 idx stored) raw) = true ->
  map (fun i => nth i stored 0) idx = raw.
Proof.
  unfold gather. revert raw. induction idx as [|i t IH]; intros [|r rt] Hl Hb; cbn in *; try discriminate; [reflexivity|].
  apply andb_prop in Hb. destruct Hb as [E Hb]. apply Nat.eqb_eq in E. rewrite E. f_equal. apply IH; [lia|exact Hb].
Qed.

Lemma combine_eqb_refl (l : list nat) : forallb (fun ab => fst ab =? snd ab) (combine l l) = true.
Proof. induction l as [|x t IH]; [reflexivity|]. cbn. rewrite Nat.eqb_refl. exact IH. Qed.

Lemma consistent_sets stored idx raw :
  row_ok (length stored) idx -> map (fun i => nth i stored 0) idx = raw ->
  forall v, In v stored <-> In v raw.
Proof.
  intros [Hv Hs] E v. split.
  - intros Hin. destruct (In_nth _ _ 0 Hin) as (i & Hi & Ei). subst raw v.
    apply in_map_iff. exists i. split; [reflexivity|apply Hs; exact Hi].
  - intros Hin. subst raw. apply in_map_iff in Hin. destruct Hin as (i & Ei & Hi). subst v.
    apply nth_In. rewrite Forall_forall in Hv. apply Hv. exact Hi.
Qed.

Lemma consistentb_iff raw stored idx : consistentb raw stored idx = true <-> consistent raw stored idx.
Proof.
  unfold consistentb, consistent. split.
  - intros H. apply andb_prop in H. destruct H as [H H4]. apply andb_prop in H. destruct H as [H H3].
    apply andb_prop in H. destruct H as [H1 H2].
    apply row_okb_iff in H1. apply Nat.eqb_eq in H2. apply Nat.eqb_eq in H4.
    pose proof (map_nth_eq_combine stored idx raw H2 H3) as E.
    pose proof (consistent_sets stored idx raw H1 E) as Hset.
    assert (Hnd : NoDup stored).
    { apply (NoDup_incl_NoDup (l := uniq raw)); [apply uniq_NoDup|lia|].
      intros v Hv. apply Hset. apply uniq_In. exact Hv. }
    repeat split; try assumption; try (apply Hset); try (apply H1).
  - intros (Hnd & Hset & Hl & Hok & E).
    apply andb_true_intro. split; [apply andb_true_intro; split; [apply andb_true_intro; split|]|].
    + apply row_okb_iff. exact Hok.
    + apply Nat.eqb_eq. exact Hl.
    + unfold gather. rewrite E. apply combine_eqb_refl.
    + apply Nat.eqb_eq. apply Nat.le_antisymm.
      * apply NoDup_incl_length; [exact Hnd|]. intros v Hv. apply uniq_In. apply Hset. exact Hv.
      * apply NoDup_incl_length; [apply uniq_NoDup|]. intros v Hv. apply Hset. apply uniq_In. exact Hv.
Qed.

(* the pairs are determined by the order of the stored points *)
Lemma NoDup_nth_inj (l : list nat) i j : NoDup l -> i < length l -> j < length l -> nth i l 0 = nth j l 0 -> i = j.
Proof. intros Hnd Hi Hj E. exact (proj1 (NoDup_nth l 0) Hnd i j Hi Hj E). Qed.

Lemma consistent_unique raw stored idx idx' : consistent raw stored idx -> consistent raw stored idx' -> idx = idx'.
Proof.
  intros (Hnd & _ & Hl & [Hv _] & E) (_ & _ & Hl' & [Hv' _] & E').
  rewrite <- E' in E. clear E' Hl Hl'. revert idx' Hv' E.
  induction idx as [|i t IH]; intros [|i' t'] Hv' E; cbn in E; try discriminate; [reflexivity|].
  inversion E as [[E1 E2]]. inversion Hv as [|? ? Hi Ht]. inversion Hv' as [|? ? Hi' Ht']. subst.
  f_equal; [apply (NoDup_nth_inj stored); assumption|apply IH; assumption].
Qed.

(* two pairs name the same stored point exactly when they name the same original point *)
Lemma consistent_same_point raw stored idx j k :
  consistent raw stored idx -> j < length raw -> k < length raw ->
  (nth j idx 0 = nth k idx 0 <-> nth j raw 0 = nth k raw 0).
Proof.
  intros (Hnd & _ & Hl & [Hv _] & E) Hj Hk. rewrite <- E.
  rewrite <- Hl in Hj, Hk.
  assert (N : forall q, q < length idx -> nth q (map (fun i => nth i stored 0) idx) 0 = nth (nth q idx 0) stored 0).
  { intros q Hq. rewrite (nth_indep _ 0 ((fun i => nth i stored 0) 0)) by (rewrite map_length; exact Hq).
    apply (map_nth (fun i => nth i stored 0)). }
  rewrite (N j Hj), (N k Hk). rewrite Forall_forall in Hv. split.
  - intros Eq. rewrite Eq. reflexivity.
  - intros Eq. apply (NoDup_nth_inj stored); try assumption; apply Hv; apply nth_In; assumption.
Qed.

Lemma consistent_perm raw stored idx : consistent raw stored idx -> Permutation stored (uniq raw) /\ length stored = length (uniq raw).
Proof.
  intros (Hnd & Hset & _).
  assert (P : Permutation stored (uniq raw)).
  { apply NoDup_Permutation; [exact Hnd|apply uniq_NoDup|]. intros v. rewrite uniq_In. apply Hset. }
  split; [exact P|apply Permutation_length; exact P].
Qed.

(* the certified checker the harness applies to what Collocator.collocate returned *)
Lemma check_compaction_sound rawp raws idp ids newp news :
  check_compaction rawp raws idp ids newp news = (true, true, true) ->
  consistent (ns rawp) (ns idp) (ns newp) /\ consistent (ns raws) (ns ids) (ns news) /\ length newp = length news.
Proof.
  unfold check_compaction. cbv zeta. intros H. injection H as H1 H2 H3.
  unfold compact_okb in H1. cbn [prow srow pvals svals] in H1.
  apply andb_prop in H1. destruct H1 as [H1 Hs]. apply andb_prop in H1. destruct H1 as [Hl Hp].
  apply andb_prop in H2. destruct H2 as [H2 Hls]. apply andb_prop in H2. destruct H2 as [H2 Hlp].
  apply andb_prop in H2. destruct H2 as [Hcp Hcs].
  apply andb_prop in H3. destruct H3 as [Hop Hos].
  apply Nat.eqb_eq in Hl, Hlp, Hls, Hop, Hos. unfold ns in Hl. rewrite !map_length in Hl.
  assert (Ln : forall l, length (ns l) = length l) by (intros l; unfold ns; apply map_length).
  split; [|split; [|exact Hl]].
  - apply consistentb_iff. unfold consistentb. rewrite Hp, Hcp, !Ln, Hlp, Hop, !Nat.eqb_refl. reflexivity.
  - apply consistentb_iff. unfold consistentb. rewrite Hs, Hcs, !Ln, Hls, Hos, !Nat.eqb_refl. reflexivity.
Qed.

(* the dataset that _create_return builds from the raw pairs and the original data *)
Lemma gather_gather {A} (d : A) idx u data :
  Forall (fun i => i < length u) idx ->
  gather d idx (gather d u data) = gather d (map (fun i => nth i u 0) idx) data.
Proof.
  intros Hv. unfold gather. rewrite map_map. apply map_ext_in. intros i Hi.
  rewrite Forall_forall in Hv. specialize (Hv i Hi).
  rewrite (nth_indep _ d ((fun v => nth v data d) 0)) by (rewrite map_length; exact Hv).
  apply (map_nth (fun v => nth v data d)).
Qed.

Lemma create_return_l {A B} (da : A) (db : B) rawp raws (pdata : list A) (sdata : list B) :
  length rawp = length raws ->
  compact_ok (create_return da db rawp raws pdata sdata) /\
  expand da db (create_return da db rawp raws pdata sdata) = combine (gather da rawp pdata) (gather db raws sdata).
Proof.
  intros Hl. unfold create_return. cbv zeta. split.
  - unfold compact_ok. cbn [prow srow pvals svals]. unfold gather at 1 2. rewrite !map_length, !compact_length.
    split; [exact Hl|]. split; apply compact_row_ok.
  - unfold expand. cbn [prow srow pvals svals].
    rewrite !gather_gather by apply compact_valid_l. rewrite !compact_roundtrip_l. reflexivity.
Qed.

(* a worked instance: sparse matches of a long track, met in non-ascending order *)
Lemma nonvacuous_consistent_l :
  (* a long track of which the points 480, 450, 470, 300 are met in this order (450 twice) *)
  let raw := [480; 450; 470; 450; 300] in
  compact raw = ([480; 450; 470; 300], [0; 1; 2; 1; 3]) /\
  consistent raw [480; 450; 470; 300] [0; 1; 2; 1; 3] /\
  (* another order of the stored points with the pairs that belong to it is consistent as well ... *)
  consistent raw [300; 450; 470; 480] [3; 1; 2; 1; 0] /\
  (* ... the positions in the SORTED points applied to the stored points in order of first appearance are not *)
  ~ consistent raw [480; 450; 470; 300] [3; 1; 2; 1; 0] /\
  consistentb raw [480; 450; 470; 300] [4; 4; 4; 4; 0] = false.
Proof.
  cbv zeta. split; [vm_compute; reflexivity|].
  split; [apply consistentb_iff; vm_compute; reflexivity|].
  split; [apply consistentb_iff; vm_compute; reflexivity|].
  split; [|vm_compute; reflexivity].
  intros H. apply consistentb_iff in H. vm_compute in H. discriminate.
Qed.
