(* C17 -- the two limits of the averaging kernel as genuine epsilon-delta statements, entry by entry:
   bilinear forms of a symmetric PSD matrix are bounded by its quadratic forms (|x^T S y| <= (x^T S x + y^T S y)/2),
   so the quadratic-form bounds of Proofs/C17_oem.v (Part 5) bound every entry of S_d, A_d, S_e, I - A_e linearly
   in the scaling factor. *)
Set Warnings "-notation-overridden,-ambiguous-paths".
From mathcomp Require Import all_ssreflect all_algebra.
From TyphonGen Require Import oem.
From Typhon Require Import Model.C17_oem Proofs.C17_oem.
Set Implicit Arguments.
Unset Strict Implicit.
Import Order.TTheory GRing.Theory Num.Theory.
Local Open Scope ring_scope.

Section Bilinear.
Variable F : realFieldType.

Lemma bil_sym n (M : 'M[F]_n) x y : symmetric M -> bil M y x = bil M x y.
Proof.
move=> hM; rewrite /bil.
have <- : (y^T *m M *m x)^T = x^T *m M *m y by rewrite !trmx_mul trmxK hM mulmxA.
by rewrite [RHS]mxE.
Qed.

Lemma qf_add n (M : 'M[F]_n) x y : qf M (x + y) = qf M x + bil M x y + (bil M y x + qf M y).
Proof. by rewrite /qf /bil (linearD (@trmx_linear _ _ _)) /= !mulmxDl !mulmxDr !mxE. Qed.

Lemma bilNr n (M : 'M[F]_n) x y : bil M x (- y) = - bil M x y.
Proof. by rewrite /bil mulmxN mxE. Qed.

Lemma bilNl n (M : 'M[F]_n) x y : bil M (- x) y = - bil M x y.
Proof. by rewrite /bil (linearN (@trmx_linear _ _ _)) /= !mulNmx mxE. Qed.

Lemma qf_opp n (M : 'M[F]_n) x : qf M (- x) = qf M x.
Proof. by rewrite /qf (linearN (@trmx_linear _ _ _)) /= mulmxN !mulNmx opprK. Qed.

Lemma bil_le_qf n (S : 'M[F]_n) x y : symmetric S -> possemidef S ->
  `|bil S x y| <= (qf S x + qf S y) / 2%:R.
Proof.
move=> sS pS; have h1 := pS (x + y); have h2 := pS (x - y).
rewrite qf_add (@bil_sym _ S x y sS) in h1.
rewrite qf_add bilNr bilNl qf_opp (@bil_sym _ S x y sS) in h2.
set t := bil S x y in h1 h2 *; set a := qf S x in h1 h2 *; set b := qf S y in h1 h2 *.
have two : (0 : F) < 2%:R by rewrite ltr0n.
rewrite ler_norml; apply/andP; split.
  rewrite ler_oppl ler_pdivl_mulr // -subr_ge0.
  have -> : a + b - - t * 2%:R = a + t + (t + b).
    by rewrite mulNr opprK mulr_natr mulr2n addrACA [b + t]addrC.
  exact: h1.
rewrite ler_pdivl_mulr // -subr_ge0.
have -> : a + b - t * 2%:R = a + - t + (- t + b).
  by rewrite mulr_natr mulr2n opprD addrACA [b - t]addrC.
exact: h2.
Qed.
End Bilinear.

Section Entries.
Variable F : realFieldType.

Lemma bil_delta n (M : 'M[F]_n) i j : bil M (delta_mx i 0) (delta_mx j 0) = M i j.
Proof. by rewrite /bil trmx_delta -rowE -colE !mxE. Qed.

Lemma qf_delta n (M : 'M[F]_n) i : qf M (delta_mx i 0) = M i i.
Proof. exact: bil_delta. Qed.

Lemma bil_mulr n (M C : 'M[F]_n) x y : bil (M *m C) x y = bil M x (C *m y).
Proof. by rewrite /bil !mulmxA. Qed.

Lemma diag_le_tr n (P : 'M[F]_n) i : possemidef P -> P i i <= \tr P.
Proof.
move=> pP; rewrite /mxtrace (bigD1 i) //= ler_addl sumr_ge0 // => j _.
by rewrite -(qf_delta P).
Qed.

Lemma tr_ge0 n (P : 'M[F]_n) : possemidef P -> 0 <= \tr P.
Proof. by move=> pP; rewrite /mxtrace sumr_ge0 // => j _; rewrite -(qf_delta P). Qed.

(* entries of S C, for S symmetric PSD with x^T S x <= c x^T P x *)
Lemma entry_bound n (S P C : 'M[F]_n) (c : F) i j :
  symmetric S -> possemidef S -> (forall x, qf S x <= c * qf P x) ->
  `|(S *m C) i j| <= c * ((P i i + (C^T *m P *m C) j j) / 2%:R).
Proof.
move=> sS pS hb; rewrite -(bil_delta (S *m C)) bil_mulr.
apply: le_trans (bil_le_qf _ _ sS pS) _.
have two : (0 : F) < 2%:R by rewrite ltr0n.
rewrite mulrA ler_pmul2r ?invr_gt0 // mulrDr ler_add //.
  by rewrite -(qf_delta P).
by rewrite -(qf_delta (C^T *m P *m C)) qf_congr.
Qed.

Lemma entry_bound1 n (S P : 'M[F]_n) (c : F) i j :
  symmetric S -> possemidef S -> (forall x, qf S x <= c * qf P x) ->
  `|S i j| <= c * ((P i i + P j j) / 2%:R).
Proof.
move=> sS pS hb; have := @entry_bound _ S P 1%:M c i j sS pS hb.
by rewrite mulmx1 trmx1 mul1mx mulmx1.
Qed.

Lemma half_le (a b a' b' : F) : a <= a' -> b <= b' -> (a + b) / 2%:R <= (a' + b') / 2%:R.
Proof. by move=> h1 h2; rewrite ler_pmul2r ?invr_gt0 ?ltr0n // ler_add. Qed.

(* d c < eps for all small d > 0 *)
Lemma small_factor (c eps : F) : 0 <= c -> 0 < eps ->
  exists d0, 0 < d0 /\ forall d, 0 < d < d0 -> forall c', c' <= c -> d * c' < eps.
Proof.
move=> c0 e0; have c1 : 0 < 1 + c by apply: ltr_paddr c0 ltr01.
exists (eps / (1 + c)); split; first by rewrite divr_gt0.
move=> d /andP [d0 dlt] c' c'c.
rewrite ltr_pdivl_mulr // in dlt; apply: le_lt_trans dlt.
by rewrite ler_pmul2l // (le_trans c'c) // ler_addr ler01.
Qed.

End Entries.

Section EntryLimits.
Variable F : realFieldType.
Variables m n : nat.
Variable K : 'M[F]_(m.+1, n.+1).
Variable Sa : 'M[F]_(n.+1).
Variable Sy : 'M[F]_(m.+1).
Hypothesis Sa_spd : spd Sa.
Hypothesis Sy_spd : spd Sy.

Local Notation B := (K^T *m invmx Sy *m K).

Lemma B_sym : symmetric B.
Proof. by have [sY _] := spd_inv Sy_spd; rewrite /symmetric !trmx_mul trmxK sY mulmxA. Qed.

Lemma B_psd : possemidef B.
Proof. by have [_ pY] := spd_inv Sy_spd; apply: semidef_congr; apply: posdef_semidef. Qed.

(* vanishing prior: entrywise rates *)
Lemma prior_entry_rate (d : F) : 0 < d -> forall i j,
  `|error_covariance_matrix K (d *: Sa) Sy i j| <= d * ((Sa i i + Sa j j) / 2%:R) /\
  `|averaging_kernel_matrix K (d *: Sa) Sy i j| <= d * ((Sa i i + (B *m Sa *m B) j j) / 2%:R).
Proof.
move=> d0 i j; have [hA hb] := prior_scaling_bound K Sa_spd Sy_spd d0.
have [sS pS] := spd_S_spd K (spdZ d0 Sa_spd) Sy_spd.
have hle x : qf (error_covariance_matrix K (d *: Sa) Sy) x <= d * qf Sa x by case/andP: (hb x).
split; first exact: entry_bound1 sS (posdef_semidef pS) hle.
rewrite hA -{2}B_sym; exact: entry_bound sS (posdef_semidef pS) hle.
Qed.

Lemma prior_entry_limit (eps : F) : 0 < eps ->
  exists d0, 0 < d0 /\ forall d, 0 < d < d0 -> forall i j,
  `|error_covariance_matrix K (d *: Sa) Sy i j| < eps /\
  `|averaging_kernel_matrix K (d *: Sa) Sy i j| < eps.
Proof.
move=> e0; have [_ pSa] := Sa_spd; have psa := posdef_semidef pSa.
have pQ : possemidef (B *m Sa *m B) by rewrite -{1}B_sym; apply: semidef_congr.
have c0 : 0 <= (\tr Sa + \tr Sa) / 2%:R + (\tr Sa + \tr (B *m Sa *m B)) / 2%:R.
  by rewrite addr_ge0 // divr_ge0 ?ler0n // addr_ge0 // tr_ge0.
have [d0 [d0p hd]] := small_factor c0 e0.
exists d0; split=> // d dd i j; have /andP [dp _] := dd.
have [h1 h2] := prior_entry_rate dp i j.
split.
  apply: le_lt_trans h1 (hd d dd _ _).
  by apply: le_trans (half_le (diag_le_tr i psa) (diag_le_tr j psa)) _; rewrite ler_addl divr_ge0 ?ler0n // addr_ge0 // tr_ge0.
apply: le_lt_trans h2 (hd d dd _ _).
by apply: le_trans (half_le (diag_le_tr i psa) (diag_le_tr j pQ)) _; rewrite ler_addr divr_ge0 ?ler0n // addr_ge0 // tr_ge0.
Qed.

Hypothesis K_full : forall x : 'cV[F]_(n.+1), x != 0 -> K *m x != 0.

Local Notation W := (invmx Sa).
Local Notation Bi := (invmx B).

Lemma noise_entry_rate (e : F) : 0 < e -> forall i j,
  `|error_covariance_matrix K Sa (e *: Sy) i j| <= e * ((Bi i i + Bi j j) / 2%:R) /\
  `|(1%:M - averaging_kernel_matrix K Sa (e *: Sy)) i j| <= e * ((Bi i i + (W *m Bi *m W) j j) / 2%:R).
Proof.
move=> e0 i j; have [hA hb] := noise_scaling_bound Sa_spd Sy_spd K_full e0.
have [sS pS] := spd_S_spd K Sa_spd (spdZ e0 Sy_spd).
have [sW _] := spd_inv Sa_spd.
have hle x : qf (error_covariance_matrix K Sa (e *: Sy)) x <= e * qf Bi x by case/andP: (hb x).
split; first exact: entry_bound1 sS (posdef_semidef pS) hle.
rewrite hA opprB addrC subrK -{2}sW; exact: entry_bound sS (posdef_semidef pS) hle.
Qed.

Lemma noise_entry_limit (eps : F) : 0 < eps ->
  exists e0, 0 < e0 /\ forall e, 0 < e < e0 -> forall i j,
  `|error_covariance_matrix K Sa (e *: Sy) i j| < eps /\
  `|(averaging_kernel_matrix K Sa (e *: Sy) - 1%:M) i j| < eps.
Proof.
move=> eps0; have [sBi pBi] := spd_inv (B_spd Sy_spd K_full); have psb := posdef_semidef pBi.
have [sW _] := spd_inv Sa_spd.
have pQ : possemidef (W *m Bi *m W) by rewrite -{1}sW; apply: semidef_congr.
have c0 : 0 <= (\tr Bi + \tr Bi) / 2%:R + (\tr Bi + \tr (W *m Bi *m W)) / 2%:R.
  by rewrite addr_ge0 // divr_ge0 ?ler0n // addr_ge0 // tr_ge0.
have [e0 [e0p hd]] := small_factor c0 eps0.
exists e0; split=> // e ee i j; have /andP [ep _] := ee.
have [h1 h2] := noise_entry_rate ep i j.
split.
  apply: le_lt_trans h1 (hd e ee _ _).
  by apply: le_trans (half_le (diag_le_tr i psb) (diag_le_tr j psb)) _; rewrite ler_addl divr_ge0 ?ler0n // addr_ge0 // tr_ge0.
rewrite -opprB mxE normrN.
apply: le_lt_trans h2 (hd e ee _ _).
by apply: le_trans (half_le (diag_le_tr i psb) (diag_le_tr j pQ)) _; rewrite ler_addr divr_ge0 ?ler0n // addr_ge0 // tr_ge0.
Qed.

End EntryLimits.
