(* C05 -- proofs about the bundling loop with skipped file pairs (Model/C05_skips.v):
   (1) items_of is what the pipeline model's worker sees (worker_items), and the loop with the final flush AFTER
       it hands over exactly the collocation sets of the pairs that were not skipped, wherever the skipped pairs are;
   (2) the loop of seeded change C05-j (final flush inside the body, guarded by processed == len(matches)) is the
       same loop when no pair is skipped and loses exactly the worker's last bundle as soon as one is. *)
From Coq Require Import ZArith List Bool Lia Arith.
From Typhon Require Import Model.C03_tree Model.C05_pipeline Model.C05_skips Proofs.C05_bundle.
Import ListNotations.

Definition opt_list (o : option cset) : list cset := match o with Some s => [s] | None => [] end.

Lemma somes_combine_gen : forall (ys : list (option cset)) (tags : list Z),
  (length ys <= length tags)%nat -> somes (combine tags ys) = flat_map opt_list ys.
Proof.
  induction ys as [|y t IH]; intros tags Hlen.
  - destruct tags; reflexivity.
  - destruct tags as [|x tags]; cbn [length] in Hlen; [lia|].
    cbn [combine flat_map]. unfold somes in *. cbn [flat_map snd]. rewrite IH by lia.
    destruct y; reflexivity.
Qed.

Lemma yielded_length (res : list (Z * pres)) :
  (length (flat_map (fun r => yielded_of (snd r)) res) <= length res)%nat.
Proof.
  induction res as [|r t IH]; cbn [flat_map length]; [lia|].
  rewrite app_length. destruct (snd r); cbn [yielded_of length]; lia.
Qed.

Lemma somes_items_of (res : list (Z * pres)) : somes (items_of res) = founds res.
Proof.
  unfold items_of. rewrite somes_combine_gen by (rewrite map_length; apply yielded_length).
  unfold founds. induction res as [|r t IH]; cbn [flat_map]; [reflexivity|].
  rewrite flat_map_app, IH. f_equal. destruct (snd r); reflexivity.
Qed.

Theorem bundling_lossless_with_skips_lemma : forall md (res : list (Z * pres)),
  concat (map (@concat (pt * pt)) (loop md (items_of res) [] None)) = concat (founds res).
Proof. intros md res. rewrite bundling_lossless_lemma, somes_items_of. reflexivity. Qed.

Theorem bundles_nonempty_with_skips_lemma : forall md (res : list (Z * pres)),
  Forall (fun g => g <> []) (loop md (items_of res) [] None).
Proof. intros md res. apply bundles_nonempty_lemma. Qed.

Lemma yielded_map_filter {X} (nb : X -> bool) (g : X -> option cset) (pr : X -> Z * pres) :
  (forall x, yielded_of (snd (pr x)) = if nb x then [g x] else []) ->
  forall l, flat_map (fun r => yielded_of (snd r)) (map pr l) = map g (filter nb l).
Proof.
  intros H l. induction l as [|x t IH]; [reflexivity|].
  cbn [map flat_map filter]. rewrite H, IH. destruct (nb x); reflexivity.
Qed.

Lemma worker_items_results collocate c bad A B ch :
  worker_items collocate c bad A B ch = items_of (worker_results collocate c bad A B ch).
Proof.
  unfold worker_items, items_of, worker_results. cbv zeta.
  set (fl := flat ch). f_equal.
  - rewrite map_map. apply map_ext. intros ij. reflexivity.
  - symmetry. apply yielded_map_filter. intros ij. unfold pair_result. cbn [snd].
    destruct (is_bad bad ij); cbn [negb yielded_of]; [reflexivity|].
    destruct (coll_pair collocate c A B ij); reflexivity.
Qed.

(* ---------- the loop of seeded change C05-j ---------- *)

Lemma loop_counted_never : forall md n items k cache cur,
  (k + length items < n)%nat -> loop_counted md n items k cache cur = loop_noflush md items cache cur.
Proof.
  intros md n items. induction items as [|[pidx o] r IH]; intros k cache cur Hlt; [reflexivity|].
  cbn [length] in Hlt.
  assert (Hne : Nat.eqb (S k) n = false) by (apply Nat.eqb_neq; lia).
  cbn [loop_counted loop_noflush]. rewrite Hne. unfold flush_at. cbn [app].
  destruct o as [s|].
  - destruct md.
    + rewrite IH by lia. reflexivity.
    + destruct (match cur with None => false | Some t0 => negb (Z.eqb t0 (tag_of MPrimary pidx s)) end);
        rewrite IH by lia; reflexivity.
    + destruct (match cur with None => false | Some t0 => negb (Z.eqb t0 (tag_of MDaily pidx s)) end);
        rewrite IH by lia; reflexivity.
  - apply IH. lia.
Qed.

Lemma loop_split : forall md items cache cur,
  loop md items cache cur
  = loop_noflush md items cache cur ++ match final_cache md items cache cur with [] => [] | c0 :: cr => [c0 :: cr] end.
Proof.
  intros md items. induction items as [|[pidx o] r IH]; intros cache cur.
  - cbn [loop loop_noflush final_cache app]. destruct cache; reflexivity.
  - cbn [loop loop_noflush final_cache]. destruct o as [s|].
    + destruct md.
      * rewrite IH. reflexivity.
      * destruct (match cur with None => false | Some t0 => negb (Z.eqb t0 (tag_of MPrimary pidx s)) end);
          rewrite IH; reflexivity.
      * destruct (match cur with None => false | Some t0 => negb (Z.eqb t0 (tag_of MDaily pidx s)) end);
          rewrite IH; reflexivity.
    + apply IH.
Qed.

Lemma loop_nil_cache md (cache : list cset) cur :
  loop md [] cache cur = flush_at true cache.
Proof. reflexivity. Qed.

Lemma loop_counted_full : forall md n items k cache cur,
  (k + length items = n)%nat -> (items = [] -> cache = []) -> (md = MNone -> cache = []) ->
  loop_counted md n items k cache cur = loop md items cache cur.
Proof.
  intros md n items. induction items as [|[pidx o] r IH]; intros k cache cur Hn Hnil Hmn.
  - rewrite (Hnil eq_refl). reflexivity.
  - cbn [length] in Hn. cbn [loop_counted loop].
    destruct r as [|it r'].
    + (* the last item: processed reaches len(matches) *)
      assert (Hhit : Nat.eqb (S k) n = true) by (apply Nat.eqb_eq; cbn [length] in Hn; lia).
      rewrite Hhit. cbn [loop_counted]. rewrite !loop_nil_cache.
      destruct o as [s|].
      * destruct md.
        -- rewrite (Hmn eq_refl). reflexivity.
        -- destruct (match cur with None => false | Some t0 => negb (Z.eqb t0 (tag_of MPrimary pidx s)) end);
             rewrite app_nil_r; reflexivity.
        -- destruct (match cur with None => false | Some t0 => negb (Z.eqb t0 (tag_of MDaily pidx s)) end);
             rewrite app_nil_r; reflexivity.
      * rewrite app_nil_r. reflexivity.
    + assert (Hne : Nat.eqb (S k) n = false) by (apply Nat.eqb_neq; cbn [length] in Hn; lia).
      rewrite Hne. unfold flush_at at 1 2 3 4. cbn [app].
      assert (Hr : it :: r' = [] -> forall X : list cset, X = []) by (intros Hd; discriminate Hd).
      destruct o as [s|].
      * destruct md.
        -- rewrite IH; [reflexivity|lia|intros Hd; discriminate Hd|exact Hmn].
        -- destruct (match cur with None => false | Some t0 => negb (Z.eqb t0 (tag_of MPrimary pidx s)) end);
             (rewrite IH; [reflexivity|lia|intros Hd; discriminate Hd|intros Hd; discriminate Hd]).
        -- destruct (match cur with None => false | Some t0 => negb (Z.eqb t0 (tag_of MDaily pidx s)) end);
             (rewrite IH; [reflexivity|lia|intros Hd; discriminate Hd|intros Hd; discriminate Hd]).
      * apply IH; [lia|intros Hd; discriminate Hd|exact Hmn].
Qed.

Lemma yielded_len_noskip (res : list (Z * pres)) : has_skip res = false ->
  length (flat_map (fun r => yielded_of (snd r)) res) = length res.
Proof.
  unfold has_skip. induction res as [|r t IH]; cbn [existsb flat_map length]; [reflexivity|].
  intros H. apply orb_false_iff in H. destruct H as [H1 H2]. rewrite app_length, IH by exact H2.
  destruct (snd r); cbn [is_skipped] in H1; [discriminate H1|reflexivity|reflexivity].
Qed.

Lemma yielded_len_skip (res : list (Z * pres)) : has_skip res = true ->
  (length (flat_map (fun r => yielded_of (snd r)) res) < length res)%nat.
Proof.
  unfold has_skip. induction res as [|r t IH]; cbn [existsb flat_map length]; [intros H; discriminate H|].
  intros H. rewrite app_length. pose proof (yielded_length t) as Hle.
  destruct (snd r); cbn [is_skipped orb] in H; cbn [yielded_of length].
  - lia.
  - specialize (IH H). lia.
  - specialize (IH H). lia.
Qed.

Lemma items_len_noskip res : has_skip res = false -> length (items_of res) = length res.
Proof.
  intros H. unfold items_of. rewrite combine_length, map_length, yielded_len_noskip by exact H. apply Nat.min_id.
Qed.

Lemma items_len_skip res : has_skip res = true -> (length (items_of res) < length res)%nat.
Proof.
  intros H. unfold items_of. rewrite combine_length, map_length. pose proof (yielded_len_skip res H). lia.
Qed.

Lemma final_cache_nonempty : forall md items cache cur, md <> MNone ->
  cache <> [] \/ somes items <> [] -> final_cache md items cache cur <> [].
Proof.
  intros md items. induction items as [|[pidx o] r IH]; intros cache cur Hmd H.
  - cbn [final_cache]. destruct H as [H|H]; [exact H|]. exfalso. apply H. reflexivity.
  - cbn [final_cache]. destruct o as [s|].
    + assert (Hs : forall c : list cset, c ++ [s] <> []).
      { intros c Hd. apply app_eq_nil in Hd. destruct Hd as [_ Hd]. discriminate Hd. }
      destruct md.
      * exfalso. apply Hmd. reflexivity.
      * destruct (match cur with None => false | Some t0 => negb (Z.eqb t0 (tag_of MPrimary pidx s)) end);
          apply IH; try exact Hmd; left; [intros Hd; discriminate Hd|apply Hs].
      * destruct (match cur with None => false | Some t0 => negb (Z.eqb t0 (tag_of MDaily pidx s)) end);
          apply IH; try exact Hmd; left; [intros Hd; discriminate Hd|apply Hs].
    + apply IH; [exact Hmd|]. destruct H as [H|H]; [left; exact H|right; exact H].
Qed.

Lemma final_cache_incl : forall md items cache cur s,
  In s (final_cache md items cache cur) -> In s cache \/ In s (somes items).
Proof.
  intros md items. induction items as [|[pidx o] r IH]; intros cache cur x Hin.
  - left. exact Hin.
  - cbn [final_cache] in Hin. destruct o as [s|].
    + rewrite somes_cons_some.
      assert (Hcase : forall c' cur', In x (final_cache md r c' cur') -> (In x c' -> In x cache \/ x = s) ->
                                      In x cache \/ In x (s :: somes r)).
      { intros c' cur' H1 H2. destruct (IH c' cur' x H1) as [H|H].
        - destruct (H2 H) as [H3|H3]; [left; exact H3|right; left; symmetry; exact H3].
        - right. right. exact H. }
      destruct md.
      * destruct (IH cache cur x Hin) as [H|H]; [left; exact H|right; right; exact H].
      * destruct (match cur with None => false | Some t0 => negb (Z.eqb t0 (tag_of MPrimary pidx s)) end).
        -- apply (Hcase _ _ Hin). intros [H|[]]. right. symmetry. exact H.
        -- apply (Hcase _ _ Hin). intros H. apply in_app_or in H. destruct H as [H|[H|[]]]; [left; exact H|right; symmetry; exact H].
      * destruct (match cur with None => false | Some t0 => negb (Z.eqb t0 (tag_of MDaily pidx s)) end).
        -- apply (Hcase _ _ Hin). intros [H|[]]. right. symmetry. exact H.
        -- apply (Hcase _ _ Hin). intros H. apply in_app_or in H. destruct H as [H|[H|[]]]; [left; exact H|right; symmetry; exact H].
    + rewrite somes_cons_none. apply (IH cache cur x Hin).
Qed.

Lemma last_bundle_eq md items :
  last_bundle md items = match final_cache md items [] None with [] => [] | c0 :: cr => [c0 :: cr] end.
Proof. unfold last_bundle. destruct (final_cache md items [] None); reflexivity. Qed.

Theorem counted_flush_exact_lemma : forall md (res : list (Z * pres)),
  (has_skip res = false ->
     loop_counted md (length res) (items_of res) 0 [] None = loop md (items_of res) [] None) /\
  (has_skip res = true ->
     loop md (items_of res) [] None
     = loop_counted md (length res) (items_of res) 0 [] None ++ last_bundle md (items_of res)) /\
  (md <> MNone -> founds res <> [] -> last_bundle md (items_of res) <> []).
Proof.
  intros md res. split; [|split].
  - intros H. apply loop_counted_full.
    + cbn [Nat.add]. apply items_len_noskip. exact H.
    + intros _. reflexivity.
    + intros _. reflexivity.
  - intros H. rewrite loop_counted_never by (cbn [Nat.add]; apply items_len_skip; exact H).
    rewrite last_bundle_eq. apply loop_split.
  - intros Hmd Hf. rewrite last_bundle_eq.
    pose proof (final_cache_nonempty md (items_of res) [] None Hmd) as Hne.
    rewrite somes_items_of in Hne. specialize (Hne (or_intror Hf)).
    destruct (final_cache md (items_of res) [] None); [exfalso; apply Hne; reflexivity|intros Hd; discriminate Hd].
Qed.

(* ... in terms of collocations: with a skipped pair, bundling and at least one (non-empty) collocation set, the
   counted loop hands over a strict prefix of what it should *)
Theorem counted_flush_loses_lemma : forall md (res : list (Z * pres)),
  has_skip res = true -> md <> MNone -> founds res <> [] -> Forall (fun s : cset => s <> []) (founds res) ->
  exists lost : cset, lost <> [] /\
    concat (map (@concat (pt * pt)) (loop_counted md (length res) (items_of res) 0 [] None)) ++ lost
    = concat (founds res).
Proof.
  intros md res Hs Hmd Hf Hall.
  destruct (counted_flush_exact_lemma md res) as [_ [H2 H3]].
  specialize (H2 Hs). specialize (H3 Hmd Hf).
  exists (concat (concat (last_bundle md (items_of res)))). split.
  - rewrite last_bundle_eq in *.
    destruct (final_cache md (items_of res) [] None) as [|c0 cr] eqn:Ef; [exfalso; apply H3; reflexivity|].
    cbn [concat]. rewrite app_nil_r.
    assert (Hin : In c0 (founds res)).
    { destruct (final_cache_incl md (items_of res) [] None c0) as [[]|H].
      - rewrite Ef. left. reflexivity.
      - rewrite somes_items_of in H. exact H. }
    rewrite Forall_forall in Hall. specialize (Hall c0 Hin).
    destruct c0 as [|p c0]; [exfalso; apply Hall; reflexivity|]. intros Hd. discriminate Hd.
  - rewrite <- bundling_lossless_with_skips_lemma with (md := md). rewrite H2.
    rewrite !concat_map_concat, !concat_app. reflexivity.
Qed.

(* witness: three pairs, the first skipped (unreadable file), the other two with one collocation each;
   bundling by primary: the real loop hands over both, the counted loop only the first *)
Definition w_p (i : Z) : pt := {| ptime := i; pid := i |}.
Definition w_res : list (Z * pres) :=
  [(0%Z, PSkipped); (1%Z, PFound [(w_p 1, w_p 101)]); (2%Z, PFound [(w_p 2, w_p 102)]); (2%Z, PNone)].

Theorem counted_flush_refuted : exists md res,
  concat (concat (loop md (items_of res) [] None)) = concat (founds res) /\
  concat (concat (loop_counted md (length res) (items_of res) 0 [] None)) <> concat (founds res).
Proof.
  exists MPrimary, w_res. split; [vm_compute; reflexivity|]. vm_compute. intros H. discriminate H.
Qed.
