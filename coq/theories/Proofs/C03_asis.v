(* C03 -- the as-is models (Model/C03_asis.v): with the switches off they are the repaired models;
   each switch alone refutes the property on a small input. *)
From Coq Require Import ZArith List Bool Lia Permutation.
From Typhon Require Import Model.C03_tree Proofs.C03_tree Model.C03_match Model.C03_asis.
Import ListNotations.
Open Scope Z_scope.

(* ---------- switches off = the repaired code ---------- *)
Lemma build_asis_off : forall fuel l, build_asis flags_off fuel l = build fuel l.
Proof.
  induction fuel as [|f IH]; intros l; [reflexivity|].
  cbn [build_asis build flags_off f_anyzero]. destruct l as [|a t]; [reflexivity|].
  cbn [is_nil]. rewrite !IH. reflexivity.
Qed.

Lemma asis_off_query ivs q : query_asis flags_off ivs q = query ivs q.
Proof.
  unfold query_asis, query, mk_tree_asis, mk_tree. cbn [flags_off f_spannone f_colsort].
  rewrite build_asis_off. reflexivity.
Qed.

Lemma tquery_pt_leaf p : forall t, is_leaf t = true -> tquery_pt t p = [].
Proof. intros [|]; [reflexivity|discriminate]. Qed.

Lemma tquery_pt_asis_off p : forall t fuel, (depth t < fuel)%nat ->
  tquery_pt_asis false fuel t p = Some (tquery_pt t p).
Proof.
  induction t as [|c ce l IHl r IHr]; intros fuel Hf.
  - destruct fuel; [lia|reflexivity].
  - destruct fuel as [|f]; [lia|]. cbn [depth] in Hf. cbn [tquery_pt_asis tquery_pt].
    rewrite IHl by lia. rewrite IHr by lia.
    destruct (p <? c); destruct (c <? p); cbn [andb];
      destruct (is_leaf l) eqn:El; destruct (is_leaf r) eqn:Er; cbn [negb];
      try rewrite (tquery_pt_leaf p l El); try rewrite (tquery_pt_leaf p r Er); reflexivity.
Qed.

Lemma asis_off_point ivs p fuel : (depth (mk_tree ivs) < fuel)%nat ->
  query_pt_asis flags_off fuel ivs p = Some (query_pt ivs p).
Proof.
  intros Hf. unfold query_pt_asis, query_pt, mk_tree_asis. cbn [flags_off f_ptself f_colsort].
  rewrite build_asis_off. fold (mk_tree ivs).
  destruct (negb _); [reflexivity|]. apply tquery_pt_asis_off. exact Hf.
Qed.

Lemma asis_off_match dmin dmax mi start end_ prim sec :
  period_ok dmin dmax mi start end_ -> start <> None -> end_ <> None ->
  match_full_asis true dmin dmax mi start end_ prim sec = match_full dmin dmax mi start end_ prim sec.
Proof.
  intros _ Hs He. destruct start as [s|]; [|contradiction]. destruct end_ as [e|]; [|contradiction].
  unfold match_full_asis, match_full, match_period, shift_asis. cbn [default].
  destruct mi as [m|]; [|reflexivity].
  destruct (dt_add dmin dmax s (- m)); destruct (dt_add dmin dmax e m); reflexivity.
Qed.

(* ---------- each defect alone refutes the property ---------- *)
Definition only_colsort := {| f_colsort := true; f_anyzero := false; f_spannone := false; f_ptself := false |}.
Definition only_anyzero := {| f_colsort := false; f_anyzero := true; f_spannone := false; f_ptself := false |}.
Definition only_spannone := {| f_colsort := false; f_anyzero := false; f_spannone := true; f_ptself := false |}.
Definition only_ptself := {| f_colsort := false; f_anyzero := false; f_spannone := false; f_ptself := true |}.

Lemma rows_wf_dec rows : forallb (fun '(a, b) => a <=? b) rows = true -> Forall wf (number rows).
Proof.
  intros H. apply number_wf. rewrite Forall_forall. rewrite forallb_forall in H.
  intros [a b] Hab. specialize (H _ Hab). cbn in H. lia.
Qed.

Lemma not_perm_by_length {A} (a b : list A) : length a <> length b -> ~ Permutation a b.
Proof. intros H P. apply H. apply Permutation_length. exact P. Qed.

Lemma not_perm_singletons (x y : Z) : x <> y -> ~ Permutation [x] [y].
Proof. intros H P. apply Permutation_length_1 in P. contradiction. Qed.

(* 1. columns sorted independently: [5,6] [1,2] [3,10] asked for [2,2] answers interval 0 instead of interval 1 *)
Lemma asis_colsort_refuted_lemma : exists rows q,
  Forall wf (number rows) /\
  ~ Permutation (query_asis only_colsort (number rows) q) (spec_query (number rows) q).
Proof.
  exists [(5, 6); (1, 2); (3, 10)], (2, 2). split; [apply rows_wf_dec; reflexivity|].
  vm_compute. apply not_perm_singletons. discriminate.
Qed.

(* 2. the whole-span short cut returns nothing *)
Lemma asis_spannone_refuted_lemma : exists rows q,
  Forall wf (number rows) /\
  ~ Permutation (query_asis only_spannone (number rows) q) (spec_query (number rows) q).
Proof.
  exists [(1, 2); (3, 10)], (0, 20). split; [apply rows_wf_dec; reflexivity|].
  vm_compute. apply not_perm_by_length. discriminate.
Qed.

(* 3. a subtree that consists of zeros is dropped: [0,0] [5,6] asked for [0,0] answers nothing *)
Lemma asis_anyzero_refuted_lemma : exists rows q,
  Forall wf (number rows) /\
  ~ Permutation (query_asis only_anyzero (number rows) q) (spec_query (number rows) q).
Proof.
  exists [(0, 0); (5, 6)], (0, 0). split; [apply rows_wf_dec; reflexivity|].
  vm_compute. apply not_perm_by_length. discriminate.
Qed.

(* 4. the point query recurses into the same node: whatever the budget, it runs out (RecursionError),
      while the repaired model answers [0] *)
Lemma tquery_pt_self_diverges c ce l r p :
  p <? c = true -> is_leaf l = false ->
  forall fuel, tquery_pt_asis true fuel (Node c ce l r) p = None.
Proof.
  intros Hp Hl. induction fuel as [|f IH]; [reflexivity|].
  cbn [tquery_pt_asis]. rewrite Hp, Hl. cbn [andb negb]. rewrite IH. reflexivity.
Qed.

Lemma asis_ptself_diverges_lemma : exists rows p,
  Forall wf (number rows) /\ spec_points (number rows) p <> [] /\
  forall fuel, query_pt_asis only_ptself fuel (number rows) p = None.
Proof.
  exists [(0, 1); (5, 6)], 0. split; [apply rows_wf_dec; reflexivity|]. split; [vm_compute; discriminate|].
  intros fuel. unfold query_pt_asis.
  replace (negb _) with false by (vm_compute; reflexivity).
  cbn [only_ptself f_ptself].
  replace (mk_tree_asis only_ptself (number [(0, 1); (5, 6)]))
    with (Node 5 [{| lo := 5; hi := 6; idx := 1 |}]
               (Node 0 [{| lo := 0; hi := 1; idx := 0 |}] Leaf Leaf) Leaf)
    by (vm_compute; reflexivity).
  apply tquery_pt_self_diverges; reflexivity.
Qed.

(* 5. before 26612d6: a period that starts within max_interval of datetime.min raises OverflowError
      although the specification yields a pair *)
Lemma asis_overflow_refuted_lemma : exists dmin dmax mi start end_ prim sec,
  period_ok dmin dmax mi start end_ /\
  match_full_asis false dmin dmax mi start end_ prim sec = Raised OverflowError /\
  match_full dmin dmax mi start end_ prim sec = Yields [(0, [0])].
Proof.
  exists 0, 1000000000, (Some 5000000), (Some 3000000), (Some 100000000),
         [(10000000, 20000000)], [(22000000, 30000000)].
  split; [unfold period_ok; cbn; lia|]. split; vm_compute; reflexivity.
Qed.

(* 6. before fdf1ba2: an open start (or end) together with max_interval becomes NaT and find() fails *)
Lemma asis_open_side_refuted_lemma : exists dmin dmax mi start end_ prim sec,
  period_ok dmin dmax mi start end_ /\
  match_full_asis true dmin dmax mi start end_ prim sec = Raised NaTError /\
  match_full dmin dmax mi start end_ prim sec = Yields [(0, [0])].
Proof.
  exists 0, 1000000000, (Some 5000000), None, (Some 100000000),
         [(10000000, 20000000)], [(22000000, 30000000)].
  split; [unfold period_ok; cbn; lia|]. split; vm_compute; reflexivity.
Qed.
