(* C07 -- geodesy: convergence of the fixed-point iteration of cart2geodetic (closes the named gap iteration_accuracy).

   The loop body of cart2geodetic is the map  T(B) = atan (z / (p - e^2 g(B))),  g(B) = a cos B / sqrt (1 - e^2 sin^2 B)
   (Model/C07_geodesy.v geod_T, rewritten with N + h = p / cos B).  Its derivative is
       T'(B) = z e^2 g'(B) / ((p - e^2 g(B))^2 + z^2),      g'(B) = - a (1 - e^2) sin B / W^3,
   so |T'| <= e^2 a / (sqrt (1 - e^2) D0) =: q whenever (p, z) is at least D0 away from every centre of curvature
   (e^2 g(B), 0).  By the mean value theorem T is Lipschitz with constant q on the whole open interval (-pi/2, pi/2)
   (no invariance argument is needed: T maps into that interval), hence a contraction towards the true latitude
   (a fixed point by Proofs/C07_geodesy.geodetic_fixed_point).  From it: the a-posteriori bound under the stop criterion,
   termination of the fuelled loop, and the accuracy of the returned latitude / height on the stated domain
   (3000 km <= a <= 70000 km, e <= 0.11 -- all six models of the generated table --, -10 km <= h <= 1000 km,
   |lat| <= 88 deg), where q <= 0.0126.  Derivatives by Coquelicot auto_derive; the few
   numeric facts (cos 88 deg >= 0.0333 from sin x >= x - x^3/6 and 3 < PI <= 4, sqrt (1 - 0.11^2) >= 0.9939) by hand,
   so that only the standard real-number axioms are used. *)
From Coq Require Import Reals Lra Lia List.
From Coquelicot Require Import Coquelicot.
From Typhon Require Import Base.RealAux Model.C07_geodesy Proofs.C07_geodesy.
From TyphonGen Require Import geodesy.
Open Scope R_scope.

Lemma lip_of_deriv (f f' : R -> R) (L lo hi : R) :
  (forall c, lo < c < hi -> derivable_pt_lim f c (f' c)) ->
  (forall c, lo < c < hi -> Rabs (f' c) <= L) ->
  forall x y, lo < x < hi -> lo < y < hi -> Rabs (f x - f y) <= L * Rabs (x - y).
Proof.
  intros Hd Hb.
  assert (K : forall x y, lo < x < hi -> lo < y < hi -> x < y -> Rabs (f y - f x) <= L * (y - x)).
  { intros x y Hx Hy Hxy.
    destruct (MVT_cor2 f f' x y Hxy) as [c [E Hc]].
    - intros c Hc. apply Hd. lra.
    - rewrite E, Rabs_mult, (Rabs_pos_eq (y - x)) by lra.
      apply Rmult_le_compat_r; [lra|apply Hb; lra]. }
  intros x y Hx Hy. destruct (Rtotal_order x y) as [A|[A|A]].
  - rewrite Rabs_minus_sym, (Rabs_left (x - y)) by lra. replace (- (x - y)) with (y - x) by ring. apply K; assumption.
  - subst. replace (f y - f y) with 0 by ring. replace (y - y) with 0 by ring. rewrite Rabs_R0. lra.
  - rewrite (Rabs_pos_eq (x - y)) by lra. apply K; assumption.
Qed.

Lemma sin_lipschitz x y : Rabs (sin x - sin y) <= Rabs (x - y).
Proof.
  rewrite <- (Rmult_1_l (Rabs (x - y))).
  apply (lip_of_deriv sin cos 1 (Rmin x y - 1) (Rmax x y + 1)).
  - intros c _. apply derivable_pt_lim_sin.
  - intros c _. apply Rabs_le. pose proof (COS_bound c). lra.
  - pose proof (Rmin_l x y). pose proof (Rmax_l x y). lra.
  - pose proof (Rmin_r x y). pose proof (Rmax_r x y). lra.
Qed.

Lemma cos_lipschitz x y : Rabs (cos x - cos y) <= Rabs (x - y).
Proof.
  rewrite <- (Rmult_1_l (Rabs (x - y))).
  apply (lip_of_deriv cos (fun t => - sin t) 1 (Rmin x y - 1) (Rmax x y + 1)).
  - intros c _. apply derivable_pt_lim_cos.
  - intros c _. apply Rabs_le. pose proof (SIN_bound c). lra.
  - pose proof (Rmin_l x y). pose proof (Rmax_l x y). lra.
  - pose proof (Rmin_r x y). pose proof (Rmax_r x y). lra.
Qed.

Section Iteration.
  Variables a e2 p z D0 : R.
  Hypothesis Ha : 0 < a.
  Hypothesis He : 0 <= e2 < 1.
  Hypothesis Hp : e2 * a < p.
  Hypothesis HD0 : 0 < D0.
  Hypothesis HD : D0 ^ 2 <= (p - e2 * a) ^ 2 + z ^ 2.

  Definition gW (B : R) : R := sqrt (1 - e2 * sin B ^ 2).
  Definition gx (B : R) : R := p - e2 * (a * cos B / gW B).
  Definition Ts (B : R) : R := atan (z / gx B).
  Definition dg (B : R) : R := a * (- sin B * gW B + cos B * (e2 * sin B * cos B / gW B)) / (gW B * gW B).
  Definition dT (B : R) : R := z * e2 * dg B / (gx B ^ 2 + z ^ 2).

  Lemma W2_pos B : 1 - e2 <= 1 - e2 * sin B ^ 2 <= 1.
  Proof. pose proof (SIN_bound B). assert (0 <= sin B ^ 2 <= 1) by nra. nra. Qed.
  Lemma k_pos : 0 < sqrt (1 - e2).
  Proof. apply sqrt_lt_R0. lra. Qed.
  Lemma k_sq : sqrt (1 - e2) * sqrt (1 - e2) = 1 - e2.
  Proof. apply sqrt_sqrt. lra. Qed.
  Lemma W_ge B : sqrt (1 - e2) <= gW B.
  Proof. apply sqrt_le_1_alt. apply W2_pos. Qed.
  Lemma W_le B : gW B <= 1.
  Proof. unfold gW. rewrite <- sqrt_1 at 2. apply sqrt_le_1_alt. apply W2_pos. Qed.
  Lemma W_sq B : gW B * gW B = 1 - e2 * sin B ^ 2.
  Proof. apply sqrt_sqrt. pose proof (W2_pos B). lra. Qed.
  Lemma W_pos B : 0 < gW B.
  Proof. pose proof k_pos. pose proof (W_ge B). lra. Qed.

  Lemma cos_le_W B : 0 < cos B -> cos B <= gW B.
  Proof.
    intros Hc. pose proof (W_pos B) as HW. pose proof (W_sq B) as HWW.
    pose proof (sin2_cos2 B) as E. unfold Rsqr in E.
    assert (cos B * cos B <= gW B * gW B) by nra. nra.
  Qed.

  Lemma gx_ge B : 0 < cos B -> p - e2 * a <= gx B <= p.
  Proof.
    intros Hc. unfold gx. pose proof (W_pos B) as HW. pose proof (cos_le_W B Hc) as Hcw.
    assert (0 < cos B / gW B <= 1).
    { split; [apply Rdiv_lt_0_compat; lra|]. apply Rmult_le_reg_r with (gW B); [lra|].
      unfold Rdiv. rewrite Rmult_assoc, Rinv_l by lra. lra. }
    replace (a * cos B / gW B) with (a * (cos B / gW B)) by (unfold Rdiv; ring).
    set (t := cos B / gW B) in *.
    assert (0 <= a * t <= a) by nra.
    assert (0 <= e2 * (a * t) <= e2 * a) by nra. lra.
  Qed.

  Lemma geod_T_Ts B : 0 < cos B -> geod_T a e2 p z B = Ts B.
  Proof.
    intros Hc. pose proof (gx_ge B Hc) as Hx. pose proof (W_pos B) as HW.
    assert (Hpp : 0 < p) by nra.
    unfold geod_T, geod_h, geod_N, Ts. cbv zeta. fold (gW B). f_equal.
    unfold gx in *. field. repeat split; try lra.
    - replace (p * gW B - e2 * (a * cos B)) with (gW B * (p - e2 * (a * cos B / gW B))) by (field; lra).
      apply Rgt_not_eq, Rmult_lt_0_compat; lra.
    - replace (a * cos B + (p * gW B - a * cos B)) with (p * gW B) by ring. apply Rgt_not_eq, Rmult_lt_0_compat; lra.
  Qed.

  Lemma Ts_deriv B : 0 < cos B -> derivable_pt_lim Ts B (dT B).
  Proof.
    intros Hc. pose proof (gx_ge B Hc) as Hx. pose proof (W_pos B) as HW. pose proof (W2_pos B) as HW2.
    assert (EQ : 1 + - (e2 * (sin B * (sin B * 1))) = 1 - e2 * sin B ^ 2) by ring.
    assert (Hxx : p - e2 * (a * cos B / gW B) <> 0) by (unfold gx in Hx; nra).
    apply is_derive_Reals. unfold Ts, gx, gW. auto_derive.
    - rewrite !EQ. fold (gW B). repeat split; try lra.
    - assert (Hpw : 0 < p * gW B - e2 * (a * cos B)).
      { replace (p * gW B - e2 * (a * cos B)) with (gW B * gx B) by (unfold gx; field; lra).
        apply Rmult_lt_0_compat; nra. }
      rewrite !EQ. fold (gW B). unfold dT, dg, gx. field. repeat split; try lra.
      apply Rgt_not_eq. assert (0 < (p * gW B - e2 * (a * cos B)) ^ 2) by nra. nra.
  Qed.

  (* g' = - a (1 - e2) sin B / W^3, bounded by a / sqrt (1 - e2) *)
  Lemma dg_bound B : Rabs (dg B) <= a / sqrt (1 - e2).
  Proof.
    pose proof (W_pos B) as HW. pose proof (W_sq B) as HWW. pose proof (W_ge B) as Hk. pose proof k_pos as Hkp.
    pose proof k_sq as Hkk. pose proof (sin2_cos2 B) as E. unfold Rsqr in E. pose proof (SIN_bound B) as Hs.
    set (k := sqrt (1 - e2)) in *.
    assert (F : dg B = - (a * (k * k) * sin B) / (gW B * gW B * gW B)).
    { assert (Hnum : - (gW B * gW B) + e2 * (cos B * cos B) = - (k * k)).
      { rewrite HWW, Hkk. replace (cos B * cos B) with (1 - sin B * sin B) by lra. ring. }
      unfold dg.
      replace (- sin B * gW B + cos B * (e2 * sin B * cos B / gW B))
        with (sin B * (- (gW B * gW B) + e2 * (cos B * cos B)) / gW B) by (field; lra).
      rewrite Hnum. field. lra. }
    rewrite F. unfold Rdiv. rewrite Rabs_mult, Rabs_Ropp, Rabs_inv.
    rewrite (Rabs_pos_eq (gW B * gW B * gW B)) by (apply Rlt_le; repeat apply Rmult_lt_0_compat; lra).
    assert (W3 : k * k * k <= gW B * gW B * gW B).
    { assert (k * k <= gW B * gW B) by nra. nra. }
    assert (Hn : Rabs (a * (k * k) * sin B) <= a * (k * k)).
    { rewrite Rabs_mult, (Rabs_pos_eq (a * (k * k))) by nra.
      rewrite <- (Rmult_1_r (a * (k * k))) at 2. apply Rmult_le_compat_l; [nra|]. apply Rabs_le. lra. }
    apply Rle_trans with (a * (k * k) * / (k * k * k)).
    - apply Rmult_le_compat; try apply Rabs_pos.
      + apply Rlt_le, Rinv_0_lt_compat. nra.
      + exact Hn.
      + apply Rinv_le_contravar; [|exact W3]. repeat apply Rmult_lt_0_compat; lra.
    - apply Req_le. field. lra.
  Qed.

  Definition geod_q : R := e2 * a / (sqrt (1 - e2) * D0).

  Lemma geod_q_nonneg : 0 <= geod_q.
  Proof. unfold geod_q. pose proof k_pos. apply Rmult_le_pos; [nra|]. apply Rlt_le, Rinv_0_lt_compat. nra. Qed.

  Lemma dT_bound B : 0 < cos B -> Rabs (dT B) <= geod_q.
  Proof.
    intros Hc. pose proof (gx_ge B Hc) as Hx. pose proof (dg_bound B) as Hg. pose proof k_pos as Hk.
    set (S := gx B ^ 2 + z ^ 2).
    assert (HS1 : D0 ^ 2 <= S) by (unfold S; nra).
    assert (HS0 : 0 < S) by nra.
    assert (Hz : Rabs z * D0 <= S).
    { assert (Rabs z * Rabs z = z * z) by (unfold Rabs; destruct (Rcase_abs z); ring).
      assert (0 <= (Rabs z - D0) * (Rabs z - D0)) by apply Rle_0_sqr.
      assert (z * z <= S) by (unfold S; nra). nra. }
    unfold dT. fold S. unfold Rdiv. rewrite !Rabs_mult, Rabs_inv, (Rabs_pos_eq e2), (Rabs_pos_eq S) by lra.
    unfold geod_q.
    apply Rle_trans with (Rabs z * e2 * (a / sqrt (1 - e2)) * / S).
    - apply Rmult_le_compat_r; [apply Rlt_le, Rinv_0_lt_compat; lra|].
      apply Rmult_le_compat_l; [apply Rmult_le_pos; [apply Rabs_pos|lra]|exact Hg].
    - apply Rmult_le_reg_r with S; [lra|]. rewrite Rmult_assoc, Rinv_l, Rmult_1_r by lra.
      apply Rmult_le_reg_r with (sqrt (1 - e2) * D0); [nra|].
      replace (e2 * a / (sqrt (1 - e2) * D0) * S * (sqrt (1 - e2) * D0)) with (e2 * a * S) by (field; lra).
      replace (Rabs z * e2 * (a / sqrt (1 - e2)) * (sqrt (1 - e2) * D0)) with (e2 * a * (Rabs z * D0)) by (field; lra).
      apply Rmult_le_compat_l; [nra|exact Hz].
  Qed.

  Lemma cos_pos_range B : - (PI / 2) < B < PI / 2 -> 0 < cos B.
  Proof. intros H. apply cos_gt_0; lra. Qed.

  (* the loop body is Lipschitz with constant geod_q on the whole open interval of latitudes *)
  Lemma geod_T_lipschitz B1 B2 : - (PI / 2) < B1 < PI / 2 -> - (PI / 2) < B2 < PI / 2 ->
    Rabs (geod_T a e2 p z B1 - geod_T a e2 p z B2) <= geod_q * Rabs (B1 - B2).
  Proof.
    intros H1 H2. rewrite !geod_T_Ts by (apply cos_pos_range; assumption).
    apply (lip_of_deriv Ts dT geod_q (- (PI / 2)) (PI / 2)); try assumption.
    - intros c Hc. apply Ts_deriv, cos_pos_range, Hc.
    - intros c Hc. apply dT_bound, cos_pos_range, Hc.
  Qed.

  Lemma geod_T_range B : - (PI / 2) < geod_T a e2 p z B < PI / 2.
  Proof. unfold geod_T. cbv zeta. match goal with |- _ < atan ?u < _ => pose proof (atan_bound u) end. lra. Qed.

  Section FixedPoint.
    Variable Bs : R.
    Hypothesis HBs : - (PI / 2) < Bs < PI / 2.
    Hypothesis Hfix : geod_T a e2 p z Bs = Bs.
    Hypothesis Hq : geod_q < 1.

    Lemma geod_T_contracts B : - (PI / 2) < B < PI / 2 ->
      Rabs (geod_T a e2 p z B - Bs) <= geod_q * Rabs (B - Bs).
    Proof. intros HB. rewrite <- Hfix at 1. apply geod_T_lipschitz; assumption. Qed.

    (* a-posteriori: the stop criterion bounds the distance to the fixed point *)
    Lemma geod_stop_bound B tol : - (PI / 2) < B < PI / 2 ->
      Rabs (B - geod_T a e2 p z B) <= tol -> Rabs (B - Bs) <= tol / (1 - geod_q).
    Proof.
      intros HB Hs. pose proof (geod_T_contracts B HB) as Hc.
      assert (Rabs (B - Bs) <= Rabs (B - geod_T a e2 p z B) + Rabs (geod_T a e2 p z B - Bs)).
      { replace (B - Bs) with ((B - geod_T a e2 p z B) + (geod_T a e2 p z B - Bs)) by ring. apply Rabs_triang. }
      apply Rmult_le_reg_r with (1 - geod_q); [lra|].
      unfold Rdiv. rewrite Rmult_assoc, Rinv_l by lra. lra.
    Qed.

    (* the loop stops after at most k + 1 passes once q^k (1 + q) |B0 - Bs| <= tol *)
    Lemma geod_loop_terminates tol k : forall B0, - (PI / 2) < B0 < PI / 2 ->
      Rabs (B0 - Bs) * geod_q ^ k * (1 + geod_q) <= tol ->
      exists B, geod_loop a e2 p z tol (S k) B0 = Some B.
    Proof.
      pose proof geod_q_nonneg as Hq0.
      induction k as [|k IH]; intros B0 HB0 Hk.
      - exists B0. cbn [geod_loop]. cbv zeta.
        destruct (Rle_dec (Rabs (B0 - geod_T a e2 p z B0)) tol) as [L|L]; [reflexivity|exfalso; apply L].
        pose proof (geod_T_contracts B0 HB0) as Hc.
        assert (Rabs (B0 - geod_T a e2 p z B0) <= Rabs (B0 - Bs) + Rabs (geod_T a e2 p z B0 - Bs)).
        { replace (B0 - geod_T a e2 p z B0) with ((B0 - Bs) + - (geod_T a e2 p z B0 - Bs)) by ring.
          eapply Rle_trans; [apply Rabs_triang|]. rewrite Rabs_Ropp. lra. }
        cbn [pow] in Hk. nra.
      - cbn [geod_loop]. cbv zeta.
        destruct (Rle_dec (Rabs (B0 - geod_T a e2 p z B0)) tol) as [L|L]; [exists B0; reflexivity|].
        apply IH; [apply geod_T_range|].
        pose proof (geod_T_contracts B0 HB0) as Hc.
        assert (0 <= geod_q ^ k) by (apply pow_le; exact Hq0).
        apply Rle_trans with (Rabs (B0 - Bs) * geod_q ^ Datatypes.S k * (1 + geod_q)); [|exact Hk].
        cbn [pow]. apply Rmult_le_compat_r; [lra|].
        replace (Rabs (B0 - Bs) * (geod_q * geod_q ^ k)) with (geod_q * Rabs (B0 - Bs) * geod_q ^ k) by ring.
        apply Rmult_le_compat_r; assumption.
    Qed.
  End FixedPoint.
End Iteration.

Lemma geod_loop_more_fuel a e2 p z tol k : forall B0 B,
  geod_loop a e2 p z tol k B0 = Some B -> geod_loop a e2 p z tol (S k) B0 = Some B.
Proof.
  induction k as [|k IH]; intros B0 B H; [discriminate|].
  cbn [geod_loop] in *. cbv zeta in *.
  destruct (Rle_dec (Rabs (B0 - geod_T a e2 p z B0)) tol) as [L|L]; [exact H|].
  apply IH in H. exact H.
Qed.

Lemma geod_loop_fuel_le a e2 p z tol k n B0 B : (k <= n)%nat ->
  geod_loop a e2 p z tol k B0 = Some B -> geod_loop a e2 p z tol n B0 = Some B.
Proof. intros Hle H. induction Hle as [|n Hle IH]; [exact H|]. apply geod_loop_more_fuel, IH. Qed.

(* ---- the height computed at an iterate close to the fixed point *)
Lemma div_le_compat x X y Y : 0 <= x <= X -> 0 < Y <= y -> x / y <= X / Y.
Proof.
  intros Hx Hy. unfold Rdiv. apply Rmult_le_compat; try lra.
  - apply Rlt_le, Rinv_0_lt_compat; lra.
  - apply Rinv_le_contravar; lra.
Qed.

Lemma geod_N_lipschitz a e2 B Bs : 0 < a -> 0 <= e2 < 1 ->
  Rabs (geod_N a e2 B - geod_N a e2 Bs) <= a * e2 * Rabs (B - Bs) / (sqrt (1 - e2) * sqrt (1 - e2) * sqrt (1 - e2)).
Proof.
  intros Ha He. unfold geod_N. fold (gW e2 B) (gW e2 Bs).
  pose proof (W_pos e2 He B) as HW. pose proof (W_pos e2 He Bs) as HWs.
  pose proof (W_sq e2 He B) as HWW. pose proof (W_sq e2 He Bs) as HWWs.
  pose proof (W_ge e2 He B) as Hk. pose proof (W_ge e2 He Bs) as Hks. pose proof (k_pos e2 He) as Hkp.
  set (W := gW e2 B) in *. set (Ws := gW e2 Bs) in *. set (k := sqrt (1 - e2)) in *.
  set (s := sin B) in *. set (ss := sin Bs) in *.
  assert (HWd : Ws - W = e2 * ((s - ss) * (s + ss)) / (W + Ws)).
  { apply Rmult_eq_reg_r with (W + Ws); [|lra]. unfold Rdiv. rewrite Rmult_assoc, Rinv_l, Rmult_1_r by lra.
    replace ((Ws - W) * (W + Ws)) with (Ws * Ws - W * W) by ring. rewrite HWW, HWWs. ring. }
  assert (F : a / W - a / Ws = a * e2 * ((s - ss) * (s + ss)) / ((W + Ws) * W * Ws)).
  { replace (a / W - a / Ws) with (a * (Ws - W) / (W * Ws)) by (field; lra). rewrite HWd. field. lra. }
  rewrite F.
  assert (Hden : 0 < 2 * (k * k * k) <= (W + Ws) * W * Ws).
  { split; [repeat apply Rmult_lt_0_compat; lra|].
    assert (k * k <= W * Ws) by nra. assert (2 * k <= W + Ws) by lra.
    apply Rle_trans with ((W + Ws) * (k * k)); [nra|]. rewrite Rmult_assoc. apply Rmult_le_compat_l; lra. }
  assert (Hnum : Rabs ((s - ss) * (s + ss)) <= 2 * Rabs (B - Bs)).
  { rewrite Rabs_mult. pose proof (sin_lipschitz B Bs) as L. fold s ss in L.
    assert (Rabs (s + ss) <= 2).
    { apply Rabs_le. pose proof (SIN_bound B). pose proof (SIN_bound Bs). unfold s, ss. lra. }
    pose proof (Rabs_pos (s - ss)). pose proof (Rabs_pos (s + ss)). nra. }
  unfold Rdiv at 1. rewrite Rabs_mult, Rabs_inv, (Rabs_pos_eq ((W + Ws) * W * Ws)) by lra.
  rewrite Rabs_mult, (Rabs_pos_eq (a * e2)) by nra.
  replace (a * e2 * Rabs (B - Bs) / (k * k * k)) with (a * e2 * (2 * Rabs (B - Bs)) / (2 * (k * k * k))) by (field; lra).
  apply div_le_compat; [|exact Hden]. split.
  - apply Rmult_le_pos; [nra|apply Rabs_pos].
  - apply Rmult_le_compat_l; [nra|exact Hnum].
Qed.

Lemma geod_h_near a e2 p B Bs d : 0 < a -> 0 <= e2 < 1 -> 0 < p ->
  Rabs (B - Bs) <= d -> d < cos Bs ->
  Rabs (geod_h a e2 p B - geod_h a e2 p Bs) <=
    p / cos Bs * (d / (cos Bs - d)) + a * e2 * d / (sqrt (1 - e2) * sqrt (1 - e2) * sqrt (1 - e2)).
Proof.
  intros Ha He Hp Hd Hc. pose proof (Rabs_pos (B - Bs)) as Hd0.
  pose proof (cos_lipschitz B Bs) as Lc. pose proof (geod_N_lipschitz a e2 B Bs Ha He) as LN.
  pose proof (k_pos e2 He) as Hkp. set (k := sqrt (1 - e2)) in *.
  assert (HcB : cos Bs - d <= cos B).
  { assert (Rabs (cos B - cos Bs) <= d) by lra. apply Rabs_le_between in H. lra. }
  assert (HcB0 : 0 < cos B) by lra.
  unfold geod_h.
  replace (p / cos B - geod_N a e2 B - (p / cos Bs - geod_N a e2 Bs))
    with (p / cos Bs * ((cos Bs - cos B) / cos B) + - (geod_N a e2 B - geod_N a e2 Bs)) by (field; lra).
  eapply Rle_trans; [apply Rabs_triang|]. rewrite Rabs_Ropp.
  apply Rplus_le_compat.
  - rewrite Rabs_mult, (Rabs_pos_eq (p / cos Bs)) by (apply Rlt_le, Rdiv_lt_0_compat; lra).
    apply Rmult_le_compat_l; [apply Rlt_le, Rdiv_lt_0_compat; lra|].
    unfold Rdiv at 1. rewrite Rabs_mult, Rabs_inv, (Rabs_pos_eq (cos B)) by lra.
    apply div_le_compat; [split; [apply Rabs_pos|rewrite Rabs_minus_sym; lra]|lra].
  - eapply Rle_trans; [exact LN|]. apply div_le_compat.
    + split; [apply Rmult_le_pos; [nra|lra]|apply Rmult_le_compat_l; [nra|lra]].
    + split; [repeat apply Rmult_lt_0_compat; lra|lra].
Qed.

Lemma geod_iter_range a e2 p z n : forall B0, - (PI / 2) < B0 < PI / 2 ->
  - (PI / 2) < geod_iter a e2 p z n B0 < PI / 2.
Proof.
  induction n as [|n IH]; intros B0 H; [exact H|]. cbn [geod_iter]. apply IH.
  unfold geod_T. cbv zeta. match goal with |- _ < atan ?u < _ => pose proof (atan_bound u) end. lra.
Qed.

Lemma hypot_polar rho lam : 0 < rho -> hypot (rho * cos lam) (rho * sin lam) = rho.
Proof.
  intros Hr. unfold hypot. pose proof (sin2_cos2 lam) as E. unfold Rsqr in E.
  replace ((rho * cos lam) ^ 2 + (rho * sin lam) ^ 2) with (rho * rho * (sin lam * sin lam + cos lam * cos lam)) by ring.
  rewrite E, Rmult_1_r. apply sqrt_square. lra.
Qed.

(* distance of (p, z) from the centre of curvature (c, 0), c <= m, when |(p, z)| >= m *)
Lemma shifted_norm p z c m : 0 <= c <= m -> 0 <= p -> m ^ 2 <= p ^ 2 + z ^ 2 -> (m - c) ^ 2 <= (p - c) ^ 2 + z ^ 2.
Proof. intros Hc Hp Hm. destruct (Rle_or_lt p m) as [A|A]; nra. Qed.

(* ---- the stated domain: 3000 km <= a <= 70000 km, e <= 0.11 (all six models), -10 km <= h <= 1000 km, |lat| <= 88 deg *)
Definition geod_domain (a e h lat : R) : Prop :=
  3000000 <= a <= 70000000 /\ 0 <= e <= 0.11 /\ -10000 <= h <= 1000000 /\ -88 <= lat <= 88.

Definition lat_range (B : R) : Prop := - (PI / 2) < B < PI / 2.

Section Domain.
  Variables a e h lat : R.
  Hypothesis Hdom : geod_domain a e h lat.

  Definition it_B : R := lat * PI / 180.
  Definition it_N : R := a / sqrt (1 - e ^ 2 * sin it_B ^ 2).
  Definition it_p : R := (it_N + h) * cos it_B.
  Definition it_z : R := (it_N * (1 - e ^ 2) + h) * sin it_B.
  Definition it_D0 : R := it_N * (1 - e ^ 2) + h - e ^ 2 * a.

  Lemma it_e2 : 0 <= e ^ 2 <= 0.0121.
  Proof. destruct Hdom as (_ & He & _). nra. Qed.
  Lemma it_e2' : 0 <= e ^ 2 < 1.
  Proof. pose proof it_e2. lra. Qed.
  Lemma it_k : 0.9939 <= sqrt (1 - e ^ 2) <= 1.
  Proof.
    destruct Hdom as (_ & He & _). split; [rewrite <- (sqrt_square 0.9939) by lra; apply sqrt_le_1_alt; nra|].
    apply Rle_trans with (sqrt 1); [apply sqrt_le_1_alt; nra|rewrite sqrt_1; lra].
  Qed.
  Lemma it_B_range : lat_range it_B.
  Proof. destruct Hdom as (_ & _ & _ & Hl). unfold lat_range, it_B. pose proof PI_RGT_0. split; nra. Qed.
  Lemma it_cos : 0.0333 <= cos it_B.
  Proof.
    destruct Hdom as (_ & _ & _ & Hl). pose proof PI2_3_2 as Hpi3. pose proof PI_4 as Hpi4.
    assert (Hu : exists u, 0 <= u <= 88 * PI / 180 /\ cos it_B = cos u).
    { destruct (Rle_or_lt 0 it_B) as [P|Ng].
      - exists it_B. unfold it_B in *. split; [split; nra|reflexivity].
      - exists (- it_B). unfold it_B in *. split; [split; nra|symmetry; apply cos_neg]. }
    destruct Hu as [u [Hu ->]]. rewrite <- (sin_shift u).
    apply Rle_trans with (sin (PI / 90)).
    - destruct (pre_sin_bound (PI / 90) 0) as [L _]; [lra|lra|].
      unfold sin_approx, sin_term in L. cbn [sum_f_R0 Nat.mul Nat.add pow fact INR] in L.
      set (d := PI / 90) in *. assert (1 / 30 < d <= 2 / 45) by (unfold d; lra).
      eapply Rle_trans; [|exact L]. cbn. nra.
    - apply sin_incr_1; lra.
  Qed.
  Lemma it_N_bounds : a <= it_N <= a / sqrt (1 - e ^ 2).
  Proof.
    destruct Hdom as (Ha & He & _). pose proof it_e2' as He2. split.
    - unfold it_N. apply N_ge_a; [lra|lra|apply SIN_bound].
    - unfold it_N. fold (gW (e ^ 2) it_B). pose proof (W_ge (e ^ 2) He2 it_B). pose proof (k_pos (e ^ 2) He2).
      apply div_le_compat; lra.
  Qed.
  Lemma it_N_upper : it_N <= 70430000.
  Proof.
    destruct Hdom as (Ha & _). pose proof it_N_bounds as [_ H]. pose proof it_k as Hk.
    eapply Rle_trans; [exact H|]. apply Rle_trans with (70000000 / 0.9939); [apply div_le_compat; lra|lra].
  Qed.

  Lemma it_p_lower : e ^ 2 * a < it_p.
  Proof.
    destruct Hdom as (Ha & _ & Hh & _). pose proof it_e2 as He2. pose proof it_cos as Hc. pose proof it_N_bounds as [HN _].
    assert (a * (299 / 300) <= it_N + h) by lra.
    assert (a * (299 / 300) * 0.0333 <= it_p) by (unfold it_p; nra).
    assert (e ^ 2 * a <= 0.0121 * a) by nra. lra.
  Qed.
  Lemma it_p_pos : 0 < it_p.
  Proof. destruct Hdom as (Ha & _). pose proof it_e2. pose proof it_p_lower. nra. Qed.

  Lemma it_m_lower : a * (1 - e ^ 2 - 1 / 300) <= it_N * (1 - e ^ 2) + h.
  Proof. destruct Hdom as (Ha & _ & Hh & _). pose proof it_e2 as He2. pose proof it_N_bounds as [HN _]. nra. Qed.

  Lemma it_D0_lower : a * (1 - 2 * e ^ 2 - 1 / 300) <= it_D0.
  Proof. unfold it_D0. pose proof it_m_lower. lra. Qed.
  Lemma it_D0_pos : 0 < it_D0.
  Proof. destruct Hdom as (Ha & _). pose proof it_e2 as He2. pose proof it_D0_lower. nra. Qed.

  Lemma it_D0_norm : it_D0 ^ 2 <= (it_p - e ^ 2 * a) ^ 2 + it_z ^ 2.
  Proof.
    destruct Hdom as (Ha & _). pose proof it_e2 as He2. pose proof it_m_lower as Hm. pose proof it_D0_pos as HD.
    pose proof it_p_pos as Hp. unfold it_D0 in *.
    apply shifted_norm; [split; nra|lra|].
    unfold it_p, it_z. pose proof (sin2_cos2 it_B) as E. unfold Rsqr in E.
    set (m := it_N * (1 - e ^ 2) + h) in *. set (s := sin it_B) in *. set (c := cos it_B) in *.
    assert (0 <= m) by nra. assert (m <= it_N + h) by (unfold m; pose proof it_N_bounds; nra).
    assert (m ^ 2 <= (it_N + h) ^ 2) by nra.
    replace (m ^ 2) with (m ^ 2 * (s * s + c * c)) by (rewrite E; ring).
    assert (0 <= c * c) by nra. nra.
  Qed.

  Lemma it_q : geod_q a (e ^ 2) it_D0 <= 0.0126.
  Proof.
    destruct Hdom as (Ha & He & _). pose proof it_e2 as He2. pose proof it_k as Hk. pose proof it_D0_lower as HD.
    pose proof it_D0_pos as HDp. unfold geod_q.
    assert (K1 : e ^ 2 <= 0.0126 * (sqrt (1 - e ^ 2) * (1 - 2 * e ^ 2 - 1 / 300))).
    { assert (0.9724 <= 1 - 2 * e ^ 2 - 1 / 300) by lra.
      assert (0.9939 * 0.9724 <= sqrt (1 - e ^ 2) * (1 - 2 * e ^ 2 - 1 / 300)) by nra. lra. }
    set (k := sqrt (1 - e ^ 2)) in *.
    apply Rmult_le_reg_r with (k * it_D0); [nra|].
    unfold Rdiv. rewrite Rmult_assoc, Rinv_l, Rmult_1_r by nra.
    apply Rle_trans with (0.0126 * (k * (a * (1 - 2 * e ^ 2 - 1 / 300)))).
    - replace (0.0126 * (k * (a * (1 - 2 * e ^ 2 - 1 / 300)))) with (0.0126 * (k * (1 - 2 * e ^ 2 - 1 / 300)) * a) by ring. nra.
    - apply Rmult_le_compat_l; [lra|]. apply Rmult_le_compat_l; lra.
  Qed.

  Lemma it_fixed : geod_T a (e ^ 2) it_p it_z it_B = it_B /\ geod_h a (e ^ 2) it_p it_B = h.
  Proof.
    destruct Hdom as (Ha & He & Hh & Hl). pose proof it_e2 as He2. pose proof it_B_range as HB. pose proof it_cos as Hc.
    pose proof it_N_bounds as [HN _]. pose proof it_m_lower as Hm. unfold lat_range in HB.
    assert (Hgh : geod_h a (e ^ 2) it_p it_B = h).
    { unfold geod_h, geod_N, it_p. fold it_N. field. lra. }
    split; [|exact Hgh].
    unfold geod_T. cbv zeta. rewrite Hgh. unfold geod_N. fold it_N.
    replace (it_z / it_p * / (1 - e ^ 2 * it_N / (it_N + h))) with (tan it_B).
    - apply atan_tan. exact HB.
    - unfold tan, it_p, it_z. field. repeat split; nra.
  Qed.

  Definition it_T : R -> R := geod_T a (e ^ 2) it_p it_z.

  Lemma it_lipschitz B1 B2 : lat_range B1 -> lat_range B2 -> Rabs (it_T B1 - it_T B2) <= 0.0126 * Rabs (B1 - B2).
  Proof.
    intros H1 H2. destruct Hdom as (Ha & _).
    eapply Rle_trans; [apply (geod_T_lipschitz a (e ^ 2) it_p it_z it_D0); try assumption|].
    - lra. - apply it_e2'. - apply it_p_lower. - apply it_D0_pos. - apply it_D0_norm.
    - apply Rmult_le_compat_r; [apply Rabs_pos|apply it_q].
  Qed.

  Lemma it_contracts B : lat_range B -> Rabs (it_T B - it_B) <= 0.0126 * Rabs (B - it_B).
  Proof. intros HB. pose proof it_fixed as [F _]. fold it_T in F. rewrite <- F at 1. apply it_lipschitz; [exact HB|apply it_B_range]. Qed.

  Lemma it_stop B tol : lat_range B -> Rabs (B - it_T B) <= tol -> Rabs (B - it_B) <= tol / (1 - 0.0126).
  Proof.
    intros HB Hs. pose proof (it_contracts B HB) as Hc.
    assert (Rabs (B - it_B) <= Rabs (B - it_T B) + Rabs (it_T B - it_B)).
    { replace (B - it_B) with ((B - it_T B) + (it_T B - it_B)) by ring. apply Rabs_triang. }
    lra.
  Qed.

  Lemma it_accuracy B tol : lat_range B -> Rabs (B - it_T B) <= tol -> tol <= 2e-12 ->
    Rabs (B * 180 / PI - lat) <= 2e-10 /\ Rabs (geod_h a (e ^ 2) it_p B - h) <= 0.005.
  Proof.
    intros HB Hs Htol. pose proof (it_stop B tol HB Hs) as Hd.
    destruct Hdom as (Ha & He & Hh & Hl). pose proof it_e2 as He2. pose proof it_cos as Hc. pose proof it_k as Hk.
    pose proof it_N_upper as HNu. pose proof it_N_bounds as [HNl _]. pose proof it_p_pos as Hp. pose proof it_fixed as [_ Fh].
    assert (Hd' : Rabs (B - it_B) <= 2.03e-12) by lra.
    split.
    - replace (B * 180 / PI - lat) with ((B - it_B) * (180 / PI)) by (unfold it_B; field; apply Rgt_not_eq, PI_RGT_0).
      rewrite Rabs_mult, (Rabs_pos_eq (180 / PI)) by (apply Rlt_le, Rdiv_lt_0_compat; [lra|apply PI_RGT_0]).
      assert (180 / PI <= 60).
      { pose proof PI2_3_2. apply Rmult_le_reg_r with PI; [lra|]. unfold Rdiv. rewrite Rmult_assoc, Rinv_l by lra. lra. }
      pose proof (Rabs_pos (B - it_B)).
      assert (0 < 180 / PI) by (apply Rdiv_lt_0_compat; [lra|apply PI_RGT_0]). nra.
    - replace (geod_h a (e ^ 2) it_p B - h) with (geod_h a (e ^ 2) it_p B - geod_h a (e ^ 2) it_p it_B) by (rewrite Fh; reflexivity).
      eapply Rle_trans; [apply (geod_h_near a (e ^ 2) it_p B it_B 2.03e-12); try lra; apply it_e2'|].
      assert (Hpc : it_p / cos it_B = it_N + h) by (unfold it_p; field; lra).
      rewrite Hpc.
      assert (T1 : (it_N + h) * (2.03e-12 / (cos it_B - 2.03e-12)) <= 71430000 * (2.03e-12 / 0.03329)).
      { apply Rmult_le_compat; try lra.
        - apply Rlt_le, Rdiv_lt_0_compat; lra.
        - apply div_le_compat; lra. }
      assert (T2 : a * e ^ 2 * 2.03e-12 / (sqrt (1 - e ^ 2) * sqrt (1 - e ^ 2) * sqrt (1 - e ^ 2)) <= 70000000 * 0.0121 * 2.03e-12 / (0.9939 * 0.9939 * 0.9939)).
      { apply div_le_compat.
        - split; [apply Rmult_le_pos; [nra|lra]|]. apply Rmult_le_compat_r; [lra|]. nra.
        - split; [lra|]. set (k := sqrt (1 - e ^ 2)) in *. assert (0.9939 * 0.9939 <= k * k) by nra. nra. }
      lra.
  Qed.

  Lemma it_start_range : lat_range (atan2 it_z it_p).
  Proof. rewrite atan2_px by apply it_p_pos. unfold lat_range. pose proof (atan_bound (it_z / it_p)). lra. Qed.

  Lemma it_terminates tol fuel : 1e-12 <= tol -> (8 <= fuel)%nat ->
    exists B, geod_loop a (e ^ 2) it_p it_z tol fuel (atan2 it_z it_p) = Some B.
  Proof.
    intros Htol Hfuel. destruct Hdom as (Ha & _). pose proof it_q as Hq. pose proof it_fixed as [F _].
    pose proof it_B_range as HB. pose proof it_start_range as H0. unfold lat_range in *.
    assert (Hq0 : 0 <= geod_q a (e ^ 2) it_D0) by (apply geod_q_nonneg; first [lra|apply it_e2'|apply it_D0_pos]).
    destruct (geod_loop_terminates a (e ^ 2) it_p it_z it_D0) with (Bs := it_B) (tol := tol) (k := 7%nat) (B0 := atan2 it_z it_p) as [B HBl];
      try assumption; try lra; try apply it_e2'; try apply it_p_lower; try apply it_D0_pos; try apply it_D0_norm.
    - set (q := geod_q a (e ^ 2) it_D0) in *.
      assert (Rabs (atan2 it_z it_p - it_B) <= PI).
      { apply Rabs_le. lra. }
      assert (q ^ 7 <= 0.0126 ^ 7) by (apply pow_incr; lra).
      assert (0 <= q ^ 7) by (apply pow_le; lra).
      assert (0.0126 ^ 7 * (1 + 0.0126) * PI <= 1e-12).
      { pose proof PI_4. apply Rle_trans with (0.0126 ^ 7 * (1 + 0.0126) * 4); [apply Rmult_le_compat_l; lra|lra]. }
      pose proof PI_RGT_0. pose proof (Rabs_pos (atan2 it_z it_p - it_B)).
      apply Rle_trans with (PI * 0.0126 ^ 7 * (1 + 0.0126)); [|lra].
      apply Rmult_le_compat; try lra.
      + apply Rmult_le_pos; lra.
      + apply Rmult_le_compat; lra.
    - exists B. eapply geod_loop_fuel_le; [exact Hfuel|exact HBl].
  Qed.
End Domain.

(* ---- the statements about geodetic2cart / cart2geodetic on the stated domain *)
Lemma geodetic2cart_it a e h lat lon :
  geodetic2cart h lat lon a e =
  (it_p a e h lat * cos (lon * PI / 180), it_p a e h lat * sin (lon * PI / 180), it_z a e h lat).
Proof. rewrite geodetic2cart_spec. unfold sind, cosd, it_p, it_z, it_N, it_B. cbv zeta. reflexivity. Qed.

Ltac to_it a e h lat lon Hdom :=
  rewrite (geodetic2cart_it a e h lat lon); cbv beta iota zeta;
  rewrite (hypot_polar (it_p a e h lat) (lon * PI / 180) (it_p_pos a e h lat Hdom)).

(* general form: Lipschitz constant e^2 a / (sqrt (1 - e^2) D0) when (p, z) stays D0 away from the centres of curvature *)
Lemma iteration_lipschitz_general a e2 p z D0 :
  0 < a -> 0 <= e2 < 1 -> e2 * a < p -> 0 < D0 -> D0 ^ 2 <= (p - e2 * a) ^ 2 + z ^ 2 ->
  forall B1 B2, - (PI / 2) < B1 < PI / 2 -> - (PI / 2) < B2 < PI / 2 ->
  Rabs (geod_T a e2 p z B1 - geod_T a e2 p z B2) <= e2 * a / (sqrt (1 - e2) * D0) * Rabs (B1 - B2).
Proof. intros Ha He Hp HD0 HD B1 B2 H1 H2. exact (geod_T_lipschitz a e2 p z D0 Ha He Hp HD0 HD B1 B2 H1 H2). Qed.

Lemma iteration_contraction a e h lat lon :
  3000000 <= a <= 70000000 -> 0 <= e <= 0.11 -> -10000 <= h <= 1000000 -> -88 <= lat <= 88 ->
  let '(x, y, z) := geodetic2cart h lat lon a e in
  let T := geod_T a (e ^ 2) (hypot x y) z in
  (forall B1 B2, - (PI / 2) < B1 < PI / 2 -> - (PI / 2) < B2 < PI / 2 -> Rabs (T B1 - T B2) <= 0.0126 * Rabs (B1 - B2)) /\
  (forall B, - (PI / 2) < B < PI / 2 -> Rabs (T B - lat * PI / 180) <= 0.0126 * Rabs (B - lat * PI / 180)).
Proof.
  intros Ha He Hh Hl. assert (Hdom : geod_domain a e h lat) by (repeat split; lra).
  to_it a e h lat lon Hdom. split.
  - intros B1 B2 H1 H2. exact (it_lipschitz a e h lat Hdom B1 B2 H1 H2).
  - intros B HB. exact (it_contracts a e h lat Hdom B HB).
Qed.

Lemma iteration_accuracy a e h lat lon :
  3000000 <= a <= 70000000 -> 0 <= e <= 0.11 -> -10000 <= h <= 1000000 -> -88 <= lat <= 88 ->
  let '(x, y, z) := geodetic2cart h lat lon a e in
  let p := hypot x y in
  forall B tol, - (PI / 2) < B < PI / 2 -> Rabs (B - geod_T a (e ^ 2) p z B) <= tol ->
    Rabs (B - lat * PI / 180) <= tol / (1 - 0.0126) /\
    (tol <= 2e-12 -> Rabs (B * 180 / PI - lat) <= 2e-10 /\ Rabs (geod_h a (e ^ 2) p B - h) <= 0.005).
Proof.
  intros Ha He Hh Hl. assert (Hdom : geod_domain a e h lat) by (repeat split; lra).
  to_it a e h lat lon Hdom. intros B tol HB Hs. split.
  - exact (it_stop a e h lat Hdom B tol HB Hs).
  - intros Ht. exact (it_accuracy a e h lat Hdom B tol HB Hs Ht).
Qed.

Lemma cart2geodetic_total a e h lat lon :
  3000000 <= a <= 70000000 -> 0 <= e <= 0.11 -> -10000 <= h <= 1000000 -> -88 <= lat <= 88 -> -180 < lon <= 180 ->
  let '(x, y, z) := geodetic2cart h lat lon a e in
  let p := hypot x y in
  forall tol fuel, 1e-12 <= tol <= 2e-12 -> (8 <= fuel)%nat ->
    exists B, geod_loop a (e ^ 2) p z tol fuel (atan2 z p) = Some B /\
      Rabs (B * 180 / PI - lat) <= 2e-10 /\ Rabs (geod_h a (e ^ 2) p B - h) <= 0.005 /\ atan2 y x * 180 / PI = lon.
Proof.
  intros Ha He Hh Hl Hlon. assert (Hdom : geod_domain a e h lat) by (repeat split; lra).
  assert (Hh' : - (a * (1 - e ^ 2)) < h) by (pose proof (it_e2 a e h lat Hdom); nra).
  pose proof (geodetic_fixed_point a e h lat lon ltac:(lra) ltac:(lra) ltac:(lra) Hlon Hh') as FP.
  rewrite (geodetic2cart_it a e h lat lon) in FP. cbv beta iota zeta in FP.
  destruct FP as (_ & _ & _ & Flon).
  to_it a e h lat lon Hdom. intros tol fuel Htol Hfuel.
  destruct (it_terminates a e h lat Hdom tol fuel (proj1 Htol) Hfuel) as [B HBl].
  exists B. split; [exact HBl|].
  destruct (geod_loop_stops _ _ _ _ _ _ _ _ HBl) as [n [En Hstop]].
  assert (HB : lat_range B).
  { rewrite En. apply geod_iter_range. apply (it_start_range a e h lat Hdom). }
  destruct (it_accuracy a e h lat Hdom B tol HB Hstop (proj2 Htol)) as [A1 A2].
  split; [exact A1|split; [exact A2|exact Flon]].
Qed.

(* every model of the generated table lies in the domain of the three lemmas above *)
Lemma ellipsoid_table_in_iteration_domain :
  List.Forall (fun m : String.string * (R * R) => 3000000 <= fst (snd m) <= 70000000 /\ 0 <= snd (snd m) <= 0.11) ellipsoid_models.
Proof. unfold ellipsoid_models. repeat (apply List.Forall_cons; [cbn [fst snd]; lra|]). apply List.Forall_nil. Qed.
