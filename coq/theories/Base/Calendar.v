(* Base/Calendar.v -- the proleptic Gregorian calendar of Python's `datetime`, over Z.
   DEFINITIONS ONLY (the lemmas are in Base/CalendarProofs.v), so that models built on this file
   stay executable when a proof breaks.

   Conventions
   * a DAY NUMBER is the number of days since 0001-01-01 (0001-01-01 |-> 0, 9999-12-31 |-> 3652058);
     it is `date.toordinal() - 1` of Python;
   * a DATETIME is the number of microseconds since 0001-01-01T00:00:00
     (datetime.min |-> 0, datetime.max |-> dt_max - 1);  `valid t := 0 <= t < dt_max`;
   * a TIMEDELTA is a number of microseconds;
   * `days_from_civil` / `civil_from_days` are H. Hinnant's era algorithms shifted by 306 days
     (they are total on Z; the theorems are stated for the years 1..9999 of `datetime`).

   Everything here computes with `vm_compute` (binary Z, no large nat). *)
From Coq Require Import ZArith List Bool.
Import ListNotations.
Open Scope Z_scope.

(* ------------------------------------------------------------------ dates *)

Definition is_leap (y : Z) : bool :=
  ((y mod 4 =? 0) && negb (y mod 100 =? 0)) || (y mod 400 =? 0).

Definition days_in_year (y : Z) : Z := if is_leap y then 366 else 365.

Definition days_in_month (y m : Z) : Z :=
  if m =? 2 then (if is_leap y then 29 else 28)
  else if (m =? 4) || (m =? 6) || (m =? 9) || (m =? 11) then 30 else 31.

(* datetime(y, m, d) is accepted *)
Definition valid_dateb (y m d : Z) : bool :=
  (1 <=? y) && (y <=? 9999) && (1 <=? m) && (m <=? 12) && (1 <=? d) && (d <=? days_in_month y m).
Definition valid_date (y m d : Z) : Prop :=
  1 <= y <= 9999 /\ 1 <= m <= 12 /\ 1 <= d <= days_in_month y m.

(* number of days from 0001-01-01 to y-m-d *)
Definition days_from_civil (y m d : Z) : Z :=
  let y' := if m <=? 2 then y - 1 else y in
  let era := y' / 400 in
  let yoe := y' - era * 400 in
  let mp := if m <=? 2 then m + 9 else m - 3 in
  let doy := (153 * mp + 2) / 5 + d - 1 in
  let doe := yoe * 365 + yoe / 4 - yoe / 100 + doy in
  era * 146097 + doe - 306.

(* the inverse: day number -> (year, month, day) *)
Definition civil_from_days (n : Z) : Z * Z * Z :=
  let era := (n + 306) / 146097 in
  let doe := n + 306 - era * 146097 in
  let yoe := (doe - doe / 1460 + doe / 36524 - doe / 146096) / 365 in
  let doy := doe - (365 * yoe + yoe / 4 - yoe / 100) in
  let mp := (5 * doy + 2) / 153 in
  let d := doy - (153 * mp + 2) / 5 + 1 in
  let m := if mp <? 10 then mp + 3 else mp - 9 in
  (if m <=? 2 then yoe + era * 400 + 1 else yoe + era * 400, m, d).

Definition n_days : Z := 3652059.            (* day numbers of datetime: 0 <= n < n_days *)
Definition cycle_days : Z := 146097.         (* days in 400 years *)

(* lexicographic order on (year, month, day) *)
Definition lex_lt (a b : Z * Z * Z) : bool :=
  let '(y, m, d) := a in let '(y', m', d') := b in
  (y <? y') || ((y =? y') && ((m <? m') || ((m =? m') && (d <? d')))).
Definition lex_le (a b : Z * Z * Z) : bool :=
  let '(y, m, d) := a in let '(y', m', d') := b in
  (y <? y') || ((y =? y') && ((m <? m') || ((m =? m') && (d <=? d')))).

(* day of the year, 1-based: (date - date(y,1,1)).days + 1 *)
Definition doy_of (y m d : Z) : Z := days_from_civil y m d - days_from_civil y 1 1 + 1.

(* `date(y,1,1) + timedelta(n - 1)` -> (month, day) of the result; None = OverflowError.
   As in Python nothing forces 1 <= n <= days_in_year y: n = 0 gives (12, 31), n = 400 a date of
   the following year (only month and day are used by typhon, the year is kept). *)
Definition of_doy (y n : Z) : option (Z * Z) :=
  let k := days_from_civil y 1 1 + n - 1 in
  if (1 <=? y) && (y <=? 9999) && (0 <=? k) && (k <? n_days)
  then let '(_, m, d) := civil_from_days k in Some (m, d) else None.

(* ------------------------------------------------------------------ datetimes *)

Definition us_second : Z := 1000000.
Definition us_minute : Z := 60000000.
Definition us_hour   : Z := 3600000000.
Definition us_day    : Z := 86400000000.
Definition dt_max    : Z := 315537897600000000.      (* datetime.max + 1 microsecond = n_days * us_day *)
Definition valid (t : Z) : Prop := 0 <= t < dt_max.
Definition validb (t : Z) : bool := (0 <=? t) && (t <? dt_max).

(* the fields of a datetime, as Python's attributes year ... microsecond *)
Record dt := Dt { year : Z; month : Z; day : Z; hour : Z; minute : Z; second : Z; micro : Z }.

Definition fields (t : Z) : dt :=
  let '(y, m, d) := civil_from_days (t / us_day) in
  let r := t mod us_day in
  Dt y m d (r / us_hour) ((r / us_minute) mod 60) ((r / us_second) mod 60) (r mod us_second).

Definition valid_todb (h mi s us : Z) : bool :=
  (0 <=? h) && (h <? 24) && (0 <=? mi) && (mi <? 60) && (0 <=? s) && (s <? 60)
  && (0 <=? us) && (us <? us_second).

Definition tod_us (h mi s us : Z) : Z := ((h * 60 + mi) * 60 + s) * us_second + us.

(* datetime(y, mo, d, h, mi, s, us): None = ValueError *)
Definition mk (y mo d h mi s us : Z) : option Z :=
  if valid_dateb y mo d && valid_todb h mi s us
  then Some (days_from_civil y mo d * us_day + tod_us h mi s us) else None.
Definition mk_dt (f : dt) : option Z :=
  mk (year f) (month f) (day f) (hour f) (minute f) (second f) (micro f).

Definition date_of (t : Z) : Z * Z * Z := civil_from_days (t / us_day).
Definition year_of (t : Z) : Z := year (fields t).
Definition doy (t : Z) : Z := t / us_day - days_from_civil (year_of t) 1 1 + 1.

(* datetime + timedelta: None = OverflowError *)
Definition add (t d : Z) : option Z := if validb (t + d) then Some (t + d) else None.

(* ------------------------------------------------------------------ resolutions *)

Inductive res := RYear | RMonth | RDay | RHour | RMinute | RSecond | RMilli | RMicro.

(* typhon.utils.timeutils.set_time_resolution: every field finer than r is reset *)
Definition trunc_to (r : res) (t : Z) : Z :=
  match r with
  | RYear   => let '(y, _, _) := date_of t in days_from_civil y 1 1 * us_day
  | RMonth  => let '(y, m, _) := date_of t in days_from_civil y m 1 * us_day
  | RDay    => t / us_day * us_day
  | RHour   => t / us_hour * us_hour
  | RMinute => t / us_minute * us_minute
  | RSecond => t / us_second * us_second
  | RMilli  => t / 1000 * 1000
  | RMicro  => t
  end.

(* FileSet._temporal_resolution: the nominal length of one unit (366 d, 31 d, 1 d, ...) *)
Definition period (r : res) : Z :=
  match r with
  | RYear => 366 * us_day | RMonth => 31 * us_day | RDay => us_day | RHour => us_hour
  | RMinute => us_minute | RSecond => us_second | RMilli => 1000 | RMicro => 1
  end.

Definition res_rank (r : res) : Z :=
  match r with RYear => 0 | RMonth => 1 | RDay => 2 | RHour => 3 | RMinute => 4 | RSecond => 5
             | RMilli => 6 | RMicro => 7 end.

(* ------------------------------------------------------------------ finite sweeps
   `sweep f n` evaluates f on 0, 1, ..., n-1 with a binary counter (no large nat);
   CalendarProofs.sweep_sound turns `sweep f n = true` into `forall z, 0 <= z < n -> f z = true`. *)
Definition sweep_step (f : Z -> bool) (st : Z * bool) : Z * bool :=
  let '(z, ok) := st in (z + 1, if ok then f z else false).
Definition sweep (f : Z -> bool) (n : positive) : bool := snd (Pos.iter (sweep_step f) (0, true) n).

(* checked for every day of one 400-year cycle *)
Definition day_ok (n : Z) : bool :=
  let '(y, m, d) := civil_from_days n in
  (days_from_civil y m d =? n) && (1 <=? y) && (y <=? (if n <? 145731 then 399 else 400))
  && (1 <=? m) && (m <=? 12) && (1 <=? d) && (d <=? days_in_month y m)
  && lex_lt (y, m, d) (civil_from_days (n + 1)).

(* checked for every (year, month, day) of one cycle; the index i enumerates 400 x 12 x 31 *)
Definition date_ok (i : Z) : bool :=
  let y := i / 372 + 1 in let m := (i mod 372) / 31 + 1 in let d := i mod 31 + 1 in
  if d <=? days_in_month y m
  then let n := days_from_civil y m d in
       (0 <=? n) && (n <? cycle_days) && (if y <=? 399 then n <? 145731 else true) &&
       (let '(y', m', d') := civil_from_days n in (y' =? y) && (m' =? m) && (d' =? d))
  else true.
