(* Real-number helpers shared by the translated formula modules (coq/gen/*.v). Definitions only. *)
From Coq Require Import Reals.
Open Scope R_scope.

(* numpy.arctan2(y, x) *)
Definition atan2 (y x : R) : R :=
  if Rlt_dec 0 x then atan (y / x)
  else if Rlt_dec x 0 then (if Rle_dec 0 y then atan (y / x) + PI else atan (y / x) - PI)
  else if Rlt_dec 0 y then PI / 2
  else if Rlt_dec y 0 then - (PI / 2)
  else 0.
