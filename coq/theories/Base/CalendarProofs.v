(* Base/CalendarProofs.v -- lemmas about Base/Calendar.v.

   Method: the day part is a finite domain.  Two `vm_compute` sweeps over ONE 400-year cycle
   (146 097 days resp. 400 x 12 x 31 dates, about 20 s each) establish the round trips, the field
   ranges and the strict monotonicity of `civil_from_days`; the periodicity lemmas `dfc_period` /
   `cfd_period` (pure `lia`) lift them to every day number 0 <= n < 3 652 059 resp. every year
   1..9999 -- the bounds are part of the statements.  The time-of-day part is `lia`. *)
From Coq Require Import ZArith List Bool Lia ZifyBool Wf_Z.
From Typhon Require Import Base.Calendar.
Open Scope Z_scope.
Local Ltac Zify.zify_post_hook ::= Z.to_euclidean_division_equations.

(* ------------------------------------------------------------------ sweeps *)

Lemma sweep_nat f k :
  let st := nat_rect (fun _ => (Z * bool)%type) (0, true) (fun _ => sweep_step f) k in
  fst st = Z.of_nat k /\ (snd st = true -> forall z, 0 <= z < Z.of_nat k -> f z = true).
Proof.
  induction k as [|k IH]; cbn [nat_rect].
  - split; [reflexivity|intros _ z Hz; lia].
  - cbv zeta in IH. destruct IH as [H1 H2].
    destruct (nat_rect (fun _ => (Z * bool)%type) (0, true) (fun _ => sweep_step f) k) as [z0 ok].
    cbn [fst snd sweep_step] in *. split; [lia|].
    intros Hok z Hz. destruct ok; [|discriminate].
    destruct (Z.eq_dec z z0) as [->|Hne]; [exact Hok|apply H2; [reflexivity|lia]].
Qed.

Lemma sweep_sound f n : sweep f n = true -> forall z, 0 <= z < Zpos n -> f z = true.
Proof.
  unfold sweep. rewrite Pos2Nat.inj_iter. intros H z Hz.
  destruct (sweep_nat f (Pos.to_nat n)) as [_ H2]. apply H2; [exact H|lia].
Qed.

Lemma period_lift (p : Z) (P : Z -> Prop) :
  0 < p -> (forall r, 0 <= r < p -> P r) -> (forall z, 0 <= z -> P z -> P (z + p)) ->
  forall n, 0 <= n -> P n.
Proof.
  intros Hp Hb Hs. apply (Zlt_0_ind P). intros x IH Hx.
  destruct (Z_lt_ge_dec x p) as [Hlt|Hge]; [apply Hb; lia|].
  replace x with ((x - p) + p) by lia. apply Hs; [lia|apply IH; lia].
Qed.

(* ------------------------------------------------------------------ periodicity (400 years = 146097 days) *)

Lemma is_leap_period y : is_leap (y + 400) = is_leap y.
Proof.
  unfold is_leap.
  replace ((y + 400) mod 4) with (y mod 4) by lia.
  replace ((y + 400) mod 100) with (y mod 100) by lia.
  replace ((y + 400) mod 400) with (y mod 400) by lia. reflexivity.
Qed.

Lemma dim_period y m : days_in_month (y + 400) m = days_in_month y m.
Proof. unfold days_in_month. rewrite is_leap_period. reflexivity. Qed.

Lemma dfc_period y m d : days_from_civil (y + 400) m d = days_from_civil y m d + 146097.
Proof.
  unfold days_from_civil. destruct (m <=? 2).
  - replace (y + 400 - 1) with ((y - 1) + 1 * 400) by lia. rewrite Z.div_add by lia. lia.
  - replace (y + 400) with (y + 1 * 400) by lia. rewrite Z.div_add by lia. lia.
Qed.

Lemma cfd_period z :
  civil_from_days (z + 146097) = let '(y, m, d) := civil_from_days z in (y + 400, m, d).
Proof.
  unfold civil_from_days.
  replace (z + 146097 + 306) with ((z + 306) + 1 * 146097) by lia. rewrite Z.div_add by lia.
  set (era := (z + 306) / 146097).
  replace (z + 306 + 1 * 146097 - (era + 1) * 146097) with (z + 306 - era * 146097) by lia.
  set (doe := z + 306 - era * 146097).
  set (yoe := (doe - doe / 1460 + doe / 36524 - doe / 146096) / 365). cbv zeta.
  set (mp := (5 * (doe - (365 * yoe + yoe / 4 - yoe / 100)) + 2) / 153).
  destruct (mp <? 10); [destruct (mp + 3 <=? 2)|destruct (mp - 9 <=? 2)]; f_equal; f_equal; lia.
Qed.

(* ------------------------------------------------------------------ lexicographic order *)

Lemma lex_lt_trans a b c : lex_lt a b = true -> lex_lt b c = true -> lex_lt a c = true.
Proof. destruct a as [[y m] d], b as [[y' m'] d'], c as [[y'' m''] d'']. unfold lex_lt. lia. Qed.

Lemma lex_lt_irrefl a : lex_lt a a = false.
Proof. destruct a as [[y m] d]. unfold lex_lt. lia. Qed.

Lemma lex_lt_asym a b : lex_lt a b = true -> lex_lt b a = false.
Proof. destruct a as [[y m] d], b as [[y' m'] d']. unfold lex_lt. lia. Qed.

Lemma lex_le_lt_or_eq a b : lex_le a b = true <-> lex_lt a b = true \/ a = b.
Proof.
  destruct a as [[y m] d], b as [[y' m'] d']. unfold lex_le, lex_lt. split.
  - intros H. destruct (Z.eq_dec d d') as [->|Hd]; [|left; lia].
    destruct (Z.eq_dec m m') as [->|Hm]; [|left; lia].
    destruct (Z.eq_dec y y') as [->|Hy]; [right; reflexivity|left; lia].
  - intros [H|H]; [lia|]. injection H as -> -> ->. lia.
Qed.

Lemma lex_total a b : lex_lt a b = true \/ a = b \/ lex_lt b a = true.
Proof.
  destruct a as [[y m] d], b as [[y' m'] d']. unfold lex_lt.
  destruct (Z.eq_dec y y') as [->|Hy]; [|lia].
  destruct (Z.eq_dec m m') as [->|Hm]; [|lia].
  destruct (Z.eq_dec d d') as [->|Hd]; [right; left; reflexivity|lia].
Qed.

Lemma lex_lt_shift y m d y' m' d' :
  lex_lt (y + 400, m, d) (y' + 400, m', d') = lex_lt (y, m, d) (y', m', d').
Proof. unfold lex_lt. lia. Qed.

(* ------------------------------------------------------------------ sweep 1: every day number *)

Lemma cycle_sweep : sweep day_ok 146097 = true.
Proof. vm_cast_no_check (eq_refl true). Qed.

Definition day_P (n : Z) : Prop :=
  let '(y, m, d) := civil_from_days n in
  days_from_civil y m d = n /\
  400 * (n / 146097) + 1 <= y <= 400 * (n / 146097) + (if n mod 146097 <? 145731 then 399 else 400) /\
  1 <= m <= 12 /\ 1 <= d <= days_in_month y m /\
  lex_lt (y, m, d) (civil_from_days (n + 1)) = true.

Lemma day_P_base r : 0 <= r < 146097 -> day_P r.
Proof.
  intros Hr. pose proof (sweep_sound _ _ cycle_sweep r Hr) as H.
  unfold day_P, day_ok in *. destruct (civil_from_days r) as [[y m] d].
  apply andb_true_iff in H. destruct H as [H Hlex].
  replace (r / 146097) with 0 by lia. replace (r mod 146097) with r by lia.
  destruct (r <? 145731); repeat split; try exact Hlex; lia.
Qed.

Lemma day_P_step z : 0 <= z -> day_P z -> day_P (z + 146097).
Proof.
  intros Hz H. unfold day_P in *.
  replace (z + 146097 + 1) with ((z + 1) + 146097) by lia.
  rewrite !cfd_period.
  destruct (civil_from_days z) as [[y m] d]. destruct (civil_from_days (z + 1)) as [[y' m'] d'].
  destruct H as (H1 & H2 & H3 & H4 & H5).
  rewrite dfc_period, dim_period, lex_lt_shift.
  replace ((z + 146097) / 146097) with (z / 146097 + 1) by lia.
  replace ((z + 146097) mod 146097) with (z mod 146097) by lia.
  destruct (z mod 146097 <? 145731); repeat split; try exact H5; lia.
Qed.

Lemma day_P_all n : 0 <= n -> day_P n.
Proof. apply (period_lift 146097 day_P); [lia|exact day_P_base|exact day_P_step]. Qed.

(* days -> civil -> days, with the ranges of the fields *)
Theorem civil_roundtrip n : 0 <= n < n_days ->
  let '(y, m, d) := civil_from_days n in
  days_from_civil y m d = n /\ valid_date y m d.
Proof.
  intros Hn. pose proof (day_P_all n (proj1 Hn)) as H. unfold day_P, valid_date, n_days in *.
  destruct (civil_from_days n) as [[y m] d]. destruct H as (H1 & H2 & H3 & H4 & _).
  split; [exact H1|]. split; [|split; assumption].
  destruct (n mod 146097 <? 145731) eqn:E; lia.
Qed.

Lemma cfd_succ_lt n : 0 <= n -> lex_lt (civil_from_days n) (civil_from_days (n + 1)) = true.
Proof.
  intros Hn. pose proof (day_P_all n Hn) as H. unfold day_P in H.
  destruct (civil_from_days n) as [[y m] d]. tauto.
Qed.

(* civil_from_days is strictly increasing for the lexicographic order *)
Theorem cfd_mono a b : 0 <= a < b -> lex_lt (civil_from_days a) (civil_from_days b) = true.
Proof.
  intros [Ha Hab]. replace b with (a + 1 + (b - a - 1)) by lia.
  assert (Hk : 0 <= b - a - 1) by lia. revert Hk. generalize (b - a - 1) as k.
  apply natlike_ind.
  - rewrite Z.add_0_r. apply cfd_succ_lt; exact Ha.
  - intros k Hk IH. eapply lex_lt_trans; [exact IH|].
    replace (a + 1 + Z.succ k) with ((a + 1 + k) + 1) by lia. apply cfd_succ_lt. lia.
Qed.

(* ------------------------------------------------------------------ sweep 2: every date *)

Lemma date_sweep : sweep date_ok 148800 = true.
Proof. vm_cast_no_check (eq_refl true). Qed.

Definition date_P (y : Z) : Prop := forall m d, 1 <= m <= 12 -> 1 <= d <= days_in_month y m ->
  146097 * ((y - 1) / 400) <= days_from_civil y m d
    < 146097 * ((y - 1) / 400) + (if (y - 1) mod 400 <? 399 then 145731 else 146097) /\
  civil_from_days (days_from_civil y m d) = (y, m, d).

Lemma dim_le_31 y m : days_in_month y m <= 31.
Proof. unfold days_in_month. destruct (m =? 2); [destruct (is_leap y); lia|]. destruct (_ || _); lia. Qed.

Lemma dim_ge_28 y m : 28 <= days_in_month y m.
Proof. unfold days_in_month. destruct (m =? 2); [destruct (is_leap y); lia|]. destruct (_ || _); lia. Qed.

Lemma date_P_base y : 1 <= y <= 400 -> date_P y.
Proof.
  intros Hy m d Hm Hd. pose proof (dim_le_31 y m) as H31.
  set (i := (y - 1) * 372 + (m - 1) * 31 + (d - 1)).
  assert (Hi : 0 <= i < 148800) by (unfold i; lia).
  pose proof (sweep_sound _ _ date_sweep i Hi) as H. unfold date_ok in H.
  replace (i / 372 + 1) with y in H by (unfold i; lia).
  replace (i mod 372 / 31 + 1) with m in H by (unfold i; lia).
  replace (i mod 31 + 1) with d in H by (unfold i; lia).
  destruct (d <=? days_in_month y m) eqn:Ed; [|lia].
  replace ((y - 1) / 400) with 0 by lia. replace ((y - 1) mod 400) with (y - 1) by lia.
  unfold cycle_days in H.
  destruct (civil_from_days (days_from_civil y m d)) as [[y' m'] d'].
  destruct (y <=? 399) eqn:Ey; destruct (y - 1 <? 399) eqn:Ey'; try lia.
  - split; [lia|]. f_equal; [f_equal|]; lia.
  - split; [lia|]. f_equal; [f_equal|]; lia.
Qed.

Lemma date_P_step y : 1 <= y -> date_P y -> date_P (y + 400).
Proof.
  intros Hy H m d Hm Hd. rewrite dim_period in Hd. specialize (H m d Hm Hd). destruct H as [H1 H2].
  rewrite dfc_period, cfd_period, H2.
  replace ((y + 400 - 1) / 400) with ((y - 1) / 400 + 1) by lia.
  replace ((y + 400 - 1) mod 400) with ((y - 1) mod 400) by lia.
  split; [|reflexivity]. destruct ((y - 1) mod 400 <? 399); lia.
Qed.

Lemma date_P_all y : 1 <= y -> date_P y.
Proof.
  intros Hy. replace y with ((y - 1) + 1) by lia.
  apply (period_lift 400 (fun k => date_P (k + 1))); [lia| | |lia].
  - intros r Hr. apply date_P_base. lia.
  - intros z Hz H. replace (z + 400 + 1) with ((z + 1) + 400) by lia. apply date_P_step; [lia|exact H].
Qed.

(* civil -> days -> civil, with the range of the day number *)
Theorem civil_roundtrip_inv y m d : valid_date y m d ->
  0 <= days_from_civil y m d < n_days /\ civil_from_days (days_from_civil y m d) = (y, m, d).
Proof.
  intros (Hy & Hm & Hd). destruct (date_P_all y (proj1 Hy) m d Hm Hd) as [H1 H2].
  split; [|exact H2]. unfold n_days. destruct ((y - 1) mod 400 <? 399) eqn:E; lia.
Qed.

(* days_from_civil is strictly increasing on valid dates: lexicographic order = numeric order *)
Theorem dfc_mono y m d y' m' d' : valid_date y m d -> valid_date y' m' d' ->
  lex_lt (y, m, d) (y', m', d') = true -> days_from_civil y m d < days_from_civil y' m' d'.
Proof.
  intros V V' Hlt.
  destruct (civil_roundtrip_inv y m d V) as [R E]. destruct (civil_roundtrip_inv y' m' d' V') as [R' E'].
  destruct (Z_lt_ge_dec (days_from_civil y m d) (days_from_civil y' m' d')) as [Hl|Hg]; [exact Hl|exfalso].
  destruct (Z.eq_dec (days_from_civil y m d) (days_from_civil y' m' d')) as [Heq|Hne].
  - rewrite Heq in E. rewrite E' in E. rewrite E in Hlt. rewrite lex_lt_irrefl in Hlt. discriminate.
  - assert (Hm : lex_lt (civil_from_days (days_from_civil y' m' d')) (civil_from_days (days_from_civil y m d)) = true)
      by (apply cfd_mono; lia).
    rewrite E, E' in Hm. apply lex_lt_asym in Hm. congruence.
Qed.

Corollary dfc_mono_le y m d y' m' d' : valid_date y m d -> valid_date y' m' d' ->
  lex_le (y, m, d) (y', m', d') = true -> days_from_civil y m d <= days_from_civil y' m' d'.
Proof.
  intros V V' H. apply lex_le_lt_or_eq in H. destruct H as [H|H].
  - pose proof (dfc_mono _ _ _ _ _ _ V V' H). lia.
  - injection H as -> -> ->. lia.
Qed.

Corollary dfc_inj y m d y' m' d' : valid_date y m d -> valid_date y' m' d' ->
  days_from_civil y m d = days_from_civil y' m' d' -> (y, m, d) = (y', m', d').
Proof.
  intros V V' H. destruct (civil_roundtrip_inv _ _ _ V) as [_ E]. destruct (civil_roundtrip_inv _ _ _ V') as [_ E'].
  rewrite <- E, <- E', H. reflexivity.
Qed.

Lemma valid_dateb_iff y m d : valid_dateb y m d = true <-> valid_date y m d.
Proof. unfold valid_dateb, valid_date. lia. Qed.

Lemma dfc_day_linear y m d d' : days_from_civil y m d' = days_from_civil y m d + (d' - d).
Proof. unfold days_from_civil. lia. Qed.

(* ------------------------------------------------------------------ year lengths, day of year *)

Lemma year_end y : days_from_civil y 12 31 + 1 = days_from_civil (y + 1) 1 1.
Proof.
  unfold days_from_civil. change (12 <=? 2) with false. change (1 <=? 2) with true. cbv iota zeta.
  replace (y + 1 - 1) with y by lia. lia.
Qed.

Lemma year_step y : days_from_civil (y + 1) 1 1 = days_from_civil y 1 1 + days_in_year y.
Proof.
  unfold days_from_civil, days_in_year, is_leap. change (1 <=? 2) with true. cbv iota zeta.
  replace (y + 1 - 1) with y by lia.
  destruct (((y mod 4 =? 0) && negb (y mod 100 =? 0)) || (y mod 400 =? 0)) eqn:E; lia.
Qed.

Lemma valid_date_first y m d : valid_date y m d -> valid_date y m 1 /\ valid_date y 1 1 /\ valid_date y 12 31.
Proof.
  unfold valid_date. intros (Hy & Hm & Hd). pose proof (dim_ge_28 y m).
  repeat split; try lia; unfold days_in_month; cbn; lia.
Qed.

Theorem doy_range y m d : valid_date y m d -> 1 <= doy_of y m d <= days_in_year y.
Proof.
  intros V. destruct (valid_date_first y m d V) as (_ & V1 & V2). unfold doy_of.
  assert (H1 : days_from_civil y 1 1 <= days_from_civil y m d).
  { apply dfc_mono_le; [exact V1|exact V|]. unfold valid_date in V. unfold lex_le. lia. }
  assert (H2 : days_from_civil y m d <= days_from_civil y 12 31).
  { apply dfc_mono_le; [exact V|exact V2|]. unfold valid_date in V.
    pose proof (dim_le_31 y m). unfold lex_le. lia. }
  pose proof (year_end y). pose proof (year_step y). lia.
Qed.

(* day of year -> (month, day), including doy 366 of leap years *)
Theorem doy_roundtrip y m d : valid_date y m d -> of_doy y (doy_of y m d) = Some (m, d).
Proof.
  intros V. destruct (civil_roundtrip_inv y m d V) as [R E]. unfold of_doy, doy_of.
  replace (days_from_civil y 1 1 + (days_from_civil y m d - days_from_civil y 1 1 + 1) - 1)
    with (days_from_civil y m d) by lia.
  rewrite E. unfold valid_date in V.
  replace ((1 <=? y) && (y <=? 9999) && (0 <=? days_from_civil y m d) && (days_from_civil y m d <? n_days))
    with true by lia.
  reflexivity.
Qed.

(* (month, day) of a day-of-year inside the year: the date it denotes *)
Theorem of_doy_spec y n : 1 <= y <= 9999 -> 1 <= n <= days_in_year y ->
  exists m d, of_doy y n = Some (m, d) /\ valid_date y m d /\ doy_of y m d = n.
Proof.
  intros Hy Hn.
  assert (V1 : valid_date y 1 1) by (unfold valid_date, days_in_month; cbn; lia).
  destruct (civil_roundtrip_inv y 1 1 V1) as [R1 E1].
  assert (V2 : valid_date y 12 31) by (unfold valid_date, days_in_month; cbn; lia).
  destruct (civil_roundtrip_inv y 12 31 V2) as [R2 E2].
  pose proof (year_end y) as Ye. pose proof (year_step y) as Ys.
  set (k := days_from_civil y 1 1 + n - 1).
  assert (Hk : 0 <= k < n_days) by (unfold k; lia).
  pose proof (civil_roundtrip k Hk) as RT.
  unfold of_doy. fold k.
  replace ((1 <=? y) && (y <=? 9999) && (0 <=? k) && (k <? n_days)) with true by lia.
  destruct (civil_from_days k) as [[y' m] d] eqn:Ek. destruct RT as [RT V].
  assert (y' = y) as ->.
  { (* k lies between Jan 1 and Dec 31 of year y *)
    destruct (Z.eq_dec k (days_from_civil y 1 1)) as [Hk1|Hk1].
    - rewrite Hk1, E1 in Ek. congruence.
    - assert (L1 : lex_lt (civil_from_days (days_from_civil y 1 1)) (civil_from_days k) = true)
        by (apply cfd_mono; unfold k; lia).
      rewrite E1, Ek in L1.
      destruct (Z.eq_dec k (days_from_civil y 12 31)) as [Hk2|Hk2].
      + rewrite Hk2, E2 in Ek. congruence.
      + assert (L2 : lex_lt (civil_from_days k) (civil_from_days (days_from_civil y 12 31)) = true)
          by (apply cfd_mono; unfold k; lia).
        rewrite E2, Ek in L2. unfold lex_lt in L1, L2. lia. }
  exists m, d. split; [reflexivity|]. split; [exact V|]. unfold doy_of. rewrite RT. unfold k. lia.
Qed.

(* ------------------------------------------------------------------ datetimes *)

Lemma valid_day t : valid t -> 0 <= t / us_day < n_days.
Proof. unfold valid, dt_max, us_day, n_days. lia. Qed.

Lemma validb_iff t : validb t = true <-> valid t.
Proof. unfold validb, valid. lia. Qed.

(* datetime(...) succeeded: the result is in range and has exactly these fields *)
Theorem fields_mk y mo d h mi s us t : mk y mo d h mi s us = Some t ->
  valid t /\ fields t = Dt y mo d h mi s us.
Proof.
  unfold mk. destruct (valid_dateb y mo d) eqn:Ed; [|discriminate].
  destruct (valid_todb h mi s us) eqn:Et; [|discriminate]. cbn [andb]. intros [= <-].
  apply valid_dateb_iff in Ed. destruct (civil_roundtrip_inv _ _ _ Ed) as [R E].
  unfold valid_todb in Et. set (n := days_from_civil y mo d) in *.
  assert (Hq : (n * us_day + tod_us h mi s us) / us_day = n)
    by (unfold tod_us, us_day, us_second in *; lia).
  assert (Hr : (n * us_day + tod_us h mi s us) mod us_day = tod_us h mi s us)
    by (unfold tod_us, us_day, us_second in *; lia).
  split.
  - unfold valid, dt_max, n_days, tod_us, us_day, us_second in *. lia.
  - unfold fields. rewrite Hq, Hr, E.
    unfold tod_us, us_hour, us_minute, us_second in *. f_equal; lia.
Qed.

(* every datetime is built from its own fields *)
Theorem mk_fields t : valid t -> mk_dt (fields t) = Some t.
Proof.
  intros V. pose proof (valid_day t V) as Hd. pose proof (civil_roundtrip _ Hd) as RT.
  unfold mk_dt, fields. destruct (civil_from_days (t / us_day)) as [[y m] d]. destruct RT as [RT Vd].
  cbn [year month day hour minute second micro]. unfold mk.
  apply valid_dateb_iff in Vd. rewrite Vd, RT.
  replace (valid_todb _ _ _ _) with true
    by (unfold valid_todb, us_day, us_hour, us_minute, us_second; lia).
  cbn [andb]. f_equal. unfold tod_us, us_day, us_hour, us_minute, us_second. lia.
Qed.

Theorem fields_range t : valid t ->
  let f := fields t in
  valid_date (year f) (month f) (day f) /\ 0 <= hour f < 24 /\ 0 <= minute f < 60 /\
  0 <= second f < 60 /\ 0 <= micro f < 1000000.
Proof.
  intros V. pose proof (valid_day t V) as Hd. pose proof (civil_roundtrip _ Hd) as RT.
  unfold fields. destruct (civil_from_days (t / us_day)) as [[y m] d]. destruct RT as [RT Vd].
  cbn [year month day hour minute second micro]. split; [exact Vd|].
  unfold us_day, us_hour, us_minute, us_second. lia.
Qed.

(* mk is injective and monotone: comparing datetimes = comparing (date, time of day) *)
Theorem mk_inj y mo d h mi s us y' mo' d' h' mi' s' us' t :
  mk y mo d h mi s us = Some t -> mk y' mo' d' h' mi' s' us' = Some t ->
  Dt y mo d h mi s us = Dt y' mo' d' h' mi' s' us'.
Proof. intros H H'. apply fields_mk in H, H'. destruct H as [_ H], H' as [_ H']. congruence. Qed.

Theorem mk_date_mono y mo d h mi s us y' mo' d' h' mi' s' us' t t' :
  mk y mo d h mi s us = Some t -> mk y' mo' d' h' mi' s' us' = Some t' ->
  lex_lt (y, mo, d) (y', mo', d') = true -> t < t'.
Proof.
  unfold mk. destruct (valid_dateb y mo d) eqn:Ed; [|discriminate].
  destruct (valid_todb h mi s us) eqn:Et; [|discriminate].
  destruct (valid_dateb y' mo' d') eqn:Ed'; [|discriminate].
  destruct (valid_todb h' mi' s' us') eqn:Et'; [|discriminate].
  cbn [andb]. intros [= <-] [= <-] Hlt.
  apply valid_dateb_iff in Ed, Ed'. pose proof (dfc_mono _ _ _ _ _ _ Ed Ed' Hlt) as Hm.
  unfold valid_todb, tod_us, us_day, us_second in *. lia.
Qed.

(* ------------------------------------------------------------------ truncation *)

Lemma date_of_valid t : valid t ->
  let '(y, m, d) := date_of t in days_from_civil y m d = t / us_day /\ valid_date y m d.
Proof. intros V. unfold date_of. apply civil_roundtrip. apply valid_day. exact V. Qed.

Theorem trunc_le r t : valid t -> trunc_to r t <= t < trunc_to r t + period r.
Proof.
  intros V. pose proof (date_of_valid t V) as D. pose proof (valid_day t V) as Hd.
  destruct r; cbn [trunc_to period]; try (unfold us_day, us_hour, us_minute, us_second; lia).
  - destruct (date_of t) as [[y m] d]. destruct D as [E Vd].
    pose proof (doy_range y m d Vd) as R. unfold doy_of, days_in_year in R. rewrite E in R.
    destruct (is_leap y); unfold us_day in *; lia.
  - destruct (date_of t) as [[y m] d]. destruct D as [E Vd].
    rewrite (dfc_day_linear y m 1 d) in E. pose proof (dim_le_31 y m). unfold valid_date in Vd.
    unfold us_day in *. lia.
Qed.

Theorem trunc_mono r a b : valid a -> valid b -> a <= b -> trunc_to r a <= trunc_to r b.
Proof.
  intros Va Vb Hab.
  pose proof (date_of_valid a Va) as Da. pose proof (date_of_valid b Vb) as Db.
  pose proof (valid_day a Va) as Ha. pose proof (valid_day b Vb) as Hb.
  assert (Hday : a / us_day <= b / us_day) by (unfold us_day; lia).
  assert (Hlex : lex_le (date_of a) (date_of b) = true).
  { apply lex_le_lt_or_eq. unfold date_of.
    destruct (Z.eq_dec (a / us_day) (b / us_day)) as [->|Hne]; [right; reflexivity|].
    left. apply cfd_mono. lia. }
  destruct r; cbn [trunc_to]; try (unfold us_day, us_hour, us_minute, us_second; lia).
  - destruct (date_of a) as [[y m] d], (date_of b) as [[y' m'] d'].
    destruct Da as [_ Va'], Db as [_ Vb'].
    destruct (valid_date_first _ _ _ Va') as (_ & V1 & _). destruct (valid_date_first _ _ _ Vb') as (_ & V1' & _).
    assert (days_from_civil y 1 1 <= days_from_civil y' 1 1).
    { apply dfc_mono_le; [exact V1|exact V1'|]. unfold lex_le in *. lia. }
    unfold us_day. lia.
  - destruct (date_of a) as [[y m] d], (date_of b) as [[y' m'] d'].
    destruct Da as [_ Va'], Db as [_ Vb'].
    destruct (valid_date_first _ _ _ Va') as (V1 & _). destruct (valid_date_first _ _ _ Vb') as (V1' & _).
    assert (days_from_civil y m 1 <= days_from_civil y' m' 1).
    { apply dfc_mono_le; [exact V1|exact V1'|]. unfold lex_le in *. lia. }
    unfold us_day. lia.
Qed.

Theorem trunc_valid r t : valid t -> valid (trunc_to r t).
Proof.
  intros V. pose proof (trunc_le r t V) as H. pose proof (date_of_valid t V) as D.
  unfold valid in *. split; [|lia].
  destruct r; cbn [trunc_to]; try (unfold us_day, us_hour, us_minute, us_second; lia).
  - destruct (date_of t) as [[y m] d]. destruct D as [_ Vd].
    destruct (valid_date_first _ _ _ Vd) as (_ & V1 & _).
    destruct (civil_roundtrip_inv _ _ _ V1) as [R _]. unfold us_day. lia.
  - destruct (date_of t) as [[y m] d]. destruct D as [_ Vd].
    destruct (valid_date_first _ _ _ Vd) as (V1 & _).
    destruct (civil_roundtrip_inv _ _ _ V1) as [R _]. unfold us_day. lia.
Qed.

(* the fields of a truncated datetime: the coarse ones are kept, the fine ones reset *)
Theorem trunc_fields r t : valid t ->
  let f := fields t in
  fields (trunc_to r t) =
  match r with
  | RYear => Dt (year f) 1 1 0 0 0 0
  | RMonth => Dt (year f) (month f) 1 0 0 0 0
  | RDay => Dt (year f) (month f) (day f) 0 0 0 0
  | RHour => Dt (year f) (month f) (day f) (hour f) 0 0 0
  | RMinute => Dt (year f) (month f) (day f) (hour f) (minute f) 0 0
  | RSecond => Dt (year f) (month f) (day f) (hour f) (minute f) (second f) 0
  | RMilli => Dt (year f) (month f) (day f) (hour f) (minute f) (second f) (micro f / 1000 * 1000)
  | RMicro => f
  end.
Proof.
  intros V. pose proof (date_of_valid t V) as D. unfold date_of in D.
  destruct r; cbn [trunc_to]; cbv zeta.
  - unfold date_of, fields. destruct (civil_from_days (t / us_day)) as [[y m] d]. cbv beta iota.
    destruct D as [_ Vd]. cbn [year month day]. destruct (valid_date_first _ _ _ Vd) as (_ & V1 & _).
    destruct (civil_roundtrip_inv _ _ _ V1) as [_ E].
    replace (days_from_civil y 1 1 * us_day / us_day) with (days_from_civil y 1 1) by (unfold us_day; lia).
    replace (days_from_civil y 1 1 * us_day mod us_day) with 0 by (unfold us_day; lia).
    rewrite E. reflexivity.
  - unfold date_of, fields. destruct (civil_from_days (t / us_day)) as [[y m] d]. cbv beta iota.
    destruct D as [_ Vd]. cbn [year month day]. destruct (valid_date_first _ _ _ Vd) as (V1 & _).
    destruct (civil_roundtrip_inv _ _ _ V1) as [_ E].
    replace (days_from_civil y m 1 * us_day / us_day) with (days_from_civil y m 1) by (unfold us_day; lia).
    replace (days_from_civil y m 1 * us_day mod us_day) with 0 by (unfold us_day; lia).
    rewrite E. reflexivity.
  - unfold fields. replace (t / us_day * us_day / us_day) with (t / us_day) by (unfold us_day; lia).
    replace (t / us_day * us_day mod us_day) with 0 by (unfold us_day; lia).
    destruct (civil_from_days (t / us_day)) as [[y m] d]. reflexivity.
  - unfold fields. replace (t / us_hour * us_hour / us_day) with (t / us_day) by (unfold us_day, us_hour; lia).
    destruct (civil_from_days (t / us_day)) as [[y m] d]. cbn [year month day hour minute second micro].
    unfold us_day, us_hour, us_minute, us_second. f_equal; lia.
  - unfold fields. replace (t / us_minute * us_minute / us_day) with (t / us_day) by (unfold us_day, us_minute; lia).
    destruct (civil_from_days (t / us_day)) as [[y m] d]. cbn [year month day hour minute second micro].
    unfold us_day, us_hour, us_minute, us_second. f_equal; lia.
  - unfold fields. replace (t / us_second * us_second / us_day) with (t / us_day) by (unfold us_day, us_second; lia).
    destruct (civil_from_days (t / us_day)) as [[y m] d]. cbn [year month day hour minute second micro].
    unfold us_day, us_hour, us_minute, us_second. f_equal; lia.
  - unfold fields. replace (t / 1000 * 1000 / us_day) with (t / us_day) by (unfold us_day; lia).
    destruct (civil_from_days (t / us_day)) as [[y m] d]. cbn [year month day hour minute second micro].
    unfold us_day, us_hour, us_minute, us_second. f_equal; lia.
  - reflexivity.
Qed.

Theorem doy_fields t : valid t ->
  let f := fields t in doy t = doy_of (year f) (month f) (day f).
Proof.
  intros V. pose proof (date_of_valid t V) as D. unfold date_of in D.
  unfold doy, year_of, doy_of, fields. destruct (civil_from_days (t / us_day)) as [[y m] d].
  destruct D as [E _]. cbn [year month day]. lia.
Qed.

Theorem add_valid t d r : add t d = Some r -> valid r /\ r = t + d.
Proof. unfold add. destruct (validb (t + d)) eqn:E; [|discriminate]. intros [= <-]. apply validb_iff in E. tauto. Qed.

(* non-vacuity: leap day, doy 366, year ends, datetime.min / datetime.max *)
Example calendar_examples :
  days_from_civil 1 1 1 = 0 /\ days_from_civil 1970 1 1 = 719162 /\ days_from_civil 9999 12 31 = 3652058 /\
  civil_from_days 730178 = (2000, 2, 29) /\ is_leap 1900 = false /\ is_leap 2000 = true /\
  of_doy 2016 366 = Some (12, 31) /\ of_doy 2016 60 = Some (2, 29) /\ of_doy 2015 60 = Some (3, 1) /\
  doy_of 2016 12 31 = 366 /\
  mk 2016 2 29 23 59 58 123000 = Some 63592387198123000 /\ mk 2015 2 29 0 0 0 0 = None /\
  mk 9999 12 31 23 59 59 999999 = Some (dt_max - 1) /\ mk 1 1 1 0 0 0 0 = Some 0 /\
  trunc_to RMonth 63592387198123000 = 63589881600000000 /\
  fields 63589881600000000 = Dt 2016 2 1 0 0 0 0.
Proof. vm_compute. repeat split; reflexivity. Qed.
