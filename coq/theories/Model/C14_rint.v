(* C14 -- the Riemann integrals (Coquelicot) of the pieces of the piecewise-linear interpolant through (x_i, y_i).
   Definitions only. *)
From Coq Require Import Reals List.
From Coquelicot Require Import Coquelicot.
From Typhon Require Import Model.C14_column.
Import ListNotations.
Open Scope R_scope.

(* the Riemann integral of a real function (Coquelicot's RInt) *)
Definition integral (f : R -> R) (a b : R) : R := RInt f a b.

(* the list of segment integrals of the interpolant through (x_i, y_i) *)
Fixpoint segment_integrals (ys xs : list R) : list R :=
  match ys, xs with
  | y0 :: ((y1 :: _) as ys'), x0 :: ((x1 :: _) as xs') => RInt (line x0 y0 x1 y1) x0 x1 :: segment_integrals ys' xs'
  | _, _ => []
  end.
Fixpoint distinct_neighbours (xs : list R) : Prop :=
  match xs with a :: ((b :: _) as l') => a <> b /\ distinct_neighbours l' | _ => True end.

