(* C15 -- the serialisation the cache code really uses: a Gallina model of CPython's
   `json.dump(obj, file)` with its default arguments and of `json.load(file)`, for the subset of
   JSON the cache can hold (null, true/false, integers, strings, lists, dictionaries with string
   keys; NO floats: a cache never holds one unless a user puts it into an attribute, and the
   number syntax with a fraction or an exponent -- and NaN / Infinity -- is outside the model).
   Nothing but definitions.

   Texts are lists of code points (Z), as everywhere in Model/C15_cache.v.  With ensure_ascii=True
   (the default) json.dump writes ASCII only, so that for a written cache file code points and bytes
   are the same thing whatever the locale encoding of open() is.

   json.dump (CPython 3.12, Modules/_json.c + Lib/json/encoder.py, defaults):
     - item separator ", ", key separator ": ", no indentation, no sorting of keys;
     - strings in double quotes; \QUOTE \\ \n \r \t \b \f; every other character outside ' '..'~' as
       \uXXXX with lower-case hexadecimal digits, characters above U+FFFF as a surrogate pair;
     - integers in decimal; null, true, false.
   json.load = json.loads(file.read()) (Lib/json/decoder.py, scanner in Modules/_json.c, strict=True):
     - leading whitespace (space, \t, \n, \r), one value, trailing whitespace, nothing else;
     - strings: no raw character below U+0020; escapes \QUOTE \\ \/ \b \f \n \r \t \uXXXX (upper or
       lower case digits); a \uD800..\uDBFF escape directly followed by a \uDC00..\uDFFF escape is
       one character, otherwise surrogates stay as they are;
     - numbers: -? (0 | [1-9][0-9]* ); a following '.' 'e' 'E' either makes a float (outside the
       model) or leaves text no context accepts, so the model rejects at once;
     - objects: later duplicates of a key replace the value and keep the first position (dict). *)
From Coq Require Import ZArith List Bool.
From Typhon Require Import Model.C15_cache.
Import ListNotations.
Open Scope Z_scope.

(* ====================================================================================== *)
(* 1. json.dump                                                                            *)
(* ====================================================================================== *)
Definition hexdig (d : Z) : Z := if d <? 10 then 48 + d else 87 + d.      (* 0-9 a-f *)
Definition hex4 (x : Z) : str :=
  [hexdig (x / 4096 mod 16); hexdig (x / 256 mod 16); hexdig (x / 16 mod 16); hexdig (x mod 16)].
Definition uesc (x : Z) : str := 92 :: 117 :: hex4 x.                     (* \uXXXX *)

(* ascii_escape_unichar of _json.c *)
Definition esc_char (c : Z) : str :=
  if c =? 34 then [92; 34]              (* backslash quote *)
  else if c =? 92 then [92; 92]         (* \\ *)
  else if c =? 10 then [92; 110]        (* \n *)
  else if c =? 13 then [92; 114]        (* \r *)
  else if c =? 9 then [92; 116]         (* \t *)
  else if c =? 8 then [92; 98]          (* \b *)
  else if c =? 12 then [92; 102]        (* \f *)
  else if (32 <=? c) && (c <=? 126) then [c]
  else if c <? 65536 then uesc c
  else uesc (55296 + (c - 65536) / 1024) ++ uesc (56320 + (c - 65536) mod 1024).

Definition dump_string (s : str) : str := 34 :: flat_map esc_char s ++ [34].

(* decimal digits of n >= 0, most significant first; fuel f suffices for n < 2^f *)
Fixpoint dec_aux (fuel : nat) (n : Z) (acc : str) : str :=
  match fuel with
  | O => acc
  | S f => if n <? 10 then digit n :: acc else dec_aux f (n / 10) (digit (n mod 10) :: acc)
  end.
Definition dec (n : Z) : str := dec_aux (S (Z.to_nat (Z.log2 n))) n [].
Definition dump_int (n : Z) : str := if n <? 0 then 45 :: dec (- n) else dec n.

Definition c_null : str := [110; 117; 108; 108].
Definition c_true : str := [116; 114; 117; 101].
Definition c_false : str := [102; 97; 108; 115; 101].

(* texts joined by ", " *)
Fixpoint join (l : list str) : str :=
  match l with
  | [] => []
  | [x] => x
  | x :: t => x ++ 44 :: 32 :: join t
  end.

Fixpoint json_dump (v : json) : str :=
  match v with
  | JNull => c_null
  | JBool true => c_true
  | JBool false => c_false
  | JNum n => dump_int n
  | JStr s => dump_string s
  | JArr l => 91 :: join (map json_dump l) ++ [93]
  | JObj kv => 123 :: join (map (fun p => match p with
                                        | (k, x) => dump_string k ++ 58 :: 32 :: json_dump x
                                        end) kv) ++ [125]
  end.

(* ====================================================================================== *)
(* 2. json.load                                                                            *)
(* ====================================================================================== *)
Definition is_ws (c : Z) : bool := (c =? 32) || (c =? 9) || (c =? 10) || (c =? 13).
Fixpoint skip_ws (s : str) : str :=
  match s with
  | c :: r => if is_ws c then skip_ws r else s
  | [] => []
  end.

Definition hexval (c : Z) : option Z :=
  if (48 <=? c) && (c <=? 57) then Some (c - 48)
  else if (97 <=? c) && (c <=? 102) then Some (c - 87)
  else if (65 <=? c) && (c <=? 70) then Some (c - 55)
  else None.

Definition hex4val (s : str) : option (Z * str) :=
  match s with
  | a :: b :: c :: d :: r =>
      match hexval a, hexval b, hexval c, hexval d with
      | Some a, Some b, Some c, Some d => Some (((a * 16 + b) * 16 + c) * 16 + d, r)
      | _, _, _, _ => None
      end
  | _ => None
  end.

Definition is_high (x : Z) : bool := (55296 <=? x) && (x <=? 56319).
Definition is_low (x : Z) : bool := (56320 <=? x) && (x <=? 57343).

(* the second half of a surrogate pair, if the text goes on with one *)
Definition pair_low (s : str) : option (Z * str) :=
  match s with
  | b :: u :: r =>
      if (b =? 92) && (u =? 117) then
        match hex4val r with
        | Some (y, r') => if is_low y then Some (y, r') else None
        | None => None
        end
      else None
  | _ => None
  end.

Definition unescape (e : Z) : option Z :=
  if e =? 34 then Some 34 else if e =? 92 then Some 92 else if e =? 47 then Some 47
  else if e =? 98 then Some 8 else if e =? 102 then Some 12 else if e =? 110 then Some 10
  else if e =? 114 then Some 13 else if e =? 116 then Some 9 else None.

(* scanstring_unicode, after the opening quote; None = JSONDecodeError *)
Fixpoint scan_string (fuel : nat) (s : str) : option (str * str) :=
  match fuel with
  | O => None
  | S f =>
    match s with
    | [] => None                                           (* unterminated *)
    | c :: r =>
      if c =? 34 then Some ([], r)
      else if c =? 92 then
        match r with
        | [] => None
        | e :: r1 =>
          if e =? 117 then
            match hex4val r1 with
            | None => None                                 (* invalid \uXXXX escape *)
            | Some (x, r2) =>
              match (if is_high x then pair_low r2 else None) with
              | Some (y, r3) =>
                  match scan_string f r3 with
                  | Some (t, r') => Some (65536 + (x - 55296) * 1024 + (y - 56320) :: t, r')
                  | None => None
                  end
              | None =>
                  match scan_string f r2 with
                  | Some (t, r') => Some (x :: t, r')
                  | None => None
                  end
              end
            end
          else
            match unescape e with
            | None => None                                 (* invalid \escape *)
            | Some x => match scan_string f r1 with
                        | Some (t, r') => Some (x :: t, r')
                        | None => None
                        end
            end
        end
      else if c <=? 31 then None                           (* invalid control character *)
      else match scan_string f r with
           | Some (t, r') => Some (c :: t, r')
           | None => None
           end
    end
  end.

(* _match_number_unicode, integers only *)
Definition no_float_next (r : str) : bool :=
  match r with
  | c :: _ => negb ((c =? 46) || (c =? 101) || (c =? 69))
  | [] => true
  end.

Definition parse_nat (s : str) : option (Z * str) :=
  match s with
  | c :: r =>
      if c =? 48 then Some (0, r)                          (* a leading zero stands alone *)
      else if (49 <=? c) && (c <=? 57) then (let '(ds, r') := span_digits s in Some (num_of ds, r'))
      else None
  | [] => None
  end.

Definition parse_number (s : str) : option (json * str) :=
  match s with
  | c :: r =>
      match (if c =? 45 then parse_nat r else parse_nat s) with
      | Some (n, r') => if no_float_next r' then Some (JNum (if c =? 45 then - n else n), r') else None
      | None => None
      end
  | [] => None
  end.

Fixpoint strip_prefix (w s : str) : option str :=
  match w with
  | [] => Some s
  | a :: w' => match s with
               | c :: r => if c =? a then strip_prefix w' r else None
               | [] => None
               end
  end.

(* PyDict_SetItem *)
Fixpoint dict_set (k : str) (v : json) (d : list (str * json)) : list (str * json) :=
  match d with
  | [] => [(k, v)]
  | (k', v') :: t => if str_eqb k' k then (k', v) :: t else (k', v') :: dict_set k v t
  end.
Definition dict_of_pairs (l : list (str * json)) : list (str * json) :=
  fold_left (fun d p => dict_set (fst p) (snd p) d) l [].

Section Loops.
  Variable pv : str -> option (json * str).                (* scan_once with less fuel *)

  (* _parse_array_unicode after '[' and whitespace, the list being non-empty *)
  Fixpoint parse_elems (n : nat) (s : str) : option (list json * str) :=
    match n with
    | O => None
    | S n' =>
      match pv s with
      | None => None
      | Some (v, r) =>
        match skip_ws r with
        | c :: r' =>
            if c =? 93 then Some ([v], r')
            else if c =? 44 then
              match parse_elems n' (skip_ws r') with
              | Some (l, r'') => Some (v :: l, r'')
              | None => None
              end
            else None
        | [] => None
        end
      end
    end.

  (* _parse_object_unicode after '{' and whitespace, the object being non-empty *)
  Fixpoint parse_members (n : nat) (s : str) : option (list (str * json) * str) :=
    match n with
    | O => None
    | S n' =>
      match s with
      | q :: s1 =>
        if q =? 34 then
          match scan_string n' s1 with
          | None => None
          | Some (k, r) =>
            match skip_ws r with
            | c :: r1 =>
              if c =? 58 then
                match pv (skip_ws r1) with
                | None => None
                | Some (v, r2) =>
                  match skip_ws r2 with
                  | d :: r3 =>
                      if d =? 125 then Some ([(k, v)], r3)
                      else if d =? 44 then
                        match parse_members n' (skip_ws r3) with
                        | Some (l, r4) => Some ((k, v) :: l, r4)
                        | None => None
                        end
                      else None
                  | [] => None
                  end
                end
              else None
            | [] => None
            end
          end
        else None                                          (* expecting property name *)
      | [] => None
      end
    end.
End Loops.

(* scan_once_unicode *)
Fixpoint parse_value (fuel : nat) (s : str) : option (json * str) :=
  match fuel with
  | O => None
  | S f =>
    match s with
    | [] => None
    | c :: r =>
      if c =? 34 then
        match scan_string f r with
        | Some (x, r') => Some (JStr x, r')
        | None => None
        end
      else if c =? 91 then
        match skip_ws r with
        | d :: r' =>
            if d =? 93 then Some (JArr [], r')
            else match parse_elems (parse_value f) f (d :: r') with
                 | Some (l, r'') => Some (JArr l, r'')
                 | None => None
                 end
        | [] => None
        end
      else if c =? 123 then
        match skip_ws r with
        | d :: r' =>
            if d =? 125 then Some (JObj [], r')
            else match parse_members (parse_value f) f (d :: r') with
                 | Some (l, r'') => Some (JObj (dict_of_pairs l), r'')
                 | None => None
                 end
        | [] => None
        end
      else
        match strip_prefix c_null s with
        | Some r' => Some (JNull, r')
        | None =>
          match strip_prefix c_true s with
          | Some r' => Some (JBool true, r')
          | None =>
            match strip_prefix c_false s with
            | Some r' => Some (JBool false, r')
            | None => parse_number s
            end
          end
        end
    end
  end.

(* JSONDecoder.decode: whitespace, one value, whitespace, end *)
Definition json_load (s : str) : option json :=
  match parse_value (S (length s)) (skip_ws s) with
  | Some (v, r) => match skip_ws r with [] => Some v | _ :: _ => None end
  | None => None
  end.

(* ====================================================================================== *)
(* 3. the subset on which load (dump v) = v                                                *)
(* ====================================================================================== *)
(* Python strings whose \u escapes read back as written: code points 0..0x10FFFF, and no high
   surrogate directly followed by a low one (two such code points are written as two escapes and
   read back as ONE character).  Lone surrogates (os.fsdecode's surrogateescape) are fine. *)
Fixpoint str_ok (s : str) : bool :=
  match s with
  | [] => true
  | c :: r => (0 <=? c) && (c <=? 1114111) &&
              negb (is_high c && match r with d :: _ => is_low d | [] => false end) && str_ok r
  end.

Fixpoint keys_unique (ks : list str) : bool :=
  match ks with
  | [] => true
  | k :: t => negb (existsb (str_eqb k) t) && keys_unique t
  end.

Fixpoint json_ok (v : json) : bool :=
  match v with
  | JStr s => str_ok s
  | JArr l => forallb json_ok l
  | JObj kv => keys_unique (map fst kv) &&
               forallb (fun p => match p with (k, x) => str_ok k && json_ok x end) kv
  | _ => true
  end.
Definition in_subset (v : json) : Prop := json_ok v = true.

(* a cache whose paths and attributes are in the subset (times are digits and punctuation) *)
Definition cache_in_subset (c : cache) : Prop :=
  Forall (fun e => json_ok (e_path e) = true /\ json_ok (e_attr e) = true) c.
Definition cache_subsetb (c : cache) : bool :=
  forallb (fun e => json_ok (e_path e) && json_ok (e_attr e)) c.

(* ====================================================================================== *)
(* 4. lexical structure (specification side of "no proper prefix of a dumped list parses") *)
(* ====================================================================================== *)
(* outside a string / inside / directly after a backslash inside; nesting depth of [ and { *)
Inductive lmode := LOut | LIn | LEsc.
Definition lstep (st : lmode * Z) (c : Z) : lmode * Z :=
  match fst st with
  | LOut => if c =? 34 then (LIn, snd st)
            else if (c =? 91) || (c =? 123) then (LOut, snd st + 1)
            else if (c =? 93) || (c =? 125) then (LOut, snd st - 1)
            else (LOut, snd st)
  | LIn => if c =? 34 then (LOut, snd st) else if c =? 92 then (LEsc, snd st) else (LIn, snd st)
  | LEsc => (LIn, snd st)
  end.
Definition lex (st : lmode * Z) (s : str) : lmode * Z := fold_left lstep s st.

(* ====================================================================================== *)
(* 5. helpers for the correspondence                                                       *)
(* ====================================================================================== *)
(* first index at which two texts differ, -1 if they are equal *)
Fixpoint first_diff (i : Z) (a b : str) : Z :=
  match a, b with
  | [], [] => -1
  | x :: a', y :: b' => if x =? y then first_diff (i + 1) a' b' else i
  | _, _ => i
  end.

Definition accepts (o : option json) : bool := match o with Some _ => true | None => false end.

(* json.load's verdict on every prefix text[:k], k = 0 .. len(text) *)
Definition prefix_verdicts (text : str) : list bool :=
  map (fun k => accepts (json_load (firstn k text))) (seq 0 (S (length text))).

(* the whole chain in the model: save_cache's bytes, and what a restart makes of them *)
Definition run_json_roundtrip (c : cache) :=
  (json_dump (doc_of c), show_load (load_file json_load [] (Content (json_dump (doc_of c))))).
