(* C06 -- executable model of typhon/geographical.py: GeoIndex.__init__/query and to_kilometers.
   Nothing but definitions: the model must stay runnable when a proof breaks.

   Points are identified by their position in the arrays as passed in: build point i (0 <= i < n),
   query point j (0 <= j < m).  The spatial tree of scikit-learn is NOT modelled: it is the Section
   variable `rq` ("radius query") constrained by the explicit hypothesis `rq_spec`. *)
From Coq Require Import String ZArith QArith Qround List Bool Permutation.
From Coq Require Uint63.
Import ListNotations.

(* ------------------------------------------------------------------------------------------- *)
(* 1. The index logic of GeoIndex.query, generic in the type of distances.                      *)
(* ------------------------------------------------------------------------------------------- *)
Section Query.
  Variables D K : Type.
  Variables n m : nat.                  (* number of build points / query points *)
  Variable dist : nat -> nat -> D.      (* distance, in the unit of the tree, between build point i and query point j *)
  Variable within : D -> bool.          (* "d <= r" with r in the unit of the tree *)
  Variable out : D -> K.                (* conversion of a tree distance to kilometres *)

  (* GeoIndex.shuffler: None when shuffle=False, otherwise the array drawn by np.random.shuffle;
     the tree is built from points[shuffler], i.e. the stored position t holds build point shuffler[t]. *)
  Variable shuffler : option (list nat).

  Definition sigma : list nat := match shuffler with Some s => s | None => seq 0 n end.

  (* pairs[0, :] = self.shuffler[pairs[0, :]]   resp. nothing when the shuffler is None *)
  Definition translate (t : nat) : nat := match shuffler with Some s => nth t s 0%nat | None => t end.

  (* tree.query_radius(points, r, return_distance=True)[.., j]: the stored positions within r of query
     point j and their distances, in the order the tree reports them *)
  Variable rq : nat -> list (nat * D).

  Definition stored_dist (t j : nat) : D := dist (nth t sigma 0%nat) j.

  (* what a correct tree answers, up to order: hypothesis of every theorem, exercised by the check *)
  Definition rq_brute (j : nat) : list (nat * D) :=
    filter (fun td => within (snd td)) (map (fun t => (t, stored_dist t j)) (seq 0 (length sigma))).
  Definition rq_spec : Prop := forall j, (j < m)%nat -> Permutation (rq j) (rq_brute j).

  (* pairs = [[build_point, query_point] for query_point, build_points in enumerate(jagged_pairs)
              for build_point in build_points];  distances = hstack(jagged_distances) *)
  Definition raw_pairs : list (nat * nat * D) :=
    flat_map (fun j => map (fun td => (fst td, j, snd td)) (rq j)) (seq 0 m).

  Definition finish (x : nat * nat * D) : nat * nat * K :=
    (translate (fst (fst x)), snd (fst x), out (snd x)).

  (* the code after fixes/C06_1: `if not pairs.size: return pairs, pairs` *)
  Definition query_model : list (nat * nat * K) :=
    match raw_pairs with
    | [] => []
    | _ => map finish raw_pairs
    end.

  (* the code as found: `if not pairs.any(): return pairs, pairs` -- when every entry of the 2xN
     array is zero the untranslated array is returned (twice).  Only the index pairs are modelled. *)
  Definition all_zero (x : nat * nat * D) : bool := Nat.eqb (fst (fst x)) 0 && Nat.eqb (snd (fst x)) 0.
  Definition query_asis_pairs : list (nat * nat) :=
    if forallb all_zero raw_pairs then map fst raw_pairs
    else map (fun x => (translate (fst (fst x)), snd (fst x))) raw_pairs.

  (* The specification: all index pairs within the radius, each with its distance in kilometres. *)
  Definition prod_idx : list (nat * nat) := list_prod (seq 0 n) (seq 0 m).
  Definition spec : list (nat * nat * K) :=
    map (fun ij => (fst ij, snd ij, out (dist (fst ij) (snd ij))))
        (filter (fun ij => within (dist (fst ij) (snd ij))) prod_idx).

  Definition idx (x : nat * nat * K) : nat * nat := fst x.
End Query.

(* ------------------------------------------------------------------------------------------- *)
(* 2. Metrics: unit of the tree, radius handed to the tree, distances handed back (over Q).     *)
(* ------------------------------------------------------------------------------------------- *)
Inductive metric := Minkowski | Haversine.

(* R = typhon.constants.earth_radius in metres.
   Minkowski: the tree holds geocentric2cart(R, lat, lon) in metres, distances are chords in metres.
   Haversine: the tree holds (lat, lon) in radians, distances are central angles in radians. *)
(*   r = to_kilometers(r);  minkowski: r *= 1000.   haversine: r *= 1000. / earth_radius *)
Definition r_tree (R : Q) (mt : metric) (r_km : Q) : Q :=
  match mt with Minkowski => r_km * 1000 | Haversine => r_km * (1000 / R) end.

(* the code after fixes/C06_2: haversine distances are scaled by earth_radius / 1000 *)
Definition out_km (R : Q) (mt : metric) (d : Q) : Q :=
  match mt with Minkowski => d / 1000 | Haversine => d * (R / 1000) end.
(* the code as found: `distances /= 1000.` for both metrics *)
Definition out_km_asis (R : Q) (mt : metric) (d : Q) : Q := d / 1000.

Definition within_tree (R : Q) (mt : metric) (r_km : Q) (d : Q) : bool := Qle_bool d (r_tree R mt r_km).

(* what the unit of the tree means in kilometres: chord in m -> km; angle in rad -> arc length in km *)
Definition tree_km (R : Q) (mt : metric) (d : Q) : Q :=
  match mt with Minkowski => d / 1000 | Haversine => R * d / 1000 end.

Definition geo_query (R : Q) (mt : metric) (shuffler : option (list nat))
           (rq : nat -> list (nat * Q)) (m : nat) : list (nat * nat * Q) :=
  query_model Q Q m (out_km R mt) shuffler rq.

(* specification in kilometres only: pairs whose distance in km is at most r in km, with that distance *)
Definition geo_spec (R : Q) (mt : metric) (r_km : Q) (n m : nat) (dist : nat -> nat -> Q) : list (nat * nat * Q) :=
  map (fun ij => (fst ij, snd ij, tree_km R mt (dist (fst ij) (snd ij))))
      (filter (fun ij => Qle_bool (tree_km R mt (dist (fst ij) (snd ij))) r_km) (prod_idx n m)).

(* ------------------------------------------------------------------------------------------- *)
(* 3. to_kilometers                                                                             *)
(* ------------------------------------------------------------------------------------------- *)
Definition units_table := list (list string * Q).

Fixpoint lookup_unit (tbl : units_table) (u : string) : option Q :=
  match tbl with
  | [] => None
  | (names, f) :: t => if existsb (String.eqb u) names then Some f else lookup_unit t u
  end.

(* the argument r of query(): a number, or a string that split_units cut into (length, unit) *)
Inductive radius := RNum (x : Q) | RStr (x : Q) (u : string).

(* None = ValueError *)
Definition to_km (tbl : units_table) (r : radius) : option Q :=
  match r with
  | RNum x => Some x
  | RStr x u =>
      if Qeq_bool x 0 then None
      else if String.eqb u "" then Some x
      else match lookup_unit tbl u with Some f => Some (x * f) | None => None end
  end.

(* The definitions of the units (international yard and pound agreement of 1959; statute mile =
   1760 yd), in kilometres; spellings in sorted order. *)
Definition si_units : units_table :=
  [ (["centimeter"; "centimeters"; "cm"]%string, 1 # 100000);
    (["m"; "meter"; "meters"]%string, 1 # 1000);
    (["kilometer"; "kilometers"; "km"]%string, 1 # 1);
    (["mi"; "mile"; "miles"]%string, 1609344 # 1000000);
    (["yard"; "yards"; "yd"; "yds"]%string, 9144 # 10000000);
    (["feet"; "foot"; "ft"]%string, 3048 # 10000000) ].

Definition entry_equiv (a b : list string * Q) : Prop := fst a = fst b /\ snd a == snd b.
Definition table_equiv (a b : units_table) : Prop := Forall2 entry_equiv a b.

Definition opt_Qeq (a b : option Q) : Prop :=
  match a, b with Some x, Some y => x == y | None, None => True | _, _ => False end.

(* ------------------------------------------------------------------------------------------- *)
(* 4. Evaluation of generated cases (used by tools/props/c06.py through vm_compute)             *)
(*    Numbers travel as primitive 63-bit integers (a Z literal of 13 digits costs ~0.7 ms to     *)
(*    elaborate and ~2 ms to print; a primitive one 0.04 ms) and are turned into Z / nat here.   *)
(* ------------------------------------------------------------------------------------------- *)
Definition zi (x : PrimInt63.int) : Z := Uint63.to_Z x.
Definition ni (x : PrimInt63.int) : nat := Z.to_nat (Uint63.to_Z x).
Definition iz (z : Z) : PrimInt63.int := Uint63.of_Z z.

(* the double mant / 2^k, exactly *)
Definition pow2 (k : N) : positive := match k with N0 => 1%positive | Npos p => Pos.pow 2 p end.
Definition dbl (mant : Z) (k : N) : Q := Qmake mant (pow2 k).
Definition km_to_um (q : Q) : Z := Qfloor (q * 1000000000).

(* dense oracle matrix: row i = distances in micrometres (chord for Minkowski, great-circle arc for
   Haversine) from build point i to the query points 0..m-1 *)
Definition far : PrimInt63.int := Uint63.of_Z 4000000000000000000.
Definition oracle_m (mat : list (list PrimInt63.int)) (i j : nat) : Q :=
  inject_Z (zi (nth j (nth i mat []) far)) / 1000000.
Definition oracle_tree (R : Q) (mt : metric) (mat : list (list PrimInt63.int)) (i j : nat) : Q :=
  match mt with Minkowski => oracle_m mat i j | Haversine => oracle_m mat i j / R end.

Definition show (l : list (nat * nat * Q)) : list (PrimInt63.int * PrimInt63.int * PrimInt63.int) :=
  map (fun x => (iz (Z.of_nat (fst (fst x))), iz (Z.of_nat (snd (fst x))), iz (km_to_um (snd x)))) l.

Definition obs_rq (obs : list (list (PrimInt63.int * PrimInt63.int * PrimInt63.int))) (j : nat) : list (nat * Q) :=
  map (fun x => (ni (fst (fst x)), dbl (zi (snd (fst x))) (Z.to_N (zi (snd x))))) (nth j obs []).

Definition shuffler_of (s : option (list PrimInt63.int)) : option (list nat) :=
  match s with Some l => Some (map ni l) | None => None end.

(* one input (points as a dense matrix of oracle distances, metric, radius): the specification *)
Definition eval_spec (tbl : units_table) (R : Q) (mt : metric) (r : radius) (n m : PrimInt63.int)
           (mat : list (list PrimInt63.int)) : option (list (PrimInt63.int * PrimInt63.int * PrimInt63.int)) :=
  match to_km tbl r with
  | None => None
  | Some r_km => Some (show (geo_spec R mt r_km (ni n) (ni m) (oracle_tree R mt mat)))
  end.

(* one run of the real code on that input: the shuffler read back and the answers of the tree as observed *)
Definition eval_model (R : Q) (mt : metric) (m : PrimInt63.int) (s : option (list PrimInt63.int))
           (obs : list (list (PrimInt63.int * PrimInt63.int * PrimInt63.int)))
  : list (PrimInt63.int * PrimInt63.int * PrimInt63.int) :=
  show (geo_query R mt (shuffler_of s) (obs_rq obs) (ni m)).

(* the radius the model hands to the tree, as a rational p/q printed as (p, q) *)
Definition eval_r_tree (tbl : units_table) (R : Q) (mt : metric) (r : radius) : option (Z * Z) :=
  match to_km tbl r with
  | None => None
  | Some r_km => let q := Qred (r_tree R mt r_km) in Some (Qnum q, Zpos (Qden q))
  end.

Definition eval_to_km (tbl : units_table) (r : radius) : option (Z * Z) :=
  match to_km tbl r with
  | None => None
  | Some x => let q := Qred x in Some (Qnum q, Zpos (Qden q))
  end.
