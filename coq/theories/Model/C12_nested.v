(* C12 -- several compress / decompress blocks that are open at the same time.
   Nothing but definitions (the model must stay runnable when a proof breaks).

   Model/C12_compress.v describes ONE with-block as a function of its fault point; its temporary
   entries live in a name space of their own (fresh ids), so it cannot say what happens when two
   blocks are open together.  Here every temporary entry is a PATH in the same file system as the
   user's files, the name is chosen by an oracle (tempfile.NamedTemporaryFile / TemporaryDirectory),
   a block is split into its phases

       Enter i   -- the code up to the `yield`     (decompress 174-200, compress 64-75)
       Use i     -- the caller's body: read the yielded path (decompress) / write it (compress)
       Leave i e -- the code after the `yield`     (decompress 201-203: finally os.unlink;
                                                     compress 75-76: compress_as, rmtree of the directory);
                                                     e = the body left by an exception

   and a history is ANY list of such events over a list of blocks: the file system after block A's
   entry is the start state of block B's entry, and so on.

   `ideal_hist` is the specification: the same history when every block keeps its temporary copy in
   a private place nobody else can reach (the copy is a value stored in the handle).  The theorem
   (Props/C12.v, nested_blocks_independent) says that with an oracle that returns names that do not
   exist the two produce the same observations and the same files. *)
From Coq Require Import ZArith List Bool String Ascii.
From Typhon Require Import Model.C12_compress.
Import ListNotations.
Open Scope Z_scope.

(* compress 74: tfile = os.path.join(tdir, 'temp') *)
Definition tpath (d : str) : str := d ++ s2l "/temp".

Inductive blk :=
| BDec (name tmpdir : str)                                         (* with decompress(name, tmpdir) *)
| BComp (name : str) (fmtarg : option str) (content : bytes) (tmpdir : str).   (* with compress(name, fmt, tmpdir) *)

Definition blk_name (b : blk) : str := match b with BDec n _ => n | BComp n _ _ _ => n end.
Definition comp_targets (bs : list blk) : list str :=
  flat_map (fun b => match b with BComp n _ _ _ => [n] | BDec _ _ => [] end) bs.

Inductive ev := Enter (i : nat) | Use (i : nat) | Leave (i : nat) (exc : bool).

(* what an event lets the caller observe *)
Inductive obsv :=
| OSkip                                   (* the block is not open (or already open): nothing happens *)
| OEnter (raised : bool) (y : yielded)
| ORead (r : option bytes)                (* None: the yielded path does not exist *)
| OWrite
| OLeave (raised : bool).                 (* leaving raised an exception of its own *)

(* association lists keyed by the block index *)
Fixpoint look {A} (i : nat) (l : list (nat * A)) : option A :=
  match l with
  | [] => None
  | (k, x) :: t => if Nat.eqb k i then Some x else look i t
  end.
Fixpoint del {A} (i : nat) (l : list (nat * A)) : list (nat * A) :=
  match l with
  | [] => []
  | (k, x) :: t => if Nat.eqb k i then t else (k, x) :: del i t
  end.

Definition raisedb (o : outcome) : bool := match o with Raised => true | Done => false end.

(* ------------------------------------------------------------------ shared file system *)
Inductive handle :=
| HPassR (name : str)                                   (* decompress yielded the name itself *)
| HPassW (name : str) (content : bytes)                 (* compress yielded the name itself *)
| HCopy (p : str) (b : bytes)                           (* decompressed copy at path p; b = what was put there *)
| HDir (d name fmt : str) (content : bytes).            (* compress: live temporary directory d *)

(* the temporary paths a handle owns *)
Definition hpaths (h : handle) : list str :=
  match h with HCopy p _ => [p] | HDir d _ _ _ => [tpath d] | _ => [] end.
Definition tpaths (op : list (nat * handle)) : list str := flat_map (fun ih => hpaths (snd ih)) op.
Definition live_dirs (op : list (nat * handle)) : list str :=
  flat_map (fun ih => match snd ih with HDir d _ _ _ => [d] | _ => [] end) op.

Record nstate := mkN { n_fs : fsmap; n_open : list (nat * handle) }.

Section Nested.
  Variable known : str -> bool.
  Variable enc : str -> str -> bytes -> bytes.
  Variable encp : str -> bytes.
  Variable dec : str -> str -> bytes -> dres.
  (* the name oracles: file system, live temporary directories, tmpdir argument, archive name *)
  Variable freshf : fsmap -> list str -> str -> str -> str.    (* NamedTemporaryFile(dir=tmpdir, delete=False).name *)
  Variable freshd : fsmap -> list str -> str -> str.           (* TemporaryDirectory(dir=tmpdir).name *)

  Definition enter_blk (st : nstate) (i : nat) (b : blk) : nstate * obsv :=
    let fs := n_fs st in
    match b with
    | BDec name td =>
        let fmt := fmt_of_name name in
        if negb (known fmt) then (mkN fs ((i, HPassR name) :: n_open st), OEnter false YName)
        else
          let p := freshf fs (live_dirs (n_open st)) td name in
          let fs1 := fwrite p [] fs in                              (* 182: the copy is created empty *)
          match flook name fs1 with
          | None => (mkN (funlink p fs1) (n_open st), OEnter true YNone)
          | Some x =>
              match dec fmt (member_d name) x with
              | DErrOpen => (mkN (funlink p fs1) (n_open st), OEnter true YNone)
              | DErrRead w => (mkN (funlink p (fwrite p w fs1)) (n_open st), OEnter true YNone)
              | DOk pl => (mkN (fwrite p pl fs1) ((i, HCopy p pl) :: n_open st), OEnter false YTemp)
              end
          end
    | BComp name fa content td =>
        let fmt := eff_fmt name fa in
        if negb (known fmt) then (mkN fs ((i, HPassW name content) :: n_open st), OEnter false YName)
        else
          let d := freshd fs (live_dirs (n_open st)) td in
          (mkN fs ((i, HDir d name fmt content) :: n_open st), OEnter false YTemp)
    end.

  Definition use_handle (st : nstate) (h : handle) : nstate * obsv :=
    let fs := n_fs st in
    match h with
    | HPassR name => (st, ORead (flook name fs))
    | HCopy p _ => (st, ORead (flook p fs))
    | HPassW name c => (mkN (fwrite name c fs) (n_open st), OWrite)
    | HDir d _ _ c => (mkN (fwrite (tpath d) c fs) (n_open st), OWrite)
    end.

  (* the open list has already lost the handle *)
  Definition leave_handle (fs : fsmap) (h : handle) (exc : bool) : fsmap * obsv :=
    match h with
    | HPassR _ | HPassW _ _ => (fs, OLeave false)
    | HCopy p _ =>
        match flook p fs with
        | None => (fs, OLeave true)                      (* os.unlink: FileNotFoundError *)
        | Some _ => (funlink p fs, OLeave false)
        end
    | HDir d name fmt _ =>
        if exc then (funlink (tpath d) fs, OLeave false)  (* the exception passes through; the directory is removed *)
        else
          let '(fs', o) := compress_as known enc encp (flook (tpath d) fs) fmt name CNone fs in
          (funlink (tpath d) fs', OLeave (raisedb o))
    end.

  Definition step (bs : list blk) (st : nstate) (e : ev) : nstate * obsv :=
    match e with
    | Enter i =>
        match look i (n_open st), nth_error bs i with
        | None, Some b => enter_blk st i b
        | _, _ => (st, OSkip)
        end
    | Use i =>
        match look i (n_open st) with
        | Some h => use_handle st h
        | None => (st, OSkip)
        end
    | Leave i exc =>
        match look i (n_open st) with
        | Some h => let '(fs', o) := leave_handle (n_fs st) h exc in (mkN fs' (del i (n_open st)), o)
        | None => (st, OSkip)
        end
    end.

  Fixpoint run_hist (bs : list blk) (evs : list ev) (st : nstate) : nstate * list obsv :=
    match evs with
    | [] => (st, [])
    | e :: t => let '(st1, o) := step bs st e in
                let '(st2, os) := run_hist bs t st1 in (st2, o :: os)
    end.

  (* ------------------------------------------------------------------ the specification:
     every block keeps its temporary file where nobody else can reach it *)
  Inductive ihandle :=
  | IPassR (name : str)
  | IPassW (name : str) (content : bytes)
  | ICopy (b : bytes)                                            (* the private copy *)
  | IDir (name fmt : str) (content : bytes) (w : option bytes).  (* the private file 'temp' (None: not written) *)

  Record istate := mkI { i_fs : fsmap; i_open : list (nat * ihandle) }.

  Definition ienter_blk (st : istate) (i : nat) (b : blk) : istate * obsv :=
    let fs := i_fs st in
    match b with
    | BDec name td =>
        let fmt := fmt_of_name name in
        if negb (known fmt) then (mkI fs ((i, IPassR name) :: i_open st), OEnter false YName)
        else
          match flook name fs with
          | None => (st, OEnter true YNone)
          | Some x =>
              match dec fmt (member_d name) x with
              | DOk pl => (mkI fs ((i, ICopy pl) :: i_open st), OEnter false YTemp)
              | _ => (st, OEnter true YNone)
              end
          end
    | BComp name fa content td =>
        let fmt := eff_fmt name fa in
        if negb (known fmt) then (mkI fs ((i, IPassW name content) :: i_open st), OEnter false YName)
        else (mkI fs ((i, IDir name fmt content None) :: i_open st), OEnter false YTemp)
    end.

  Fixpoint upd {A} (i : nat) (v : A) (l : list (nat * A)) : list (nat * A) :=
    match l with
    | [] => []
    | (k, x) :: t => if Nat.eqb k i then (k, v) :: t else (k, x) :: upd i v t
    end.

  Definition iuse_handle (st : istate) (i : nat) (h : ihandle) : istate * obsv :=
    match h with
    | IPassR name => (st, ORead (flook name (i_fs st)))
    | ICopy b => (st, ORead (Some b))                            (* a block reads the bytes of ITS archive *)
    | IPassW name c => (mkI (fwrite name c (i_fs st)) (i_open st), OWrite)
    | IDir name fmt c _ => (mkI (i_fs st) (upd i (IDir name fmt c (Some c)) (i_open st)), OWrite)
    end.

  Definition ileave_handle (fs : fsmap) (h : ihandle) (exc : bool) : fsmap * obsv :=
    match h with
    | IPassR _ | IPassW _ _ | ICopy _ => (fs, OLeave false)      (* leaving raises nothing *)
    | IDir name fmt _ w =>
        if exc then (fs, OLeave false)
        else let '(fs', o) := compress_as known enc encp w fmt name CNone fs in (fs', OLeave (raisedb o))
    end.

  Definition istep (bs : list blk) (st : istate) (e : ev) : istate * obsv :=
    match e with
    | Enter i =>
        match look i (i_open st), nth_error bs i with
        | None, Some b => ienter_blk st i b
        | _, _ => (st, OSkip)
        end
    | Use i =>
        match look i (i_open st) with
        | Some h => iuse_handle st i h
        | None => (st, OSkip)
        end
    | Leave i exc =>
        match look i (i_open st) with
        | Some h => let '(fs', o) := ileave_handle (i_fs st) h exc in (mkI fs' (del i (i_open st)), o)
        | None => (st, OSkip)
        end
    end.

  Fixpoint ideal_hist (bs : list blk) (evs : list ev) (st : istate) : istate * list obsv :=
    match evs with
    | [] => (st, [])
    | e :: t => let '(st1, o) := istep bs st e in
                let '(st2, os) := ideal_hist bs t st1 in (st2, o :: os)
    end.
End Nested.

(* ------------------------------------------------------------------ hypotheses of the theorems
   `istmp` is the set of names the oracles may return.
   What NamedTemporaryFile(dir=tmpdir, delete=False) provides: a name that does not exist (the file is
   created with O_EXCL), that is not the file 'temp' of a live temporary directory, ... *)
Definition fresh_file_ok (istmp : str -> bool) (freshf : fsmap -> list str -> str -> str -> str) : Prop :=
  forall fs dirs td nm, let p := freshf fs dirs td nm in
    flook p fs = None /\ (forall d, In d dirs -> p <> tpath d) /\ istmp p = true.
(* ... what TemporaryDirectory(dir=tmpdir) provides: a directory that does not exist (mkdir fails
   otherwise), so no file exists inside it, ... *)
Definition fresh_dir_ok (istmp : str -> bool) (freshd : fsmap -> list str -> str -> str) : Prop :=
  forall fs dirs td, let d := freshd fs dirs td in
    ~ In d dirs /\ flook (tpath d) fs = None /\ istmp (tpath d) = true.
(* ... and the caller's own file names are not such names. *)
Definition user_names_ok (istmp : str -> bool) (bs : list blk) : Prop :=
  forall b, In b bs -> istmp (blk_name b) = false.

(* the name oracle of the seeded change C12-g: <tmpdir>/<archive name without the compression suffix> *)
Definition stem_name (_ : fsmap) (_ : list str) (td name : str) : str := td ++ sep :: member_d name.

(* ------------------------------------------------------------------ a concrete oracle (to RUN the model
   and to show that the oracle hypotheses are satisfiable): <tmpdir>/tmpxxx...x, longer than every
   existing path *)
Definition maxlen (l : list str) : nat := fold_right (fun s m => Nat.max (List.length s) m) 0%nat l.
Definition xs (n : nat) : str := repeat "x"%char n.
Definition tmp_name (td : str) (n : nat) : str := td ++ s2l "/tmp" ++ xs n.
Definition freshf0 (fs : fsmap) (dirs : list str) (td _ : str) : str :=
  tmp_name td (S (maxlen (map fst fs ++ map tpath dirs))).
Definition freshd0 (fs : fsmap) (dirs : list str) (td : str) : str :=
  tmp_name td (S (maxlen (map fst fs ++ dirs))).

(* names the oracle may return: they contain "/tmp" *)
Fixpoint prefixb (a l : str) : bool :=
  match a, l with
  | [], _ => true
  | x :: a', y :: l' => Ascii.eqb x y && prefixb a' l'
  | _ :: _, [] => false
  end.
Fixpoint containsb (a l : str) : bool :=
  prefixb a l || match l with [] => false | _ :: t => containsb a t end.
Definition istmp0 (p : str) : bool := containsb (s2l "/tmp") p.

(* ------------------------------------------------------------------ observations of a history, as
   flat lists the harness reproduces from the real run *)
Definition obs_code (o : obsv) : list Z :=
  match o with
  | OSkip => [0]
  | OEnter r y => [1; bool_z r; yield_z y]
  | ORead None => [2; 0]
  | ORead (Some b) => 2 :: 1 :: b
  | OWrite => [3]
  | OLeave r => [4; bool_z r]
  end.

(* number of temporary entries alive (top-level entries of the temporary directories) *)
Definition ntmp (st : nstate) : Z := Z.of_nat (List.length (tpaths (n_open st))).
Definition intmp (st : istate) : Z :=
  Z.of_nat (List.length (filter (fun ih => match snd ih with ICopy _ | IDir _ _ _ _ => true | _ => false end)
                                (i_open st))).

(* observations with the number of temporary entries after each event *)
Fixpoint run_codes (known : str -> bool) (freshf : fsmap -> list str -> str -> str -> str)
         (freshd : fsmap -> list str -> str -> str)
         (bs : list blk) (evs : list ev) (st : nstate) : nstate * list (list Z) :=
  match evs with
  | [] => (st, [])
  | e :: t => let '(st1, o) := step known toy_enc toy_encp toy_dec freshf freshd bs st e in
              let '(st2, os) := run_codes known freshf freshd bs t st1 in (st2, (ntmp st1 :: obs_code o) :: os)
  end.
Fixpoint ideal_codes (known : str -> bool) (bs : list blk) (evs : list ev) (st : istate)
  : istate * list (list Z) :=
  match evs with
  | [] => (st, [])
  | e :: t => let '(st1, o) := istep known toy_enc toy_encp toy_dec bs st e in
              let '(st2, os) := ideal_codes known bs t st1 in (st2, (intmp st1 :: obs_code o) :: os)
  end.

(* what the harness looks at afterwards, per watched path: [exists; same bytes as before] and, for
   the target of a compress block, the payload the codec of its format decodes from it *)
Definition watch (fs0 fs : fsmap) (p : str) : list Z :=
  [bool_z (match flook p fs with Some _ => true | None => false end);
   bool_z (opt_bytes_eqb (flook p fs0) (flook p fs))].
Definition decoded_targets (bs : list blk) (fs : fsmap) : list (option bytes) :=
  flat_map (fun b => match b with
                     | BComp n fa _ _ => [decode_target toy_dec (eff_fmt n fa) n fs]
                     | BDec _ _ => []
                     end) bs.

(* the laws of the property on the observations of a history, against what every block would see
   if it were alone (the ideal history).  Numbers continue those of spec_case:
    9  a decompress block read other bytes than those of its archive (or its copy had vanished)
   10  leaving a block raised an exception of its own
   11  a temporary entry remains after all blocks were left
   12  a file that is not the target of a compress block (an archive, a bystander) changed or vanished
   13  the target of an undisturbed compress block is not an archive of the bytes written in ITS block
   14  a block that can be entered when it is alone could not be entered (raised) beside the others *)
Definition zl_eqb (a b : list Z) : bool := zs_eqb a b.
Fixpoint law_events (ideal impl : list (list Z)) : list Z :=
  match ideal, impl with
  | (_ :: 2 :: 1 :: r) :: ti, (_ :: 2 :: r') :: tm => (if zl_eqb (1 :: r) r' then [] else [9]) ++ law_events ti tm
  | (_ :: [4; 0]) :: ti, (_ :: [4; 1]) :: tm => 10 :: law_events ti tm
  | (_ :: [1; 0; _]) :: ti, (_ :: 1 :: 1 :: _) :: tm => 14 :: law_events ti tm
  | _ :: ti, _ :: tm => law_events ti tm
  | _, _ => []
  end.
Definition last_count (l : list (list Z)) : Z := match last l [] with c :: _ => c | [] => 0 end.
Fixpoint all_eqb (a b : list (list Z)) : bool :=
  match a, b with
  | [], [] => true
  | x :: a', y :: b' => zl_eqb x y && all_eqb a' b'
  | _, _ => false
  end.
Fixpoint optl_eqb (a b : list (option bytes)) : bool :=
  match a, b with
  | [] , [] => true
  | x :: a', y :: b' => opt_bytes_eqb x y && optl_eqb a' b'
  | _, _ => false
  end.

Record hist_obs := mkH { ho_codes : list (list Z); ho_watch : list (list Z); ho_targets : list (option bytes) }.

Definition hist_laws (ideal impl : hist_obs) (all_left : bool) : list Z :=
  law_events (ho_codes ideal) (ho_codes impl)
  ++ (if all_left && (0 <? last_count (ho_codes impl)) then [11] else [])
  ++ (if all_eqb (ho_watch ideal) (ho_watch impl) then [] else [12])
  ++ (if all_left && negb (optl_eqb (ho_targets ideal) (ho_targets impl)) then [13] else []).

(* one line per generated history: the model's observations (shared file system, concrete fresh
   oracle), the ideal ones, the verdict of the laws on the implementation's observations and on the
   model's own *)
Definition eval_hist (tbl : list string) (bs : list blk) (evs : list ev) (fs0 : fsmap) (watched : list str)
           (impl_codes impl_watch : list (list Z)) (impl_targets : list (option bytes))
  : list (list Z) * list (list Z) * list (option bytes) * list Z * list Z :=
  let known := knownb tbl in
  let '(st, codes) := run_codes known freshf0 freshd0 bs evs (mkN fs0 []) in
  let '(ist, icodes) := ideal_codes known bs evs (mkI fs0 []) in
  let wl := watched in      (* the harness watches archives and bystanders; targets are judged by clause 13 *)
  let model := mkH codes (map (watch fs0 (n_fs st)) wl) (decoded_targets bs (n_fs st)) in
  let ideal := mkH icodes (map (watch fs0 (i_fs ist)) wl) (decoded_targets bs (i_fs ist)) in
  let all_left := match i_open ist with [] => true | _ => false end in
  (codes, ho_watch model, ho_targets model,
   hist_laws ideal (mkH impl_codes impl_watch impl_targets) all_left,
   hist_laws ideal model all_left).
