(* C18 -- model of typhon/retrieval/bmci/bmci.py (class BMCI).  Definitions only.

   Part 1 (discrete, executable): the index bookkeeping of the chi^2 pre-selection -- `searchsorted` on the
   database sorted along the projection, the window [i_l, i_u), and the x-sorted index view restricted and
   shifted to the window (`inds = where(i_l <= x_sorted_inds < i_u); inds = x_sorted_inds[inds] - i_l`).
   It is polymorphic in the key type (a boolean "less than"): the correspondence runs it on integer ranks of
   the doubles, the theorems instantiate it on R.

   Part 2 (real valued): Gaussian weights, predict, cdf, predict_quantiles over R.  Vectors are functions
   nat -> R with an explicit dimension m (so that bilinearity needs no length side conditions).
   The model follows the code AFTER the fixes C18_1 (np.nan) and C18_2 (empty window): a missing estimate is
   `None` (NaN), never an exception. *)
From Coq Require Import ZArith List Bool Reals.
Import ListNotations.

(* ------------------------------------------------------------------ Part 1: discrete bookkeeping *)

Definition slice {A} (i j : nat) (l : list A) : list A := firstn (j - i) (skipn i l).

(* numpy.searchsorted(ps, s, side='left') on an ascending array: the number of leading entries < s *)
Fixpoint searchsorted {A} (ltb : A -> A -> bool) (ps : list A) (s : A) : nat :=
  match ps with
  | [] => O
  | p :: r => if ltb p s then S (searchsorted ltb r s) else O
  end.

(* __find_hits: inds = searchsorted(pc1_proj, [s_l, s_u]) *)
Definition window {A} (ltb : A -> A -> bool) (ps : list A) (sl su : A) : nat * nat :=
  (searchsorted ltb ps sl, searchsorted ltb ps su).

Definition in_range (il iu k : nat) : bool := (il <=? k)%nat && (k <? iu)%nat.

(* inds = np.where((i_l <= x_sorted_inds) * (x_sorted_inds < i_u)); inds = x_sorted_inds[inds] - i_l *)
Definition view (xinds : list nat) (il iu : nat) : list nat :=
  map (fun k => (k - il)%nat) (filter (in_range il iu) xinds).

Definition take_idx {A} (d : A) (l : list A) (idx : list nat) : list A := map (fun k => nth k l d) idx.

(* xs = self.x[i_l:i_u][inds]   (and likewise ws = ws[inds]) *)
Definition view_of {A} (d : A) (l : list A) (xinds : list nat) (il iu : nat) : list A :=
  take_idx d (slice il iu l) (view xinds il iu).

(* boolean hypothesis checks used by the correspondence *)
Fixpoint sortedb {A} (leb : A -> A -> bool) (l : list A) : bool :=
  match l with
  | a :: ((b :: _) as r) => leb a b && sortedb leb r
  | _ => true
  end.

Fixpoint count_Z (k : Z) (l : list Z) : Z :=
  match l with [] => 0%Z | a :: r => ((if (a =? k)%Z then 1 else 0) + count_Z k r)%Z end.
Fixpoint zrange (start : Z) (len : nat) : list Z :=
  match len with O => [] | S k => start :: zrange (start + 1)%Z k end.
(* l is a permutation of 0 .. n-1 (every index occurs exactly once) *)
Definition is_perm_of_range (n : nat) (l : list Z) : bool :=
  (length l =? n)%nat && forallb (fun k => (count_Z k l =? 1)%Z) (zrange 0%Z n).

(* what the correspondence evaluates.  Once per instance: the x-sorted index view of the instance is an
   ascending index view of x (hypothesis of view_is_sorted_window). *)
Definition check_xview (xs : list Z) (zinds : list Z) : bool :=
  let xinds := map Z.to_nat zinds in
  is_perm_of_range (length xs) zinds && sortedb Z.leb (take_idx 0%Z xs xinds).

(* Per (observation, x2_max >= 0): projections ps (in database order), bounds sl su, x values in database
   order, the index view (indices written as Z in the case files: unary literals are slow to parse).  Result: projections ascending?, i_l, i_u, the x values of the view *)
Definition run_window (ps : list Z) (sl su : Z) (xs : list Z) (zinds : list Z)
  : bool * Z * Z * list Z :=
  let '(il, iu) := window Z.ltb ps sl su in
  (sortedb Z.leb ps, Z.of_nat il, Z.of_nat iu, view_of 0%Z xs (map Z.to_nat zinds) il iu).

(* the unrestricted mode: i_l = 0, i_u = n *)
Definition run_full (xs : list Z) (zinds : list Z) : list Z :=
  view_of 0%Z xs (map Z.to_nat zinds) 0 (length xs).

(* ------------------------------------------------------------------ Part 2: real-valued model *)
Open Scope R_scope.

Definition vec := nat -> R.
Definition mat := nat -> nat -> R.

Fixpoint dot (m : nat) (a b : vec) : R :=
  match m with O => 0 | S k => dot k a b + a k * b k end.
Definition mulmv (m : nat) (M : mat) (u : vec) : vec := fun i => dot m (M i) u.      (* M u   *)
Definition mulvm (m : nat) (u : vec) (M : mat) : vec := fun j => dot m u (fun i => M i j).  (* u^T M *)
Definition vsub (a b : vec) : vec := fun i => a i - b i.
Definition vadd (a b : vec) : vec := fun i => a i + b i.
Definition vscale (t : R) (a : vec) : vec := fun i => t * a i.

(* __gauss_prob: dy = y_database - y_obs; ws = dy * np.dot(dy, s_o_inv); exp(-0.5 * ws.sum(axis=1)) *)
Definition chi2 (m : nat) (Sinv : mat) (d : vec) : R := dot m d (mulvm m d Sinv).
Definition weight (m : nat) (Sinv : mat) (yobs yi : vec) : R := exp (- (1/2) * chi2 m Sinv (vsub yi yobs)).

Definition entry : Type := vec * R.            (* (y_i, x_i) *)

Fixpoint rsum (l : list R) : R := match l with [] => 0 | x :: t => x + rsum t end.

Definition gauss_prob (m : nat) (Sinv : mat) (yobs : vec) (db : list entry) : list R :=
  map (fun e => weight m Sinv yobs (fst e)) db.

Definition Rltb (a b : R) : bool := if Rlt_dec a b then true else false.
Definition Rleb (a b : R) : bool := if Rle_dec a b then true else false.

(* __init__: pc1_proj = dot(y - y_mean, pc1); the database is kept sorted along it *)
Definition proj (m : nat) (v ymean : vec) (y : vec) : R := dot m (vsub y ymean) v.
Definition projs (m : nat) (v ymean : vec) (db : list entry) : list R := map (fun e => proj m v ymean (fst e)) db.

(* __find_hits *)
Definition half_width (pc1_e x2 : R) : R := sqrt (2 * x2 / pc1_e).
Definition find_hits (m : nat) (v ymean : vec) (pc1_e : R) (db : list entry) (yobs : vec) (x2 : R) : nat * nat :=
  let yp := dot m v (vsub yobs ymean) in
  window Rltb (projs m v ymean db) (yp - half_width pc1_e x2) (yp + half_width pc1_e x2).

(* weights(y_obs, x2_max) -> (i_l, i_u, ws) *)
Definition weights (m : nat) (Sinv : mat) (v ymean : vec) (pc1_e : R) (db : list entry) (yobs : vec) (x2 : R)
  : nat * nat * list R :=
  if Rlt_dec x2 0 then (O, length db, gauss_prob m Sinv yobs db)
  else let '(il, iu) := find_hits m v ymean pc1_e db yobs x2 in
       (il, iu, gauss_prob m Sinv yobs (slice il iu db)).

(* predict for one observation, on the (x, w) pairs of the window:
     c = ws.sum(); if c > 0: xs = sum(x * ws / c); sigma = sqrt(sum((x - xs) ** 2 * ws / c)) else NaN *)
Definition predict_xw (xw : list (R * R)) : option (R * R) :=
  let c := rsum (map snd xw) in
  if Rlt_dec 0 c then
    let mean := rsum (map (fun p => fst p * snd p / c) xw) in
    Some (mean, sqrt (rsum (map (fun p => (fst p - mean) ^ 2 * snd p / c) xw)))
  else None.

Definition window_xw (m : nat) (Sinv : mat) (v ymean : vec) (pc1_e : R) (db : list entry) (yobs : vec) (x2 : R)
  : list (R * R) :=
  let '(il, iu, ws) := weights m Sinv v ymean pc1_e db yobs x2 in
  combine (map snd (slice il iu db)) ws.

Definition predict (m : nat) (Sinv : mat) (v ymean : vec) (pc1_e : R) (db : list entry) (yobs : vec) (x2 : R)
  : option (R * R) := predict_xw (window_xw m Sinv v ymean pc1_e db yobs x2).

(* the specification: importance-weighted mean and standard deviation of (x, w) pairs *)
Definition wmean (xw : list (R * R)) : R := rsum (map (fun p => snd p * fst p) xw) / rsum (map snd xw).
Definition wstd (xw : list (R * R)) : R :=
  sqrt (rsum (map (fun p => snd p * (fst p - wmean xw) ^ 2) xw) / rsum (map snd xw)).
Definition all_xw (m : nat) (Sinv : mat) (yobs : vec) (db : list entry) : list (R * R) :=
  map (fun e => (snd e, weight m Sinv yobs (fst e))) db.

(* cdf / predict_quantiles, on the (x, w) pairs of the window taken in the order of the x-sorted view *)
Fixpoint cumsum_from (acc : R) (l : list R) : list R :=
  match l with [] => [] | w :: r => (acc + w) :: cumsum_from (acc + w) r end.
Definition cumsum (l : list R) : list R := cumsum_from 0 l.

(* ws_cum = ws.cumsum(); if ws_cum.size > 0 and ws_cum[-1] > 0: ws_cum /= ws_cum[-1] else NaN *)
Definition cdf_xw (xw : list (R * R)) : list R * option (list R) :=
  let cs := cumsum (map snd xw) in
  let tot := last cs 0 in
  (map fst xw, if Rlt_dec 0 tot then Some (map (fun c => c / tot) cs) else None).

(* numpy.interp(t, xp, fp) for non-decreasing xp: constant outside, on the last segment with xp[j] <= t < xp[j+1]
   slope * (t - xp[j]) + fp[j] *)
Fixpoint interp_from (x0 f0 : R) (rest : list (R * R)) (t : R) : R :=
  match rest with
  | [] => f0
  | (x1, f1) :: r =>
      if Rlt_dec t x1 then (f1 - f0) / (x1 - x0) * (t - x0) + f0 else interp_from x1 f1 r t
  end.
Definition interp (pts : list (R * R)) (t : R) : option R :=
  match pts with
  | [] => None
  | (x0, f0) :: r => Some (if Rlt_dec t x0 then f0 else interp_from x0 f0 r t)
  end.

(* qs = np.interp(taus, ws_cum, xs) or NaN *)
Definition quantile_xw (xw : list (R * R)) (tau : R) : option R :=
  match cdf_xw xw with
  | (xs, Some cs) => interp (combine cs xs) tau
  | (_, None) => None
  end.

(* the (x, w) pairs of the window in view order *)
Definition view_xw (m : nat) (Sinv : mat) (v ymean : vec) (pc1_e : R) (db : list entry) (xinds : list nat)
  (yobs : vec) (x2 : R) : list (R * R) :=
  let '(il, iu, ws) := weights m Sinv v ymean pc1_e db yobs x2 in
  combine (view_of 0 (map snd db) xinds il iu) (take_idx 0 ws (view xinds il iu)).

Fixpoint nondecreasing (l : list R) : Prop :=
  match l with
  | a :: ((b :: _) as r) => a <= b /\ nondecreasing r
  | _ => True
  end.
